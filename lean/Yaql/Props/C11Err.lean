import Yaql.Props.C11
/-!
C11 on ERROR paths and for lazy values that NOTHING CONSUMES.

Part 4 (over `Yaql.EvalOrder.run`): an evaluation that ends in an exception has evaluated a PREFIX of what the same
expression evaluates when the failing call succeeds - every argument in front of the failure once, in order, nothing
behind it, nothing twice (`run_prefix`, `run_complete`, `run_of_noRaise`, `calls_prefix_of_probes`, `calls_nodup`);
the same for the one pass of `choose_overload` over arguments whose evaluation may raise (`evalPassE_prefix`,
`evalPassE_first_raise`).

Part 5: the per-element lambdas of a lazy value in a position that does not iterate it (truth / null test, condition or
branch of `switch` / `selectCase` / `coalesce`, element of a list or value of a dict that is dropped, argument handed on,
binding never read) are never applied (`unconsumed_never_fires`), and over `Yaql.PerElem`: a pipeline of ANY stages
over ANY source of which no result is asked for fires nothing (`not_consumed_no_application`), its first `k` results fire
what `take k` lets through (`consumed_prefix_only`).
-/
namespace Yaql.Props.C11
open Yaql.EvalOrder

/-! ## part 4: evaluations that end in an exception -/

/-- element-wise relation of two lists of the same length -/
inductive All2 {α β : Type} (P : α → β → Prop) : List α → List β → Prop
  | nil : All2 P [] []
  | cons {a b l m} : P a b → All2 P l m → All2 P (a :: l) (b :: m)

theorem app_sub {a a' b b' : List Nat} (h1 : a ⊆ a') (h2 : b ⊆ b') : a ++ b ⊆ a' ++ b' := by
  intro i hi
  simp only [List.mem_append] at hi ⊢
  exact hi.imp (fun h => h1 h) (fun h => h2 h)

/-- `r` is an evaluation of something whose complete log would be `t`: it got through a prefix of `t`, and through
    all of it unless it ended in an exception -/
def Upto (r : R) (t : List Nat) : Prop := r.1 <+: t ∧ (r.2 = false → r.1 = t)

theorem Upto.nil : Upto ([], false) [] := ⟨List.prefix_refl _, fun _ => rfl⟩

theorem thenR_upto {a b : R} {ta tb : List Nat} (ha : Upto a ta) (hb : Upto b tb) : Upto (thenR a b) (ta ++ tb) := by
  unfold thenR
  cases h : a.2 with
  | true =>
      simp only [if_true]
      exact ⟨ha.1.trans (List.prefix_append _ _), fun h' => by rw [h] at h'; cases h'⟩
  | false =>
      simp only [Bool.false_eq_true, if_false]
      rw [ha.2 h]
      exact ⟨(List.prefix_append_right_inj _).2 hb.1, fun h' => by rw [hb.2 h']⟩

theorem upto_left {a : R} {ta : List Nat} (tb : List Nat) (ha : Upto a ta) (hf : a.2 = true) : Upto a (ta ++ tb) :=
  ⟨ha.1.trans (List.prefix_append _ _), fun h' => by rw [hf] at h'; cases h'⟩

theorem seqRun_upto : ∀ {rs : List R} {ts : List (List Nat)}, All2 Upto rs ts → Upto (seqRun rs) ts.flatten
  | _, _, .nil => Upto.nil
  | _, _, .cons h t => by
      simp only [seqRun, List.flatten_cons]
      exact thenR_upto h (seqRun_upto t)

theorem untilFlagRun_upto : ∀ {rs : List R} {ts : List (List Nat)} (fs : List Bool), All2 Upto rs ts →
    Upto (untilFlagRun rs fs) (untilFlag ts fs)
  | _, _, _, .nil => by simp only [untilFlagRun, untilFlag]; exact Upto.nil
  | _, _, [], .cons h t => by
      simp only [untilFlagRun, untilFlag]
      exact thenR_upto h (untilFlagRun_upto [] t)
  | _, _, f :: fs, .cons h t => by
      simp only [untilFlagRun, untilFlag]
      cases f
      · simp only [Bool.false_eq_true, if_false]
        exact thenR_upto h (untilFlagRun_upto fs t)
      · simpa using h

theorem switchRun_upto : ∀ {cs : List R} {tc : List (List Nat)} (ts : List Bool) {vs : List R} {tv : List (List Nat)},
    All2 Upto cs tc → All2 Upto vs tv → Upto (switchRun cs ts vs) (switchTrace tc ts tv)
  | _, _, _, _, _, .nil, _ => by simp only [switchRun, switchTrace]; exact Upto.nil
  | _, _, [], _, _, .cons hc tc, .nil => by
      simp only [switchRun, switchTrace]
      exact thenR_upto hc (switchRun_upto [] tc .nil)
  | _, _, [], _, _, .cons hc tc, .cons _ tv => by
      simp only [switchRun, switchTrace]
      exact thenR_upto hc (switchRun_upto [] tc tv)
  | _, _, t :: ts, _, _, .cons hc tc, .nil => by
      simp only [switchRun, switchTrace]
      cases t
      · simp only [Bool.false_eq_true, if_false]
        exact thenR_upto hc (switchRun_upto ts tc .nil)
      · simpa using hc
  | _, _, t :: ts, _, _, .cons hc tc, .cons hv tv => by
      simp only [switchRun, switchTrace]
      cases t
      · simp only [Bool.false_eq_true, if_false]
        exact thenR_upto hc (switchRun_upto ts tc tv)
      · simp only [if_true]
        exact thenR_upto hc hv

theorem callsRun_upto {b : R} {tb : List Nat} (hb : Upto b tb) : ∀ (sl : List Bool) {os : List R} {tos : List (List Nat)},
    All2 Upto os tos → Upto (callsRun b sl os) (callsTrace tb sl tos)
  | [], _, _, _ => by simp only [callsRun, callsTrace]; exact Upto.nil
  | true :: ps, _, _, ho => by
      simp only [callsRun, callsTrace]
      exact thenR_upto hb (callsRun_upto hb ps ho)
  | false :: ps, _, _, .nil => by
      simp only [callsRun, callsTrace]
      exact callsRun_upto hb ps .nil
  | false :: ps, _, _, .cons h t => by
      simp only [callsRun, callsTrace]
      exact thenR_upto h (callsRun_upto hb ps t)

theorem getD_upto : ∀ {rs : List R} {ts : List (List Nat)} (i : Nat), All2 Upto rs ts →
    Upto (rs.getD i ([], false)) (ts.getD i [])
  | _, _, _, .nil => by simpa using Upto.nil
  | _, _, 0, .cons h _ => by simpa using h
  | _, _, i + 1, .cons _ t => by simpa using getD_upto i t

mutual
/-- **the log of an evaluation, failing or not, against the log of the same expression when no call fails** -/
theorem run_upto : ∀ (x : X), Upto (run x) (trace x)
  | .leaf => Upto.nil
  | .tick id a => by
      simp only [run, trace]
      exact thenR_upto (run_upto a) ⟨List.prefix_refl _, fun _ => rfl⟩
  | .eager ks => by simp only [run, trace]; exact seqRun_upto (runs_upto ks)
  | .and_ a b t => by
      simp only [run, trace]
      refine thenR_upto (run_upto a) ?_
      cases t
      · exact Upto.nil
      · exact run_upto b
  | .or_ a b t => by
      simp only [run, trace]
      refine thenR_upto (run_upto a) ?_
      cases t
      · exact run_upto b
      · exact Upto.nil
  | .elvis r n ks => by
      simp only [run, trace]
      refine thenR_upto (run_upto r) ?_
      cases n
      · exact seqRun_upto (runs_upto ks)
      · exact Upto.nil
  | .switch cs ts vs => by simp only [run, trace]; exact switchRun_upto ts (runs_upto cs) (runs_upto vs)
  | .selectCase ps ts => by simp only [run, trace]; exact untilFlagRun_upto ts (runs_upto ps)
  | .allCases ps => by simp only [run, trace]; exact seqRun_upto (runs_upto ps)
  | .switchCase c sel as => by
      simp only [run, trace]
      refine thenR_upto (run_upto c) ?_
      cases sel with
      | none => exact Upto.nil
      | some i => exact getD_upto i (runs_upto as)
  | .coalesce as ns => by simp only [run, trace]; exact untilFlagRun_upto _ (runs_upto as)
  | .defCalls b sl os => by simp only [run, trace]; exact callsRun_upto (run_upto b) sl (runs_upto os)
  | .raise_ ks => by
      simp only [run, trace]
      have hf : Upto (([], true) : R) [] := ⟨List.prefix_refl _, fun h' => by cases h'⟩
      have := thenR_upto (seqRun_upto (runs_upto ks)) hf
      simpa using this
  | .lazy b d => by simp only [run, trace]; exact seqRun_upto (runs_upto b)
theorem runs_upto : ∀ (l : List X), All2 Upto (runs l) (traces l)
  | [] => .nil
  | x :: r => .cons (run_upto x) (runs_upto r)
end

/-- **error paths**: whatever an evaluation that ends in an exception has logged is a prefix of the log of the same
    expression with the failing call succeeding - every probe in front of the failure fired as often and in the
    order it fires there (once each, left to right), none behind it, and none a second time -/
theorem run_prefix (x : X) : (run x).1 <+: trace x := (run_upto x).1

/-- an evaluation that does not end in an exception logs exactly `trace` -/
theorem run_complete (x : X) (h : (run x).2 = false) : (run x).1 = trace x := (run_upto x).2 h

/-! ### without a failing call there is no exception -/

theorem thenR_ok {a b : R} (ha : a.2 = false) (hb : b.2 = false) : (thenR a b).2 = false := by
  simp [thenR, ha, hb]

theorem seqRun_ok : ∀ {rs : List R}, (∀ r ∈ rs, r.2 = false) → (seqRun rs).2 = false
  | [], _ => rfl
  | t :: r, h => thenR_ok (h t (by simp)) (seqRun_ok fun q hq => h q (by simp [hq]))

theorem untilFlagRun_ok : ∀ {rs : List R} (fs : List Bool), (∀ r ∈ rs, r.2 = false) → (untilFlagRun rs fs).2 = false
  | [], _, _ => by simp [untilFlagRun]
  | t :: r, [], h => by
      simp only [untilFlagRun]
      exact thenR_ok (h t (by simp)) (untilFlagRun_ok [] fun q hq => h q (by simp [hq]))
  | t :: r, f :: fs, h => by
      simp only [untilFlagRun]
      cases f
      · simp only [Bool.false_eq_true, if_false]
        exact thenR_ok (h t (by simp)) (untilFlagRun_ok fs fun q hq => h q (by simp [hq]))
      · simpa using h t (by simp)

theorem switchRun_ok : ∀ {cs : List R} (ts : List Bool) {vs : List R}, (∀ r ∈ cs, r.2 = false) → (∀ r ∈ vs, r.2 = false) →
    (switchRun cs ts vs).2 = false
  | [], _, _, _, _ => by simp [switchRun]
  | c :: cs, [], [], hc, hv => by
      simp only [switchRun]
      exact thenR_ok (hc c (by simp)) (switchRun_ok [] (fun q hq => hc q (by simp [hq])) hv)
  | c :: cs, [], v :: vs, hc, hv => by
      simp only [switchRun]
      exact thenR_ok (hc c (by simp)) (switchRun_ok [] (fun q hq => hc q (by simp [hq])) fun q hq => hv q (by simp [hq]))
  | c :: cs, t :: ts, [], hc, hv => by
      simp only [switchRun]
      cases t
      · simp only [Bool.false_eq_true, if_false]
        exact thenR_ok (hc c (by simp)) (switchRun_ok ts (fun q hq => hc q (by simp [hq])) hv)
      · simpa using hc c (by simp)
  | c :: cs, t :: ts, v :: vs, hc, hv => by
      simp only [switchRun]
      cases t
      · simp only [Bool.false_eq_true, if_false]
        exact thenR_ok (hc c (by simp)) (switchRun_ok ts (fun q hq => hc q (by simp [hq])) fun q hq => hv q (by simp [hq]))
      · simp only [if_true]
        exact thenR_ok (hc c (by simp)) (hv v (by simp))

theorem callsRun_ok {b : R} (hb : b.2 = false) : ∀ (sl : List Bool) {os : List R}, (∀ r ∈ os, r.2 = false) →
    (callsRun b sl os).2 = false
  | [], _, _ => by simp [callsRun]
  | true :: ps, _, ho => by simp only [callsRun]; exact thenR_ok hb (callsRun_ok hb ps ho)
  | false :: ps, [], ho => by simp only [callsRun]; exact callsRun_ok hb ps ho
  | false :: ps, o :: os, ho => by
      simp only [callsRun]
      exact thenR_ok (ho o (by simp)) (callsRun_ok hb ps fun q hq => ho q (by simp [hq]))

theorem getD_ok : ∀ {rs : List R} (i : Nat), (∀ r ∈ rs, r.2 = false) → (rs.getD i ([], false)).2 = false
  | [], _, _ => by simp
  | t :: _, 0, h => by simpa using h t (by simp)
  | _ :: r, i + 1, h => by simpa using getD_ok (rs := r) i fun q hq => h q (by simp [hq])

mutual
theorem run_ok : ∀ (x : X), noRaise x = true → (run x).2 = false
  | .leaf, _ => rfl
  | .tick id a, h => by
      simp only [noRaise] at h
      simp only [run]; exact thenR_ok (run_ok a h) rfl
  | .eager ks, h => by
      simp only [noRaise] at h
      simp only [run]; exact seqRun_ok (runs_ok ks h)
  | .and_ a b t, h => by
      simp only [noRaise, Bool.and_eq_true] at h
      simp only [run]
      refine thenR_ok (run_ok a h.1) ?_
      cases t
      · rfl
      · exact run_ok b h.2
  | .or_ a b t, h => by
      simp only [noRaise, Bool.and_eq_true] at h
      simp only [run]
      refine thenR_ok (run_ok a h.1) ?_
      cases t
      · exact run_ok b h.2
      · rfl
  | .elvis r n ks, h => by
      simp only [noRaise, Bool.and_eq_true] at h
      simp only [run]
      refine thenR_ok (run_ok r h.1) ?_
      cases n
      · exact seqRun_ok (runs_ok ks h.2)
      · rfl
  | .switch cs ts vs, h => by
      simp only [noRaise, Bool.and_eq_true] at h
      simp only [run]; exact switchRun_ok ts (runs_ok cs h.1) (runs_ok vs h.2)
  | .selectCase ps ts, h => by
      simp only [noRaise] at h
      simp only [run]; exact untilFlagRun_ok ts (runs_ok ps h)
  | .allCases ps, h => by
      simp only [noRaise] at h
      simp only [run]; exact seqRun_ok (runs_ok ps h)
  | .switchCase c sel as, h => by
      simp only [noRaise, Bool.and_eq_true] at h
      simp only [run]
      refine thenR_ok (run_ok c h.1) ?_
      cases sel with
      | none => rfl
      | some i => exact getD_ok i (runs_ok as h.2)
  | .coalesce as ns, h => by
      simp only [noRaise] at h
      simp only [run]; exact untilFlagRun_ok _ (runs_ok as h)
  | .defCalls b sl os, h => by
      simp only [noRaise, Bool.and_eq_true] at h
      simp only [run]; exact callsRun_ok (run_ok b h.1) sl (runs_ok os h.2)
  | .raise_ ks, h => by simp [noRaise] at h
  | .lazy b d, h => by
      simp only [noRaise] at h
      simp only [run]; exact seqRun_ok (runs_ok b h)
theorem runs_ok : ∀ (l : List X), noRaiseL l = true → ∀ r ∈ runs l, r.2 = false
  | [], _ => by simp [runs]
  | x :: l, h => by
      simp only [noRaiseL, Bool.and_eq_true] at h
      intro r hr
      simp only [runs, List.mem_cons] at hr
      rcases hr with rfl | hr
      · exact run_ok x h.1
      · exact runs_ok l h.2 r hr
end

/-- the two evaluators agree wherever no call fails: `run` extends `trace` -/
theorem run_of_noRaise (x : X) (h : noRaise x = true) : run x = (trace x, false) := by
  have h2 := run_ok x h
  have h1 := run_complete x h2
  exact Prod.ext h1 h2

/-- a failing call fails: after its operands (unless one of them failed before) -/
theorem raise_fails (ks : List X) : (run (.raise_ ks)).2 = true := by
  simp only [run, thenR]
  split <;> simp_all

theorem raise_log (ks : List X) (h : noRaiseL ks = true) : (run (.raise_ ks)).1 = (traces ks).flatten := by
  have h2 := seqRun_ok (runs_ok ks h)
  have h1 := (seqRun_upto (runs_upto ks)).2 h2
  simp [run, thenR, h2, h1]

/-! ### the fragment of calls with eager parameters: the log at the point of failure is a prefix of the
    left-to-right order of the probes, each once -/

mutual
theorem calls_trace : ∀ (x : X), callsOnly x = true → trace x = probes x
  | .leaf, _ => rfl
  | .tick id a, h => by simp only [trace, probes, calls_trace a (by simpa [callsOnly] using h)]
  | .eager ks, h => by simp only [trace, probes, calls_traceL ks (by simpa [callsOnly] using h)]
  | .raise_ ks, h => by simp only [trace, probes, calls_traceL ks (by simpa [callsOnly] using h)]
  | .and_ .., h => by simp [callsOnly] at h
  | .or_ .., h => by simp [callsOnly] at h
  | .elvis .., h => by simp [callsOnly] at h
  | .switch .., h => by simp [callsOnly] at h
  | .selectCase .., h => by simp [callsOnly] at h
  | .allCases .., h => by simp [callsOnly] at h
  | .switchCase .., h => by simp [callsOnly] at h
  | .coalesce .., h => by simp [callsOnly] at h
  | .defCalls .., h => by simp [callsOnly] at h
  | .lazy .., h => by simp [callsOnly] at h
theorem calls_traceL : ∀ (l : List X), callsOnlyL l = true → traces l = probesL l
  | [], _ => rfl
  | x :: r, h => by
      simp only [callsOnlyL, Bool.and_eq_true] at h
      simp only [traces, probesL, calls_trace x h.1, calls_traceL r h.2]
end

/-- **eager arguments on an error path**: in an expression of calls with eager parameters, any of which may end in an
    exception, the log at the point of failure is a prefix of the probes in left-to-right (operand) order -/
theorem calls_prefix_of_probes (x : X) (h : callsOnly x = true) : (run x).1 <+: probes x := by
  rw [← calls_trace x h]; exact run_prefix x

/-- .. hence with numbered probes no probe fires twice, whether or not the evaluation ends in an exception -/
theorem calls_nodup (x : X) (h : callsOnly x = true) (hn : (probes x).Nodup) : (run x).1.Nodup :=
  hn.sublist (calls_prefix_of_probes x h).sublist

/-- the hypotheses are satisfiable, and the failure cuts the log where it should -/
example : run (.eager [.tick 1 .leaf, .raise_ [.tick 2 .leaf, .tick 3 .leaf], .tick 4 .leaf]) = ([1, 2, 3], true) := by decide
example : run (.eager [.tick 1 .leaf, .tick 5 (.raise_ []), .tick 4 .leaf]) = ([1], true) := by decide
example : trace (.eager [.tick 1 .leaf, .raise_ [.tick 2 .leaf, .tick 3 .leaf], .tick 4 .leaf]) = [1, 2, 3, 4] := by decide
example : callsOnly (.eager [.tick 1 .leaf, .raise_ [.tick 2 .leaf, .tick 3 .leaf], .tick 4 .leaf]) = true := by decide
/-- a failing call in an operand that is not selected is never reached -/
example : run (.and_ (.tick 1 .leaf) (.raise_ [.tick 2 .leaf]) false) = ([1], false) := by decide
example : run (.switch [.tick 1 .leaf, .tick 3 .leaf] [true, false] [.tick 2 (.raise_ []), .tick 4 .leaf]) = ([1], true) := by decide
example : run (.defCalls (.raise_ [.tick 1 .leaf]) [false, true, true] [.tick 2 .leaf]) = ([2, 1], true) := by decide
/-- an evaluation that is retried after the failure (what `run` excludes) would log `[1, 2, 1, 2]`: not a prefix -/
example : ¬ ([1, 2, 1, 2] <+: trace (.eager [.tick 1 .leaf, .raise_ [.tick 2 .leaf]])) := by decide

/-! ### the one pass of `choose_overload` over arguments whose evaluation may raise -/

open Yaql.Types Yaql.Resolve in
/-- `arg_evaluator` over the arguments left to right; `rs` says which arguments raise when they are evaluated (the
    `evalLog` of such an argument is what it logged before it raised) -/
def evalPassE : List Bool → List Arg → List Bool → List Nat × Bool
  | _, [], _ => ([], false)
  | lz, a :: r, rs =>
      if !lz.headD false && a.evaluable then
        (if rs.headD false then (a.evalLog, true) else thenR (a.evalLog, false) (evalPassE lz.tail r rs.tail))
      else evalPassE lz.tail r rs.tail

open Yaql.Types Yaql.Resolve in
/-- on an error path the log of the pass is a prefix of the log of the complete pass (`eager_once_in_order`: every eager
    non-constant argument once, left to right), and the whole of it when no argument raises -/
theorem evalPassE_prefix : ∀ (lz : List Bool) (args : List Arg) (rs : List Bool),
    Upto (evalPassE lz args rs) (eagerLog lz args)
  | _, [], _ => Upto.nil
  | lz, a :: r, rs => by
      simp only [evalPassE, eagerLog]
      cases h : (!lz.headD false && a.evaluable)
      · simpa using evalPassE_prefix lz.tail r rs.tail
      · simp only [if_true]
        cases h2 : rs.headD false
        · simp only [Bool.false_eq_true, if_false]
          exact thenR_upto ⟨List.prefix_refl _, fun _ => rfl⟩ (evalPassE_prefix lz.tail r rs.tail)
        · simp only [if_true]
          exact ⟨List.prefix_append _ _, fun h' => by cases h'⟩

open Yaql.Types Yaql.Resolve in
/-- .. and ends with the first eager argument that raises: nothing behind it is evaluated -/
theorem evalPassE_first_raise (lz : List Bool) (pre : List Arg) (a : Arg) (post : List Arg) (rs : List Bool)
    (hpre : rs.take pre.length = List.replicate pre.length false) (hlen : pre.length < rs.length)
    (ha : rs.getD pre.length false = true) (hev : (!(lz.drop pre.length).headD false && a.evaluable) = true) :
    evalPassE lz (pre ++ a :: post) rs = (eagerLog lz pre ++ a.evalLog, true) := by
  induction pre generalizing lz rs with
  | nil =>
      cases rs with
      | nil => simp at hlen
      | cons r0 rs =>
          simp only [List.length_nil, List.getD_cons_zero] at ha
          simp only [List.drop_zero, List.length_nil] at hev
          subst ha
          simp only [List.nil_append, evalPassE, hev, if_true, List.headD_cons, eagerLog]
  | cons p ps ih =>
      cases rs with
      | nil => simp at hlen
      | cons r0 rs =>
          simp only [List.length_cons, List.take_succ_cons, List.replicate_succ, List.cons.injEq] at hpre
          have hr0 : r0 = false := hpre.1
          subst hr0
          have hev' : (!((lz.tail).drop ps.length).headD false && a.evaluable) = true := by
            simpa [List.drop_tail, List.length_cons] using hev
          have := ih lz.tail rs hpre.2 (by simpa using hlen) (by simpa using ha) hev'
          simp only [List.cons_append, evalPassE, eagerLog, List.headD_cons, List.tail_cons, Bool.false_eq_true, if_false, this]
          split <;> simp [thenR]

/-! ## part 5: lazy values that nothing consumes -/

theorem untilFlag_subset : ∀ (ts : List (List Nat)) (fs : List Bool), untilFlag ts fs ⊆ ts.flatten
  | [], _ => by simp [untilFlag]
  | t :: r, [] => by
      simp only [untilFlag, List.flatten_cons]
      exact app_sub (List.Subset.refl _) (untilFlag_subset r [])
  | t :: r, f :: fs => by
      simp only [untilFlag, List.flatten_cons]
      cases f
      · simp only [Bool.false_eq_true, if_false]
        exact app_sub (List.Subset.refl _) (untilFlag_subset r fs)
      · simp

theorem switchTrace_subset : ∀ (cs : List (List Nat)) (ts : List Bool) (vs : List (List Nat)),
    switchTrace cs ts vs ⊆ cs.flatten ++ vs.flatten
  | [], _, _ => by simp [switchTrace]
  | c :: cs, [], [] => by
      have := switchTrace_subset cs [] []
      simp only [switchTrace, List.flatten_cons, List.flatten_nil, List.append_nil] at this ⊢
      exact app_sub (List.Subset.refl _) this
  | c :: cs, [], v :: vs => by
      have := switchTrace_subset cs [] vs
      simp only [switchTrace, List.flatten_cons]
      intro i hi
      simp only [List.mem_append] at hi ⊢
      rcases hi with hi | hi
      · exact Or.inl (Or.inl hi)
      · have := this hi
        simp only [List.mem_append] at this
        rcases this with h | h
        · exact Or.inl (Or.inr h)
        · exact Or.inr (Or.inr h)
  | c :: cs, t :: ts, [] => by
      have := switchTrace_subset cs ts []
      simp only [switchTrace, List.flatten_cons, List.flatten_nil, List.append_nil] at this ⊢
      cases t
      · simp only [Bool.false_eq_true, if_false]
        exact app_sub (List.Subset.refl _) this
      · simp
  | c :: cs, t :: ts, v :: vs => by
      have := switchTrace_subset cs ts vs
      simp only [switchTrace, List.flatten_cons]
      intro i hi
      cases t
      · simp only [Bool.false_eq_true, if_false, List.mem_append] at hi ⊢
        rcases hi with hi | hi
        · exact Or.inl (Or.inl hi)
        · have := this hi
          simp only [List.mem_append] at this
          rcases this with h | h
          · exact Or.inl (Or.inr h)
          · exact Or.inr (Or.inr h)
      · simp only [if_true, List.mem_append] at hi ⊢
        rcases hi with hi | hi
        · exact Or.inl (Or.inl hi)
        · exact Or.inr (Or.inl hi)

theorem callsTrace_subset (b : List Nat) : ∀ (sl : List Bool) (os : List (List Nat)), callsTrace b sl os ⊆ b ++ os.flatten
  | [], _ => by simp [callsTrace]
  | true :: ps, os => by
      simp only [callsTrace]
      intro i hi
      simp only [List.mem_append] at hi
      rcases hi with hi | hi
      · exact List.mem_append_left _ hi
      · exact callsTrace_subset b ps os hi
  | false :: ps, [] => by simp only [callsTrace]; exact callsTrace_subset b ps []
  | false :: ps, o :: os => by
      simp only [callsTrace, List.flatten_cons]
      intro i hi
      simp only [List.mem_append] at hi ⊢
      rcases hi with hi | hi
      · exact Or.inr (Or.inl hi)
      · have := callsTrace_subset b ps os hi
        simp only [List.mem_append] at this
        rcases this with h | h
        · exact Or.inl h
        · exact Or.inr (Or.inr h)

theorem getD_subset : ∀ (ts : List (List Nat)) (i : Nat), ts.getD i [] ⊆ ts.flatten
  | [], _ => by simp
  | t :: _, 0 => by simp
  | _ :: r, i + 1 => by
      simp only [List.getD_cons_succ, List.flatten_cons]
      exact fun _ h => List.mem_append_right _ (getD_subset r i h)

theorem flatten_subset_flatten : ∀ {a b : List (List Nat)}, All2 (· ⊆ ·) a b → a.flatten ⊆ b.flatten
  | _, _, .nil => by simp
  | _, _, .cons h t => by
      simp only [List.flatten_cons]
      exact app_sub h (flatten_subset_flatten t)

mutual
/-- whatever fires is awake: a probe inside a per-element lambda of a lazy value that nothing iterates never fires -/
theorem trace_subset_awake : ∀ (x : X), trace x ⊆ awake x
  | .leaf => by simp [trace]
  | .tick id a => by
      simp only [trace, awake]
      exact app_sub (trace_subset_awake a) (List.Subset.refl _)
  | .eager ks => by simp only [trace, awake]; exact flatten_subset_flatten (traces_subset_awake ks)
  | .and_ a b t => by
      simp only [trace, awake]
      refine app_sub (trace_subset_awake a) ?_
      cases t
      · simp
      · exact trace_subset_awake b
  | .or_ a b t => by
      simp only [trace, awake]
      refine app_sub (trace_subset_awake a) ?_
      cases t
      · exact trace_subset_awake b
      · simp
  | .elvis r n ks => by
      simp only [trace, awake]
      refine app_sub (trace_subset_awake r) ?_
      cases n
      · exact flatten_subset_flatten (traces_subset_awake ks)
      · simp
  | .switch cs ts vs => by
      simp only [trace, awake]
      exact (switchTrace_subset _ ts _).trans (app_sub
        (flatten_subset_flatten (traces_subset_awake cs)) (flatten_subset_flatten (traces_subset_awake vs)))
  | .selectCase ps ts => by
      simp only [trace, awake]
      exact (untilFlag_subset _ ts).trans (flatten_subset_flatten (traces_subset_awake ps))
  | .allCases ps => by simp only [trace, awake]; exact flatten_subset_flatten (traces_subset_awake ps)
  | .switchCase c sel as => by
      simp only [trace, awake]
      refine app_sub (trace_subset_awake c) ?_
      cases sel with
      | none => simp
      | some i => exact (getD_subset _ i).trans (flatten_subset_flatten (traces_subset_awake as))
  | .coalesce as ns => by
      simp only [trace, awake]
      exact (untilFlag_subset _ _).trans (flatten_subset_flatten (traces_subset_awake as))
  | .defCalls b sl os => by
      simp only [trace, awake]
      exact (callsTrace_subset _ sl _).trans (app_sub (trace_subset_awake b)
        (flatten_subset_flatten (traces_subset_awake os)))
  | .raise_ ks => by simp only [trace, awake]; exact flatten_subset_flatten (traces_subset_awake ks)
  | .lazy b d => by simp only [trace, awake]; exact flatten_subset_flatten (traces_subset_awake b)
theorem traces_subset_awake : ∀ (l : List X), All2 (· ⊆ ·) (traces l) (awakeL l)
  | [] => .nil
  | x :: r => .cons (trace_subset_awake x) (traces_subset_awake r)
end

/-- **not consumed -> no application**: if the probes inside the per-element lambdas of the lazy values have numbers
    of their own (no probe outside carries one of them), none of them is in the log of the expression - neither when
    the evaluation completes nor when it ends in an exception.  Truth and null tests (`and`, `or`, `not`, `bool`,
    conditions of `switch` / `selectCase` / `coalesce`, predicate results), lists and dicts that hold the value, calls
    that hand it on and `let` bindings are the operators of `X`: none of them iterates its operand. -/
theorem unconsumed_never_fires (x : X) (h : ∀ i ∈ dormant x, i ∉ awake x) :
    ∀ i ∈ dormant x, i ∉ trace x ∧ i ∉ (run x).1 := by
  intro i hi
  refine ⟨fun ht => h i hi (trace_subset_awake x ht), fun hr => ?_⟩
  exact h i hi (trace_subset_awake x ((run_prefix x).subset hr))

/-- `tick(1, [3, 1, 2]).orderBy(tick(2, $)) and tick(3, 5)`: the collection and the right operand, no key -/
example : trace (.and_ (.lazy [.tick 1 .leaf] [.tick 2 .leaf]) (.tick 3 .leaf) true) = [1, 3] := by decide
example : dormant (.and_ (.lazy [.tick 1 .leaf] [.tick 2 .leaf]) (.tick 3 .leaf) true) = [2] := by decide
example : ∀ i ∈ dormant (.and_ (.lazy [.tick 1 .leaf] [.tick 2 .leaf]) (.tick 3 .leaf) true),
    i ∉ awake (.and_ (.lazy [.tick 1 .leaf] [.tick 2 .leaf]) (.tick 3 .leaf) true) := by decide
/-- `switch(xs.where(tick(2, $)) => tick(3, xs.select(tick(4, $))))` stored in a list that is dropped -/
example : trace (.eager [.eager [.switch [.lazy [] [.tick 2 .leaf]] [true] [.tick 3 (.lazy [] [.tick 4 .leaf])], .tick 5 .leaf],
    .tick 6 .leaf]) = [3, 5, 6] := by decide

/-! ### the same over the stream model: results nobody asks for -/

open Yaql.PerElem

theorem runPipe_append (ms ns : List Stage) (I : Strm) : runPipe (ms ++ ns) I = runPipe ns (runPipe ms I) := by
  simp [runPipe, List.foldl_append]

/-- **a pipeline of ANY stages over ANY source of which no result is asked for fires nothing**: no element is pulled,
    so no per-element lambda (selector, predicate, key of an ordering, ..) is applied -/
theorem not_consumed_no_application (ms : List Stage) (I : Strm) :
    (runPipe (ms ++ [stageOf (.take 0)]) I).log = [] := by
  rw [runPipe_append]
  simp only [runPipe, List.foldl_cons, List.foldl_nil]
  exact take_zero_log _

theorem not_consumed_no_application_ops (ops : List Op) (src : Strm) : pipeLog (ops ++ [.take 0]) src = [] := by
  simp only [pipeLog, List.map_append, List.map_cons, List.map_nil]
  exact not_consumed_no_application _ _

/-- asking for k+1 results of a pipeline that has them fires what its first k+1 results carry, nothing of the rest -/
theorem consumed_prefix_only (ms : List Stage) (I : Strm) (k : Nat) (hk : k + 1 ≤ (runPipe ms I).outs.length) :
    (runPipe (ms ++ [stageOf (.take (k + 1))]) I).log = ((runPipe ms I).outs.take (k + 1)).flatten := by
  rw [runPipe_append]
  simp only [runPipe, List.foldl_cons, List.foldl_nil]
  exact take_log _ k hk

example : pipeLog [.select [.tick 1 .leaf, .tick 1 .leaf, .tick 1 .leaf], .filter [.tick 2 .leaf, .tick 2 .leaf, .tick 2 .leaf]
    [true, true, true], .take 0] (listSrc 3) = [] := by decide
example : pipeLog [.select [.tick 1 .leaf, .tick 1 .leaf, .tick 1 .leaf], .filter [.tick 2 .leaf, .tick 2 .leaf, .tick 2 .leaf]
    [true, true, true]] (listSrc 3) = [1, 2, 1, 2, 1, 2] := by decide

end Yaql.Props.C11
