import Yaql.Model.OpTable
import Yaql.Gen.OpTables
import Yaql.Props.C02Order
import Yaql.Props.C02Levels
import Yaql.Props.C02
/-!
C02, generated-table layer: what the LIVE yaql objects contain equals what the model computes.

`Gen.OpTables` is rewritten on every run from `/repo`: `factory.operators`, the `YaqlOperators`
returned by `_build_operator_table`, and the `precedence` tuple / rule docstrings / alias map of
the live `yaql.language.parser.Parser` rules object, for the default and the legacy factory, with
and without delegates.  Each theorem re-runs the Lean model on the dumped operator list and
compares, in the kernel.
-/
namespace Yaql.Props.C02Gen
open Yaql.OpTable Yaql.Gen.OpTables

/-- model of `_build_operator_table` followed by `_generate_operator_funcs` -/
def modelOf (ops : OpList) : Except BuildErr (Table × Generated) :=
  match buildOperatorTable ops with
  | .ok t => .ok (t, generateOperatorFuncs t)
  | .error e => .error e

/-- the live default operator list is `_standard_operators()` with `('=>', NAME_VALUE_PAIR)` in front -/
theorem default_ops : defaultOps = factoryOperators (some ['=', '>']) := by decide +kernel
theorem defaultDelegates_ops : defaultDelegatesOps = factoryOperators (some ['=', '>']) := by decide +kernel
/-- the live legacy operator list is what the model of `insert_operator('or', True, '=>', LEFT, True)` builds -/
theorem legacy_ops : legacyOperators = .ok legacyOps := by decide +kernel
theorem legacyDelegates_ops : legacyOperators = .ok legacyDelegatesOps := by decide +kernel

theorem default_tuple : modelOf defaultOps = .ok (defaultTable, defaultGenerated) := by decide +kernel
theorem defaultDelegates_tuple :
    modelOf defaultDelegatesOps = .ok (defaultDelegatesTable, defaultDelegatesGenerated) := by decide +kernel
theorem legacy_tuple : modelOf legacyOps = .ok (legacyTable, legacyGenerated) := by decide +kernel
theorem legacyDelegates_tuple :
    modelOf legacyDelegatesOps = .ok (legacyDelegatesTable, legacyDelegatesGenerated) := by decide +kernel

/-- the delegate-call rule `func : value '(' args ')'` is installed exactly when the factory allows it -/
theorem value_call_rule :
    defaultHasValueCall = defaultAllowDelegates ∧ defaultDelegatesHasValueCall = defaultDelegatesAllowDelegates ∧
    legacyHasValueCall = legacyAllowDelegates ∧ legacyDelegatesHasValueCall = legacyDelegatesAllowDelegates ∧
    defaultAllowDelegates = false ∧ defaultDelegatesAllowDelegates = true ∧
    legacyAllowDelegates = false ∧ legacyDelegatesAllowDelegates = true := by decide


/-! The side conditions of the table-layer theorems (`C02Levels.levels_contiguous`,
`C02Order.ply_order_iso`, `C02Iso.reduce_by_group`) hold for the live tables. -/

open Yaql.Props.C02Levels Yaql.Props.C02Order in
theorem live_tables_populated :
    Populated defaultOps ∧ Populated defaultDelegatesOps ∧ Populated legacyOps ∧ Populated legacyDelegatesOps := by
  decide +kernel

open Yaql.Props.C02Order in
theorem live_names_disjoint :
    NamesDisjoint (funcsOf defaultTable).pdict ∧ NamesDisjoint (funcsOf defaultDelegatesTable).pdict ∧
    NamesDisjoint (funcsOf legacyTable).pdict ∧ NamesDisjoint (funcsOf legacyDelegatesTable).pdict :=
  ⟨namesDisjoint_of_check _ (by decide +kernel), namesDisjoint_of_check _ (by decide +kernel),
   namesDisjoint_of_check _ (by decide +kernel), namesDisjoint_of_check _ (by decide +kernel)⟩


/-! The tree-layer theorems instantiated for the live tables. -/
section
open Yaql.Syntax Yaql.Props.C02

theorem live_no_amb :
    NoAmb (Cfg.ofTable defaultTable false) ∧ NoAmb (Cfg.ofTable defaultDelegatesTable true) ∧
    NoAmb (Cfg.ofTable legacyTable false) ∧ NoAmb (Cfg.ofTable legacyDelegatesTable true) :=
  ⟨noAmb_of_check _ (by decide +kernel), noAmb_of_check _ (by decide +kernel),
   noAmb_of_check _ (by decide +kernel), noAmb_of_check _ (by decide +kernel)⟩

/-- for the operator table of the live default engine: the parser returns exactly the `WF` trees -/
theorem default_engine_trees (toks : List Token) (t : Ast) :
    (parse (Cfg.ofTable defaultTable false) toks = .ok t →
      WF (Cfg.ofTable defaultTable false) t ∧ yield (Cfg.ofTable defaultTable false) t = toks.map norm) ∧
    (WF (Cfg.ofTable defaultTable false) t →
      parse (Cfg.ofTable defaultTable false) (yield (Cfg.ofTable defaultTable false) t) = .ok t) :=
  ⟨parse_sound _ _ _, parse_roundtrip _ live_no_amb.1 _⟩

theorem legacy_engine_trees (toks : List Token) (t : Ast) :
    (parse (Cfg.ofTable legacyTable false) toks = .ok t →
      WF (Cfg.ofTable legacyTable false) t ∧ yield (Cfg.ofTable legacyTable false) t = toks.map norm) ∧
    (WF (Cfg.ofTable legacyTable false) t →
      parse (Cfg.ofTable legacyTable false) (yield (Cfg.ofTable legacyTable false) t) = .ok t) :=
  ⟨parse_sound _ _ _, parse_roundtrip _ live_no_amb.2.2.1 _⟩

/-- `- 1 * 2 + 3 -> 4` under the live default table: `((-1 * 2) + 3) -> 4` -/
example :
    parse (Cfg.ofTable defaultTable false)
      [tOp ['-'], tok .number (.int 1), tOp ['*'], tok .number (.int 2), tOp ['+'], tok .number (.int 3),
       tOp ['-', '>'], tok .number (.int 4)] =
    .ok (.binary ['-', '>'] none
      (.binary ['+'] none
        (.binary ['*'] none (.unary ['-'] none (.const .number (.int 1))) (.const .number (.int 2)))
        (.const .number (.int 3)))
      (.const .number (.int 4))) := by rfl
end

end Yaql.Props.C02Gen
