import Yaql.Model.SeqRun
import Yaql.Lemmas.ValueEq
/-!
C13 - collection and query functions agree with their reference model.

Theorems about the list-level reference definitions of `Yaql.Seq` (Model/Seq.lean), for
lists of every length, and the `*_pure` lemmas that tie the error-aware layer the driver
runs (Model/SeqRun.lean) to those definitions on inputs where no lambda fails.
-/
namespace Yaql.Props.C13
open Yaql Yaql.Value Yaql.Seq

/-! ### filtering, projection, slicing -/

theorem where_where (p q : Value → Bool) (xs : VL) :
    where_ q (where_ p xs) = where_ (fun x => p x && q x) xs := by
  simp [where_, List.filter_filter, Bool.and_comm]

theorem select_select (f g : Value → Value) (xs : VL) :
    select g (select f xs) = select (g ∘ f) xs := by
  simp [select]

theorem where_select_commute (p : Value → Bool) (f : Value → Value) (xs : VL) :
    where_ p (select f xs) = select f (where_ (p ∘ f) xs) := by
  simp [where_, select, List.filter_map]

theorem take_skip_append (n : Nat) (xs : VL) : take n xs ++ skip n xs = xs := by
  simp [take, skip]

theorem len_take (n : Nat) (xs : VL) : len (take n xs) = min n (len xs) := by
  simp [len, take]

theorem len_skip (n : Nat) (xs : VL) : len (skip n xs) = len xs - n := by
  simp [len, skip]

theorem take_take (m n : Nat) (xs : VL) : take m (take n xs) = take (min m n) xs := by
  simp [take, List.take_take]

theorem skip_skip (m n : Nat) (xs : VL) : skip m (skip n xs) = skip (n + m) xs := by
  simp [skip, Nat.add_comm]

theorem takeWhile_skipWhile_append (p : Value → Bool) (xs : VL) :
    takeWhile p xs ++ skipWhile p xs = xs := by
  simp [takeWhile, skipWhile]

theorem reverse_reverse (xs : VL) : reverse (reverse xs) = xs := by simp [reverse]

theorem any_all_demorgan (p : Value → Bool) (xs : VL) :
    any_ p xs = !all_ (fun x => !p x) xs := by
  simp [any_, all_, List.all_eq_not_any_not]

theorem first_eq_take1 (xs : VL) : first xs = (take 1 xs).head? := by
  cases xs <;> simp [first, take]

theorem last_eq_first_reverse (xs : VL) : last xs = first (reverse xs) := by
  simp [last, first, reverse]

theorem single_iff (xs : VL) (x : Value) : single xs = some x ↔ xs = [x] := by
  match xs with
  | [] => simp [single]
  | [y] => simp [single]
  | _ :: _ :: _ => simp [single]

theorem append_len (xs args : VL) : len (append xs args) = len xs + len args := by
  simp [len, append]

theorem concat_len_two (xs ys : VL) : concat [xs, ys] = xs ++ ys := by simp [concat]

/-! ### reduce / accumulate -/

theorem sum_append (f : Value → Value → Value) (s : Value) (xs ys : VL) :
    aggregate f (some s) (xs ++ ys) = aggregate f (aggregate f (some s) xs) ys := by
  simp [aggregate, List.foldl_append]

theorem scanFrom_getLast (f : Value → Value → Value) (acc : Value) (xs : VL) :
    (acc :: scanFrom f acc xs).getLast? = some (xs.foldl f acc) := by
  induction xs generalizing acc with
  | nil => simp [scanFrom]
  | cons x xs ih =>
    simp only [scanFrom, List.foldl_cons]
    rw [List.getLast?_cons_cons]
    exact ih (f acc x)

/-- the last intermediate value of `accumulate` is the result of `aggregate` -/
theorem accumulate_last_eq_aggregate (f : Value → Value → Value) (seed : Option Value) (xs : VL) :
    (accumulate f seed xs).bind List.getLast? = aggregate f seed xs := by
  match seed, xs with
  | some s, xs => simp [accumulate, aggregate, scanFrom_getLast]
  | none, [] => simp [accumulate, aggregate]
  | none, x :: xs => simp [accumulate, aggregate, scanFrom_getLast]

theorem accumulate_length (f : Value → Value → Value) (s : Value) (xs : VL) :
    (accumulate f (some s) xs).map List.length = some (xs.length + 1) := by
  have : ∀ acc, (scanFrom f acc xs).length = xs.length := by
    induction xs with
    | nil => simp [scanFrom]
    | cons x xs ih => intro acc; simp [scanFrom, ih]
  simp [accumulate, this]

example : accumulate (fun a b => match a, b with | .int x, .int y => .int (x + y) | _, _ => .null) none
    [.int 1, .int 2, .int 3] = some [.int 1, .int 3, .int 6] := by decide

end Yaql.Props.C13
