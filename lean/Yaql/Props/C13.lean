import Yaql.Model.SeqRun
import Yaql.Lemmas.ValueEq
/-!
C13 - collection and query functions agree with their reference model.

Theorems about the list-level reference definitions of `Yaql.Seq` (Model/Seq.lean), for
lists of every length, and the `*_pure` lemmas that tie the error-aware layer the driver
runs (Model/SeqRun.lean) to those definitions on inputs where no lambda fails.
-/
namespace Yaql.Props.C13
open Yaql Yaql.Value Yaql.Seq

/-! ### filtering, projection, slicing -/

theorem where_where (p q : Value → Bool) (xs : VL) :
    where_ q (where_ p xs) = where_ (fun x => p x && q x) xs := by
  simp [where_, List.filter_filter, Bool.and_comm]

theorem select_select (f g : Value → Value) (xs : VL) :
    select g (select f xs) = select (g ∘ f) xs := by
  simp [select]

theorem where_select_commute (p : Value → Bool) (f : Value → Value) (xs : VL) :
    where_ p (select f xs) = select f (where_ (p ∘ f) xs) := by
  simp [where_, select, List.filter_map]

theorem take_skip_append (n : Nat) (xs : VL) : take n xs ++ skip n xs = xs := by
  simp [take, skip]

theorem len_take (n : Nat) (xs : VL) : len (take n xs) = min n (len xs) := by
  simp [len, take]

theorem len_skip (n : Nat) (xs : VL) : len (skip n xs) = len xs - n := by
  simp [len, skip]

theorem take_take (m n : Nat) (xs : VL) : take m (take n xs) = take (min m n) xs := by
  simp [take, List.take_take]

theorem skip_skip (m n : Nat) (xs : VL) : skip m (skip n xs) = skip (n + m) xs := by
  simp [skip, Nat.add_comm]

theorem takeWhile_skipWhile_append (p : Value → Bool) (xs : VL) :
    takeWhile p xs ++ skipWhile p xs = xs := by
  simp [takeWhile, skipWhile]

theorem reverse_reverse (xs : VL) : reverse (reverse xs) = xs := by simp [reverse]

theorem any_all_demorgan (p : Value → Bool) (xs : VL) :
    any_ p xs = !all_ (fun x => !p x) xs := by
  simp [any_, all_, List.all_eq_not_any_not]

theorem first_eq_take1 (xs : VL) : first xs = (take 1 xs).head? := by
  cases xs <;> simp [first, take]

theorem last_eq_first_reverse (xs : VL) : last xs = first (reverse xs) := by
  simp [last, first, reverse]

theorem single_iff (xs : VL) (x : Value) : single xs = some x ↔ xs = [x] := by
  match xs with
  | [] => simp [single]
  | [y] => simp [single]
  | _ :: _ :: _ => simp [single]

theorem append_len (xs args : VL) : len (append xs args) = len xs + len args := by
  simp [len, append]

theorem concat_len_two (xs ys : VL) : concat [xs, ys] = xs ++ ys := by simp [concat]

/-! ### reduce / accumulate -/

theorem sum_append (f : Value → Value → Value) (s : Value) (xs ys : VL) :
    aggregate f (some s) (xs ++ ys) = aggregate f (aggregate f (some s) xs) ys := by
  simp [aggregate, List.foldl_append]

theorem scanFrom_getLast (f : Value → Value → Value) (acc : Value) (xs : VL) :
    (acc :: scanFrom f acc xs).getLast? = some (xs.foldl f acc) := by
  induction xs generalizing acc with
  | nil => simp [scanFrom]
  | cons x xs ih =>
    simp only [scanFrom, List.foldl_cons]
    rw [List.getLast?_cons_cons]
    exact ih (f acc x)

/-- the last intermediate value of `accumulate` is the result of `aggregate` -/
theorem accumulate_last_eq_aggregate (f : Value → Value → Value) (seed : Option Value) (xs : VL) :
    (accumulate f seed xs).bind List.getLast? = aggregate f seed xs := by
  match seed, xs with
  | some s, xs => simp [accumulate, aggregate, scanFrom_getLast]
  | none, [] => simp [accumulate, aggregate]
  | none, x :: xs => simp [accumulate, aggregate, scanFrom_getLast]

theorem accumulate_length (f : Value → Value → Value) (s : Value) (xs : VL) :
    (accumulate f (some s) xs).map List.length = some (xs.length + 1) := by
  have : ∀ acc, (scanFrom f acc xs).length = xs.length := by
    induction xs with
    | nil => simp [scanFrom]
    | cons x xs ih => intro acc; simp [scanFrom, ih]
  simp [accumulate, this]

example : accumulate (fun a b => match a, b with | .int x, .int y => .int (x + y) | _, _ => .null) none
    [.int 1, .int 2, .int 3] = some [.int 1, .int 3, .int 6] := by decide


/-! ### distinct -/

theorem sMem_cons (k : Value) (seen : VL) (y : Value) : sMem (k :: seen) y = (pyEq k y || sMem seen y) := by
  simp [sMem]

theorem distinctAux_sublist (key : Value → Value) (seen xs : VL) : (distinctAux key seen xs).Sublist xs := by
  induction xs generalizing seen with
  | nil => simp [distinctAux]
  | cons x xs ih =>
    simp only [distinctAux]
    split
    · exact (ih seen).cons x
    · exact (ih _).cons_cons x

theorem distinctAux_not_seen (key : Value → Value) (seen xs : VL) :
    ∀ y ∈ distinctAux key seen xs, sMem seen (key y) = false := by
  induction xs generalizing seen with
  | nil => simp [distinctAux]
  | cons x xs ih =>
    intro y hy
    simp only [distinctAux] at hy
    split at hy
    · exact ih seen y hy
    · rename_i hx
      rcases List.mem_cons.mp hy with rfl | hy
      · simpa using hx
      · have := ih _ y hy
        rw [sMem_cons] at this
        simp at this
        exact this.2

theorem distinctAux_pairwise (key : Value → Value) (seen xs : VL) :
    (distinctAux key seen xs).Pairwise (fun a b => pyEq (key a) (key b) = false) := by
  induction xs generalizing seen with
  | nil => simp [distinctAux]
  | cons x xs ih =>
    simp only [distinctAux]
    split
    · exact ih seen
    · refine List.Pairwise.cons ?_ (ih _)
      intro y hy
      have := distinctAux_not_seen key _ xs y hy
      rw [sMem_cons] at this
      simp at this
      exact this.1

/-- `distinct` keeps a sublist (encounter order, nothing invented) whose keys are pairwise
    different under Python's `==` -/
theorem distinct_nodup_sublist (key : Value → Value) (xs : VL) :
    (distinctBy key xs).Sublist xs ∧
    (distinctBy key xs).Pairwise (fun a b => pyEq (key a) (key b) = false) :=
  ⟨distinctAux_sublist key [] xs, distinctAux_pairwise key [] xs⟩

theorem distinctAux_fixed (key : Value → Value) (seen ys : VL)
    (hp : ys.Pairwise (fun a b => pyEq (key a) (key b) = false))
    (hs : ∀ y ∈ ys, sMem seen (key y) = false) : distinctAux key seen ys = ys := by
  induction ys generalizing seen with
  | nil => simp [distinctAux]
  | cons y ys ih =>
    have hy := hs y (List.mem_cons_self ..)
    simp only [distinctAux, hy]
    simp only [Bool.false_eq_true, ↓reduceIte, List.cons.injEq, true_and]
    rw [List.pairwise_cons] at hp
    apply ih _ hp.2
    intro z hz
    rw [sMem_cons, hp.1 z hz, hs z (List.mem_cons_of_mem _ hz)]
    rfl

theorem distinct_idempotent (key : Value → Value) (xs : VL) :
    distinctBy key (distinctBy key xs) = distinctBy key xs :=
  distinctAux_fixed key [] _ (distinctAux_pairwise key [] xs) (by intro y _; simp [sMem])

/-- every element is represented: some kept element has an `==` key -/
theorem distinctAux_complete (key : Value → Value) (seen xs : VL) :
    ∀ x ∈ xs, sMem seen (key x) = true ∨ ∃ y ∈ distinctAux key seen xs, pyEq (key y) (key x) = true := by
  induction xs generalizing seen with
  | nil => simp
  | cons a xs ih =>
    intro x hx
    simp only [distinctAux]
    rcases List.mem_cons.mp hx with rfl | hx
    · split
      · left; assumption
      · right; exact ⟨x, List.mem_cons_self .., pyEq_refl _⟩
    · split
      · exact ih seen x hx
      · rcases ih (key a :: seen) x hx with h | ⟨y, hy, hk⟩
        · rw [sMem_cons] at h
          simp at h
          rcases h with h | h
          · right; exact ⟨a, List.mem_cons_self .., h⟩
          · left; exact h
        · right; exact ⟨y, List.mem_cons_of_mem _ hy, hk⟩

theorem distinct_complete (key : Value → Value) (xs : VL) :
    ∀ x ∈ xs, ∃ y ∈ distinctBy key xs, pyEq (key y) (key x) = true := by
  intro x hx
  rcases distinctAux_complete key [] xs x hx with h | h
  · simp [sMem] at h
  · exact h

/-! ### zip -/

theorem zip_length (xss : List VL) : (zip xss).length = minLen xss := by simp [zip]
theorem zipLongest_length (d : Value) (xss : List VL) : (zipLongest d xss).length = maxLen xss := by
  simp [zipLongest]

theorem zip_get (xss : List VL) (i : Nat) (h : i < minLen xss) :
    (zip xss)[i]'(by simpa [zip] using h) = tuple (xss.map fun xs => xs.getD i null) := by
  simp [zip]

theorem minLen_le (xss : List VL) : ∀ xs ∈ xss, minLen xss ≤ xs.length := by
  induction xss with
  | nil => simp
  | cons a r ih =>
    intro xs hxs
    cases r with
    | nil => simp at hxs; simp [minLen, hxs]
    | cons b r =>
      rcases List.mem_cons.mp hxs with rfl | h
      · simp only [minLen]; exact Nat.min_le_left ..
      · have := ih xs h
        simp only [minLen] at this ⊢
        exact Nat.le_trans (Nat.min_le_right ..) this

/-- no row of a `zip` reads past the end of any input -/
theorem zip_rows_in_range (xss : List VL) (i : Nat) (h : i < (zip xss).length) :
    ∀ xs ∈ xss, i < xs.length := by
  intro xs hxs
  rw [zip_length] at h
  exact Nat.lt_of_lt_of_le h (minLen_le xss xs hxs)

/-! ### slice / splitAt / splitWhere / sliceWhere -/

theorem sliceFuel_flatten (n : Nat) (hn : 0 < n) (fuel : Nat) (xs : VL) (h : xs.length ≤ fuel) :
    (sliceFuel n fuel xs).flatten = xs := by
  induction fuel generalizing xs with
  | zero => simp at h; simp [sliceFuel, h]
  | succ fuel ih =>
    simp only [sliceFuel]
    have hn' : ¬ n = 0 := by omega
    by_cases he : xs.isEmpty
    · simp [he]; simpa using he
    · simp only [hn', he, decide_false, Bool.or_self, Bool.false_eq_true, ↓reduceIte, List.flatten_cons]
      rw [ih]
      · simp
      · have : xs ≠ [] := by simpa using he
        have : 0 < xs.length := List.length_pos_iff.mpr this
        simp; omega

/-- the chunks of `slice(n)` put together are the collection -/
theorem slice_concat (n : Nat) (hn : 0 < n) (xs : VL) : (slice n xs).flatten = xs :=
  sliceFuel_flatten n hn xs.length xs (Nat.le_refl _)

theorem sliceFuel_sizes (n : Nat) (fuel : Nat) (xs : VL) :
    ∀ c ∈ sliceFuel n fuel xs, 0 < c.length ∧ c.length ≤ n := by
  induction fuel generalizing xs with
  | zero => simp [sliceFuel]
  | succ fuel ih =>
    intro c hc
    simp only [sliceFuel] at hc
    split at hc
    · simp at hc
    · rename_i hcond
      simp at hcond
      rcases List.mem_cons.mp hc with rfl | hc
      · have : 0 < xs.length := List.length_pos_iff.mpr hcond.2
        simp [List.length_take]; omega
      · exact ih _ c hc

/-- every chunk is non-empty and has at most `n` elements -/
theorem slice_sizes (n : Nat) (xs : VL) : ∀ c ∈ slice n xs, 0 < c.length ∧ c.length ≤ n :=
  sliceFuel_sizes n xs.length xs

theorem splitAt_append (i : Int) (xs : VL) : (splitAt i xs).1 ++ (splitAt i xs).2 = xs := by
  simp [splitAt]

theorem clampIdx_le (len : Nat) (i : Int) : clampIdx len i ≤ len := by
  unfold clampIdx; split <;> omega

theorem splitAt_fst_length (i : Int) (xs : VL) : (splitAt i xs).1.length = clampIdx xs.length i := by
  simp [splitAt, Nat.min_eq_left (clampIdx_le _ _)]

theorem splitWhereAux_no_delims (p : Value → Bool) (cur xs : VL) (hc : ∀ x ∈ cur, p x = false) :
    ∀ piece ∈ splitWhereAux p cur xs, ∀ x ∈ piece, p x = false := by
  induction xs generalizing cur with
  | nil =>
    intro piece hp
    simp only [splitWhereAux] at hp
    split at hp
    · simp at hp
    · simp at hp; subst hp; exact hc
  | cons a xs ih =>
    intro piece hp
    simp only [splitWhereAux] at hp
    split at hp
    · rcases List.mem_cons.mp hp with rfl | hp
      · exact hc
      · exact ih [] (by simp) piece hp
    · rename_i ha
      apply ih (cur ++ [a]) _ piece hp
      intro x hx
      rcases List.mem_append.mp hx with h | h
      · exact hc x h
      · simp at h; subst h; simpa using ha

/-- no piece of `splitWhere` contains a delimiter -/
theorem splitWhere_no_delims (p : Value → Bool) (xs : VL) :
    ∀ piece ∈ splitWhere p xs, ∀ x ∈ piece, p x = false :=
  splitWhereAux_no_delims p [] xs (by simp)

theorem splitWhereAux_flatten (p : Value → Bool) (cur xs : VL) :
    (splitWhereAux p cur xs).flatten = cur ++ xs.filter (fun x => !p x) := by
  induction xs generalizing cur with
  | nil => simp only [splitWhereAux]; split <;> simp_all
  | cons a xs ih =>
    simp only [splitWhereAux]
    split
    · rename_i ha; simp [ih, ha]
    · rename_i ha; simp [ih, ha]

/-- the pieces put together are the non-delimiters, in order -/
theorem splitWhere_flatten (p : Value → Bool) (xs : VL) :
    (splitWhere p xs).flatten = xs.filter (fun x => !p x) := by
  simp [splitWhere, splitWhereAux_flatten]

theorem sliceWhereAux_flatten (f : Value → Value) (cur : VL) (prev : Value) (xs : VL) :
    (sliceWhereAux f cur prev xs).flatten = cur ++ xs := by
  induction xs generalizing cur prev with
  | nil => simp [sliceWhereAux]
  | cons a xs ih =>
    simp only [sliceWhereAux]
    split <;> simp [ih]

/-- the runs of `sliceWhere` put together are the collection -/
theorem sliceWhere_concat (f : Value → Value) (xs : VL) : (sliceWhere f xs).flatten = xs := by
  cases xs with
  | nil => simp [sliceWhere]
  | cons x xs => simp [sliceWhere, sliceWhereAux_flatten]

theorem sliceWhereAux_uniform (f : Value → Value) (cur : VL) (prev : Value) (xs : VL)
    (hne : cur ≠ []) (hc : ∀ x ∈ cur, pyEq (f x) prev = true) :
    ∀ piece ∈ sliceWhereAux f cur prev xs,
      piece ≠ [] ∧ ∃ v, ∀ x ∈ piece, pyEq (f x) v = true := by
  induction xs generalizing cur prev with
  | nil => intro piece hp; simp [sliceWhereAux] at hp; subst hp; exact ⟨hne, prev, hc⟩
  | cons a xs ih =>
    intro piece hp
    simp only [sliceWhereAux] at hp
    split at hp
    · rename_i ha
      apply ih (cur ++ [a]) prev (by simp) _ piece hp
      intro x hx
      rcases List.mem_append.mp hx with h | h
      · exact hc x h
      · simp at h; subst h; exact ha
    · rcases List.mem_cons.mp hp with rfl | hp
      · exact ⟨hne, prev, hc⟩
      · exact ih [a] (f a) (by simp) (by intro x hx; simp at hx; subst hx; exact pyEq_refl _) piece hp

/-- every run is non-empty and the predicate gives `==` values on all its elements -/
theorem sliceWhere_uniform (f : Value → Value) (xs : VL) :
    ∀ piece ∈ sliceWhere f xs, piece ≠ [] ∧ ∃ v, ∀ x ∈ piece, pyEq (f x) v = true := by
  cases xs with
  | nil => simp [sliceWhere]
  | cons x xs =>
    exact sliceWhereAux_uniform f [x] (f x) xs (by simp)
      (by intro y hy; simp at hy; subst hy; exact pyEq_refl _)


/-! ### searching -/

theorem indexWhereFrom_spec (p : Value → Bool) (i : Nat) (xs : VL) :
    (indexWhereFrom p i xs = -1 ∧ ∀ x ∈ xs, p x = false) ∨
    (∃ j, j < xs.length ∧ indexWhereFrom p i xs = ((i + j : Nat) : Int) ∧ p (xs.getD j null) = true ∧
      ∀ k, k < j → p (xs.getD k null) = false) := by
  induction xs generalizing i with
  | nil => left; simp [indexWhereFrom]
  | cons x xs ih =>
    simp only [indexWhereFrom]
    by_cases hx : p x = true
    · right; exact ⟨0, by simp, by simp [hx], by simpa using hx, by intro k hk; omega⟩
    · simp only [hx, Bool.false_eq_true, ↓reduceIte]
      rcases ih (i + 1) with ⟨h1, h2⟩ | ⟨j, hj, h1, h2, h3⟩
      · left; exact ⟨h1, by intro y hy; rcases List.mem_cons.mp hy with rfl | hy; simpa using hx; exact h2 y hy⟩
      · right
        refine ⟨j + 1, by simp; omega, by rw [h1]; congr 1; omega, by simpa using h2, ?_⟩
        intro k hk
        cases k with
        | zero => simpa using hx
        | succ k => simpa using h3 k (by omega)

/-- `indexOf` gives the position of the FIRST element `==` to the item, or -1 when there is none -/
theorem indexOf_first (v : Value) (xs : VL) :
    (indexOf v xs = -1 ∧ ∀ x ∈ xs, pyEq x v = false) ∨
    (∃ j, j < xs.length ∧ indexOf v xs = (j : Int) ∧ pyEq (xs.getD j null) v = true ∧
      ∀ k, k < j → pyEq (xs.getD k null) v = false) := by
  have := indexWhereFrom_spec (fun x => pyEq x v) 0 xs
  simpa [indexOf, indexWhere] using this

theorem indexWhere_first (p : Value → Bool) (xs : VL) :
    (indexWhere p xs = -1 ∧ ∀ x ∈ xs, p x = false) ∨
    (∃ j, j < xs.length ∧ indexWhere p xs = (j : Int) ∧ p (xs.getD j null) = true ∧
      ∀ k, k < j → p (xs.getD k null) = false) := by
  simpa [indexWhere] using indexWhereFrom_spec p 0 xs

theorem lastIndexWhereFrom_spec (p : Value → Bool) (i : Nat) (best : Int) (xs : VL) :
    (lastIndexWhereFrom p i best xs = best ∧ ∀ x ∈ xs, p x = false) ∨
    (∃ j, j < xs.length ∧ lastIndexWhereFrom p i best xs = ((i + j : Nat) : Int) ∧ p (xs.getD j null) = true ∧
      ∀ k, j < k → k < xs.length → p (xs.getD k null) = false) := by
  induction xs generalizing i best with
  | nil => left; simp [lastIndexWhereFrom]
  | cons x xs ih =>
    simp only [lastIndexWhereFrom]
    rcases ih (i + 1) (if p x = true then (i : Int) else best) with ⟨h1, h2⟩ | ⟨j, hj, h1, h2, h3⟩
    · by_cases hx : p x = true
      · right
        refine ⟨0, by simp, by rw [h1]; simp [hx], by simpa using hx, ?_⟩
        intro k hk hk'
        cases k with
        | zero => omega
        | succ k =>
          have : xs.getD k null ∈ xs := by
            simp at hk'
            rw [List.getD_eq_getElem?_getD, List.getElem?_eq_getElem hk']; exact List.getElem_mem _
          simpa using h2 _ this
      · left
        refine ⟨by rw [h1]; simp [hx], ?_⟩
        intro y hy; rcases List.mem_cons.mp hy with rfl | hy
        · simpa using hx
        · exact h2 y hy
    · right
      refine ⟨j + 1, by simp; omega, by rw [h1]; congr 1; omega, by simpa using h2, ?_⟩
      intro k hk hk'
      cases k with
      | zero => omega
      | succ k => simpa using h3 k (by omega) (by simpa using hk')

/-- `lastIndexOf` gives the position of the LAST element `==` to the item, or -1 -/
theorem lastIndexOf_last (v : Value) (xs : VL) :
    (lastIndexOf v xs = -1 ∧ ∀ x ∈ xs, pyEq x v = false) ∨
    (∃ j, j < xs.length ∧ lastIndexOf v xs = (j : Int) ∧ pyEq (xs.getD j null) v = true ∧
      ∀ k, j < k → k < xs.length → pyEq (xs.getD k null) v = false) := by
  have := lastIndexWhereFrom_spec (fun x => pyEq x v) 0 (-1) xs
  simpa [lastIndexOf, lastIndexWhere] using this

/-! ### insert / delete / replace -/

theorem deleteFrom_past (pos : Nat) (i : Nat) (h : pos < i) (xs : VL) : deleteFrom pos 1 i xs = xs := by
  induction xs generalizing i with
  | nil => simp [deleteFrom]
  | cons x xs ih =>
    have : inRange pos 1 i = false := by simp [inRange]; omega
    simp only [deleteFrom, this, Bool.false_eq_true, ↓reduceIte]
    rw [ih (i + 1) (by omega)]

theorem deleteFrom_at (c i : Nat) (as : VL) (v : Value) (bs : VL) (h : i + as.length = c) :
    deleteFrom c 1 i (as ++ v :: bs) = as ++ bs := by
  induction as generalizing i with
  | nil =>
    simp at h; subst h
    have : inRange i 1 i = true := by simp [inRange]; omega
    simp only [List.nil_append, deleteFrom, this, ↓reduceIte]
    exact deleteFrom_past i (i + 1) (Nat.lt_succ_self i) bs
  | cons a as ih =>
    have : inRange c 1 i = false := by simp [inRange]; simp at h; omega
    simp only [List.cons_append, deleteFrom, this, Bool.false_eq_true, ↓reduceIte]
    rw [ih (i + 1) (by simp at h; omega)]

/-- deleting what `insert` (on a list) inserted gives the list back - for EVERY position,
    negative and out-of-range ones included (they are clamped as `list.insert` does) -/
theorem insert_delete_inverse (pos : Int) (v : Value) (xs : VL) :
    delete (clampIdx xs.length pos) 1 (listInsert pos v xs) = xs := by
  simp only [delete, listInsert]
  rw [deleteFrom_at (clampIdx xs.length pos) 0]
  · simp
  · simp [Nat.min_eq_left (clampIdx_le _ _)]

theorem listInsert_length (pos : Int) (v : Value) (xs : VL) : (listInsert pos v xs).length = xs.length + 1 := by
  simp [listInsert]; have := clampIdx_le xs.length pos; omega

/-- the same for the generator version on one-shot iterators (non-negative positions) -/
theorem iterInsert_delete_inverse (pos : Nat) (v : Value) (xs : VL) :
    delete ((min pos xs.length : Nat) : Int) 1 (iterInsert pos v xs) = xs := by
  simp only [delete, iterInsert, insertMany]
  have : ¬ ((pos : Int) < 0) := by omega
  simp only [this, ↓reduceIte, Int.toNat_natCast, List.append_assoc, List.cons_append, List.nil_append]
  have h := deleteFrom_at (min pos xs.length) 0 (xs.take pos) v (xs.drop pos) (by simp)
  rw [List.take_append_drop] at h
  exact h

theorem iterInsert_negative (pos : Int) (h : pos < 0) (v : Value) (xs : VL) : iterInsert pos v xs = xs := by
  simp [iterInsert, h]

/-- number of indices `≥ i` of `xs` that the range `(pos, count)` addresses -/
def hitsFrom (pos count : Int) (i : Nat) : VL → Nat
  | [] => 0
  | _ :: xs => (if inRange pos count i then 1 else 0) + hitsFrom pos count (i + 1) xs

theorem replaceFrom_length (pos count : Int) (vals : VL) (i : Nat) (done : Bool) (xs : VL) :
    (replaceFrom pos count vals i done xs).length + hitsFrom pos count i xs
      = xs.length + (if done || hitsFrom pos count i xs == 0 then 0 else vals.length) := by
  induction xs generalizing i done with
  | nil => simp [replaceFrom, hitsFrom]
  | cons x xs ih =>
    simp only [replaceFrom, hitsFrom]
    by_cases hr : inRange pos count i = true
    · simp only [hr, ↓reduceIte, List.length_append, List.length_cons]
      have := ih (i + 1) true
      simp only [Bool.true_or, ↓reduceIte, Nat.add_zero] at this
      cases done <;> simp <;> omega
    · simp only [hr, Bool.false_eq_true, ↓reduceIte, List.length_cons, Nat.zero_add]
      have := ih (i + 1) done
      omega

/-- `replace`: the addressed elements (those that exist) are replaced by ONE value -/
theorem replace_length (pos count : Int) (v : Value) (xs : VL) :
    (replace pos count v xs).length + hitsFrom pos count 0 xs
      = xs.length + (if hitsFrom pos count 0 xs = 0 then 0 else 1) := by
  have := replaceFrom_length pos count [v] 0 false xs
  simp only [replace, replaceMany]
  rw [this]
  simp

theorem delete_length (pos count : Int) (xs : VL) :
    (delete pos count xs).length + hitsFrom pos count 0 xs = xs.length := by
  have : ∀ i, (deleteFrom pos count i xs).length + hitsFrom pos count i xs = xs.length := by
    induction xs with
    | nil => simp [deleteFrom, hitsFrom]
    | cons x xs ih =>
      intro i
      simp only [deleteFrom, hitsFrom]
      have := ih (i + 1)
      split <;> simp <;> omega
  exact this 0

example : replace 2 2 (.int 100) [.int 0, .int 1, .int 3, .int 4, .int 2] = [.int 0, .int 1, .int 100, .int 2] := by decide
example : delete 1 (-1) [.int 1, .int 2, .int 3] = [.int 1] := by decide


/-! ### ordering -/

section sorting
variable {α : Type}

/-- two sorted permutations of each other are equal when the order is antisymmetric on them -/
theorem perm_sorted_unique (r : α → α → Prop) :
    ∀ (l₁ l₂ : List α), l₁.Perm l₂ → l₁.Pairwise r → l₂.Pairwise r →
      (∀ a ∈ l₁, ∀ b ∈ l₁, r a b → r b a → a = b) → l₁ = l₂
  | [], l₂, hp, _, _, _ => (hp.symm.eq_nil).symm
  | a :: t₁, [], hp, _, _, _ => by simpa using hp.length_eq
  | a :: t₁, b :: t₂, hp, h₁, h₂, anti => by
    have hab : a = b := by
      have ha : a ∈ b :: t₂ := hp.mem_iff.mp (List.mem_cons_self ..)
      have hb : b ∈ a :: t₁ := hp.mem_iff.mpr (List.mem_cons_self ..)
      rcases List.mem_cons.mp ha with h | ha'
      · exact h
      · rcases List.mem_cons.mp hb with h | hb'
        · exact h.symm
        · exact anti a (List.mem_cons_self ..) b hb (List.rel_of_pairwise_cons h₁ hb')
            (List.rel_of_pairwise_cons h₂ ha')
    subst hab
    have := perm_sorted_unique r t₁ t₂ hp.cons_inv (List.Pairwise.of_cons h₁) (List.Pairwise.of_cons h₂)
      (fun x hx y hy => anti x (List.mem_cons_of_mem _ hx) y (List.mem_cons_of_mem _ hy))
    rw [this]

/-- **Uniqueness of the stable sort.**  For a total preorder `le`, ANY list `ys` of the
    position-tagged elements of `xs` that is a permutation, is sorted, and keeps tied elements in
    their original order is `mergeSort xs le`.  This is what licenses comparing the model
    (`List.mergeSort`) with CPython's `sorted`, whose documented contract is exactly those three
    properties. -/
theorem stable_sort_unique (le : α → α → Bool)
    (trans : ∀ a b c, le a b → le b c → le a c) (total : ∀ a b, le a b || le b a)
    (xs : List α) (ys : List (α × Nat))
    (hperm : ys.Perm xs.zipIdx)
    (hsorted : ys.Pairwise (fun p q => le p.1 q.1 = true))
    (hstable : ys.Pairwise (fun p q => le q.1 p.1 = true → p.2 < q.2)) :
    ys.map (·.1) = xs.mergeSort le := by
  rw [← List.mergeSort_zipIdx (le := le)]
  congr 1
  apply perm_sorted_unique (fun p q => List.zipIdxLE le p q = true)
  · exact hperm.trans (List.mergeSort_perm _ _).symm
  · have := hsorted.and hstable
    refine this.imp ?_
    intro p q h
    simp only [List.zipIdxLE, h.1, ↓reduceIte]
    split
    · rename_i hqp; simpa using Nat.le_of_lt (h.2 hqp)
    · rfl
  · exact List.pairwise_mergeSort (List.zipIdxLE_trans trans) (List.zipIdxLE_total total) _
  · intro p hp q hq hpq hqp
    have hp' := List.mem_zipIdx_iff_getElem?.mp (hperm.mem_iff.mp hp)
    have hq' := List.mem_zipIdx_iff_getElem?.mp (hperm.mem_iff.mp hq)
    have h2 : p.2 = q.2 := by
      cases h1 : le p.1 q.1 <;> cases h3 : le q.1 p.1 <;> simp [List.zipIdxLE, h1, h3] at hpq hqp
      omega
    rw [h2] at hp'
    have h1 : p.1 = q.1 := by rw [hp'] at hq'; exact Option.some.inj hq'
    exact Prod.ext h1 h2

/-- sortedness from hypotheses about the elements of the list only -/
theorem pairwise_mergeSort_local (le : α → α → Bool) (xs : List α)
    (trans : ∀ a ∈ xs, ∀ b ∈ xs, ∀ c ∈ xs, le a b → le b c → le a c)
    (total : ∀ a ∈ xs, ∀ b ∈ xs, le a b || le b a) :
    (xs.mergeSort le).Pairwise (fun a b => le a b = true) := by
  let le' : {x // x ∈ xs} → {x // x ∈ xs} → Bool := fun a b => le a.1 b.1
  have h := List.pairwise_mergeSort (le := le')
    (fun a b c => trans a.1 a.2 b.1 b.2 c.1 c.2) (fun a b => total a.1 a.2 b.1 b.2) xs.attach
  have hm : (xs.attach.mergeSort le').map Subtype.val = xs.mergeSort le := by
    rw [List.map_mergeSort (s := le) (by intros; rfl)]
    simp
  rw [← hm]
  exact List.pairwise_map.mpr h

end sorting

/-- the result of orderBy / thenBy is a permutation of the collection (no hypotheses at all) -/
theorem orderBy_perm (lt gt : Value → Value → Bool) (fs : List Field) (xs : VL) :
    (orderFields lt gt fs xs).Perm xs :=
  List.mergeSort_perm _ _

theorem orderBy_length (lt gt : Value → Value → Bool) (fs : List Field) (xs : VL) :
    (orderFields lt gt fs xs).length = xs.length := by simp [orderFields]

/-- sorted: no later element is strictly smaller than an earlier one - provided the comparator
    built from the keys is a total preorder ON THE ELEMENTS OF THE COLLECTION -/
theorem orderBy_sorted (lt gt : Value → Value → Bool) (fs : List Field) (xs : VL)
    (trans : ∀ a ∈ xs, ∀ b ∈ xs, ∀ c ∈ xs, sortLe lt gt fs a b → sortLe lt gt fs b c → sortLe lt gt fs a c)
    (total : ∀ a ∈ xs, ∀ b ∈ xs, sortLe lt gt fs a b || sortLe lt gt fs b a) :
    (orderFields lt gt fs xs).Pairwise (fun a b => ¬ cmpFields lt gt fs b a < 0) := by
  have := pairwise_mergeSort_local (sortLe lt gt fs) xs trans total
  refine this.imp ?_
  intro a b h
  simpa [sortLe] using h

/-- stability, hypothesis-free form: breaking ties by the original position changes nothing -/
theorem orderBy_stable (lt gt : Value → Value → Bool) (fs : List Field) (xs : VL) :
    ((xs.zipIdx).mergeSort (List.zipIdxLE (sortLe lt gt fs))).map (·.1) = orderFields lt gt fs xs :=
  List.mergeSort_zipIdx

/-- stability, pair form: `a` before `b` and `b` not smaller than `a` => `a` stays before `b` -/
theorem orderBy_stable_pair (lt gt : Value → Value → Bool) (fs : List Field) (xs : VL)
    (trans : ∀ a b c, sortLe lt gt fs a b → sortLe lt gt fs b c → sortLe lt gt fs a c)
    (total : ∀ a b, sortLe lt gt fs a b || sortLe lt gt fs b a)
    (a b : Value) (hab : ¬ cmpFields lt gt fs b a < 0) (h : [a, b].Sublist xs) :
    [a, b].Sublist (orderFields lt gt fs xs) :=
  List.pair_sublist_mergeSort trans total (by simpa [sortLe] using hab) h

theorem cmpFields_append (lt gt : Value → Value → Bool) (fs gs : List Field) (a b : Value) :
    cmpFields lt gt (fs ++ gs) a b =
      if cmpFields lt gt fs a b = 0 then cmpFields lt gt gs a b else cmpFields lt gt fs a b := by
  induction fs with
  | nil => simp [cmpFields]
  | cons f fs ih =>
    obtain ⟨k, asc⟩ := f
    simp only [List.cons_append, cmpFields]
    split
    · cases asc <;> simp
    · split
      · cases asc <;> simp
      · exact ih

/-- `orderBy(k1).thenBy(k2)` sorts by the lexicographic comparator: first `k1`, ties by `k2` -/
theorem thenBy_lex (lt gt : Value → Value → Bool) (fs : List Field) (k : Value → Value) (asc : Bool) (xs : VL) :
    orderFields lt gt (fs ++ [(k, asc)]) xs =
      xs.mergeSort (fun a b => !((if cmpFields lt gt fs b a = 0 then cmpFields lt gt [(k, asc)] b a
                                   else cmpFields lt gt fs b a) < 0)) := by
  simp only [orderFields]
  congr 1
  funext a b
  simp [sortLe, cmpFields_append]

/-- a descending field compares as the ascending one with the sign flipped -/
theorem descending_reverse_of_keys (lt gt : Value → Value → Bool) (k : Value → Value) (a b : Value) :
    cmpFields lt gt [(k, false)] a b = - cmpFields lt gt [(k, true)] a b := by
  by_cases h1 : lt (k a) (k b) = true <;> by_cases h2 : gt (k a) (k b) = true <;> simp [cmpFields, h1, h2]

/-! Non-vacuity: integer keys under yaql's `<` / `>` give a total preorder, so the hypotheses of
`orderBy_sorted` / `stable_sort_unique` are met by every collection whose keys are integers. -/

theorem cmpFields_int (k : Value → Value) (asc : Bool) (a b : Value) (x y : Int)
    (ha : k a = .int x) (hb : k b = .int y) :
    cmpFields ltT gtT [(k, asc)] a b =
      if x < y then (if asc then -1 else 1) else if x > y then (if asc then 1 else -1) else 0 := by
  simp [cmpFields, ha, hb, ltT, gtT, ltV, gtV]

theorem sortLe_int_total_trans (k : Value → Value) (asc : Bool) (xs : VL)
    (hk : ∀ x ∈ xs, ∃ i, k x = .int i) :
    (∀ a ∈ xs, ∀ b ∈ xs, ∀ c ∈ xs, sortLe ltT gtT [(k, asc)] a b → sortLe ltT gtT [(k, asc)] b c →
        sortLe ltT gtT [(k, asc)] a c) ∧
    (∀ a ∈ xs, ∀ b ∈ xs, sortLe ltT gtT [(k, asc)] a b || sortLe ltT gtT [(k, asc)] b a) := by
  constructor
  · intro a ha b hb c hc
    obtain ⟨x, hx⟩ := hk a ha
    obtain ⟨y, hy⟩ := hk b hb
    obtain ⟨z, hz⟩ := hk c hc
    simp only [sortLe, cmpFields_int k asc _ _ _ _ hy hx, cmpFields_int k asc _ _ _ _ hz hy,
      cmpFields_int k asc _ _ _ _ hz hx]
    cases asc <;> simp <;> (repeat' split) <;> omega
  · intro a ha b hb
    obtain ⟨x, hx⟩ := hk a ha
    obtain ⟨y, hy⟩ := hk b hb
    simp only [sortLe, cmpFields_int k asc _ _ _ _ hy hx, cmpFields_int k asc _ _ _ _ hx hy]
    cases asc <;> simp <;> (repeat' split) <;> omega

/-- integer keys: `orderBy` / `orderByDescending` really sort -/
theorem orderBy_sorted_int (k : Value → Value) (asc : Bool) (xs : VL) (hk : ∀ x ∈ xs, ∃ i, k x = .int i) :
    (orderFields ltT gtT [(k, asc)] xs).Pairwise (fun a b => ¬ cmpFields ltT gtT [(k, asc)] b a < 0) :=
  orderBy_sorted ltT gtT _ xs (sortLe_int_total_trans k asc xs hk).1 (sortLe_int_total_trans k asc xs hk).2

example : orderFields ltT gtT [(id, true)] [.int 3, .int 1, .int 2] = [.int 1, .int 2, .int 3] := by
  simp [orderFields, sortLe, cmpFields, ltT, gtT, ltV, gtV, List.mergeSort, List.MergeSort.Internal.splitInTwo]
def exFst : Value → Value | .tuple [a, _] => a | _ => .null
def exSnd : Value → Value | .tuple [_, b] => b | _ => .null
/-- `[[1,7],[2,5],[3,7]].orderBy($[1]).thenByDescending($[0])` -/
example : orderFields ltT gtT [(exSnd, true), (exFst, false)]
    [.tuple [.int 1, .int 7], .tuple [.int 2, .int 5], .tuple [.int 3, .int 7]]
    = [.tuple [.int 2, .int 5], .tuple [.int 3, .int 7], .tuple [.int 1, .int 7]] := by
  simp [orderFields, sortLe, cmpFields, ltT, gtT, ltV, gtV, cmpChars, exFst, exSnd, List.mergeSort,
    List.MergeSort.Internal.splitInTwo, List.cons_merge_cons, List.nil_merge, List.merge_right]


/-! ### grouping -/

abbrev Groups := List (Value × VL)

def gKeys (g : Groups) : VL := g.map (·.1)
def gValues (g : Groups) : VL := (g.map (·.2)).flatten
/-- the values filed under (a key `==` to) `k` -/
def gLookup (k : Value) : Groups → VL
  | [] => []
  | (k', vs) :: r => if pyEq k' k then vs else gLookup k r

theorem sMem_append (a b : VL) (y : Value) : sMem (a ++ b) y = (sMem a y || sMem b y) := by
  simp [sMem]

theorem gKeys_addToGroup (k v : Value) (g : Groups) :
    gKeys (addToGroup k v g) = if sMem (gKeys g) k then gKeys g else gKeys g ++ [k] := by
  induction g with
  | nil => simp [addToGroup, gKeys, sMem]
  | cons p r ih =>
    obtain ⟨k', vs⟩ := p
    simp only [addToGroup]
    by_cases h : pyEq k' k = true
    · simp [h, gKeys, sMem]
    · simp only [h, Bool.false_eq_true, ↓reduceIte]
      simp only [gKeys, List.map_cons] at ih ⊢
      rw [ih]
      have : sMem (k' :: List.map (·.1) r) k = sMem (List.map (·.1) r) k := by
        rw [sMem_cons]; simp [h]
      rw [this]
      by_cases hm : sMem (List.map (·.1) r) k = true <;> simp [hm]

theorem gLookup_addToGroup (k' v k : Value) (g : Groups) :
    gLookup k (addToGroup k' v g) = if pyEq k' k then gLookup k g ++ [v] else gLookup k g := by
  induction g with
  | nil => simp [addToGroup, gLookup]
  | cons p r ih =>
    obtain ⟨k₀, vs⟩ := p
    simp only [addToGroup]
    by_cases h0 : pyEq k₀ k' = true
    · -- the group of k' is this one
      simp only [h0, ↓reduceIte, gLookup]
      rw [pyEq_congr_left h0 k]
      split <;> rfl
    · simp only [h0, Bool.false_eq_true, ↓reduceIte, gLookup]
      by_cases h1 : pyEq k₀ k = true
      · have : pyEq k' k = false := by
          cases hk : pyEq k' k
          · rfl
          · exfalso; apply h0
            rw [pyEq_symm] at hk
            exact pyEq_trans h1 hk
        simp [h1, this]
      · simp only [h1, Bool.false_eq_true, ↓reduceIte]
        exact ih

theorem gValues_addToGroup (k v : Value) (g : Groups) :
    (gValues (addToGroup k v g)).Perm (gValues g ++ [v]) := by
  induction g with
  | nil => simp [addToGroup, gValues]
  | cons p r ih =>
    obtain ⟨k', vs⟩ := p
    simp only [addToGroup]
    split
    · simp only [gValues, List.map_cons, List.flatten_cons, List.append_assoc]
      exact List.Perm.append_left vs List.perm_append_comm
    · simp only [gValues, List.map_cons, List.flatten_cons, List.append_assoc] at ih ⊢
      exact List.Perm.append_left vs ih

theorem foldl_groups_lookup (key val : Value → Value) (k : Value) (xs : VL) (g : Groups) :
    gLookup k (xs.foldl (fun g x => addToGroup (key x) (val x) g) g)
      = gLookup k g ++ (xs.filter (fun x => pyEq (key x) k)).map val := by
  induction xs generalizing g with
  | nil => simp
  | cons x xs ih =>
    simp only [List.foldl_cons]
    rw [ih, gLookup_addToGroup]
    by_cases h : pyEq (key x) k = true <;> simp [h, List.filter_cons]

theorem foldl_groups_keys (key val : Value → Value) (xs : VL) (g : Groups) (seen : VL)
    (hs : ∀ k, sMem seen k = sMem (gKeys g) k) :
    gKeys (xs.foldl (fun g x => addToGroup (key x) (val x) g) g)
      = gKeys g ++ (distinctAux key seen xs).map key := by
  induction xs generalizing g seen with
  | nil => simp [distinctAux]
  | cons x xs ih =>
    simp only [List.foldl_cons, distinctAux, hs]
    by_cases h : sMem (gKeys g) (key x) = true
    · simp only [h, ↓reduceIte]
      rw [ih _ seen]
      · rw [gKeys_addToGroup]; simp [h]
      · intro k; rw [hs, gKeys_addToGroup]; simp [h]
    · simp only [h, Bool.false_eq_true, ↓reduceIte, List.map_cons]
      rw [ih _ (key x :: seen)]
      · rw [gKeys_addToGroup]; simp [h]
      · intro k
        rw [gKeys_addToGroup]
        simp only [h, Bool.false_eq_true, ↓reduceIte]
        rw [sMem_cons, sMem_append, hs, Bool.or_comm]
        simp [sMem]

theorem foldl_groups_values (key val : Value → Value) (xs : VL) (g : Groups) :
    (gValues (xs.foldl (fun g x => addToGroup (key x) (val x) g) g)).Perm (gValues g ++ xs.map val) := by
  induction xs generalizing g with
  | nil => simp
  | cons x xs ih =>
    simp only [List.foldl_cons, List.map_cons]
    refine (ih _).trans ?_
    refine ((gValues_addToGroup _ _ g).append_right _).trans ?_
    simp

/-- **groupBy partitions its input.**
    1. the group keys are those of `distinct(key)`: pairwise different, in first-occurrence order;
    2. the values filed under a key are exactly the (selected) elements with an `==` key, in
       encounter order;
    3. all groups together are a permutation of the (selected) input: nothing lost, nothing doubled. -/
theorem groupBy_partition (key val : Value → Value) (xs : VL) :
    gKeys (groupsOf key val xs) = (distinctBy key xs).map key ∧
    (∀ k, gLookup k (groupsOf key val xs) = (xs.filter (fun x => pyEq (key x) k)).map val) ∧
    (gValues (groupsOf key val xs)).Perm (xs.map val) := by
  refine ⟨?_, ?_, ?_⟩
  · have := foldl_groups_keys key val xs [] [] (by intro k; rfl)
    simpa [groupsOf, distinctBy, gKeys] using this
  · intro k
    have := foldl_groups_lookup key val k xs []
    simpa [groupsOf, gLookup] using this
  · have := foldl_groups_values key val xs []
    simpa [groupsOf, gValues] using this

/-- the keys of the groups are pairwise different under `==` -/
theorem groupBy_keys_distinct (key val : Value → Value) (xs : VL) :
    (gKeys (groupsOf key val xs)).Pairwise (fun a b => pyEq a b = false) := by
  rw [(groupBy_partition key val xs).1]
  exact List.pairwise_map.mpr (distinctAux_pairwise key [] xs)

/-- for a group that is in the result, the list stored with it is the lookup of its key -/
theorem gLookup_of_mem (g : Groups) (hd : (gKeys g).Pairwise (fun a b => pyEq a b = false))
    (k : Value) (vs : VL) (h : (k, vs) ∈ g) : gLookup k g = vs := by
  induction g with
  | nil => simp at h
  | cons p r ih =>
    obtain ⟨k', vs'⟩ := p
    simp only [gKeys, List.map_cons, List.pairwise_cons] at hd
    rcases List.mem_cons.mp h with h | h
    · cases h; simp [gLookup, pyEq_refl]
    · have hk : pyEq k' k = false := hd.1 k (List.mem_map.mpr ⟨(k, vs), h, rfl⟩)
      simp only [gLookup, hk, Bool.false_eq_true, ↓reduceIte]
      exact ih hd.2 h

/-- every group of `groupBy` holds exactly the elements with its key, in encounter order -/
theorem groupBy_group_content (key val : Value → Value) (xs : VL) (k : Value) (vs : VL)
    (h : (k, vs) ∈ groupsOf key val xs) :
    vs = (xs.filter (fun x => pyEq (key x) k)).map val := by
  rw [← (groupBy_partition key val xs).2.1 k]
  exact (gLookup_of_mem _ (groupBy_keys_distinct key val xs) k vs h).symm


/-! ### set algebra (sets are duplicate-free lists; equality of sets is extensional) -/

/-- same elements under `==` -/
def SetEqv (a b : VL) : Prop := ∀ x, sMem a x = sMem b x
/-- no two elements are `==` -/
def SetInv (s : VL) : Prop := s.Pairwise (fun a b => pyEq a b = false)

theorem sMem_congr {x y : Value} (h : pyEq x y = true) (s : VL) : sMem s x = sMem s y := by
  simp only [sMem]
  congr 1; funext z
  exact pyEq_congr_right h z

theorem sMem_sInsert (s : VL) (y x : Value) : sMem (sInsert s y) x = (sMem s x || pyEq y x) := by
  simp only [sInsert]
  split
  · rename_i h
    cases hx : pyEq y x
    · simp
    · simp only [Bool.or_true]
      rw [← sMem_congr hx]; exact h
  · rw [sMem_append]; simp [sMem]

theorem sMem_foldl_sInsert (b a : VL) (x : Value) : sMem (b.foldl sInsert a) x = (sMem a x || sMem b x) := by
  induction b generalizing a with
  | nil => simp [sMem]
  | cons y b ih => simp only [List.foldl_cons, ih, sMem_sInsert, sMem_cons, Bool.or_assoc]

theorem mem_union (a b : VL) (x : Value) : sMem (union a b) x = (sMem a x || sMem b x) :=
  sMem_foldl_sInsert b a x

theorem sMem_filter (a : VL) (q : Value → Bool) (hq : ∀ y z, pyEq y z = true → q y = q z) (x : Value) :
    sMem (a.filter q) x = (sMem a x && q x) := by
  induction a with
  | nil => simp [sMem]
  | cons y a ih =>
    simp only [List.filter_cons]
    cases hyx : pyEq y x
    · split
      · rw [sMem_cons, ih, sMem_cons, hyx]; simp
      · rw [ih, sMem_cons, hyx]; simp
    · have := hq y x hyx
      split
      · rename_i h; rw [sMem_cons, sMem_cons, hyx, ← this, h]; simp
      · rename_i h; rw [ih, sMem_cons, hyx, ← this]; simp at h; simp [h]

theorem mem_sInter (a b : VL) (x : Value) : sMem (sInter a b) x = (sMem a x && sMem b x) :=
  sMem_filter a (sMem b) (fun _ _ h => sMem_congr h b) x

theorem mem_intersect (a b : VL) (x : Value) : sMem (intersect a b) x = (sMem a x && sMem b x) := by
  simp only [intersect]
  split
  · exact mem_sInter a b x
  · rw [mem_sInter, Bool.and_comm]

theorem mem_difference (a b : VL) (x : Value) : sMem (difference a b) x = (sMem a x && !sMem b x) :=
  sMem_filter a (fun y => !sMem b y) (fun _ _ h => by simp [sMem_congr h b]) x

theorem mem_symmetricDifference (a b : VL) (x : Value) :
    sMem (symmetricDifference a b) x = ((sMem a x && !sMem b x) || (sMem b x && !sMem a x)) := by
  simp only [symmetricDifference, sSymDiff, sMem_append]
  rw [show sDiff a b = difference a b from rfl, show sDiff b a = difference b a from rfl,
    mem_difference, mem_difference]

theorem union_comm (a b : VL) : SetEqv (union a b) (union b a) := by
  intro x; rw [mem_union, mem_union, Bool.or_comm]
theorem union_assoc (a b c : VL) : SetEqv (union (union a b) c) (union a (union b c)) := by
  intro x; simp only [mem_union, Bool.or_assoc]
theorem intersect_comm (a b : VL) : SetEqv (intersect a b) (intersect b a) := by
  intro x; rw [mem_intersect, mem_intersect, Bool.and_comm]
theorem intersect_assoc (a b c : VL) : SetEqv (intersect (intersect a b) c) (intersect a (intersect b c)) := by
  intro x; simp only [mem_intersect, Bool.and_assoc]
theorem union_absorb (a b : VL) : SetEqv (union a (intersect a b)) a := by
  intro x; rw [mem_union, mem_intersect]; cases sMem a x <;> simp
theorem intersect_absorb (a b : VL) : SetEqv (intersect a (union a b)) a := by
  intro x; rw [mem_intersect, mem_union]; cases sMem a x <;> simp
theorem union_idem (a : VL) : SetEqv (union a a) a := by
  intro x; rw [mem_union]; simp
/-- `a - b` is the relative complement -/
theorem difference_is_complement (a b : VL) (x : Value) :
    sMem (difference a b) x = true ↔ sMem a x = true ∧ sMem b x = false := by
  rw [mem_difference]; simp
theorem symmetricDifference_comm (a b : VL) : SetEqv (symmetricDifference a b) (symmetricDifference b a) := by
  intro x; rw [mem_symmetricDifference, mem_symmetricDifference, Bool.or_comm]
theorem symmetricDifference_eq (a b : VL) :
    SetEqv (symmetricDifference a b) (difference (union a b) (intersect a b)) := by
  intro x
  rw [mem_symmetricDifference, mem_difference, mem_union, mem_intersect]
  cases sMem a x <;> cases sMem b x <;> rfl
theorem intersect_distrib_union (a b c : VL) :
    SetEqv (intersect a (union b c)) (union (intersect a b) (intersect a c)) := by
  intro x
  simp only [mem_intersect, mem_union]
  cases sMem a x <;> simp

theorem SetInv_sInsert (s : VL) (y : Value) (h : SetInv s) : SetInv (sInsert s y) := by
  simp only [sInsert]
  split
  · exact h
  · rename_i hm
    unfold SetInv
    rw [List.pairwise_append]
    refine ⟨h, by simp, ?_⟩
    intro a ha b hb
    simp at hb; subst hb
    simp only [sMem, List.any_eq_true, not_exists, not_and, Bool.not_eq_true] at hm
    exact hm a ha

theorem SetInv_foldl (b a : VL) (h : SetInv a) : SetInv (b.foldl sInsert a) := by
  induction b generalizing a with
  | nil => exact h
  | cons y b ih => exact ih _ (SetInv_sInsert a y h)

/-- the set operations keep sets duplicate-free -/
theorem SetInv_ops (a b : VL) (ha : SetInv a) (hb : SetInv b) :
    SetInv (union a b) ∧ SetInv (intersect a b) ∧ SetInv (difference a b) ∧ SetInv (toSet a) := by
  refine ⟨SetInv_foldl b a ha, ?_, List.Pairwise.filter _ ha, SetInv_foldl a [] List.Pairwise.nil⟩
  simp only [intersect]
  split
  · exact List.Pairwise.filter _ ha
  · exact List.Pairwise.filter _ hb

theorem toSet_mem (xs : VL) (x : Value) : sMem (toSet xs) x = xs.any (fun y => pyEq y x) := by
  simp only [toSet, sOfList, sMem_foldl_sInsert]; simp [sMem]

example : union [.int 1, .int 2] [.bool true, .int 3] = [.int 1, .int 2, .int 3] := by decide

/-! ### dict laws -/

/-- keys pairwise different under `==` -/
def DictInv (d : KV) : Prop := (d.map (·.1)).Pairwise (fun a b => pyEq a b = false)

/-- `set` then `get` -/
theorem get_set (d : KV) (k v k' : Value) :
    dGet (dSet d k v) k' = if pyEq k k' then some v else dGet d k' := by
  induction d with
  | nil => simp [dSet, dGet]
  | cons p r ih =>
    obtain ⟨k₀, v₀⟩ := p
    simp only [dSet]
    by_cases h0 : pyEq k₀ k = true
    · simp only [h0, ↓reduceIte, dGet]
      rw [pyEq_congr_left h0 k']
      by_cases hA : pyEq k k' = true <;> simp [hA]
    · simp only [h0, Bool.false_eq_true, ↓reduceIte, dGet, ih]
      by_cases h1 : pyEq k₀ k' = true
      · have : pyEq k k' = false := by
          cases hk : pyEq k k'
          · rfl
          · exfalso; apply h0
            rw [pyEq_symm] at hk
            exact pyEq_trans h1 hk
        simp [h1, this]
      · simp [h1]

theorem DictInv_dSet (d : KV) (k v : Value) (h : DictInv d) : DictInv (dSet d k v) := by
  induction d with
  | nil => simp [dSet, DictInv]
  | cons p r ih =>
    obtain ⟨k₀, v₀⟩ := p
    simp only [DictInv, List.map_cons, List.pairwise_cons] at h
    simp only [dSet]
    split
    · simpa [DictInv] using h
    · rename_i h0
      simp only [DictInv, List.map_cons, List.pairwise_cons]
      refine ⟨?_, ih h.2⟩
      intro a ha
      rcases List.mem_map.mp ha with ⟨q, hq, rfl⟩
      -- a key of `dSet r k v` is a key of `r` or is `k`
      have : ∀ (r : KV), q ∈ dSet r k v → q.1 ∈ r.map (·.1) ∨ q.1 = k := by
        intro r
        induction r with
        | nil => intro hq; simp [dSet] at hq; right; rw [hq]
        | cons p' r' ih' =>
          intro hq
          simp only [dSet] at hq
          split at hq
          · rcases List.mem_cons.mp hq with rfl | hq
            · left; simp
            · left; simp; right; exact ⟨q.2, by simpa using hq⟩
          · rcases List.mem_cons.mp hq with rfl | hq
            · left; simp
            · rcases ih' hq with h' | h'
              · left; simp at h' ⊢; right; exact h'
              · right; exact h'
      rcases this r hq with h' | h'
      · exact h.1 _ h'
      · rw [h']; simpa using h0

/-- what the last matching entry of a list of pairs says -/
def dGetLast : KV → Value → Option Value
  | [], _ => none
  | (k', v) :: r, k => match dGetLast r k with
    | some w => some w
    | none => if pyEq k' k then some v else none

theorem get_update (d e : KV) (k : Value) :
    dGet (dUpdate d e) k = (dGetLast e k).or (dGet d k) := by
  simp only [dUpdate]
  induction e generalizing d with
  | nil => simp [dGetLast]
  | cons p r ih =>
    obtain ⟨k₀, v₀⟩ := p
    simp only [List.foldl_cons, ih, get_set, dGetLast]
    cases dGetLast r k <;> simp
    split <;> simp

theorem dGetLast_eq_dGet (e : KV) (h : DictInv e) (k : Value) : dGetLast e k = dGet e k := by
  induction e with
  | nil => simp [dGetLast, dGet]
  | cons p r ih =>
    obtain ⟨k₀, v₀⟩ := p
    simp only [DictInv, List.map_cons, List.pairwise_cons] at h
    simp only [dGetLast, dGet, ih h.2]
    by_cases h0 : pyEq k₀ k = true
    · have : dGet r k = none := by
        cases hr : dGet r k with
        | none => rfl
        | some w =>
          exfalso
          -- some key of r is == k, hence == k₀
          have : ∃ q ∈ r, pyEq q.1 k = true := by
            clear ih h
            induction r with
            | nil => simp [dGet] at hr
            | cons q r' ih' =>
              simp only [dGet] at hr
              split at hr
              · exact ⟨q, List.mem_cons_self .., by assumption⟩
              · obtain ⟨q', hq', hk'⟩ := ih' hr
                exact ⟨q', List.mem_cons_of_mem _ hq', hk'⟩
          obtain ⟨q, hq, hk⟩ := this
          have := h.1 q.1 (List.mem_map.mpr ⟨q, hq, rfl⟩)
          rw [pyEq_symm] at hk
          rw [pyEq_trans h0 hk] at this
          exact Bool.noConfusion this
      simp [this, h0]
    · simp only [h0, Bool.false_eq_true, ↓reduceIte]
      cases dGet r k <;> rfl

/-- `+` on dicts is right-biased -/
theorem combineDicts_right_biased (a b : KV) (hb : DictInv b) (k : Value) :
    dGet (combineDicts a b) k = (dGet b k).or (dGet a k) := by
  rw [combineDicts, get_update, dGetLast_eq_dGet b hb]

theorem DictInv_dUpdate (d e : KV) (h : DictInv d) : DictInv (dUpdate d e) := by
  simp only [dUpdate]
  induction e generalizing d with
  | nil => exact h
  | cons p r ih => exact ih _ (DictInv_dSet d p.1 p.2 h)

/-- `+` on dicts is associative (as maps) -/
theorem combineDicts_assoc (a b c : KV) (hb : DictInv b) (hc : DictInv c) (k : Value) :
    dGet (combineDicts (combineDicts a b) c) k = dGet (combineDicts a (combineDicts b c)) k := by
  have rb : ∀ (a b : KV), DictInv b → dGet (dUpdate a b) k = (dGet b k).or (dGet a k) :=
    fun a b hb => combineDicts_right_biased a b hb k
  simp only [combineDicts, rb _ _ hc, rb _ _ hb, rb _ _ (DictInv_dUpdate b c hb)]
  cases dGet c k <;> cases dGet b k <;> rfl

/-- `delete` then `get` / `containsKey` -/
theorem get_delete (d : KV) (k k' : Value) :
    dGet (dDel d k) k' = if pyEq k k' then none else dGet d k' := by
  induction d with
  | nil => simp [dDel, dGet]
  | cons p r ih =>
    obtain ⟨k₀, v₀⟩ := p
    simp only [dDel, List.filter_cons] at ih ⊢
    by_cases h0 : pyEq k₀ k = true
    · simp only [h0, Bool.not_true, Bool.false_eq_true, ↓reduceIte, ih, dGet]
      rw [pyEq_congr_left h0 k']
      split <;> rfl
    · simp only [h0, Bool.not_false, ↓reduceIte, dGet, ih]
      by_cases h1 : pyEq k₀ k' = true
      · have : pyEq k k' = false := by
          cases hk : pyEq k k'
          · rfl
          · exfalso; apply h0
            rw [pyEq_symm] at hk
            exact pyEq_trans h1 hk
        simp [h1, this]
      · simp [h1]

theorem delete_then_containsKey (d : KV) (k : Value) : containsKey (dictDelete d [k]) k = false := by
  simp [containsKey, dHas, dictDelete, get_delete, pyEq_refl]

theorem set_then_get (d : KV) (k v : Value) : dictGet (dictSet d k v) k .null = v := by
  simp [dictGet, dictSet, get_set, pyEq_refl]

/-- `mergeWith` of dicts with disjoint key sets is their union (whatever the mergers) -/
theorem mergeWith_disjoint (lm im : Value → Value → Value) (fuel lvl : Nat) (d1 d2 : KV)
    (h1 : ∀ p ∈ d1, dGet d2 p.1 = none) (h2 : ∀ q ∈ d2, dGet d1 q.1 = none) :
    mergeDicts lm im (fuel + 1) lvl d1 d2 = some (d1 ++ d2) := by
  simp only [mergeDicts]
  have hf : ∀ (l acc : KV), (∀ p ∈ l, dGet d2 p.1 = none) →
      l.foldl (mergeStep lm im (mergeDicts lm im fuel (if lvl = 0 then 0 else lvl - 1)) lvl d2) (some acc)
        = some (acc ++ l) := by
    intro l
    induction l with
    | nil => intro acc _; simp
    | cons p l ih =>
      intro acc hl
      simp only [List.foldl_cons, mergeStep, hl p (List.mem_cons_self ..)]
      rw [ih _ (fun q hq => hl q (List.mem_cons_of_mem _ hq))]
      simp
  rw [hf d1 [] h1]
  simp only [List.nil_append, Option.map_some, Option.some.injEq, List.append_cancel_left_eq]
  rw [List.filter_eq_self]
  intro q hq
  simp [dHas, h2 q hq]

/-! ### memorize -/

/-- the invariant of the shared buffer: what was yielded plus what the source still holds is the
    original content -/
def MemInv (m : Mem) (xs : VL) : Prop := m.yielded ++ m.src = xs

theorem Mem.next_spec (m : Mem) (xs : VL) (i : Nat) (h : MemInv m xs) (hi : i ≤ m.yielded.length) :
    (i < xs.length → ∃ m', m.next i = some (xs.getD i .null, m') ∧ MemInv m' xs ∧ i + 1 ≤ m'.yielded.length ∧
        m.yielded.length ≤ m'.yielded.length) ∧
    (xs.length ≤ i → m.next i = none) := by
  unfold MemInv at h
  have hl : m.yielded.length + m.src.length = xs.length := by rw [← h]; simp
  constructor
  · intro hlt
    simp only [Mem.next]
    split
    · rename_i hy
      refine ⟨m, ?_, h, by omega, Nat.le_refl _⟩
      rw [← h, List.getD_eq_getElem?_getD, List.getD_eq_getElem?_getD, List.getElem?_append_left hy]
    · have hiy : i = m.yielded.length := by omega
      cases hs : m.src with
      | nil => rw [hs] at hl; simp at hl; omega
      | cons x r =>
        refine ⟨⟨r, m.yielded ++ [x]⟩, ?_, ?_, by simp; omega, by simp⟩
        · simp only [Option.some.injEq, Prod.mk.injEq, and_true]
          rw [← h, hs, hiy, List.getD_eq_getElem?_getD, List.getElem?_append_right (Nat.le_refl _)]
          simp
        · simp [MemInv, ← h, hs]
  · intro hge
    have h1 : m.src = [] := List.eq_nil_of_length_eq_zero (by omega)
    have h2 : ¬ i < m.yielded.length := by omega
    simp [Mem.next, h1, h2]

theorem Mem.drain_spec (xs : VL) (fuel : Nat) (m : Mem) (i : Nat) (h : MemInv m xs)
    (hi : i ≤ m.yielded.length) (hf : xs.length < fuel + i) :
    (Mem.drain fuel m i).1 = xs.drop i ∧ MemInv (Mem.drain fuel m i).2 xs ∧ (Mem.drain fuel m i).2.src = [] := by
  induction fuel generalizing m i with
  | zero =>
    have hle : xs.length ≤ i := by omega
    have hl : m.yielded.length + m.src.length = xs.length := by rw [← h]; simp
    exact ⟨by simp [Mem.drain, List.drop_eq_nil_of_le hle], by simpa [Mem.drain] using h,
      by simp only [Mem.drain]; exact List.eq_nil_of_length_eq_zero (by omega)⟩
  | succ fuel ih =>
    simp only [Mem.drain]
    by_cases hlt : i < xs.length
    · obtain ⟨m', hn, hinv, hi', _⟩ := (Mem.next_spec m xs i h hi).1 hlt
      rw [hn]
      have := ih m' (i + 1) hinv hi' (by omega)
      refine ⟨?_, this.2⟩
      simp only [this.1]
      rw [List.getD_eq_getElem?_getD, List.getElem?_eq_getElem hlt, List.drop_eq_getElem_cons hlt]
      rfl
    · have hn := (Mem.next_spec m xs i h hi).2 (by omega)
      rw [hn]
      have hl : m.yielded.length + m.src.length = xs.length := by rw [← h]; simp
      have hsrc : m.src = [] := List.eq_nil_of_length_eq_zero (by omega)
      exact ⟨by simp [List.drop_eq_nil_of_le (Nat.le_of_not_lt hlt)], h, by simpa using hsrc⟩

/-- **memorize**: iterating the memorized one-shot source to the end, twice, gives the same
    elements both times (the source itself is pulled only once per element) -/
theorem memorize_same_elements (xs : VL) :
    let m0 : Mem := ⟨xs, []⟩
    let r1 := Mem.drain (xs.length + 1) m0 0
    let r2 := Mem.drain (xs.length + 1) r1.2 0
    r1.1 = xs ∧ r2.1 = xs ∧ r1.2.src = [] := by
  intro m0 r1 r2
  have h0 : MemInv m0 xs := by simp [MemInv, m0]
  have h1 := Mem.drain_spec xs (xs.length + 1) m0 0 h0 (Nat.zero_le _) (by omega)
  have h2 := Mem.drain_spec xs (xs.length + 1) r1.2 0 h1.2.1 (Nat.zero_le _) (by omega)
  exact ⟨by simpa using h1.1, by simpa using h2.1, h1.2.2⟩

/-! #### several live iterators over one memorized source

Two cursors (`false` / `true`) over one shared buffer, advanced in an arbitrary order (the
schedule).  Whatever the interleaving, each cursor receives the source sequence, in order,
as far as it has been advanced - the memorized iterator behaves like the list of its elements
for every consumer (zip of the collection with itself, self-join, nested lambdas...). -/

structure Two where
  m : Mem
  i : Nat := 0          -- position of cursor `false`
  j : Nat := 0          -- position of cursor `true`
  a : VL := []          -- what cursor `false` has received
  b : VL := []          -- what cursor `true` has received

def Two.step (t : Two) (who : Bool) : Two :=
  if who then
    match t.m.next t.j with
    | none => t
    | some (x, m') => { t with m := m', j := t.j + 1, b := t.b ++ [x] }
  else
    match t.m.next t.i with
    | none => t
    | some (x, m') => { t with m := m', i := t.i + 1, a := t.a ++ [x] }

def Two.run (sched : List Bool) (t : Two) : Two := sched.foldl Two.step t

/-- the invariant of the two-cursor machine -/
def TwoInv (xs : VL) (t : Two) : Prop :=
  MemInv t.m xs ∧ t.i ≤ t.m.yielded.length ∧ t.j ≤ t.m.yielded.length ∧ t.a = xs.take t.i ∧ t.b = xs.take t.j ∧
  t.i ≤ xs.length ∧ t.j ≤ xs.length

theorem take_succ_getD (xs : VL) (i : Nat) (h : i < xs.length) : xs.take i ++ [xs.getD i .null] = xs.take (i + 1) := by
  rw [List.take_succ, List.getD_eq_getElem?_getD, List.getElem?_eq_getElem h]
  rfl

theorem Two.step_inv (xs : VL) (t : Two) (who : Bool) (h : TwoInv xs t) :
    TwoInv xs (t.step who) ∧
    (t.step who).i = (if !who && t.i < xs.length then t.i + 1 else t.i) ∧
    (t.step who).j = (if who && t.j < xs.length then t.j + 1 else t.j) := by
  obtain ⟨hm, hi, hj, ha, hb, hil, hjl⟩ := h
  cases who with
  | true =>
    simp only [Two.step, ↓reduceIte, Bool.not_true, Bool.false_and, Bool.false_eq_true, Bool.true_and, decide_eq_true_eq]
    by_cases hlt : t.j < xs.length
    · obtain ⟨m', hn, hinv, hj', hmono⟩ := (Mem.next_spec t.m xs t.j hm hj).1 hlt
      simp only [hn, hlt, ↓reduceIte, and_true]
      unfold TwoInv; dsimp only
      exact ⟨hinv, by omega, hj', ha, by rw [hb]; exact take_succ_getD xs t.j hlt, hil, by omega⟩
    · have hn := (Mem.next_spec t.m xs t.j hm hj).2 (by omega)
      simp only [hn, hlt, ↓reduceIte, and_true]
      exact ⟨hm, hi, hj, ha, hb, hil, hjl⟩
  | false =>
    simp only [Two.step, Bool.false_eq_true, ↓reduceIte, Bool.not_false, Bool.true_and, decide_eq_true_eq, Bool.false_and]
    by_cases hlt : t.i < xs.length
    · obtain ⟨m', hn, hinv, hi', hmono⟩ := (Mem.next_spec t.m xs t.i hm hi).1 hlt
      simp only [hn, hlt, ↓reduceIte, and_true]
      unfold TwoInv; dsimp only
      exact ⟨hinv, hi', by omega, by rw [ha]; exact take_succ_getD xs t.i hlt, hb, by omega, hjl⟩
    · have hn := (Mem.next_spec t.m xs t.i hm hi).2 (by omega)
      simp only [hn, hlt, ↓reduceIte, and_true]
      exact ⟨hm, hi, hj, ha, hb, hil, hjl⟩

/-- **memorize, interleaved consumers.**  For EVERY schedule of two iterators over one memorized
    one-shot source, each iterator has received exactly the first (number of times it was advanced)
    elements of the source - nothing skipped, nothing doubled, whatever the other one did in
    between.  (An iterator advanced `≥ |xs|` times has received the whole source.) -/
theorem memorize_interleaved (xs : VL) (sched : List Bool) :
    let t := Two.run sched { m := ⟨xs, []⟩ }
    t.a = xs.take (sched.count false) ∧ t.b = xs.take (sched.count true) := by
  have gen : ∀ (sched : List Bool) (t : Two), TwoInv xs t →
      TwoInv xs (Two.run sched t) ∧
      (Two.run sched t).i = min (t.i + sched.count false) xs.length ∧
      (Two.run sched t).j = min (t.j + sched.count true) xs.length := by
    intro sched
    induction sched with
    | nil => intro t h; exact ⟨h, by simp [Two.run]; exact (Nat.min_eq_left h.2.2.2.2.2.1).symm,
        by simp [Two.run]; exact (Nat.min_eq_left h.2.2.2.2.2.2).symm⟩
    | cons w sched ih =>
      intro t h
      obtain ⟨hinv, hi, hj⟩ := Two.step_inv xs t w h
      obtain ⟨hinv', hi', hj'⟩ := ih (t.step w) hinv
      refine ⟨by simpa [Two.run] using hinv', ?_, ?_⟩
      · have : (Two.run (w :: sched) t).i = (Two.run sched (t.step w)).i := by simp [Two.run]
        rw [this, hi', hi]
        have := h.2.2.2.2.2.1
        cases w <;> simp [List.count_cons] <;> split <;> omega
      · have : (Two.run (w :: sched) t).j = (Two.run sched (t.step w)).j := by simp [Two.run]
        rw [this, hj', hj]
        have := h.2.2.2.2.2.2
        cases w <;> simp [List.count_cons] <;> split <;> omega
  intro t
  have h0 : TwoInv xs { m := ⟨xs, []⟩ } := by simp [TwoInv, MemInv]
  obtain ⟨hinv, hi, hj⟩ := gen sched _ h0
  obtain ⟨_, _, _, ha, hb, _, _⟩ := hinv
  refine ⟨?_, ?_⟩
  · show (Two.run sched { m := ⟨xs, []⟩ }).a = _
    rw [ha, hi]; simp [List.take_eq_take_iff]
  · show (Two.run sched { m := ⟨xs, []⟩ }).b = _
    rw [hb, hj]; simp [List.take_eq_take_iff]

/-- in particular: run both to the end in any fair order and both have the whole source -/
theorem memorize_interleaved_full (xs : VL) (sched : List Bool)
    (h0 : xs.length ≤ sched.count false) (h1 : xs.length ≤ sched.count true) :
    (Two.run sched { m := ⟨xs, []⟩ }).a = xs ∧ (Two.run sched { m := ⟨xs, []⟩ }).b = xs := by
  have := memorize_interleaved xs sched
  exact ⟨by rw [this.1, List.take_of_length_le h0], by rw [this.2, List.take_of_length_le h1]⟩

/-! ### unpack -/

/-- `unpack()` (no names) binds `$1 .. $n` to ALL elements in order - also when the source is a
    one-shot iterator whose first element the length probe has already taken -/
theorem unpack_binds_positional (xs : VL) :
    unpack [] xs = some ((xs.zipIdx 1).map fun p => (Nat.toDigits 10 p.2, p.1)) := by
  simp only [unpack, unpackBinds, List.isEmpty_nil, ↓reduceIte, List.take_append_drop]

/-- `unpack(names)` binds name i to element i when the sizes agree, and is an error otherwise -/
theorem unpack_binds_named (names : List (List Char)) (hn : names ≠ []) (xs : VL) :
    unpack names xs = if xs.length = names.length then some (names.zip xs) else none := by
  have hne : names.isEmpty = false := by simpa using hn
  simp only [unpack, unpackBinds, hne, Bool.false_eq_true, ↓reduceIte, List.length_take]
  by_cases h : xs.length = names.length
  · have h' : (names.length != min (names.length + 1) xs.length) = false := by simp; omega
    rw [if_neg (by simp [h']), if_pos h, List.take_of_length_le (by omega)]
  · have h' : (names.length != min (names.length + 1) xs.length) = true := by simp; omega
    rw [if_pos h', if_neg h]

/-- **unpack binds every name to its element** - positional (`$1..$n`, all elements, also from a
    one-shot iterator whose head the length probe already took) and named (sizes must agree) -/
theorem unpack_binds (names : List (List Char)) (xs : VL) :
    unpack names xs =
      if names = [] then some ((xs.zipIdx 1).map fun p => (Nat.toDigits 10 p.2, p.1))
      else if xs.length = names.length then some (names.zip xs) else none := by
  by_cases h : names = []
  · subst h; simp [unpack_binds_positional]
  · simp [h, unpack_binds_named names h xs]

theorem unpack_first (x : Value) (xs : VL) :
    (unpack [] (x :: xs)).bind (fun b => (b.find? fun p => p.1 == ['1']).map (·.2)) = some x := by
  simp [unpack_binds_positional, Nat.toDigits, Nat.toDigitsCore, Nat.digitChar]


/-! ### the layer the driver runs agrees with the pure definitions (`*_pure`)

`LSeq` operators walk the elements and stop at the first failing lambda application; where no
application fails they compute exactly the list-level function the theorems above are about. -/

theorem mapM_pure (f : Value → R Value) (g : Value → Value) (xs : VL) (e : Option Err)
    (h : ∀ x ∈ xs, f x = .ok (g x)) : LSeq.mapM f xs e = ⟨select g xs, e⟩ := by
  induction xs with
  | nil => simp [LSeq.mapM, select]
  | cons x xs ih =>
    simp only [LSeq.mapM, h x (List.mem_cons_self ..)]
    rw [ih (fun y hy => h y (List.mem_cons_of_mem _ hy))]
    simp [select]

theorem filterM_pure (p : Value → R Bool) (q : Value → Bool) (xs : VL) (e : Option Err)
    (h : ∀ x ∈ xs, p x = .ok (q x)) : LSeq.filterM p xs e = ⟨where_ q xs, e⟩ := by
  induction xs with
  | nil => simp [LSeq.filterM, where_]
  | cons x xs ih =>
    simp only [LSeq.filterM, h x (List.mem_cons_self ..)]
    rw [ih (fun y hy => h y (List.mem_cons_of_mem _ hy))]
    by_cases hq : q x = true <;> simp [where_, List.filter_cons, hq]

theorem flatMapM_pure (f : Value → R VL) (g : Value → VL) (xs : VL) (e : Option Err)
    (h : ∀ x ∈ xs, f x = .ok (g x)) : LSeq.flatMapM f xs e = ⟨selectMany g xs, e⟩ := by
  induction xs with
  | nil => simp [LSeq.flatMapM, selectMany]
  | cons x xs ih =>
    simp only [LSeq.flatMapM, h x (List.mem_cons_self ..)]
    rw [ih (fun y hy => h y (List.mem_cons_of_mem _ hy))]
    simp [selectMany]

theorem takeWhileM_pure (p : Value → R Bool) (q : Value → Bool) (xs : VL) (e : Option Err)
    (h : ∀ x ∈ xs, p x = .ok (q x)) :
    LSeq.takeWhileM p xs e = ⟨takeWhile q xs, if xs.all q then e else none⟩ := by
  induction xs with
  | nil => simp [LSeq.takeWhileM, takeWhile]
  | cons x xs ih =>
    simp only [LSeq.takeWhileM, h x (List.mem_cons_self ..)]
    by_cases hq : q x = true
    · simp only [hq]
      rw [ih (fun y hy => h y (List.mem_cons_of_mem _ hy))]
      simp [takeWhile, List.takeWhile_cons, hq]
    · have hq' : q x = false := by simpa using hq
      simp [hq', takeWhile, List.takeWhile_cons]

theorem dropWhileM_pure (p : Value → R Bool) (q : Value → Bool) (xs : VL) (e : Option Err)
    (h : ∀ x ∈ xs, p x = .ok (q x)) : LSeq.dropWhileM p xs e = ⟨skipWhile q xs, e⟩ := by
  induction xs with
  | nil => simp [LSeq.dropWhileM, skipWhile]
  | cons x xs ih =>
    simp only [LSeq.dropWhileM, h x (List.mem_cons_self ..)]
    by_cases hq : q x = true
    · simp only [hq]
      rw [ih (fun y hy => h y (List.mem_cons_of_mem _ hy))]
      simp [skipWhile, List.dropWhile_cons, hq]
    · have hq' : q x = false := by simpa using hq
      simp [hq', skipWhile, List.dropWhile_cons]

/-! generators inside values: whatever hashes by content holds none -/

mutual
theorem noLazy_of_hashable : ∀ v : Value, hashable v = true → hasLazy v = false
  | .null, _ | .bool _, _ | .int _, _ | .flt _, _ | .str _, _ | .host _, _ | .set _, _ => by simp [hasLazy]
  | .list _, h => by simp [hashable] at h
  | .iter _, h => by simp [hashable] at h
  | .tuple l, h => by simp only [hashable] at h; simpa [hasLazy] using noLazyL_of_hashable l h
  | .dict d, h => by simp only [hashable] at h; simpa [hasLazy] using noLazyP_of_hashable d h
theorem noLazyL_of_hashable : ∀ l : List Value, hashableL l = true → hasLazyL l = false
  | [], _ => by simp [hasLazyL]
  | x :: xs, h => by
    simp only [hashableL, Bool.and_eq_true] at h
    simp [hasLazyL, noLazy_of_hashable x h.1, noLazyL_of_hashable xs h.2]
theorem noLazyP_of_hashable : ∀ d : List (Value × Value), hashableP d = true → hasLazyP d = false
  | [], _ => by simp [hasLazyP]
  | (_, v) :: r, h => by
    simp only [hashableP, Bool.and_eq_true] at h
    simp [hasLazyP, noLazy_of_hashable v h.1, noLazyP_of_hashable r h.2]
end

theorem noLazyL_of_all_hashable (xs : VL) (h : ∀ x ∈ xs, hashable x = true) : hasLazyL xs = false := by
  induction xs with
  | nil => simp [hasLazyL]
  | cons x xs ih =>
    simp [hasLazyL, noLazy_of_hashable x (h x (List.mem_cons_self ..)),
      ih (fun y hy => h y (List.mem_cons_of_mem _ hy))]

theorem distinctM_pure (key : Value → R Value) (k : Value → Value) (seen xs : VL) (e : Option Err)
    (h : ∀ x ∈ xs, key x = .ok (k x)) (hh : ∀ x ∈ xs, hashable (k x) = true) :
    distinctM key seen xs e = ⟨distinctAux k seen xs, e⟩ := by
  induction xs generalizing seen with
  | nil => simp [distinctM, distinctAux]
  | cons x xs ih =>
    simp only [distinctM, distinctAux, h x (List.mem_cons_self ..), hh x (List.mem_cons_self ..),
      noLazy_of_hashable _ (hh x (List.mem_cons_self ..))]
    simp only [Bool.not_true, Bool.false_eq_true, ↓reduceIte]
    split
    · exact ih seen (fun y hy => h y (List.mem_cons_of_mem _ hy)) (fun y hy => hh y (List.mem_cons_of_mem _ hy))
    · rw [ih _ (fun y hy => h y (List.mem_cons_of_mem _ hy)) (fun y hy => hh y (List.mem_cons_of_mem _ hy))]

theorem findM_pure (p : Value → R Bool) (q : Value → Bool) (i : Nat) (xs : VL)
    (h : ∀ x ∈ xs, p x = .ok (q x)) :
    (LSeq.findM p i xs none).map (fun r => match r with | some (j, _) => (j : Int) | none => -1)
      = .ok (indexWhereFrom q i xs) := by
  induction xs generalizing i with
  | nil => simp [LSeq.findM, indexWhereFrom, Except.map]
  | cons x xs ih =>
    simp only [LSeq.findM, h x (List.mem_cons_self ..), indexWhereFrom, bind, Except.bind]
    by_cases hq : q x = true
    · simp [hq, Except.map, pure, Except.pure]
    · simp only [hq, Bool.false_eq_true, ↓reduceIte]
      exact ih (i + 1) (fun y hy => h y (List.mem_cons_of_mem _ hy))

theorem foldM2_pure (f : Value → Value → R Value) (g : Value → Value → Value) (acc : Value) (xs : VL)
    (h : ∀ a x, f a x = .ok (g a x)) : foldM2 f acc xs = .ok (xs.foldl g acc) := by
  induction xs generalizing acc with
  | nil => simp [foldM2]
  | cons x xs ih => simp [foldM2, h, bind, Except.bind, ih]

theorem scanM2_pure (f : Value → Value → R Value) (g : Value → Value → Value) (acc : Value) (xs : VL)
    (e : Option Err) (h : ∀ a x, f a x = .ok (g a x)) : scanM2 f acc xs e = ⟨scanFrom g acc xs, e⟩ := by
  induction xs generalizing acc with
  | nil => simp [scanM2, scanFrom]
  | cons x xs ih => simp [scanM2, scanFrom, h, ih]

/-- `reduce` without failures is `aggregate` -/
theorem reduceM_pure (f : Value → Value → R Value) (g : Value → Value → Value) (seed : Option Value) (xs : VL)
    (h : ∀ a x, f a x = .ok (g a x)) :
    reduceM f seed ⟨xs, none⟩ = match aggregate g seed xs with | some v => .ok v | none => .error .type := by
  match seed, xs with
  | some s, xs => simp [reduceM, aggregate, foldM2_pure f g _ _ h, bind, Except.bind, pure, Except.pure]
  | none, [] => simp [reduceM, aggregate]
  | none, x :: xs => simp [reduceM, aggregate, foldM2_pure f g _ _ h, bind, Except.bind, pure, Except.pure]

theorem groupsM_pure (key : Lam) (val : Option Lam) (xs : VL) (g : Groups)
    (hk : ∀ x ∈ xs, ∃ k, key.eval x = .ok k ∧ hashable k = true)
    (hv : ∀ x ∈ xs, ∃ v, (optLam val).eval x = .ok v) :
    groupsM key val xs g
      = .ok (xs.foldl (fun g x => addToGroup (key.fn x) ((optLam val).fn x) g) g) := by
  induction xs generalizing g with
  | nil => simp [groupsM]
  | cons x xs ih =>
    obtain ⟨k, hk1, hk2⟩ := hk x (List.mem_cons_self ..)
    obtain ⟨v, hv1⟩ := hv x (List.mem_cons_self ..)
    have hv2 : (val.getD .arg).eval x = .ok v := hv1
    simp only [groupsM, hv2, hk1, bind, Except.bind, hk2, noLazy_of_hashable k hk2, Bool.not_true,
      Bool.false_eq_true, ↓reduceIte, List.foldl_cons, Lam.fn, hv1]
    exact ih _ (fun y hy => hk y (List.mem_cons_of_mem _ hy)) (fun y hy => hv y (List.mem_cons_of_mem _ hy))

/-- when the sort cannot fail the model sorts with the pure `orderFields` (stable merge sort) -/
theorem sortRun_pure (fs : List (Lam × Bool)) (xs : VL) (h : sortErrs fs [xs] = []) :
    sortRun fs xs = .ok (orderFields ltT gtT (fieldsFn fs) xs) := by
  simp [sortRun, h]

/-! ### lambdas are applied element by element: results in order, an exception at its position

The higher-order functions hand every element to their lambda exactly once, in order.  A lambda is a
function of its argument (`Lam.eval` is a Lean function): equal elements get equal results, and a
lambda that returns a lazy sequence returns a fresh, complete one at every application.  When an
application raises, a lazy operator has produced the results for the elements before it and then raises
that exception - it never ends early as if the collection were exhausted. -/

/-- **select is map, element by element, including the position of the error** -/
theorem select_map (f : Value → R Value) (g : Value → Value) (pre post : VL) (x : Value) (er : Err)
    (e : Option Err) (hpre : ∀ y ∈ pre, f y = .ok (g y)) (hx : f x = .error er) :
    LSeq.mapM f (pre ++ x :: post) e = ⟨select g pre, some er⟩ := by
  induction pre with
  | nil => simp [LSeq.mapM, hx, select]
  | cons y ys ih =>
    have hy := hpre y (List.mem_cons_self ..)
    have := ih (fun z hz => hpre z (List.mem_cons_of_mem _ hz))
    simp only [List.cons_append, LSeq.mapM, hy, this]
    simp [select]

/-- `where`: the elements before the failing application are filtered and produced, then the exception -/
theorem where_error_position (p : Value → R Bool) (q : Value → Bool) (pre post : VL) (x : Value) (er : Err)
    (e : Option Err) (hpre : ∀ y ∈ pre, p y = .ok (q y)) (hx : p x = .error er) :
    LSeq.filterM p (pre ++ x :: post) e = ⟨where_ q pre, some er⟩ := by
  induction pre with
  | nil => simp [LSeq.filterM, hx, where_]
  | cons y ys ih =>
    have hy := hpre y (List.mem_cons_self ..)
    have := ih (fun z hz => hpre z (List.mem_cons_of_mem _ hz))
    simp only [List.cons_append, LSeq.filterM, hy, this]
    by_cases hq : q y = true <;> simp [where_, List.filter_cons, hq]

/-- `takeWhile`: an exception in the predicate is raised after the prefix accepted so far -/
theorem takeWhile_error_position (p : Value → R Bool) (pre post : VL) (x : Value) (er : Err)
    (e : Option Err) (hpre : ∀ y ∈ pre, p y = .ok true) (hx : p x = .error er) :
    LSeq.takeWhileM p (pre ++ x :: post) e = ⟨pre, some er⟩ := by
  induction pre with
  | nil => simp [LSeq.takeWhileM, hx]
  | cons y ys ih =>
    have hy := hpre y (List.mem_cons_self ..)
    have := ih (fun z hz => hpre z (List.mem_cons_of_mem _ hz))
    simp [LSeq.takeWhileM, hy, this]

/-- `skipWhile`: an exception in the predicate while still skipping: nothing was produced yet -/
theorem skipWhile_error_position (p : Value → R Bool) (pre post : VL) (x : Value) (er : Err)
    (e : Option Err) (hpre : ∀ y ∈ pre, p y = .ok true) (hx : p x = .error er) :
    LSeq.dropWhileM p (pre ++ x :: post) e = ⟨[], some er⟩ := by
  induction pre with
  | nil => simp [LSeq.dropWhileM, hx]
  | cons y ys ih =>
    have hy := hpre y (List.mem_cons_self ..)
    have := ih (fun z hz => hpre z (List.mem_cons_of_mem _ hz))
    simp [LSeq.dropWhileM, hy, this]

/-- **a lazy `select` is never cut short silently**: if consuming it to the end raises nothing, the source raised
    nothing, every application succeeded and there is one result per element -/
theorem select_never_truncates (f : Value → R Value) (xs : VL) (e : Option Err)
    (h : (LSeq.mapM f xs e).err = none) :
    e = none ∧ (∀ x ∈ xs, ∃ v, f x = .ok v) ∧ (LSeq.mapM f xs e).items.length = xs.length := by
  induction xs with
  | nil => simpa [LSeq.mapM] using h
  | cons x xs ih =>
    cases hfx : f x with
    | error er => simp [LSeq.mapM, hfx] at h
    | ok v =>
      simp only [LSeq.mapM, hfx] at h ⊢
      obtain ⟨h1, h2, h3⟩ := ih h
      refine ⟨h1, ?_, by simp [h3]⟩
      intro y hy
      rcases List.mem_cons.mp hy with rfl | hy
      · exact ⟨v, hfx⟩
      · exact h2 y hy

/-- the same for `where`: no exception at the end means every application of the predicate succeeded -/
theorem where_never_truncates (p : Value → R Bool) (xs : VL) (e : Option Err)
    (h : (LSeq.filterM p xs e).err = none) : e = none ∧ ∀ x ∈ xs, ∃ b, p x = .ok b := by
  induction xs with
  | nil => simpa [LSeq.filterM] using h
  | cons x xs ih =>
    cases hpx : p x with
    | error er => simp [LSeq.filterM, hpx] at h
    | ok b =>
      simp only [LSeq.filterM, hpx] at h
      obtain ⟨h1, h2⟩ := ih h
      refine ⟨h1, ?_⟩
      intro y hy
      rcases List.mem_cons.mp hy with rfl | hy
      · exact ⟨b, hpx⟩
      · exact h2 y hy

/-- **equal elements get equal results** (also when the results are lazy sequences: each application makes
    its own): positions of the input that hold the same element hold the same result -/
theorem select_congr_dup (f : Value → R Value) (xs : VL) (e : Option Err)
    (h : (LSeq.mapM f xs e).err = none) (i j : Nat) (hij : xs[i]? = xs[j]?) :
    (LSeq.mapM f xs e).items[i]? = (LSeq.mapM f xs e).items[j]? := by
  obtain ⟨_, hok, _⟩ := select_never_truncates f xs e h
  let g : Value → Value := fun x => match f x with | .ok v => v | .error _ => null
  have hg : ∀ x ∈ xs, f x = .ok (g x) := by
    intro x hx
    obtain ⟨v, hv⟩ := hok x hx
    simp [g, hv]
  rw [mapM_pure f g xs e hg]
  simp [select, List.getElem?_map, hij]

/-- a lambda that returns a lazy sequence: the result is the complete filtered sequence of THIS element, whatever
    was done with the results of earlier applications (the model has no state a lambda could share between calls) -/
theorem lam_where_eval (p : Lam) (xs : VL) (q : Value → Bool) (hl : hasLazyL xs = false)
    (hp : ∀ y ∈ xs, (do let v ← (← p.evalR y).force; pure (truthy v) : R Bool) = .ok (q y)) :
    (Lam.whereIn .arg p).eval (tuple xs) = .ok (iter (where_ q xs)) := by
  have := filterM_pure (fun y => (do let v ← (← p.evalR y).force; pure (truthy v) : R Bool)) q xs none hp
  have e1 : (Lam.whereIn .arg p).evalR (tuple xs)
      = .ok (.lazy (LSeq.filterM (fun y => (do let v ← (← p.evalR y).force; pure (truthy v) : R Bool)) xs none)) := rfl
  simp only [Lam.eval, Lam.passThrough, hasLazy, hl, e1, this]
  simp [LRes.force, bind, Except.bind]

/-- `$.first()` on an element that is an empty list raises StopIteration, on a non-empty one gives its head -/
theorem lam_first_eval (xs : VL) (hl : hasLazyL xs = false) :
    (Lam.first .arg none).eval (tuple xs) = match xs with | [] => .error .stopIteration | x :: _ => .ok x := by
  cases xs <;>
    simp [Lam.eval, Lam.passThrough, hasLazy, hl, Lam.evalR, LRes.seq, LRes.force, firstOf, bind, Except.bind,
      pure, Except.pure]

/-! when does an exception raised inside a lambda surface?  Lazy operators return without having applied their
lambda at all; the exception comes when a consumer reaches the failing element, after the prefix before it.  Eager
operators (`indexWhere`, `any`, `all`, `toDict`, `groupBy`, `aggregate`...) apply the lambda while they are called. -/

theorem run_select_lazy (opts : Opts) (hd : opts.iterableDicts = false) (hn : opts.noSets = false) (f : Lam) (hm : f.seqMethods = false) (s : LSeq) :
    runOp opts (.select f) (.lazy s) = .ok (.lazy (LSeq.mapM f.eval (limitLazy opts s).items (limitLazy opts s).err)) := by
  simp [runOp, runOpCore, noSetsErr, Op.needsSets, Op.lamUsesLen, runOp1, Op.linear, Op.collArgs, Op.usesPlus, Op.lamSeqMethods, hm, Obj.it, Obj.iterable?, hd, hn, bind, Except.bind, pure, Except.pure]

theorem run_where_lazy (opts : Opts) (hd : opts.iterableDicts = false) (hn : opts.noSets = false) (p : Lam) (hm : p.seqMethods = false) (s : LSeq) :
    runOp opts (.where_ p) (.lazy s) = .ok (.lazy (LSeq.filterM p.test (limitLazy opts s).items (limitLazy opts s).err)) := by
  simp [runOp, runOpCore, noSetsErr, Op.needsSets, Op.lamUsesLen, runOp1, Op.linear, Op.collArgs, Op.usesPlus, Op.lamSeqMethods, hm, Obj.it, Obj.iterable?, hd, hn, bind, Except.bind, pure, Except.pure]

theorem run_takeWhile_lazy (opts : Opts) (hd : opts.iterableDicts = false) (hn : opts.noSets = false) (p : Lam) (hm : p.seqMethods = false) (s : LSeq) :
    runOp opts (.takeWhile p) (.lazy s) = .ok (.lazy (LSeq.takeWhileM p.test (limitLazy opts s).items (limitLazy opts s).err)) := by
  simp [runOp, runOpCore, noSetsErr, Op.needsSets, Op.lamUsesLen, runOp1, Op.linear, Op.collArgs, Op.usesPlus, Op.lamSeqMethods, hm, Obj.it, Obj.iterable?, hd, hn, bind, Except.bind, pure, Except.pure]

theorem run_skipWhile_lazy (opts : Opts) (hd : opts.iterableDicts = false) (hn : opts.noSets = false) (p : Lam) (hm : p.seqMethods = false) (s : LSeq) :
    runOp opts (.skipWhile p) (.lazy s) = .ok (.lazy (LSeq.dropWhileM p.test (limitLazy opts s).items (limitLazy opts s).err)) := by
  simp [runOp, runOpCore, noSetsErr, Op.needsSets, Op.lamUsesLen, runOp1, Op.linear, Op.collArgs, Op.usesPlus, Op.lamSeqMethods, hm, Obj.it, Obj.iterable?, hd, hn, bind, Except.bind, pure, Except.pure]

/-- a consumer that stops before the failing element never sees the exception: `select(f).take(k)` is the
    first `k` results when the first failing application is at a position `>= k` -/
theorem take_before_error (f : Value → R Value) (g : Value → Value) (pre post : VL) (x : Value) (er : Err)
    (e : Option Err) (hpre : ∀ y ∈ pre, f y = .ok (g y)) (hx : f x = .error er) (k : Nat) (hk : k ≤ pre.length) :
    (LSeq.mapM f (pre ++ x :: post) e).take k = ⟨(select g pre).take k, none⟩ := by
  rw [select_map f g pre post x er e hpre hx]
  simp [LSeq.take, select, hk]

/-- ...and one that goes further gets the whole prefix, then the exception -/
theorem take_past_error (f : Value → R Value) (g : Value → Value) (pre post : VL) (x : Value) (er : Err)
    (e : Option Err) (hpre : ∀ y ∈ pre, f y = .ok (g y)) (hx : f x = .error er) (k : Nat) (hk : pre.length < k) :
    (LSeq.mapM f (pre ++ x :: post) e).take k = ⟨select g pre, some er⟩ := by
  rw [select_map f g pre post x er e hpre hx]
  have h1 : ¬ k ≤ pre.length := by omega
  simp only [LSeq.take, select, List.length_map, h1, ↓reduceIte]
  rw [List.take_of_length_le (by simp; omega)]

/-- an eager search (`indexWhere`, `any`, `all`, `in`): the exception of the predicate at the first element that
    is reached surfaces while the operator runs -/
theorem findM_error_position (p : Value → R Bool) (i : Nat) (pre post : VL) (x : Value) (er : Err) (e : Option Err)
    (hpre : ∀ y ∈ pre, p y = .ok false) (hx : p x = .error er) :
    LSeq.findM p i (pre ++ x :: post) e = .error er := by
  induction pre generalizing i with
  | nil => simp [LSeq.findM, hx, bind, Except.bind]
  | cons y ys ih =>
    have hy := hpre y (List.mem_cons_self ..)
    simp only [List.cons_append, LSeq.findM, hy, bind, Except.bind]
    simpa using ih (i + 1) (fun z hz => hpre z (List.mem_cons_of_mem _ hz))

theorem run_indexWhere_eager (opts : Opts) (hd : opts.iterableDicts = false) (hn : opts.noSets = false) (hl : opts.limit = none)
    (p : Lam) (pre post : VL) (x : Value) (er : Err)
    (hpre : ∀ y ∈ pre, p.test y = .ok false) (hx : p.test x = .error er) :
    runOp opts (.indexWhere p) (.lazy ⟨pre ++ x :: post, none⟩) = .error er := by
  have := findM_error_position p.test 0 pre post x er none hpre hx
  cases er <;> simp [runOp, runOpCore, noSetsErr, Op.needsSets, Op.lamUsesLen, runOp1, Op.linear, Op.collArgs, Op.usesPlus, Obj.it, Obj.iterable?, limitLazy, hd, hn, hl, bind, Except.bind, this]

/-- non-vacuity of the hypotheses of `select_map` / `take_before_error` / `take_past_error`: `$.first()` over
    `[[1], [], [3]]` succeeds on the prefix `[[1]]` and raises StopIteration on `[]` -/
example : LSeq.mapM (Lam.first .arg none).eval ([tuple [int 1]] ++ tuple [] :: [tuple [int 3]]) none
    = ⟨[int 1], some .stopIteration⟩ :=
  select_map _ (fun _ => int 1) [tuple [int 1]] [tuple [int 3]] (tuple []) .stopIteration none
    (by intro y hy; simp at hy; subst hy; rfl) rfl
example : (LSeq.mapM (Lam.first .arg none).eval ([tuple [int 1]] ++ tuple [] :: [tuple [int 3]]) none).take 1
    = ⟨[int 1], none⟩ :=
  take_before_error _ (fun _ => int 1) [tuple [int 1]] [tuple [int 3]] (tuple []) .stopIteration none
    (by intro y hy; simp at hy; subst hy; rfl) rfl 1 (by simp)
/-- non-vacuity of `run_indexWhere_eager`: `[[1], [], [3]].indexWhere($.first() > 2)` raises while it is called -/
example : runOp {} (.indexWhere (.gt (.first .arg none) 2)) (.lazy ⟨[tuple [int 1]] ++ tuple [] :: [tuple [int 3]], none⟩)
    = .error .stopIteration :=
  run_indexWhere_eager {} rfl rfl rfl _ [tuple [int 1]] [tuple [int 3]] (tuple []) .stopIteration
    (by intro y hy; simp at hy; subst hy; rfl) rfl

/-! the demonstrations of the two lambda-boundary defects, on the model -/

/-- `[[1, 2], [1, 2]].select($.where($ > 1))` is `[[2], [2]]`: the second, equal element gets its own result -/
example : runPipe {} [.select (.whereIn .arg (.gt .arg 1))] (tuple [tuple [int 1, int 2], tuple [int 1, int 2]])
    = .ok (list [list [int 2], list [int 2]]) := by rfl

/-- `[[1], [], [3]].select($.first())` raises StopIteration (when the result is consumed)... -/
example : runPipe {} [.select (.first .arg none)] (tuple [tuple [int 1], tuple [], tuple [int 3]])
    = .error .stopIteration := by rfl
/-- ...after the first element has been produced: `.take(1)` gives `[1]` -/
example : runPipe {} [.select (.first .arg none), .take 1] (tuple [tuple [int 1], tuple [], tuple [int 3]])
    = .ok (list [int 1]) := by rfl
/-- `[[1], [true]].select(str($[0]))` is `['1', 'true']`: equal as keys, different as values -/
example : runPipe {} [.select (.strOf (.index .arg 0))] (tuple [tuple [int 1], tuple [bool true]])
    = .ok (list [str ['1'], str ['t', 'r', 'u', 'e']]) := by rfl
/-- `[[1], [1.0]].select($[0] / 2)` is `[0, 0.5]` -/
example : runPipe {} [.select (.half (.index .arg 0))] (tuple [tuple [int 1], tuple [flt 0x3FF0000000000000]])
    = .ok (list [int 0, flt 0x3FE0000000000000]) := by rfl
/-- `1`, `1.0` and `true` are one key: `[1, 1.0, true].distinct()` is `[1]` -/
example : runPipe {} [.distinct none] (tuple [int 1, flt 0x3FF0000000000000, bool true]) = .ok (list [int 1]) := by
  rfl

/-! op-level corollaries: what `runOp` computes on an exception-free lazy receiver -/

theorem run_where (opts : Opts) (hd : opts.iterableDicts = false) (hn : opts.noSets = false) (hl : opts.limit = none) (p : Lam) (xs : VL) (h : ∀ x ∈ xs, ∃ v, p.eval x = .ok v) :
    runOp opts (.where_ p) (.lazy ⟨xs, none⟩) = .ok (.lazy ⟨where_ p.pred xs, none⟩) := by
  have : LSeq.filterM p.test xs none = ⟨where_ p.pred xs, none⟩ := by
    apply filterM_pure
    intro x hx
    obtain ⟨v, hv⟩ := h x hx
    simp [Lam.test, Lam.pred, Lam.fn, hv, bind, Except.bind, pure, Except.pure]
  simp [runOp, runOpCore, noSetsErr, Op.needsSets, Op.lamUsesLen, runOp1, Op.linear, Op.collArgs, Op.usesPlus, Obj.it, Obj.iterable?, limitLazy, hd, hn, hl, bind, Except.bind, pure, Except.pure, this]

theorem run_select (opts : Opts) (hd : opts.iterableDicts = false) (hn : opts.noSets = false) (hl : opts.limit = none) (f : Lam) (xs : VL) (h : ∀ x ∈ xs, ∃ v, f.eval x = .ok v) :
    runOp opts (.select f) (.lazy ⟨xs, none⟩) = .ok (.lazy ⟨select f.fn xs, none⟩) := by
  have : LSeq.mapM f.eval xs none = ⟨select f.fn xs, none⟩ := by
    apply mapM_pure
    intro x hx
    obtain ⟨v, hv⟩ := h x hx
    simp [Lam.fn, hv]
  simp [runOp, runOpCore, noSetsErr, Op.needsSets, Op.lamUsesLen, runOp1, Op.linear, Op.collArgs, Op.usesPlus, Obj.it, Obj.iterable?, limitLazy, hd, hn, hl, bind, Except.bind, pure, Except.pure, this]

theorem run_take (opts : Opts) (hd : opts.iterableDicts = false) (hn : opts.noSets = false) (hl : opts.limit = none) (n : Nat) (xs : VL) :
    runOp opts (.take n) (.lazy ⟨xs, none⟩) = .ok (.lazy ⟨take n xs, none⟩) := by
  have : ¬ ((n : Int) < 0) := by omega
  simp [runOp, runOpCore, noSetsErr, Op.needsSets, Op.lamUsesLen, runOp1, Op.linear, Op.collArgs, Op.usesPlus, Obj.it, Obj.iterable?, limitLazy, hd, hn, hl, bind, Except.bind, pure, Except.pure, LSeq.take, take, this]

theorem run_skip (opts : Opts) (hd : opts.iterableDicts = false) (hn : opts.noSets = false) (hl : opts.limit = none) (n : Nat) (xs : VL) :
    runOp opts (.skip n) (.lazy ⟨xs, none⟩) = .ok (.lazy ⟨skip n xs, none⟩) := by
  have : ¬ ((n : Int) < 0) := by omega
  simp [runOp, runOpCore, noSetsErr, Op.needsSets, Op.lamUsesLen, runOp1, Op.linear, Op.collArgs, Op.usesPlus, Obj.it, Obj.iterable?, limitLazy, hd, hn, hl, bind, Except.bind, pure, Except.pure, LSeq.drop, skip, this]

theorem run_reverse (opts : Opts) (hd : opts.iterableDicts = false) (hn : opts.noSets = false) (hl : opts.limit = none) (xs : VL) :
    runOp opts .reverse (.lazy ⟨xs, none⟩) = .ok (.lazy ⟨reverse xs, none⟩) := by
  simp [runOp, runOpCore, noSetsErr, Op.needsSets, Op.lamUsesLen, runOp1, Op.linear, Op.collArgs, Op.usesPlus, Obj.it, Obj.iterable?, limitLazy, hd, hn, hl, bind, Except.bind, pure, Except.pure, LSeq.toList, lazyOk, reverse]

theorem run_distinct (opts : Opts) (hd : opts.iterableDicts = false) (hn : opts.noSets = false) (hl : opts.limit = none) (xs : VL) (h : ∀ x ∈ xs, hashable x = true) :
    runOp opts (.distinct none) (.lazy ⟨xs, none⟩) = .ok (.lazy ⟨distinct xs, none⟩) := by
  have : distinctM (optLam none).eval [] xs none = ⟨distinctAux id [] xs, none⟩ :=
    distinctM_pure _ id [] xs none
      (by intro x _; simp [optLam, Lam.eval, Lam.passThrough, Lam.evalR, LRes.force, bind, Except.bind]) (by simpa using h)
  have hl' : (Obj.lazy ⟨xs, none⟩).carriesLazy = false := by simpa [Obj.carriesLazy] using noLazyL_of_all_hashable xs h
  simp [runOp, runOpCore, noSetsErr, Op.needsSets, Op.lamUsesLen, runOp1, hl', Op.collArgs, Op.usesPlus, Obj.it, Obj.iterable?, limitLazy, hd, hn, hl, bind, Except.bind, pure, Except.pure, this, distinct, distinctBy]

/-- iterating the result of `orderBy` yields the pure stable sort -/
theorem run_orderBy_iter (opts : Opts) (hd : opts.iterableDicts = false) (hn : opts.noSets = false) (hl : opts.limit = none)
    (k : Lam) (xs : VL) (h : sortErrs [(k, true)] [xs] = []) :
    (runOp opts (.orderBy k) (.lazy ⟨xs, none⟩) >>= fun o => o.it opts)
      = .ok ⟨orderBy ltT gtT k.fn xs, none⟩ := by
  have hs := sortRun_pure [(k, true)] xs h
  simp [runOp, runOpCore, noSetsErr, Op.needsSets, Op.lamUsesLen, runOp1, Op.linear, Op.collArgs, Op.usesPlus, Obj.it, Obj.iterable?, limitLazy, hd, hn, hl, bind, Except.bind, pure, Except.pure, hs, orderBy, fieldsFn]

end Yaql.Props.C13
