import Yaql.Gen.LimitFacts
import Yaql.Gen.Sizes
import Yaql.Props.C08
/-!
C08 over the tables regenerated from the live repo on every run:
`Gen.LimitFacts` (every registered function x payload parameter: declared type class and AST use facts;
every lambda whose result a payload consumes) and `Gen.Sizes` (`sys.getsizeof` constants).
-/
namespace Yaql.Props.C08Gen
open Yaql.Gen.LimitFacts Yaql.Limits

/-! ## every consumer of a lazy sequence is limited -/

/-- parameters that admit a lazy sequence, are not of a limiting type, and are handed to code the AST
    walker classifies as iterating / opaque - each justified -/
def allowedParams : List (String × String) := [
  -- `#finalize(obj)`: handed to utils.convert_output_data, which iterates nothing except through the
  -- `#iter` limiter (model: Convert.convOut; theorem C08.finalize_bounded; swept dynamically)
  ("#finalize|yaql._setup_context.<locals>.finalize", "obj"),
  -- `obj[key]` on a yaqlized host object: the key is matched against the white/black list and handed to
  -- the host's __getitem__; yaql itself never iterates it
  ("#indexer|yaqlized.indexation", "key")
]

/-- parameters whose *elements* are iterated by the payload - each justified -/
def allowedNested : List (String × String) := [
  -- dict(items): `it = iter(t); key = next(it); value = next(it)` - exactly two pulls per element
  ("dict|collections.dict__", "items")
]

/-- KNOWN DEFECT (finding `nested-iterators-unlimited`): `list(...)`, `set(...)` descend into every
    iterator argument and `flatten()` into every iterable element by plain Python recursion, without
    `limit_iterable`: `list(range(0).repeat())`, `set(range(0).repeat())`, `[[].repeat()].flatten()` never
    return under yaql.limitIterators.  These rows are excluded from the partial theorem; the check
    reproduces the non-termination on the real code on every run. -/
def knownDefectParams : List (String × String) := [
  ("list|collections.list_", "*"),
  ("set|collections.set_", "*"),
  ("flatten|collections.flatten", "collection")
]

/-- lambdas whose result is iterated by the payload without `limit_iterable` - each justified -/
def allowedProducers : List (String × String) := [
  -- selectMany: `yield from inner` - every item pulled from the producer's result is yielded at once, so
  -- the limiter of whoever consumes selectMany's result counts it (pulls <= N + 1)
  ("selectMany|queries.select_many", "selector")
]

def paramOk (r : ParamRow) : Bool :=
  (r.ty == .limiting || r.ty == .noLazy || !(r.iterates || r.escapes) || allowedParams.contains (r.fn, r.param))
  && (!r.nested || allowedNested.contains (r.fn, r.param))

/-- the full statement: every registered parameter that admits a lazy sequence and is iterated (or escapes
    the walker) is of a limiting type, and no payload iterates the elements of a parameter unlimited.
    FALSE today for the rows of `knownDefectParams`. -/
def consumers_limited_full : Prop := ∀ r ∈ params, paramOk r = true

/-- **C08Gen.consumers_limited** (partial: all rows of the live registry except the three known-defect rows) -/
theorem consumers_limited_partial : ∀ r ∈ params, paramOk r = true ∨ (r.fn, r.param) ∈ knownDefectParams := by
  decide +kernel

/-- every lambda / producer result that a payload consumes passes through `limit_iterable` -/
theorem producers_limited :
    ∀ r ∈ producers, r.consumed = false ∨ r.limited = true ∨ (r.fn, r.lam) ∈ allowedProducers := by
  decide +kernel

/-- non-vacuity: the table is the real registry - it has the limiting rows the sweep relies on, the fixed
    `len` (F4) and `generateMany` (F5) rows in their repaired form, and lambdas that are not consumed -/
theorem table_nonvacuous :
    50 ≤ (params.filter fun r => r.ty == .limiting && r.iterates).length ∧
    50 ≤ (params.filter fun r => r.ty == .admitsLazy).length ∧
    (params.any fun r => r.fn == "len|queries.count_" && r.param == "collection" && r.ty == .limiting) = true ∧
    (producers.any fun r => r.fn == "generateMany|queries.generate_many" && r.limited) = true ∧
    30 ≤ producers.length := by
  decide +kernel

/-! ## the size constants of the running CPython -/

/-- the hypotheses of `C08.repeat_estimate_safe(_str)` hold for the running interpreter -/
theorem sizes_ok :
    Yaql.Gen.Sizes.cfg.tupleHdr ≤ Yaql.Gen.Sizes.cfg.listHdr ∧
    (Yaql.Gen.Sizes.cfg.strAscii ≤ Yaql.Gen.Sizes.cfg.strLatin1 ∧
     Yaql.Gen.Sizes.cfg.strAscii ≤ Yaql.Gen.Sizes.cfg.strUcs2 ∧
     Yaql.Gen.Sizes.cfg.strAscii ≤ Yaql.Gen.Sizes.cfg.strUcs4) ∧
    0 < Yaql.Gen.Sizes.cfg.ptr := by
  decide +kernel

/-- **C08.repeat_estimate_safe** for the running interpreter: `left * k` that passes the check fits the quota -/
theorem repeat_estimate_safe_now (Q : Int) (hq : 0 < Q) (kind : SeqK) (n : Nat) (k : Int) (hk : 1 ≤ k)
    (h : listByIntCheck Yaql.Gen.Sizes.cfg Q kind n k = true) :
    ((Yaql.Gen.Sizes.cfg.seqSize kind (repLen n k) : Nat) : Int) ≤ Q :=
  C08.repeat_estimate_safe _ sizes_ok.1 Q hq kind n k hk h

theorem repeat_estimate_safe_str_now (Q : Int) (hq : 0 < Q) (cls : StrClass) (n : Nat) (k : Int) (hk : 1 ≤ k)
    (h : stringByIntCheck Yaql.Gen.Sizes.cfg Q cls n k = true) :
    ((Yaql.Gen.Sizes.cfg.strSize cls (repLen n k) : Nat) : Int) ≤ Q :=
  C08.repeat_estimate_safe_str _ sizes_ok.2.1 Q hq cls n k hk h

/-- the estimate before fix 1e67e83 (`[]` header) was unsafe: `[1] * 10^10` passed a quota of 100000 although
    the result needs 8 * 10^10 bytes; the current estimate refuses it -/
theorem repeat_estimate_unsafe_old :
    listByIntCheckOld Yaql.Gen.Sizes.cfg 100000 .tuple 1 10000000000 = true ∧
    (100000 : Int) < (Yaql.Gen.Sizes.cfg.seqSize .tuple (repLen 1 10000000000) : Nat) ∧
    listByIntCheck Yaql.Gen.Sizes.cfg 100000 .tuple 1 10000000000 = false ∧
    stringByIntCheck Yaql.Gen.Sizes.cfg 100000 .ascii 1 10000000000 = false := by
  decide +kernel

end Yaql.Props.C08Gen
