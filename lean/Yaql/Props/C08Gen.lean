import Yaql.Gen.LimitFacts
import Yaql.Gen.Sizes
import Yaql.Props.C08
/-!
C08 over the tables regenerated from the live repo on every run:
`Gen.LimitFacts` (every registered function x payload parameter: declared type class and AST use facts;
every lambda whose result a payload consumes) and `Gen.Sizes` (`sys.getsizeof` constants).
-/
namespace Yaql.Props.C08Gen
open Yaql.Gen.LimitFacts Yaql.Limits

/-! ## every consumer of a lazy sequence is limited -/

/-- parameters that admit a lazy sequence, are not of a limiting type, and are handed to code the AST
    walker classifies as iterating / opaque - each justified -/
def allowedParams : List (String × String) := [
  -- `#finalize(obj)`: handed to utils.convert_output_data, which iterates nothing except through the
  -- `#iter` limiter (model: Convert.convOut; theorem C08.finalize_bounded; swept dynamically)
  ("#finalize|yaql._setup_context.<locals>.finalize", "obj")
]

/-- parameters whose *elements* are iterated by the payload - each justified -/
def allowedNested : List (String × String) := [
  -- dict(items): `it = iter(t); key = next(it); value = next(it)` - exactly two pulls per element
  ("dict|collections.dict__", "items")
]

/-- lambdas whose result is iterated by the payload without `limit_iterable` - each justified -/
def allowedProducers : List (String × String) := [
  -- selectMany: `yield from inner` - every item pulled from the producer's result is yielded at once, so
  -- the limiter of whoever consumes selectMany's result counts it (pulls <= N + 1)
  ("selectMany|queries.select_many", "selector")
]

def paramOk (r : ParamRow) : Bool :=
  (r.ty == .limiting || r.ty == .noLazy || !(r.iterates || r.escapes) || allowedParams.contains (r.fn, r.param))
  && (!r.nested || allowedNested.contains (r.fn, r.param))

/-- **C08Gen.consumers_limited** (full, every row of the live registry): every registered parameter that
    admits a lazy sequence and is iterated (or escapes the walker) is of a limiting type, and no payload
    iterates the elements of a parameter unlimited.  (Until /repo fb14b78 the rows `list_:*`, `set_:*`,
    `flatten:collection` failed it - finding `nested-iterators-unlimited`, now fixed.) -/
theorem consumers_limited : ∀ r ∈ params, paramOk r = true := by
  decide +kernel

/-- no payload iterates (or hands to opaque code) the result of a lambda / producer it calls, except through
    `utils.limit_iterable` (`consumed` = some use of the result iterates it un-limited) -/
theorem producers_limited :
    ∀ r ∈ producers, r.consumed = false ∨ (r.fn, r.lam) ∈ allowedProducers := by
  decide +kernel

/-- non-vacuity: the table is the real registry - it has the limiting rows the sweep relies on, the fixed
    `len` (F4) and `generateMany` (F5) rows in their repaired form, and lambdas that are not consumed -/
theorem table_nonvacuous :
    50 ≤ (params.filter fun r => r.ty == .limiting && r.iterates).length ∧
    50 ≤ (params.filter fun r => r.ty == .admitsLazy).length ∧
    (params.any fun r => r.fn == "len|queries.count_" && r.param == "collection" && r.ty == .limiting) = true ∧
    (producers.any fun r => r.fn == "generateMany|queries.generate_many" && r.limited) = true ∧
    (params.any fun r => r.fn == "list|collections.list_" && r.param == "*" && r.ty == .admitsLazy && !r.iterates) = true ∧
    (params.any fun r => r.fn == "flatten|collections.flatten" && r.ty == .limiting && !r.nested) = true ∧
    30 ≤ producers.length := by
  decide +kernel

/-! ## the size constants of the running CPython -/

/-- the hypotheses of `C08.repeat_estimate_safe(_str)` hold for the running interpreter -/
theorem sizes_ok :
    Yaql.Gen.Sizes.cfg.tupleHdr ≤ Yaql.Gen.Sizes.cfg.listHdr ∧
    (Yaql.Gen.Sizes.cfg.strAscii ≤ Yaql.Gen.Sizes.cfg.strLatin1 ∧
     Yaql.Gen.Sizes.cfg.strAscii ≤ Yaql.Gen.Sizes.cfg.strUcs2 ∧
     Yaql.Gen.Sizes.cfg.strAscii ≤ Yaql.Gen.Sizes.cfg.strUcs4) ∧
    0 < Yaql.Gen.Sizes.cfg.ptr ∧ 0 < Yaql.Gen.Sizes.cfg.fdictOverhead := by
  decide +kernel

/-- before /repo ccc0ee2 `sys.getsizeof` of a FrozenDict was the bare wrapper: the 36952-byte table of
    `range(1000).aggregate($1.set($2, $2), {})` passed a quota of 1000; measured as now it is refused -/
theorem frozen_dict_unmeasured_old :
    limitMemory 1000 [(1, Yaql.Gen.Sizes.cfg.fdictOverhead)] = true ∧
    limitMemory 1000 [(1, Yaql.Gen.Sizes.cfg.fdictSize 36952)] = false := by
  decide +kernel

/-- **C08.repeat_estimate_safe** for the running interpreter: `left * k` that passes the check fits the quota -/
theorem repeat_estimate_safe_now (Q : Int) (hq : 0 < Q) (kind : SeqK) (n : Nat) (k : Int) (hk : 1 ≤ k)
    (h : listByIntCheck Yaql.Gen.Sizes.cfg Q kind n k = true) :
    ((Yaql.Gen.Sizes.cfg.seqSize kind (repLen n k) : Nat) : Int) ≤ Q :=
  C08.repeat_estimate_safe _ sizes_ok.1 Q hq kind n k hk h

theorem repeat_estimate_safe_str_now (Q : Int) (hq : 0 < Q) (cls : StrClass) (n : Nat) (k : Int) (hk : 1 ≤ k)
    (h : stringByIntCheck Yaql.Gen.Sizes.cfg Q cls n k = true) :
    ((Yaql.Gen.Sizes.cfg.strSize cls (repLen n k) : Nat) : Int) ≤ Q :=
  C08.repeat_estimate_safe_str _ sizes_ok.2.1 Q hq cls n k hk h

/-- the estimate before fix 1e67e83 (`[]` header) was unsafe: `[1] * 10^10` passed a quota of 100000 although
    the result needs 8 * 10^10 bytes; the current estimate refuses it -/
theorem repeat_estimate_unsafe_old :
    listByIntCheckOld Yaql.Gen.Sizes.cfg 100000 .tuple 1 10000000000 = true ∧
    (100000 : Int) < (Yaql.Gen.Sizes.cfg.seqSize .tuple (repLen 1 10000000000) : Nat) ∧
    listByIntCheck Yaql.Gen.Sizes.cfg 100000 .tuple 1 10000000000 = false ∧
    stringByIntCheck Yaql.Gen.Sizes.cfg 100000 .ascii 1 10000000000 = false := by
  decide +kernel

end Yaql.Props.C08Gen
