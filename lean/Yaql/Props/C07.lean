import Yaql.Model.Yaqlized
/-!
C07 - expressions cannot reach host objects except through granted members.

Theorems over the model `Yaql.Yaqlized` (entries abstract: any type with a decidable match in
which a plain string entry matches exactly itself):

* `underscore_denied`      a name starting with `_` is refused on all three paths, whatever the settings
* `whitelist_exact` / `blacklist_exact`
* `remap_targets_blacklisted` (+ `remap_target_denied`)
* `same_decision`          attribute / method / index take the same allow-deny decision
  (`reached_member`: attribute and method access reach the REMAPPED member, the indexer path
  does not remap - the code is modelled as it is)
* `not_yaqlized_no_access`, `switch_off_no_access`, `access_ok_checked`
* `auto_off_keeps`, `auto_on_grants`
* `gate`                   over a registry: whatever overload is selected, an opaque host object bound
  to a parameter with a host-touching use passed `Yaqlized.check` with that parameter's flags
-/
namespace Yaql.Props.C07
open Yaql.Yaqlized

instance instDecEqExcept {ε α : Type} [DecidableEq ε] [DecidableEq α] : DecidableEq (Except ε α)
  | .ok a, .ok b => if h : a = b then isTrue (by rw [h]) else isFalse (by intro h'; cases h'; exact h rfl)
  | .error a, .error b => if h : a = b then isTrue (by rw [h]) else isFalse (by intro h'; cases h'; exact h rfl)
  | .ok _, .error _ => isFalse (by intro h; cases h)
  | .error _, .ok _ => isFalse (by intro h; cases h)

variable {E : Type} [EntryLike E]

/-! ## validation -/

theorem anyMatch_iff (es : List E) (n : Name) :
    anyMatch es n = true ↔ ∃ e, e ∈ es ∧ EntryLike.matchesName e n = true := by
  simp [anyMatch, List.any_eq_true]

theorem validate_ok_iff_allowed (exc : Err) (s : Settings E) (n : Name) :
    validateName exc s n = .ok () ↔ allowed s n = true := by
  unfold validateName allowed
  cases startsUnderscore n <;> cases s.whitelist.isEmpty <;>
    cases anyMatch s.whitelist n <;> cases anyMatch s.blacklist n <;> simp

theorem validate_error_iff_denied (exc : Err) (s : Settings E) (n : Name) :
    validateName exc s n = .error exc ↔ allowed s n = false := by
  unfold validateName allowed
  cases startsUnderscore n <;> cases s.whitelist.isEmpty <;>
    cases anyMatch s.whitelist n <;> cases anyMatch s.blacklist n <;> simp

/-- `_validate_name` either returns or raises `exception_cls` - nothing else -/
theorem validate_cases (exc : Err) (s : Settings E) (n : Name) :
    validateName exc s n = .ok () ∨ validateName exc s n = .error exc := by
  unfold validateName
  cases startsUnderscore n <;> cases s.whitelist.isEmpty <;>
    cases anyMatch s.whitelist n <;> cases anyMatch s.blacklist n <;> simp

theorem underscore_not_allowed (s : Settings E) (n : Name) (h : startsUnderscore n = true) :
    allowed s n = false := by
  simp [allowed, h]

/-- C07.underscore_denied: whatever the settings (switches, whitelist - even one that names the
    member explicitly -, blacklist, remapping), a name starting with `_` is refused for attribute,
    method and index access, and no host access happens -/
theorem underscore_denied (s : Settings E) (n : Name) (kws : List Name) (h : startsUnderscore n = true) :
    attribution s n = .error .attributeError ∧ opDot s n kws = .error .attributeError ∧
    indexation s n = .error .keyError := by
  simp [attribution, opDot, indexation, validateName, h]

/-- the same through the type check: for every host object and every access form -/
theorem underscore_denied_access (k : Kind) (h : Host E) (n : Name) (kws : List Name)
    (hn : startsUnderscore n = true) : ∃ e, access k h n kws = .error e := by
  have hu := fun s => underscore_denied (E := E) s n kws hn
  unfold access
  cases h with
  | none => exact ⟨_, rfl⟩
  | some s =>
    by_cases hc : check k.flags (some s) = true
    · cases k <;> simp [hc, (hu s).1, (hu s).2.1, (hu s).2.2]
    · simp [hc]

example : startsUnderscore "_private".toList = true ∧ startsUnderscore "__class__".toList = true ∧
    startsUnderscore "a_b".toList = false ∧ startsUnderscore [] = false := by decide

/-- non-vacuity of `underscore_denied`: even an explicit whitelist entry does not open `_x` -/
example : attribution (E := Entry) { whitelist := [.str "_x".toList] } "_x".toList = .error .attributeError := by
  decide

/-- C07.whitelist_exact: with a non-empty whitelist a (non-underscore) name is allowed iff some
    whitelist entry matches it; the blacklist plays no role -/
theorem whitelist_exact (exc : Err) (s : Settings E) (n : Name)
    (hw : s.whitelist ≠ []) (hn : startsUnderscore n = false) :
    validateName exc s n = .ok () ↔ ∃ e, e ∈ s.whitelist ∧ EntryLike.matchesName e n = true := by
  rw [validate_ok_iff_allowed, ← anyMatch_iff]
  have : s.whitelist.isEmpty = false := by
    cases hs : s.whitelist with
    | nil => exact absurd hs hw
    | cons _ _ => rfl
  simp [allowed, hn, this]

/-- C07.blacklist_exact: with an empty whitelist a (non-underscore) name is allowed iff no
    blacklist entry matches it -/
theorem blacklist_exact (exc : Err) (s : Settings E) (n : Name)
    (hw : s.whitelist = []) (hn : startsUnderscore n = false) :
    validateName exc s n = .ok () ↔ ∀ e, e ∈ s.blacklist → EntryLike.matchesName e n = false := by
  rw [validate_ok_iff_allowed]
  have h1 : (anyMatch s.blacklist n = false) ↔ ∀ e, e ∈ s.blacklist → EntryLike.matchesName e n = false := by
    simp [anyMatch]
  simp [allowed, hn, hw, h1]

example : validateName (E := Entry) .attributeError
    { whitelist := [.regex { anchorStart := true, atoms := [.ch 'm', .ch '_'] }], blacklist := [.str "m_foo".toList] }
    "m_foo".toList = .ok () := by decide
example : validateName (E := Entry) .attributeError
    { whitelist := [.regex { anchorStart := true, atoms := [.ch 'm', .ch '_'] }] } "bar".toList
    = .error .attributeError := by decide
example : validateName (E := Entry) .keyError { blacklist := [.table ["key".toList]] } "key".toList
    = .error .keyError := by decide
example : validateName (E := Entry) .keyError { blacklist := [.table ["key".toList]] } "other".toList
    = .ok () := by decide

/-! ## remapping -/

/-- C07.remap_targets_blacklisted: `build_yaqlization_settings` puts every remapping target into the
    blacklist -/
theorem remap_targets_blacklisted (a m i au : Bool) (wl bl : List E) (remap : List (Name × RemapTarget))
    (k : Name) (t : RemapTarget) (h : (k, t) ∈ remap) :
    ∃ e, e ∈ (buildSettings a m i au wl bl remap).blacklist ∧ EntryLike.matchesName e t.target = true := by
  refine ⟨EntryLike.ofName t.target, ?_, ?_⟩
  · simp only [buildSettings, if_true, List.mem_append, List.mem_map]
    exact Or.inr ⟨(k, t), h, rfl⟩
  · simp [EntryLike.matches_ofName]

/-- consequently the target's own name is unreachable on every path, unless a whitelist is in
    force (then the whitelist alone decides: `whitelist_exact`) -/
theorem remap_target_denied (a m i au : Bool) (bl : List E) (remap : List (Name × RemapTarget))
    (k : Name) (t : RemapTarget) (h : (k, t) ∈ remap) :
    allowed (buildSettings a m i au [] bl remap) t.target = false := by
  obtain ⟨e, he, hm⟩ := remap_targets_blacklisted a m i au [] bl remap k t h
  have : anyMatch (buildSettings a m i au ([] : List E) bl remap).blacklist t.target = true :=
    (anyMatch_iff _ _).2 ⟨e, he, hm⟩
  have hw : (buildSettings a m i au ([] : List E) bl remap).whitelist = [] := rfl
  simp [allowed, this, hw]

/-- the user-supplied blacklist is kept -/
theorem build_keeps_blacklist (a m i au : Bool) (wl bl : List E) (remap : List (Name × RemapTarget))
    (e : E) (h : e ∈ bl) : e ∈ (buildSettings a m i au wl bl remap).blacklist := by
  simp [buildSettings, h]

def demoRemap : Settings Entry :=
  buildSettings true true true false [] [] [("pub".toList, RemapTarget.name "hidden".toList)]

example : attribution demoRemap "pub".toList = .ok (.getattr "hidden".toList) ∧
    attribution demoRemap "hidden".toList = .error .attributeError ∧
    opDot demoRemap "pub".toList = .ok (.callattr "hidden".toList []) ∧
    indexation demoRemap "pub".toList = .ok (.getitem "pub".toList) ∧
    indexation demoRemap "hidden".toList = .error .keyError := by decide

/-- a whitelisted target IS reachable under its own name (the blacklist is not consulted) -/
def demoRemapWl : Settings Entry :=
  buildSettings true true true false [Entry.str "hidden".toList, Entry.str "pub".toList] []
    [("pub".toList, RemapTarget.name "hidden".toList)]

example : attribution demoRemapWl "hidden".toList = .ok (.getattr "hidden".toList) := by decide

/-! ## the three paths decide alike -/

theorem attribution_denied_iff (s : Settings E) (n : Name) :
    attribution s n = .error .attributeError ↔ allowed s n = false := by
  rw [← validate_error_iff_denied .attributeError]
  unfold attribution
  rcases validate_cases .attributeError s n with h | h
  · rw [h]; cases remapName s n <;> simp
  · rw [h]; simp

theorem opDot_denied_iff (s : Settings E) (n : Name) (kws : List Name) :
    opDot s n kws = .error .attributeError ↔ allowed s n = false := by
  rw [← validate_error_iff_denied .attributeError]
  unfold opDot
  rcases validate_cases .attributeError s n with h | h
  · rw [h]
    cases remapName s n with
    | name m => simp
    | tuple m am =>
      cases am with
      | none => simp
      | some x => cases hrn : renamesKw x kws <;> simp [hrn]
  · rw [h]; simp

theorem indexation_denied_iff (s : Settings E) (n : Name) :
    indexation s n = .error .keyError ↔ allowed s n = false := by
  rw [← validate_error_iff_denied .keyError]
  unfold indexation
  rcases validate_cases .keyError s n with h | h
  · rw [h]; simp
  · rw [h]; simp

/-- C07.same_decision: for the same name and settings the attribute, method and indexer paths take
    the same allow/deny decision ("Cannot access <name>": AttributeError on the first two,
    KeyError on the third) -/
theorem same_decision (s : Settings E) (n : Name) (kws : List Name) :
    (attribution s n = .error .attributeError ↔ opDot s n kws = .error .attributeError) ∧
    (opDot s n kws = .error .attributeError ↔ indexation s n = .error .keyError) := by
  rw [attribution_denied_iff, opDot_denied_iff, indexation_denied_iff]
  exact ⟨Iff.rfl, Iff.rfl⟩

/-- what an allowed access reaches: attribute and method access reach the REMAPPED member,
    the indexer reaches the key as written (no remapping on that path - as the code is) -/
theorem reached_member (s : Settings E) (n : Name) (kws : List Name) (a : Access) :
    (attribution s n = .ok a → allowed s n = true ∧ a = .getattr (remapName s n).target) ∧
    (opDot s n kws = .ok a → allowed s n = true ∧ a.member = (remapName s n).target) ∧
    (indexation s n = .ok a → allowed s n = true ∧ a = .getitem n) := by
  refine ⟨?_, ?_, ?_⟩
  · unfold attribution
    rcases validate_cases .attributeError s n with h | h
    · have ha := (validate_ok_iff_allowed _ s n).1 h
      rw [h]; cases hr : remapName s n <;> simp [ha, RemapTarget.target]
      intro h'; exact h'.symm
    · rw [h]; simp
  · unfold opDot
    rcases validate_cases .attributeError s n with h | h
    · have ha := (validate_ok_iff_allowed _ s n).1 h
      rw [h]
      cases hr : remapName s n with
      | name m => simp [ha, RemapTarget.target]; intro h'; rw [← h']; rfl
      | tuple m am =>
        cases am with
        | none => simp
        | some x =>
          cases hrn : renamesKw x kws <;> (simp [ha, hrn, RemapTarget.target]; intro h'; rw [← h']; rfl)
    · rw [h]; simp
  · unfold indexation
    rcases validate_cases .keyError s n with h | h
    · have ha := (validate_ok_iff_allowed _ s n).1 h
      rw [h]; simp [ha]; intro h'; exact h'.symm
    · rw [h]; simp

/-- an allowed name with a plain (string) remapping is reached on all three paths -/
theorem allowed_reaches (s : Settings E) (n m : Name) (kws : List Name) (ha : allowed s n = true)
    (hr : remapName s n = .name m) :
    attribution s n = .ok (.getattr m) ∧ opDot s n kws = .ok (.callattr m []) ∧
    indexation s n = .ok (.getitem n) := by
  have h1 := (validate_ok_iff_allowed .attributeError s n).2 ha
  have h2 := (validate_ok_iff_allowed .keyError s n).2 ha
  simp [attribution, opDot, indexation, h1, h2, hr]

/-- keyword renaming (tuple remappings): the call is made when no passed keyword is renamed away;
    otherwise the member was fetched but is not called (the dict-mutation RuntimeError of `op_dot`) -/
example : opDot (E := Entry) { remapping := [("am".toList, .tuple "meth".toList (some [("a".toList, "b".toList)]))] }
    "am".toList ["a".toList] = .ok (.attrThenRaise "meth".toList) := by decide
example : opDot (E := Entry) { remapping := [("am".toList, .tuple "meth".toList (some [("a".toList, "b".toList)]))] }
    "am".toList ["c".toList] = .ok (.callattr "meth".toList [("a".toList, "b".toList)]) := by decide

/-! ## the type check -/

omit [EntryLike E] in
/-- an object without yaqlization settings is refused by every `Yaqlized(..)` parameter -/
theorem check_none (f : Flags) : check (E := E) f none = false := rfl

theorem not_yaqlized_no_access (k : Kind) (n : Name) (kws : List Name) :
    access (E := E) k none n kws = .error .notYaqlized := rfl

/-- a switched-off access form is refused whatever the name -/
theorem switch_off_no_access (s : Settings E) (n : Name) (kws : List Name) :
    (s.yaqlizeAttributes = false → access .attr (some s) n kws = .error .notYaqlized) ∧
    (s.yaqlizeMethods = false → access .method (some s) n kws = .error .notYaqlized) ∧
    (s.yaqlizeIndexer = false → access .index (some s) n kws = .error .notYaqlized) := by
  refine ⟨?_, ?_, ?_⟩ <;> intro h <;> simp [access, check, Kind.flags, h]

/-- every successful access went through the type check and the name validation -/
theorem access_ok_checked (k : Kind) (h : Host E) (n : Name) (kws : List Name) (a : Access)
    (hok : access k h n kws = .ok a) :
    ∃ s, h = some s ∧ check k.flags h = true ∧ allowed s n = true ∧ startsUnderscore n = false := by
  cases h with
  | none => simp [access] at hok
  | some s =>
    simp only [access] at hok
    by_cases hc : check k.flags (some s) = true
    · rw [if_pos hc] at hok
      have hall : allowed s n = true := by
        cases k
        · exact ((reached_member s n kws a).1 hok).1
        · exact ((reached_member s n kws a).2.1 hok).1
        · exact ((reached_member s n kws a).2.2 hok).1
      refine ⟨s, rfl, hc, hall, ?_⟩
      cases hu : startsUnderscore n
      · rfl
      · rw [underscore_not_allowed s n hu] at hall; cases hall
    · rw [if_neg hc] at hok; cases hok

example : access (E := Entry) .attr (some {}) "foo".toList = .ok (.getattr "foo".toList) := by decide
example : access (E := Entry) .method (some { yaqlizeMethods := false }) "foo".toList = .error .notYaqlized := by
  decide

/-! ## results -/

/-- without `auto_yaqlize_result` a returned object gains nothing -/
theorem auto_off_keeps (s : Settings E) (r : ResObj E) (h : s.autoYaqlizeResult = false) :
    autoYaqlize s r = r := by
  simp [autoYaqlize, h]

/-- with it, a non-builtin result that is not yet yaqlized gets the all-open default settings
    (which again auto-yaqlize their results); builtin values and already yaqlized objects are kept -/
theorem auto_on_grants (s : Settings E) (r : ResObj E) (h : s.autoYaqlizeResult = true) :
    (r.builtin = false → r.settings = none → r.settable = true →
        (autoYaqlize s r).settings = some autoSettings) ∧
    (r.builtin = true → autoYaqlize s r = r) ∧
    (r.settings ≠ none → autoYaqlize s r = r) := by
  refine ⟨?_, ?_, ?_⟩
  · intro hb hs ht; simp [autoYaqlize, h, hb, hs, ht]
  · intro hb; simp [autoYaqlize, h, hb]
  · intro hs
    cases hr : r.settings with
    | none => exact absurd hr hs
    | some x => simp [autoYaqlize, h, hr]

/-- even auto-yaqlized results keep the underscore rule -/
example : access (E := Entry) .attr (some autoSettings) "_secret".toList = .error .attributeError := by decide

/-! ## the gate -/

/-- what the generated-table theorem `C07Gen.host_touch_only_yaqlized` establishes for a registry:
    a parameter that admits an opaque host object as it is and has a host-touching use is one of the
    listed exceptions -/
def TableOk (exempt : FactRow → Bool) (reg : List FnDef) : Prop :=
  ∀ f, f ∈ reg → ∀ r, r ∈ f.params → r.ty = .open → r.touches = true → exempt r = true

omit [EntryLike E] in
theorem bindAll_zip {V : Type} (fits : FactRow → V → Bool) :
    ∀ (rs : List FactRow) (as : List (Arg E V)), bindAll fits rs as = true →
      ∀ p, p ∈ rs.zip as → admits fits p.1 p.2 = true
  | [], [], _, p, hp => by simp at hp
  | [], _ :: _, h, _, _ => by simp [bindAll] at h
  | _ :: _, [], h, _, _ => by simp [bindAll] at h
  | r :: rs, a :: as, h, p, hp => by
      simp only [bindAll, Bool.and_eq_true] at h
      simp only [List.zip_cons_cons, List.mem_cons] at hp
      rcases hp with rfl | hp
      · exact h.1
      · exact bindAll_zip fits rs as h.2 p hp

theorem explicit_sub (f : FnDef) (r : FactRow) (h : r ∈ f.explicit) : r ∈ f.params := by
  simp only [FnDef.explicit, List.mem_filter] at h
  exact h.1

omit [EntryLike E] in
/-- the gate for any candidate overload (so for whichever one yaql's overload choice picks):
    an opaque host object bound to a parameter that has a host-touching use and is not a listed
    exception is bound to a `Yaqlized(..)` parameter and passed `Yaqlized.check` with its flags;
    in particular an object without settings can never be bound there.
    (Parameters typed `converted` - Lambda - hand the payload a yaql-made closure; what the type
    object does with the host value is covered by the generated `typeRows`.) -/
theorem gate_candidates {V : Type} (fits : FactRow → V → Bool) (exempt : FactRow → Bool)
    (reg : List FnDef) (hreg : TableOk exempt reg)
    (name : List Char) (args : List (Arg E V)) (f : FnDef)
    (hf : f ∈ candidates fits reg name args)
    (r : FactRow) (h : Host E) (hp : (r, Arg.host h) ∈ f.explicit.zip args)
    (htouch : r.touches = true) (hex : exempt r = false) (hconv : r.ty ≠ .converted) :
    ∃ a m i, r.ty = .yaqlized a m i ∧ check { attrs := a, methods := m, index := i } h = true ∧ h ≠ none := by
  simp only [candidates, List.mem_filter, Bool.and_eq_true] at hf
  obtain ⟨hmem, _, hbind⟩ := hf
  have hadm := bindAll_zip fits _ _ hbind _ hp
  have hrp : r ∈ f.params := explicit_sub f r (List.of_mem_zip hp).1
  simp only [admits] at hadm
  cases hty : r.ty with
  | yaqlized a m i =>
    rw [hty] at hadm
    refine ⟨a, m, i, rfl, hadm, ?_⟩
    intro hn; rw [hn] at hadm; simp [check] at hadm
  | «open» =>
    have := hreg f hmem r hrp hty htouch
    rw [hex] at this; cases this
  | converted => exact absurd hty hconv
  | closed => rw [hty] at hadm; cases hadm
  | hidden => rw [hty] at hadm; cases hadm

omit [EntryLike E] in
/-- C07.gate: if resolution selects `f` and `f` has a host-touching use on parameter `r`, then the
    opaque host object bound to `r` passed `Yaqlized.check` with the matching flags -/
theorem gate {V : Type} (fits : FactRow → V → Bool) (exempt : FactRow → Bool)
    (reg : List FnDef) (hreg : TableOk exempt reg)
    (name : List Char) (args : List (Arg E V)) (f : FnDef)
    (hres : resolve fits reg name args = .ok f)
    (r : FactRow) (h : Host E) (hp : (r, Arg.host h) ∈ f.explicit.zip args)
    (htouch : r.touches = true) (hex : exempt r = false) (hconv : r.ty ≠ .converted) :
    ∃ a m i, r.ty = .yaqlized a m i ∧ check { attrs := a, methods := m, index := i } h = true ∧ h ≠ none := by
  have hf : f ∈ candidates fits reg name args := by
    unfold resolve at hres
    cases hc : candidates fits reg name args with
    | nil => rw [hc] at hres; cases hres
    | cons x xs =>
      cases xs with
      | nil => rw [hc] at hres; cases hres; simp
      | cons y ys => rw [hc] at hres; cases hres
  exact gate_candidates fits exempt reg hreg name args f hf r h hp htouch hex hconv

/-- non-vacuity of the gate: a two-overload registry in the shape of `#operator_.`; the yaqlized
    object resolves to the attribute overload, the plain host object cannot -/
def demoReg : List FnDef :=
  [ { name := "#operator_.".toList, payload := "attribution".toList,
      params := [ { param := "obj".toList, ty := .yaqlized true false false, uses := [.getattr] },
                  { param := "attr".toList, ty := .closed } ] } ]

example : (resolve (E := Entry) (V := Unit) (fun _ _ => true) demoReg "#operator_.".toList
    [.host (some {}), .native ()]).toOption.map (·.payload) = some "attribution".toList := by decide
example : (resolve (E := Entry) (V := Unit) (fun _ _ => true) demoReg "#operator_.".toList
    [.host none, .native ()]).toOption.map (·.payload) = none := by decide
example : (resolve (E := Entry) (V := Unit) (fun _ _ => true) demoReg "#operator_.".toList
    [.host (some { yaqlizeAttributes := false }), .native ()]).toOption.map (·.payload) = none := by decide

/-! ## the executable entry instances -/

example : (Rx.search { atoms := [.ch 'f', .ch 'o'] } "xfoo".toList) = true := by decide     -- search, not match
example : (Rx.search { anchorStart := true, atoms := [.ch 'f', .ch 'o'] } "xfoo".toList) = false := by decide
example : (Rx.search { atoms := [.ch 'o', .ch 'o'], anchorEnd := true } "foo".toList) = true := by decide
example : (Rx.search { atoms := [.ch 'f', .any, .ch 'o'], anchorStart := true, anchorEnd := true } "fxo".toList) = true := by
  decide
example : (Rx.search { atoms := [] } []) = true := by decide

/-- an anchored literal regex is the exact-string entry -/
theorem matchPrefix_lits (l s : Name) :
    matchPrefix (l.map RxAtom.ch) s = if l.isPrefixOf s then some (s.drop l.length) else none := by
  induction l generalizing s with
  | nil => simp [matchPrefix]
  | cons c l ih =>
    cases s with
    | nil => simp [matchPrefix]
    | cons x s =>
      simp only [List.map_cons, matchPrefix, List.isPrefixOf, List.length_cons, List.drop_succ_cons]
      by_cases hcx : c = x
      · subst hcx; simp [ih]
      · simp [hcx]

/-- `re.compile('^' + re.escape(l) + '$')` and the string entry `l` accept the same names: the three
    ways of writing an entry (string, regex, predicate) are interchangeable where they denote the
    same set -/
theorem anchored_literal_is_string (l s : Name) :
    Rx.search { anchorStart := true, atoms := l.map RxAtom.ch, anchorEnd := true } s = (s == l) := by
  simp only [Rx.search, Rx.matchAt, if_true, Bool.not_true, Bool.false_or]
  induction l generalizing s with
  | nil => cases s <;> simp [matchPrefix]
  | cons c l ih =>
    cases s with
    | nil => simp [matchPrefix]
    | cons x s =>
      simp only [List.map_cons, matchPrefix]
      by_cases h : c = x
      · subst h; simp [ih]
      · have : ¬ (x = c) := fun e => h e.symm
        simp [h, this]

/-! ## lists of plain names: exact string equality, nothing else

A whitelist / blacklist of plain member names grants / denies exactly the LISTED names - whatever a
probe name shares with a listed one (it extends one at either end, contains one, is a prefix or a suffix of
one, joins two of them, differs by case only).  `build_yaqlization_settings` is free to store the names in
any form (a set, one alternation regex, a trie ..) as long as these theorems keep holding for what
`_validate_name` answers; the harness crosses every settings object with such near-miss names derived
from its own entries. -/

theorem anyMatch_ofNames (names : List Name) (n : Name) :
    anyMatch (names.map (EntryLike.ofName (E := E))) n = true ↔ n ∈ names := by
  rw [anyMatch_iff]
  constructor
  · rintro ⟨e, he, hm⟩
    obtain ⟨m, hm', rfl⟩ := List.mem_map.mp he
    rw [EntryLike.matches_ofName] at hm
    have : n = m := by simpa using hm
    subst this; exact hm'
  · intro h
    exact ⟨EntryLike.ofName n, List.mem_map.mpr ⟨n, h, rfl⟩, by simp [EntryLike.matches_ofName]⟩

/-- C07.whitelist_exact for plain names: with a whitelist of (one or several) plain names, a
    (non-underscore) name is allowed iff it IS one of the listed names -/
theorem whitelist_plain_names_exact (exc : Err) (s : Settings E) (names : List Name) (n : Name)
    (hw : s.whitelist = names.map EntryLike.ofName) (hne : names ≠ [])
    (hn : startsUnderscore n = false) :
    validateName exc s n = .ok () ↔ n ∈ names := by
  have hw' : s.whitelist ≠ [] := by
    rw [hw]; intro h; exact hne (List.map_eq_nil_iff.mp h)
  rw [whitelist_exact exc s n hw' hn, ← anyMatch_iff, hw, anyMatch_ofNames]

/-- ... and a blacklist of plain names (no whitelist) denies exactly the listed names -/
theorem blacklist_plain_names_exact (exc : Err) (s : Settings E) (names : List Name) (n : Name)
    (hw : s.whitelist = []) (hb : s.blacklist = names.map EntryLike.ofName)
    (hn : startsUnderscore n = false) :
    validateName exc s n = .ok () ↔ n ∉ names := by
  rw [blacklist_exact exc s n hw hn, ← anyMatch_ofNames (E := E) names n, ← hb]
  constructor
  · intro h hm
    obtain ⟨e, he, hme⟩ := (anyMatch_iff _ _).mp hm
    rw [h e he] at hme; cases hme
  · intro h e he
    cases hme : EntryLike.matchesName e n with
    | false => rfl
    | true => exact absurd ((anyMatch_iff _ _).mpr ⟨e, he, hme⟩) h

/-- a name that is not listed is refused by a whitelist of plain names on all three access paths - however
    close it is to a listed name (the hypotheses do not look at its shape at all) -/
theorem near_miss_refused (s : Settings E) (names : List Name) (n : Name) (kws : List Name)
    (hw : s.whitelist = names.map EntryLike.ofName) (hne : names ≠ []) (hmiss : n ∉ names) :
    attribution s n = .error .attributeError ∧ opDot s n kws = .error .attributeError ∧
    indexation s n = .error .keyError := by
  have hden : allowed s n = false := by
    cases hu : startsUnderscore n with
    | true => simp [allowed, hu]
    | false =>
      have h := whitelist_plain_names_exact (E := E) .attributeError s names n hw hne hu
      rw [validate_ok_iff_allowed] at h
      cases ha : allowed s n with
      | false => rfl
      | true => exact absurd (h.mp ha) hmiss
  exact ⟨(attribution_denied_iff s n).mpr hden, (opDot_denied_iff s n kws).mpr hden,
    (indexation_denied_iff s n).mpr hden⟩

/-- a name that is not listed is NOT blocked by a blacklist of plain names (settings as built by
    `build_yaqlization_settings`: the remapping targets are blacklisted as plain names too) -/
theorem near_miss_not_blocked (a m i au : Bool) (names : List Name) (remap : List (Name × RemapTarget))
    (n : Name) (hn : startsUnderscore n = false) (hmiss : n ∉ names)
    (hremap : ∀ kv ∈ remap, kv.2.target ≠ n) :
    allowed (buildSettings (E := E) a m i au [] (names.map EntryLike.ofName) remap) n = true := by
  have hb : (buildSettings (E := E) a m i au [] (names.map EntryLike.ofName) remap).blacklist =
      (names ++ remap.map (fun kv => kv.2.target)).map EntryLike.ofName := by
    simp [buildSettings, List.map_append, List.map_map, Function.comp_def]
  rw [← validate_ok_iff_allowed .attributeError,
    blacklist_plain_names_exact (E := E) .attributeError _ (names ++ remap.map (fun kv => kv.2.target)) n rfl hb hn]
  intro hmem
  rcases List.mem_append.mp hmem with h | h
  · exact hmiss h
  · obtain ⟨kv, hkv, he⟩ := List.mem_map.mp h
    exact hremap kv hkv he

-- whitelist ['name', 'id', 'title']: the listed names pass; `name_token` (starts with `name`), `subtitle` (ends
-- with `title`), `hidden` (contains `id`), `nameid` (joins two) and `Name` are refused
example :
    let s : Settings Entry := { whitelist := ["name".toList, "id".toList, "title".toList].map .str }
    validateName .attributeError s "id".toList = .ok () ∧ validateName .attributeError s "title".toList = .ok () ∧
    validateName .attributeError s "name_token".toList = .error .attributeError ∧
    validateName .attributeError s "subtitle".toList = .error .attributeError ∧
    validateName .attributeError s "hidden".toList = .error .attributeError ∧
    validateName .attributeError s "nameid".toList = .error .attributeError ∧
    validateName .attributeError s "Name".toList = .error .attributeError ∧
    indexation s "subtitle".toList = .error .keyError ∧
    opDot s "name_token".toList [] = .error .attributeError := by decide
-- blacklist ['get_id', 'get_name']: `get_id_secret`, `forget_name`, `get_i` stay reachable
example :
    let s : Settings Entry := buildSettings true true true false [] (["get_id".toList, "get_name".toList].map .str) []
    allowed s "get_id".toList = false ∧ allowed s "get_name".toList = false ∧
    allowed s "get_id_secret".toList = true ∧ allowed s "forget_name".toList = true ∧ allowed s "get_i".toList = true := by
  decide
-- the alternation regex `^name|id|title$` (as a table of what `re.search` accepts among these names) is NOT the
-- list of the three names: the theorems above distinguish them
example :
    let folded : Settings Entry := { whitelist := [.table ["name".toList, "id".toList, "title".toList,
      "name_token".toList, "subtitle".toList, "hidden".toList]] }
    validateName .attributeError folded "hidden".toList = .ok () := by decide

end Yaql.Props.C07
