import Yaql.Props.C01
/-!
C01, state parked on the engine-wide rules objects (`MachineR`).

Per-parse lexers are not enough when a token fetch also reads something that every parse of the engine
writes: `lookbehind_not_isolated` is a two-thread witness with a one-token look-behind flag (the shape
"the previous token was a member operator, so the next word is a name").  Conversely, state that token
fetches never READ is harmless for every schedule (`rules_blind_isolated`), and state that `input()` resets
is invisible to every sequential history (`rules_reset_sequential`) - which is why only schedules that put
a switch between two token fetches, for the right PAIR of token kinds, can tell.
-/
namespace Yaql.Props.C01Rules
open Yaql.ParseSched Yaql.Props.C01

variable {Tok PS Out R : Type}

theorem stepR_other (m : MachineR Tok PS Out R) (s : SysR PS Out R) (i j : Nat) (h : i ≠ j) :
    (stepR m s j).threads[i]? = s.threads[i]? := by
  unfold stepR
  cases hj : s.threads[j]? with
  | none => rfl
  | some t => simp [List.getElem?_set_ne (Ne.symm h)]

theorem runR_other (m : MachineR Tok PS Out R) (i : Nat) :
    ∀ (sched : List Nat) (s : SysR PS Out R), i ∉ sched →
      (runR m s sched).threads[i]? = s.threads[i]?
  | [], s, _ => rfl
  | j :: rest, s, h => by
      have hij : i ≠ j := fun e => h (by simp [e])
      have hrest : i ∉ rest := fun e => h (by simp [e])
      simp only [runR, List.foldl_cons]
      have := runR_other m i rest (stepR m s j) hrest
      simp only [runR] at this
      rw [this, stepR_other m s i j hij]

theorem runR_append (m : MachineR Tok PS Out R) (s : SysR PS Out R) (a b : List Nat) :
    runR m s (a ++ b) = runR m (runR m s a) b := by
  simp [runR, List.foldl_append]

/-- a tokeniser is *blind* to the rules state when the token and the new cursor never depend on it -/
def Blind (m : MachineR Tok PS Out R) : Prop :=
  ∀ r r' d p, (m.nextTok r d p).1 = (m.nextTok r' d p).1

theorem stepOnR_blind (m : MachineR Tok PS Out R) (hb : Blind m) (r r0 : R) (t : Thread PS Out) :
    (stepOnR m r t).2 = soloStep (m.frozen r0) t := by
  unfold stepOnR soloStep stepOn MachineR.frozen
  cases hp : t.phase with
  | notStarted => simp
  | running ps =>
      simp only [hb r r0 t.own.data t.own.pos]
      cases hf : m.feed ps (m.nextTok r0 t.own.data t.own.pos).1.1 <;> simp
  | done o => simp

/-- **rules state that no token fetch reads does not matter**: if the token and cursor returned by a
    fetch never depend on the engine-wide state, then for every number of parses, all texts and EVERY
    schedule each parse is where it would be alone (on the tokeniser with the state frozen anywhere). -/
theorem rules_blind_isolated (m : MachineR Tok PS Out R) (hb : Blind m) (r0 : R) (i : Nat) :
    ∀ (sched : List Nat) (s : SysR PS Out R),
      (runR m s sched).threads[i]? = (s.threads[i]?).map (soloIter (m.frozen r0) (sched.count i))
  | [], s => by simp [runR, soloIter]
  | j :: rest, s => by
      simp only [runR, List.foldl_cons]
      have ih := rules_blind_isolated m hb r0 i rest (stepR m s j)
      simp only [runR] at ih
      rw [ih]
      by_cases hij : j = i
      · subst hij
        simp only [List.count_cons_self]
        unfold stepR
        cases ht : s.threads[j]? with
        | none => simp [ht]
        | some t =>
            have hlt : j < s.threads.length := (List.getElem?_eq_some_iff.mp ht).1
            simp [hlt, soloIter_succ, stepOnR_blind m hb s.rules r0 t]
      · have hne : i ≠ j := fun e => hij e.symm
        rw [stepR_other m s i j hne]
        simp [hij]

/-! ### sequential use cannot see state that `input()` resets -/

theorem soloIterR_succ (m : MachineR Tok PS Out R) (n : Nat) (x : R × Thread PS Out) :
    soloIterR m (n + 1) x = soloIterR m n (stepOnR m x.1 x.2) := rfl

theorem block (m : MachineR Tok PS Out R) (i : Nat) :
    ∀ (n : Nat) (s : SysR PS Out R) (t : Thread PS Out), s.threads[i]? = some t →
      (runR m s (List.replicate n i)).threads[i]? = some (soloIterR m n (s.rules, t)).2
  | 0, s, t, ht => by simpa [runR, soloIterR] using ht
  | n + 1, s, t, ht => by
      have hlt : i < s.threads.length := (List.getElem?_eq_some_iff.mp ht).1
      simp only [List.replicate_succ, runR, List.foldl_cons, soloIterR_succ]
      have hs : (stepR m s i).threads[i]? = some (stepOnR m s.rules t).2 := by
        unfold stepR; simp only [ht]; simp [hlt]
      have hr : (stepR m s i).rules = (stepOnR m s.rules t).1 := by
        unfold stepR; simp [ht]
      have := block m i n (stepR m s i) (stepOnR m s.rules t).2 hs
      simp only [runR, hr] at this
      exact this

theorem start_forgets (m : MachineR Tok PS Out R) (r0 : R) (hreset : ∀ r, m.onInput r = r0)
    (t : Thread PS Out) (hstart : t.phase = .notStarted) (r : R) :
    stepOnR m r t = stepOnR m r0 t := by
  unfold stepOnR
  simp [hstart, hreset]

/-- **sequential histories cannot see state that `input()` resets.**  If `input()` puts the engine-wide
    state into one fixed value, a parse whose steps are contiguous in the schedule ends exactly as it
    would alone with a rules state of its own - whatever ran before it (`pre`, including parses abandoned
    in mid-text with the state left in any condition) or runs after it (`post`). -/
theorem rules_reset_sequential (m : MachineR Tok PS Out R) (r0 : R) (hreset : ∀ r, m.onInput r = r0)
    (s : SysR PS Out R) (i n : Nat) (t : Thread PS Out) (pre post : List Nat)
    (ht : s.threads[i]? = some t) (hstart : t.phase = .notStarted)
    (hpre : i ∉ pre) (hpost : i ∉ post) :
    (runR m s (pre ++ List.replicate n i ++ post)).threads[i]? =
      some (soloIterR m n (r0, t)).2 := by
  rw [runR_append, runR_append, runR_other m i post _ hpost]
  have h0 : (runR m s pre).threads[i]? = some t := by rw [runR_other m i pre s hpre, ht]
  rw [block m i n (runR m s pre) t h0]
  cases n with
  | zero => rfl
  | succ k =>
      simp only [soloIterR_succ]
      rw [start_forgets m r0 hreset t hstart (runR m s pre).rules]

/-! ### a look-behind flag on the rules object breaks isolation although every parse has its own lexer -/

/-- toy tokeniser with a one-token look-behind: a token is the next character; the engine-wide flag says
    "the previous token handed out was `.`"; the word `n` (think `null`) is the constant `N` unless the flag is
    set, in which case it is the plain name `n`.  `input()` clears the flag. -/
def look : MachineR (Option Char) (List Char) (List Char) Bool where
  nextTok := fun flag data pos =>
    let c := data[pos]?
    ((if c = some 'n' ∧ flag = false then some 'N' else c, pos + 1), decide (c = some '.'))
  onInput := fun _ => false
  init := []
  feed := fun ps tok => match tok with
    | some c => .inl (ps ++ [c])
    | none => .inr ps

def lookSys : SysR (List Char) (List Char) Bool :=
  { rules := false, threads := [{ text := ['x', '.', 'a'] }, { text := ['n'] }] }

/-- parse 0 has just fetched its `.` when parse 1 fetches its `n` -/
def lookSchedule : List Nat := [0, 0, 1, 0, 1, 0, 0, 1]

/-- each parse has its own lexer, yet parse 1 reads its text `n` as a NAME because parse 0's member operator
    left the flag set: not what it gives alone (`N`) -/
theorem lookbehind_not_isolated :
    ((runR look lookSys lookSchedule).threads.map (·.phase)) = [.done ['x', '.', 'a'], .done ['n']] ∧
    (lookSys.threads.map fun t => (soloIterR look 5 (false, t)).2.phase) =
      [.done ['x', '.', 'a'], .done ['N']] := by decide

/-- the second shape: a foreign fetch BETWEEN a parse's own `.` and its `n` clears the flag it relies on -/
theorem lookbehind_sandwich :
    ((runR look { rules := false, threads := [{ text := ['.', 'n'] }, { text := ['a'] }] }
        [0, 1, 0, 1, 0, 0, 1]).threads.map (·.phase)) = [.done ['.', 'N'], .done ['a']] ∧
    (soloIterR look 4 (false, ({ text := ['.', 'n'] } : Thread (List Char) (List Char)))).2.phase =
      .done ['.', 'n'] := by decide

/-- the look-behind tokeniser is not blind (hypothesis of `rules_blind_isolated` fails, as it must) -/
example : ¬ Blind look := by
  intro h
  have := h true false ['n'] 0
  simp [look] at this

/-- `rules_blind_isolated` is not vacuous: a tokeniser that only WRITES the flag is blind -/
example : Blind ({ look with nextTok := fun _ data pos => ((data[pos]?, pos + 1), decide (data[pos]? = some '.')) } :
    MachineR (Option Char) (List Char) (List Char) Bool) := by
  intro r r' d p
  rfl

/-- hypotheses of `rules_reset_sequential` hold for the look-behind tokeniser: sequentially it is fine -/
example : ((runR look lookSys ([0, 0, 0] ++ List.replicate 3 1 ++ [0, 0])).threads[1]?).map (·.phase) =
    some (.done ['N']) := by decide

end Yaql.Props.C01Rules
