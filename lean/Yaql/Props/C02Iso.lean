import Yaql.Model.Parser
import Yaql.Props.C02Order
import Yaql.Props.C02Levels
/-!
C02: from ply levels back to the operator list.  `WF` (Props/C02.lean) is phrased with the levels of
the generated tuple; these theorems say what those levels mean in terms of the groups of the
operator list the host configured.
-/
namespace Yaql.Props.C02Iso
open Yaql.OpTable Yaql.Syntax Yaql.Props.C02Order Yaql.Props.C02Levels Yaql.Props.C02Table

/-- ply's shift/reduce decision between an open rule and a following token is a function of their
dictionary keys: reduce iff the rule's key is emitted earlier (binds tighter), or the keys are equal
and the row is `'left'` -/
theorem reduce_by_key (d : PDict) (hdis : NamesDisjoint d) (kr kt : PKey) (nsr nst : List Str) (nr nt : Str)
    (h1 : d.get? kr = some nsr) (h2 : d.get? kt = some nst) (hn1 : nr ∈ nsr) (hn2 : nt ∈ nst)
    (hb1 : 1 ≤ kr.1 ∧ kr.1 ≤ d.length) (hb2 : 1 ≤ kt.1 ∧ kt.1 ≤ d.length) :
    reduceOver (lookupPrec (precedenceOf d) nr) (lookupPrec (precedenceOf d) nt) = true ↔
      tighterKey kr kt ∨ (kr = kt ∧ kr.2 = true) := by
  obtain ⟨a1, _, a3, a4⟩ := ply_order_iso d hdis kr kt nsr nst nr nt h1 h2 hn1 hn2 hb1 hb2
  simp only [reduceOver, Bool.or_eq_true, decide_eq_true_eq, Bool.and_eq_true, beq_iff_eq]
  rw [a3, a4, a1]
  constructor
  · rintro (h | ⟨h, h'⟩)
    · exact .inl h
    · exact .inr ⟨h.symm, h'⟩
  · rintro (h | ⟨h, h'⟩)
    · exact .inl h
    · exact .inr ⟨h.symm, h'⟩

/-- **the table decides**: unless the rule sits in the `'r'` row and the token in the `'l'` row of
one and the same group (a group mixing right-associative binaries or suffix operators with
left-associative binaries - not homogeneous), ply reduces exactly when the token's group is looser
than the rule's, or it is the same group and the token is a left-associative binary operator.  In
particular a prefix operator that shares a group with right-associative binaries (keys `(g,'l')` and
`(g,'r')`) behaves as "same level, right-associative": the r-before-l split is harmless. -/
theorem reduce_by_group (d : PDict) (hdis : NamesDisjoint d) (kr kt : PKey) (nsr nst : List Str) (nr nt : Str)
    (h1 : d.get? kr = some nsr) (h2 : d.get? kt = some nst) (hn1 : nr ∈ nsr) (hn2 : nt ∈ nst)
    (hb1 : 1 ≤ kr.1 ∧ kr.1 ≤ d.length) (hb2 : 1 ≤ kt.1 ∧ kt.1 ≤ d.length)
    (hhom : ¬ (kr.1 = kt.1 ∧ kr.2 = false ∧ kt.2 = true)) :
    reduceOver (lookupPrec (precedenceOf d) nr) (lookupPrec (precedenceOf d) nt) = true ↔
      kr.1 < kt.1 ∨ (kr.1 = kt.1 ∧ kt.2 = true) := by
  rw [reduce_by_key d hdis kr kt nsr nst nr nt h1 h2 hn1 hn2 hb1 hb2]
  obtain ⟨gr, sr⟩ := kr
  obtain ⟨gt, st⟩ := kt
  simp only [tighterKey] at *
  constructor
  · rintro ((h | ⟨h, h', h''⟩) | ⟨h, h'⟩)
    · exact .inl h
    · exact absurd ⟨h, h', h''⟩ hhom
    · injection h with e1 e2; exact .inr ⟨e1, by rw [← e2]; exact h'⟩
  · rintro (h | ⟨h, h'⟩)
    · exact .inl (.inl h)
    · subst h h'
      cases sr
      · exact absurd ⟨rfl, rfl, rfl⟩ hhom
      · exact .inr ⟨rfl, rfl⟩

/-- for a populated operator list every key of the dictionary is within the loop's range - the side
condition of `ply_order_iso` / `reduce_by_group` holds for every operator of the table -/
theorem keys_in_range (ops : OpList) (tab : Table) (hpop : Populated ops) (h : buildOperatorTable ops = .ok tab)
    (k : PKey) (ns : List Str) (hk : (funcsOf tab).pdict.get? k = some ns) :
    1 ≤ k.1 ∧ k.1 ≤ (funcsOf tab).pdict.length := by
  refine (levels_contiguous ops tab hpop h).2 k ⟨ns, ?_⟩
  generalize (funcsOf tab).pdict = d at hk
  induction d with
  | nil => simp [PDict.get?] at hk
  | cons x xs ih =>
    obtain ⟨k', v⟩ := x
    by_cases hkk : k' = k
    · simp [PDict.get?, hkk] at hk; subst hk; simp [hkk]
    · simp [PDict.get?, hkk] at hk; exact List.mem_cons_of_mem _ (ih hk)

end Yaql.Props.C02Iso
