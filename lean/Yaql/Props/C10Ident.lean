import Yaql.Model.ConvertMemo
import Yaql.Props.C09
/-!
# C10 - the round trip does not depend on the addresses of the host's objects

`convert_input_data` is a function of the content of the host document (`convIn_identity_free`).  A
converter with an `id()`-keyed memo is correct exactly as far as addresses identify objects
(`memo_sound`), which they do not for lazily built documents (`memo_breaks_transient_items`).
-/
namespace Yaql.Props.C10
open Yaql Yaql.Convert

/-- the value `$` is bound to has the content `convIn` of the document's content, whatever identities the
    host's objects have - equal, different, or REUSED between objects that are not alive at the same time -/
theorem convIn_identity_free (n m : Nat) (x y : Obj) (h : erase x = erase y) :
    erase (convInI n x).1 = erase (convInI m y).1 := by
  rw [Yaql.Props.C09.convInI_erase, Yaql.Props.C09.convInI_erase, h]

theorem find_cons_ne {m : Memo} {i id : Nat} {r : Py} (h : i ≠ id) : Memo.find ((i, r) :: m) id = Memo.find m id := by
  simp [Memo.find, h]

theorem MemoOK.cons {c : Nat → Option Py} {m : Memo} {id : Nat} {p : Py} (hm : MemoOK c m) (hc : c id = some p) :
    MemoOK c ((id, convIn p) :: m) := by
  intro i r hf
  by_cases h : id = i
  · subst h
    simp [Memo.find] at hf
    exact ⟨p, hc, hf.symm⟩
  · rw [find_cons_ne h] at hf
    exact hm i r hf

mutual
/-- **a memo keyed by address is sound for documents whose objects are all alive**: if every address of the
    document stands for one content (`Respects c x`) and the memo so far is right about `c`, the memoising
    converter returns `convIn` of the content and leaves a memo that is right about `c` -/
theorem memo_sound (c : Nat → Option Py) : ∀ (x : Obj) (m : Memo), Respects c x → MemoOK c m →
    (convMemo m x).1 = convIn (erase x) ∧ MemoOK c (convMemo m x).2
  | .sc s, m, _, hm => by simp [convMemo, erase, convIn, hm]
  | .seq id k l, m, hx, hm => by
    rw [Respects] at hx
    rw [convMemo]
    by_cases hk : memoKind k = true
    · simp only [hk, if_true]
      cases hf : m.find id with
      | some r =>
        obtain ⟨p, hp, hr⟩ := hm id r hf
        rw [hx.1 hk] at hp
        cases hp
        exact ⟨by simpa [erase] using hr, hm⟩
      | none =>
        obtain ⟨h1, h2⟩ := memo_soundL c l m hx.2 hm
        simp only
        refine ⟨by simp [erase, convIn, h1], ?_⟩
        have : Py.seq (inKind k) (convMemoL m l).1 = convIn (.seq k (eraseL l)) := by simp [convIn, h1]
        rw [this]
        exact MemoOK.cons h2 (hx.1 hk)
    · simp only [hk, Bool.false_eq_true, if_false]
      obtain ⟨h1, h2⟩ := memo_soundL c l m hx.2 hm
      exact ⟨by simp [erase, convIn, h1], h2⟩
  | .map id k kvs, m, hx, hm => by
    rw [Respects] at hx
    rw [convMemo]
    cases hf : m.find id with
    | some r =>
      obtain ⟨p, hp, hr⟩ := hm id r hf
      rw [hx.1] at hp
      cases hp
      exact ⟨by simpa [erase] using hr, hm⟩
    | none =>
      obtain ⟨h1, h2⟩ := memo_soundP c kvs m hx.2 hm
      simp only
      refine ⟨by simp [erase, convIn, h1], ?_⟩
      have : Py.map .fdict (convMemoP m kvs).1 = convIn (.map k (eraseP kvs)) := by simp [convIn, h1]
      rw [this]
      exact MemoOK.cons h2 hx.1
  | .lazyMap id src l, m, hx, hm => by
    rw [Respects] at hx
    rw [convMemo]
    obtain ⟨h1, h2⟩ := memo_soundL c l m hx hm
    exact ⟨by simp [erase, convIn, inKind, h1], h2⟩
theorem memo_soundL (c : Nat → Option Py) : ∀ (l : List Obj) (m : Memo), RespectsL c l → MemoOK c m →
    (convMemoL m l).1 = convInL (eraseL l) ∧ MemoOK c (convMemoL m l).2
  | [], m, _, hm => by simp [convMemoL, eraseL, convInL, hm]
  | x :: xs, m, hx, hm => by
    rw [RespectsL] at hx
    rw [convMemoL]
    obtain ⟨h1, h2⟩ := memo_sound c x m hx.1 hm
    obtain ⟨h3, h4⟩ := memo_soundL c xs _ hx.2 h2
    exact ⟨by simp [eraseL, convInL, h1, h3], h4⟩
theorem memo_soundP (c : Nat → Option Py) : ∀ (l : List (Obj × Obj)) (m : Memo), RespectsP c l → MemoOK c m →
    (convMemoP m l).1 = convInP (eraseP l) ∧ MemoOK c (convMemoP m l).2
  | [], m, _, hm => by simp [convMemoP, eraseP, convInP, hm]
  | (k, v) :: r, m, hx, hm => by
    rw [RespectsP] at hx
    rw [convMemoP]
    obtain ⟨h1, h2⟩ := memo_sound c k m hx.1 hm
    obtain ⟨h3, h4⟩ := memo_sound c v _ hx.2.1 h2
    obtain ⟨h5, h6⟩ := memo_soundP c r _ hx.2.2 h4
    exact ⟨by simp [eraseP, convInP, h1, h3, h5], h6⟩
end

/-- ... in particular from the empty memo: a finished document converts as `convIn` says -/
theorem memo_sound_empty (c : Nat → Option Py) (x : Obj) (hx : Respects c x) : (convMemo [] x).1 = convIn (erase x) :=
  (memo_sound c x [] hx (fun _ _ h => by simp [Memo.find] at h)).1

/-- **a memo keyed by address breaks the round trip of lazily built documents**: a generator that builds a
    record per item - each record dies when the converter drops it, the next one is allocated at the same
    address 7 - comes out as copies of the FIRST record; `convIn` (what the real converter computes) keeps
    them apart. -/
theorem memo_breaks_transient_items :
    let doc : Obj := .seq 1 .iter [.map 7 .dict [(.sc (.str ['i', 'd']), .sc (.int 1))],
                                   .map 7 .dict [(.sc (.str ['i', 'd']), .sc (.int 2))]]
    (convMemo [] doc).1 = .seq .iter [.map .fdict [(.sc (.str ['i', 'd']), .sc (.int 1))],
                                      .map .fdict [(.sc (.str ['i', 'd']), .sc (.int 1))]] ∧
    convIn (erase doc) = .seq .iter [.map .fdict [(.sc (.str ['i', 'd']), .sc (.int 1))],
                                     .map .fdict [(.sc (.str ['i', 'd']), .sc (.int 2))]] ∧
    erase (convInI 100 doc).1 = convIn (erase doc) := by
  refine ⟨rfl, rfl, ?_⟩
  exact Yaql.Props.C09.convInI_erase _ _

-- the same for `zip('ab', [[1], [2]])`: the pairs are fresh tuples at one address
example : (convMemo [] (.seq 1 .iter [.seq 9 .tuple [.sc (.str ['a']), .seq 3 .list [.sc (.int 1)]],
                                        .seq 9 .tuple [.sc (.str ['b']), .seq 4 .list [.sc (.int 2)]]])).1 =
    .seq .iter [.seq .tuple [.sc (.str ['a']), .seq .tuple [.sc (.int 1)]],
                .seq .tuple [.sc (.str ['a']), .seq .tuple [.sc (.int 1)]]] := rfl

-- memo_sound is not vacuous: a finished document in which ONE sub-document is referenced twice (a DAG) respects
-- the address map that sends 5 to that sub-document, and the memoising converter is right about it
example : Respects (fun id => if id = 5 then some (.seq .list [.sc (.int 1)]) else if id = 1 then
      some (.seq .list [.seq .list [.sc (.int 1)], .seq .list [.sc (.int 1)]]) else none)
    (.seq 1 .list [.seq 5 .list [.sc (.int 1)], .seq 5 .list [.sc (.int 1)]]) := by
  simp [Respects, RespectsL, eraseL, erase, memoKind]

end Yaql.Props.C10
