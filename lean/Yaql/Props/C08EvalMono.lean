import Yaql.Model.EvalLimits
import Yaql.Props.C08
/-!
# Raising the limits (C08 over the evaluator, part 1: the simulation)

`evalL c lo` and `evalL c hi` with `lo ≤ hi` (a larger iterator limit / a larger quota / a disabled one) are
related by `RelR RelO`: unless the run under `hi` makes no prediction, the run under `lo`
* ended in one of the two limit exceptions (or makes no prediction itself), or
* raised the very exception the run under `hi` raises, or
* returned a related object: the same data, or a lazy sequence that is a *prefix* of the other one ending in
  a limit exception (a generator that would hit the limit if it were consumed that far).
-/
namespace Yaql.Props.C08Eval
open Yaql Yaql.Value Yaql.EvalLimits
open Yaql.Eval (Ctx Expr Fn BinOp UnOp Name VL KV Frame Final)

/-! ## the order on limits -/

/-- `b` is at least as permissive as `a` -/
def Lim.le (a b : Lim) : Prop :=
  (b.N = none ∨ ∃ n m, a.N = some n ∧ b.N = some m ∧ n ≤ m) ∧ (b.Q ≤ 0 ∨ (0 < a.Q ∧ a.Q ≤ b.Q))

theorem Lim.le_refl (a : Lim) : Lim.le a a := by
  refine ⟨?_, ?_⟩
  · cases h : a.N with
    | none => exact Or.inl rfl
    | some n => exact Or.inr ⟨n, n, rfl, rfl, Nat.le_refl _⟩
  · by_cases h : a.Q ≤ 0
    · exact Or.inl h
    · exact Or.inr ⟨by omega, Int.le_refl _⟩

theorem Lim.le_off (a : Lim) : Lim.le a Lim.off := ⟨Or.inl rfl, Or.inl (Int.le_refl _)⟩

/-! ## the relation on outcomes -/

@[simp] theorem ok_bind (a : α) (f : α → RL β) : (Except.ok a >>= f) = f a := rfl
@[simp] theorem error_bind (e : LErr) (f : α → RL β) : ((Except.error e : RL α) >>= f) = .error e := rfl
@[simp] theorem pure_eq (a : α) : (pure a : RL α) = .ok a := rfl

/-- `lo` (the run under the smaller limits) against `hi` -/
def RelR (ra : α → β → Prop) (lo : RL α) (hi : RL β) : Prop :=
  (∃ eh, hi = .error eh ∧ noPred eh = true)
  ∨ (∃ el, lo = .error el ∧ (isLim el = true ∨ noPred el = true))
  ∨ (∃ e, lo = .error e ∧ hi = .error e)
  ∨ (∃ a b, lo = .ok a ∧ hi = .ok b ∧ ra a b)

theorem RelR.ok {ra : α → β → Prop} {a : α} {b : β} (h : ra a b) : RelR ra (.ok a) (.ok b) :=
  Or.inr (Or.inr (Or.inr ⟨a, b, rfl, rfl, h⟩))

theorem RelR.err {ra : α → β → Prop} (e : LErr) : RelR ra (.error e) (.error e) :=
  Or.inr (Or.inr (Or.inl ⟨e, rfl, rfl⟩))

theorem RelR.lim {ra : α → β → Prop} {e : LErr} (h : isLim e = true) (y : RL β) : RelR ra (.error e) y :=
  Or.inr (Or.inl ⟨e, rfl, Or.inl h⟩)

theorem RelR.nopLo {ra : α → β → Prop} {e : LErr} (h : noPred e = true) (y : RL β) : RelR ra (.error e) y :=
  Or.inr (Or.inl ⟨e, rfl, Or.inr h⟩)

theorem RelR.ood {ra : α → β → Prop} (y : RL β) : RelR ra (.error (.base .outOfDomain)) y := RelR.nopLo rfl y
theorem RelR.quota {ra : α → β → Prop} (y : RL β) : RelR ra (.error .quota) y := RelR.lim rfl y
theorem RelR.tooLarge {ra : α → β → Prop} (y : RL β) : RelR ra (.error .tooLarge) y := RelR.lim rfl y

theorem RelR.nopHi {ra : α → β → Prop} {e : LErr} (h : noPred e = true) (x : RL α) : RelR ra x (.error e) :=
  Or.inl ⟨e, rfl, h⟩

theorem RelR.refl {ra : α → α → Prop} (hr : ∀ a, ra a a) (x : RL α) : RelR ra x x := by
  cases x with
  | error e => exact RelR.err e
  | ok a => exact RelR.ok (hr a)

theorem RelR.bind {ra : α → β → Prop} {rb : γ → δ → Prop} {x : RL α} {y : RL β} {f : α → RL γ} {g : β → RL δ}
    (h : RelR ra x y) (hf : ∀ a b, ra a b → RelR rb (f a) (g b)) : RelR rb (x >>= f) (y >>= g) := by
  rcases h with ⟨eh, rfl, hn⟩ | ⟨el, rfl, hl⟩ | ⟨e, rfl, rfl⟩ | ⟨a, b, rfl, rfl, hab⟩
  · exact Or.inl ⟨eh, rfl, hn⟩
  · exact Or.inr (Or.inl ⟨el, rfl, hl⟩)
  · exact RelR.err e
  · exact hf a b hab

theorem RelR.mono {ra rb : α → β → Prop} {x : RL α} {y : RL β} (h : RelR ra x y) (hab : ∀ a b, ra a b → rb a b) :
    RelR rb x y := by
  rcases h with h | h | h | ⟨a, b, h1, h2, h3⟩
  · exact Or.inl h
  · exact Or.inr (Or.inl h)
  · exact Or.inr (Or.inr (Or.inl h))
  · exact Or.inr (Or.inr (Or.inr ⟨a, b, h1, h2, hab a b h3⟩))

theorem isLim_not_noPred {e : LErr} (h : isLim e = true) : noPred e = false := by
  cases e with
  | base b => cases h
  | quota => rfl
  | tooLarge => rfl

/-- captured outcomes (the tail of a generator) -/
def RelC (ra : α → β → Prop) (lo : Except LErr α) (hi : Except LErr β) : Prop :=
  (∃ e, lo = .error e ∧ isLim e = true) ∨ (∃ e, lo = .error e ∧ hi = .error e) ∨ (∃ a b, lo = .ok a ∧ hi = .ok b ∧ ra a b)

theorem capture_ok (a : α) : capture (.ok a : RL α) = .ok (.ok a) := rfl
theorem capture_err_nop {e : LErr} (h : noPred e = true) : capture (.error e : RL α) = .error e := by
  simp [capture, h]
theorem capture_err {e : LErr} (h : noPred e = false) : capture (.error e : RL α) = .ok (.error e) := by
  simp [capture, h]

theorem RelR.capture {ra : α → β → Prop} {x : RL α} {y : RL β} (h : RelR ra x y) :
    RelR (RelC ra) (capture x) (capture y) := by
  rcases h with ⟨eh, rfl, hn⟩ | ⟨el, rfl, hl | hl⟩ | ⟨e, rfl, rfl⟩ | ⟨a, b, rfl, rfl, hab⟩
  · rw [capture_err_nop hn]; exact RelR.nopHi hn _
  · rw [capture_err (isLim_not_noPred hl)]
    cases y with
    | ok b => exact RelR.ok (Or.inl ⟨el, rfl, hl⟩)
    | error e =>
      cases hn : noPred e with
      | true => rw [capture_err_nop hn]; exact RelR.nopHi hn _
      | false => rw [capture_err hn]; exact RelR.ok (Or.inl ⟨el, rfl, hl⟩)
  · rw [capture_err_nop hl]; exact RelR.nopLo hl _
  · cases hn : noPred e with
    | true => rw [capture_err_nop hn, capture_err_nop hn]; exact RelR.nopHi hn _
    | false => rw [capture_err hn, capture_err hn]; exact RelR.ok (Or.inr (Or.inl ⟨e, rfl, rfl⟩))
  · exact RelR.ok (Or.inr (Or.inr ⟨a, b, rfl, rfl, hab⟩))

/-! ## lazy sequences: equal, or a prefix that ends in a limit exception -/

def RelS (a b : VL × Option LErr) : Prop :=
  a = b ∨ (∃ e, a.2 = some e ∧ isLim e = true ∧ a.1 <+: b.1)

theorem RelS.refl (a : VL × Option LErr) : RelS a a := Or.inl rfl

theorem RelS.cut {xs ys : VL} {e : LErr} (he : isLim e = true) (h : xs <+: ys) (t : Option LErr) :
    RelS (xs, some e) (ys, t) := Or.inr ⟨e, rfl, he, h⟩

theorem RelS.cons (v : Value) {a b : VL × Option LErr} (h : RelS a b) : RelS (v :: a.1, a.2) (v :: b.1, b.2) := by
  rcases h with rfl | ⟨e, h1, h2, h3⟩
  · exact Or.inl rfl
  · exact Or.inr ⟨e, h1, h2, by simpa using h3⟩

theorem RelS.append (vs : VL) {a b : VL × Option LErr} (h : RelS a b) : RelS (vs ++ a.1, a.2) (vs ++ b.1, b.2) := by
  rcases h with rfl | ⟨e, h1, h2, h3⟩
  · exact Or.inl rfl
  · exact Or.inr ⟨e, h1, h2, by simpa using h3⟩

/-- objects -/
inductive RelO : ObjL → ObjL → Prop where
  | refl (o : ObjL) : RelO o o
  | lazy {xs : VL} {e : Option LErr} {ys : VL} {e' : Option LErr} : RelS (xs, e) (ys, e') → RelO (.lazy xs e) (.lazy ys e')
  | ordered {xs : VL} {e : Option LErr} {ys : VL} {e' : Option LErr} :
      RelS (xs, e) (ys, e') → RelO (.ordered xs e) (.ordered ys e')

/-- the knots -/
def LeEv (ev ev' : EvL) : Prop := ∀ C e, RelR RelO (ev C e) (ev' C e)

/-! ## the primitives that depend on the limits -/

theorem limitMemoryGo_mono {q q' : Int} (h : q ≤ q') : ∀ (l : List (Int × Nat)) (t : Int),
    Limits.limitMemoryGo q t l = true → Limits.limitMemoryGo q' t l = true
  | [], _, _ => rfl
  | (c, s) :: r, t, hl => by
    simp only [Limits.limitMemoryGo] at hl ⊢
    split at hl
    · cases hl
    · rename_i hq
      have : ¬ (t + c * (s : Int) > q') := by omega
      simp only [this, if_false]
      exact limitMemoryGo_mono h r _ hl

theorem measureAll_rel {lo hi : Lim} (h : Lim.le lo hi) (ss : List (Option Sz)) :
    RelR (fun _ _ => True) (measureAll lo ss) (measureAll hi ss) := by
  unfold measureAll
  by_cases hlo : lo.Q ≤ 0
  · have hhi : hi.Q ≤ 0 := by rcases h.2 with h' | h' <;> omega
    simp only [hlo, hhi, if_true]
    exact RelR.ok trivial
  · simp only [hlo, if_false]
    cases hs : allSome ss with
    | none => exact RelR.ood _
    | some ns =>
      simp only
      by_cases hhi : hi.Q ≤ 0
      · simp only [hhi, if_true]
        split
        · exact RelR.ok trivial
        · split
          · exact RelR.ood _
          · exact RelR.quota _
      · simp only [hhi, if_false]
        have hq : lo.Q ≤ hi.Q := by rcases h.2 with h' | h' <;> omega
        cases h1 : Limits.limitMemory lo.Q (ns.map fun n => ((1 : Int), n.hi)) with
        | true =>
          have h2 : Limits.limitMemory hi.Q (ns.map fun n => ((1 : Int), n.hi)) = true := by
            unfold Limits.limitMemory at h1 ⊢
            simp only [hlo, hhi, if_false] at h1 ⊢
            exact limitMemoryGo_mono hq _ _ h1
          rw [h2]
          exact RelR.ok trivial
        | false =>
          cases Limits.limitMemory lo.Q (ns.map fun n => ((1 : Int), n.lo)) with
          | true => exact RelR.ood _
          | false => exact RelR.quota _

theorem measure_rel {lo hi : Lim} (h : Lim.le lo hi) (s : Option Sz) :
    RelR (fun _ _ => True) (measure lo s) (measure hi s) := measureAll_rel h _

theorem measureEach_rel {lo hi : Lim} (h : Lim.le lo hi) : ∀ ss : List (Option Sz),
    RelR (fun _ _ => True) (measureEach lo ss) (measureEach hi ss)
  | [] => RelR.ok trivial
  | s :: r => by
    unfold measureEach
    exact RelR.bind (measure_rel h s) (fun _ _ _ => measureEach_rel h r)

theorem limitLen_rel {lo hi : Lim} (h : Lim.le lo hi) (n : Nat) :
    RelR (fun _ _ => True) (limitLen lo n) (limitLen hi n) := by
  unfold limitLen Limits.limitSized
  rcases h.1 with hn | ⟨a, b, ha, hb, hab⟩
  · simp only [hn, Convert.Limit.admits, if_true]
    split
    · exact RelR.ok trivial
    · exact RelR.tooLarge _
  · simp only [ha, hb, Convert.Limit.admits]
    by_cases h1 : n ≤ a
    · have h2 : n ≤ b := by omega
      simp only [h1, h2, decide_true, if_true]
      exact RelR.ok trivial
    · simp only [h1, decide_false]
      exact RelR.tooLarge _

theorem take_prefix_take {xs ys : VL} (h : xs <+: ys) {n m : Nat} (hnm : n ≤ m) : xs.take n <+: ys.take m := by
  obtain ⟨t, rfl⟩ := h
  rw [List.prefix_take_iff]
  refine ⟨(List.take_prefix _ _).trans (List.prefix_append _ _), ?_⟩
  simp only [List.length_take]
  omega

theorem limitLazy_rel {lo hi : Lim} (h : Lim.le lo hi) {s s' : VL × Option LErr} (hs : RelS s s') :
    RelS (limitLazy lo s) (limitLazy hi s') := by
  obtain ⟨xs, e⟩ := s
  obtain ⟨ys, e'⟩ := s'
  unfold limitLazy
  rcases h.1 with hn | ⟨a, b, ha, hb, hab⟩
  · -- `hi` does not limit
    simp only [hn]
    cases hl : lo.N with
    | none => exact hs
    | some n =>
      simp only
      split
      · rcases hs with hs | ⟨e0, _, _, hp⟩
        · cases hs; exact RelS.cut rfl (List.take_prefix _ _) _
        · exact RelS.cut rfl ((List.take_prefix _ _).trans hp) _
      · exact hs
  · simp only [ha, hb]
    rcases hs with hs | ⟨e0, he0, hl0, hp⟩
    · cases hs
      by_cases h1 : a < xs.length
      · simp only [h1, if_true]
        split
        · exact RelS.cut rfl (take_prefix_take (List.prefix_refl _) hab) _
        · exact RelS.cut rfl (List.take_prefix _ _) _
      · have h2 : ¬ b < xs.length := by omega
        simp only [h1, h2, if_false]
        exact RelS.refl _
    · simp only at he0 hp
      subst he0
      by_cases h1 : a < xs.length
      · simp only [h1, if_true]
        split
        · exact RelS.cut rfl (take_prefix_take hp hab) _
        · exact RelS.cut rfl ((List.take_prefix _ _).trans hp) _
      · simp only [h1, if_false]
        split
        · refine RelS.cut hl0 ?_ _
          have : xs = xs.take b := by rw [List.take_of_length_le]; omega
          rw [this]
          exact take_prefix_take hp (Nat.le_refl _)
        · exact RelS.cut hl0 hp _

/-! ## computations that never raise a definite exception (generators capture them) -/

def Tot (x : RL α) : Prop := ∀ e, x = .error e → noPred e = true

theorem Tot.ok (a : α) : Tot (.ok a : RL α) := by intro e h; cases h
theorem Tot.pure (a : α) : Tot (pure a : RL α) := Tot.ok a
theorem Tot.nop {e : LErr} (h : noPred e = true) : Tot (.error e : RL α) := by intro e' h'; cases h'; exact h

theorem Tot.bind {x : RL α} {f : α → RL β} (hx : Tot x) (hf : ∀ a, Tot (f a)) : Tot (x >>= f) := by
  cases x with
  | error e => intro e' h'; cases h'; exact hx e rfl
  | ok a => exact hf a

theorem Tot.capture (x : RL α) : Tot (capture x) := by
  cases x with
  | ok a => exact Tot.ok _
  | error e =>
    cases hn : noPred e with
    | true => rw [capture_err_nop hn]; exact Tot.nop hn
    | false => rw [capture_err hn]; exact Tot.ok _

/-- a generator that is cut by a limit exception before it yields anything is related to whatever the other
    run's generator turns out to be -/
theorem RelR.cutTot {e : LErr} (he : isLim e = true) {y : RL (VL × Option LErr)} (hy : Tot y) :
    RelR RelS (.ok ([], some e)) y := by
  cases y with
  | error e' => exact RelR.nopHi (hy e' rfl) _
  | ok s => exact RelR.ok (RelS.cut he List.nil_prefix _)

theorem mapL_tot (f : Value → RL Value) : ∀ xs e, Tot (mapL f xs e)
  | [], e => Tot.ok _
  | x :: xs, e => by
    unfold mapL
    apply Tot.bind (Tot.capture _); intro r
    cases r with
    | error er => exact Tot.pure _
    | ok v => exact Tot.bind (mapL_tot f xs e) (fun _ => Tot.pure _)

theorem filterL_tot (f : Value → RL Bool) : ∀ xs e, Tot (filterL f xs e)
  | [], e => Tot.ok _
  | x :: xs, e => by
    unfold filterL
    apply Tot.bind (Tot.capture _); intro r
    cases r with
    | error er => exact Tot.pure _
    | ok v => exact Tot.bind (filterL_tot f xs e) (fun _ => Tot.pure _)

theorem flatMapL_tot (f : Value → RL (VL × Option LErr)) : ∀ xs e, Tot (flatMapL f xs e)
  | [], e => Tot.ok _
  | x :: xs, e => by
    unfold flatMapL
    apply Tot.bind (Tot.capture _); intro r
    match r with
    | .error er => exact Tot.pure _
    | .ok (vs, some er) => exact Tot.pure _
    | .ok (vs, none) => exact Tot.bind (flatMapL_tot f xs e) (fun _ => Tot.pure _)

theorem takeWhileL_tot (f : Value → RL Bool) : ∀ xs e, Tot (takeWhileL f xs e)
  | [], e => Tot.ok _
  | x :: xs, e => by
    unfold takeWhileL
    apply Tot.bind (Tot.capture _); intro r
    match r with
    | .error er => exact Tot.pure _
    | .ok true => exact Tot.bind (takeWhileL_tot f xs e) (fun _ => Tot.pure _)
    | .ok false => exact Tot.pure _

theorem dropWhileL_tot (f : Value → RL Bool) : ∀ xs e, Tot (dropWhileL f xs e)
  | [], e => Tot.ok _
  | x :: xs, e => by
    unfold dropWhileL
    apply Tot.bind (Tot.capture _); intro r
    match r with
    | .error er => exact Tot.pure _
    | .ok true => exact dropWhileL_tot f xs e
    | .ok false => exact Tot.pure _

theorem keysL_tot (f : Value → RL Value) : ∀ xs, Tot (keysL f xs)
  | [] => Tot.ok _
  | x :: xs => by
    unfold keysL
    apply Tot.bind (Tot.capture _); intro k
    exact Tot.bind (keysL_tot f xs) (fun _ => Tot.pure _)

/-! ## generators under related inputs -/

theorem RelS.uncons {x : Value} {xs : VL} {e : Option LErr} {ys : VL} {e' : Option LErr}
    (h : RelS (x :: xs, e) (ys, e')) : ∃ ys', ys = x :: ys' ∧ RelS (xs, e) (ys', e') := by
  rcases h with h | ⟨e0, h1, h2, h3⟩
  · cases h; exact ⟨xs, rfl, RelS.refl _⟩
  · obtain ⟨t, rfl⟩ := h3
    exact ⟨xs ++ t, rfl, Or.inr ⟨e0, h1, h2, List.prefix_append _ _⟩⟩

/-- the source is exhausted on the `lo` side: either both are, or `lo` was cut by a limit -/
theorem RelS.nil {e : Option LErr} {ys : VL} {e' : Option LErr} (h : RelS ([], e) (ys, e')) :
    (ys = [] ∧ e' = e) ∨ (∃ e0, e = some e0 ∧ isLim e0 = true) := by
  rcases h with h | ⟨e0, h1, h2, _⟩
  · cases h; exact Or.inl ⟨rfl, rfl⟩
  · exact Or.inr ⟨e0, h1, h2⟩

theorem mapL_rel {f g : Value → RL Value} (hf : ∀ x, RelR Eq (f x) (g x)) :
    ∀ (xs : VL) (e : Option LErr) (ys : VL) (e' : Option LErr), RelS (xs, e) (ys, e') →
      RelR RelS (mapL f xs e) (mapL g ys e')
  | [], e, ys, e', hs => by
    rcases hs.nil with ⟨rfl, rfl⟩ | ⟨e0, rfl, hl⟩
    · exact RelR.ok (RelS.refl _)
    · exact RelR.cutTot hl (mapL_tot _ _ _)
  | x :: xs, e, ys, e', hs => by
    obtain ⟨ys', rfl, hs'⟩ := hs.uncons
    unfold mapL
    apply RelR.bind (RelR.capture (hf x)); intro a b hab
    rcases hab with ⟨el, rfl, hl⟩ | ⟨el, rfl, rfl⟩ | ⟨a', b', rfl, rfl, rfl⟩
    · apply RelR.cutTot hl
      cases b with
      | error er => exact Tot.pure _
      | ok v => exact Tot.bind (mapL_tot _ _ _) (fun _ => Tot.pure _)
    · exact RelR.ok (RelS.refl _)
    · exact RelR.bind (mapL_rel hf xs e ys' e' hs') (fun r r' hr => RelR.ok (RelS.cons a' hr))

theorem filterL_rel {f g : Value → RL Bool} (hf : ∀ x, RelR Eq (f x) (g x)) :
    ∀ (xs : VL) (e : Option LErr) (ys : VL) (e' : Option LErr), RelS (xs, e) (ys, e') →
      RelR RelS (filterL f xs e) (filterL g ys e')
  | [], e, ys, e', hs => by
    rcases hs.nil with ⟨rfl, rfl⟩ | ⟨e0, rfl, hl⟩
    · exact RelR.ok (RelS.refl _)
    · exact RelR.cutTot hl (filterL_tot _ _ _)
  | x :: xs, e, ys, e', hs => by
    obtain ⟨ys', rfl, hs'⟩ := hs.uncons
    unfold filterL
    apply RelR.bind (RelR.capture (hf x)); intro a b hab
    rcases hab with ⟨el, rfl, hl⟩ | ⟨el, rfl, rfl⟩ | ⟨a', b', rfl, rfl, rfl⟩
    · apply RelR.cutTot hl
      cases b with
      | error er => exact Tot.pure _
      | ok v => exact Tot.bind (filterL_tot _ _ _) (fun _ => Tot.pure _)
    · exact RelR.ok (RelS.refl _)
    · refine RelR.bind (filterL_rel hf xs e ys' e' hs') (fun r r' hr => RelR.ok ?_)
      cases a'
      · exact hr
      · exact RelS.cons x hr

theorem takeWhileL_rel {f g : Value → RL Bool} (hf : ∀ x, RelR Eq (f x) (g x)) :
    ∀ (xs : VL) (e : Option LErr) (ys : VL) (e' : Option LErr), RelS (xs, e) (ys, e') →
      RelR RelS (takeWhileL f xs e) (takeWhileL g ys e')
  | [], e, ys, e', hs => by
    rcases hs.nil with ⟨rfl, rfl⟩ | ⟨e0, rfl, hl⟩
    · exact RelR.ok (RelS.refl _)
    · exact RelR.cutTot hl (takeWhileL_tot _ _ _)
  | x :: xs, e, ys, e', hs => by
    obtain ⟨ys', rfl, hs'⟩ := hs.uncons
    unfold takeWhileL
    apply RelR.bind (RelR.capture (hf x)); intro a b hab
    rcases hab with ⟨el, rfl, hl⟩ | ⟨el, rfl, rfl⟩ | ⟨a', b', rfl, rfl, rfl⟩
    · apply RelR.cutTot hl
      match b with
      | .error er => exact Tot.pure _
      | .ok true => exact Tot.bind (takeWhileL_tot _ _ _) (fun _ => Tot.pure _)
      | .ok false => exact Tot.pure _
    · exact RelR.ok (RelS.refl _)
    · cases a'
      · exact RelR.ok (RelS.refl _)
      · exact RelR.bind (takeWhileL_rel hf xs e ys' e' hs') (fun r r' hr => RelR.ok (RelS.cons x hr))

theorem dropWhileL_rel {f g : Value → RL Bool} (hf : ∀ x, RelR Eq (f x) (g x)) :
    ∀ (xs : VL) (e : Option LErr) (ys : VL) (e' : Option LErr), RelS (xs, e) (ys, e') →
      RelR RelS (dropWhileL f xs e) (dropWhileL g ys e')
  | [], e, ys, e', hs => by
    rcases hs.nil with ⟨rfl, rfl⟩ | ⟨e0, rfl, hl⟩
    · exact RelR.ok (RelS.refl _)
    · exact RelR.cutTot hl (dropWhileL_tot _ _ _)
  | x :: xs, e, ys, e', hs => by
    obtain ⟨ys', rfl, hs'⟩ := hs.uncons
    unfold dropWhileL
    apply RelR.bind (RelR.capture (hf x)); intro a b hab
    rcases hab with ⟨el, rfl, hl⟩ | ⟨el, rfl, rfl⟩ | ⟨a', b', rfl, rfl, rfl⟩
    · apply RelR.cutTot hl
      match b with
      | .error er => exact Tot.pure _
      | .ok true => exact dropWhileL_tot _ _ _
      | .ok false => exact Tot.pure _
    · exact RelR.ok (RelS.refl _)
    · cases a'
      · exact RelR.ok (RelS.cons x hs')
      · exact dropWhileL_rel hf xs e ys' e' hs'

theorem flatMapL_rel {f g : Value → RL (VL × Option LErr)} (hf : ∀ x, RelR RelS (f x) (g x)) :
    ∀ (xs : VL) (e : Option LErr) (ys : VL) (e' : Option LErr), RelS (xs, e) (ys, e') →
      RelR RelS (flatMapL f xs e) (flatMapL g ys e')
  | [], e, ys, e', hs => by
    rcases hs.nil with ⟨rfl, rfl⟩ | ⟨e0, rfl, hl⟩
    · exact RelR.ok (RelS.refl _)
    · exact RelR.cutTot hl (flatMapL_tot _ _ _)
  | x :: xs, e, ys, e', hs => by
    obtain ⟨ys', rfl, hs'⟩ := hs.uncons
    unfold flatMapL
    apply RelR.bind (RelR.capture (hf x)); intro a b hab
    have htot : Tot (match b with
        | .error er => (pure ([], some er) : RL (VL × Option LErr))
        | .ok (vs, some er) => pure (vs, some er)
        | .ok (vs, none) => do let r ← flatMapL g ys' e'; pure (vs ++ r.1, r.2)) := by
      match b with
      | .error er => exact Tot.pure _
      | .ok (vs, some er) => exact Tot.pure _
      | .ok (vs, none) => exact Tot.bind (flatMapL_tot _ _ _) (fun _ => Tot.pure _)
    rcases hab with ⟨el, rfl, hl⟩ | ⟨el, rfl, rfl⟩ | ⟨⟨vs, t⟩, ⟨ws, t'⟩, rfl, rfl, hvw⟩
    · exact RelR.cutTot hl htot
    · exact RelR.ok (RelS.refl _)
    · rcases hvw with hvw | ⟨e0, h1, h2, h3⟩
      · cases hvw
        cases t with
        | some er => exact RelR.ok (RelS.refl _)
        | none => exact RelR.bind (flatMapL_rel hf xs e ys' e' hs') (fun r r' hr => RelR.ok (RelS.append vs hr))
      · simp only at h1 h3
        subst h1
        -- the inner sequence of the `lo` side is cut: whatever the other side goes on to yield extends it
        show RelR RelS (.ok (vs, some e0)) _
        match t' with
        | some er => exact RelR.ok (RelS.cut h2 h3 _)
        | none =>
          cases hy : flatMapL g ys' e' with
          | error e2 =>
            have := flatMapL_tot g ys' e' e2 hy
            exact RelR.nopHi this _
          | ok r => exact RelR.ok (RelS.cut h2 (h3.trans (List.prefix_append _ _)) _)

/-! ## consumers -/

theorem findL_rel {p q : Value → RL Bool} (hp : ∀ x, RelR Eq (p x) (q x)) :
    ∀ (xs : VL) (i : Nat) (e : Option LErr) (ys : VL) (e' : Option LErr), RelS (xs, e) (ys, e') →
      RelR Eq (findL p i xs e) (findL q i ys e')
  | [], i, e, ys, e', hs => by
    rcases hs.nil with ⟨rfl, rfl⟩ | ⟨e0, rfl, hl⟩
    · cases e' <;> exact RelR.refl (fun _ => rfl) _
    · exact RelR.lim hl _
  | x :: xs, i, e, ys, e', hs => by
    obtain ⟨ys', rfl, hs'⟩ := hs.uncons
    unfold findL
    apply RelR.bind (hp x); intro b b' hb
    subst hb
    cases b
    · exact findL_rel hp xs (i + 1) e ys' e' hs'
    · exact RelR.ok rfl

theorem foldL_rel {f g : Value → Value → RL Value} (hf : ∀ a x, RelR Eq (f a x) (g a x)) :
    ∀ (xs : VL) (acc : Value) (e : Option LErr) (ys : VL) (e' : Option LErr), RelS (xs, e) (ys, e') →
      RelR Eq (foldL f acc xs e) (foldL g acc ys e')
  | [], acc, e, ys, e', hs => by
    rcases hs.nil with ⟨rfl, rfl⟩ | ⟨e0, rfl, hl⟩
    · cases e' <;> exact RelR.refl (fun _ => rfl) _
    · exact RelR.lim hl _
  | x :: xs, acc, e, ys, e', hs => by
    obtain ⟨ys', rfl, hs'⟩ := hs.uncons
    unfold foldL
    apply RelR.bind (hf acc x); intro a a' ha
    subst ha
    exact foldL_rel hf xs a e ys' e' hs'

theorem toDictL_rel {lo hi : Lim} (h : Lim.le lo hi) (c : ECfg) {kf kg vf vg : Value → RL Value}
    (hk : ∀ x, RelR Eq (kf x) (kg x)) (hv : ∀ x, RelR Eq (vf x) (vg x)) :
    ∀ (xs : VL) (acc : KV) (e : Option LErr) (ys : VL) (e' : Option LErr), RelS (xs, e) (ys, e') →
      RelR Eq (toDictL c lo kf vf acc xs e) (toDictL c hi kg vg acc ys e')
  | [], acc, e, ys, e', hs => by
    rcases hs.nil with ⟨rfl, rfl⟩ | ⟨e0, rfl, hl⟩
    · cases e' <;> exact RelR.refl (fun _ => rfl) _
    · exact RelR.lim hl _
  | x :: xs, acc, e, ys, e', hs => by
    obtain ⟨ys', rfl, hs'⟩ := hs.uncons
    unfold toDictL
    apply RelR.bind (hk x); intro k k' hkk; subst hkk
    apply RelR.bind (hv x); intro v v' hvv; subst hvv
    split
    · apply RelR.bind (measure_rel h _); intro _ _ _
      exact toDictL_rel h c hk hv xs _ e ys' e' hs'
    · exact RelR.err _

theorem drain_rel {s s' : VL × Option LErr} (hs : RelS s s') : RelR Eq (drain s) (drain s') := by
  rcases hs with rfl | ⟨e0, h1, h2, _⟩
  · exact RelR.refl (fun _ => rfl) _
  · unfold drain
    rw [h1]
    exact RelR.lim h2 _

/-! ## sorting -/

theorem sortErr_cons (e : LErr) (rest : List LErr) :
    sortErr (e :: rest) = if (e == LErr.base .outOfDomain || rest.any (· != e)) = true
      then .error (.base .outOfDomain) else .ok (some e) := rfl

theorem sortErr_tot : ∀ es, Tot (sortErr es)
  | [] => Tot.ok _
  | e :: rest => by
    rw [sortErr_cons]
    by_cases hc : (e == LErr.base .outOfDomain || rest.any (· != e)) = true
    · rw [if_pos hc]; exact Tot.nop (e := .base .outOfDomain) rfl
    · rw [if_neg hc]; exact Tot.ok _

theorem sortErr_some {es : List LErr} {e : LErr} (h : sortErr es = .ok (some e)) :
    e ≠ .base .outOfDomain ∧ ∀ x ∈ es, x = e := by
  cases es with
  | nil => cases h
  | cons e0 rest =>
    rw [sortErr_cons] at h
    by_cases hc : (e0 == LErr.base .outOfDomain || rest.any (· != e0)) = true
    · rw [if_pos hc] at h; cases h
    · rw [if_neg hc] at h
      cases h
      simp only [Bool.or_eq_true, beq_iff_eq, List.any_eq_true, bne_iff_ne, not_or, not_exists, not_and,
        Decidable.not_not] at hc
      refine ⟨hc.1, ?_⟩
      intro x hx
      rcases List.mem_cons.mp hx with rfl | hx
      · rfl
      · exact hc.2 x hx

theorem sortErr_none {es : List LErr} (h : sortErr es = .ok none) : es = [] := by
  cases es with
  | nil => rfl
  | cons e0 rest =>
    rw [sortErr_cons] at h
    by_cases hc : (e0 == LErr.base .outOfDomain || rest.any (· != e0)) = true
    · rw [if_pos hc] at h; cases h
    · rw [if_neg hc] at h; cases h

theorem measureAll_cases (L : Lim) (ss : List (Option Sz)) :
    measureAll L ss = .ok () ∨ measureAll L ss = .error .quota ∨ measureAll L ss = .error (.base .outOfDomain) := by
  unfold measureAll
  split
  · exact Or.inl rfl
  · split
    · exact Or.inr (Or.inr rfl)
    · split
      · exact Or.inl rfl
      · split
        · exact Or.inr (Or.inr rfl)
        · exact Or.inr (Or.inl rfl)

theorem measure_cases (L : Lim) (s : Option Sz) :
    EvalLimits.measure L s = .ok () ∨ EvalLimits.measure L s = .error .quota
      ∨ EvalLimits.measure L s = .error (.base .outOfDomain) := measureAll_cases L [s]

theorem keyQuota_cons (c : ECfg) (L : Lim) (k : Value) (r : VL) :
    keyQuota c L (k :: r) = match EvalLimits.measure L (sizeofV c k) with
      | .ok _ => keyQuota c L r
      | .error e => e :: keyQuota c L r := rfl

theorem keyQuota_mem (c : ECfg) (L : Lim) : ∀ (ks : VL) (x : LErr), x ∈ keyQuota c L ks →
    isLim x = true ∨ x = .base .outOfDomain
  | [], x, h => by cases h
  | k :: r, x, h => by
    rw [keyQuota_cons] at h
    rcases measure_cases L (sizeofV c k) with hm | hm | hm
    · rw [hm] at h; exact keyQuota_mem c L r x h
    · rw [hm] at h
      rcases List.mem_cons.mp h with rfl | h
      · exact Or.inl rfl
      · exact keyQuota_mem c L r x h
    · rw [hm] at h
      rcases List.mem_cons.mp h with rfl | h
      · exact Or.inr rfl
      · exact keyQuota_mem c L r x h

theorem measure_ok_mono {lo hi : Lim} (h : Lim.le lo hi) {s : Option Sz} (hm : EvalLimits.measure lo s = .ok ()) :
    EvalLimits.measure hi s = .ok () := by
  have hr := measure_rel h s
  rw [hm] at hr
  rcases hr with ⟨eh, h1, h2⟩ | ⟨el, h1, _⟩ | ⟨e, h1, _⟩ | ⟨a, b, _, h2, _⟩
  · -- "no prediction" under `hi`: then the quota is enabled under `hi`, hence under `lo`, where the size is
    -- unknown or in the undecided interval as well
    exfalso
    rcases measure_cases hi s with h' | h' | h'
    · rw [h'] at h1; cases h1
    · rw [h'] at h1; cases h1; cases h2
    · unfold EvalLimits.measure measureAll at hm h'
      by_cases hlo : lo.Q ≤ 0
      · have hhi : hi.Q ≤ 0 := by rcases h.2 with h'' | h'' <;> omega
        simp only [hhi, if_true] at h'
        cases h'
      · simp only [hlo, if_false] at hm
        by_cases hhi : hi.Q ≤ 0
        · simp only [hhi, if_true] at h'; cases h'
        · simp only [hhi, if_false] at h'
          cases hs : allSome [s] with
          | none => simp only [hs] at hm; cases hm
          | some ns =>
            simp only [hs] at hm h'
            have hq : lo.Q ≤ hi.Q := by rcases h.2 with h'' | h'' <;> omega
            cases h3 : Limits.limitMemory lo.Q (ns.map fun n => ((1 : Int), n.hi)) with
            | true =>
              have h4 : Limits.limitMemory hi.Q (ns.map fun n => ((1 : Int), n.hi)) = true := by
                unfold Limits.limitMemory at h3 ⊢
                simp only [hlo, hhi, if_false] at h3 ⊢
                exact limitMemoryGo_mono hq _ _ h3
              rw [h4] at h'
              cases h'
            | false =>
              rw [h3] at hm
              simp only [Bool.false_eq_true, if_false] at hm
              split at hm <;> cases hm
  · cases h1
  · cases h1
  · cases b; exact h2

theorem keyQuota_nil_mono {lo hi : Lim} (h : Lim.le lo hi) (c : ECfg) : ∀ ks : VL,
    keyQuota c lo ks = [] → keyQuota c hi ks = []
  | [], _ => rfl
  | k :: r, hk => by
    rw [keyQuota_cons] at hk ⊢
    cases hm : EvalLimits.measure lo (sizeofV c k) with
    | error e => rw [hm] at hk; cases hk
    | ok u =>
      cases u
      rw [hm] at hk
      rw [measure_ok_mono h hm]
      exact keyQuota_nil_mono h c r hk

/-- keys of the two runs: pairwise equal, or a limit exception on the `lo` side -/
inductive RelK : List (Except LErr Value) → List (Except LErr Value) → Prop where
  | nil : RelK [] []
  | cons {k k' : Except LErr Value} {r r' : List (Except LErr Value)} : RelC Eq k k' → RelK r r' → RelK (k :: r) (k' :: r')

theorem relK_cases {ks ks' : List (Except LErr Value)} (h : RelK ks ks') :
    (∃ x ∈ errsOfL ks, isLim x = true) ∨ ks = ks' := by
  induction h with
  | nil => exact Or.inr rfl
  | cons hk _ ih =>
    rcases hk with ⟨e, rfl, hl⟩ | ⟨e, rfl, rfl⟩ | ⟨a, b, rfl, rfl, rfl⟩
    · exact Or.inl ⟨e, by simp [errsOfL], hl⟩
    · rcases ih with ⟨x, hx, hl⟩ | rfl
      · exact Or.inl ⟨x, by simp [errsOfL, hx], hl⟩
      · exact Or.inr rfl
    · rcases ih with ⟨x, hx, hl⟩ | rfl
      · exact Or.inl ⟨x, by simp [errsOfL, hx], hl⟩
      · exact Or.inr rfl

theorem sortKeyedL_tot (c : ECfg) (L : Lim) (asc : Bool) (items : VL) (ks : List (Except LErr Value)) :
    Tot (sortKeyedL c L asc items ks) := by
  unfold sortKeyedL
  split
  · exact Tot.ok _
  · apply Tot.bind (sortErr_tot _); intro r
    cases r <;> exact Tot.pure _

/-- a sort during which some comparison would raise a limit exception (or is not predicted) yields nothing -/
theorem sortKeyedL_cut (c : ECfg) (L : Lim) (asc : Bool) (items : VL) (ks : List (Except LErr Value))
    (hlen : ¬ items.length ≤ 1) {x : LErr}
    (hx : x ∈ errsOfL ks
      ++ (match Seq.keysComparable (oksOfL ks) with | some e => [LErr.base (Eval.Err.ofSeq e)] | none => [])
      ++ keyQuota c L (oksOfL ks))
    (hl : isLim x = true ∨ x = .base .outOfDomain) {y : RL (VL × Option LErr)} (hy : Tot y) :
    RelR RelS (sortKeyedL c L asc items ks) y := by
  unfold sortKeyedL
  rw [if_neg hlen]
  cases hr : sortErr (errsOfL ks
      ++ (match Seq.keysComparable (oksOfL ks) with | some e => [LErr.base (Eval.Err.ofSeq e)] | none => [])
      ++ keyQuota c L (oksOfL ks)) with
  | error e => exact RelR.nopLo (sortErr_tot _ e hr) _
  | ok r =>
    cases r with
    | none => rw [sortErr_none hr] at hx; cases hx
    | some e =>
      obtain ⟨hne, hall⟩ := sortErr_some hr
      have hxe := hall x hx
      subst hxe
      rcases hl with hl | hl
      · exact RelR.cutTot hl hy
      · exact absurd hl hne

theorem sortKeyedL_rel {lo hi : Lim} (h : Lim.le lo hi) (c : ECfg) (asc : Bool) (items : VL)
    {ks ks' : List (Except LErr Value)} (hk : RelK ks ks') :
    RelR RelS (sortKeyedL c lo asc items ks) (sortKeyedL c hi asc items ks') := by
  by_cases hlen : items.length ≤ 1
  · unfold sortKeyedL
    rw [if_pos hlen, if_pos hlen]
    exact RelR.ok (RelS.refl _)
  · rcases relK_cases hk with ⟨x, hx, hl⟩ | rfl
    · exact sortKeyedL_cut c lo asc items ks hlen (x := x) (by simp [hx]) (Or.inl hl) (sortKeyedL_tot _ _ _ _ _)
    · cases hq : keyQuota c lo (oksOfL ks) with
      | nil =>
        unfold sortKeyedL
        rw [hq, keyQuota_nil_mono h c _ hq]
        exact RelR.refl RelS.refl _
      | cons q rest =>
        have hm := keyQuota_mem c lo (oksOfL ks) q (by rw [hq]; exact List.mem_cons_self)
        exact sortKeyedL_cut c lo asc items ks hlen (x := q) (by simp [hq]) hm (sortKeyedL_tot _ _ _ _ _)

theorem keysL_rel {f g : Value → RL Value} (hf : ∀ x, RelR Eq (f x) (g x)) : ∀ xs : VL,
    RelR RelK (keysL f xs) (keysL g xs)
  | [] => RelR.ok RelK.nil
  | x :: xs => by
    unfold keysL
    apply RelR.bind (RelR.capture (hf x)); intro k k' hk
    exact RelR.bind (keysL_rel hf xs) (fun r r' hr => RelR.ok (RelK.cons hk hr))

/-! ## objects -/

theorem objSz_rel (c : ECfg) {r r' : ObjL} (h : RelO r r') : objSz c r = objSz c r' := by
  cases h <;> rfl

theorem truthyObjL_rel {r r' : ObjL} (h : RelO r r') : truthyObjL r = truthyObjL r' := by
  cases h <;> rfl

theorem isLazyL_rel {r r' : ObjL} (h : RelO r r') : isLazyL r = isLazyL r' := by
  cases h <;> rfl

theorem toVL_rel {r r' : ObjL} (h : RelO r r') : RelR Eq (toVL r) (toVL r') := by
  cases h with
  | refl o => exact RelR.refl (fun _ => rfl) _
  | lazy hs =>
    rcases hs with hs | ⟨e0, h1, _, _⟩
    · cases hs; exact RelR.refl (fun _ => rfl) _
    · simp only at h1; subst h1; exact RelR.ood _
  | ordered hs => exact RelR.ood _

theorem toIterL_rel {r r' : ObjL} (h : RelO r r') :
    (toIterL r = none ∧ toIterL r' = none) ∨ (∃ s s', toIterL r = some s ∧ toIterL r' = some s' ∧ RelS s s') := by
  cases h with
  | refl =>
    cases ho : toIterL r with
    | none => exact Or.inl ⟨rfl, rfl⟩
    | some s => exact Or.inr ⟨s, s, rfl, rfl, RelS.refl _⟩
  | lazy hs => exact Or.inr ⟨_, _, rfl, rfl, hs⟩
  | ordered hs => exact Or.inr ⟨_, _, rfl, rfl, hs⟩

theorem bindIter_rel {lo hi : Lim} (h : Lim.le lo hi) (c : ECfg) {r r' : ObjL} (hr : RelO r r') :
    RelR RelS (bindIter c lo r) (bindIter c hi r') := by
  unfold bindIter
  rw [objSz_rel c hr]
  apply RelR.bind (measure_rel h _); intro _ _ _
  cases hr with
  | refl o =>
    split
    · exact RelR.bind (limitLen_rel h _) (fun _ _ _ => RelR.ok (RelS.refl _))
    · exact RelR.bind (limitLen_rel h _) (fun _ _ _ => RelR.ok (RelS.refl _))
    · exact RelR.ok (limitLazy_rel h (RelS.refl _))
    · exact RelR.ok (limitLazy_rel h (RelS.refl _))
    · exact RelR.ok (limitLazy_rel h (RelS.refl _))
    · exact RelR.err _
  | lazy hs => exact RelR.ok (limitLazy_rel h hs)
  | ordered hs => exact RelR.ok (limitLazy_rel h hs)

/-! ## the evaluator's plumbing -/

theorem evalListL_rel {ev ev' : EvL} (h : LeEv ev ev') (C : Ctx) :
    ∀ es, RelR Eq (evalListL ev C es) (evalListL ev' C es)
  | [] => RelR.ok rfl
  | e :: es => by
    unfold evalListL
    apply RelR.bind (h C e); intro o o' ho
    apply RelR.bind (toVL_rel ho); intro v v' hv; subst hv
    exact RelR.bind (evalListL_rel h C es) (fun vs vs' hvs => by subst hvs; exact RelR.ok rfl)

inductive RelOs : List ObjL → List ObjL → Prop where
  | nil : RelOs [] []
  | cons {o o' : ObjL} {r r' : List ObjL} : RelO o o' → RelOs r r' → RelOs (o :: r) (o' :: r')

theorem evalObjsL_rel {ev ev' : EvL} (h : LeEv ev ev') (C : Ctx) :
    ∀ es, RelR RelOs (evalObjsL ev C es) (evalObjsL ev' C es)
  | [] => RelR.ok RelOs.nil
  | e :: es => by
    unfold evalObjsL
    apply RelR.bind (h C e); intro o o' ho
    exact RelR.bind (evalObjsL_rel h C es) (fun r r' hr => RelR.ok (RelOs.cons ho hr))

theorem evalPairsL_rel {ev ev' : EvL} (h : LeEv ev ev') (C : Ctx) :
    ∀ ps, RelR Eq (evalPairsL ev C ps) (evalPairsL ev' C ps)
  | [] => RelR.ok rfl
  | (k, v) :: r => by
    unfold evalPairsL
    apply RelR.bind (h C k); intro ko ko' hko
    apply RelR.bind (toVL_rel hko); intro kv kv' hkv; subst hkv
    apply RelR.bind (h C v); intro vo vo' hvo
    apply RelR.bind (toVL_rel hvo); intro vv vv' hvv; subst hvv
    exact RelR.bind (evalPairsL_rel h C r) (fun a b hab => by subst hab; exact RelR.ok rfl)

theorem lamVL_rel {ev ev' : EvL} (h : LeEv ev ev') (D : Ctx) (b : Expr) (args : VL) :
    RelR Eq (lamVL ev D b args) (lamVL ev' D b args) :=
  RelR.bind (h _ _) (fun _ _ ho => toVL_rel ho)

theorem lamBL_rel {ev ev' : EvL} (h : LeEv ev ev') (D : Ctx) (b : Expr) (args : VL) :
    RelR Eq (lamBL ev D b args) (lamBL ev' D b args) :=
  RelR.bind (h _ _) (fun _ _ ho => by rw [truthyObjL_rel ho]; exact RelR.ok rfl)

theorem lamManyL_rel {ev ev' : EvL} (h : LeEv ev ev') (D : Ctx) (b : Expr) (x : Value) :
    RelR RelS (lamManyL ev D b x) (lamManyL ev' D b x) := by
  unfold lamManyL
  apply RelR.bind (h _ _); intro o o' ho
  cases ho with
  | refl o => exact RelR.refl RelS.refl _
  | lazy hs => exact RelR.ok hs
  | ordered hs => exact RelR.ok hs

theorem withIter_rel {β β' : Type} {rp : β → β' → Prop} {lo hi : Lim} (h : Lim.le lo hi) (c : ECfg) (bad : Eval.Err)
    {r r' : ObjL} (hr : RelO r r') {pre : RL β} {pre' : RL β'} (hpre : RelR rp pre pre')
    {k : β → VL × Option LErr → RL ObjL} {k' : β' → VL × Option LErr → RL ObjL}
    (hk : ∀ a a' s s', rp a a' → RelS s s' → RelR RelO (k a s) (k' a' s')) :
    RelR RelO (withIter c lo bad r pre k) (withIter c hi bad r' pre' k') := by
  unfold withIter
  rcases toIterL_rel hr with ⟨h1, h2⟩ | ⟨s, s', h1, h2, _⟩
  · rw [h1, h2]; exact RelR.err _
  · rw [h1, h2]
    apply RelR.bind hpre; intro a a' ha
    apply RelR.bind (bindIter_rel h c hr); intro t t' ht
    exact hk a a' t t' ha ht

theorem RelR.unit {x y : RL Unit} (h : RelR (fun _ _ => True) x y) : RelR Eq x y :=
  h.mono (fun _ _ _ => rfl)

theorem pure_unit_rel : RelR (fun (_ _ : Unit) => True) (pure ()) (pure ()) := RelR.ok trivial

/-! ## operators -/

theorem withConv_rel {res : Eval.R α} {conv conv' : RL Unit} (hc : RelR (fun _ _ => True) conv conv') :
    RelR Eq (withConv res conv) (withConv res conv') := by
  unfold withConv
  cases res with
  | ok a => exact RelR.bind hc (fun _ _ _ => RelR.ok rfl)
  | error e =>
    simp only
    split
    · exact RelR.err _
    · exact RelR.bind hc (fun _ _ _ => RelR.err _)

theorem convBin_rel {lo hi : Lim} (h : Lim.le lo hi) (c : ECfg) (op : BinOp) (a b : Value) :
    RelR (fun _ _ => True) (convBin c lo op a b) (convBin c hi op a b) := by
  unfold convBin
  split
  · apply RelR.bind (measure_rel h _); intro _ _ _
    apply RelR.bind (limitLen_rel h _); intro _ _ _
    apply RelR.bind (measure_rel h _); intro _ _ _
    apply RelR.bind (limitLen_rel h _); intro _ _ _
    exact measureAll_rel h _
  · apply RelR.bind (measure_rel h _); intro _ _ _
    apply RelR.bind (measure_rel h _); intro _ _ _
    exact measureAll_rel h _
  · apply RelR.bind (measure_rel h _); intro _ _ _
    exact measure_rel h _

theorem binCall_rel {lo hi : Lim} (h : Lim.le lo hi) (c : ECfg) (op : BinOp) (a b : Value) :
    RelR Eq (binCall c lo op a b) (binCall c hi op a b) := by
  unfold binCall
  apply RelR.bind (withConv_rel (convBin_rel h c op a b)); intro r r' hr; subst hr
  exact RelR.bind (measure_rel h _) (fun _ _ _ => RelR.ok rfl)

theorem binopL_rel {lo hi : Lim} (h : Lim.le lo hi) (c : ECfg) (op : BinOp) {x x' y y' : ObjL}
    (hx : RelO x x') (hy : RelO y y') : RelR RelO (binopL c lo op x y) (binopL c hi op x' y') := by
  have key : ∀ x y : ObjL, RelR RelO (binopL c lo op x y) (binopL c hi op x y) := by
    intro x y
    unfold binopL
    split
    · exact RelR.refl RelO.refl _
    · exact RelR.refl RelO.refl _
    · split
      · exact RelR.err _
      · apply RelR.bind (RelR.refl (fun _ => rfl) (toVL x)); intro a a' ha; subst ha
        apply RelR.bind (RelR.refl (fun _ => rfl) (toVL y)); intro b b' hb; subst hb
        exact RelR.bind (binCall_rel h c op a b) (fun r r' hr => by subst hr; exact RelR.ok (RelO.refl _))
  -- a lazy operand is outside the domain on both sides
  have lazyL : ∀ (x y : ObjL), (∀ C, x ≠ .ctx C) → (∀ C, y ≠ .ctx C) → (isLazyL x || isLazyL y) = true →
      ∀ L, binopL c L op x y = .error (.base .outOfDomain) := by
    intro x y hx hy hl L
    unfold binopL
    split
    · exact absurd rfl (hx _)
    · exact absurd rfl (hy _)
    · rw [if_pos hl]
  cases hx with
  | refl x =>
    cases hy with
    | refl y => exact key x y
    | lazy hs =>
      cases x with
      | ctx C => exact RelR.refl RelO.refl _
      | _ => rw [lazyL _ _ (by intro C hc; cases hc) (by intro C hc; cases hc) (by simp [isLazyL])]; exact RelR.ood _
    | ordered hs =>
      cases x with
      | ctx C => exact RelR.refl RelO.refl _
      | _ => rw [lazyL _ _ (by intro C hc; cases hc) (by intro C hc; cases hc) (by simp [isLazyL])]; exact RelR.ood _
  | lazy hs =>
    cases hy with
    | refl y =>
      cases y with
      | ctx C => exact RelR.refl RelO.refl _
      | _ => rw [lazyL _ _ (by intro C hc; cases hc) (by intro C hc; cases hc) (by simp [isLazyL])]; exact RelR.ood _
    | _ => rw [lazyL _ _ (by intro C hc; cases hc) (by intro C hc; cases hc) (by simp [isLazyL])]; exact RelR.ood _
  | ordered hs =>
    cases hy with
    | refl y =>
      cases y with
      | ctx C => exact RelR.refl RelO.refl _
      | _ => rw [lazyL _ _ (by intro C hc; cases hc) (by intro C hc; cases hc) (by simp [isLazyL])]; exact RelR.ood _
    | _ => rw [lazyL _ _ (by intro C hc; cases hc) (by intro C hc; cases hc) (by simp [isLazyL])]; exact RelR.ood _

theorem unopL_rel {lo hi : Lim} (h : Lim.le lo hi) (c : ECfg) (op : UnOp) {x x' : ObjL} (hx : RelO x x') :
    RelR RelO (unopL c lo op x) (unopL c hi op x') := by
  cases hx with
  | refl =>
    unfold unopL
    split
    · split
      · exact RelR.err _
      · exact RelR.bind (measure_rel h _) (fun _ _ _ => RelR.ok (RelO.refl _))
    · exact RelR.err _
    · exact RelR.bind (measure_rel h _) (fun _ _ _ => RelR.ok (RelO.refl _))
    · exact RelR.err _
    · split <;> exact RelR.err _
    · exact RelR.err _
    · exact RelR.err _
  | lazy hs => cases op <;> exact RelR.ood _
  | ordered hs => cases op <;> exact RelR.ood _

theorem indexerL_rel {lo hi : Lim} (h : Lim.le lo hi) (c : ECfg) {r r' : ObjL} (hr : RelO r r') (vs : VL) :
    RelR RelO (indexerL c lo r vs) (indexerL c hi r' vs) := by
  cases hr with
  | refl =>
    unfold indexerL
    apply RelR.bind (withConv_rel (RelR.bind (measure_rel h _) (fun _ _ _ => measureEach_rel h _)))
    intro v v' hv; subst hv
    exact RelR.ok (RelO.refl _)
  | lazy hs => exact RelR.err (.base .noFunction)
  | ordered hs => exact RelR.err (.base .noFunction)

theorem memberVL_rel_flat {lo hi : Lim} (h : Lim.le lo hi) (c : ECfg) (name : Name) (x : Value) :
    RelR Eq (memberFlatL c lo name x) (memberFlatL c hi name x) := by
  unfold memberFlatL
  have h1 : RelR Eq
      (match Eval.memberV name x with
        | .error .unknownFunction => (do EvalLimits.measure lo (sizeofV c x); .error (.base .unknownFunction) : RL Value)
        | res => withConv res (EvalLimits.measure lo (sizeofV c x)))
      (match Eval.memberV name x with
        | .error .unknownFunction => (do EvalLimits.measure hi (sizeofV c x); .error (.base .unknownFunction) : RL Value)
        | res => withConv res (EvalLimits.measure hi (sizeofV c x))) := by
    split
    · exact RelR.bind (measure_rel h _) (fun _ _ _ => RelR.err _)
    · exact withConv_rel (measure_rel h _)
  apply RelR.bind h1; intro v v' hv; subst hv
  exact RelR.bind (measure_rel h _) (fun _ _ _ => RelR.ok rfl)

/-- the tail of a nested projection: stored as data, measured as the result of the call -/
theorem memberV_store_rel {lo hi : Lim} (h : Lim.le lo hi) (c : ECfg) {s s' : VL × Option LErr} (hs : RelS s s') :
    RelR Eq
      (do let v ← toVL (ObjL.lazy s.1 s.2); EvalLimits.measure lo (sizeofV c v); pure v)
      (do let v ← toVL (ObjL.lazy s'.1 s'.2); EvalLimits.measure hi (sizeofV c v); pure v) := by
  apply RelR.bind (toVL_rel (RelO.lazy (xs := s.1) (e := s.2) (ys := s'.1) (e' := s'.2) hs)); intro v v' hv; subst hv
  exact RelR.bind (measure_rel h _) (fun _ _ _ => RelR.ok rfl)

theorem memberVLs_tot (c : ECfg) (L : Lim) (name : Name) (l : VL) : Tot (memberVLs c L name l) := by
  rw [memberVLs_eq]; exact mapL_tot _ _ _

mutual
theorem memberVL_rel {lo hi : Lim} (h : Lim.le lo hi) (c : ECfg) (name : Name) :
    ∀ x : Value, RelR Eq (memberVL c lo name x) (memberVL c hi name x)
  | .tuple l => by
    rw [memberVL, memberVL]
    apply RelR.bind (measure_rel h _); intro _ _ _
    apply RelR.bind (limitLen_rel h _); intro _ _ _
    apply RelR.bind (memberVLs_rel h c name l); intro s s' hs
    exact memberV_store_rel h c hs
  | .list l => by
    rw [memberVL, memberVL]
    apply RelR.bind (measure_rel h _); intro _ _ _
    apply RelR.bind (limitLen_rel h _); intro _ _ _
    apply RelR.bind (memberVLs_rel h c name l); intro s s' hs
    exact memberV_store_rel h c hs
  | .iter l => by
    rw [memberVL, memberVL]
    apply RelR.bind (measure_rel h _); intro _ _ _
    apply RelR.bind (memberVLs_rel h c name l); intro s s' hs
    exact memberV_store_rel h c (limitLazy_rel h hs)
  | .null => by rw [memberVL, memberVL]; exact memberVL_rel_flat h c name _
  | .bool _ => by rw [memberVL, memberVL]; exact memberVL_rel_flat h c name _
  | .int _ => by rw [memberVL, memberVL]; exact memberVL_rel_flat h c name _
  | .flt _ => by rw [memberVL, memberVL]; exact memberVL_rel_flat h c name _
  | .str _ => by rw [memberVL, memberVL]; exact memberVL_rel_flat h c name _
  | .dict _ => by rw [memberVL, memberVL]; exact memberVL_rel_flat h c name _
  | .set _ => by rw [memberVL, memberVL]; exact memberVL_rel_flat h c name _
  | .host _ => by rw [memberVL, memberVL]; exact memberVL_rel_flat h c name _
theorem memberVLs_rel {lo hi : Lim} (h : Lim.le lo hi) (c : ECfg) (name : Name) :
    ∀ l : VL, RelR RelS (memberVLs c lo name l) (memberVLs c hi name l)
  | [] => by rw [memberVLs, memberVLs]; exact RelR.ok (RelS.refl _)
  | x :: xs => by
    rw [memberVLs, memberVLs]
    apply RelR.bind (RelR.capture (memberVL_rel h c name x)); intro a b hab
    rcases hab with ⟨el, rfl, hl⟩ | ⟨el, rfl, rfl⟩ | ⟨a', b', rfl, rfl, rfl⟩
    · apply RelR.cutTot hl
      cases b with
      | error er => exact Tot.pure _
      | ok v => exact Tot.bind (memberVLs_tot c hi name xs) (fun _ => Tot.pure _)
    · exact RelR.ok (RelS.refl _)
    · exact RelR.bind (memberVLs_rel h c name xs) (fun r r' hr => RelR.ok (RelS.cons a' hr))
end

theorem memberOfL_iter {lo hi : Lim} (h : Lim.le lo hi) (c : ECfg) (name : Name) {r r' : ObjL} (hr : RelO r r') :
    RelR RelO
      (do let (items, err) ← bindIter c lo r
          let s ← mapL (memberVL c lo name) items err
          pure (ObjL.lazy s.1 s.2))
      (do let (items, err) ← bindIter c hi r'
          let s ← mapL (memberVL c hi name) items err
          pure (ObjL.lazy s.1 s.2)) := by
  apply RelR.bind (bindIter_rel h c hr); intro t t' ht
  obtain ⟨xs, e⟩ := t
  obtain ⟨ys, e'⟩ := t'
  apply RelR.bind (mapL_rel (memberVL_rel h c name) xs e ys e' ht); intro s s' hs
  exact RelR.ok (RelO.lazy hs)

theorem memberOfL_rel {lo hi : Lim} (h : Lim.le lo hi) (c : ECfg) (name : Name) {r r' : ObjL} (hr : RelO r r') :
    RelR RelO (memberOfL c lo r name) (memberOfL c hi r' name) := by
  cases hr with
  | refl =>
    unfold memberOfL
    split
    · apply RelR.bind (measure_rel h _); intro _ _ _
      exact RelR.refl RelO.refl _
    · exact RelR.ood _
    · split
      · exact memberOfL_iter h c name (RelO.refl _)
      · exact RelR.bind (measure_rel h _) (fun _ _ _ => RelR.err _)
  | lazy hs => exact memberOfL_iter h c name (RelO.lazy hs)
  | ordered hs => exact memberOfL_iter h c name (RelO.ordered hs)

/-! ## `list(...)`: streams -/

theorem catS_rel {a a' b b' : VL × Option LErr} (ha : RelS a a') (hb : RelS b b') : RelS (catS a b) (catS a' b') := by
  obtain ⟨a1, a2⟩ := a
  obtain ⟨c1, c2⟩ := a'
  rcases ha with ha | ⟨e0, h1, h2, h3⟩
  · cases ha
    unfold catS
    cases a2 with
    | some e => exact RelS.refl _
    | none => exact RelS.append a1 hb
  · simp only at h1 h3
    subst h1
    unfold catS
    cases c2 with
    | some e => exact RelS.cut h2 h3 _
    | none => exact RelS.cut h2 (h3.trans (List.prefix_append _ _)) _

/-- weaker than `RelS`: a prefix whose tail is not an ordinary exception -/
def RelP (a b : VL × Option LErr) : Prop := a.1 <+: b.1 ∧ (a.2 = none ∨ ∃ e, a.2 = some e ∧ isLim e = true)

theorem catS_fst_prefix (a b : VL × Option LErr) : a.1 <+: (catS a b).1 := by
  unfold catS
  cases a.2 with
  | some e => exact List.prefix_refl _
  | none => exact List.prefix_append _ _

theorem catS_relP {a a' b b' : VL × Option LErr} (ha : RelS a a')
    (hat : a.2 = none ∨ ∃ e, a.2 = some e ∧ isLim e = true) (hb : RelP b b') : RelP (catS a b) (catS a' b') := by
  obtain ⟨a1, a2⟩ := a
  obtain ⟨c1, c2⟩ := a'
  rcases ha with ha | ⟨e0, h1, h2, h3⟩
  · cases ha
    unfold catS
    cases a2 with
    | some e =>
      rcases hat with hat | ⟨e', he', hl⟩
      · cases hat
      · cases he'; exact ⟨List.prefix_refl _, Or.inr ⟨e, rfl, hl⟩⟩
    | none => exact ⟨by simpa using hb.1, hb.2⟩
  · simp only at h1 h3
    subst h1
    refine ⟨?_, Or.inr ⟨e0, rfl, h2⟩⟩
    exact h3.trans (catS_fst_prefix (c1, c2) b')

def BLe (b b' : Option Nat) : Prop := b' = none ∨ ∃ n m, b = some n ∧ b' = some m ∧ n ≤ m

theorem BLe.pred {b b' : Option Nat} (h : BLe b b') : BLe (b.map (· - 1)) (b'.map (· - 1)) := by
  rcases h with rfl | ⟨n, m, rfl, rfl, hnm⟩
  · exact Or.inl rfl
  · exact Or.inr ⟨n - 1, m - 1, rfl, rfl, by omega⟩

theorem recItems_nil (L : Lim) (b : Option Nat) : recItems L b [] = ([], none) := by
  cases b with
  | none => rfl
  | some n => cases n <;> rfl

theorem recItems_zero (L : Lim) (x : Value) (xs : VL) : recItems L (some 0) (x :: xs) = ([], some .tooLarge) := rfl

theorem recItems_cons (L : Lim) (b : Option Nat) (hb : b ≠ some 0) (x : Value) (xs : VL) :
    recItems L b (x :: xs) = catS (recV L x) (recItems L (b.map (· - 1)) xs) := by
  cases b with
  | none => rfl
  | some n =>
    cases n with
    | zero => exact absurd rfl hb
    | succ k => rfl

mutual
theorem recV_tail (L : Lim) : ∀ v : Value, (recV L v).2 = none ∨ ∃ e, (recV L v).2 = some e ∧ isLim e = true
  | .iter l => by unfold recV; exact recItems_tail L L.N l
  | .null => Or.inl rfl
  | .bool _ => Or.inl rfl
  | .int _ => Or.inl rfl
  | .flt _ => Or.inl rfl
  | .str _ => Or.inl rfl
  | .tuple _ => Or.inl rfl
  | .list _ => Or.inl rfl
  | .dict _ => Or.inl rfl
  | .set _ => Or.inl rfl
  | .host _ => Or.inl rfl
theorem recItems_tail (L : Lim) : ∀ (b : Option Nat) (xs : VL),
    (recItems L b xs).2 = none ∨ ∃ e, (recItems L b xs).2 = some e ∧ isLim e = true
  | b, [] => by rw [recItems_nil]; exact Or.inl rfl
  | b, x :: xs => by
    by_cases hb : b = some 0
    · subst hb; exact Or.inr ⟨.tooLarge, rfl, rfl⟩
    · rw [recItems_cons L b hb]
      have h1 := recV_tail L x
      have h2 := recItems_tail L (b.map (· - 1)) xs
      unfold catS
      rcases h1 with h1 | ⟨e, h1, hl⟩
      · rw [h1]; exact h2
      · rw [h1]; exact Or.inr ⟨e, rfl, hl⟩
end

mutual
theorem recV_rel {lo hi : Lim} (h : Lim.le lo hi) : ∀ v : Value, RelS (recV lo v) (recV hi v)
  | .iter l => by unfold recV; exact recItems_rel h l lo.N hi.N h.1
  | .null => RelS.refl _
  | .bool _ => RelS.refl _
  | .int _ => RelS.refl _
  | .flt _ => RelS.refl _
  | .str _ => RelS.refl _
  | .tuple _ => RelS.refl _
  | .list _ => RelS.refl _
  | .dict _ => RelS.refl _
  | .set _ => RelS.refl _
  | .host _ => RelS.refl _
theorem recItems_rel {lo hi : Lim} (h : Lim.le lo hi) : ∀ (xs : VL) (b b' : Option Nat), BLe b b' →
    RelS (recItems lo b xs) (recItems hi b' xs)
  | [], b, b', _ => by rw [recItems_nil, recItems_nil]; exact RelS.refl _
  | x :: xs, b, b', hb => by
    by_cases h0 : b = some 0
    · subst h0; exact RelS.cut rfl List.nil_prefix _
    · have h0' : b' ≠ some 0 := by
        rcases hb with rfl | ⟨n, m, rfl, rfl, hnm⟩
        · intro hc; cases hc
        · intro hc; cases hc; apply h0; congr; omega
      rw [recItems_cons lo b h0, recItems_cons hi b' h0']
      exact catS_rel (recV_rel h x) (recItems_rel h xs _ _ hb.pred)
end

theorem recItems_prefix {lo hi : Lim} (h : Lim.le lo hi) : ∀ (xs ys : VL) (b b' : Option Nat), xs <+: ys → BLe b b' →
    RelP (recItems lo b xs) (recItems hi b' ys)
  | [], ys, b, b', _, _ => by rw [recItems_nil]; exact ⟨List.nil_prefix, Or.inl rfl⟩
  | x :: xs, ys, b, b', hp, hb => by
    obtain ⟨t, rfl⟩ := hp
    by_cases h0 : b = some 0
    · subst h0; exact ⟨List.nil_prefix, Or.inr ⟨.tooLarge, rfl, rfl⟩⟩
    · have h0' : b' ≠ some 0 := by
        rcases hb with rfl | ⟨n, m, rfl, rfl, hnm⟩
        · intro hc; cases hc
        · intro hc; cases hc; apply h0; congr; omega
      rw [recItems_cons lo b h0, List.cons_append, recItems_cons hi b' h0']
      exact catS_relP (recV_rel h x) (recV_tail lo x) (recItems_prefix h xs (xs ++ t) _ _ (List.prefix_append _ _) hb.pred)

theorem listArgL_rel {lo hi : Lim} (h : Lim.le lo hi) {o o' : ObjL} (ho : RelO o o') :
    RelS (listArgL lo o) (listArgL hi o') := by
  have lazyCase : ∀ (xs : VL) (e : Option LErr) (ys : VL) (e' : Option LErr), RelS (xs, e) (ys, e') →
      RelS (catS (recItems lo none (limitLazy lo (xs, e)).1) ([], (limitLazy lo (xs, e)).2))
        (catS (recItems hi none (limitLazy hi (ys, e')).1) ([], (limitLazy hi (ys, e')).2)) := by
    intro xs e ys e' hs
    have hl := limitLazy_rel h hs
    generalize limitLazy lo (xs, e) = s at hl
    generalize limitLazy hi (ys, e') = s' at hl
    obtain ⟨s1, s2⟩ := s
    obtain ⟨t1, t2⟩ := s'
    rcases hl with hl | ⟨e0, h1, h2, h3⟩
    · cases hl
      exact catS_rel (recItems_rel h s1 none none (Or.inl rfl)) (RelS.refl _)
    · simp only at h1 h3
      subst h1
      have hp := recItems_prefix h s1 t1 none none h3 (Or.inl rfl)
      -- the `lo` stream ends in a limit exception whatever happens
      refine Or.inr ?_
      have hfst : (catS (recItems lo none s1) ([], some e0)).1 = (recItems lo none s1).1 := by
        unfold catS; cases (recItems lo none s1).2 <;> simp
      have hsnd : ∃ e1, (catS (recItems lo none s1) ([], some e0)).2 = some e1 ∧ isLim e1 = true := by
        unfold catS
        rcases hp.2 with hn | ⟨e1, he1, hl1⟩
        · rw [hn]; exact ⟨e0, rfl, h2⟩
        · rw [he1]; exact ⟨e1, rfl, hl1⟩
      obtain ⟨e1, he1, hl1⟩ := hsnd
      exact ⟨e1, he1, hl1, by rw [hfst]; exact hp.1.trans (catS_fst_prefix _ _)⟩
  cases ho with
  | refl =>
    unfold listArgL
    split
    · exact lazyCase _ _ _ _ (RelS.refl _)
    · exact recV_rel h _
    · exact RelS.refl _
  | lazy hs => exact lazyCase _ _ _ _ hs
  | ordered hs => exact RelS.refl _

inductive RelSs : List (VL × Option LErr) → List (VL × Option LErr) → Prop where
  | nil : RelSs [] []
  | cons {s s' : VL × Option LErr} {r r' : List (VL × Option LErr)} : RelS s s' → RelSs r r' → RelSs (s :: r) (s' :: r')

theorem listArgsL_rel {lo hi : Lim} (h : Lim.le lo hi) {os os' : List ObjL} (ho : RelOs os os') :
    RelSs (os.map (listArgL lo)) (os'.map (listArgL hi)) := by
  induction ho with
  | nil => exact RelSs.nil
  | cons h1 _ ih => exact RelSs.cons (listArgL_rel h h1) ih

theorem catStreams_rel {ps ps' : List (VL × Option LErr)} (h : RelSs ps ps') : RelS (catStreams ps) (catStreams ps') := by
  induction h with
  | nil => exact RelS.refl _
  | cons h1 _ ih => exact catS_rel h1 ih

theorem objSzs_rel (c : ECfg) {os os' : List ObjL} (h : RelOs os os') : os.map (objSz c) = os'.map (objSz c) := by
  induction h with
  | nil => rfl
  | cons h1 _ ih => simp only [List.map_cons, objSz_rel c h1, ih]

/-! ## `dict(items)` -/

theorem dictItemsL_rel {lo hi : Lim} (h : Lim.le lo hi) (c : ECfg) : ∀ (xs : VL) (acc : KV),
    RelR Eq (dictItemsL c lo acc xs) (dictItemsL c hi acc xs)
  | [], acc => RelR.ok rfl
  | it :: r, acc => by
    unfold dictItemsL
    apply RelR.bind (RelR.refl (fun _ => rfl) _); intro p p' hp; subst hp
    apply RelR.bind (measure_rel h _); intro _ _ _
    apply RelR.bind (dictItemsL_rel h c r _); intro rest rest' hr; subst hr
    exact RelR.ok rfl

/-- the items of a source that the limiter cut: the `lo` side never raises a definite exception -/
theorem hideBase_cut {x : RL α} {e : LErr} (he : isLim e = true) (y : RL ObjL) :
    RelR RelO (do let _ ← hideBase x; (.error e : RL ObjL)) y := by
  cases x with
  | ok a => exact RelR.lim he _
  | error e' =>
    cases e' with
    | base b => exact RelR.ood _
    | quota => exact RelR.quota _
    | tooLarge => exact RelR.tooLarge _

/-! ## methods -/

theorem RelS.mk' {s s' : VL × Option LErr} (h : RelS s s') : RelS (s.1, s.2) (s'.1, s'.2) := h

theorem orderByK_rel {lo hi : Lim} (h : Lim.le lo hi) (c : ECfg) {ev ev' : EvL} (hev : LeEv ev ev') (C : Ctx)
    (l : Expr) (asc : Bool) {s s' : VL × Option LErr} (hs : RelS s s') :
    RelR RelO
      (match s.2 with
        | some er => (pure (ObjL.ordered [] (some er)) : RL ObjL)
        | none => do
          let ks ← if s.1.length ≤ 1 then pure [] else keysL (fun x => lamVL ev C l [x]) s.1
          let t ← sortKeyedL c lo asc s.1 ks
          pure (ObjL.ordered t.1 t.2))
      (match s'.2 with
        | some er => (pure (ObjL.ordered [] (some er)) : RL ObjL)
        | none => do
          let ks ← if s'.1.length ≤ 1 then pure [] else keysL (fun x => lamVL ev' C l [x]) s'.1
          let t ← sortKeyedL c hi asc s'.1 ks
          pure (ObjL.ordered t.1 t.2)) := by
  obtain ⟨xs, e⟩ := s
  obtain ⟨ys, e'⟩ := s'
  rcases hs with hs | ⟨e0, h1, h2, h3⟩
  · cases hs
    cases e with
    | some er => exact RelR.ok (RelO.refl _)
    | none =>
      simp only
      by_cases hlen : xs.length ≤ 1
      · simp only [if_pos hlen]
        apply RelR.bind (RelR.ok (ra := RelK) RelK.nil); intro ks ks' hk
        apply RelR.bind (sortKeyedL_rel h c asc xs hk); intro t t' ht
        exact RelR.ok (RelO.ordered ht)
      · simp only [if_neg hlen]
        apply RelR.bind (keysL_rel (fun x => lamVL_rel hev _ _ _) xs); intro ks ks' hk
        apply RelR.bind (sortKeyedL_rel h c asc xs hk); intro t t' ht
        exact RelR.ok (RelO.ordered ht)
  · simp only at h1 h3
    subst h1
    simp only
    cases e' with
    | some er => exact RelR.ok (RelO.ordered (RelS.cut h2 List.nil_prefix _))
    | none =>
      simp only
      have fin : ∀ ks, RelR RelO (.ok (ObjL.ordered [] (some e0)))
          (do let t ← sortKeyedL c hi asc ys ks; pure (ObjL.ordered t.1 t.2)) := by
        intro ks
        cases ht : sortKeyedL c hi asc ys ks with
        | error e2 => exact RelR.nopHi (sortKeyedL_tot _ _ _ _ _ e2 ht) _
        | ok t => exact RelR.ok (RelO.ordered (RelS.cut h2 List.nil_prefix _))
      by_cases hlen : ys.length ≤ 1
      · simp only [if_pos hlen]
        exact fin []
      · simp only [if_neg hlen]
        cases hk : keysL (fun x => lamVL ev' C l [x]) ys with
        | error e1 => exact RelR.nopHi (keysL_tot _ _ e1 hk) _
        | ok ks => exact fin ks

theorem foldHead_rel {f g : Value → Value → RL Value} (hf : ∀ a x, RelR Eq (f a x) (g a x))
    {s s' : VL × Option LErr} (hs : RelS s s') :
    RelR RelO
      (match s.1, s.2 with
        | [], none => (.error (.base .type) : RL ObjL)
        | [], some er => .error er
        | x :: xs, e => do let v ← foldL f x xs e; pure (.val v))
      (match s'.1, s'.2 with
        | [], none => (.error (.base .type) : RL ObjL)
        | [], some er => .error er
        | x :: xs, e => do let v ← foldL g x xs e; pure (.val v)) := by
  obtain ⟨xs, e⟩ := s
  obtain ⟨ys, e'⟩ := s'
  cases xs with
  | nil =>
    rcases hs.nil with ⟨rfl, rfl⟩ | ⟨e0, rfl, hl⟩
    · cases e' <;> exact RelR.err _
    · exact RelR.lim hl _
  | cons x xs =>
    obtain ⟨ys', rfl, hs'⟩ := hs.uncons
    simp only
    exact RelR.bind (foldL_rel hf xs x e ys' e' hs') (fun v v' hv => by subst hv; exact RelR.ok (RelO.refl _))

theorem take_relS {xs ys : VL} {e e' : Option LErr} (hs : RelS (xs, e) (ys, e')) (n : Nat) :
    RelS (xs.take n, if n ≤ xs.length then none else e) (ys.take n, if n ≤ ys.length then none else e') := by
  rcases hs with hs | ⟨e0, h1, h2, h3⟩
  · cases hs; exact RelS.refl _
  · simp only at h1 h3
    subst h1
    obtain ⟨t, rfl⟩ := h3
    by_cases hn : n ≤ xs.length
    · have hn' : n ≤ (xs ++ t).length := by simp only [List.length_append]; omega
      rw [if_pos hn, if_pos hn', List.take_append_of_le_length hn]
      exact RelS.refl _
    · rw [if_neg hn, List.take_of_length_le (by omega)]
      refine RelS.cut h2 ?_ _
      rw [List.prefix_take_iff]
      exact ⟨List.prefix_append _ _, by omega⟩

theorem drop_relS {xs ys : VL} {e e' : Option LErr} (hs : RelS (xs, e) (ys, e')) (n : Nat) :
    RelS (xs.drop n, e) (ys.drop n, e') := by
  rcases hs with hs | ⟨e0, h1, h2, h3⟩
  · cases hs; exact RelS.refl _
  · simp only at h1 h3
    subst h1
    obtain ⟨t, rfl⟩ := h3
    refine RelS.cut h2 ?_ _
    rw [List.drop_append]
    exact List.prefix_append _ _

theorem intArg_rel {ev ev' : EvL} (hev : LeEv ev ev') (C : Ctx) (bad : Eval.Err) (n : Expr) :
    RelR Eq (do let no ← ev C n; intArg bad no) (do let no ← ev' C n; intArg bad no) := by
  apply RelR.bind (hev C n); intro no no' hno
  cases hno with
  | refl => exact RelR.refl (fun _ => rfl) _
  | lazy hs => exact RelR.ood _
  | ordered hs => exact RelR.ood _

theorem toVpre_rel {ev ev' : EvL} (hev : LeEv ev ev') (C : Ctx) (e : Expr) :
    RelR Eq (do let o ← ev C e; toVL o) (do let o ← ev' C e; toVL o) :=
  RelR.bind (hev C e) (fun _ _ ho => toVL_rel ho)

theorem unpackNames_rel {ev ev' : EvL} (hev : LeEv ev ev') (C : Ctx) (bad : Eval.Err) (names : List Expr) :
    RelR Eq (unpackNames ev C bad names) (unpackNames ev' C bad names) := by
  unfold unpackNames
  split
  · exact RelR.err _
  · apply RelR.bind (evalListL_rel hev C names); intro ns ns' hns; subst hns
    exact RelR.refl (fun _ => rfl) _

theorem unpackK_rel {lo hi : Lim} (h : Lim.le lo hi) (c : ECfg) (C : Ctx) (nm : VL × List Name)
    {s s' : VL × Option LErr} (hs : RelS s s') :
    RelR RelO
      (do measureEach lo (nm.1.map (sizeofV c))
          match (if nm.2.length = 0 || s.1.length < nm.2.length + 1 then s.2 else none) with
          | some er => (.error er : RL ObjL)
          | none =>
            if nm.2.length = 0 then pure (.ctx ({ vars := Eval.bindNamed [] (Eval.bindPos 1 s.1) } :: C))
            else if (s.1.take (nm.2.length + 1)).length != nm.2.length then .error (.base .value)
            else pure (.ctx ({ vars := Eval.bindNamed [] (nm.2.zip s.1) } :: C)))
      (do measureEach hi (nm.1.map (sizeofV c))
          match (if nm.2.length = 0 || s'.1.length < nm.2.length + 1 then s'.2 else none) with
          | some er => (.error er : RL ObjL)
          | none =>
            if nm.2.length = 0 then pure (.ctx ({ vars := Eval.bindNamed [] (Eval.bindPos 1 s'.1) } :: C))
            else if (s'.1.take (nm.2.length + 1)).length != nm.2.length then .error (.base .value)
            else pure (.ctx ({ vars := Eval.bindNamed [] (nm.2.zip s'.1) } :: C))) := by
  apply RelR.bind (measureEach_rel h _); intro _ _ _
  obtain ⟨xs, e⟩ := s
  obtain ⟨ys, e'⟩ := s'
  rcases hs with hs | ⟨e0, h1, h2, h3⟩
  · cases hs; exact RelR.refl RelO.refl _
  · simp only at h1 h3
    subst h1
    simp only
    by_cases hc : (decide (nm.2.length = 0) || decide (xs.length < nm.2.length + 1)) = true
    · rw [if_pos hc]; exact RelR.lim h2 _
    · rw [if_neg hc]
      simp only
      have hn : ¬ nm.2.length = 0 := fun hn => hc (by simp [hn])
      have hlen : ¬ xs.length < nm.2.length + 1 := fun hl => hc (by simp [hl])
      have hys : ¬ ys.length < nm.2.length + 1 := by
        have := h3.length_le
        omega
      have hc' : ¬ (decide (nm.2.length = 0) || decide (ys.length < nm.2.length + 1)) = true := by simp [hn, hys]
      rw [if_neg hn, if_neg hc']
      simp only
      rw [if_neg hn]
      have e1 : (xs.take (nm.2.length + 1)).length = nm.2.length + 1 := by
        rw [List.length_take]; omega
      have e2 : (ys.take (nm.2.length + 1)).length = nm.2.length + 1 := by
        rw [List.length_take]; omega
      have b1 : ((xs.take (nm.2.length + 1)).length != nm.2.length) = true := by
        rw [e1]; simp
      have b2 : ((ys.take (nm.2.length + 1)).length != nm.2.length) = true := by
        rw [e2]; simp
      rw [if_pos b1, if_pos b2]
      exact RelR.err _

theorem firstK_rel {s s' : VL × Option LErr} (hs : RelS s s') {d d' : ObjL} (hd : RelO d d') :
    RelR RelO
      (match s.1, s.2 with
        | x :: _, _ => (pure (.val x) : RL ObjL)
        | [], some er => .error er
        | [], none => pure d)
      (match s'.1, s'.2 with
        | x :: _, _ => (pure (.val x) : RL ObjL)
        | [], some er => .error er
        | [], none => pure d') := by
  obtain ⟨xs, e⟩ := s
  obtain ⟨ys, e'⟩ := s'
  cases xs with
  | nil =>
    rcases hs.nil with ⟨rfl, rfl⟩ | ⟨e0, rfl, hl⟩
    · cases e' with
      | none => exact RelR.ok hd
      | some er => exact RelR.err _
    · exact RelR.lim hl _
  | cons x xs =>
    obtain ⟨ys', rfl, _⟩ := hs.uncons
    exact RelR.ok (RelO.refl _)

theorem first0K_rel {s s' : VL × Option LErr} (hs : RelS s s') :
    RelR RelO
      (match s.1, s.2 with
        | x :: _, _ => (pure (.val x) : RL ObjL)
        | [], some er => .error er
        | [], none => .error (.base .stopIteration))
      (match s'.1, s'.2 with
        | x :: _, _ => (pure (.val x) : RL ObjL)
        | [], some er => .error er
        | [], none => .error (.base .stopIteration)) := by
  obtain ⟨xs, e⟩ := s
  obtain ⟨ys, e'⟩ := s'
  cases xs with
  | nil =>
    rcases hs.nil with ⟨rfl, rfl⟩ | ⟨e0, rfl, hl⟩
    · cases e' <;> exact RelR.err _
    · exact RelR.lim hl _
  | cons x xs =>
    obtain ⟨ys', rfl, _⟩ := hs.uncons
    exact RelR.ok (RelO.refl _)

theorem callMethodL_rel {lo hi : Lim} (h : Lim.le lo hi) (c : ECfg) {ev ev' : EvL} (hev : LeEv ev ev') (C : Ctx)
    (bad : Eval.Err) {r r' : ObjL} (hr : RelO r r') (f : Fn) (args : List Expr) :
    RelR RelO (callMethodL c lo ev C bad r f args) (callMethodL c hi ev' C bad r' f args) := by
  unfold callMethodL
  split
  · -- select
    apply withIter_rel h c bad hr pure_unit_rel; intro _ _ s s' _ hs
    apply RelR.bind (mapL_rel (fun x => lamVL_rel hev _ _ _) s.1 s.2 s'.1 s'.2 hs); intro t t' ht
    exact RelR.ok (RelO.lazy ht)
  · -- where
    apply withIter_rel h c bad hr pure_unit_rel; intro _ _ s s' _ hs
    apply RelR.bind (filterL_rel (fun x => lamBL_rel hev _ _ _) s.1 s.2 s'.1 s'.2 hs); intro t t' ht
    exact RelR.ok (RelO.lazy ht)
  · -- selectMany
    apply withIter_rel h c bad hr pure_unit_rel; intro _ _ s s' _ hs
    apply RelR.bind (flatMapL_rel (fun x => lamManyL_rel hev _ _ _) s.1 s.2 s'.1 s'.2 hs); intro t t' ht
    exact RelR.ok (RelO.lazy ht)
  · -- takeWhile
    apply withIter_rel h c bad hr pure_unit_rel; intro _ _ s s' _ hs
    apply RelR.bind (takeWhileL_rel (fun x => lamBL_rel hev _ _ _) s.1 s.2 s'.1 s'.2 hs); intro t t' ht
    exact RelR.ok (RelO.lazy ht)
  · -- skipWhile
    apply withIter_rel h c bad hr pure_unit_rel; intro _ _ s s' _ hs
    apply RelR.bind (dropWhileL_rel (fun x => lamBL_rel hev _ _ _) s.1 s.2 s'.1 s'.2 hs); intro t t' ht
    exact RelR.ok (RelO.lazy ht)
  · -- orderBy
    apply withIter_rel h c bad hr pure_unit_rel; intro _ _ s s' _ hs
    exact orderByK_rel h c hev C _ true hs
  · -- orderByDescending
    apply withIter_rel h c bad hr pure_unit_rel; intro _ _ s s' _ hs
    exact orderByK_rel h c hev C _ false hs
  · -- any()
    apply withIter_rel h c bad hr pure_unit_rel; intro _ _ s s' _ hs
    apply RelR.bind (findL_rel (fun _ => RelR.ok rfl) s.1 0 s.2 s'.1 s'.2 hs); intro t t' ht; subst ht
    exact RelR.ok (RelO.refl _)
  · -- any(p)
    apply withIter_rel h c bad hr pure_unit_rel; intro _ _ s s' _ hs
    apply RelR.bind (findL_rel (fun x => lamBL_rel hev _ _ _) s.1 0 s.2 s'.1 s'.2 hs); intro t t' ht; subst ht
    exact RelR.ok (RelO.refl _)
  · -- all()
    apply withIter_rel h c bad hr pure_unit_rel; intro _ _ s s' _ hs
    apply RelR.bind (findL_rel (fun _ => RelR.ok rfl) s.1 0 s.2 s'.1 s'.2 hs); intro t t' ht; subst ht
    exact RelR.ok (RelO.refl _)
  · -- all(p)
    apply withIter_rel h c bad hr pure_unit_rel; intro _ _ s s' _ hs
    apply RelR.bind (findL_rel (fun x => RelR.bind (lamBL_rel hev _ _ _) (fun b b' hb => by subst hb; exact RelR.ok rfl))
      s.1 0 s.2 s'.1 s'.2 hs); intro t t' ht; subst ht
    exact RelR.ok (RelO.refl _)
  · -- indexWhere
    apply withIter_rel h c bad hr pure_unit_rel; intro _ _ s s' _ hs
    apply RelR.bind (findL_rel (fun x => lamBL_rel hev _ _ _) s.1 0 s.2 s'.1 s'.2 hs); intro t t' ht; subst ht
    exact RelR.ok (RelO.refl _)
  · -- toDict(k)
    apply withIter_rel h c bad hr pure_unit_rel; intro _ _ s s' _ hs
    apply RelR.bind (toDictL_rel h c (fun x => lamVL_rel hev _ _ _) (fun _ => RelR.ok rfl) s.1 [] s.2 s'.1 s'.2 hs)
    intro t t' ht; subst ht
    exact RelR.ok (RelO.refl _)
  · -- toDict(k, v)
    apply withIter_rel h c bad hr pure_unit_rel; intro _ _ s s' _ hs
    apply RelR.bind (toDictL_rel h c (fun x => lamVL_rel hev _ _ _) (fun x => lamVL_rel hev _ _ _) s.1 [] s.2 s'.1 s'.2 hs)
    intro t t' ht; subst ht
    exact RelR.ok (RelO.refl _)
  · -- aggregate(f)
    apply withIter_rel h c bad hr pure_unit_rel; intro _ _ s s' _ hs
    exact foldHead_rel (fun a b => lamVL_rel hev _ _ _) hs
  · -- aggregate(f, seed)
    apply withIter_rel h c bad hr (toVpre_rel hev C _); intro sd sd' s s' hsd hs; subst hsd
    apply RelR.bind (measure_rel h _); intro _ _ _
    apply RelR.bind (foldL_rel (fun a b => lamVL_rel hev _ _ _) s.1 sd s.2 s'.1 s'.2 hs); intro v v' hv; subst hv
    exact RelR.ok (RelO.refl _)
  · -- sum()
    apply withIter_rel h c bad hr pure_unit_rel; intro _ _ s s' _ hs
    exact foldHead_rel (fun a b => binCall_rel h c .add a b) hs
  · -- sum(init)
    apply withIter_rel h c bad hr (toVpre_rel hev C _); intro sd sd' s s' hsd hs; subst hsd
    apply RelR.bind (measure_rel h _); intro _ _ _
    apply RelR.bind (foldL_rel (fun a b => binCall_rel h c .add a b) s.1 sd s.2 s'.1 s'.2 hs); intro v v' hv; subst hv
    exact RelR.ok (RelO.refl _)
  · -- first()
    apply withIter_rel h c bad hr pure_unit_rel; intro _ _ s s' _ hs
    exact first0K_rel hs
  · -- first(default)
    apply withIter_rel h c bad hr (hev C _); intro d d' s s' hd hs
    rw [objSz_rel c hd]
    apply RelR.bind (measure_rel h _); intro _ _ _
    exact firstK_rel hs hd
  · -- toList
    apply withIter_rel h c bad hr pure_unit_rel; intro _ _ s s' _ hs
    apply RelR.bind (drain_rel hs); intro xs xs' hxs; subst hxs
    exact RelR.ok (RelO.refl _)
  · -- take
    apply withIter_rel h c bad hr (intArg_rel hev C bad _); intro k k' s s' hk hs; subst hk
    apply RelR.bind (measure_rel h _); intro _ _ _
    split
    · exact RelR.err _
    · exact RelR.ok (RelO.lazy (take_relS hs.mk' _))
  · -- skip
    apply withIter_rel h c bad hr (intArg_rel hev C bad _); intro k k' s s' hk hs; subst hk
    apply RelR.bind (measure_rel h _); intro _ _ _
    split
    · exact RelR.err _
    · exact RelR.ok (RelO.lazy (drop_relS hs.mk' _))
  · -- len
    cases hr with
    | refl =>
      split
      · exact RelR.bind (measure_rel h _) (fun _ _ _ => RelR.ok (RelO.refl _))
      · exact RelR.bind (measure_rel h _) (fun _ _ _ => RelR.ok (RelO.refl _))
      · apply RelR.bind (bindIter_rel h c (RelO.refl _)); intro s s' hs
        exact RelR.bind (drain_rel hs) (fun l l' hl => by subst hl; exact RelR.ok (RelO.refl _))
      · apply RelR.bind (bindIter_rel h c (RelO.refl _)); intro s s' hs
        exact RelR.bind (drain_rel hs) (fun l l' hl => by subst hl; exact RelR.ok (RelO.refl _))
      · exact RelR.bind (measure_rel h _) (fun _ _ _ => RelR.ok (RelO.refl _))
      · exact RelR.bind (measure_rel h _) (fun _ _ _ => RelR.ok (RelO.refl _))
      · exact RelR.err _
      · exact RelR.err _
    | lazy hs =>
      apply RelR.bind (bindIter_rel h c (RelO.lazy hs)); intro s s' hs'
      exact RelR.bind (drain_rel hs') (fun l l' hl => by subst hl; exact RelR.ok (RelO.refl _))
    | ordered hs => exact RelR.err _
  · -- get(k)
    cases hr with
    | refl =>
      split
      · apply RelR.bind (hev C _); intro ko ko' hko
        apply RelR.bind (toVL_rel hko); intro kv kv' hkv; subst hkv
        apply RelR.bind (measure_rel h _); intro _ _ _
        apply RelR.bind (measure_rel h _); intro _ _ _
        exact RelR.refl RelO.refl _
      · exact RelR.err _
    | lazy hs => exact RelR.err _
    | ordered hs => exact RelR.err _
  · -- get(k, default)
    cases hr with
    | refl =>
      split
      · apply RelR.bind (hev C _); intro ko ko' hko
        apply RelR.bind (toVL_rel hko); intro kv kv' hkv; subst hkv
        apply RelR.bind (hev C _); intro dobj dobj' hd
        apply RelR.bind (toVL_rel hd); intro dv dv' hdv; subst hdv
        apply RelR.bind (measure_rel h _); intro _ _ _
        apply RelR.bind (measure_rel h _); intro _ _ _
        apply RelR.bind (measure_rel h _); intro _ _ _
        exact RelR.refl RelO.refl _
      · exact RelR.err _
    | lazy hs => exact RelR.err _
    | ordered hs => exact RelR.err _
  · -- unpack
    apply withIter_rel h c bad hr (unpackNames_rel hev C bad _); intro nm nm' s s' hnm hs; subst hnm
    exact unpackK_rel h c C nm hs
  all_goals exact RelR.err _

/-! ## functions, nodes, the interpreter -/

theorem fnAsMethod_rel {lo hi : Lim} (h : Lim.le lo hi) (c : ECfg) {ev ev' : EvL} (hev : LeEv ev ev') (C : Ctx)
    (b : Bool) (recv : Expr) (f : Fn) (rest : List Expr) :
    RelR RelO
      (if (!b) = true then .error (.base .noFunction)
        else do let r ← ev C recv; callMethodL c lo ev C .noFunction r f rest)
      (if (!b) = true then .error (.base .noFunction)
        else do let r ← ev' C recv; callMethodL c hi ev' C .noFunction r f rest) := by
  cases b with
  | false => exact RelR.err _
  | true =>
    simp only [Bool.not_true, Bool.false_eq_true, if_false]
    apply RelR.bind (hev C _); intro r r' hr
    exact callMethodL_rel h c hev C _ hr _ _

theorem callFnL_rel {lo hi : Lim} (h : Lim.le lo hi) (c : ECfg) {ev ev' : EvL} (hev : LeEv ev ev') (C : Ctx)
    (f : Fn) (args : List Expr) (kw : List (Expr × Expr)) :
    RelR RelO (callFnL c lo ev C f args kw) (callFnL c hi ev' C f args kw) := by
  unfold callFnL
  split
  · -- let
    apply RelR.bind (RelR.refl (fun _ => rfl) _); intro names names' hn; subst hn
    apply RelR.bind (evalListL_rel hev C _); intro vs vs' hvs; subst hvs
    apply RelR.bind (evalListL_rel hev C _); intro kvs kvs' hkvs; subst hkvs
    apply RelR.bind (measureEach_rel h _); intro _ _ _
    apply RelR.bind (measureEach_rel h _); intro _ _ _
    exact RelR.ok (RelO.refl _)
  · -- with
    split
    · exact RelR.refl RelO.refl _
    · apply RelR.bind (evalListL_rel hev C _); intro vs vs' hvs; subst hvs
      apply RelR.bind (measureEach_rel h _); intro _ _ _
      exact RelR.ok (RelO.refl _)
  · -- def
    split
    · exact RelR.err _
    · split
      · apply RelR.bind (hev C _); intro no no' hno
        cases hno with
        | refl =>
          split
          · exact RelR.bind (measure_rel h _) (fun _ _ _ => RelR.ok (RelO.refl _))
          · exact RelR.refl RelO.refl _
        | lazy hs => exact RelR.ood _
        | ordered hs => exact RelR.ood _
      · exact RelR.err _
  · -- list
    split
    · exact RelR.err _
    · apply RelR.bind (evalObjsL_rel hev C _); intro os os' hos
      rw [objSzs_rel c hos]
      apply RelR.bind (measureEach_rel h _); intro _ _ _
      apply RelR.bind (measure_rel h _); intro _ _ _
      apply RelR.bind (drain_rel (limitLazy_rel h (catStreams_rel (listArgsL_rel h hos)))); intro xs xs' hxs; subst hxs
      exact RelR.ok (RelO.refl _)
  · -- dict
    split
    · apply RelR.bind (evalPairsL_rel hev C _); intro ps ps' hps; subst hps
      apply RelR.bind (measureAll_rel h _); intro _ _ _
      exact RelR.refl RelO.refl _
    · apply RelR.bind (hev C _); intro o o' ho
      rcases toIterL_rel ho with ⟨h1, h2⟩ | ⟨t, t', h1, h2, _⟩
      · rw [h1, h2]; exact RelR.err _
      · rw [h1, h2]
        simp only
        apply RelR.bind (bindIter_rel h c ho); intro s s' hs
        obtain ⟨xs, tl⟩ := s
        obtain ⟨ys, tl'⟩ := s'
        rcases hs with hs | ⟨e0, h3, h4, h5⟩
        · cases hs
          match tl with
          | some (.base b) => exact RelR.err _
          | some .quota => exact hideBase_cut rfl _
          | some .tooLarge => exact hideBase_cut rfl _
          | none =>
            apply RelR.bind (dictItemsL_rel h c xs []); intro ps ps' hps; subst hps
            exact RelR.refl RelO.refl _
        · simp only at h3 h5
          subst h3
          cases e0 with
          | base b => cases h4
          | quota => exact hideBase_cut rfl _
          | tooLarge => exact hideBase_cut rfl _
    · exact RelR.err _
  -- len / any / all as functions; everything else is a method only
  all_goals first
    | exact RelR.err _
    | (split
       · exact RelR.err _
       · split
         · exact RelR.err _
         · exact fnAsMethod_rel h c hev C _ _ _ _)

theorem rawL_rel {lo hi : Lim} (h : Lim.le lo hi) (c : ECfg) {ev ev' : EvL} (hev : LeEv ev ev') (C : Ctx) (e : Expr) :
    RelR RelO (rawL c lo ev C e) (rawL c hi ev' C e) := by
  unfold rawL
  split
  · exact RelR.ok (RelO.refl _)
  · exact RelR.ok (RelO.refl _)
  · exact RelR.refl RelO.refl _
  · -- [..]
    apply RelR.bind (evalListL_rel hev C _); intro vs vs' hvs; subst hvs
    apply RelR.bind (measureEach_rel h _); intro _ _ _
    apply RelR.bind (measureAll_rel h _); intro _ _ _
    exact RelR.ok (RelO.refl _)
  · -- {..}
    apply RelR.bind (evalPairsL_rel hev C _); intro ps ps' hps; subst hps
    apply RelR.bind (measureAll_rel h _); intro _ _ _
    exact RelR.refl RelO.refl _
  · -- e[..]
    split
    · apply RelR.bind (hev C _); intro r r' hr
      apply RelR.bind (evalListL_rel hev C _); intro vs vs' hvs; subst hvs
      exact indexerL_rel h c hr vs
    · exact RelR.err _
  · -- unary
    apply RelR.bind (hev C _); intro r r' hr
    exact unopL_rel h c _ hr
  · -- and
    apply RelR.bind (hev C _); intro x x' hx
    rw [truthyObjL_rel hx]
    split
    · exact hev C _
    · exact RelR.ok hx
  · -- or
    apply RelR.bind (hev C _); intro x x' hx
    rw [truthyObjL_rel hx]
    split
    · exact RelR.ok hx
    · exact hev C _
  · -- strict binary
    split
    · apply RelR.bind (hev C _); intro x x' hx
      apply RelR.bind (hev C _); intro y y' hy
      exact binopL_rel h c _ hx hy
    · exact RelR.err _
  · -- ->
    apply RelR.bind (hev C _); intro cx cx' hcx
    cases hcx with
    | refl =>
      split
      · apply RelR.bind (measure_rel h _); intro _ _ _
        exact hev _ _
      · exact RelR.err _
    | lazy hs => exact RelR.err _
    | ordered hs => exact RelR.err _
  · -- member
    apply RelR.bind (hev C _); intro r r' hr
    exact memberOfL_rel h c _ hr
  · exact callFnL_rel h c hev C _ _ _
  · -- def-ined function
    split
    · exact RelR.err _
    · apply RelR.bind (RelR.refl (fun _ => rfl) _); intro names names' hn; subst hn
      apply RelR.bind (evalListL_rel hev C _); intro vs vs' hvs; subst hvs
      apply RelR.bind (evalListL_rel hev C _); intro kvs kvs' hkvs; subst hkvs
      apply RelR.bind (measureEach_rel h _); intro _ _ _
      apply RelR.bind (measureEach_rel h _); intro _ _ _
      exact hev _ _
  · -- method
    apply RelR.bind (hev C _); intro r r' hr
    split
    · exact RelR.err _
    · rw [objSz_rel c hr]
      apply RelR.bind (measure_rel h _); intro _ _ _
      exact callMethodL_rel h c hev C _ hr _ _
  · -- unknown method
    apply RelR.bind (hev C _); intro r r' hr
    rw [objSz_rel c hr]
    apply RelR.bind (measure_rel h _); intro _ _ _
    exact RelR.err _

theorem stepL_rel {lo hi : Lim} (h : Lim.le lo hi) (c : ECfg) {ev ev' : EvL} (hev : LeEv ev ev') :
    LeEv (stepL c lo ev) (stepL c hi ev') := by
  intro C e
  unfold stepL
  split
  · exact rawL_rel h c hev C e
  · apply RelR.bind (rawL_rel h c hev C e); intro o o' ho
    rw [objSz_rel c ho]
    apply RelR.bind (measure_rel h _); intro _ _ _
    exact RelR.ok ho

theorem evalL_rel {lo hi : Lim} (h : Lim.le lo hi) (c : ECfg) : ∀ n, LeEv (evalL c lo n) (evalL c hi n)
  | 0 => fun _ _ => RelR.err _
  | n + 1 => stepL_rel h c (evalL_rel h c n)

/-! ## the finaliser -/

/-- only a limit exception or "no prediction" -/
def LimOrNop (x : RL α) : Prop := ∀ e, x = .error e → isLim e = true ∨ noPred e = true

theorem LimOrNop.ok (a : α) : LimOrNop (.ok a : RL α) := by intro e h; cases h
theorem LimOrNop.lim {e : LErr} (h : isLim e = true) : LimOrNop (.error e : RL α) := by
  intro e' h'; cases h'; exact Or.inl h
theorem LimOrNop.bind {x : RL α} {f : α → RL β} (hx : LimOrNop x) (hf : ∀ a, LimOrNop (f a)) : LimOrNop (x >>= f) := by
  cases x with
  | error e => intro e' h'; cases h'; exact hx e rfl
  | ok a => exact hf a

theorem measure_lon (L : Lim) (s : Option Sz) : LimOrNop (EvalLimits.measure L s) := by
  intro e he
  rcases measure_cases L s with h | h | h <;> rw [h] at he <;> cases he
  · exact Or.inl rfl
  · exact Or.inr rfl

theorem limitLen_lon (L : Lim) (n : Nat) : LimOrNop (limitLen L n) := by
  unfold limitLen
  split
  · exact LimOrNop.ok _
  · exact LimOrNop.lim rfl

theorem walkL_nil (c : ECfg) (L : Lim) (b : Option Nat) : walkL c L b [] = .ok () := by
  cases b with
  | none => rfl
  | some n => cases n <;> rfl

theorem walkL_zero (c : ECfg) (L : Lim) (x : Value) (xs : VL) : walkL c L (some 0) (x :: xs) = .error .tooLarge := rfl

theorem walkL_cons (c : ECfg) (L : Lim) (b : Option Nat) (hb : b ≠ some 0) (x : Value) (xs : VL) :
    walkL c L b (x :: xs) = (do walkV c L x; walkL c L (b.map (· - 1)) xs) := by
  cases b with
  | none => rfl
  | some n =>
    cases n with
    | zero => exact absurd rfl hb
    | succ k => rfl

mutual
theorem walkV_lon (c : ECfg) (L : Lim) : ∀ v : Value, LimOrNop (walkV c L v)
  | .tuple l => by
    unfold walkV
    exact LimOrNop.bind (measure_lon _ _) (fun _ => LimOrNop.bind (limitLen_lon _ _) (fun _ => walkL_lon c L none l))
  | .list l => by
    unfold walkV
    exact LimOrNop.bind (measure_lon _ _) (fun _ => LimOrNop.bind (limitLen_lon _ _) (fun _ => walkL_lon c L none l))
  | .set l => by
    unfold walkV
    exact LimOrNop.bind (measure_lon _ _) (fun _ => LimOrNop.bind (limitLen_lon _ _) (fun _ => walkL_lon c L none l))
  | .iter l => by
    unfold walkV
    exact LimOrNop.bind (measure_lon _ _) (fun _ => walkL_lon c L L.N l)
  | .dict kvs => by
    unfold walkV
    exact LimOrNop.bind (limitLen_lon _ _) (fun _ => walkP_lon c L kvs)
  | .null => LimOrNop.ok _
  | .bool _ => LimOrNop.ok _
  | .int _ => LimOrNop.ok _
  | .flt _ => LimOrNop.ok _
  | .str _ => LimOrNop.ok _
  | .host _ => LimOrNop.ok _
theorem walkL_lon (c : ECfg) (L : Lim) : ∀ (b : Option Nat) (xs : VL), LimOrNop (walkL c L b xs)
  | b, [] => by rw [walkL_nil]; exact LimOrNop.ok _
  | b, x :: xs => by
    by_cases hb : b = some 0
    · subst hb; exact LimOrNop.lim rfl
    · rw [walkL_cons c L b hb]
      exact LimOrNop.bind (walkV_lon c L x) (fun _ => walkL_lon c L _ xs)
theorem walkP_lon (c : ECfg) (L : Lim) : ∀ kvs : List (Value × Value), LimOrNop (walkP c L kvs)
  | [] => LimOrNop.ok _
  | (k, v) :: r => by
    unfold walkP
    exact LimOrNop.bind (walkV_lon c L k) (fun _ => LimOrNop.bind (walkV_lon c L v) (fun _ => walkP_lon c L r))
end

mutual
theorem walkV_rel {lo hi : Lim} (h : Lim.le lo hi) (c : ECfg) : ∀ v : Value,
    RelR (fun _ _ => True) (walkV c lo v) (walkV c hi v)
  | .tuple l => by
    unfold walkV
    apply RelR.bind (measure_rel h _); intro _ _ _
    apply RelR.bind (limitLen_rel h _); intro _ _ _
    exact walkL_rel h c l none none (Or.inl rfl)
  | .list l => by
    unfold walkV
    apply RelR.bind (measure_rel h _); intro _ _ _
    apply RelR.bind (limitLen_rel h _); intro _ _ _
    exact walkL_rel h c l none none (Or.inl rfl)
  | .set l => by
    unfold walkV
    apply RelR.bind (measure_rel h _); intro _ _ _
    apply RelR.bind (limitLen_rel h _); intro _ _ _
    exact walkL_rel h c l none none (Or.inl rfl)
  | .iter l => by
    unfold walkV
    apply RelR.bind (measure_rel h _); intro _ _ _
    exact walkL_rel h c l lo.N hi.N h.1
  | .dict kvs => by
    unfold walkV
    apply RelR.bind (limitLen_rel h _); intro _ _ _
    exact walkP_rel h c kvs
  | .null => RelR.ok trivial
  | .bool _ => RelR.ok trivial
  | .int _ => RelR.ok trivial
  | .flt _ => RelR.ok trivial
  | .str _ => RelR.ok trivial
  | .host _ => RelR.ok trivial
theorem walkL_rel {lo hi : Lim} (h : Lim.le lo hi) (c : ECfg) : ∀ (xs : VL) (b b' : Option Nat), BLe b b' →
    RelR (fun _ _ => True) (walkL c lo b xs) (walkL c hi b' xs)
  | [], b, b', _ => by rw [walkL_nil, walkL_nil]; exact RelR.ok trivial
  | x :: xs, b, b', hb => by
    by_cases h0 : b = some 0
    · subst h0; exact RelR.tooLarge _
    · have h0' : b' ≠ some 0 := by
        rcases hb with rfl | ⟨n, m, rfl, rfl, hnm⟩
        · intro hc; cases hc
        · intro hc; cases hc; apply h0; congr; omega
      rw [walkL_cons c lo b h0, walkL_cons c hi b' h0']
      apply RelR.bind (walkV_rel h c x); intro _ _ _
      exact walkL_rel h c xs _ _ hb.pred
theorem walkP_rel {lo hi : Lim} (h : Lim.le lo hi) (c : ECfg) : ∀ kvs : List (Value × Value),
    RelR (fun _ _ => True) (walkP c lo kvs) (walkP c hi kvs)
  | [] => RelR.ok trivial
  | (k, v) :: r => by
    unfold walkP
    apply RelR.bind (walkV_rel h c k); intro _ _ _
    apply RelR.bind (walkV_rel h c v); intro _ _ _
    exact walkP_rel h c r
end

theorem afterWalk_rel (ok : Bool) {w w' : RL Unit} (hw : RelR (fun _ _ => True) w w') :
    RelR (fun _ _ => True) (afterWalk ok w) (afterWalk ok w') := by
  rcases hw with ⟨eh, rfl, hn⟩ | ⟨el, rfl, hl⟩ | ⟨e, rfl, rfl⟩ | ⟨a, b, rfl, rfl, _⟩
  · -- "no prediction" stays
    have : afterWalk ok (.error eh) = .error eh := by
      unfold afterWalk
      cases eh with
      | base b => rfl
      | quota => cases hn
      | tooLarge => cases hn
    rw [this]; exact RelR.nopHi hn _
  · unfold afterWalk
    simp only
    split
    · exact RelR.ood _
    · exact Or.inr (Or.inl ⟨el, rfl, hl⟩)
  · exact RelR.refl (fun _ => trivial) _
  · exact RelR.ok trivial

theorem afterWalk_lon (ok : Bool) {w : RL Unit} (hw : LimOrNop w) : LimOrNop (afterWalk ok w) := by
  cases w with
  | ok a => exact LimOrNop.ok _
  | error e =>
    unfold afterWalk
    simp only
    split
    · intro e' h'; cases h'; exact Or.inr rfl
    · intro e' h'; cases h'; exact hw e rfl

theorem finIter_rel {lo hi : Lim} (h : Lim.le lo hi) (c : ECfg) {s s' : VL × Option LErr} (hs : RelS s s') :
    RelR Eq (finIter c lo s) (finIter c hi s') := by
  obtain ⟨xs, tl⟩ := s
  obtain ⟨ys, tl'⟩ := s'
  rcases hs with hs | ⟨e0, h1, h2, h3⟩
  · cases hs
    unfold finIter
    split
    · exact RelR.err _
    · apply RelR.bind (afterWalk_rel _ (RelR.bind (walkL_rel h c xs none none (Or.inl rfl))
        (fun _ _ _ => RelR.refl (fun _ => trivial) _))); intro _ _ _
      split
      · exact RelR.bind (measure_rel h _) (fun _ _ _ => RelR.ok rfl)
      · exact RelR.err _
  · simp only at h1 h3
    subst h1
    -- the `lo` source is cut by a limit: whatever happens, the `lo` finaliser ends in a limit exception
    have hun : finIter c lo (xs, some e0) =
        (do afterWalk (Seq.finOkL xs) (do walkL c lo none xs; (.error e0 : RL Unit))
            if Seq.finOkL xs then do
              EvalLimits.measure lo (outSize c (.list xs))
              pure (Final.data (.list xs))
            else .error (.base .type)) := by
      cases e0 with
      | base b => cases h2
      | quota => rfl
      | tooLarge => rfl
    have hW : ∃ e1, (do walkL c lo none xs; (.error e0 : RL Unit)) = .error e1 ∧ (isLim e1 = true ∨ noPred e1 = true) := by
      cases hw : walkL c lo none xs with
      | ok u => exact ⟨e0, rfl, Or.inl h2⟩
      | error e1 => exact ⟨e1, rfl, walkL_lon c lo none xs e1 hw⟩
    obtain ⟨e1, hW1, hW2⟩ := hW
    rw [hun, hW1]
    unfold afterWalk
    simp only
    split
    · exact RelR.ood _
    · exact Or.inr (Or.inl ⟨e1, rfl, hW2⟩)

theorem finVal_rel {lo hi : Lim} (h : Lim.le lo hi) (c : ECfg) (v : Value) :
    RelR Eq (finVal c lo v) (finVal c hi v) := by
  unfold finVal
  apply RelR.bind (measure_rel h _); intro _ _ _
  apply RelR.bind (afterWalk_rel _ (walkV_rel h c v)); intro _ _ _
  split
  · exact RelR.bind (measure_rel h _) (fun _ _ _ => RelR.ok rfl)
  · exact RelR.err _

theorem finaliseL_rel {lo hi : Lim} (h : Lim.le lo hi) (c : ECfg) {o o' : ObjL} (ho : RelO o o') :
    RelR Eq (finaliseL c lo o) (finaliseL c hi o') := by
  have iter : ∀ {o o' : ObjL}, RelO o o' →
      RelR Eq (do EvalLimits.measure lo (objSz c o); let s ← bindIter c lo o; finIter c lo s)
        (do EvalLimits.measure hi (objSz c o'); let s ← bindIter c hi o'; finIter c hi s) := by
    intro o o' ho
    rw [objSz_rel c ho]
    apply RelR.bind (measure_rel h _); intro _ _ _
    apply RelR.bind (bindIter_rel h c ho); intro s s' hs
    exact finIter_rel h c hs
  cases ho with
  | refl =>
    unfold finaliseL
    split
    · exact RelR.bind (measure_rel h _) (fun _ _ _ => RelR.ok rfl)
    · split
      · exact iter (RelO.refl _)
      · split
        · exact finVal_rel h c _
        · exact RelR.err _
  | lazy hs => exact iter (RelO.lazy hs)
  | ordered hs => exact iter (RelO.ordered hs)

/-- raising the limits: the whole run -/
theorem runL_rel {lo hi : Lim} (h : Lim.le lo hi) (c : ECfg) (fuel : Nat) (doc : Value) (e : Expr) :
    RelR Eq (runL c lo fuel doc e) (runL c hi fuel doc e) := by
  unfold runL
  apply RelR.bind (evalL_rel h c fuel _ _); intro o o' ho
  exact finaliseL_rel h c ho

end Yaql.Props.C08Eval
