import Yaql.Props.C05
import Yaql.Model.RegistryRow
/-!
C12 - all ways of passing the same arguments are equivalent.

* `call_equiv`: keywords written `name => value` in the argument list and keywords handed over at
  the Python level (what `call(name, args, kwargs)` does) translate to the same resolver input.
* `ext_both_ways`: `f(x, ..)` and `x.f(..)` are the same resolution problem when the visible
  overloads are extension methods.
* `kind_exclusive`: method-only definitions never answer function calls and vice versa.
* `spelling_*`: one parameter at a time, `get_delegate` binds the same value whether it arrives
  positionally, by keyword (alias name), or - for a defaulted parameter - is omitted, skipped with an
  empty slot, or given explicitly with the default value.
* `spelling_equiv : spelling_equiv_full`: the whole argument vector - what `get_delegate` binds is a
  function of the value each parameter ends up with (`getDelegate_eq_of_received`), so any two spellings
  that agree on those values, on `*`'s and `**`'s share, and on whether something is passed twice bind
  the same vector.  `mapArgs_of_getDelegate`: a vector that `get_delegate` binds passes `map_args` in
  every spelling without an empty slot whose parameter comes by keyword; `map_args` alone is NOT
  spelling-invariant (`mapArgs_not_spelling_invariant`).
-/
namespace Yaql.Props.C12
open Yaql.Types Yaql.Resolve Yaql.Registry Yaql.Props.C05

/-! ## call() -/

/-- `name => value` for every pair -/
def asMappingRules (kws : KwArgs) (ek1 ek2 : Nat) (lit : Lit) (v : Val) : List Arg :=
  kws.map fun kv => .mapRule (.const v lit (some kv.1) ek1) kv.2 .none ek2

def noMapRule (a : Arg) : Bool := match a with | .mapRule .. => false | _ => true

theorem translatePos_plain : ∀ (pos acc : List Arg) (kw : KwArgs), pos.all noMapRule = true →
    translatePos pos acc kw = .ok (acc.reverse ++ pos, kw)
  | [], acc, kw, _ => by simp [translatePos]
  | a :: r, acc, kw, h => by
      simp only [List.all_cons, Bool.and_eq_true] at h
      cases a with
      | mapRule s d res ek => simp [noMapRule] at h
      | _ => simp [translatePos, translatePos_plain r _ kw h.2]

theorem translatePos_rules (ek1 ek2 : Nat) (lit : Lit) (v : Val) : ∀ (kws : KwArgs) (acc : List Arg) (kw : KwArgs),
    translatePos (asMappingRules kws ek1 ek2 lit v) acc kw =
      .ok (acc.reverse, kws.foldl (fun k kv => aset kv.1 kv.2 k) kw)
  | [], acc, kw => by simp [asMappingRules, translatePos]
  | kv :: r, acc, kw => by
      have := translatePos_rules ek1 ek2 lit v r acc (aset kv.1 kv.2 kw)
      simp only [asMappingRules, List.map_cons, translatePos, List.foldl_cons] at this ⊢
      exact this

theorem translatePos_append : ∀ (a b acc : List Arg) (kw : KwArgs), a.all noMapRule = true →
    translatePos (a ++ b) acc kw = translatePos b (a.reverse ++ acc) kw
  | [], b, acc, kw, _ => rfl
  | x :: r, b, acc, kw, h => by
      simp only [List.all_cons, Bool.and_eq_true] at h
      cases x with
      | mapRule s d res ek => simp [noMapRule] at h
      | _ => simp [translatePos, translatePos_append r b _ kw h.2]

theorem aset_fresh {α : Type} (k : Name) (v : α) : ∀ (l : List (Name × α)), ahas k l = false → aset k v l = l ++ [(k, v)]
  | [], _ => rfl
  | (k', v') :: r, h => by
      simp only [ahas, List.any_cons, Bool.or_eq_false_iff] at h
      simp only [aset, h.1, Bool.false_eq_true, if_false, List.cons_append]
      rw [aset_fresh k v r (by simpa [ahas] using h.2)]

theorem ahas_append {α : Type} (k : Name) (a b : List (Name × α)) : ahas k (a ++ b) = (ahas k a || ahas k b) := by
  simp [ahas, List.any_append]

theorem foldl_aset_distinct : ∀ (kws acc : KwArgs), distinct (acc.map (·.1) ++ kws.map (·.1)) = true →
    kws.foldl (fun k kv => aset kv.1 kv.2 k) acc = acc ++ kws
  | [], acc, _ => by simp
  | kv :: r, acc, h => by
      have hfresh : ahas kv.1 acc = false := by
        induction acc with
        | nil => rfl
        | cons a t ih =>
            simp only [List.map_cons, List.cons_append, distinct, Bool.and_eq_true, Bool.not_eq_true',
              List.contains_eq_mem, List.mem_append, List.mem_map, List.mem_cons, decide_eq_false_iff_not] at h
            have h1 : ¬ (a.1 = kv.1) := fun e => h.1 (Or.inr (Or.inl e))
            have := ih (by simpa [distinct] using h.2)
            simp only [ahas, List.any_cons, Bool.or_eq_false_iff, beq_eq_false_iff_ne, ne_eq]
            exact ⟨h1, by simpa [ahas] using this⟩
      simp only [List.foldl_cons, aset_fresh _ _ _ hfresh]
      have := foldl_aset_distinct r (acc ++ [kv]) (by simpa [List.map_append, List.append_assoc] using h)
      simpa [List.append_assoc] using this

theorem mergeKw_distinct : ∀ (kws acc : KwArgs), distinct (acc.map (·.1) ++ kws.map (·.1)) = true →
    mergeKw kws acc = .ok (acc ++ kws)
  | [], acc, _ => by simp [mergeKw]
  | kv :: r, acc, h => by
      obtain ⟨k, v⟩ := kv
      have hfresh : ahas k acc = false := by
        induction acc with
        | nil => rfl
        | cons a t ih =>
            simp only [List.map_cons, List.cons_append, distinct, Bool.and_eq_true, Bool.not_eq_true',
              List.contains_eq_mem, List.mem_append, List.mem_map, List.mem_cons, decide_eq_false_iff_not] at h
            have h1 : ¬ (a.1 = k) := fun e => h.1 (Or.inr (Or.inl e))
            have := ih (by simpa [distinct] using h.2)
            simp only [ahas, List.any_cons, Bool.or_eq_false_iff, beq_eq_false_iff_ne, ne_eq]
            exact ⟨h1, by simpa [ahas] using this⟩
      simp only [mergeKw, hfresh, Bool.false_eq_true, if_false]
      have := mergeKw_distinct r (acc ++ [(k, v)]) (by simpa [List.map_append, List.append_assoc] using h)
      simpa [List.append_assoc] using this

/-- going through `call(name, args, kwargs)` (values + Python-level keywords) gives the resolver
    the same positional arguments and the same keyword dictionary as writing the keywords as
    `name => value` after the positional arguments -/
theorem call_equiv (pos : List Arg) (kws : KwArgs) (ek1 ek2 : Nat) (lit : Lit) (v : Val)
    (hpos : pos.all noMapRule = true) (hd : distinct (kws.map (·.1)) = true) :
    translateArgs false (pos ++ asMappingRules kws ek1 ek2 lit v) [] = .ok (pos, kws) ∧
    translateArgs false pos kws = .ok (pos, kws) := by
  constructor
  · simp only [translateArgs, Bool.false_eq_true, if_false, translatePos_append pos _ [] [] hpos,
      translatePos_rules, List.append_nil, List.reverse_reverse]
    rw [foldl_aset_distinct kws [] (by simpa using hd)]
    simp [mergeKw]
  · simp only [translateArgs, Bool.false_eq_true, if_false, translatePos_plain pos [] [] hpos, List.reverse_nil,
      List.nil_append]
    rw [mergeKw_distinct kws [] (by simpa using hd)]
    simp

/-! ## function form and method form -/

/-- an extension method called as `f(x, a..)` and as `x.f(a..)` is the same resolution problem:
    same overload, same bound vector, same evaluation log (all visible overloads being
    extension methods or of neither kind) -/
theorem ext_both_ways (L : Lattice) (layers : List Layer) (x : Val) (args : List Arg) (kw : KwArgs)
    (hext : ∀ l ∈ layers, ∀ f ∈ l.fns, f.isFunction = f.isMethod) :
    resolve L layers { receiver := some x, args := args, kwargs := kw } =
    resolve L layers { receiver := none, args := .value x :: args, kwargs := kw } := by
  have hc : collect true layers = collect false layers := by
    induction layers with
    | nil => rfl
    | cons l r ih =>
        have hf : l.fns.filter (kindOk true) = l.fns.filter (kindOk false) := by
          apply List.filter_congr
          intro f hf
          simp [kindOk, hext l (by simp) f hf]
        simp only [collect, hf, ih (fun l' hl' => hext l' (by simp [hl']))]
  simp only [resolve, Option.isSome, hc]
  rfl

/-- functions that are methods only are never callable as functions, and vice versa -/
theorem kind_exclusive (L : Lattice) (layers : List Layer) (c : Call) (id : Nat) (b : Bound) :
    ((∀ l ∈ layers, ∀ f ∈ l.fns, f.id = id → f.isMethod = false) → c.receiver.isSome = true →
      (resolve L layers c).res ≠ .ok (id, b)) ∧
    ((∀ l ∈ layers, ∀ f ∈ l.fns, f.id = id → f.isFunction = false) → c.receiver.isSome = false →
      (resolve L layers c).res ≠ .ok (id, b)) := by
  constructor
  · exact fun h hc => kind_exclusive_function L layers c id b h hc
  · intro hids hc h
    obtain ⟨l, hl, f, hf, hid, hk⟩ := kind_filter L layers c id b h
    have := hids l (reach_sub _ _ hl) f hf hid
    simp [kindOk, hc, this] at hk

/-! ## spellings of one argument -/

/-- `args'` is `args` with slot `s` emptied (`f(1,,3)`) or cut off (`f(1)` for `f(1,2)`): every other
    slot, and whatever lies beyond position `k > s`, is unchanged -/
structure SlotFreed (s : Nat) (args args' : List Arg) : Prop where
  freed : given args' s = false
  same_given : ∀ i, i ≠ s → given args' i = given args i
  same_val : ∀ i, i ≠ s → args'.getD i .noValue = args.getD i .noValue
  extras : ∀ k, s < k → (decide (args'.length > k) = decide (args.length > k)) ∧ args'.drop k = args.drop k

theorem slotFreed_set (s : Nat) (args : List Arg) : SlotFreed s args (args.set s .noValue) := by
  refine ⟨?_, ?_, ?_, ?_⟩
  · simp only [given]
    by_cases h : s < args.length
    · rw [List.getElem?_set_self h]; rfl
    · rw [List.getElem?_eq_none (by simp; omega)]
  · intro i hi
    simp only [given, List.getElem?_set_ne (Ne.symm hi)]
  · intro i hi
    simp only [List.getD_eq_getElem?_getD, List.getElem?_set_ne (Ne.symm hi)]
  · intro k hk
    refine ⟨by simp, ?_⟩
    apply List.ext_getElem?
    intro i
    simp only [List.getElem?_drop]
    rw [List.getElem?_set_ne (by omega)]

theorem slotFreed_dropLast (args' : List Arg) (a : Arg) : SlotFreed args'.length (args' ++ [a]) args' := by
  refine ⟨?_, ?_, ?_, ?_⟩
  · simp [given]
  · intro i hi
    simp only [given]
    by_cases h : i < args'.length
    · rw [List.getElem?_append_left h]
    · have : args'.length < i := by omega
      simp [List.getElem?_eq_none, Nat.le_of_lt this, List.getElem?_append_right (Nat.le_of_lt this)]
      rw [List.getElem?_eq_none (by simp; omega)]
  · intro i hi
    simp only [List.getD_eq_getElem?_getD]
    by_cases h : i < args'.length
    · rw [List.getElem?_append_left h]
    · have : args'.length < i := by omega
      rw [List.getElem?_eq_none (by omega), List.getElem?_eq_none (by simp; omega)]
  · intro k hk
    refine ⟨?_, ?_⟩
    · simp only [List.length_append, List.length_cons, List.length_nil]
      have h1 : ¬ (args'.length > k) := by omega
      have h2 : ¬ (args'.length + (0 + 1) > k) := by omega
      simp [h1, h2]
    · rw [List.drop_eq_nil_of_le (by omega), List.drop_eq_nil_of_le (by simp; omega)]

/-- a parameter other than the one whose spelling changes: it does not own slot `s` -/
theorem delegStep_other (L : Lattice) (ps : List Param) {s : Nat} {args args' : List Arg} (hf : SlotFreed s args args')
    (st : DelSt) (p' : Param) (hs : slotOf ps p' ≠ some s) :
    delegStep L ps args' st p' = delegStep L ps args st p' := by
  unfold delegStep
  cases hq : p'.position with
  | none => rfl
  | some q =>
      simp only
      by_cases h1 : p'.isStar = true
      · simp [h1]
      · by_cases h2 : p'.hidden = true
        · simp [h1, h2]
        · have hne : q - fixAt ps q ≠ s := by
            intro e
            apply hs
            simp [slotOf, hq, h1, h2, e]
          simp only [h1, h2, Bool.false_eq_true, if_false, hf.same_given _ hne, hf.same_val _ hne]

theorem ahas_false_lookup {α : Type} (k : Name) : ∀ (l : List (Name × α)), ahas k l = false → alookup k l = none
  | [], _ => rfl
  | (k', v) :: r, h => by
      simp only [ahas, List.any_cons, Bool.or_eq_false_iff] at h
      simp only [alookup, h.1, Bool.false_eq_true, if_false]
      exact ahas_false_lookup k r (by simpa [ahas] using h.2)

theorem delegStep_rest (L : Lattice) (ps : List Param) (args : List Arg) (n : Name) {st st' : DelSt} {p' : Param}
    (h : delegStep L ps args st p' = some st') (hn : ahas n st.rest = false) : ahas n st'.rest = false := by
  have hdel : ∀ k, ahas n (adel k st.rest) = false := by
    intro k
    cases hh : ahas n (adel k st.rest) with
    | false => rfl
    | true => rw [ahas_adel _ _ _ hh] at hn; cases hn
  unfold delegStep at h
  cases hq : p'.position with
  | some q =>
      simp only [hq] at h
      split at h
      · cases h; exact hn
      · split at h
        · cases h; exact hn
        · split at h
          · split at h
            · cases h
            · simp only [checked, Option.map_eq_some_iff] at h
              obtain ⟨sl, _, rfl⟩ := h; exact hn
          · split at h
            · simp only [checked, Option.map_eq_some_iff] at h
              obtain ⟨sl, _, rfl⟩ := h; exact hdel _
            · split at h
              · simp only [checked, Option.map_eq_some_iff] at h
                obtain ⟨sl, _, rfl⟩ := h; exact hn
              · cases h
  | none =>
      simp only [hq] at h
      split at h
      · cases h; exact hn
      · split at h
        · cases h; exact hn
        · split at h
          · simp only [checked, Option.map_eq_some_iff] at h
            obtain ⟨sl, _, rfl⟩ := h; exact hdel _
          · split at h
            · simp only [checked, Option.map_eq_some_iff] at h
              obtain ⟨sl, _, rfl⟩ := h; exact hn
            · cases h

theorem delegLoop_other (L : Lattice) (ps : List Param) {s : Nat} {args args' : List Arg} (hf : SlotFreed s args args') :
    ∀ (l : List Param) (st : DelSt), (∀ p' ∈ l, slotOf ps p' ≠ some s) →
      delegLoop L ps args' st l = delegLoop L ps args st l
  | [], _, _ => rfl
  | p' :: r, st, h => by
      simp only [delegLoop, delegStep_other L ps hf st p' (h p' (by simp))]
      cases delegStep L ps args st p' with
      | none => rfl
      | some st1 => exact delegLoop_other L ps hf r st1 (fun x hx => h x (by simp [hx]))

theorem delegLoop_vis (L : Lattice) (ps : List Param) (args : List Arg) : ∀ (l : List Param) (st st' : DelSt),
    delegLoop L ps args st l = some st' → st'.vis = st.vis - (l.filter hiddenPositional).length
  | [], st, st', h => by simp [delegLoop] at h; subst h; simp
  | p' :: r, st, st', h => by
      simp only [delegLoop] at h
      cases hs : delegStep L ps args st p' with
      | none => simp [hs] at h
      | some st1 =>
          simp only [hs] at h
          have ih := delegLoop_vis L ps args r st1 st' h
          have hv : st1.vis = st.vis - (if hiddenPositional p' then 1 else 0) := by
            unfold delegStep at hs
            cases hq : p'.position with
            | some q =>
                simp only [hq] at hs
                by_cases h1 : p'.isStar = true
                · simp [h1] at hs; subst hs; simp [hiddenPositional, h1]
                · by_cases h2 : p'.hidden = true
                  · simp [h1, h2] at hs; subst hs; simp [hiddenPositional, hq, h1, h2]
                  · simp only [h1, h2, Bool.false_eq_true, if_false] at hs
                    have hz : (if hiddenPositional p' = true then 1 else 0) = 0 := by simp [hiddenPositional, h2]
                    rw [hz]
                    split at hs
                    · split at hs
                      · cases hs
                      · simp only [checked, Option.map_eq_some_iff] at hs
                        obtain ⟨sl, _, rfl⟩ := hs; rfl
                    · split at hs
                      · simp only [checked, Option.map_eq_some_iff] at hs
                        obtain ⟨sl, _, rfl⟩ := hs; rfl
                      · split at hs
                        · simp only [checked, Option.map_eq_some_iff] at hs
                          obtain ⟨sl, _, rfl⟩ := hs; rfl
                        · cases hs
            | none =>
                simp only [hq] at hs
                have hz : (if hiddenPositional p' = true then 1 else 0) = 0 := by simp [hiddenPositional, hq]
                rw [hz]
                split at hs
                · cases hs; rfl
                · split at hs
                  · cases hs; rfl
                  · split at hs
                    · simp only [checked, Option.map_eq_some_iff] at hs
                      obtain ⟨sl, _, rfl⟩ := hs; rfl
                    · split at hs
                      · simp only [checked, Option.map_eq_some_iff] at hs
                        obtain ⟨sl, _, rfl⟩ := hs; rfl
                      · cases hs
          rw [ih, hv]
          simp only [List.filter_cons]
          split <;> simp <;> omega

/-- the part of `get_delegate` after the loop only looks at the arguments beyond the visible slots -/
theorem getDelegate_tail (L : Lattice) (ps : List Param) {s : Nat} {args args' : List Arg} (hf : SlotFreed s args args')
    (hs : s < visCount ps) (kw kw2 : KwArgs)
    (h : delegLoop L ps args' { pos := List.replicate (positionalCount ps) none, kw := [], rest := kw2, vis := positionalCount ps } ps =
         delegLoop L ps args { pos := List.replicate (positionalCount ps) none, kw := [], rest := kw, vis := positionalCount ps } ps) :
    getDelegate L ps args' kw2 = getDelegate L ps args kw := by
  unfold getDelegate
  simp only [h]
  cases hl : delegLoop L ps args { pos := List.replicate (positionalCount ps) none, kw := [], rest := kw, vis := positionalCount ps } ps with
  | none => rfl
  | some st =>
      have hv := delegLoop_vis L ps args ps _ st hl
      simp only at hv
      have hk : s < st.vis := by rw [hv]; exact hs
      have he := hf.extras st.vis hk
      simp only [gt_iff_lt, decide_eq_decide] at he
      have hlen : (args'.length > st.vis) = (args.length > st.vis) := propext he.1
      simp only [hlen, he.2]

/-- **a defaulted argument may be left out** (cut off at the end, or skipped with an empty slot):
    `get_delegate` binds the same vector as when the default value is written out -/
theorem spelling_default_move (L : Lattice) (ps : List Param) (args args' : List Arg) (kw : KwArgs)
    (p : Param) (pre post : List Param) (s : Nat) (d : Arg)
    (hps : ps = pre ++ p :: post) (hslot : slotOf ps p = some s) (hs : s < visCount ps)
    (hothers : ∀ p' ∈ pre ++ post, slotOf ps p' ≠ some s)
    (hd : p.default = some d) (hgiven : given args s = true) (hval : args.getD s .noValue = d)
    (hkw : ahas p.argName kw = false) (hf : SlotFreed s args args') :
    getDelegate L ps args' kw = getDelegate L ps args kw := by
  apply getDelegate_tail L ps hf hs
  -- the step of `p` itself
  have hstep : ∀ st : DelSt, ahas p.argName st.rest = false →
      delegStep L ps args' st p = delegStep L ps args st p := by
    intro st hr
    unfold slotOf at hslot
    cases hq : p.position with
    | none => simp [hq] at hslot
    | some q =>
        simp only [hq] at hslot
        by_cases hsh : (p.isStar || p.hidden) = true
        · simp [hsh] at hslot
        · simp only [hsh, Bool.false_eq_true, if_false, Option.some.injEq] at hslot
          simp only [Bool.or_eq_true, not_or, Bool.not_eq_true] at hsh
          unfold delegStep
          simp only [hq, hsh.1, hsh.2, Bool.false_eq_true, if_false, hslot, hf.freed, hgiven, hr, if_true,
            ahas_false_lookup _ _ hr, hd, hval]
  have hloop : ∀ (l : List Param) (st : DelSt), (∀ p' ∈ l, p' = p ∨ slotOf ps p' ≠ some s) →
      ahas p.argName st.rest = false → delegLoop L ps args' st l = delegLoop L ps args st l := by
    intro l
    induction l with
    | nil => intros; rfl
    | cons x r ih =>
        intro st hl hr
        have hx : delegStep L ps args' st x = delegStep L ps args st x := by
          rcases hl x (by simp) with rfl | hx
          · exact hstep st hr
          · exact delegStep_other L ps hf st x hx
        simp only [delegLoop, hx]
        cases hst : delegStep L ps args st x with
        | none => rfl
        | some st1 =>
            exact ih st1 (fun y hy => hl y (by simp [hy])) (delegStep_rest L ps args _ hst hr)
  apply hloop
  · intro p' hp'
    rw [hps] at hp'
    simp only [List.mem_append, List.mem_cons] at hp'
    rcases hp' with h | rfl | h
    · exact Or.inr (hothers p' (by simp [h]))
    · exact Or.inl rfl
    · exact Or.inr (hothers p' (by simp [h]))
  · exact hkw

/-! ### positional <-> keyword -/

def withKw (n : Name) (a : Arg) (st : DelSt) : DelSt := { st with rest := st.rest ++ [(n, a)] }

theorem ahas_append_other {n' n : Name} (a : Arg) (r : KwArgs) (h : n ≠ n') :
    ahas n' (r ++ [(n, a)]) = ahas n' r := by
  simp [ahas, List.any_append, h]

theorem alookup_append_other {n' n : Name} (a : Arg) : ∀ (r : KwArgs), n ≠ n' →
    alookup n' (r ++ [(n, a)]) = alookup n' r
  | [], h => by simp [alookup, h]
  | (k, v) :: r, h => by
      simp only [List.cons_append, alookup]
      split
      · rfl
      · exact alookup_append_other a r h

theorem adel_append_other {n' n : Name} (a : Arg) (r : KwArgs) (h : n ≠ n') :
    adel n' (r ++ [(n, a)]) = adel n' r ++ [(n, a)] := by
  simp [adel, List.filter_append, h]

theorem alookup_append_self (n : Name) (a : Arg) : ∀ (r : KwArgs), ahas n r = false →
    alookup n (r ++ [(n, a)]) = some a
  | [], _ => by simp [alookup]
  | (k, v) :: r, h => by
      simp only [ahas, List.any_cons, Bool.or_eq_false_iff] at h
      simp only [List.cons_append, alookup, h.1, Bool.false_eq_true, if_false]
      exact alookup_append_self n a r (by simpa [ahas] using h.2)

theorem adel_append_self (n : Name) (a : Arg) : ∀ (r : KwArgs), ahas n r = false → adel n (r ++ [(n, a)]) = r
  | [], _ => by simp [adel]
  | (k, v) :: r, h => by
      simp only [ahas, List.any_cons, Bool.or_eq_false_iff] at h
      have ih := adel_append_self n a r (by simpa [ahas] using h.2)
      simp only [adel] at ih ⊢
      simp only [List.cons_append, List.filter_cons, h.1, Bool.not_false, if_true, ih]

/-- `p'` is not passed under the name `n` -/
def NameOther (n : Name) (p' : Param) : Prop := p'.hidden = false → p'.argName ≠ n

theorem delegStep_kw_other (L : Lattice) (ps : List Param) {s : Nat} {args args' : List Arg}
    (hf : SlotFreed s args args') (n : Name) (a : Arg) (st : DelSt) (p' : Param)
    (hs : slotOf ps p' ≠ some s) (hn : NameOther n p') :
    delegStep L ps args' (withKw n a st) p' = (delegStep L ps args st p').map (withKw n a) := by
  rw [delegStep_other L ps hf _ p' hs]
  unfold delegStep
  cases hq : p'.position with
  | some q =>
      simp only
      by_cases h1 : p'.isStar = true
      · simp [h1]
      · by_cases h2 : p'.hidden = true
        · simp [h1, h2, withKw]
        · have hne : n ≠ p'.argName := fun e => hn (by simpa using h2) e.symm
          simp only [h1, h2, Bool.false_eq_true, if_false, withKw, ahas_append_other a _ hne,
            alookup_append_other a _ hne, adel_append_other a _ hne]
          split
          · split
            · rfl
            · simp only [Option.map_map]; rfl
          · cases alookup p'.argName st.rest with
            | some v => simp only [Option.map_map]; rfl
            | none =>
                cases p'.default with
                | some d => simp only [Option.map_map]; rfl
                | none => rfl
  | none =>
      simp only
      by_cases h1 : p'.isStarStar = true
      · simp [h1]
      · by_cases h2 : p'.hidden = true
        · simp [h1, h2, withKw]
        · have hne : n ≠ p'.argName := fun e => hn (by simpa using h2) e.symm
          simp only [h1, h2, Bool.false_eq_true, if_false, withKw, alookup_append_other a _ hne,
            adel_append_other a _ hne]
          cases alookup p'.argName st.rest with
          | some v => simp only [Option.map_map]; rfl
          | none =>
              cases p'.default with
              | some d => simp only [Option.map_map]; rfl
              | none => rfl

theorem delegLoop_kw_other (L : Lattice) (ps : List Param) {s : Nat} {args args' : List Arg}
    (hf : SlotFreed s args args') (n : Name) (a : Arg) : ∀ (l : List Param) (st : DelSt),
    (∀ p' ∈ l, slotOf ps p' ≠ some s ∧ NameOther n p') →
    delegLoop L ps args' (withKw n a st) l = (delegLoop L ps args st l).map (withKw n a)
  | [], _, _ => rfl
  | p' :: r, st, h => by
      simp only [delegLoop, delegStep_kw_other L ps hf n a st p' (h p' (by simp)).1 (h p' (by simp)).2]
      cases delegStep L ps args st p' with
      | none => rfl
      | some st1 => exact delegLoop_kw_other L ps hf n a r st1 (fun x hx => h x (by simp [hx]))

theorem delegLoop_append (L : Lattice) (ps : List Param) (args : List Arg) : ∀ (l1 l2 : List Param) (st : DelSt),
    delegLoop L ps args st (l1 ++ l2) = (delegLoop L ps args st l1).bind fun st' => delegLoop L ps args st' l2
  | [], _, _ => rfl
  | p :: r, l2, st => by
      simp only [List.cons_append, delegLoop]
      cases delegStep L ps args st p with
      | none => rfl
      | some st1 => exact delegLoop_append L ps args r l2 st1

theorem delegLoop_rest (L : Lattice) (ps : List Param) (args : List Arg) (n : Name) : ∀ (l : List Param) (st st' : DelSt),
    delegLoop L ps args st l = some st' → ahas n st.rest = false → ahas n st'.rest = false
  | [], st, st', h, hn => by simp [delegLoop] at h; subst h; exact hn
  | p :: r, st, st', h, hn => by
      simp only [delegLoop] at h
      cases hs : delegStep L ps args st p with
      | none => simp [hs] at h
      | some st1 =>
          simp only [hs] at h
          exact delegLoop_rest L ps args n r st1 st' h (delegStep_rest L ps args n hs hn)

/-- **an argument may be passed positionally or by keyword** (under the parameter's alias name):
    moving the argument in slot `s` out of the argument list (empty slot, or cut off at the end) into
    the keywords leaves the vector `get_delegate` binds unchanged -/
theorem spelling_kw_move (L : Lattice) (ps : List Param) (args args' : List Arg) (kw : KwArgs)
    (p : Param) (pre post : List Param) (s : Nat) (a : Arg)
    (hps : ps = pre ++ p :: post) (hslot : slotOf ps p = some s) (hs : s < visCount ps)
    (hothers : ∀ p' ∈ pre ++ post, slotOf ps p' ≠ some s ∧ NameOther p.argName p')
    (hgiven : given args s = true) (hval : args.getD s .noValue = a)
    (hkw : ahas p.argName kw = false) (hf : SlotFreed s args args') :
    getDelegate L ps args' (kw ++ [(p.argName, a)]) = getDelegate L ps args kw := by
  apply getDelegate_tail L ps hf hs
  have hpre : ∀ p' ∈ pre, slotOf ps p' ≠ some s ∧ NameOther p.argName p' := fun p' h => hothers p' (by simp [h])
  have hpost : ∀ p' ∈ post, slotOf ps p' ≠ some s := fun p' h => (hothers p' (by simp [h])).1
  -- the step of `p` itself: positional in one run, keyword in the other, same resulting state
  have hstep : ∀ st : DelSt, ahas p.argName st.rest = false →
      delegStep L ps args' (withKw p.argName a st) p = delegStep L ps args st p := by
    intro st hr
    unfold slotOf at hslot
    cases hq : p.position with
    | none => simp [hq] at hslot
    | some q =>
        simp only [hq] at hslot
        by_cases hsh : (p.isStar || p.hidden) = true
        · simp [hsh] at hslot
        · simp only [hsh, Bool.false_eq_true, if_false, Option.some.injEq] at hslot
          simp only [Bool.or_eq_true, not_or, Bool.not_eq_true] at hsh
          unfold delegStep
          simp only [hq, hsh.1, hsh.2, Bool.false_eq_true, if_false, hslot, hf.freed, hgiven, hr, if_true, withKw,
            alookup_append_self _ _ _ hr, adel_append_self _ _ _ hr, hval]
  have h0 : ({ pos := List.replicate (positionalCount ps) none, kw := [], rest := kw ++ [(p.argName, a)],
               vis := positionalCount ps } : DelSt) =
      withKw p.argName a { pos := List.replicate (positionalCount ps) none, kw := [], rest := kw, vis := positionalCount ps } := rfl
  rw [h0]
  conv => lhs; arg 5; rw [hps]
  conv => rhs; arg 5; rw [hps]
  rw [delegLoop_append, delegLoop_append, delegLoop_kw_other L ps hf _ a pre _ hpre]
  cases h1 : delegLoop L ps args { pos := List.replicate (positionalCount ps) none, kw := [], rest := kw, vis := positionalCount ps } pre with
  | none => rfl
  | some st1 =>
      have hr := delegLoop_rest L ps args p.argName pre _ st1 h1 hkw
      simp only [Option.map_some, Option.bind_some, delegLoop, hstep st1 hr]
      cases delegStep L ps args st1 p with
      | none => rfl
      | some st2 => exact delegLoop_other L ps hf post st2 hpost

/-- the side conditions of the two move theorems, read off a checked table (`movesOk`, which
    `C12Gen.registry_moves_ok` establishes for every registered definition) -/
theorem movesOk_spec {ps : List Param} (hok : movesOk ps = true) {i : Nat} {p : Param} {s : Nat}
    (hi : ps[i]? = some p) (hslot : slotOf ps p = some s) :
    ps = ps.take i ++ p :: ps.drop (i + 1) ∧ s < visCount ps ∧
    ∀ p' ∈ ps.take i ++ ps.drop (i + 1), slotOf ps p' ≠ some s ∧ NameOther p.argName p' := by
  have hlt : i < ps.length := by
    rcases Nat.lt_or_ge i ps.length with h | h
    · exact h
    · rw [List.getElem?_eq_none h] at hi; cases hi
  have hget : ps[i] = p := by
    rw [List.getElem?_eq_getElem hlt] at hi; exact Option.some.inj hi
  unfold movesOk at hok
  rw [List.all_eq_true] at hok
  have := hok i (List.mem_range.2 hlt)
  simp only [hi, hslot, Bool.and_eq_true, decide_eq_true_eq, List.all_eq_true] at this
  refine ⟨?_, this.1, ?_⟩
  · have h1 := (List.take_append_drop i ps).symm
    rw [List.drop_eq_getElem_cons hlt, hget] at h1
    exact h1
  · intro p' hp'
    have h2 := this.2 p' hp'
    simp only [Bool.and_eq_true, bne_iff_ne, ne_eq, Bool.or_eq_true] at h2
    refine ⟨h2.1, fun hh => ?_⟩
    rcases h2.2 with h3 | h3
    · rw [hh] at h3; cases h3
    · exact h3

/-- the whole-vector statement as it was first written down.  It is FALSE (`spelling_equiv_unguarded_false`
    below): it lets one spelling pass an argument twice (in its slot and by keyword: ArgumentException) and
    lets the two keyword dictionaries differ in entries that no parameter takes (ArgumentException without
    `**`, another `**` dictionary with it); it also asks for the same *received* value, which does not cover
    a defaulted argument written out in one spelling and left out in the other.  The real `get_delegate`
    behaves like the model on both witnesses; the statement was sloppy, the code is not at fault.
    The corrected statement is `spelling_equiv_full` / `spelling_equiv` at the end of the section. -/
def spelling_equiv_unguarded : Prop :=
  ∀ (L : Lattice) (ps : List Param), wfDef ps = true →
    ∀ (args args' : List Arg) (kw kw' : KwArgs),
      (∀ p ∈ ps, p.hidden = false → p.isStar = false → p.isStarStar = false →
        -- the value each named parameter receives is the same in both spellings
        (match slotOf ps p with
          | some s => if given args s then some (args.getD s .noValue) else alookup p.argName kw
          | none => alookup p.argName kw) =
        (match slotOf ps p with
          | some s => if given args' s then some (args'.getD s .noValue) else alookup p.argName kw'
          | none => alookup p.argName kw')) →
      args.drop (visCount ps) = args'.drop (visCount ps) →
      getDelegate L ps args kw = getDelegate L ps args' kw'


/-! ## the whole argument vector -/

/-- `get_delegate` binds an argument (or the default) to `p`: a visible parameter other than `*` / `**` -/
def takes (p : Param) : Bool :=
  match p.position with
  | some _ => !p.isStar && !p.hidden
  | none => !p.isStarStar && !p.hidden

/-- what a spelling passes to `p`: the argument in its slot, else the keyword under its name -/
def received (ps : List Param) (p : Param) (args : List Arg) (kw : KwArgs) : Option Arg :=
  match slotOf ps p with
  | some s => if given args s then some (args.getD s .noValue) else alookup p.argName kw
  | none => alookup p.argName kw

/-- ... else its default -/
def effective (ps : List Param) (p : Param) (args : List Arg) (kw : KwArgs) : Option Arg :=
  match received ps p args kw with
  | some a => some a
  | none => p.default

/-- no argument is passed twice (in its slot and by keyword) -/
def noClash (ps : List Param) (args : List Arg) (kw : KwArgs) : Bool :=
  ps.all fun p => match slotOf ps p with
    | some s => !(given args s && ahas p.argName kw)
    | none => true

/-- the keywords that no named parameter takes (they go to `**`) -/
def extraKw (ps : List Param) (kw : KwArgs) : KwArgs := kw.filter fun kv => !(argNames ps).contains kv.1

/-- the state of the loop of `get_delegate` without the keyword dictionary -/
structure Core where
  pos : List (Option Slot)
  kw : List (Name × Slot)
  vis : Nat

def core (st : DelSt) : Core := ⟨st.pos, st.kw, st.vis⟩
def Core.withRest (c : Core) (r : KwArgs) : DelSt := { pos := c.pos, kw := c.kw, rest := r, vis := c.vis }

/-- one iteration of the loop of `get_delegate` as a function of the value `ev p` the parameter gets -/
def bindStep (L : Lattice) (ev : Param → Option Arg) (c : Core) (p : Param) : Option Core :=
  match p.position with
  | some q =>
      if p.isStar then some c
      else if p.hidden then some { c with pos := c.pos.set q (some (.hid p.ty)), vis := c.vis - 1 }
      else (ev p).bind fun v => (checked L p v).map fun s => { c with pos := c.pos.set q (some s) }
  | none =>
      if p.isStarStar then some c
      else if p.hidden then some { c with kw := aset p.name (.hid p.ty) c.kw }
      else (ev p).bind fun v => (checked L p v).map fun s => { c with kw := aset p.name s c.kw }

def bindLoop (L : Lattice) (ev : Param → Option Arg) : Core → List Param → Option Core
  | c, [] => some c
  | c, p :: r => match bindStep L ev c p with
      | some c' => bindLoop L ev c' r
      | none => none

def namesOf (l : List Param) : List Name := (l.filter takes).map (·.argName)
def dropNames (ns : List Name) (kw : KwArgs) : KwArgs := kw.filter fun kv => !ns.contains kv.1

theorem adel_of_ahas_false {α : Type} (k : Name) (l : List (Name × α)) (h : ahas k l = false) : adel k l = l := by
  simp only [ahas, List.any_eq_false] at h
  simp only [adel, List.filter_eq_self]
  intro a ha
  simpa using h a ha

theorem alookup_none_ahas {α : Type} (k : Name) : ∀ (l : List (Name × α)), alookup k l = none → ahas k l = false
  | [], _ => rfl
  | (k', v) :: r, h => by
      simp only [alookup] at h
      split at h
      · cases h
      · rename_i hk
        simp only [ahas, List.any_cons, hk, Bool.false_or]
        exact alookup_none_ahas k r h

theorem alookup_adel_other {α : Type} {k k' : Name} (hne : k ≠ k') : ∀ (l : List (Name × α)),
    alookup k (adel k' l) = alookup k l
  | [] => rfl
  | (k'', v) :: r => by
      have ih := alookup_adel_other hne r
      simp only [adel] at ih ⊢
      simp only [List.filter_cons]
      by_cases h1 : (k'' == k') = true
      · have : (k'' == k) = false := by
          rw [beq_iff_eq] at h1; subst h1
          exact beq_false_of_ne (fun e => hne e.symm)
        simp [h1, alookup, this, ih]
      · simp only [h1, Bool.not_false, if_true, alookup, Bool.false_eq_true] at *
        simp only [ih]

theorem ahas_adel_false {α : Type} (k k' : Name) (l : List (Name × α)) (h : ahas k l = false) :
    ahas k (adel k' l) = false := by
  cases hh : ahas k (adel k' l) with
  | false => rfl
  | true => rw [ahas_adel _ _ _ hh] at h; cases h

theorem ahas_adel_other {α : Type} {k k' : Name} (hne : k ≠ k') (l : List (Name × α)) :
    ahas k (adel k' l) = ahas k l := by
  simp only [ahas, adel, List.any_filter]
  congr 1
  funext x
  by_cases h : (x.1 == k) = true
  · have : (x.1 == k') = false := by
      rw [beq_iff_eq] at h; rw [h]; exact beq_false_of_ne hne
    simp [h, this]
  · simp [h]

theorem dropNames_nil (kw : KwArgs) : dropNames [] kw = kw := by simp [dropNames]

theorem dropNames_cons (n : Name) (ns : List Name) (kw : KwArgs) : dropNames (n :: ns) kw = dropNames ns (adel n kw) := by
  simp only [dropNames, adel, List.filter_filter]
  congr 1
  funext kv
  simp only [List.contains_cons, Bool.not_or, Bool.and_comm]


theorem core_withRest (c : Core) (r : KwArgs) : core (c.withRest r) = c := rfl
theorem withRest_core (st : DelSt) : (core st).withRest st.rest = st := rfl

/-- one iteration of `get_delegate`'s loop, when the parameter is not passed twice: it binds the
    effective value and strikes the parameter's name from the keywords -/
theorem delegStep_spec (L : Lattice) (ps : List Param) (args : List Arg) (st : DelSt) (p : Param)
    (ev : Param → Option Arg)
    (hev : takes p = true → ev p = effective ps p args st.rest)
    (hnc : ∀ s, slotOf ps p = some s → given args s = true → ahas p.argName st.rest = false) :
    delegStep L ps args st p =
      (bindStep L ev (core st) p).map fun c => c.withRest (if takes p then adel p.argName st.rest else st.rest) := by
  unfold delegStep bindStep
  cases hq : p.position with
  | some q =>
      simp only
      by_cases h1 : p.isStar = true
      · simp [h1, takes, hq, withRest_core]
      · by_cases h2 : p.hidden = true
        · simp [h1, h2, takes, hq, core, Core.withRest]
        · have ht : takes p = true := by simp [takes, hq, h1, h2]
          have hs : slotOf ps p = some (q - fixAt ps q) := by simp [slotOf, hq, h1, h2]
          have hev' := hev ht
          simp only [effective, received, hs] at hev'
          simp only [h1, h2, Bool.false_eq_true, if_false, ht, if_true]
          cases hg : given args (q - fixAt ps q) with
          | true =>
              have hr := hnc _ hs hg
              simp only [hg, if_true] at hev'
              simp only [hr, Bool.false_eq_true, if_false, if_true, hev', Option.bind_some, Option.map_map,
                adel_of_ahas_false _ _ hr]
              rfl
          | false =>
              simp only [hg, Bool.false_eq_true, if_false] at hev'
              cases hl : alookup p.argName st.rest with
              | some a =>
                  simp only [hl] at hev'
                  simp only [Bool.false_eq_true, if_false, hev', Option.bind_some, Option.map_map]
                  rfl
              | none =>
                  have hr := alookup_none_ahas _ _ hl
                  simp only [hl] at hev'
                  cases hd : p.default with
                  | some d =>
                      simp only [hd] at hev'
                      simp only [Bool.false_eq_true, if_false, hev', Option.bind_some, Option.map_map,
                        adel_of_ahas_false _ _ hr]
                      rfl
                  | none =>
                      simp only [hd] at hev'
                      simp only [Bool.false_eq_true, if_false, hev', Option.bind_none, Option.map_none]
  | none =>
      simp only
      by_cases h1 : p.isStarStar = true
      · simp [h1, takes, hq, withRest_core]
      · by_cases h2 : p.hidden = true
        · simp [h1, h2, takes, hq, core, Core.withRest]
        · have ht : takes p = true := by simp [takes, hq, h1, h2]
          have hs : slotOf ps p = none := by simp [slotOf, hq]
          have hev' := hev ht
          simp only [effective, received, hs] at hev'
          simp only [h1, h2, Bool.false_eq_true, if_false, ht, if_true]
          cases hl : alookup p.argName st.rest with
          | some a =>
              simp only [hl] at hev'
              simp only [hev', Option.bind_some, Option.map_map]
              rfl
          | none =>
              have hr := alookup_none_ahas _ _ hl
              simp only [hl] at hev'
              cases hd : p.default with
              | some d =>
                  simp only [hd] at hev'
                  simp only [hev', Option.bind_some, Option.map_map, adel_of_ahas_false _ _ hr]
                  rfl
              | none =>
                  simp only [hd] at hev'
                  simp only [hev', Option.bind_none, Option.map_none]


theorem effective_adel (ps : List Param) (p : Param) (args : List Arg) (kw : KwArgs) {k : Name}
    (hne : p.argName ≠ k) : effective ps p args (adel k kw) = effective ps p args kw := by
  simp only [effective, received, alookup_adel_other hne]

theorem namesOf_cons (p : Param) (r : List Param) :
    namesOf (p :: r) = if takes p then p.argName :: namesOf r else namesOf r := by
  simp only [namesOf, List.filter_cons]
  split <;> simp

theorem mem_namesOf {p : Param} {l : List Param} (hp : p ∈ l) (ht : takes p = true) : p.argName ∈ namesOf l := by
  simp only [namesOf, List.mem_map, List.mem_filter]
  exact ⟨p, ⟨hp, ht⟩, rfl⟩

/-- the loop of `get_delegate`, when no parameter is passed twice and the names are distinct: every
    parameter is bound to its effective value, and the names of the parameters are struck from the
    keywords -/
theorem delegLoop_spec (L : Lattice) (ps : List Param) (args : List Arg) (ev : Param → Option Arg) :
    ∀ (l : List Param) (st : DelSt), distinct (namesOf l) = true →
    (∀ p ∈ l, takes p = true → ev p = effective ps p args st.rest) →
    (∀ p ∈ l, ∀ s, slotOf ps p = some s → given args s = true → ahas p.argName st.rest = false) →
    delegLoop L ps args st l =
      (bindLoop L ev (core st) l).map fun c => c.withRest (dropNames (namesOf l) st.rest)
  | [], st, _, _, _ => by
      simp only [delegLoop, bindLoop, namesOf, List.filter_nil, List.map_nil, dropNames_nil, Option.map_some,
        withRest_core]
  | p :: r, st, hd, hev, hnc => by
      simp only [delegLoop, bindLoop, delegStep_spec L ps args st p ev (hev p (by simp)) (hnc p (by simp))]
      cases hb : bindStep L ev (core st) p with
      | none => rfl
      | some c1 =>
          simp only [Option.map_some]
          rw [namesOf_cons] at hd ⊢
          by_cases ht : takes p = true
          · simp only [ht, if_true, distinct, Bool.and_eq_true, Bool.not_eq_true', List.contains_eq_mem,
              decide_eq_false_iff_not] at hd ⊢
            have hne : ∀ p' ∈ r, takes p' = true → p'.argName ≠ p.argName := fun p' hp' ht' e =>
              hd.1 (e ▸ mem_namesOf hp' ht')
            rw [delegLoop_spec L ps args ev r (c1.withRest (adel p.argName st.rest)) hd.2
              (fun p' hp' ht' => by
                rw [hev p' (by simp [hp']) ht']
                exact (effective_adel ps p' args st.rest (hne p' hp' ht')).symm)
              (fun p' hp' s hs hg => ahas_adel_false _ _ _ (hnc p' (by simp [hp']) s hs hg))]
            simp only [core_withRest, dropNames_cons]
            rfl
          · simp only [ht, Bool.false_eq_true, if_false] at hd ⊢
            rw [delegLoop_spec L ps args ev r (c1.withRest st.rest) hd
              (fun p' hp' ht' => hev p' (by simp [hp']) ht')
              (fun p' hp' s hs hg => hnc p' (by simp [hp']) s hs hg)]
            simp only [core_withRest]
            rfl


/-- the part of `get_delegate` after the loop -/
def finish (L : Lattice) (ps : List Param) (args : List Arg) (st : DelSt) : Option Bound :=
  let extra? : Option (List Arg) :=
    if args.length > st.vis then
      match starParam ps with
      | some sp => if (args.drop st.vis).all (check L sp.ty) then some (args.drop st.vis) else none
      | none => none
    else some []
  match extra? with
  | none => none
  | some extra =>
      if st.rest.isEmpty then some { pos := st.pos, extra := extra, kw := st.kw }
      else match starStarParam ps with
        | some sp =>
            if st.rest.all (fun kv => check L sp.ty kv.2) then
              some { pos := st.pos, extra := extra,
                     kw := st.rest.foldl (fun acc kv => aset kv.1 (.arg kv.2) acc) st.kw }
            else none
        | none => none

def core0 (ps : List Param) : Core := ⟨List.replicate (positionalCount ps) none, [], positionalCount ps⟩

theorem getDelegate_eq_finish (L : Lattice) (ps : List Param) (args : List Arg) (kw : KwArgs) :
    getDelegate L ps args kw = (delegLoop L ps args ((core0 ps).withRest kw) ps).bind (finish L ps args) := by
  unfold getDelegate
  simp only [core0, Core.withRest]
  cases delegLoop L ps args _ ps <;> rfl

theorem finish_congr (L : Lattice) (ps : List Param) {args args' : List Arg} (st : DelSt)
    (h : args.drop st.vis = args'.drop st.vis) : finish L ps args st = finish L ps args' st := by
  have hlen : (args.length > st.vis) = (args'.length > st.vis) := by
    apply propext
    have h1 := @List.drop_eq_nil_iff _ args st.vis
    have h2 := @List.drop_eq_nil_iff _ args' st.vis
    rw [h] at h1
    have h3 : args.length ≤ st.vis ↔ args'.length ≤ st.vis := h1.symm.trans h2
    constructor <;> intro hh <;> omega
  unfold finish
  simp only [hlen, h]

theorem bindStep_congr (L : Lattice) {ev ev' : Param → Option Arg} (c : Core) (p : Param)
    (h : takes p = true → ev p = ev' p) : bindStep L ev c p = bindStep L ev' c p := by
  unfold bindStep
  cases hq : p.position with
  | some q =>
      simp only
      by_cases h1 : p.isStar = true
      · simp [h1]
      · by_cases h2 : p.hidden = true
        · simp [h1, h2]
        · rw [h (by simp [takes, hq, h1, h2])]
  | none =>
      simp only
      by_cases h1 : p.isStarStar = true
      · simp [h1]
      · by_cases h2 : p.hidden = true
        · simp [h1, h2]
        · rw [h (by simp [takes, hq, h1, h2])]

theorem bindLoop_congr (L : Lattice) {ev ev' : Param → Option Arg} : ∀ (l : List Param) (c : Core),
    (∀ p ∈ l, takes p = true → ev p = ev' p) → bindLoop L ev c l = bindLoop L ev' c l
  | [], _, _ => rfl
  | p :: r, c, h => by
      simp only [bindLoop, bindStep_congr L c p (h p (by simp))]
      cases bindStep L ev' c p with
      | none => rfl
      | some c1 => exact bindLoop_congr L r c1 (fun x hx => h x (by simp [hx]))

/-- what a well-formed table gives the proof: the parameters `get_delegate` binds arguments to are the
    visible ones other than `*` / `**`, and their names are pairwise distinct -/
theorem wfDef_takes {ps : List Param} (hwf : wfDef ps = true) :
    (∀ p ∈ ps, takes p = (!p.hidden && !p.isStar && !p.isStarStar)) ∧ distinct (namesOf ps) = true := by
  simp only [wfDef, Bool.and_eq_true, List.all_eq_true, List.mem_filter, and_imp, beq_iff_eq] at hwf
  obtain ⟨⟨⟨⟨⟨⟨_, _⟩, hd⟩, _⟩, _⟩, hstar⟩, hss⟩ := hwf
  have ht : ∀ p ∈ ps, takes p = (!p.hidden && !p.isStar && !p.isStarStar) := by
    intro p hp
    have hex : ¬ (p.isStar = true ∧ p.isStarStar = true) := by
      simp only [Param.isStar, Param.isStarStar, beq_iff_eq]
      rintro ⟨a, b⟩; rw [a] at b; cases b
    unfold takes
    cases hq : p.position with
    | some q =>
        cases h2 : p.isStarStar with
        | true => have := hss p hp h2; rw [hq] at this; cases this
        | false => cases p.isStar <;> cases p.hidden <;> rfl
    | none =>
        cases h1 : p.isStar with
        | true => have := hstar p hp h1; rw [hq] at this; cases this
        | false => cases p.isStarStar <;> cases p.hidden <;> rfl
  refine ⟨ht, ?_⟩
  have : namesOf ps = argNames ps := by
    simp only [namesOf, argNames]
    congr 1
    apply List.filter_congr
    intro p hp
    rw [ht p hp]
  rw [this]; exact hd


theorem noClash_spec {ps : List Param} {args : List Arg} {kw : KwArgs} (h : noClash ps args kw = true) :
    ∀ p ∈ ps, ∀ s, slotOf ps p = some s → given args s = true → ahas p.argName kw = false := by
  intro p hp s hs hg
  simp only [noClash, List.all_eq_true] at h
  have := h p hp
  simpa [hs, hg] using this

/-- **what `get_delegate` binds is a function of the value every parameter receives**, of the arguments
    beyond the visible slots and of the keywords no parameter takes (when nothing is passed twice) -/
theorem getDelegate_eq_of_received (L : Lattice) (ps : List Param) (hwf : wfDef ps = true)
    (args : List Arg) (kw : KwArgs) (hnc : noClash ps args kw = true) :
    getDelegate L ps args kw =
      (bindLoop L (fun p => effective ps p args kw) (core0 ps) ps).bind fun c =>
        finish L ps args (c.withRest (extraKw ps kw)) := by
  obtain ⟨ht, hd⟩ := wfDef_takes hwf
  have hn : namesOf ps = argNames ps := by
    simp only [namesOf, argNames]
    congr 1
    apply List.filter_congr
    intro p hp
    rw [ht p hp]
  rw [getDelegate_eq_finish,
    delegLoop_spec L ps args (fun p => effective ps p args kw) ps ((core0 ps).withRest kw) hd
      (fun _ _ _ => rfl) (noClash_spec hnc)]
  rw [core_withRest, hn]
  cases bindLoop L (fun p => effective ps p args kw) (core0 ps) ps <;> rfl

/-- an argument passed twice - in its slot and by keyword - is an ArgumentException -/
theorem delegLoop_clash (L : Lattice) (ps : List Param) (args : List Arg) : ∀ (l : List Param) (st : DelSt),
    distinct (namesOf l) = true →
    (∃ p ∈ l, ∃ s, slotOf ps p = some s ∧ given args s = true ∧ ahas p.argName st.rest = true) →
    delegLoop L ps args st l = none
  | [], _, _, h => by obtain ⟨p, hp, _⟩ := h; cases hp
  | x :: r, st, hd, h => by
      simp only [delegLoop]
      by_cases hx : ∃ s, slotOf ps x = some s ∧ given args s = true ∧ ahas x.argName st.rest = true
      · obtain ⟨s, hs, hg, hk⟩ := hx
        have : delegStep L ps args st x = none := by
          unfold slotOf at hs
          unfold delegStep
          cases hq : x.position with
          | none => simp [hq] at hs
          | some q =>
              simp only [hq] at hs
              by_cases hsh : (x.isStar || x.hidden) = true
              · simp [hsh] at hs
              · simp only [hsh, Bool.false_eq_true, if_false, Option.some.injEq] at hs
                simp only [Bool.or_eq_true, not_or, Bool.not_eq_true] at hsh
                simp only [hsh.1, hsh.2, Bool.false_eq_true, if_false, hs, hg, hk, if_true]
        simp only [this]
      · have hnc : ∀ s, slotOf ps x = some s → given args s = true → ahas x.argName st.rest = false := by
          intro s hs hg
          cases hk : ahas x.argName st.rest with
          | false => rfl
          | true => exact absurd ⟨s, hs, hg, hk⟩ hx
        rw [delegStep_spec L ps args st x (fun p => effective ps p args st.rest) (fun _ => rfl) hnc]
        cases hb : bindStep L (fun p => effective ps p args st.rest) (core st) x with
        | none => rfl
        | some c1 =>
            simp only [Option.map_some]
            obtain ⟨p, hp, s, hs, hg, hk⟩ := h
            have hpr : p ∈ r := by
              rcases List.mem_cons.1 hp with rfl | hpr
              · exact absurd ⟨s, hs, hg, hk⟩ hx
              · exact hpr
            have htp : takes p = true := by
              unfold slotOf at hs
              unfold takes
              cases hq : p.position with
              | none => simp [hq] at hs
              | some q =>
                  simp only [hq] at hs
                  by_cases hsh : (p.isStar || p.hidden) = true
                  · simp [hsh] at hs
                  · simp only [Bool.or_eq_true, not_or, Bool.not_eq_true] at hsh
                    simp [hsh.1, hsh.2]
            rw [namesOf_cons] at hd
            by_cases htx : takes x = true
            · simp only [htx, if_true, distinct, Bool.and_eq_true, Bool.not_eq_true', List.contains_eq_mem,
                decide_eq_false_iff_not] at hd
              have hne : p.argName ≠ x.argName := fun e => hd.1 (e ▸ mem_namesOf hpr htp)
              apply delegLoop_clash L ps args r _ hd.2
              refine ⟨p, hpr, s, hs, hg, ?_⟩
              simp only [htx, if_true, Core.withRest, ahas_adel_other hne, hk]
            · simp only [htx, Bool.false_eq_true, if_false] at hd
              apply delegLoop_clash L ps args r _ hd
              exact ⟨p, hpr, s, hs, hg, by simpa [htx, Core.withRest] using hk⟩

theorem getDelegate_clash (L : Lattice) (ps : List Param) (hwf : wfDef ps = true)
    (args : List Arg) (kw : KwArgs) (hc : noClash ps args kw = false) : getDelegate L ps args kw = none := by
  obtain ⟨_, hd⟩ := wfDef_takes hwf
  rw [getDelegate_eq_finish, delegLoop_clash L ps args ps _ hd]
  · rfl
  · simp only [noClash, List.all_eq_false] at hc
    obtain ⟨p, hp, hc⟩ := hc
    cases hs : slotOf ps p with
    | none => simp [hs] at hc
    | some s =>
        simp only [hs, Bool.not_eq_true, Bool.not_eq_false', Bool.and_eq_true] at hc
        exact ⟨p, hp, s, hs, hc.1, hc.2⟩

/-- the number of visible slots after the loop -/
theorem bindLoop_vis (L : Lattice) (ev : Param → Option Arg) : ∀ (l : List Param) (c c' : Core),
    bindLoop L ev c l = some c' → c'.vis = c.vis - (l.filter hiddenPositional).length
  | [], c, c', h => by simp [bindLoop] at h; subst h; simp
  | p :: r, c, c', h => by
      simp only [bindLoop] at h
      cases hs : bindStep L ev c p with
      | none => simp [hs] at h
      | some c1 =>
          simp only [hs] at h
          have ih := bindLoop_vis L ev r c1 c' h
          have hv : c1.vis = c.vis - (if hiddenPositional p then 1 else 0) := by
            unfold bindStep at hs
            cases hq : p.position with
            | some q =>
                simp only [hq] at hs
                by_cases h1 : p.isStar = true
                · simp [h1] at hs; subst hs; simp [hiddenPositional, h1]
                · by_cases h2 : p.hidden = true
                  · simp [h1, h2] at hs; subst hs; simp [hiddenPositional, hq, h1, h2]
                  · simp only [h1, h2, Bool.false_eq_true, if_false, Option.bind_eq_some_iff,
                      Option.map_eq_some_iff] at hs
                    obtain ⟨_, _, _, _, rfl⟩ := hs
                    simp [hiddenPositional, h2]
            | none =>
                simp only [hq] at hs
                by_cases h1 : p.isStarStar = true
                · simp [h1] at hs; subst hs; simp [hiddenPositional, hq]
                · by_cases h2 : p.hidden = true
                  · simp [h1, h2] at hs; subst hs; simp [hiddenPositional, hq]
                  · simp only [h1, h2, Bool.false_eq_true, if_false, Option.bind_eq_some_iff,
                      Option.map_eq_some_iff] at hs
                    obtain ⟨_, _, _, _, rfl⟩ := hs
                    simp [hiddenPositional, h2]
          rw [ih, hv]
          simp only [List.filter_cons]
          split <;> simp <;> omega

/-- **all ways of passing the same arguments bind the same vector** (the corrected whole-vector
    statement): two spellings of a call of a well-formed definition in which every named parameter ends up
    with the same value - passed in its slot, by keyword under its name in any order, or (defaulted) left
    out, skipped with an empty slot or written out - with the same arguments beyond the named slots (`*`'s
    share) and the same keywords that no parameter takes (`**`'s share), and which either both or neither
    pass some argument twice, make `get_delegate` bind the same vector or fail alike -/
def spelling_equiv_full : Prop :=
  ∀ (L : Lattice) (ps : List Param), wfDef ps = true →
    ∀ (args args' : List Arg) (kw kw' : KwArgs),
      (∀ p ∈ ps, p.hidden = false → p.isStar = false → p.isStarStar = false →
        effective ps p args kw = effective ps p args' kw') →
      args.drop (visCount ps) = args'.drop (visCount ps) →
      extraKw ps kw = extraKw ps kw' →
      noClash ps args kw = noClash ps args' kw' →
      getDelegate L ps args kw = getDelegate L ps args' kw'

theorem spelling_equiv : spelling_equiv_full := by
  intro L ps hwf args args' kw kw' hval hstar hextra hclash
  cases hc : noClash ps args kw with
  | false => rw [getDelegate_clash L ps hwf args kw hc, getDelegate_clash L ps hwf args' kw' (hclash ▸ hc)]
  | true =>
      obtain ⟨ht, _⟩ := wfDef_takes hwf
      rw [getDelegate_eq_of_received L ps hwf args kw hc,
        getDelegate_eq_of_received L ps hwf args' kw' (hclash ▸ hc), hextra,
        bindLoop_congr L (ev := fun p => effective ps p args kw) (ev' := fun p => effective ps p args' kw') ps _
          (fun p hp htp => by
            rw [ht p hp] at htp
            simp only [Bool.and_eq_true, Bool.not_eq_true'] at htp
            exact hval p hp htp.1.1 htp.1.2 htp.2)]
      cases hb : bindLoop L (fun p => effective ps p args' kw') (core0 ps) ps with
      | none => rfl
      | some c =>
          have hv := bindLoop_vis L _ ps _ c hb
          simp only [Option.bind_some]
          apply finish_congr
          simp only [Core.withRest, hv, core0]
          exact hstar

/-- the first version of the statement (same received values, no guards) follows wherever its two
    missing guards hold -/
theorem spelling_equiv_of_received (L : Lattice) (ps : List Param) (hwf : wfDef ps = true)
    (args args' : List Arg) (kw kw' : KwArgs)
    (hval : ∀ p ∈ ps, p.hidden = false → p.isStar = false → p.isStarStar = false →
      received ps p args kw = received ps p args' kw')
    (hstar : args.drop (visCount ps) = args'.drop (visCount ps))
    (hextra : extraKw ps kw = extraKw ps kw') (hclash : noClash ps args kw = noClash ps args' kw') :
    getDelegate L ps args kw = getDelegate L ps args' kw' :=
  spelling_equiv L ps hwf args args' kw kw'
    (fun p hp h1 h2 h3 => by simp only [effective, hval p hp h1 h2 h3]) hstar hextra hclash

namespace Ex12
open C05.Ex
def pa : Param := pos 'a' 0 (cls 4)
def pb : Param := { pos 'b' 1 (cls 4) with default := some (.value dVal) }
def pkw : Param := { key := .starstar, name := ['k'], alias := none, position := none, default := none, ty := cls 4 }
def v : Arg := .value dVal
def v' : Arg := .value (.obj 4 [] 2)
def psab : List Param := [pa, pb]
end Ex12

open Ex12 in
/-- the unguarded statement is false: `f(x, a => x)` passes `a` twice and is rejected, `f(x)` is bound;
    both give `a` the same received value `x` -/
theorem spelling_equiv_unguarded_false : ¬ spelling_equiv_unguarded := by
  intro h
  have h1 := h C05.Ex.lat [pa] (by decide) [v] [v] [(['a'], v')] []
    (by intro p hp; simp only [List.mem_singleton] at hp; subst hp; intros; decide) (by decide)
  exact absurd h1 (by decide)

open Ex12 in
/-- each guard of `spelling_equiv_full` is needed: without `noClash .. = noClash ..` the witness above;
    without `extraKw .. = extraKw ..` a keyword that no parameter takes (`f(x, z => x)`: rejected; with a
    `**` parameter: another `**` dictionary); the remaining hypotheses hold in all three -/
example :
    (wfDef [pa] = true ∧ effective [pa] pa [v] [(['a'], v')] = effective [pa] pa [v] [] ∧
      extraKw [pa] [(['a'], v')] = extraKw [pa] [] ∧
      getDelegate C05.Ex.lat [pa] [v] [(['a'], v')] ≠ getDelegate C05.Ex.lat [pa] [v] []) ∧
    (effective [pa] pa [v] [(['z'], v)] = effective [pa] pa [v] [] ∧
      noClash [pa] [v] [(['z'], v)] = noClash [pa] [v] [] ∧
      getDelegate C05.Ex.lat [pa] [v] [(['z'], v)] ≠ getDelegate C05.Ex.lat [pa] [v] []) ∧
    (wfDef [pa, pkw] = true ∧ effective [pa, pkw] pa [v] [(['z'], v)] = effective [pa, pkw] pa [v] [(['y'], v)] ∧
      noClash [pa, pkw] [v] [(['z'], v)] = noClash [pa, pkw] [v] [(['y'], v)] ∧
      (getDelegate C05.Ex.lat [pa, pkw] [v] [(['z'], v)]).isSome = true ∧
      getDelegate C05.Ex.lat [pa, pkw] [v] [(['z'], v)] ≠ getDelegate C05.Ex.lat [pa, pkw] [v] [(['y'], v)]) := by
  decide

open Ex12 in
/-- non-vacuity of `spelling_equiv`: `f(a, b = d)` called as `f(x)`, `f(x, d)`, `f(x, <empty>)`,
    `f(b => d, a => x)`, `f(a => x)`, `f(x, b => d)`: the hypotheses hold pairwise with the first and the vector is bound -/
example :
    wfDef psab = true ∧ (getDelegate C05.Ex.lat psab [v'] []).isSome = true ∧
    ([([v', v], []), ([v', .noValue], []), ([], [(['b'], v), (['a'], v')]), ([], [(['a'], v')]),
      ([v'], [(['b'], v)])] : List (List Arg × KwArgs)).all (fun sp =>
        psab.all (fun p => effective psab p sp.1 sp.2 == effective psab p [v'] []) &&
        sp.1.drop (visCount psab) == ([v'] : List Arg).drop (visCount psab) &&
        extraKw psab sp.2 == extraKw psab [] && noClash psab sp.1 sp.2 == noClash psab [v'] [] &&
        getDelegate C05.Ex.lat psab sp.1 sp.2 == getDelegate C05.Ex.lat psab [v'] []) = true := by
  decide

/-! ## map_args on the whole argument vector -/

/-- the slot `map_args` enters `p` into (given that `p` is not passed twice and has a value) -/
def claim (ps : List Param) (args : List Arg) (rest : KwArgs) (p : Param) : Option Nat :=
  match slotOf ps p with
  | some s =>
      if given args s then some s
      else if ahas p.argName rest then none
      else if s < args.length then some s else none
  | none => none

/-- the final loop of `map_args` at one slot -/
def goodV (L : Lattice) (a : Arg) (o : Option Param) : Bool :=
  match o with
  | some p => check L p.ty (if a.isNoValue then p.default.getD .noValue else a)
  | none => false

theorem posOk_of_good (L : Lattice) : ∀ (pos : List (Option Param)) (args : List Arg),
    pos.length = args.length →
    (∀ i, i < pos.length → goodV L (args.getD i .noValue) (pos.getD i none) = true) → posOk L pos args = true
  | [], _, _, _ => by simp [posOk]
  | o :: r, [], h, _ => by simp at h
  | o :: r, a :: as, h, hg => by
      have h0 := hg 0 (by simp)
      simp only [List.getD_cons_zero] at h0
      cases o with
      | none => simp [goodV] at h0
      | some p =>
          simp only [goodV] at h0
          simp only [posOk, h0, Bool.true_and]
          apply posOk_of_good L r as (by simpa using h)
          intro i hi
          have := hg (i + 1) (by simp; omega)
          simpa using this

theorem isNoValue_eq {a : Arg} (h : a.isNoValue = true) : a = .noValue := by
  cases a <;> simp [Arg.isNoValue] at h ⊢

theorem given_false_lt {args : List Arg} {s : Nat} (hg : given args s = false) (hs : s < args.length) :
    (args.getD s .noValue).isNoValue = true := by
  simp only [given, List.getElem?_eq_getElem hs, Bool.not_eq_false'] at hg
  simp only [List.getD_eq_getElem?_getD, List.getElem?_eq_getElem hs, Option.getD_some, hg]

theorem given_true_val {args : List Arg} {s : Nat} (hg : given args s = true) :
    s < args.length ∧ (args.getD s .noValue).isNoValue = false := by
  simp only [given] at hg
  cases h : args[s]? with
  | none => simp [h] at hg
  | some a =>
      simp only [h, Bool.not_eq_true'] at hg
      have hlt : s < args.length := by
        rcases Nat.lt_or_ge s args.length with hl | hl
        · exact hl
        · rw [List.getElem?_eq_none hl] at h; cases h
      exact ⟨hlt, by simp [List.getD_eq_getElem?_getD, h, hg]⟩

/-- whoever enters a slot passes the final check of `map_args` there, if `get_delegate` accepts its value -/
theorem claim_good (L : Lattice) (ps : List Param) (args : List Arg) (rest : KwArgs) (p : Param) (s : Nat) (v : Arg)
    (hc : claim ps args rest p = some s) (he : effective ps p args rest = some v) (hv : check L p.ty v = true) :
    s < args.length ∧ goodV L (args.getD s .noValue) (some p) = true := by
  unfold claim at hc
  cases hs : slotOf ps p with
  | none => simp [hs] at hc
  | some s' =>
      simp only [hs] at hc
      simp only [effective, received, hs] at he
      cases hg : given args s' with
      | true =>
          simp only [hg, if_true, Option.some.injEq] at hc he
          subst hc
          obtain ⟨hlt, hnv⟩ := given_true_val hg
          refine ⟨hlt, ?_⟩
          rw [he] at hnv
          simp only [goodV, he, hnv, Bool.false_eq_true, if_false, hv]
      | false =>
          simp only [hg, Bool.false_eq_true, if_false] at hc he
          cases hk : ahas p.argName rest with
          | true => simp [hk] at hc
          | false =>
              simp only [hk, Bool.false_eq_true, if_false] at hc
              split at hc
              · rename_i hlt
                simp only [Option.some.injEq] at hc
                subst hc
                refine ⟨hlt, ?_⟩
                simp only [ahas_false_lookup _ _ hk] at he
                simp only [goodV, given_false_lt hg hlt, if_true, he, Option.getD_some, hv]
              · cases hc

/-- one iteration of the loop of `map_args` for a parameter that is not passed twice and has a value -/
theorem mapStep_spec (ps : List Param) (args : List Arg) (st : MapSt) (p : Param)
    (hnc : ∀ s, slotOf ps p = some s → given args s = true → ahas p.argName st.rest = false)
    (hv : takes p = true → (effective ps p args st.rest).isSome = true) :
    ∃ st1, mapStep ps args st p = some st1 ∧
      st1.rest = (if takes p then adel p.argName st.rest else st.rest) ∧
      st1.pos = (match claim ps args st.rest p with | some s => st.pos.set s (some p) | none => st.pos) := by
  unfold mapStep
  cases hq : p.position with
  | some q =>
      simp only
      by_cases h1 : p.isStar = true
      · exact ⟨st, by simp [h1], by simp [takes, hq, h1], by simp [claim, slotOf, hq, h1]⟩
      · by_cases h2 : p.hidden = true
        · exact ⟨st, by simp [h1, h2], by simp [takes, hq, h1, h2], by simp [claim, slotOf, hq, h1, h2]⟩
        · have ht : takes p = true := by simp [takes, hq, h1, h2]
          have hs : slotOf ps p = some (q - fixAt ps q) := by simp [slotOf, hq, h1, h2]
          have hv' := hv ht
          simp only [effective, received, hs] at hv'
          simp only [h1, h2, Bool.false_eq_true, if_false, ht, if_true, claim, hs]
          cases hg : given args (q - fixAt ps q) with
          | true =>
              have hr := hnc _ hs hg
              simp only [hr, if_true, Bool.false_eq_true, if_false, adel_of_ahas_false _ _ hr]
              exact ⟨_, rfl, rfl, rfl⟩
          | false =>
              simp only [hg, Bool.false_eq_true, if_false] at hv' ⊢
              cases hk : ahas p.argName st.rest with
              | true =>
                  simp only [if_true]
                  exact ⟨_, rfl, rfl, rfl⟩
              | false =>
                  simp only [ahas_false_lookup _ _ hk] at hv'
                  cases hd : p.default with
                  | none => simp [hd] at hv'
                  | some d =>
                      simp only [Bool.false_eq_true, if_false, Option.isNone_some, adel_of_ahas_false _ _ hk]
                      by_cases hlt : q - fixAt ps q < args.length
                      · simp only [hlt, if_true]
                        exact ⟨_, rfl, rfl, rfl⟩
                      · simp only [hlt, if_false]
                        exact ⟨_, rfl, rfl, rfl⟩
  | none =>
      simp only
      by_cases h1 : p.isStarStar = true
      · exact ⟨st, by simp [h1], by simp [takes, hq, h1], by simp [claim, slotOf, hq]⟩
      · by_cases h2 : p.hidden = true
        · exact ⟨st, by simp [h1, h2], by simp [takes, hq, h1, h2], by simp [claim, slotOf, hq]⟩
        · have ht : takes p = true := by simp [takes, hq, h1, h2]
          have hs : slotOf ps p = none := by simp [slotOf, hq]
          have hv' := hv ht
          simp only [effective, received, hs] at hv'
          simp only [h1, h2, Bool.false_eq_true, if_false, ht, if_true, claim, hs]
          cases hk : ahas p.argName st.rest with
          | true =>
              simp only [if_true]
              exact ⟨_, rfl, rfl, rfl⟩
          | false =>
              simp only [ahas_false_lookup _ _ hk] at hv'
              cases hd : p.default with
              | none => simp [hd] at hv'
              | some d =>
                  simp only [Bool.false_eq_true, if_false, Option.isNone_some, adel_of_ahas_false _ _ hk]
                  exact ⟨_, rfl, rfl, rfl⟩


theorem getD_set_self' {α : Type} {l : List α} {i : Nat} (a d : α) (h : i < l.length) : (l.set i a).getD i d = a := by
  simp only [List.getD_eq_getElem?_getD, List.getElem?_set_self h, Option.getD_some]

theorem getD_set_ne' {α : Type} {l : List α} {s i : Nat} (a d : α) (h : s ≠ i) : (l.set s a).getD i d = l.getD i d := by
  simp only [List.getD_eq_getElem?_getD, List.getElem?_set_ne h]

theorem takes_of_slot {ps : List Param} {p : Param} {s : Nat} (hs : slotOf ps p = some s) : takes p = true := by
  unfold slotOf at hs
  unfold takes
  cases hq : p.position with
  | none => simp [hq] at hs
  | some q =>
      simp only [hq] at hs
      by_cases hsh : (p.isStar || p.hidden) = true
      · simp [hsh] at hs
      · simp only [Bool.or_eq_true, not_or, Bool.not_eq_true] at hsh
        simp [hsh.1, hsh.2]

theorem claim_slot {ps : List Param} {args : List Arg} {rest : KwArgs} {p : Param} {i : Nat}
    (h : claim ps args rest p = some i) : slotOf ps p = some i := by
  unfold claim at h
  cases hs : slotOf ps p with
  | none => simp [hs] at h
  | some s =>
      simp only [hs] at h
      split at h
      · exact h
      · split at h
        · cases h
        · split at h
          · exact h
          · cases h

theorem claim_adel (ps : List Param) (args : List Arg) (rest : KwArgs) (p : Param) {k : Name}
    (hne : p.argName ≠ k) : claim ps args (adel k rest) p = claim ps args rest p := by
  simp only [claim, ahas_adel_other hne]

/-- the loop of `map_args` on a vector that `get_delegate` binds: it succeeds, strikes the parameters'
    names from the keywords, and every slot that was fine before or is entered by someone is fine after -/
theorem mapLoop_spec (L : Lattice) (ps : List Param) (args : List Arg) : ∀ (l : List Param) (st : MapSt),
    distinct (namesOf l) = true → st.pos.length = args.length →
    (∀ p ∈ l, ∀ s, slotOf ps p = some s → given args s = true → ahas p.argName st.rest = false) →
    (∀ p ∈ l, takes p = true → ∃ v, effective ps p args st.rest = some v ∧ check L p.ty v = true) →
    ∃ st', mapLoop ps args st l = some st' ∧ st'.rest = dropNames (namesOf l) st.rest ∧
      st'.pos.length = args.length ∧
      ∀ i, (goodV L (args.getD i .noValue) (st.pos.getD i none) = true ∨ ∃ p ∈ l, claim ps args st.rest p = some i) →
        goodV L (args.getD i .noValue) (st'.pos.getD i none) = true
  | [], st, _, hlen, _, _ => by
      refine ⟨st, rfl, by simp [namesOf, dropNames_nil], hlen, ?_⟩
      rintro i (h | ⟨p, hp, _⟩)
      · exact h
      · cases hp
  | p :: r, st, hd, hlen, hnc, hval => by
      obtain ⟨st1, hstep, hrest1, hpos1⟩ := mapStep_spec ps args st p (hnc p (by simp))
        (fun ht => by obtain ⟨v, hv, _⟩ := hval p (by simp) ht; simp [hv])
      -- slot `i` after the step of `p`
      have hgood1 : ∀ i, (goodV L (args.getD i .noValue) (st.pos.getD i none) = true ∨ claim ps args st.rest p = some i) →
          goodV L (args.getD i .noValue) (st1.pos.getD i none) = true := by
        intro i hi
        cases hc : claim ps args st.rest p with
        | none =>
            simp only [hc] at hpos1
            rw [hpos1]
            rcases hi with h | h
            · exact h
            · rw [hc] at h; cases h
        | some s =>
            simp only [hc] at hpos1
            obtain ⟨v, hv, hcv⟩ := hval p (by simp) (takes_of_slot (claim_slot hc))
            obtain ⟨hlt, hg⟩ := claim_good L ps args st.rest p s v hc hv hcv
            by_cases hsi : s = i
            · subst hsi
              rw [hpos1, getD_set_self' _ _ (by omega)]
              exact hg
            · rw [hpos1, getD_set_ne' _ _ hsi]
              rcases hi with h | h
              · exact h
              · rw [hc] at h; exact absurd (Option.some.inj h) hsi
      have hlen1 : st1.pos.length = args.length := by
        rw [hpos1]; split <;> simp [hlen]
      rw [namesOf_cons] at hd ⊢
      simp only [mapLoop, hstep]
      by_cases ht : takes p = true
      · simp only [ht, if_true, distinct, Bool.and_eq_true, Bool.not_eq_true', List.contains_eq_mem,
          decide_eq_false_iff_not] at hd hrest1 ⊢
        have hne : ∀ p' ∈ r, takes p' = true → p'.argName ≠ p.argName := fun p' hp' ht' e =>
          hd.1 (e ▸ mem_namesOf hp' ht')
        obtain ⟨st', hl, hr', hlen', hg'⟩ := mapLoop_spec L ps args r st1 hd.2 hlen1
          (fun p' hp' s hs hg => by
            rw [hrest1]; exact ahas_adel_false _ _ _ (hnc p' (by simp [hp']) s hs hg))
          (fun p' hp' ht' => by
            rw [hrest1, effective_adel ps p' args st.rest (hne p' hp' ht')]
            exact hval p' (by simp [hp']) ht')
        refine ⟨st', hl, by rw [hr', hrest1, dropNames_cons], hlen', ?_⟩
        intro i hi
        apply hg'
        rcases hi with h | ⟨p', hp', hc⟩
        · exact Or.inl (hgood1 i (Or.inl h))
        · rcases List.mem_cons.1 hp' with rfl | hpr
          · exact Or.inl (hgood1 i (Or.inr hc))
          · refine Or.inr ⟨p', hpr, ?_⟩
            rw [hrest1, claim_adel ps args st.rest p' (hne p' hpr (takes_of_slot (claim_slot hc)))]
            exact hc
      · simp only [ht, Bool.false_eq_true, if_false] at hd hrest1 ⊢
        obtain ⟨st', hl, hr', hlen', hg'⟩ := mapLoop_spec L ps args r st1 hd hlen1
          (fun p' hp' s hs hg => by rw [hrest1]; exact hnc p' (by simp [hp']) s hs hg)
          (fun p' hp' ht' => by rw [hrest1]; exact hval p' (by simp [hp']) ht')
        refine ⟨st', hl, by rw [hr', hrest1], hlen', ?_⟩
        intro i hi
        apply hg'
        rcases hi with h | ⟨p', hp', hc⟩
        · exact Or.inl (hgood1 i (Or.inl h))
        · rcases List.mem_cons.1 hp' with rfl | hpr
          · exact Or.inl (hgood1 i (Or.inr hc))
          · exact Or.inr ⟨p', hpr, by rw [hrest1]; exact hc⟩


theorem alookup_aset {α : Type} (k k' : Name) (v : α) : ∀ (l : List (Name × α)),
    alookup k (aset k' v l) = if k' == k then some v else alookup k l
  | [] => by simp [aset, alookup]
  | (k'', x) :: r => by
      simp only [aset]
      by_cases h1 : (k'' == k') = true
      · have e1 : k'' = k' := by simpa using h1
        subst e1
        by_cases h2 : (k'' == k) = true <;> simp [h2, alookup]
      · simp only [h1, Bool.false_eq_true, if_false, alookup, alookup_aset k k' v r]
        by_cases h2 : (k'' == k) = true
        · have e2 : k'' = k := by simpa using h2
          subst e2
          have h3 : (k' == k'') = false := by
            cases h : k' == k'' with
            | false => rfl
            | true => exact absurd (by simpa using (beq_iff_eq.1 h).symm) h1
          simp [h3]
        · simp [h2]

theorem alookup_foldl_aset {α : Type} (sp : α) (k : Name) : ∀ (rest : KwArgs) (acc : List (Name × α)),
    (ahas k rest = true ∨ alookup k acc = some sp) →
    alookup k (rest.foldl (fun acc kv => aset kv.1 sp acc) acc) = some sp
  | [], acc, h => by
      rcases h with h | h
      · simp [ahas] at h
      · exact h
  | kv :: r, acc, h => by
      simp only [List.foldl_cons]
      apply alookup_foldl_aset sp k r
      rw [alookup_aset]
      by_cases hk : (kv.1 == k) = true
      · exact Or.inr (by simp [hk])
      · rcases h with h | h
        · simp only [ahas, List.any_cons, Bool.or_eq_true] at h
          rcases h with h | h
          · exact absurd h hk
          · exact Or.inl (by simpa [ahas] using h)
        · exact Or.inr (by simp [hk, h])

/-- the part of `map_args` after the loop -/
def mapFinish (L : Lattice) (ps : List Param) (args : List Arg) (kwargs : KwArgs) (st : MapSt) : Option Mapping :=
  let kwd? : Option (List (Name × Param)) :=
    if st.rest.isEmpty then some st.kwd
    else match starStarParam ps with
      | some sp => some (st.rest.foldl (fun acc kv => aset kv.1 sp acc) st.kwd)
      | none => none
  match kwd? with
  | none => none
  | some kwd =>
      if !posOk L st.pos args then none
      else if !(st.rest.all fun kv => checkOpt L (alookup kv.1 kwd) kv.2) then none
      else some { pos := st.pos.filterMap id,
                  kwd := kwargs.filterMap fun kv => (alookup kv.1 kwd).map fun p => (kv.1, p) }

theorem mapArgs_eq_finish (L : Lattice) (ps : List Param) (args : List Arg) (kw : KwArgs) :
    mapArgs L ps args kw =
      (mapLoop ps args { pos := List.replicate args.length (starParam ps), kwd := [], rest := kw } ps).bind
        (mapFinish L ps args kw) := by
  unfold mapArgs
  dsimp only
  cases mapLoop ps args _ ps <;> rfl

theorem mapFinish_isSome (L : Lattice) (ps : List Param) (args : List Arg) (kw : KwArgs) (st : MapSt)
    (hpos : posOk L st.pos args = true)
    (hrest : st.rest.isEmpty = true ∨
      ∃ sp, starStarParam ps = some sp ∧ st.rest.all (fun kv => check L sp.ty kv.2) = true) :
    (mapFinish L ps args kw st).isSome = true := by
  unfold mapFinish
  rcases hrest with he | ⟨sp, hsp, hall⟩
  · have : st.rest = [] := by simpa using he
    simp [he, hpos, this]
  · by_cases he : st.rest.isEmpty = true
    · have : st.rest = [] := by simpa using he
      simp [he, hpos, this]
    · have hchk : (st.rest.all fun kv =>
          checkOpt L (alookup kv.1 (st.rest.foldl (fun acc kv => aset kv.1 sp acc) st.kwd)) kv.2) = true := by
        rw [List.all_eq_true] at hall ⊢
        intro kv hkv
        have hh : ahas kv.1 st.rest = true := by
          simp only [ahas, List.any_eq_true]
          exact ⟨kv, hkv, by simp⟩
        rw [alookup_foldl_aset sp kv.1 st.rest st.kwd (Or.inl hh)]
        exact hall kv hkv
      simp only [he, Bool.false_eq_true, if_false, hsp, hpos, Bool.not_true, hchk, Option.isSome_some]

theorem bindLoop_checks (L : Lattice) (ev : Param → Option Arg) : ∀ (l : List Param) (c c' : Core),
    bindLoop L ev c l = some c' → ∀ p ∈ l, takes p = true → ∃ v, ev p = some v ∧ check L p.ty v = true
  | [], _, _, _, p, hp, _ => by cases hp
  | x :: r, c, c', h, p, hp, ht => by
      simp only [bindLoop] at h
      cases hs : bindStep L ev c x with
      | none => simp [hs] at h
      | some c1 =>
          simp only [hs] at h
          rcases List.mem_cons.1 hp with rfl | hpr
          · unfold bindStep at hs
            unfold takes at ht
            cases hq : p.position with
            | some q =>
                simp only [hq, Bool.and_eq_true, Bool.not_eq_true'] at hs ht
                simp only [ht.1, ht.2, Bool.false_eq_true, if_false, Option.bind_eq_some_iff,
                  Option.map_eq_some_iff, checked] at hs
                obtain ⟨v, hv, sl, hc, _⟩ := hs
                refine ⟨v, hv, ?_⟩
                split at hc
                · assumption
                · cases hc
            | none =>
                simp only [hq, Bool.and_eq_true, Bool.not_eq_true'] at hs ht
                simp only [ht.1, ht.2, Bool.false_eq_true, if_false, Option.bind_eq_some_iff,
                  Option.map_eq_some_iff, checked] at hs
                obtain ⟨v, hv, sl, hc, _⟩ := hs
                refine ⟨v, hv, ?_⟩
                split at hc
                · assumption
                · cases hc
          · exact bindLoop_checks L ev r c1 c' h p hpr ht

theorem finish_some {L : Lattice} {ps : List Param} {args : List Arg} {st : DelSt} {b : Bound}
    (h : finish L ps args st = some b) :
    (args.length > st.vis → ∃ sp, starParam ps = some sp ∧ (args.drop st.vis).all (check L sp.ty) = true) ∧
    (st.rest.isEmpty = true ∨ ∃ sp, starStarParam ps = some sp ∧ st.rest.all (fun kv => check L sp.ty kv.2) = true) := by
  unfold finish at h
  constructor
  · intro hlen
    simp only [hlen, if_true] at h
    cases hsp : starParam ps with
    | none => simp [hsp] at h
    | some sp =>
        refine ⟨sp, rfl, ?_⟩
        cases hall : (args.drop st.vis).all (check L sp.ty) with
        | true => rfl
        | false => simp [hsp, hall] at h
  · by_cases he : st.rest.isEmpty = true
    · exact Or.inl he
    · right
      simp only [he, Bool.false_eq_true, if_false] at h
      split at h
      · cases h
      · cases hsp : starStarParam ps with
        | none => simp [hsp] at h
        | some sp =>
            refine ⟨sp, rfl, ?_⟩
            cases hall : st.rest.all (fun kv => check L sp.ty kv.2) with
            | true => rfl
            | false => simp [hsp, hall] at h

/-- every argument slot below `visCount` that the call writes (filled or empty) is entered by its
    parameter: there is no empty slot whose parameter comes by keyword instead -/
def slotsClaimed (ps : List Param) (args : List Arg) (kw : KwArgs) : Bool :=
  (List.range (min args.length (visCount ps))).all fun i => ps.any fun p => claim ps args kw p == some i

/-- **a vector that `get_delegate` binds passes `map_args`**, in every spelling that has no empty slot
    whose parameter comes by keyword (the `*` parameter having no default) -/
theorem mapArgs_of_getDelegate (L : Lattice) (ps : List Param) (hwf : wfDef ps = true)
    (hstar : ∀ sp, starParam ps = some sp → sp.default = none)
    (args : List Arg) (kw : KwArgs) (hcl : slotsClaimed ps args kw = true)
    (h : (getDelegate L ps args kw).isSome = true) : (mapArgs L ps args kw).isSome = true := by
  obtain ⟨ht, hd⟩ := wfDef_takes hwf
  have hn : namesOf ps = argNames ps := by
    simp only [namesOf, argNames]
    congr 1
    apply List.filter_congr
    intro p hp
    rw [ht p hp]
  have hnc : noClash ps args kw = true := by
    cases hc : noClash ps args kw with
    | true => rfl
    | false => rw [getDelegate_clash L ps hwf args kw hc] at h; cases h
  rw [getDelegate_eq_of_received L ps hwf args kw hnc] at h
  cases hb : bindLoop L (fun p => effective ps p args kw) (core0 ps) ps with
  | none => rw [hb] at h; cases h
  | some c =>
      rw [hb, Option.bind_some] at h
      cases hf : finish L ps args (c.withRest (extraKw ps kw)) with
      | none => rw [hf] at h; cases h
      | some b =>
          obtain ⟨hF1, hF2⟩ := finish_some hf
          have hvis : c.vis = visCount ps := by
            have := bindLoop_vis L _ ps _ c hb
            simpa [core0, visCount] using this
          simp only [Core.withRest, hvis] at hF1 hF2
          obtain ⟨st', hl, hr', hlen', hg'⟩ := mapLoop_spec L ps args ps
            { pos := List.replicate args.length (starParam ps), kwd := [], rest := kw } hd (by simp)
            (noClash_spec hnc) (bindLoop_checks L _ ps _ c hb)
          rw [mapArgs_eq_finish, hl, Option.bind_some]
          apply mapFinish_isSome
          · apply posOk_of_good L st'.pos args hlen'
            intro i hi
            rw [hlen'] at hi
            apply hg'
            by_cases hiv : i < visCount ps
            · right
              simp only [slotsClaimed, List.all_eq_true, List.mem_range, List.any_eq_true, beq_iff_eq] at hcl
              exact hcl i (by omega)
            · left
              obtain ⟨sp, hsp, hall⟩ := hF1 (by omega)
              have hsd := hstar sp hsp
              simp only [List.getD_eq_getElem?_getD, List.getElem?_replicate, hi, if_true, Option.getD_some, hsp,
                goodV, hsd, Option.getD_none]
              have hmem : args.getD i .noValue ∈ args.drop (visCount ps) := by
                rw [List.mem_iff_getElem?]
                refine ⟨i - visCount ps, ?_⟩
                rw [List.getElem?_drop]
                have : visCount ps + (i - visCount ps) = i := by omega
                rw [this, List.getD_eq_getElem?_getD, List.getElem?_eq_getElem hi, Option.getD_some]
              have hchk := (List.all_eq_true.1 hall) _ hmem
              rw [← List.getD_eq_getElem?_getD]
              split
              · rename_i hnv
                rw [isNoValue_eq hnv] at hchk
                exact hchk
              · exact hchk
          · rw [hr', hn]
            exact hF2

/-- `map_args` agrees on the spellings of a vector that `get_delegate` binds -/
theorem spelling_mapArgs_agree (L : Lattice) (ps : List Param) (hwf : wfDef ps = true)
    (hstarNoDefault : ∀ sp, starParam ps = some sp → sp.default = none)
    (args args' : List Arg) (kw kw' : KwArgs)
    (hval : ∀ p ∈ ps, p.hidden = false → p.isStar = false → p.isStarStar = false →
      effective ps p args kw = effective ps p args' kw')
    (hstar : args.drop (visCount ps) = args'.drop (visCount ps))
    (hextra : extraKw ps kw = extraKw ps kw') (hclash : noClash ps args kw = noClash ps args' kw')
    (hcl : slotsClaimed ps args kw = true) (hcl' : slotsClaimed ps args' kw' = true)
    (h : (getDelegate L ps args kw).isSome = true) :
    (mapArgs L ps args kw).isSome = true ∧ (mapArgs L ps args' kw').isSome = true :=
  ⟨mapArgs_of_getDelegate L ps hwf hstarNoDefault args kw hcl h,
   mapArgs_of_getDelegate L ps hwf hstarNoDefault args' kw' hcl'
     (spelling_equiv L ps hwf args args' kw kw' hval hstar hextra hclash ▸ h)⟩

namespace Ex12
def c6 : Arg := .const (.obj 6 [] 2) .num none 0
def pstar : Param := { key := .star, name := ['r'], alias := none, position := some 1, default := some (.value .none),
                       ty := .py (.one 0) false [] }
end Ex12

open Ex12 in
/-- `map_args` alone is NOT spelling-invariant (the real `map_args` agrees with the model on both witnesses):
    (1) it checks the arguments in the slots and `**`'s share, but not the keywords that named parameters
    take: a constant of the wrong class is rejected in the slot and accepted by keyword (`get_delegate`
    rejects both);
    (2) an empty slot whose parameter comes by keyword is never entered: `f(x, <empty>, b => d)` is rejected
    by `map_args` although `get_delegate` alone binds it; `f(x, b => d)` and `f(x, d)` pass -/
theorem mapArgs_not_spelling_invariant :
    ((mapArgs C05.Ex.lat [pa] [c6] []).isSome = false ∧ (mapArgs C05.Ex.lat [pa] [] [(['a'], c6)]).isSome = true ∧
      effective [pa] pa [c6] [] = effective [pa] pa [] [(['a'], c6)] ∧
      getDelegate C05.Ex.lat [pa] [c6] [] = none ∧ getDelegate C05.Ex.lat [pa] [] [(['a'], c6)] = none) ∧
    ((mapArgs C05.Ex.lat psab [v', .noValue] [(['b'], v)]).isSome = false ∧
      slotsClaimed psab [v', .noValue] [(['b'], v)] = false ∧
      (getDelegate C05.Ex.lat psab [v', .noValue] [(['b'], v)]).isSome = true ∧
      getDelegate C05.Ex.lat psab [v', .noValue] [(['b'], v)] = getDelegate C05.Ex.lat psab [v', v] [] ∧
      (mapArgs C05.Ex.lat psab [v'] [(['b'], v)]).isSome = true ∧ (mapArgs C05.Ex.lat psab [v', v] []).isSome = true) := by
  decide

open Ex12 in
/-- what (1) does to the choice of an overload: `P(x: Lambda)`, `Q(x: String)`; `f(1)` is answered by `P`
    (`map_args` drops `Q` before the laziness comparison), `f(x => 1)` is Ambiguous (`Q` stays in).  The real
    resolver does the same (notes/C12.md) -/
example :
    (resolve C05.Ex.lat C05.Ex.famPQ { receiver := none, args := [c6], kwargs := [] }).res =
      .ok (0, { pos := [some (.arg c6)], extra := [], kw := [] }) ∧
    (resolve C05.Ex.lat C05.Ex.famPQ { receiver := none, args := [], kwargs := [(['x'], c6)] }).res =
      .error .ambiguous := by
  decide

open Ex12 in
/-- the guards of `mapArgs_of_getDelegate` are needed and satisfiable: (2) above for `slotsClaimed`; a `*`
    parameter with a default and an empty slot in its share for the other (`map_args` checks the default,
    `get_delegate` the NO_VALUE marker); every spelling of the non-vacuity example of `spelling_equiv`
    satisfies both and passes `map_args` -/
example :
    (wfDef [pa, pstar] = true ∧ slotsClaimed [pa, pstar] [v, .noValue] [] = true ∧
      (getDelegate C05.Ex.lat [pa, pstar] [v, .noValue] []).isSome = true ∧
      (mapArgs C05.Ex.lat [pa, pstar] [v, .noValue] []).isSome = false) ∧
    ([([v'], []), ([v', v], []), ([v', .noValue], []), ([], [(['b'], v), (['a'], v')]), ([], [(['a'], v')]),
      ([v'], [(['b'], v)])] : List (List Arg × KwArgs)).all (fun sp =>
        slotsClaimed psab sp.1 sp.2 && (mapArgs C05.Ex.lat psab sp.1 sp.2).isSome) = true := by
  decide

/-- hypotheses of the two move theorems are satisfiable: `f(a, ctx, b = d)` with a hidden parameter
    in the middle, `b` moved to a keyword / left to its default -/
example :
    let pa : Param := C05.Ex.pos 'a' 0 (C05.Ex.cls 4)
    let ph : Param := { C05.Ex.pos 'h' 1 (.hidden .context) with }
    let pb : Param := { C05.Ex.pos 'b' 2 (C05.Ex.cls 1) with default := some (.value C05.Ex.dVal) }
    let ps := [pa, ph, pb]
    slotOf ps pb = some 1 ∧ visCount ps = 2 ∧
    getDelegate C05.Ex.lat ps [C05.Ex.tick 1] [(['b'], .value C05.Ex.dVal)] =
      getDelegate C05.Ex.lat ps [C05.Ex.tick 1, .value C05.Ex.dVal] [] ∧
    getDelegate C05.Ex.lat ps [C05.Ex.tick 1] [] = getDelegate C05.Ex.lat ps [C05.Ex.tick 1, .value C05.Ex.dVal] [] ∧
    (getDelegate C05.Ex.lat ps [C05.Ex.tick 1] []).isSome = true := by
  decide

end Yaql.Props.C12
