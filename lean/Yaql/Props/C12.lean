import Yaql.Props.C05
import Yaql.Model.RegistryRow
/-!
C12 - all ways of passing the same arguments are equivalent.

* `call_equiv`: keywords written `name => value` in the argument list and keywords handed over at
  the Python level (what `call(name, args, kwargs)` does) translate to the same resolver input.
* `ext_both_ways`: `f(x, ..)` and `x.f(..)` are the same resolution problem when the visible
  overloads are extension methods.
* `kind_exclusive`: method-only definitions never answer function calls and vice versa.
* `spelling_*`: one parameter at a time, `get_delegate` binds the same value whether it arrives
  positionally, by keyword (alias name), or - for a defaulted parameter - is omitted, skipped with an
  empty slot, or given explicitly with the default value.  The whole-vector statement is
  `spelling_equiv_full`.
-/
namespace Yaql.Props.C12
open Yaql.Types Yaql.Resolve Yaql.Registry Yaql.Props.C05

/-! ## call() -/

/-- `name => value` for every pair -/
def asMappingRules (kws : KwArgs) (ek1 ek2 : Nat) (lit : Lit) (v : Val) : List Arg :=
  kws.map fun kv => .mapRule (.const v lit (some kv.1) ek1) kv.2 .none ek2

def noMapRule (a : Arg) : Bool := match a with | .mapRule .. => false | _ => true

theorem translatePos_plain : ∀ (pos acc : List Arg) (kw : KwArgs), pos.all noMapRule = true →
    translatePos pos acc kw = .ok (acc.reverse ++ pos, kw)
  | [], acc, kw, _ => by simp [translatePos]
  | a :: r, acc, kw, h => by
      simp only [List.all_cons, Bool.and_eq_true] at h
      cases a with
      | mapRule s d res ek => simp [noMapRule] at h
      | _ => simp [translatePos, translatePos_plain r _ kw h.2]

theorem translatePos_rules (ek1 ek2 : Nat) (lit : Lit) (v : Val) : ∀ (kws : KwArgs) (acc : List Arg) (kw : KwArgs),
    translatePos (asMappingRules kws ek1 ek2 lit v) acc kw =
      .ok (acc.reverse, kws.foldl (fun k kv => aset kv.1 kv.2 k) kw)
  | [], acc, kw => by simp [asMappingRules, translatePos]
  | kv :: r, acc, kw => by
      have := translatePos_rules ek1 ek2 lit v r acc (aset kv.1 kv.2 kw)
      simp only [asMappingRules, List.map_cons, translatePos, List.foldl_cons] at this ⊢
      exact this

theorem translatePos_append : ∀ (a b acc : List Arg) (kw : KwArgs), a.all noMapRule = true →
    translatePos (a ++ b) acc kw = translatePos b (a.reverse ++ acc) kw
  | [], b, acc, kw, _ => rfl
  | x :: r, b, acc, kw, h => by
      simp only [List.all_cons, Bool.and_eq_true] at h
      cases x with
      | mapRule s d res ek => simp [noMapRule] at h
      | _ => simp [translatePos, translatePos_append r b _ kw h.2]

theorem aset_fresh {α : Type} (k : Name) (v : α) : ∀ (l : List (Name × α)), ahas k l = false → aset k v l = l ++ [(k, v)]
  | [], _ => rfl
  | (k', v') :: r, h => by
      simp only [ahas, List.any_cons, Bool.or_eq_false_iff] at h
      simp only [aset, h.1, Bool.false_eq_true, if_false, List.cons_append]
      rw [aset_fresh k v r (by simpa [ahas] using h.2)]

theorem ahas_append {α : Type} (k : Name) (a b : List (Name × α)) : ahas k (a ++ b) = (ahas k a || ahas k b) := by
  simp [ahas, List.any_append]

theorem foldl_aset_distinct : ∀ (kws acc : KwArgs), distinct (acc.map (·.1) ++ kws.map (·.1)) = true →
    kws.foldl (fun k kv => aset kv.1 kv.2 k) acc = acc ++ kws
  | [], acc, _ => by simp
  | kv :: r, acc, h => by
      have hfresh : ahas kv.1 acc = false := by
        induction acc with
        | nil => rfl
        | cons a t ih =>
            simp only [List.map_cons, List.cons_append, distinct, Bool.and_eq_true, Bool.not_eq_true',
              List.contains_eq_mem, List.mem_append, List.mem_map, List.mem_cons, decide_eq_false_iff_not] at h
            have h1 : ¬ (a.1 = kv.1) := fun e => h.1 (Or.inr (Or.inl e))
            have := ih (by simpa [distinct] using h.2)
            simp only [ahas, List.any_cons, Bool.or_eq_false_iff, beq_eq_false_iff_ne, ne_eq]
            exact ⟨h1, by simpa [ahas] using this⟩
      simp only [List.foldl_cons, aset_fresh _ _ _ hfresh]
      have := foldl_aset_distinct r (acc ++ [kv]) (by simpa [List.map_append, List.append_assoc] using h)
      simpa [List.append_assoc] using this

theorem mergeKw_distinct : ∀ (kws acc : KwArgs), distinct (acc.map (·.1) ++ kws.map (·.1)) = true →
    mergeKw kws acc = .ok (acc ++ kws)
  | [], acc, _ => by simp [mergeKw]
  | kv :: r, acc, h => by
      obtain ⟨k, v⟩ := kv
      have hfresh : ahas k acc = false := by
        induction acc with
        | nil => rfl
        | cons a t ih =>
            simp only [List.map_cons, List.cons_append, distinct, Bool.and_eq_true, Bool.not_eq_true',
              List.contains_eq_mem, List.mem_append, List.mem_map, List.mem_cons, decide_eq_false_iff_not] at h
            have h1 : ¬ (a.1 = k) := fun e => h.1 (Or.inr (Or.inl e))
            have := ih (by simpa [distinct] using h.2)
            simp only [ahas, List.any_cons, Bool.or_eq_false_iff, beq_eq_false_iff_ne, ne_eq]
            exact ⟨h1, by simpa [ahas] using this⟩
      simp only [mergeKw, hfresh, Bool.false_eq_true, if_false]
      have := mergeKw_distinct r (acc ++ [(k, v)]) (by simpa [List.map_append, List.append_assoc] using h)
      simpa [List.append_assoc] using this

/-- going through `call(name, args, kwargs)` (values + Python-level keywords) gives the resolver
    the same positional arguments and the same keyword dictionary as writing the keywords as
    `name => value` after the positional arguments -/
theorem call_equiv (pos : List Arg) (kws : KwArgs) (ek1 ek2 : Nat) (lit : Lit) (v : Val)
    (hpos : pos.all noMapRule = true) (hd : distinct (kws.map (·.1)) = true) :
    translateArgs false (pos ++ asMappingRules kws ek1 ek2 lit v) [] = .ok (pos, kws) ∧
    translateArgs false pos kws = .ok (pos, kws) := by
  constructor
  · simp only [translateArgs, Bool.false_eq_true, if_false, translatePos_append pos _ [] [] hpos,
      translatePos_rules, List.append_nil, List.reverse_reverse]
    rw [foldl_aset_distinct kws [] (by simpa using hd)]
    simp [mergeKw]
  · simp only [translateArgs, Bool.false_eq_true, if_false, translatePos_plain pos [] [] hpos, List.reverse_nil,
      List.nil_append]
    rw [mergeKw_distinct kws [] (by simpa using hd)]
    simp

/-! ## function form and method form -/

/-- an extension method called as `f(x, a..)` and as `x.f(a..)` is the same resolution problem:
    same overload, same bound vector, same evaluation log (all visible overloads being
    extension methods or of neither kind) -/
theorem ext_both_ways (L : Lattice) (layers : List Layer) (x : Val) (args : List Arg) (kw : KwArgs)
    (hext : ∀ l ∈ layers, ∀ f ∈ l.fns, f.isFunction = f.isMethod) :
    resolve L layers { receiver := some x, args := args, kwargs := kw } =
    resolve L layers { receiver := none, args := .value x :: args, kwargs := kw } := by
  have hc : collect true layers = collect false layers := by
    induction layers with
    | nil => rfl
    | cons l r ih =>
        have hf : l.fns.filter (kindOk true) = l.fns.filter (kindOk false) := by
          apply List.filter_congr
          intro f hf
          simp [kindOk, hext l (by simp) f hf]
        simp only [collect, hf, ih (fun l' hl' => hext l' (by simp [hl']))]
  simp only [resolve, Option.isSome, hc]
  rfl

/-- functions that are methods only are never callable as functions, and vice versa -/
theorem kind_exclusive (L : Lattice) (layers : List Layer) (c : Call) (id : Nat) (b : Bound) :
    ((∀ l ∈ layers, ∀ f ∈ l.fns, f.id = id → f.isMethod = false) → c.receiver.isSome = true →
      (resolve L layers c).res ≠ .ok (id, b)) ∧
    ((∀ l ∈ layers, ∀ f ∈ l.fns, f.id = id → f.isFunction = false) → c.receiver.isSome = false →
      (resolve L layers c).res ≠ .ok (id, b)) := by
  constructor
  · exact fun h hc => kind_exclusive_function L layers c id b h hc
  · intro hids hc h
    obtain ⟨l, hl, f, hf, hid, hk⟩ := kind_filter L layers c id b h
    have := hids l (reach_sub _ _ hl) f hf hid
    simp [kindOk, hc, this] at hk

/-! ## spellings of one argument -/

/-- `args'` is `args` with slot `s` emptied (`f(1,,3)`) or cut off (`f(1)` for `f(1,2)`): every other
    slot, and whatever lies beyond position `k > s`, is unchanged -/
structure SlotFreed (s : Nat) (args args' : List Arg) : Prop where
  freed : given args' s = false
  same_given : ∀ i, i ≠ s → given args' i = given args i
  same_val : ∀ i, i ≠ s → args'.getD i .noValue = args.getD i .noValue
  extras : ∀ k, s < k → (decide (args'.length > k) = decide (args.length > k)) ∧ args'.drop k = args.drop k

theorem slotFreed_set (s : Nat) (args : List Arg) : SlotFreed s args (args.set s .noValue) := by
  refine ⟨?_, ?_, ?_, ?_⟩
  · simp only [given]
    by_cases h : s < args.length
    · rw [List.getElem?_set_self h]; rfl
    · rw [List.getElem?_eq_none (by simp; omega)]
  · intro i hi
    simp only [given, List.getElem?_set_ne (Ne.symm hi)]
  · intro i hi
    simp only [List.getD_eq_getElem?_getD, List.getElem?_set_ne (Ne.symm hi)]
  · intro k hk
    refine ⟨by simp, ?_⟩
    apply List.ext_getElem?
    intro i
    simp only [List.getElem?_drop]
    rw [List.getElem?_set_ne (by omega)]

theorem slotFreed_dropLast (args' : List Arg) (a : Arg) : SlotFreed args'.length (args' ++ [a]) args' := by
  refine ⟨?_, ?_, ?_, ?_⟩
  · simp [given]
  · intro i hi
    simp only [given]
    by_cases h : i < args'.length
    · rw [List.getElem?_append_left h]
    · have : args'.length < i := by omega
      simp [List.getElem?_eq_none, Nat.le_of_lt this, List.getElem?_append_right (Nat.le_of_lt this)]
      rw [List.getElem?_eq_none (by simp; omega)]
  · intro i hi
    simp only [List.getD_eq_getElem?_getD]
    by_cases h : i < args'.length
    · rw [List.getElem?_append_left h]
    · have : args'.length < i := by omega
      rw [List.getElem?_eq_none (by omega), List.getElem?_eq_none (by simp; omega)]
  · intro k hk
    refine ⟨?_, ?_⟩
    · simp only [List.length_append, List.length_cons, List.length_nil]
      have h1 : ¬ (args'.length > k) := by omega
      have h2 : ¬ (args'.length + (0 + 1) > k) := by omega
      simp [h1, h2]
    · rw [List.drop_eq_nil_of_le (by omega), List.drop_eq_nil_of_le (by simp; omega)]

/-- a parameter other than the one whose spelling changes: it does not own slot `s` -/
theorem delegStep_other (L : Lattice) (ps : List Param) {s : Nat} {args args' : List Arg} (hf : SlotFreed s args args')
    (st : DelSt) (p' : Param) (hs : slotOf ps p' ≠ some s) :
    delegStep L ps args' st p' = delegStep L ps args st p' := by
  unfold delegStep
  cases hq : p'.position with
  | none => rfl
  | some q =>
      simp only
      by_cases h1 : p'.isStar = true
      · simp [h1]
      · by_cases h2 : p'.hidden = true
        · simp [h1, h2]
        · have hne : q - fixAt ps q ≠ s := by
            intro e
            apply hs
            simp [slotOf, hq, h1, h2, e]
          simp only [h1, h2, Bool.false_eq_true, if_false, hf.same_given _ hne, hf.same_val _ hne]

theorem ahas_false_lookup {α : Type} (k : Name) : ∀ (l : List (Name × α)), ahas k l = false → alookup k l = none
  | [], _ => rfl
  | (k', v) :: r, h => by
      simp only [ahas, List.any_cons, Bool.or_eq_false_iff] at h
      simp only [alookup, h.1, Bool.false_eq_true, if_false]
      exact ahas_false_lookup k r (by simpa [ahas] using h.2)

theorem delegStep_rest (L : Lattice) (ps : List Param) (args : List Arg) (n : Name) {st st' : DelSt} {p' : Param}
    (h : delegStep L ps args st p' = some st') (hn : ahas n st.rest = false) : ahas n st'.rest = false := by
  have hdel : ∀ k, ahas n (adel k st.rest) = false := by
    intro k
    cases hh : ahas n (adel k st.rest) with
    | false => rfl
    | true => rw [ahas_adel _ _ _ hh] at hn; cases hn
  unfold delegStep at h
  cases hq : p'.position with
  | some q =>
      simp only [hq] at h
      split at h
      · cases h; exact hn
      · split at h
        · cases h; exact hn
        · split at h
          · split at h
            · cases h
            · simp only [checked, Option.map_eq_some_iff] at h
              obtain ⟨sl, _, rfl⟩ := h; exact hn
          · split at h
            · simp only [checked, Option.map_eq_some_iff] at h
              obtain ⟨sl, _, rfl⟩ := h; exact hdel _
            · split at h
              · simp only [checked, Option.map_eq_some_iff] at h
                obtain ⟨sl, _, rfl⟩ := h; exact hn
              · cases h
  | none =>
      simp only [hq] at h
      split at h
      · cases h; exact hn
      · split at h
        · cases h; exact hn
        · split at h
          · simp only [checked, Option.map_eq_some_iff] at h
            obtain ⟨sl, _, rfl⟩ := h; exact hdel _
          · split at h
            · simp only [checked, Option.map_eq_some_iff] at h
              obtain ⟨sl, _, rfl⟩ := h; exact hn
            · cases h

theorem delegLoop_other (L : Lattice) (ps : List Param) {s : Nat} {args args' : List Arg} (hf : SlotFreed s args args') :
    ∀ (l : List Param) (st : DelSt), (∀ p' ∈ l, slotOf ps p' ≠ some s) →
      delegLoop L ps args' st l = delegLoop L ps args st l
  | [], _, _ => rfl
  | p' :: r, st, h => by
      simp only [delegLoop, delegStep_other L ps hf st p' (h p' (by simp))]
      cases delegStep L ps args st p' with
      | none => rfl
      | some st1 => exact delegLoop_other L ps hf r st1 (fun x hx => h x (by simp [hx]))

theorem delegLoop_vis (L : Lattice) (ps : List Param) (args : List Arg) : ∀ (l : List Param) (st st' : DelSt),
    delegLoop L ps args st l = some st' → st'.vis = st.vis - (l.filter hiddenPositional).length
  | [], st, st', h => by simp [delegLoop] at h; subst h; simp
  | p' :: r, st, st', h => by
      simp only [delegLoop] at h
      cases hs : delegStep L ps args st p' with
      | none => simp [hs] at h
      | some st1 =>
          simp only [hs] at h
          have ih := delegLoop_vis L ps args r st1 st' h
          have hv : st1.vis = st.vis - (if hiddenPositional p' then 1 else 0) := by
            unfold delegStep at hs
            cases hq : p'.position with
            | some q =>
                simp only [hq] at hs
                by_cases h1 : p'.isStar = true
                · simp [h1] at hs; subst hs; simp [hiddenPositional, h1]
                · by_cases h2 : p'.hidden = true
                  · simp [h1, h2] at hs; subst hs; simp [hiddenPositional, hq, h1, h2]
                  · simp only [h1, h2, Bool.false_eq_true, if_false] at hs
                    have hz : (if hiddenPositional p' = true then 1 else 0) = 0 := by simp [hiddenPositional, h2]
                    rw [hz]
                    split at hs
                    · split at hs
                      · cases hs
                      · simp only [checked, Option.map_eq_some_iff] at hs
                        obtain ⟨sl, _, rfl⟩ := hs; rfl
                    · split at hs
                      · simp only [checked, Option.map_eq_some_iff] at hs
                        obtain ⟨sl, _, rfl⟩ := hs; rfl
                      · split at hs
                        · simp only [checked, Option.map_eq_some_iff] at hs
                          obtain ⟨sl, _, rfl⟩ := hs; rfl
                        · cases hs
            | none =>
                simp only [hq] at hs
                have hz : (if hiddenPositional p' = true then 1 else 0) = 0 := by simp [hiddenPositional, hq]
                rw [hz]
                split at hs
                · cases hs; rfl
                · split at hs
                  · cases hs; rfl
                  · split at hs
                    · simp only [checked, Option.map_eq_some_iff] at hs
                      obtain ⟨sl, _, rfl⟩ := hs; rfl
                    · split at hs
                      · simp only [checked, Option.map_eq_some_iff] at hs
                        obtain ⟨sl, _, rfl⟩ := hs; rfl
                      · cases hs
          rw [ih, hv]
          simp only [List.filter_cons]
          split <;> simp <;> omega

/-- the part of `get_delegate` after the loop only looks at the arguments beyond the visible slots -/
theorem getDelegate_tail (L : Lattice) (ps : List Param) {s : Nat} {args args' : List Arg} (hf : SlotFreed s args args')
    (hs : s < visCount ps) (kw kw2 : KwArgs)
    (h : delegLoop L ps args' { pos := List.replicate (positionalCount ps) none, kw := [], rest := kw2, vis := positionalCount ps } ps =
         delegLoop L ps args { pos := List.replicate (positionalCount ps) none, kw := [], rest := kw, vis := positionalCount ps } ps) :
    getDelegate L ps args' kw2 = getDelegate L ps args kw := by
  unfold getDelegate
  simp only [h]
  cases hl : delegLoop L ps args { pos := List.replicate (positionalCount ps) none, kw := [], rest := kw, vis := positionalCount ps } ps with
  | none => rfl
  | some st =>
      have hv := delegLoop_vis L ps args ps _ st hl
      simp only at hv
      have hk : s < st.vis := by rw [hv]; exact hs
      have he := hf.extras st.vis hk
      simp only [gt_iff_lt, decide_eq_decide] at he
      have hlen : (args'.length > st.vis) = (args.length > st.vis) := propext he.1
      simp only [hlen, he.2]

/-- **a defaulted argument may be left out** (cut off at the end, or skipped with an empty slot):
    `get_delegate` binds the same vector as when the default value is written out -/
theorem spelling_default_move (L : Lattice) (ps : List Param) (args args' : List Arg) (kw : KwArgs)
    (p : Param) (pre post : List Param) (s : Nat) (d : Arg)
    (hps : ps = pre ++ p :: post) (hslot : slotOf ps p = some s) (hs : s < visCount ps)
    (hothers : ∀ p' ∈ pre ++ post, slotOf ps p' ≠ some s)
    (hd : p.default = some d) (hgiven : given args s = true) (hval : args.getD s .noValue = d)
    (hkw : ahas p.argName kw = false) (hf : SlotFreed s args args') :
    getDelegate L ps args' kw = getDelegate L ps args kw := by
  apply getDelegate_tail L ps hf hs
  -- the step of `p` itself
  have hstep : ∀ st : DelSt, ahas p.argName st.rest = false →
      delegStep L ps args' st p = delegStep L ps args st p := by
    intro st hr
    unfold slotOf at hslot
    cases hq : p.position with
    | none => simp [hq] at hslot
    | some q =>
        simp only [hq] at hslot
        by_cases hsh : (p.isStar || p.hidden) = true
        · simp [hsh] at hslot
        · simp only [hsh, Bool.false_eq_true, if_false, Option.some.injEq] at hslot
          simp only [Bool.or_eq_true, not_or, Bool.not_eq_true] at hsh
          unfold delegStep
          simp only [hq, hsh.1, hsh.2, Bool.false_eq_true, if_false, hslot, hf.freed, hgiven, hr, if_true,
            ahas_false_lookup _ _ hr, hd, hval]
  have hloop : ∀ (l : List Param) (st : DelSt), (∀ p' ∈ l, p' = p ∨ slotOf ps p' ≠ some s) →
      ahas p.argName st.rest = false → delegLoop L ps args' st l = delegLoop L ps args st l := by
    intro l
    induction l with
    | nil => intros; rfl
    | cons x r ih =>
        intro st hl hr
        have hx : delegStep L ps args' st x = delegStep L ps args st x := by
          rcases hl x (by simp) with rfl | hx
          · exact hstep st hr
          · exact delegStep_other L ps hf st x hx
        simp only [delegLoop, hx]
        cases hst : delegStep L ps args st x with
        | none => rfl
        | some st1 =>
            exact ih st1 (fun y hy => hl y (by simp [hy])) (delegStep_rest L ps args _ hst hr)
  apply hloop
  · intro p' hp'
    rw [hps] at hp'
    simp only [List.mem_append, List.mem_cons] at hp'
    rcases hp' with h | rfl | h
    · exact Or.inr (hothers p' (by simp [h]))
    · exact Or.inl rfl
    · exact Or.inr (hothers p' (by simp [h]))
  · exact hkw

/-! ### positional <-> keyword -/

def withKw (n : Name) (a : Arg) (st : DelSt) : DelSt := { st with rest := st.rest ++ [(n, a)] }

theorem ahas_append_other {n' n : Name} (a : Arg) (r : KwArgs) (h : n ≠ n') :
    ahas n' (r ++ [(n, a)]) = ahas n' r := by
  simp [ahas, List.any_append, h]

theorem alookup_append_other {n' n : Name} (a : Arg) : ∀ (r : KwArgs), n ≠ n' →
    alookup n' (r ++ [(n, a)]) = alookup n' r
  | [], h => by simp [alookup, h]
  | (k, v) :: r, h => by
      simp only [List.cons_append, alookup]
      split
      · rfl
      · exact alookup_append_other a r h

theorem adel_append_other {n' n : Name} (a : Arg) (r : KwArgs) (h : n ≠ n') :
    adel n' (r ++ [(n, a)]) = adel n' r ++ [(n, a)] := by
  simp [adel, List.filter_append, h]

theorem alookup_append_self (n : Name) (a : Arg) : ∀ (r : KwArgs), ahas n r = false →
    alookup n (r ++ [(n, a)]) = some a
  | [], _ => by simp [alookup]
  | (k, v) :: r, h => by
      simp only [ahas, List.any_cons, Bool.or_eq_false_iff] at h
      simp only [List.cons_append, alookup, h.1, Bool.false_eq_true, if_false]
      exact alookup_append_self n a r (by simpa [ahas] using h.2)

theorem adel_append_self (n : Name) (a : Arg) : ∀ (r : KwArgs), ahas n r = false → adel n (r ++ [(n, a)]) = r
  | [], _ => by simp [adel]
  | (k, v) :: r, h => by
      simp only [ahas, List.any_cons, Bool.or_eq_false_iff] at h
      have ih := adel_append_self n a r (by simpa [ahas] using h.2)
      simp only [adel] at ih ⊢
      simp only [List.cons_append, List.filter_cons, h.1, Bool.not_false, if_true, ih]

/-- `p'` is not passed under the name `n` -/
def NameOther (n : Name) (p' : Param) : Prop := p'.hidden = false → p'.argName ≠ n

theorem delegStep_kw_other (L : Lattice) (ps : List Param) {s : Nat} {args args' : List Arg}
    (hf : SlotFreed s args args') (n : Name) (a : Arg) (st : DelSt) (p' : Param)
    (hs : slotOf ps p' ≠ some s) (hn : NameOther n p') :
    delegStep L ps args' (withKw n a st) p' = (delegStep L ps args st p').map (withKw n a) := by
  rw [delegStep_other L ps hf _ p' hs]
  unfold delegStep
  cases hq : p'.position with
  | some q =>
      simp only
      by_cases h1 : p'.isStar = true
      · simp [h1]
      · by_cases h2 : p'.hidden = true
        · simp [h1, h2, withKw]
        · have hne : n ≠ p'.argName := fun e => hn (by simpa using h2) e.symm
          simp only [h1, h2, Bool.false_eq_true, if_false, withKw, ahas_append_other a _ hne,
            alookup_append_other a _ hne, adel_append_other a _ hne]
          split
          · split
            · rfl
            · simp only [Option.map_map]; rfl
          · cases alookup p'.argName st.rest with
            | some v => simp only [Option.map_map]; rfl
            | none =>
                cases p'.default with
                | some d => simp only [Option.map_map]; rfl
                | none => rfl
  | none =>
      simp only
      by_cases h1 : p'.isStarStar = true
      · simp [h1]
      · by_cases h2 : p'.hidden = true
        · simp [h1, h2, withKw]
        · have hne : n ≠ p'.argName := fun e => hn (by simpa using h2) e.symm
          simp only [h1, h2, Bool.false_eq_true, if_false, withKw, alookup_append_other a _ hne,
            adel_append_other a _ hne]
          cases alookup p'.argName st.rest with
          | some v => simp only [Option.map_map]; rfl
          | none =>
              cases p'.default with
              | some d => simp only [Option.map_map]; rfl
              | none => rfl

theorem delegLoop_kw_other (L : Lattice) (ps : List Param) {s : Nat} {args args' : List Arg}
    (hf : SlotFreed s args args') (n : Name) (a : Arg) : ∀ (l : List Param) (st : DelSt),
    (∀ p' ∈ l, slotOf ps p' ≠ some s ∧ NameOther n p') →
    delegLoop L ps args' (withKw n a st) l = (delegLoop L ps args st l).map (withKw n a)
  | [], _, _ => rfl
  | p' :: r, st, h => by
      simp only [delegLoop, delegStep_kw_other L ps hf n a st p' (h p' (by simp)).1 (h p' (by simp)).2]
      cases delegStep L ps args st p' with
      | none => rfl
      | some st1 => exact delegLoop_kw_other L ps hf n a r st1 (fun x hx => h x (by simp [hx]))

theorem delegLoop_append (L : Lattice) (ps : List Param) (args : List Arg) : ∀ (l1 l2 : List Param) (st : DelSt),
    delegLoop L ps args st (l1 ++ l2) = (delegLoop L ps args st l1).bind fun st' => delegLoop L ps args st' l2
  | [], _, _ => rfl
  | p :: r, l2, st => by
      simp only [List.cons_append, delegLoop]
      cases delegStep L ps args st p with
      | none => rfl
      | some st1 => exact delegLoop_append L ps args r l2 st1

theorem delegLoop_rest (L : Lattice) (ps : List Param) (args : List Arg) (n : Name) : ∀ (l : List Param) (st st' : DelSt),
    delegLoop L ps args st l = some st' → ahas n st.rest = false → ahas n st'.rest = false
  | [], st, st', h, hn => by simp [delegLoop] at h; subst h; exact hn
  | p :: r, st, st', h, hn => by
      simp only [delegLoop] at h
      cases hs : delegStep L ps args st p with
      | none => simp [hs] at h
      | some st1 =>
          simp only [hs] at h
          exact delegLoop_rest L ps args n r st1 st' h (delegStep_rest L ps args n hs hn)

/-- **an argument may be passed positionally or by keyword** (under the parameter's alias name):
    moving the argument in slot `s` out of the argument list (empty slot, or cut off at the end) into
    the keywords leaves the vector `get_delegate` binds unchanged -/
theorem spelling_kw_move (L : Lattice) (ps : List Param) (args args' : List Arg) (kw : KwArgs)
    (p : Param) (pre post : List Param) (s : Nat) (a : Arg)
    (hps : ps = pre ++ p :: post) (hslot : slotOf ps p = some s) (hs : s < visCount ps)
    (hothers : ∀ p' ∈ pre ++ post, slotOf ps p' ≠ some s ∧ NameOther p.argName p')
    (hgiven : given args s = true) (hval : args.getD s .noValue = a)
    (hkw : ahas p.argName kw = false) (hf : SlotFreed s args args') :
    getDelegate L ps args' (kw ++ [(p.argName, a)]) = getDelegate L ps args kw := by
  apply getDelegate_tail L ps hf hs
  have hpre : ∀ p' ∈ pre, slotOf ps p' ≠ some s ∧ NameOther p.argName p' := fun p' h => hothers p' (by simp [h])
  have hpost : ∀ p' ∈ post, slotOf ps p' ≠ some s := fun p' h => (hothers p' (by simp [h])).1
  -- the step of `p` itself: positional in one run, keyword in the other, same resulting state
  have hstep : ∀ st : DelSt, ahas p.argName st.rest = false →
      delegStep L ps args' (withKw p.argName a st) p = delegStep L ps args st p := by
    intro st hr
    unfold slotOf at hslot
    cases hq : p.position with
    | none => simp [hq] at hslot
    | some q =>
        simp only [hq] at hslot
        by_cases hsh : (p.isStar || p.hidden) = true
        · simp [hsh] at hslot
        · simp only [hsh, Bool.false_eq_true, if_false, Option.some.injEq] at hslot
          simp only [Bool.or_eq_true, not_or, Bool.not_eq_true] at hsh
          unfold delegStep
          simp only [hq, hsh.1, hsh.2, Bool.false_eq_true, if_false, hslot, hf.freed, hgiven, hr, if_true, withKw,
            alookup_append_self _ _ _ hr, adel_append_self _ _ _ hr, hval]
  have h0 : ({ pos := List.replicate (positionalCount ps) none, kw := [], rest := kw ++ [(p.argName, a)],
               vis := positionalCount ps } : DelSt) =
      withKw p.argName a { pos := List.replicate (positionalCount ps) none, kw := [], rest := kw, vis := positionalCount ps } := rfl
  rw [h0]
  conv => lhs; arg 5; rw [hps]
  conv => rhs; arg 5; rw [hps]
  rw [delegLoop_append, delegLoop_append, delegLoop_kw_other L ps hf _ a pre _ hpre]
  cases h1 : delegLoop L ps args { pos := List.replicate (positionalCount ps) none, kw := [], rest := kw, vis := positionalCount ps } pre with
  | none => rfl
  | some st1 =>
      have hr := delegLoop_rest L ps args p.argName pre _ st1 h1 hkw
      simp only [Option.map_some, Option.bind_some, delegLoop, hstep st1 hr]
      cases delegStep L ps args st1 p with
      | none => rfl
      | some st2 => exact delegLoop_other L ps hf post st2 hpost

/-- the side conditions of the two move theorems, read off a checked table (`movesOk`, which
    `C12Gen.registry_moves_ok` establishes for every registered definition) -/
theorem movesOk_spec {ps : List Param} (hok : movesOk ps = true) {i : Nat} {p : Param} {s : Nat}
    (hi : ps[i]? = some p) (hslot : slotOf ps p = some s) :
    ps = ps.take i ++ p :: ps.drop (i + 1) ∧ s < visCount ps ∧
    ∀ p' ∈ ps.take i ++ ps.drop (i + 1), slotOf ps p' ≠ some s ∧ NameOther p.argName p' := by
  have hlt : i < ps.length := by
    rcases Nat.lt_or_ge i ps.length with h | h
    · exact h
    · rw [List.getElem?_eq_none h] at hi; cases hi
  have hget : ps[i] = p := by
    rw [List.getElem?_eq_getElem hlt] at hi; exact Option.some.inj hi
  unfold movesOk at hok
  rw [List.all_eq_true] at hok
  have := hok i (List.mem_range.2 hlt)
  simp only [hi, hslot, Bool.and_eq_true, decide_eq_true_eq, List.all_eq_true] at this
  refine ⟨?_, this.1, ?_⟩
  · have h1 := (List.take_append_drop i ps).symm
    rw [List.drop_eq_getElem_cons hlt, hget] at h1
    exact h1
  · intro p' hp'
    have h2 := this.2 p' hp'
    simp only [Bool.and_eq_true, bne_iff_ne, ne_eq, Bool.or_eq_true] at h2
    refine ⟨h2.1, fun hh => ?_⟩
    rcases h2.2 with h3 | h3
    · rw [hh] at h3; cases h3
    · exact h3

/-- the full statement (not derived here): for a well-formed definition, every way of spelling one
    argument vector - any positional prefix with the rest by keyword in any order, any subset of the
    defaulted arguments omitted, skipped or given explicitly - makes both `map_args` succeed/fail
    alike and `get_delegate` bind the same vector -/
def spelling_equiv_full : Prop :=
  ∀ (L : Lattice) (ps : List Param), wfDef ps = true →
    ∀ (args args' : List Arg) (kw kw' : KwArgs),
      (∀ p ∈ ps, p.hidden = false → p.isStar = false → p.isStarStar = false →
        -- the value each named parameter receives is the same in both spellings
        (match slotOf ps p with
          | some s => if given args s then some (args.getD s .noValue) else alookup p.argName kw
          | none => alookup p.argName kw) =
        (match slotOf ps p with
          | some s => if given args' s then some (args'.getD s .noValue) else alookup p.argName kw'
          | none => alookup p.argName kw')) →
      args.drop (visCount ps) = args'.drop (visCount ps) →
      getDelegate L ps args kw = getDelegate L ps args' kw'

/-- hypotheses of the two move theorems are satisfiable: `f(a, ctx, b = d)` with a hidden parameter
    in the middle, `b` moved to a keyword / left to its default -/
example :
    let pa : Param := C05.Ex.pos 'a' 0 (C05.Ex.cls 4)
    let ph : Param := { C05.Ex.pos 'h' 1 (.hidden .context) with }
    let pb : Param := { C05.Ex.pos 'b' 2 (C05.Ex.cls 1) with default := some (.value C05.Ex.dVal) }
    let ps := [pa, ph, pb]
    slotOf ps pb = some 1 ∧ visCount ps = 2 ∧
    getDelegate C05.Ex.lat ps [C05.Ex.tick 1] [(['b'], .value C05.Ex.dVal)] =
      getDelegate C05.Ex.lat ps [C05.Ex.tick 1, .value C05.Ex.dVal] [] ∧
    getDelegate C05.Ex.lat ps [C05.Ex.tick 1] [] = getDelegate C05.Ex.lat ps [C05.Ex.tick 1, .value C05.Ex.dVal] [] ∧
    (getDelegate C05.Ex.lat ps [C05.Ex.tick 1] []).isSome = true := by
  decide

end Yaql.Props.C12
