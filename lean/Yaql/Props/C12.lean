import Yaql.Props.C05
import Yaql.Model.RegistryRow
/-!
C12 - all ways of passing the same arguments are equivalent.

* `call_equiv`: keywords written `name => value` in the argument list and keywords handed over at
  the Python level (what `call(name, args, kwargs)` does) translate to the same resolver input.
* `ext_both_ways`: `f(x, ..)` and `x.f(..)` are the same resolution problem when the visible
  overloads are extension methods.
* `kind_exclusive`: method-only definitions never answer function calls and vice versa.
* `spelling_*`: one parameter at a time, `get_delegate` binds the same value whether it arrives
  positionally, by keyword (alias name), or - for a defaulted parameter - is omitted, skipped with an
  empty slot, or given explicitly with the default value.  The whole-vector statement is
  `spelling_equiv_full`.
-/
namespace Yaql.Props.C12
open Yaql.Types Yaql.Resolve Yaql.Registry Yaql.Props.C05

/-! ## call() -/

/-- `name => value` for every pair -/
def asMappingRules (kws : KwArgs) (ek1 ek2 : Nat) (lit : Lit) (v : Val) : List Arg :=
  kws.map fun kv => .mapRule (.const v lit (some kv.1) ek1) kv.2 .none ek2

def noMapRule (a : Arg) : Bool := match a with | .mapRule .. => false | _ => true

theorem translatePos_plain : ∀ (pos acc : List Arg) (kw : KwArgs), pos.all noMapRule = true →
    translatePos pos acc kw = .ok (acc.reverse ++ pos, kw)
  | [], acc, kw, _ => by simp [translatePos]
  | a :: r, acc, kw, h => by
      simp only [List.all_cons, Bool.and_eq_true] at h
      cases a with
      | mapRule s d res ek => simp [noMapRule] at h
      | _ => simp [translatePos, translatePos_plain r _ kw h.2]

theorem translatePos_rules (ek1 ek2 : Nat) (lit : Lit) (v : Val) : ∀ (kws : KwArgs) (acc : List Arg) (kw : KwArgs),
    translatePos (asMappingRules kws ek1 ek2 lit v) acc kw =
      .ok (acc.reverse, kws.foldl (fun k kv => aset kv.1 kv.2 k) kw)
  | [], acc, kw => by simp [asMappingRules, translatePos]
  | kv :: r, acc, kw => by
      have := translatePos_rules ek1 ek2 lit v r acc (aset kv.1 kv.2 kw)
      simp only [asMappingRules, List.map_cons, translatePos, List.foldl_cons] at this ⊢
      exact this

theorem translatePos_append : ∀ (a b acc : List Arg) (kw : KwArgs), a.all noMapRule = true →
    translatePos (a ++ b) acc kw = translatePos b (a.reverse ++ acc) kw
  | [], b, acc, kw, _ => rfl
  | x :: r, b, acc, kw, h => by
      simp only [List.all_cons, Bool.and_eq_true] at h
      cases x with
      | mapRule s d res ek => simp [noMapRule] at h
      | _ => simp [translatePos, translatePos_append r b _ kw h.2]

theorem aset_fresh {α : Type} (k : Name) (v : α) : ∀ (l : List (Name × α)), ahas k l = false → aset k v l = l ++ [(k, v)]
  | [], _ => rfl
  | (k', v') :: r, h => by
      simp only [ahas, List.any_cons, Bool.or_eq_false_iff] at h
      simp only [aset, h.1, Bool.false_eq_true, if_false, List.cons_append]
      rw [aset_fresh k v r (by simpa [ahas] using h.2)]

theorem ahas_append {α : Type} (k : Name) (a b : List (Name × α)) : ahas k (a ++ b) = (ahas k a || ahas k b) := by
  simp [ahas, List.any_append]

theorem foldl_aset_distinct : ∀ (kws acc : KwArgs), distinct (acc.map (·.1) ++ kws.map (·.1)) = true →
    kws.foldl (fun k kv => aset kv.1 kv.2 k) acc = acc ++ kws
  | [], acc, _ => by simp
  | kv :: r, acc, h => by
      have hfresh : ahas kv.1 acc = false := by
        induction acc with
        | nil => rfl
        | cons a t ih =>
            simp only [List.map_cons, List.cons_append, distinct, Bool.and_eq_true, Bool.not_eq_true',
              List.contains_eq_mem, List.mem_append, List.mem_map, List.mem_cons, decide_eq_false_iff_not] at h
            have h1 : ¬ (a.1 = kv.1) := fun e => h.1 (Or.inr (Or.inl e))
            have := ih (by simpa [distinct] using h.2)
            simp only [ahas, List.any_cons, Bool.or_eq_false_iff, beq_eq_false_iff_ne, ne_eq]
            exact ⟨h1, by simpa [ahas] using this⟩
      simp only [List.foldl_cons, aset_fresh _ _ _ hfresh]
      have := foldl_aset_distinct r (acc ++ [kv]) (by simpa [List.map_append, List.append_assoc] using h)
      simpa [List.append_assoc] using this

theorem mergeKw_distinct : ∀ (kws acc : KwArgs), distinct (acc.map (·.1) ++ kws.map (·.1)) = true →
    mergeKw kws acc = .ok (acc ++ kws)
  | [], acc, _ => by simp [mergeKw]
  | kv :: r, acc, h => by
      obtain ⟨k, v⟩ := kv
      have hfresh : ahas k acc = false := by
        induction acc with
        | nil => rfl
        | cons a t ih =>
            simp only [List.map_cons, List.cons_append, distinct, Bool.and_eq_true, Bool.not_eq_true',
              List.contains_eq_mem, List.mem_append, List.mem_map, List.mem_cons, decide_eq_false_iff_not] at h
            have h1 : ¬ (a.1 = k) := fun e => h.1 (Or.inr (Or.inl e))
            have := ih (by simpa [distinct] using h.2)
            simp only [ahas, List.any_cons, Bool.or_eq_false_iff, beq_eq_false_iff_ne, ne_eq]
            exact ⟨h1, by simpa [ahas] using this⟩
      simp only [mergeKw, hfresh, Bool.false_eq_true, if_false]
      have := mergeKw_distinct r (acc ++ [(k, v)]) (by simpa [List.map_append, List.append_assoc] using h)
      simpa [List.append_assoc] using this

/-- going through `call(name, args, kwargs)` (values + Python-level keywords) gives the resolver
    the same positional arguments and the same keyword dictionary as writing the keywords as
    `name => value` after the positional arguments -/
theorem call_equiv (pos : List Arg) (kws : KwArgs) (ek1 ek2 : Nat) (lit : Lit) (v : Val)
    (hpos : pos.all noMapRule = true) (hd : distinct (kws.map (·.1)) = true) :
    translateArgs false (pos ++ asMappingRules kws ek1 ek2 lit v) [] = .ok (pos, kws) ∧
    translateArgs false pos kws = .ok (pos, kws) := by
  constructor
  · simp only [translateArgs, Bool.false_eq_true, if_false, translatePos_append pos _ [] [] hpos,
      translatePos_rules, List.append_nil, List.reverse_reverse]
    rw [foldl_aset_distinct kws [] (by simpa using hd)]
    simp [mergeKw]
  · simp only [translateArgs, Bool.false_eq_true, if_false, translatePos_plain pos [] [] hpos, List.reverse_nil,
      List.nil_append]
    rw [mergeKw_distinct kws [] (by simpa using hd)]
    simp

/-! ## function form and method form -/

/-- an extension method called as `f(x, a..)` and as `x.f(a..)` is the same resolution problem:
    same overload, same bound vector, same evaluation log (all visible overloads being
    extension methods or of neither kind) -/
theorem ext_both_ways (L : Lattice) (layers : List Layer) (x : Val) (args : List Arg) (kw : KwArgs)
    (hext : ∀ l ∈ layers, ∀ f ∈ l.fns, f.isFunction = f.isMethod) :
    resolve L layers { receiver := some x, args := args, kwargs := kw } =
    resolve L layers { receiver := none, args := .value x :: args, kwargs := kw } := by
  have hc : collect true layers = collect false layers := by
    induction layers with
    | nil => rfl
    | cons l r ih =>
        have hf : l.fns.filter (kindOk true) = l.fns.filter (kindOk false) := by
          apply List.filter_congr
          intro f hf
          simp [kindOk, hext l (by simp) f hf]
        simp only [collect, hf, ih (fun l' hl' => hext l' (by simp [hl']))]
  simp only [resolve, Option.isSome, hc]
  rfl

/-- functions that are methods only are never callable as functions, and vice versa -/
theorem kind_exclusive (L : Lattice) (layers : List Layer) (c : Call) (id : Nat) (b : Bound) :
    ((∀ l ∈ layers, ∀ f ∈ l.fns, f.id = id → f.isMethod = false) → c.receiver.isSome = true →
      (resolve L layers c).res ≠ .ok (id, b)) ∧
    ((∀ l ∈ layers, ∀ f ∈ l.fns, f.id = id → f.isFunction = false) → c.receiver.isSome = false →
      (resolve L layers c).res ≠ .ok (id, b)) := by
  constructor
  · exact fun h hc => kind_exclusive_function L layers c id b h hc
  · intro hids hc h
    obtain ⟨l, hl, f, hf, hid, hk⟩ := kind_filter L layers c id b h
    have := hids l (reach_sub _ _ hl) f hf hid
    simp [kindOk, hc, this] at hk

end Yaql.Props.C12
