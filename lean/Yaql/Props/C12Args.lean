import Yaql.Props.C02
import Yaql.Model.ArgShape
/-!
C12, parser half (`arglist_grammar`): which argument lists the parser accepts, stated over the
shift/reduce model of `parser.py` (`Yaql.Syntax.parse`) for EVERY operator table without a
suffix/binary symbol and EVERY argument list of EVERY length, the argument values being arbitrary
precedence-correct expressions.

An argument list is a list of *slots*: a value (`pos`), nothing (`empty`: the slot between two
commas - it becomes `utils.NO_VALUE`) or `name => value` (`named`).  The readable rule (`shapeOK`):

* the empty list is an argument list;
* otherwise the last slot is not empty (no trailing comma), positional / empty slots come first and
  named slots last, and the first named slot may follow a value directly, follow a value and ONE
  empty slot, or be the very first slot - it may not follow two empty slots nor an empty first slot.

`argsOK_iff_shape` shows that the condition `argsOK` of `C02.WF` (read off the grammar rules
`arglist / incomplete_arglist / named_arglist`) is this rule; `arglist_grammar` then says the parser
returns `f(slots)` for the tokens spelling it iff the rule holds (and the slot values are
precedence-correct), `arglist_only_shaped` that NO token list whatsoever makes the parser return a
call / list / map / index node whose slots break the rule, and `empty_slot_no_tokens` that an empty
slot is spelled by no token at all and stands for `NO_VALUE`.
-/
namespace Yaql.Props.C12Args
open Yaql.Syntax Yaql.OpTable Yaql.Props.C02 Yaql.ArgShape

def slotOf : Ast → Slot
  | .noValue => .empty
  | .mappingRule _ _ => .named
  | _ => .pos

/-- the budget of `Frame.args` that corresponds to a gap state -/
def Gap.budget : Gap → Nat
  | .start => 1
  | .afterValue => 2
  | .valueEmpty => 1
  | .far => 0

theorem slotsOK_named_tail : ∀ (as : List Ast), as ≠ [] →
    slotsOK 0 true as = allNamed (as.map slotOf)
  | [], h => absurd rfl h
  | a :: rest, _ => by
      cases rest with
      | nil => cases a <;> simp [slotsOK, allNamed, slotOf]
      | cons b r =>
          have ih := slotsOK_named_tail (b :: r) (by simp)
          cases a <;> simp [slotsOK, allNamed, slotOf, ih] <;> simp [slotOf] at ih ⊢

/-- budgets `b` and gap states: what matters of `b` is whether it is 0, 1 or at least 2 -/
def budgetGap : Nat → Gap → Prop
  | 0, g => g = .far
  | 1, g => g = .start ∨ g = .valueEmpty
  | 2, g => g = .afterValue
  | _ + 3, _ => False     -- the machine never creates a budget above 2

theorem slotsOK_eq_shapeFrom : ∀ (as : List Ast) (b : Nat) (g : Gap), budgetGap b g →
    slotsOK b false as = shapeFrom g (as.map slotOf)
  | [], b, g, _ => by simp [slotsOK, shapeFrom]
  | a :: rest, b, g, hg => by
      have named_case : ∀ s d, a = .mappingRule s d →
          slotsOK b false (a :: rest) = shapeFrom g ((a :: rest).map slotOf) := by
        intro s d ha
        subst ha
        have hb : decide (b ≥ 1) = g.namedMayStart := by
          match b, g, hg with
          | 0, _, h => simp [budgetGap] at h; subst h; simp [Gap.namedMayStart]
          | 1, _, h => rcases h with h | h <;> subst h <;> simp [Gap.namedMayStart]
          | 2, _, h => simp [budgetGap] at h; subst h; simp [Gap.namedMayStart]
          | _ + 3, _, h => simp [budgetGap] at h
        cases rest with
        | nil => simp [slotsOK, shapeFrom, slotOf, allNamed, hb]
        | cons r rs =>
            have := slotsOK_named_tail (r :: rs) (by simp)
            simp only [slotsOK, List.map, slotOf, shapeFrom, Bool.false_or, List.isEmpty_cons, hb, this]
      have empty_case : a = .noValue →
          slotsOK b false (a :: rest) = shapeFrom g ((a :: rest).map slotOf) := by
        intro ha
        subst ha
        cases rest with
        | nil => simp [slotsOK, shapeFrom, slotOf]
        | cons r rs =>
            have hn : budgetGap (b - 1) (g.next .empty) := by
              match b, g, hg with
              | 0, _, h => simp [budgetGap] at h; subst h; simp [budgetGap, Gap.next]
              | 1, _, h => rcases h with h | h <;> subst h <;> simp [budgetGap, Gap.next]
              | 2, _, h => simp [budgetGap] at h; subst h; simp [budgetGap, Gap.next]
              | _ + 3, _, h => simp [budgetGap] at h
            have ih := slotsOK_eq_shapeFrom (r :: rs) (b - 1) (g.next .empty) hn
            simp only [slotsOK, List.map, slotOf, shapeFrom, List.isEmpty_cons, Bool.not_false, Bool.true_and] at ih ⊢
            exact ih
      have pos_case : slotOf a = .pos → (∀ s d, a ≠ .mappingRule s d) → a ≠ .noValue →
          slotsOK b false (a :: rest) = shapeFrom g ((a :: rest).map slotOf) := by
        intro hs hnm hne
        have h1 : slotsOK b false (a :: rest) = (rest.isEmpty || slotsOK 2 false rest) := by
          cases a <;> simp_all [slotsOK]
        rw [h1]
        cases rest with
        | nil => simp [shapeFrom, hs]
        | cons r rs =>
            have ih := slotsOK_eq_shapeFrom (r :: rs) 2 .afterValue (by simp [budgetGap])
            simp only [List.isEmpty_cons, Bool.false_or, List.map, hs, shapeFrom] at ih ⊢
            simpa [Gap.next] using ih
      cases ha : a with
      | noValue => exact ha ▸ empty_case ha
      | mappingRule s d => exact ha ▸ named_case s d ha
      | _ => exact ha ▸ pos_case (by simp [ha, slotOf]) (by simp [ha]) (by simp [ha])

/-- the grammar condition of `C02.WF` on a slot list is the readable rule -/
theorem argsOK_iff_shape (as : List Ast) : argsOK as = shapeOK (as.map slotOf) := by
  unfold argsOK shapeOK
  rw [slotsOK_eq_shapeFrom as 1 .start (by simp [budgetGap])]
  simp

/-- **C12 `arglist_grammar`.**  For every table without a suffix/binary symbol, every name and every
slot list whose values are precedence-correct expressions: the parser returns the call `f(slots)`
for the tokens that spell it exactly when the slots follow the rule; and whenever the parser returns
a call for ANY token list, its slots follow the rule. -/
theorem arglist_grammar (c : Cfg) (hna : NoAmb c) (n : TokVal) (as : List Ast) (hw : WFL c as) :
    parse c (yield c (.func n as)) = .ok (.func n as) ↔ shapeOK (as.map slotOf) = true := by
  rw [← argsOK_iff_shape]
  constructor
  · intro h
    have := (parse_sound c _ _ h).1
    simp only [WF, WFn] at this
    exact this.2.1
  · intro h
    exact parse_roundtrip c hna _ ⟨rfl, by simp only [WFn]; exact ⟨h, hw⟩⟩

/-- when the slots break the rule the spelled tokens are NOT parsed into that call (the parser raises
a grammar error or - never, by `parse_sound` - returns some other tree spelling the same tokens) -/
theorem arglist_rejected (c : Cfg) (n : TokVal) (as : List Ast) (h : shapeOK (as.map slotOf) = false)
    (toks : List Token) : parse c toks ≠ .ok (.func n as) := by
  intro hp
  have := (parse_sound c _ _ hp).1
  simp only [WF, WFn] at this
  rw [argsOK_iff_shape, h] at this
  exact absurd this.2.1 (by simp)

mutual
/-- every argument list anywhere inside a precedence-correct tree follows the rule -/
def AllShaped : Ast → Prop
  | .binary _ _ l r => AllShaped l ∧ AllShaped r
  | .unary _ _ x => AllShaped x
  | .index b as => AllShaped b ∧ shapeOK (as.map slotOf) = true ∧ AllShapedL as
  | .list as => shapeOK (as.map slotOf) = true ∧ AllShapedL as
  | .map as => shapeOK (as.map slotOf) = true ∧ AllShapedL as
  | .func _ as => shapeOK (as.map slotOf) = true ∧ AllShapedL as
  | .call f as => AllShaped f ∧ shapeOK (as.map slotOf) = true ∧ AllShapedL as
  | .wrap e => AllShaped e
  | .mappingRule s d => AllShaped s ∧ AllShaped d
  | _ => True
def AllShapedL : List Ast → Prop
  | [] => True
  | a :: as => AllShaped a ∧ AllShapedL as
end

mutual
theorem allShaped_of_WFn (c : Cfg) : ∀ (t : Ast), WFn c t → AllShaped t
  | .const _ _, _ => by simp [AllShaped]
  | .keywordConst _, _ => by simp [AllShaped]
  | .getContextValue _, _ => by simp [AllShaped]
  | .noValue, _ => by simp [AllShaped]
  | .binary _ _ l r, h => by
      simp only [WFn] at h
      obtain ⟨o, _, _, _, _, _, hl, hr, _⟩ := h
      exact ⟨allShaped_of_WFn c l hl, allShaped_of_WFn c r hr⟩
  | .unary _ _ x, h => by
      simp only [WFn] at h
      obtain ⟨o, _, _, _, _, hx, _⟩ := h
      simp only [AllShaped]
      exact allShaped_of_WFn c x hx
  | .index b as, h => by
      simp only [WFn] at h
      obtain ⟨_, hb, _, ha, hl⟩ := h
      exact ⟨allShaped_of_WFn c b hb, by rw [← argsOK_iff_shape]; exact ha, allShapedL_of_WFL c as hl⟩
  | .list as, h => by
      simp only [WFn] at h
      exact ⟨by rw [← argsOK_iff_shape]; exact h.1, allShapedL_of_WFL c as h.2⟩
  | .map as, h => by
      simp only [WFn] at h
      exact ⟨by rw [← argsOK_iff_shape]; exact h.1, allShapedL_of_WFL c as h.2⟩
  | .func _ as, h => by
      simp only [WFn] at h
      exact ⟨by rw [← argsOK_iff_shape]; exact h.1, allShapedL_of_WFL c as h.2⟩
  | .call f as, h => by
      simp only [WFn] at h
      obtain ⟨_, _, hf, _, ha, hl⟩ := h
      exact ⟨allShaped_of_WFn c f hf, by rw [← argsOK_iff_shape]; exact ha, allShapedL_of_WFL c as hl⟩
  | .wrap e, h => by
      simp only [WFn] at h
      simp only [AllShaped]
      exact allShaped_of_WFn c e h.2
  | .mappingRule s d, h => by
      simp only [WFn] at h
      exact ⟨allShaped_of_WFn c s h.2.2.1, allShaped_of_WFn c d h.2.2.2⟩
theorem allShapedL_of_WFL (c : Cfg) : ∀ (as : List Ast), WFL c as → AllShapedL as
  | [], _ => by simp [AllShapedL]
  | a :: as, h => by
      simp only [WFL] at h
      exact ⟨allShaped_of_WFn c a h.1, allShapedL_of_WFL c as h.2⟩
end

/-- **whatever the parser returns, for any token list and any table, every argument list in it (of a
call, a method call, a list / map literal, an indexer, a delegate call, at any depth) follows the
rule** - trailing commas, empty named slots, positional slots after named ones and named slots after
two empty slots never get through -/
theorem arglist_only_shaped (c : Cfg) (toks : List Token) (t : Ast) (h : parse c toks = .ok t) : AllShaped t :=
  allShaped_of_WFn c t (parse_sound c toks t h).1.2

/-- an empty slot is spelled by no token at all (it is what lies between two commas) and is the tree
`NO_VALUE`; a slot list is spelled by its slots separated by single commas -/
theorem empty_slot_no_tokens (c : Cfg) : yield c .noValue = [] := by simp [yield]

theorem slots_comma_separated (c : Cfg) (a b : Ast) (rest : List Ast) :
    yieldL c (a :: b :: rest) = yield c a ++ tLit ',' :: yieldL c (b :: rest) := by
  simp [yieldL]

/-! ### the rule on examples (non-vacuity; `decide` evaluates the rule, `rfl` the parser) -/

example : shapeOK [] = true := by decide
example : shapeOK [.pos, .empty, .pos] = true := by decide                   -- f(1,,2)
example : shapeOK [.pos, .empty, .named] = true := by decide                 -- f(1,,a=>2)
example : shapeOK [.named, .named] = true := by decide                       -- f(a=>1,b=>2)
example : shapeOK [.empty, .pos] = true := by decide                         -- f(,1)
example : shapeOK [.empty, .empty, .pos, .named] = true := by decide         -- f(,,1,a=>2)
example : shapeOK [.pos, .empty] = false := by decide                        -- f(1,)   trailing comma
example : shapeOK [.empty] = false := by decide                              -- f(,)
example : shapeOK [.named, .pos] = false := by decide                        -- f(a=>1,2)
example : shapeOK [.named, .empty, .named] = false := by decide              -- f(a=>1,,b=>2)
example : shapeOK [.pos, .empty, .empty, .named] = false := by decide        -- f(1,,,a=>2)
example : shapeOK [.empty, .named] = false := by decide                      -- f(,a=>1)

/-- `f(1, , $a => 1)` is accepted with `NO_VALUE` in the middle ... -/
example : parse demoCfg [tok .func (.text ['f']), tok .number (.int 1), tLit ',', tLit ',',
      tok .dollar (.text ['$', 'a']), tok .mapping, tok .number (.int 1), tLit ')'] =
    .ok (.func (.text ['f']) [n1, .noValue, .mappingRule va n1]) := by rfl
/-- ... `f(1,)` and `f($a => 1, 1)` are grammar errors, both reported at the closing parenthesis -/
example : parse demoCfg [tok .func (.text ['f']), tok .number (.int 1), tLit ',', ⟨.lit ')', .none, 5⟩] =
    .error (.grammar (some 5)) := by rfl
example : parse demoCfg [tok .func (.text ['f']), tok .dollar (.text ['$', 'a']), tok .mapping,
      tok .number (.int 1), tLit ',', tok .number (.int 1), ⟨.lit ')', .none, 12⟩] = .error (.grammar (some 12)) := by rfl
/-- the hypotheses of `arglist_grammar` are satisfiable by a non-trivial instance -/
example : WFL demoCfg [n1, .noValue, .mappingRule va n1] ∧
    shapeOK ([n1, .noValue, .mappingRule va n1].map slotOf) = true := by
  refine ⟨?_, by decide⟩
  simp [WFL, WFn, n1, va, isValue]

end Yaql.Props.C12Args
