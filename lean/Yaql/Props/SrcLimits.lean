import Yaql.Gen.SrcLimits
import Yaql.Lemmas.PyPrelude
import Yaql.Lemmas.PyLoops
/-!
Equivalence of the definitions translated from the CURRENT yaql source (`Yaql.Gen.SrcLimits`, regenerated on every
run by harness/py2lean.py) with the hand-written model - for all inputs.
-/
namespace Yaql.Props.SrcLimits
open Yaql Yaql.Gen Yaql.Lemmas.PyLoops

/-- the sized check in terms of the Python test `0 <= max_count < len(iterable)` -/
theorem limitSized_limitOf (m : Int) (n : Nat) :
    Limits.limitSized (Py.limitOf m) n = if 0 ≤ m ∧ m < (n : Int) then .error .tooLarge else .ok () := by
  unfold Limits.limitSized Py.limitOf
  by_cases h : m < 0
  · have : ¬ (0 ≤ m ∧ m < (n : Int)) := by omega
    simp [h, this, Convert.Limit.admits]
  · by_cases h2 : m < (n : Int)
    · have h3 : ¬ (n ≤ m.toNat) := by omega
      have : (0 ≤ m ∧ m < (n : Int)) := by omega
      simp [h, this, h3, Convert.Limit.admits]
    · have h3 : (n ≤ m.toNat) := by omega
      have : ¬ (0 ≤ m ∧ m < (n : Int)) := by omega
      simp [h, this, h3, Convert.Limit.admits]

theorem limit_iterable_sized_src_eq (iterable : List Value) (limit_or_engine : Int) :
    SrcLimits.limit_iterable_sized iterable limit_or_engine
      = match Limits.limitSized (Py.limitOf limit_or_engine) iterable.length with
        | .ok _ => .ok iterable
        | .error _ => .error (.other 2) := by
  simp only [SrcLimits.limit_iterable_sized, limitSized_limitOf]
  by_cases h : 0 ≤ limit_or_engine ∧ limit_or_engine < (iterable.length : Int)
  · simp [h]
  · simp [h]

/-! ### `limit_memory_usage` -/

theorem limit_memory_go (quota : Int) (f : Int → Int × Nat → Py.Step Int (Except Py.Err Unit))
    (hf : ∀ s c sz, f s (c, sz) = if s + c * (sz : Int) > quota then .ret (.error (.other 1))
                                   else .next (s + c * (sz : Int)))
    (args : List (Int × Nat)) (total : Int) :
    Py.forLoop args total f
      = if Limits.limitMemoryGo quota total args then .done (args.foldl (fun t a => t + a.1 * (a.2 : Int)) total)
        else .ret (.error (.other 1)) := by
  induction args generalizing total with
  | nil => simp [Limits.limitMemoryGo]
  | cons a r ih =>
    obtain ⟨c, sz⟩ := a
    rw [Lemmas.PyPrelude.forLoop_cons, hf]
    by_cases h : total + c * (sz : Int) > quota
    · simp [h, Limits.limitMemoryGo]
    · simp only [h, if_false, Limits.limitMemoryGo, List.foldl_cons]
      exact ih _

theorem limit_memory_usage_src_eq (quota_or_engine : Int) (args : List (Int × Nat)) :
    SrcLimits.limit_memory_usage quota_or_engine args
      = if Limits.limitMemory quota_or_engine args then .ok () else .error (.other 1) := by
  unfold SrcLimits.limit_memory_usage Limits.limitMemory
  by_cases h : quota_or_engine ≤ 0
  · simp [h]
  · simp only [h, if_false]
    rw [limit_memory_go quota_or_engine _ (by py_body)]
    cases Limits.limitMemoryGo quota_or_engine 0 args <;> rfl

/-! ### `limit_iterable` on an iterator, consumed to the end -/

theorem limit_iter_go (m : Int) (f : List Value → Int × Value → Py.Step (List Value) (Except Py.Err (List Value)))
    (hf : ∀ out i t, f out (i, t) = if 0 ≤ m ∧ m ≤ i then .ret (.error (.other 2)) else .next (out ++ [t]))
    (xs : List Value) (i : Int) (acc : List Value) (hi : m < 0 ∨ i ≤ m) :
    Py.forLoop (Py.enumFrom i xs) acc f
      = if 0 ≤ m ∧ m < i + xs.length then .ret (.error (.other 2)) else .done (acc ++ xs) := by
  induction xs generalizing i acc with
  | nil =>
    simp
    omega
  | cons x xs ih =>
    simp only [enumFrom_cons, Lemmas.PyPrelude.forLoop_cons, hf]
    by_cases h : 0 ≤ m ∧ m ≤ i
    · simp [h]
      omega
    · simp only [h, if_false]
      rw [ih (i + 1) (acc ++ [x]) (by omega)]
      simp only [List.length_cons, List.append_assoc, List.cons_append, List.nil_append]
      congr 1
      simp; omega

theorem limit_iterable_iter_src_eq (iterable : List Value) (limit_or_engine : Int) :
    SrcLimits.limit_iterable_iter iterable limit_or_engine
      = match Limits.limitSized (Py.limitOf limit_or_engine) iterable.length with
        | .ok _ => .ok iterable
        | .error _ => .error (.other 2) := by
  unfold SrcLimits.limit_iterable_iter
  simp only [enumerate_eq]
  rw [limit_iter_go limit_or_engine _ (by py_body) iterable 0 [] (by omega), limitSized_limitOf]
  by_cases h : 0 ≤ limit_or_engine ∧ limit_or_engine < (iterable.length : Int)
  · have h' : 0 ≤ limit_or_engine ∧ limit_or_engine < 0 + (iterable.length : Int) := by omega
    rw [if_pos h, if_pos h']
  · have h' : ¬ (0 ≤ limit_or_engine ∧ limit_or_engine < 0 + (iterable.length : Int)) := by omega
    rw [if_neg h, if_neg h']; rfl

end Yaql.Props.SrcLimits
