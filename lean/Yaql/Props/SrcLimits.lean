import Yaql.Gen.SrcLimits
import Yaql.Lemmas.PyPrelude
/-!
Equivalence of the definitions translated from the CURRENT yaql source (`Yaql.Gen.SrcLimits`, regenerated on every
run by harness/py2lean.py) with the hand-written model - for all inputs.
-/
namespace Yaql.Props.SrcLimits
open Yaql Yaql.Gen

end Yaql.Props.SrcLimits
