import Yaql.Props.C05
import Yaql.Model.EvalOrder
import Yaql.Model.PerElem
/-!
C11 - arguments are evaluated once, in order; lazy ones only on demand.

Part 1 (over `Yaql.Resolve`): the evaluation log of a call is exactly the eager non-constant
positional arguments left to right followed by the keyword ones in source order, each once; it is
produced by ONE pass that does not look at the candidates, hence it does not grow with their number.
Part 2 (over `Yaql.EvalOrder`): the trace of an expression whose operators are all eager is the
in-order listing of its probes; operators with lazy operands evaluate exactly the operands their
meaning selects, and never anything twice or out of order (`trace_sublist`).
-/
namespace Yaql.Props.C11
open Yaql.Types Yaql.Resolve Yaql.Props.C05

/-! ## part 1: one evaluation pass -/

/-- the probes an argument list fires under laziness flags `lz`: every evaluable argument at a
    non-lazy position, left to right, each once -/
def eagerLog : List Bool → List Arg → List Nat
  | _, [] => []
  | lz, a :: r => (if !lz.headD false && a.evaluable then a.evalLog else []) ++ eagerLog lz.tail r

theorem evalPos_log : ∀ (lz : List Bool) (args : List Arg), (evalPos lz args).2 = eagerLog lz args
  | _, [] => rfl
  | lz, a :: r => by
      simp only [evalPos, eagerLog, ← evalPos_log lz.tail r]
      split <;> simp_all

theorem evalKw_log : ∀ (lz : List Bool) (kw : KwArgs), (evalKw lz kw).2 = eagerLog lz (kw.map (·.2))
  | _, [] => rfl
  | lz, (k, a) :: r => by
      simp only [evalKw, List.map_cons, eagerLog, ← evalKw_log lz.tail r]
      split <;> simp_all

/-- arguments at eager positions are replaced by their values, the others are handed on untouched -/
theorem evalPos_args : ∀ (lz : List Bool) (args : List Arg), (evalPos lz args).1.length = args.length
  | _, [] => rfl
  | lz, a :: r => by
      simp only [evalPos]
      split <;> simp [evalPos_args lz.tail r]

/-- the log of a resolution is either empty (resolution ended before the evaluation stage) or the
    single left-to-right pass over the translated arguments under the COMMON laziness signature of the
    mapped candidates: positional arguments first, then keywords in source order -/
theorem eager_once_in_order (L : Lattice) (vis : List (List FDef)) (c : Call) :
    (chooseOverload L vis c).log = [] ∨
    ∃ args kw m0,
      translateArgs ((vis.flatten.map (·.noKwargs)).headD false) (callArgs c) c.kwargs = .ok (args, kw) ∧
      m0 ∈ (vis.map (mappedOf L args kw)).flatten ∧
      (∀ m ∈ (vis.map (mappedOf L args kw)).flatten, m.sig = m0.sig) ∧
      (chooseOverload L vis c).log = eagerLog m0.sig.pos args ++ eagerLog m0.sig.kw (kw.map (·.2)) := by
  unfold chooseOverload
  simp only [mapLevels_spec]
  split
  · exact Or.inl rfl
  · cases htr : translateArgs ((vis.flatten.map (·.noKwargs)).headD false) (callArgs c) c.kwargs with
    | error e => exact Or.inl rfl
    | ok r =>
        obtain ⟨args, kw⟩ := r
        simp only
        cases hflat : (vis.map (mappedOf L args kw)).flatten with
        | nil =>
            left
            have hfil : ((vis.map (mappedOf L args kw)).filter fun cs => !cs.isEmpty) = [] := by
              have := flatten_filter_nonempty (vis.map (mappedOf L args kw))
              rw [hflat] at this
              cases hf : (vis.map (mappedOf L args kw)).filter fun cs => !cs.isEmpty with
              | nil => rfl
              | cons x xs =>
                  have hx : x ∈ (vis.map (mappedOf L args kw)).filter fun cs => !cs.isEmpty := by simp [hf]
                  have hx2 := (List.mem_filter.1 hx).2
                  rw [hf] at this
                  cases x with
                  | nil => simp at hx2
                  | cons a as => simp at this
            simp [agree, firstSig, hfil]
        | cons m0 rest =>
            by_cases hag : agree (firstSig none (m0 :: rest)) (m0 :: rest) = true
            · simp only [hag, if_true]
              split
              · exact Or.inl rfl
              · right
                refine ⟨args, kw, m0, rfl, by rw [hflat]; simp, ?_, ?_⟩
                · intro m hm
                  rw [hflat] at hm
                  simp only [agree, firstSig, List.head?_cons, Option.map_some, List.all_eq_true, decide_eq_true_eq,
                    Option.some.injEq] at hag
                  exact hag m hm
                · simp [firstSig, evalPos_log, evalKw_log]
            · left
              simp [hag]

/-- adding candidates does not add evaluations: if a call resolves (no error) against a family and
    against a larger one, both evaluate exactly the same arguments in the same order -/
theorem log_independent_of_candidates (L : Lattice) (vis vis' : List (List FDef)) (c : Call)
    (hsub : ∀ f ∈ vis.flatten, f ∈ vis'.flatten)
    (hne : vis.flatten ≠ [])
    (hnk : (vis'.flatten.any (·.noKwargs) && vis'.flatten.any (!·.noKwargs)) = false)
    (h1 : (chooseOverload L vis c).log ≠ []) (h2 : (chooseOverload L vis' c).log ≠ []) :
    (chooseOverload L vis' c).log = (chooseOverload L vis c).log := by
  rcases eager_once_in_order L vis c with h | ⟨args, kw, m0, htr, hm0, hall, hlog⟩
  · exact absurd h h1
  rcases eager_once_in_order L vis' c with h | ⟨args', kw', m0', htr', hm0', hall', hlog'⟩
  · exact absurd h h2
  -- both families translate the call with the same no_kwargs flag
  have hflag : (vis.flatten.map (·.noKwargs)).headD false = (vis'.flatten.map (·.noKwargs)).headD false := by
    have hnk0 : (vis.flatten.any (·.noKwargs) && vis.flatten.any (!·.noKwargs)) = false := by
      cases h : (vis.flatten.any (·.noKwargs) && vis.flatten.any (!·.noKwargs)) with
      | false => rfl
      | true =>
          simp only [Bool.and_eq_true, List.any_eq_true] at h
          obtain ⟨⟨a, ha, ha'⟩, ⟨b, hb, hb'⟩⟩ := h
          have : (vis'.flatten.any (·.noKwargs) && vis'.flatten.any (!·.noKwargs)) = true := by
            simp only [Bool.and_eq_true, List.any_eq_true]
            exact ⟨⟨a, hsub a ha, ha'⟩, ⟨b, hsub b hb, hb'⟩⟩
          rw [this] at hnk; cases hnk
    have e1 : ∀ {α : Type} (f : α → Bool) (l : List α), (l.any f && l.any (fun x => !f x)) = false →
        (l.map f).headD false = l.any f := by
      intro α f l
      induction l with
      | nil => intro _; rfl
      | cons a r _ =>
          intro h
          simp only [List.map_cons, List.headD_cons, List.any_cons] at h ⊢
          cases hf : f a
          · simp only [hf, Bool.false_or, Bool.not_false, Bool.true_or, Bool.and_true] at h ⊢
            exact h.symm
          · simp
    rw [e1 _ _ hnk0, e1 _ _ hnk]
    cases hv : vis.flatten with
    | nil => exact absurd hv hne
    | cons f0 r =>
        cases hf : f0.noKwargs with
        | true =>
            have : vis'.flatten.any (·.noKwargs) = true :=
              List.any_eq_true.2 ⟨f0, hsub f0 (by simp [hv]), hf⟩
            simp [hf, this]
        | false =>
            -- f0 is not no_kwargs; by agreement nobody is
            have h0 : vis.flatten.any (·.noKwargs) = false := by
              cases h : vis.flatten.any (·.noKwargs) with
              | false => rfl
              | true =>
                  have : vis.flatten.any (!·.noKwargs) = true :=
                    List.any_eq_true.2 ⟨f0, by simp [hv], by simp [hf]⟩
                  rw [h, this] at hnk0; cases hnk0
            have h0' : vis'.flatten.any (·.noKwargs) = false := by
              cases h : vis'.flatten.any (·.noKwargs) with
              | false => rfl
              | true =>
                  have : vis'.flatten.any (!·.noKwargs) = true :=
                    List.any_eq_true.2 ⟨f0, hsub f0 (by simp [hv]), by simp [hf]⟩
                  rw [h, this] at hnk; cases hnk
            rw [← hv, h0, h0']
  rw [hflag, htr'] at htr
  cases htr
  -- m0 is also mapped in the larger family, so it carries the common signature there
  have hm0in : m0 ∈ (vis'.map (mappedOf L args kw)).flatten := by
    simp only [List.mem_flatten, List.mem_map] at hm0 ⊢
    obtain ⟨l, ⟨lv, hlv, rfl⟩, hm⟩ := hm0
    have hm' := mem_mappedOf hm
    have : m0.fd ∈ vis'.flatten := hsub _ (List.mem_flatten.2 ⟨lv, hlv, hm'.1⟩)
    obtain ⟨lv', hlv', hf'⟩ := List.mem_flatten.1 this
    refine ⟨mappedOf L args kw lv', ⟨lv', hlv', rfl⟩, ?_⟩
    simp only [mappedOf, List.mem_filterMap]
    exact ⟨m0.fd, hf', by simp [hm'.2]⟩
  rw [hlog, hlog', ← hall' m0 hm0in]

/-! ## part 2: expressions -/

open Yaql.EvalOrder

mutual
/-- for an expression in which every probe sits in an eager position, the trace is the in-order
    listing of its probes, each exactly once -/
theorem eager_fragment_trace : ∀ (x : X), eagerOnly x = true → trace x = probes x
  | .leaf, _ => rfl
  | .tick id a, h => by simp only [trace, probes, eager_fragment_trace a (by simpa [eagerOnly] using h)]
  | .eager ks, h => by simp only [trace, probes, eager_fragment_traceL ks (by simpa [eagerOnly] using h)]
  | .and_ .., h => by simp [eagerOnly] at h
  | .or_ .., h => by simp [eagerOnly] at h
  | .elvis .., h => by simp [eagerOnly] at h
  | .switch .., h => by simp [eagerOnly] at h
  | .selectCase .., h => by simp [eagerOnly] at h
  | .allCases .., h => by simp [eagerOnly] at h
  | .switchCase .., h => by simp [eagerOnly] at h
  | .coalesce .., h => by simp [eagerOnly] at h
  | .defCalls .., h => by simp [eagerOnly] at h
theorem eager_fragment_traceL : ∀ (l : List X), eagerOnlyL l = true → traces l = probesL l
  | [], _ => rfl
  | x :: r, h => by
      simp only [eagerOnlyL, Bool.and_eq_true] at h
      simp only [traces, probesL, eager_fragment_trace x h.1, eager_fragment_traceL r h.2]
end

/-- a function made by `def(f, body)`: defining it evaluates nothing, and every one of `n` calls `f()`
    evaluates the body once more - `n` calls, `n` times the body's probes; no call, no probe -/
theorem thunk_per_call (body : X) (n : Nat) :
    trace (.defCalls body (List.replicate n true) []) = (List.replicate n (trace body)).flatten := by
  simp only [trace, traces]
  induction n with
  | zero => simp [callsTrace]
  | succ k ih => simp [List.replicate_succ, callsTrace, ih]

/-- the slots between the calls keep their own place and are evaluated once each -/
theorem thunk_slots (body o : X) (ps : List Bool) (os : List X) :
    trace (.defCalls body (true :: ps) os) = trace body ++ trace (.defCalls body ps os) ∧
    trace (.defCalls body (false :: ps) (o :: os)) = trace o ++ trace (.defCalls body ps os) := by
  simp [trace, traces, callsTrace]

example : trace (.defCalls (.tick 1 .leaf) [true, false, true] [.tick 2 .leaf]) = [1, 2, 1] := by decide
example : trace (.defCalls (.tick 1 .leaf) [false] [.tick 2 .leaf]) = [2] := by decide

theorem short_circuit_and (a b : X) :
    trace (.and_ a b false) = trace a ∧ trace (.and_ a b true) = trace a ++ trace b := by
  simp [trace]

theorem short_circuit_or (a b : X) :
    trace (.or_ a b true) = trace a ∧ trace (.or_ a b false) = trace a ++ trace b := by
  simp [trace]

theorem short_circuit_elvis (r : X) (ks : List X) :
    trace (.elvis r true ks) = trace r ∧ trace (.elvis r false ks) = trace r ++ (traces ks).flatten := by
  simp [trace]

/-- `switch`: when the first true condition is the `i`-th, exactly conditions `0..i` and value `i` are
    evaluated -/
theorem short_circuit_switch (pre : List X) (c v : X) (post postv : List X) (prev : List X)
    (hl : prev.length = pre.length) :
    trace (.switch (pre ++ c :: post) (List.replicate pre.length false ++ [true]) (prev ++ v :: postv)) =
      (traces pre).flatten ++ trace c ++ trace v := by
  simp only [trace]
  induction pre generalizing prev with
  | nil =>
      cases prev with
      | nil => simp [traces, switchTrace]
      | cons _ _ => simp at hl
  | cons p ps ih =>
      cases prev with
      | nil => simp at hl
      | cons q qs =>
          simp only [List.length_cons, Nat.add_right_cancel_iff] at hl
          have := ih qs hl
          simp only [List.cons_append, traces, List.replicate_succ, switchTrace, Bool.false_eq_true, if_false,
            List.length_cons, List.flatten_cons, List.append_assoc] at this ⊢
          rw [this]

theorem short_circuit_switch_none (cs vs : List X) :
    trace (.switch cs (List.replicate cs.length false) vs) = (traces cs).flatten := by
  simp only [trace]
  induction cs generalizing vs with
  | nil => simp [traces, switchTrace]
  | cons c r ih =>
      cases vs with
      | nil =>
          have := ih []
          simp only [traces, List.length_cons, List.replicate_succ, switchTrace, Bool.false_eq_true, if_false,
            List.flatten_cons] at this ⊢
          rw [this]
      | cons v vr =>
          have := ih vr
          simp only [traces, List.length_cons, List.replicate_succ, switchTrace, Bool.false_eq_true, if_false,
            List.flatten_cons] at this ⊢
          rw [this]

/-- `selectCase` / `coalesce`: operands up to and including the first selected one -/
theorem untilFlag_first (pre : List (List Nat)) (t : List Nat) (post : List (List Nat)) (fs : List Bool) :
    untilFlag (pre ++ t :: post) (List.replicate pre.length false ++ true :: fs) = pre.flatten ++ t := by
  induction pre with
  | nil => simp [untilFlag]
  | cons p ps ih => simp [untilFlag, List.replicate_succ, ih]

theorem traces_append : ∀ (a b : List X), traces (a ++ b) = traces a ++ traces b
  | [], _ => rfl
  | x :: r, b => by simp [traces, traces_append r b]

theorem traces_length : ∀ (a : List X), (traces a).length = a.length
  | [] => rfl
  | _ :: r => by simp [traces, traces_length r]

theorem short_circuit_selectCase (pre : List X) (p : X) (post : List X) (fs : List Bool) :
    trace (.selectCase (pre ++ p :: post) (List.replicate pre.length false ++ true :: fs)) =
      (traces pre).flatten ++ trace p := by
  simp only [trace, traces_append, traces]
  have := untilFlag_first (traces pre) (trace p) (traces post) fs
  rw [traces_length] at this
  exact this

theorem short_circuit_coalesce (pre : List X) (a : X) (post : List X) (ns : List Bool) :
    trace (.coalesce (pre ++ a :: post) (List.replicate pre.length true ++ false :: ns)) =
      (traces pre).flatten ++ trace a := by
  simp only [trace, traces_append, traces, List.map_append, List.map_replicate, List.map_cons, Bool.not_true,
    Bool.not_false]
  have := untilFlag_first (traces pre) (trace a) (traces post) (ns.map not)
  rw [traces_length] at this
  exact this

theorem short_circuit_switchCase (c : X) (as : List X) (i : Nat) :
    trace (.switchCase c (some i) as) = trace c ++ (traces as).getD i [] ∧
    trace (.switchCase c none as) = trace c := by
  simp [trace]

/-- `selectAllCases` / `examine` evaluate every predicate, in order, once (when consumed) -/
theorem all_cases_trace (ps : List X) : trace (.allCases ps) = (traces ps).flatten := by simp [trace]

/-- concrete instances -/
example : trace (.and_ (.tick 1 .leaf) (.tick 2 .leaf) false) = [1] := by decide
example : trace (.eager [.tick 1 .leaf, .eager [.tick 2 .leaf, .tick 3 (.tick 4 .leaf)]]) = [1, 2, 4, 3] := by decide
example : trace (.switch [.tick 1 .leaf, .tick 3 .leaf, .tick 5 .leaf] [false, true, false]
    [.tick 2 .leaf, .tick 4 .leaf, .tick 6 .leaf]) = [1, 3, 4] := by decide
example : trace (.coalesce [.tick 1 .leaf, .tick 2 .leaf, .tick 3 .leaf] [true, false, false]) = [1, 2] := by decide

/-! ## part 3: per-element lambdas run once per element consumed

Over `Yaql.PerElem`: the probe log of a streaming operator over ANY input stream (of any length).
`runOn_log` - nothing is lost, repeated or reordered by running a stage (for all stages);
`per_element_total` - an operator that applies its lambda to the elements it pulls fires, for each
element consumed and in input order, the probes of pulling it followed by the probes of the lambda
body on it, once; nothing of the elements it never pulls;
`per_element` - the same for the first k+1 results: exactly the elements up to the one that yields
result k are consumed;
`take_log` - a consumer that wants k results (`take k`) consumes exactly the first k of them. -/

open Yaql.PerElem

theorem emit_log (pend : List Nat) (r : Rx) : (emit pend r).1.flatten ++ (emit pend r).2 = pend ++ r.events := by
  unfold emit Rx.events
  cases r.outs <;> simp

/-- everything a stage fires from its `i`-th pull on: per pulled element the probes of pulling
    it and of the stage's reaction, up to the reaction that stops - or to the end of the input -/
def consumedLog (m : Stage) (i : Nat) : List (List Nat) → List Nat → List Nat
  | [], fin => fin ++ (m.finish i).events
  | d :: rest, fin => d ++ (m.step i).events ++ (if (m.step i).stop then [] else consumedLog m (i + 1) rest fin)

/-- conservation: the log of the result stream is the pending probes followed by what the stage
    and the elements it pulls fire, in pull order - whatever the stage hands on or holds back -/
theorem runFrom_log (m : Stage) : ∀ (ds : List (List Nat)) (i : Nat) (pend fin : List Nat),
    (runFrom m i pend ds fin).log = pend ++ consumedLog m i ds fin
  | [], i, pend, fin => by
      have := emit_log (pend ++ fin) (m.finish i)
      simp only [runFrom, Strm.log, consumedLog, this, List.append_assoc]
  | d :: rest, i, pend, fin => by
      have he := emit_log (pend ++ d) (m.step i)
      by_cases hs : (m.step i).stop = true
      · simp only [runFrom, hs, ↓reduceIte, Strm.log, consumedLog, he, List.append_assoc, List.append_nil]
      · have ih := runFrom_log m rest (i + 1) (emit (pend ++ d) (m.step i)).2 fin
        simp only [Strm.log] at ih
        simp only [runFrom, hs, Bool.false_eq_true, ↓reduceIte, Strm.log, consumedLog, List.flatten_append, List.append_assoc, ih]
        rw [← List.append_assoc (emit (pend ++ d) (m.step i)).1.flatten, he]
        simp [List.append_assoc]

theorem runOn_log (m : Stage) (I : Strm) :
    (runOn m I).log = m.start.events ++ (if m.start.stop then [] else consumedLog m 0 I.outs I.fin) := by
  have he := emit_log [] m.start
  by_cases hs : m.start.stop = true
  · simp only [runOn, hs, ↓reduceIte, Strm.log, List.append_nil]
    simpa using he
  · have ih := runFrom_log m I.outs 0 (emit [] m.start).2 I.fin
    simp only [Strm.log] at ih
    simp only [runOn, hs, Bool.false_eq_true, ↓reduceIte, Strm.log, List.flatten_append, List.append_assoc, ih]
    rw [← List.append_assoc, he]
    simp

/-- how many elements a stage pulls from an input (it stops pulling at its first stopping reaction) -/
def consumed (m : Stage) (i : Nat) : List (List Nat) → Nat
  | [] => 0
  | _ :: rest => if (m.step i).stop then 1 else 1 + consumed m (i + 1) rest

/-- does the stage stop by itself before its input ends -/
def stops (m : Stage) (i : Nat) : List (List Nat) → Bool
  | [] => false
  | _ :: rest => (m.step i).stop || stops m (i + 1) rest

theorem consumed_le (m : Stage) : ∀ (ds : List (List Nat)) (i : Nat), consumed m i ds ≤ ds.length
  | [], _ => by simp [consumed]
  | _ :: rest, i => by
      have := consumed_le m rest (i + 1)
      simp only [consumed, List.length_cons]
      split <;> omega

/-- pulling element after element and applying the lambda to each: element `j` of `ds` is pulled
    (its probes fire), then `lam (i+j)` fires -/
def perElemLog (lam : Nat → List Nat) (i : Nat) : List (List Nat) → List Nat
  | [] => []
  | d :: rest => d ++ lam i ++ perElemLog lam (i + 1) rest

/-- the stage applies its lambda (whose probes on input element `i` are `lam i`) to every element
    it pulls and fires nothing else -/
structure Applies (m : Stage) (lam : Nat → List Nat) : Prop where
  start_silent : m.start.events = []
  start_go : m.start.stop = false
  step : ∀ i, (m.step i).events = lam i
  finish_silent : ∀ n, (m.finish n).events = []

theorem consumedLog_applies {m : Stage} {lam : Nat → List Nat} (h : Applies m lam) :
    ∀ (ds : List (List Nat)) (i : Nat) (fin : List Nat),
      consumedLog m i ds fin = perElemLog lam i (ds.take (consumed m i ds)) ++ (if stops m i ds then [] else fin)
  | [], i, fin => by simp [consumedLog, consumed, stops, perElemLog, h.finish_silent]
  | d :: rest, i, fin => by
      by_cases hs : (m.step i).stop = true
      · simp [consumedLog, consumed, stops, perElemLog, hs, h.step]
      · have ih := consumedLog_applies h rest (i + 1) fin
        simp only [Bool.not_eq_true] at hs
        simp only [consumedLog, consumed, stops, hs, Bool.false_eq_true, ↓reduceIte, h.step, ih, Bool.false_or,
          Nat.add_comm 1, List.take_succ_cons, perElemLog, List.append_assoc]

/-- **per-element lambdas, whole consumption**: an operator that applies its lambda to the
    elements it pulls fires - whatever its input stream is and however long - for each of the
    `consumed` elements in input order the probes of pulling it and then the probes of the lambda
    body on it, once; then, only if it ran into the end of its input, the probes of finding the end.
    Nothing of the elements behind the `consumed` ones fires. -/
theorem per_element_total {m : Stage} {lam : Nat → List Nat} (h : Applies m lam) (I : Strm) :
    (runOn m I).log =
      perElemLog lam 0 (I.outs.take (consumed m 0 I.outs)) ++ (if stops m 0 I.outs then [] else I.fin) := by
  rw [runOn_log, h.start_silent, h.start_go]
  simp only [Bool.false_eq_true, ↓reduceIte, List.nil_append]
  exact consumedLog_applies h _ _ _

theorem perElemLog_filter (own : Nat → Bool) (lam : Nat → List Nat) (hl : ∀ i, ∀ e ∈ lam i, own e = true) :
    ∀ (ds : List (List Nat)) (i : Nat), (∀ d ∈ ds, ∀ e ∈ d, own e = false) →
      (perElemLog lam i ds).filter own = ((List.range' i ds.length).map lam).flatten
  | [], _, _ => by simp [perElemLog]
  | d :: rest, i, hd => by
      have h1 : d.filter own = [] := List.filter_eq_nil_iff.2 fun e he => by simp [hd d (List.mem_cons_self ..) e he]
      have h2 : (lam i).filter own = lam i := List.filter_eq_self.2 (hl i)
      have ih := perElemLog_filter own lam hl rest (i + 1) fun d' hd' => hd d' (List.mem_cons_of_mem _ hd')
      simp only [perElemLog, List.filter_append, h1, h2, ih, List.nil_append, List.length_cons, List.range'_succ,
        List.map_cons, List.flatten_cons]

/-- the lambda's own probes in the log: the probes of its body once per element consumed, in
    input order (`lam 0 ++ lam 1 ++ .. ++ lam (consumed-1)`) - when the input's probes are others -/
theorem per_element_own {m : Stage} {lam : Nat → List Nat} (h : Applies m lam) (I : Strm) (own : Nat → Bool)
    (hl : ∀ i, ∀ e ∈ lam i, own e = true) (hI : ∀ d ∈ I.outs, ∀ e ∈ d, own e = false) (hf : ∀ e ∈ I.fin, own e = false) :
    (runOn m I).log.filter own = ((List.range (consumed m 0 I.outs)).map lam).flatten := by
  rw [per_element_total h, List.filter_append]
  have hfin : (if stops m 0 I.outs then [] else I.fin).filter own = [] := by
    split
    · rfl
    · exact List.filter_eq_nil_iff.2 fun e he => by simp [hf e he]
  rw [hfin, List.append_nil, perElemLog_filter own lam hl _ 0 (fun d hd => hI d (List.mem_of_mem_take hd))]
  rw [List.length_take, Nat.min_eq_left (consumed_le m _ _), List.range_eq_range']

/-! ### asked for k results -/

/-- the stage is `Applies`, hands on at most one result per element - after the lambda has run -
    and none before its first pull or at the end of its input (select, where, distinct, takeWhile,
    skipWhile) -/
structure Simple (m : Stage) (lam : Nat → List Nat) : Prop where
  applies : Applies m lam
  start_outs : m.start.outs = []
  one : ∀ i, ((m.step i).outs = [] ∧ (m.step i).tail = lam i) ∨ ((m.step i).outs = [lam i] ∧ (m.step i).tail = [])
  finish_outs : ∀ n, (m.finish n).outs = []

/-- how many input elements are pulled to get `k` results -/
def need (m : Stage) (i : Nat) : Nat → List (List Nat) → Nat
  | 0, _ => 0
  | _ + 1, [] => 0
  | k + 1, _ :: rest =>
    if (m.step i).stop then 1
    else if (m.step i).outs.isEmpty then 1 + need m (i + 1) (k + 1) rest
    else 1 + need m (i + 1) k rest

theorem firstK_runFrom {m : Stage} {lam : Nat → List Nat} (h : Simple m lam) :
    ∀ (ds : List (List Nat)) (i : Nat) (pend fin : List Nat) (k : Nat), k < (runFrom m i pend ds fin).outs.length →
      ((runFrom m i pend ds fin).outs.take (k + 1)).flatten = pend ++ perElemLog lam i (ds.take (need m i (k + 1) ds))
  | [], i, pend, fin, k, hk => by
      simp [runFrom, emit, h.finish_outs] at hk
  | d :: rest, i, pend, fin, k, hk => by
      rcases h.one i with ⟨ho, ht⟩ | ⟨ho, ht⟩
      · -- the element is held back
        by_cases hs : (m.step i).stop = true
        · simp [runFrom, emit, ho, hs] at hk
        · simp only [Bool.not_eq_true] at hs
          simp only [runFrom, emit, ho, ht, hs, Bool.false_eq_true, ↓reduceIte, List.nil_append] at hk ⊢
          rw [firstK_runFrom h rest (i + 1) _ fin k hk]
          simp [need, hs, ho, perElemLog, Nat.add_comm 1, List.append_assoc]
      · by_cases hs : (m.step i).stop = true
        · simp only [runFrom, emit, ho, hs, ↓reduceIte, List.length_cons, List.length_nil] at hk
          have : k = 0 := by omega
          subst this
          simp [runFrom, emit, ho, hs, need, perElemLog, List.append_assoc]
        · simp only [Bool.not_eq_true] at hs
          cases k with
          | zero => simp [runFrom, emit, ho, hs, need, perElemLog, List.append_assoc]
          | succ k =>
            simp only [runFrom, emit, ho, ht, hs, Bool.false_eq_true, ↓reduceIte, List.cons_append, List.length_cons,
              Nat.add_lt_add_iff_right, List.nil_append] at hk
            have ih := firstK_runFrom h rest (i + 1) [] fin k hk
            simp only [List.nil_append] at ih
            simp only [runFrom, emit, ho, ht, hs, Bool.false_eq_true, ↓reduceIte, List.cons_append, List.nil_append,
              List.take_succ_cons, List.flatten_cons, ih]
            simp [need, hs, ho, perElemLog, Nat.add_comm 1, List.append_assoc]

/-- **per_element**: a streaming operator with a per-element lambda, asked for its first k+1
    results over ANY input stream: what fires is, for each of the `need` input elements up to the
    one that yields result k and in input order, the probes of pulling the element followed by
    the probes of the lambda body on it - once each.  Nothing of the elements behind fires, nor is
    any lambda instance run twice. -/
theorem per_element {m : Stage} {lam : Nat → List Nat} (h : Simple m lam) (I : Strm) (k : Nat)
    (hk : k < (runOn m I).outs.length) :
    ((runOn m I).outs.take (k + 1)).flatten = perElemLog lam 0 (I.outs.take (need m 0 (k + 1) I.outs)) := by
  have h0 : (emit [] m.start) = ([], []) := by
    have := h.applies.start_silent
    simp only [Rx.events, h.start_outs, List.flatten_nil, List.nil_append] at this
    simp [emit, h.start_outs, this]
  simp only [runOn, h.applies.start_go, Bool.false_eq_true, ↓reduceIte, h0, List.nil_append] at hk ⊢
  simpa using firstK_runFrom h I.outs 0 [] I.fin k hk

theorem need_le (m : Stage) : ∀ (ds : List (List Nat)) (i k : Nat), need m i k ds ≤ ds.length
  | _, _, 0 => by simp [need]
  | [], _, _ + 1 => by simp [need]
  | _ :: rest, i, k + 1 => by
      have h1 := need_le m rest (i + 1) (k + 1)
      have h2 := need_le m rest (i + 1) k
      simp only [need, List.length_cons]
      split
      · omega
      · split <;> omega

/-- the lambda's own probes in the log of the first k+1 results: once per element consumed, in order -/
theorem per_element_own_firstK {m : Stage} {lam : Nat → List Nat} (h : Simple m lam) (I : Strm) (k : Nat)
    (hk : k < (runOn m I).outs.length) (own : Nat → Bool)
    (hl : ∀ i, ∀ e ∈ lam i, own e = true) (hI : ∀ d ∈ I.outs, ∀ e ∈ d, own e = false) :
    (((runOn m I).outs.take (k + 1)).flatten).filter own = ((List.range (need m 0 (k + 1) I.outs)).map lam).flatten := by
  rw [per_element h I k hk, perElemLog_filter own lam hl _ 0 (fun d hd => hI d (List.mem_of_mem_take hd))]
  rw [List.length_take, Nat.min_eq_left (need_le m _ _ _), List.range_eq_range']

/-! ### the consumer that wants k results -/

theorem take_consumedLog (k : Nat) (fin : List Nat) : ∀ (ds : List (List Nat)) (i : Nat), i ≤ k → k + 1 - i ≤ ds.length →
    consumedLog (stageOf (.take (k + 1))) i ds fin = (ds.take (k + 1 - i)).flatten
  | [], i, hi, hl => by simp at hl; omega
  | d :: rest, i, hi, hl => by
      have he : ((stageOf (.take (k + 1))).step i).events = [] := by simp [stageOf, Rx.events]
      by_cases hik : i = k
      · subst hik
        have hs : ((stageOf (.take (i + 1))).step i).stop = true := by simp [stageOf]
        simp only [consumedLog, he, hs, ↓reduceIte, List.append_nil]
        have : i + 1 - i = 1 := by omega
        simp [this]
      · have hs : ((stageOf (.take (k + 1))).step i).stop = false := by simp [stageOf]; omega
        have ih := take_consumedLog k fin rest (i + 1) (by omega) (by simp at hl; omega)
        simp only [consumedLog, he, hs, Bool.false_eq_true, ↓reduceIte, List.append_nil, ih]
        have : k + 1 - i = (k + 1 - (i + 1)) + 1 := by omega
        rw [this, List.take_succ_cons, List.flatten_cons]

/-- `take (k+1)` over a stream that has k+1 elements pulls exactly these: the log is the probes
    of the first k+1 elements and nothing of what follows (nor of the end of the stream) -/
theorem take_log (S : Strm) (k : Nat) (hk : k + 1 ≤ S.outs.length) :
    (runOn (stageOf (.take (k + 1))) S).log = (S.outs.take (k + 1)).flatten := by
  rw [runOn_log]
  have h1 : (stageOf (.take (k + 1))).start.events = [] := by simp [stageOf, Rx.events]
  have h2 : (stageOf (.take (k + 1))).start.stop = false := by simp [stageOf]
  rw [h1, h2]
  simpa using take_consumedLog k S.fin S.outs 0 (by omega) (by simpa using hk)

/-- `take 0` pulls nothing -/
theorem take_zero_log (S : Strm) : (runOn (stageOf (.take 0)) S).log = [] := by
  rw [runOn_log]
  simp [stageOf, Rx.events]

/-- a stream shorter than what is asked for is consumed completely, the end included -/
theorem take_short_log (S : Strm) (k : Nat) (hk : S.outs.length < k) :
    (runOn (stageOf (.take k)) S).log = S.log := by
  have hApp : Applies (stageOf (.take k)) (fun _ => []) :=
    ⟨by simp [stageOf, Rx.events], by simp [stageOf]; omega, fun i => by simp [stageOf, Rx.events], fun n => by simp [stageOf, Rx.events]⟩
  rw [per_element_total hApp]
  have hgen : ∀ (ds : List (List Nat)) (i : Nat), i + ds.length < k →
      consumed (stageOf (.take k)) i ds = ds.length ∧ stops (stageOf (.take k)) i ds = false := by
    intro ds
    induction ds with
    | nil => intro i _; simp [consumed, stops]
    | cons d rest ih =>
      intro i hi
      simp only [List.length_cons] at hi
      have hs : ((stageOf (.take k)).step i).stop = false := by simp [stageOf]; omega
      have := ih (i + 1) (by omega)
      simp [consumed, stops, hs, this.1, this.2, Nat.add_comm 1]
  obtain ⟨hc, hs⟩ := hgen S.outs 0 (by omega)
  rw [hc, hs, List.take_length]
  have : ∀ (ds : List (List Nat)) (i : Nat), perElemLog (fun _ => []) i ds = ds.flatten := by
    intro ds
    induction ds with
    | nil => intro i; rfl
    | cons d rest ih => intro i; simp [perElemLog, ih]
  simp [this, Strm.log]

/-! ### the operators -/

theorem simple_select (bodies : List X) : Simple (stageOf (.select bodies)) (bodyAt bodies) :=
  ⟨⟨rfl, rfl, fun i => by simp [stageOf, yield1, Rx.events], fun _ => rfl⟩, rfl,
   fun i => Or.inr ⟨rfl, rfl⟩, fun _ => rfl⟩

theorem simple_filter (bodies : List X) (keep : List Bool) : Simple (stageOf (.filter bodies keep)) (bodyAt bodies) := by
  refine ⟨⟨rfl, rfl, fun i => ?_, fun _ => rfl⟩, rfl, fun i => ?_, fun _ => rfl⟩
  · simp only [stageOf]; split <;> simp [yield1, quiet, Rx.events]
  · simp only [stageOf]; split <;> simp [yield1, quiet]

theorem simple_takeWhile (bodies : List X) (keep : List Bool) : Simple (stageOf (.takeWhile bodies keep)) (bodyAt bodies) := by
  refine ⟨⟨rfl, rfl, fun i => ?_, fun _ => rfl⟩, rfl, fun i => ?_, fun _ => rfl⟩
  · simp only [stageOf]; split <;> simp [yield1, Rx.events]
  · simp only [stageOf]; split <;> simp [yield1]

/-- `skipWhile` applies its predicate as long as it has held so far, and never again -/
theorem simple_skipWhile (bodies : List X) (keep : List Bool) :
    Simple (stageOf (.skipWhile bodies keep)) (fun i => if allBefore keep i then bodyAt bodies i else []) := by
  refine ⟨⟨rfl, rfl, fun i => ?_, fun _ => rfl⟩, rfl, fun i => ?_, fun _ => rfl⟩
  · simp only [stageOf]; split <;> (try split) <;> simp [yield1, quiet, Rx.events]
  · simp only [stageOf]; split <;> (try split) <;> simp [yield1, quiet]

theorem applies_selectMany (bodies : List X) (counts : List Nat) :
    Applies (stageOf (.selectMany bodies counts)) (bodyAt bodies) := by
  refine ⟨rfl, rfl, fun i => ?_, fun _ => rfl⟩
  simp only [stageOf]
  split <;> simp [quiet, Rx.events]

/-- `any`, `all`, `indexWhere`, `first`: the lambda on every element up to the first hit -/
theorem applies_search (bodies : List X) (hit : List Bool) : Applies (stageOf (.search bodies hit)) (bodyAt bodies) := by
  refine ⟨rfl, rfl, fun i => ?_, fun _ => by simp [stageOf, Rx.events]⟩
  simp only [stageOf]; split <;> simp [quiet, Rx.events]

/-- the search stops pulling at the first hit: the elements behind it are never touched -/
theorem search_consumed (bodies : List X) (hit : List Bool) :
    ∀ (ds : List (List Nat)) (i : Nat), hit.getD i false = true → ds ≠ [] → consumed (stageOf (.search bodies hit)) i ds = 1
  | [], _, _, h => absurd rfl h
  | _ :: _, i, hh, _ => by
      have hs : ((stageOf (.search bodies hit)).step i).stop = true := by
        simp only [stageOf, hh, ↓reduceIte]
      simp only [consumed, hs, ↓reduceIte]

theorem applies_each (bodies : List X) (nout : Nat) : Applies (stageOf (.each bodies nout)) (bodyAt bodies) :=
  ⟨rfl, rfl, fun i => by simp [stageOf, quiet, Rx.events], fun _ => by simp [stageOf, Rx.events]⟩

theorem applies_accumulate (bodies : List X) (seeded : Bool) :
    Applies (stageOf (.accumulate bodies seeded)) (fun i => if !seeded && i == 0 then [] else bodyAt bodies i) := by
  refine ⟨?_, ?_, fun i => ?_, fun _ => rfl⟩
  · simp only [stageOf]; split <;> simp [yield1, Rx.events]
  · simp only [stageOf]; split <;> simp [yield1]
  · simp only [stageOf]; split <;> simp [yield1, Rx.events]

/-! ### lazy collections in SECOND argument position: zip, concat, join -/

/-- `zip(other)`: element i of `other` is pulled when - and only when - the receiver has delivered
    its element i; the first missing one ends the zip (and the receiver's element is lost) -/
theorem applies_zip (other : Strm) :
    Applies (stageOf (.zip other)) (fun i => match other.outs[i]? with | some d => d | none => other.fin) := by
  refine ⟨rfl, rfl, fun i => ?_, fun _ => rfl⟩
  simp only [stageOf]; split <;> simp_all [yield1, Rx.events]

/-- `concat(other)` over an empty or exhausted receiver hands on `other` as it is; nothing of `other`
    fires before the receiver has ended -/
theorem concat_log (other I : Strm) :
    (runOn (stageOf (.concat other)) I).log = I.log ++ other.log := by
  rw [runOn_log]
  have h1 : (stageOf (.concat other)).start.events = [] := rfl
  have h2 : (stageOf (.concat other)).start.stop = false := rfl
  rw [h1, h2]
  have : ∀ (ds : List (List Nat)) (i : Nat), consumedLog (stageOf (.concat other)) i ds I.fin = ds.flatten ++ I.fin ++ other.log := by
    intro ds
    induction ds with
    | nil => intro i; simp [consumedLog, stageOf, Rx.events, Strm.log]
    | cons d rest ih =>
      intro i
      have hstep : (stageOf (.concat other)).step i = yield1 [] := rfl
      rw [consumedLog, hstep, ih (i + 1)]
      simp [yield1, Rx.events, List.append_assoc]
  simp [this, Strm.log, List.append_assoc]

/-- the probes of one pass of `join` over the inner collection: per inner element the probes of
    pulling it, of the predicate, and - when it holds - of the selector -/
def joinLog : List (List Nat) → List X → List Bool → List X → List Nat
  | [], _, _, _ => []
  | d :: ds, ps, fs, ss =>
    d ++ trace (ps.headD .leaf) ++ (if fs.headD false then trace (ss.headD .leaf) else []) ++ joinLog ds ps.tail fs.tail ss.tail

theorem joinRows_events : ∀ (ds : List (List Nat)) (ps : List X) (fs : List Bool) (ss : List X),
    (joinRows ds ps fs ss).1.flatten ++ (joinRows ds ps fs ss).2 = joinLog ds ps fs ss
  | [], _, _, _ => rfl
  | d :: ds, ps, fs, ss => by
      have ih := joinRows_events ds ps.tail fs.tail ss.tail
      by_cases hf : fs.headD false = true
      · simp only [joinRows, hf, ↓reduceIte, List.flatten_cons, joinLog, List.append_assoc, ← ih]
      · simp only [Bool.not_eq_true] at hf
        simp only [joinRows, hf, Bool.false_eq_true, ↓reduceIte, joinLog, List.append_nil, ← ih]
        cases h : (joinRows ds ps.tail fs.tail ss.tail).1 <;> simp [List.append_assoc]

/-- `join`: the inner collection is pulled in the pass of the FIRST outer element only (its
    probes, element by element, in front of the predicate that looks at the element; the probes of
    finding its end at the end of that pass); the later passes fire predicates and selectors only -/
theorem join_pass_events (inner : Strm) (preds : List (List X)) (flags : List (List Bool)) (sels : List (List X)) (i : Nat) :
    ((stageOf (.join inner preds flags sels)).step i).events =
      if i = 0 then joinLog inner.outs (preds.getD 0 []) (flags.getD 0 []) (sels.getD 0 []) ++ inner.fin
      else joinLog (inner.outs.map fun _ => []) (preds.getD i []) (flags.getD i []) (sels.getD i []) := by
  cases i with
  | zero => simp [stageOf, Rx.events, ← joinRows_events, List.append_assoc]
  | succ i => simp [stageOf, Rx.events, ← joinRows_events]

/-- `join` over an EMPTY outer side never touches its second collection: none of its probes fires -/
theorem join_empty_outer (inner : Strm) (preds : List (List X)) (flags : List (List Bool)) (sels : List (List X)) (fin : List Nat) :
    (runOn (stageOf (.join inner preds flags sels)) ⟨[], fin⟩).log = fin := by
  rw [runOn_log]
  simp [stageOf, Rx.events, consumedLog]

/-- concrete instances (the shapes of the join seed's demo): `[a, b].join(inner.select(tick), true, sel).first()`
    pulls ONE inner element; with an empty outer side none -/
example : pipeLog [.join ⟨[[10], [20], [30]], []⟩ [] [[true, true, true], [true, true, true]] [], .take 1] (listSrc 2) = [10] := by
  decide
example : pipeLog [.join ⟨[[10], [20], [30]], []⟩ [] [] []] (listSrc 0) = [] := by decide
example : pipeLog [.join ⟨[[10], [20], [30]], [99]⟩ [] [[true, true, true], [true, true, true]] []] (listSrc 2) = [10, 20, 30, 99] := by
  decide
example : pipeLog [.select [.tick 1 .leaf, .tick 1 .leaf, .tick 1 .leaf], .filter [.tick 2 .leaf, .tick 2 .leaf] [false, true],
    .take 1] (listSrc 3) = [1, 2, 1, 2] := by decide
example : pipeLog [.select [.tick 1 .leaf, .tick 1 .leaf], .zip ⟨[[7]], [8]⟩] (listSrc 2) = [1, 7, 1, 8] := by decide

end Yaql.Props.C11
