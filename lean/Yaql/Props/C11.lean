import Yaql.Props.C05
import Yaql.Model.EvalOrder
/-!
C11 - arguments are evaluated once, in order; lazy ones only on demand.

Part 1 (over `Yaql.Resolve`): the evaluation log of a call is exactly the eager non-constant
positional arguments left to right followed by the keyword ones in source order, each once; it is
produced by ONE pass that does not look at the candidates, hence it does not grow with their number.
Part 2 (over `Yaql.EvalOrder`): the trace of an expression whose operators are all eager is the
in-order listing of its probes; operators with lazy operands evaluate exactly the operands their
meaning selects, and never anything twice or out of order (`trace_sublist`).
-/
namespace Yaql.Props.C11
open Yaql.Types Yaql.Resolve Yaql.Props.C05

/-! ## part 1: one evaluation pass -/

/-- the probes an argument list fires under laziness flags `lz`: every evaluable argument at a
    non-lazy position, left to right, each once -/
def eagerLog : List Bool → List Arg → List Nat
  | _, [] => []
  | lz, a :: r => (if !lz.headD false && a.evaluable then a.evalLog else []) ++ eagerLog lz.tail r

theorem evalPos_log : ∀ (lz : List Bool) (args : List Arg), (evalPos lz args).2 = eagerLog lz args
  | _, [] => rfl
  | lz, a :: r => by
      simp only [evalPos, eagerLog, ← evalPos_log lz.tail r]
      split <;> simp_all

theorem evalKw_log : ∀ (lz : List Bool) (kw : KwArgs), (evalKw lz kw).2 = eagerLog lz (kw.map (·.2))
  | _, [] => rfl
  | lz, (k, a) :: r => by
      simp only [evalKw, List.map_cons, eagerLog, ← evalKw_log lz.tail r]
      split <;> simp_all

/-- arguments at eager positions are replaced by their values, the others are handed on untouched -/
theorem evalPos_args : ∀ (lz : List Bool) (args : List Arg), (evalPos lz args).1.length = args.length
  | _, [] => rfl
  | lz, a :: r => by
      simp only [evalPos]
      split <;> simp [evalPos_args lz.tail r]

/-- the log of a resolution is either empty (resolution ended before the evaluation stage) or the
    single left-to-right pass over the translated arguments under the COMMON laziness signature of the
    mapped candidates: positional arguments first, then keywords in source order -/
theorem eager_once_in_order (L : Lattice) (vis : List (List FDef)) (c : Call) :
    (chooseOverload L vis c).log = [] ∨
    ∃ args kw m0,
      translateArgs ((vis.flatten.map (·.noKwargs)).headD false) (callArgs c) c.kwargs = .ok (args, kw) ∧
      m0 ∈ (vis.map (mappedOf L args kw)).flatten ∧
      (∀ m ∈ (vis.map (mappedOf L args kw)).flatten, m.sig = m0.sig) ∧
      (chooseOverload L vis c).log = eagerLog m0.sig.pos args ++ eagerLog m0.sig.kw (kw.map (·.2)) := by
  unfold chooseOverload
  simp only [mapLevels_spec]
  split
  · exact Or.inl rfl
  · cases htr : translateArgs ((vis.flatten.map (·.noKwargs)).headD false) (callArgs c) c.kwargs with
    | error e => exact Or.inl rfl
    | ok r =>
        obtain ⟨args, kw⟩ := r
        simp only
        cases hflat : (vis.map (mappedOf L args kw)).flatten with
        | nil =>
            left
            have hfil : ((vis.map (mappedOf L args kw)).filter fun cs => !cs.isEmpty) = [] := by
              have := flatten_filter_nonempty (vis.map (mappedOf L args kw))
              rw [hflat] at this
              cases hf : (vis.map (mappedOf L args kw)).filter fun cs => !cs.isEmpty with
              | nil => rfl
              | cons x xs =>
                  have hx : x ∈ (vis.map (mappedOf L args kw)).filter fun cs => !cs.isEmpty := by simp [hf]
                  have hx2 := (List.mem_filter.1 hx).2
                  rw [hf] at this
                  cases x with
                  | nil => simp at hx2
                  | cons a as => simp at this
            simp [agree, firstSig, hfil]
        | cons m0 rest =>
            by_cases hag : agree (firstSig none (m0 :: rest)) (m0 :: rest) = true
            · simp only [hag, if_true]
              split
              · exact Or.inl rfl
              · right
                refine ⟨args, kw, m0, rfl, by rw [hflat]; simp, ?_, ?_⟩
                · intro m hm
                  rw [hflat] at hm
                  simp only [agree, firstSig, List.head?_cons, Option.map_some, List.all_eq_true, decide_eq_true_eq,
                    Option.some.injEq] at hag
                  exact hag m hm
                · simp [firstSig, evalPos_log, evalKw_log]
            · left
              simp [hag]

/-- adding candidates does not add evaluations: if a call resolves (no error) against a family and
    against a larger one, both evaluate exactly the same arguments in the same order -/
theorem log_independent_of_candidates (L : Lattice) (vis vis' : List (List FDef)) (c : Call)
    (hsub : ∀ f ∈ vis.flatten, f ∈ vis'.flatten)
    (hne : vis.flatten ≠ [])
    (hnk : (vis'.flatten.any (·.noKwargs) && vis'.flatten.any (!·.noKwargs)) = false)
    (h1 : (chooseOverload L vis c).log ≠ []) (h2 : (chooseOverload L vis' c).log ≠ []) :
    (chooseOverload L vis' c).log = (chooseOverload L vis c).log := by
  rcases eager_once_in_order L vis c with h | ⟨args, kw, m0, htr, hm0, hall, hlog⟩
  · exact absurd h h1
  rcases eager_once_in_order L vis' c with h | ⟨args', kw', m0', htr', hm0', hall', hlog'⟩
  · exact absurd h h2
  -- both families translate the call with the same no_kwargs flag
  have hflag : (vis.flatten.map (·.noKwargs)).headD false = (vis'.flatten.map (·.noKwargs)).headD false := by
    have hnk0 : (vis.flatten.any (·.noKwargs) && vis.flatten.any (!·.noKwargs)) = false := by
      cases h : (vis.flatten.any (·.noKwargs) && vis.flatten.any (!·.noKwargs)) with
      | false => rfl
      | true =>
          simp only [Bool.and_eq_true, List.any_eq_true] at h
          obtain ⟨⟨a, ha, ha'⟩, ⟨b, hb, hb'⟩⟩ := h
          have : (vis'.flatten.any (·.noKwargs) && vis'.flatten.any (!·.noKwargs)) = true := by
            simp only [Bool.and_eq_true, List.any_eq_true]
            exact ⟨⟨a, hsub a ha, ha'⟩, ⟨b, hsub b hb, hb'⟩⟩
          rw [this] at hnk; cases hnk
    have e1 : ∀ {α : Type} (f : α → Bool) (l : List α), (l.any f && l.any (fun x => !f x)) = false →
        (l.map f).headD false = l.any f := by
      intro α f l
      induction l with
      | nil => intro _; rfl
      | cons a r _ =>
          intro h
          simp only [List.map_cons, List.headD_cons, List.any_cons] at h ⊢
          cases hf : f a
          · simp only [hf, Bool.false_or, Bool.not_false, Bool.true_or, Bool.and_true] at h ⊢
            exact h.symm
          · simp
    rw [e1 _ _ hnk0, e1 _ _ hnk]
    cases hv : vis.flatten with
    | nil => exact absurd hv hne
    | cons f0 r =>
        cases hf : f0.noKwargs with
        | true =>
            have : vis'.flatten.any (·.noKwargs) = true :=
              List.any_eq_true.2 ⟨f0, hsub f0 (by simp [hv]), hf⟩
            simp [hf, this]
        | false =>
            -- f0 is not no_kwargs; by agreement nobody is
            have h0 : vis.flatten.any (·.noKwargs) = false := by
              cases h : vis.flatten.any (·.noKwargs) with
              | false => rfl
              | true =>
                  have : vis.flatten.any (!·.noKwargs) = true :=
                    List.any_eq_true.2 ⟨f0, by simp [hv], by simp [hf]⟩
                  rw [h, this] at hnk0; cases hnk0
            have h0' : vis'.flatten.any (·.noKwargs) = false := by
              cases h : vis'.flatten.any (·.noKwargs) with
              | false => rfl
              | true =>
                  have : vis'.flatten.any (!·.noKwargs) = true :=
                    List.any_eq_true.2 ⟨f0, hsub f0 (by simp [hv]), by simp [hf]⟩
                  rw [h, this] at hnk; cases hnk
            rw [← hv, h0, h0']
  rw [hflag, htr'] at htr
  cases htr
  -- m0 is also mapped in the larger family, so it carries the common signature there
  have hm0in : m0 ∈ (vis'.map (mappedOf L args kw)).flatten := by
    simp only [List.mem_flatten, List.mem_map] at hm0 ⊢
    obtain ⟨l, ⟨lv, hlv, rfl⟩, hm⟩ := hm0
    have hm' := mem_mappedOf hm
    have : m0.fd ∈ vis'.flatten := hsub _ (List.mem_flatten.2 ⟨lv, hlv, hm'.1⟩)
    obtain ⟨lv', hlv', hf'⟩ := List.mem_flatten.1 this
    refine ⟨mappedOf L args kw lv', ⟨lv', hlv', rfl⟩, ?_⟩
    simp only [mappedOf, List.mem_filterMap]
    exact ⟨m0.fd, hf', by simp [hm'.2]⟩
  rw [hlog, hlog', ← hall' m0 hm0in]

/-! ## part 2: expressions -/

open Yaql.EvalOrder

mutual
/-- for an expression in which every probe sits in an eager position, the trace is the in-order
    listing of its probes, each exactly once -/
theorem eager_fragment_trace : ∀ (x : X), eagerOnly x = true → trace x = probes x
  | .leaf, _ => rfl
  | .tick id a, h => by simp only [trace, probes, eager_fragment_trace a (by simpa [eagerOnly] using h)]
  | .eager ks, h => by simp only [trace, probes, eager_fragment_traceL ks (by simpa [eagerOnly] using h)]
  | .and_ .., h => by simp [eagerOnly] at h
  | .or_ .., h => by simp [eagerOnly] at h
  | .elvis .., h => by simp [eagerOnly] at h
  | .switch .., h => by simp [eagerOnly] at h
  | .selectCase .., h => by simp [eagerOnly] at h
  | .allCases .., h => by simp [eagerOnly] at h
  | .switchCase .., h => by simp [eagerOnly] at h
  | .coalesce .., h => by simp [eagerOnly] at h
theorem eager_fragment_traceL : ∀ (l : List X), eagerOnlyL l = true → traces l = probesL l
  | [], _ => rfl
  | x :: r, h => by
      simp only [eagerOnlyL, Bool.and_eq_true] at h
      simp only [traces, probesL, eager_fragment_trace x h.1, eager_fragment_traceL r h.2]
end

theorem short_circuit_and (a b : X) :
    trace (.and_ a b false) = trace a ∧ trace (.and_ a b true) = trace a ++ trace b := by
  simp [trace]

theorem short_circuit_or (a b : X) :
    trace (.or_ a b true) = trace a ∧ trace (.or_ a b false) = trace a ++ trace b := by
  simp [trace]

theorem short_circuit_elvis (r : X) (ks : List X) :
    trace (.elvis r true ks) = trace r ∧ trace (.elvis r false ks) = trace r ++ (traces ks).flatten := by
  simp [trace]

/-- `switch`: when the first true condition is the `i`-th, exactly conditions `0..i` and value `i` are
    evaluated -/
theorem short_circuit_switch (pre : List X) (c v : X) (post postv : List X) (prev : List X)
    (hl : prev.length = pre.length) :
    trace (.switch (pre ++ c :: post) (List.replicate pre.length false ++ [true]) (prev ++ v :: postv)) =
      (traces pre).flatten ++ trace c ++ trace v := by
  simp only [trace]
  induction pre generalizing prev with
  | nil =>
      cases prev with
      | nil => simp [traces, switchTrace]
      | cons _ _ => simp at hl
  | cons p ps ih =>
      cases prev with
      | nil => simp at hl
      | cons q qs =>
          simp only [List.length_cons, Nat.add_right_cancel_iff] at hl
          have := ih qs hl
          simp only [List.cons_append, traces, List.replicate_succ, switchTrace, Bool.false_eq_true, if_false,
            List.length_cons, List.flatten_cons, List.append_assoc] at this ⊢
          rw [this]

theorem short_circuit_switch_none (cs vs : List X) :
    trace (.switch cs (List.replicate cs.length false) vs) = (traces cs).flatten := by
  simp only [trace]
  induction cs generalizing vs with
  | nil => simp [traces, switchTrace]
  | cons c r ih =>
      cases vs with
      | nil =>
          have := ih []
          simp only [traces, List.length_cons, List.replicate_succ, switchTrace, Bool.false_eq_true, if_false,
            List.flatten_cons] at this ⊢
          rw [this]
      | cons v vr =>
          have := ih vr
          simp only [traces, List.length_cons, List.replicate_succ, switchTrace, Bool.false_eq_true, if_false,
            List.flatten_cons] at this ⊢
          rw [this]

/-- `selectCase` / `coalesce`: operands up to and including the first selected one -/
theorem untilFlag_first (pre : List (List Nat)) (t : List Nat) (post : List (List Nat)) (fs : List Bool) :
    untilFlag (pre ++ t :: post) (List.replicate pre.length false ++ true :: fs) = pre.flatten ++ t := by
  induction pre with
  | nil => simp [untilFlag]
  | cons p ps ih => simp [untilFlag, List.replicate_succ, ih]

theorem traces_append : ∀ (a b : List X), traces (a ++ b) = traces a ++ traces b
  | [], _ => rfl
  | x :: r, b => by simp [traces, traces_append r b]

theorem traces_length : ∀ (a : List X), (traces a).length = a.length
  | [] => rfl
  | _ :: r => by simp [traces, traces_length r]

theorem short_circuit_selectCase (pre : List X) (p : X) (post : List X) (fs : List Bool) :
    trace (.selectCase (pre ++ p :: post) (List.replicate pre.length false ++ true :: fs)) =
      (traces pre).flatten ++ trace p := by
  simp only [trace, traces_append, traces]
  have := untilFlag_first (traces pre) (trace p) (traces post) fs
  rw [traces_length] at this
  exact this

theorem short_circuit_coalesce (pre : List X) (a : X) (post : List X) (ns : List Bool) :
    trace (.coalesce (pre ++ a :: post) (List.replicate pre.length true ++ false :: ns)) =
      (traces pre).flatten ++ trace a := by
  simp only [trace, traces_append, traces, List.map_append, List.map_replicate, List.map_cons, Bool.not_true,
    Bool.not_false]
  have := untilFlag_first (traces pre) (trace a) (traces post) (ns.map not)
  rw [traces_length] at this
  exact this

theorem short_circuit_switchCase (c : X) (as : List X) (i : Nat) :
    trace (.switchCase c (some i) as) = trace c ++ (traces as).getD i [] ∧
    trace (.switchCase c none as) = trace c := by
  simp [trace]

/-- `selectAllCases` / `examine` evaluate every predicate, in order, once (when consumed) -/
theorem all_cases_trace (ps : List X) : trace (.allCases ps) = (traces ps).flatten := by simp [trace]

/-- concrete instances -/
example : trace (.and_ (.tick 1 .leaf) (.tick 2 .leaf) false) = [1] := by decide
example : trace (.eager [.tick 1 .leaf, .eager [.tick 2 .leaf, .tick 3 (.tick 4 .leaf)]]) = [1, 2, 4, 3] := by decide
example : trace (.switch [.tick 1 .leaf, .tick 3 .leaf, .tick 5 .leaf] [false, true, false]
    [.tick 2 .leaf, .tick 4 .leaf, .tick 6 .leaf]) = [1, 3, 4] := by decide
example : trace (.coalesce [.tick 1 .leaf, .tick 2 .leaf, .tick 3 .leaf] [true, false, false]) = [1, 2] := by decide

end Yaql.Props.C11
