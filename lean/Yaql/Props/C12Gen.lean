import Yaql.Gen.Registry
/-!
C12 over the generated registry: every registered definition has a well-formed parameter
table (so `C12.spelling_*` apply to the whole library) and its aliases follow the naming
convention unless given explicitly.  Re-proved by the kernel against what the code says now.
-/
namespace Yaql.Props.C12Gen
open Yaql.Registry Yaql.Gen.Registry

/-- every registered definition satisfies `WFDef` -/
theorem registry_wf : registry.all (fun d => wfDef (d.params.map RParam.toParam)) = true := by
  decide +kernel

/-- aliases are the convention translation (trailing underscores stripped, snake_case -> camelCase)
    of the python parameter names unless an explicit alias was given -/
theorem alias_convention : registry.all (fun d => d.params.all aliasOk) = true := by
  decide +kernel

/-- for every parameter of every registered definition the side conditions of
    `C12.spelling_kw_move` / `C12.spelling_default_move` hold (own slot below the visible count, no
    other parameter with the same slot or the same keyword name) -/
theorem registry_moves_ok : registry.all (fun d => movesOk (d.params.map RParam.toParam)) = true := by
  decide +kernel

/-- the table is not empty and has definitions of every kind -/
theorem registry_kinds :
    registry.length > 200 ∧
    registry.any (fun d => d.isFunction && !d.isMethod) = true ∧
    registry.any (fun d => d.isMethod && !d.isFunction) = true ∧
    registry.any (fun d => d.isFunction && d.isMethod) = true ∧
    registry.any (fun d => d.params.any (fun p => p.hidden && p.position.isSome)) = true ∧
    registry.any (fun d => d.params.any (·.explicitAlias)) = true ∧
    registry.any (fun d => d.params.any (fun p => !p.explicitAlias && p.alias != some p.name)) = true := by
  decide +kernel

end Yaql.Props.C12Gen
