import Yaql.Gen.Registry
import Yaql.Gen.RegistryConv
/-!
C12 over the generated registry: every registered definition has a well-formed parameter
table (so `C12.spelling_*` apply to the whole library) and its aliases follow the naming
convention unless given explicitly.  Re-proved by the kernel against what the code says now.
-/
namespace Yaql.Props.C12Gen
open Yaql.Registry Yaql.Gen.Registry Yaql.Naming Yaql.Gen.RegistryConv

/-- every registered definition satisfies `WFDef` -/
theorem registry_wf : registry.all (fun d => wfDef (d.params.map RParam.toParam)) = true := by
  decide +kernel

/-- aliases are the convention translation (trailing underscores stripped, snake_case -> camelCase)
    of the python parameter names unless an explicit alias was given -/
theorem alias_convention : registry.all (fun d => d.params.all aliasOk) = true := by
  decide +kernel

/-- for every parameter of every registered definition the side conditions of
    `C12.spelling_kw_move` / `C12.spelling_default_move` hold (own slot below the visible count, no
    other parameter with the same slot or the same keyword name) -/
theorem registry_moves_ok : registry.all (fun d => movesOk (d.params.map RParam.toParam)) = true := by
  decide +kernel

/-- no `*` parameter of a registered definition has a default (the side condition of
    `C12.mapArgs_of_getDelegate` / `C12.spelling_mapArgs_agree`), and some definitions have `*` / `**` -/
theorem registry_star_no_default :
    registry.all (fun d => (d.params.map RParam.toParam).all fun p => !p.isStar || p.default.isNone) = true ∧
    registry.any (fun d => (Yaql.Resolve.starParam (d.params.map RParam.toParam)).isSome) = true ∧
    registry.any (fun d => (Yaql.Resolve.starStarParam (d.params.map RParam.toParam)).isSome) = true := by
  decide +kernel

/-- the table is not empty and has definitions of every kind -/
theorem registry_kinds :
    registry.length > 200 ∧
    registry.any (fun d => d.isFunction && !d.isMethod) = true ∧
    registry.any (fun d => d.isMethod && !d.isFunction) = true ∧
    registry.any (fun d => d.isFunction && d.isMethod) = true ∧
    registry.any (fun d => d.params.any (fun p => p.hidden && p.position.isSome)) = true ∧
    registry.any (fun d => d.params.any (·.explicitAlias)) = true ∧
    registry.any (fun d => d.params.any (fun p => !p.explicitAlias && p.alias != some p.name)) = true := by
  decide +kernel

/-! ### every naming convention

`convRows`: the same definitions as found in contexts with `CamelCaseConvention`, with `PythonConvention` and
without a convention, created in several orders (camel first, python first, none first, re-created) in
fresh interpreters. -/

/-- in a context of EACH convention every definition is registered under the name, and every parameter is
    passed under the alias, that this convention gives to what the source text declares - whatever was
    registered before in the same interpreter -/
theorem alias_convention_each : convRows.all rowOk = true := by
  decide +kernel

/-- the names arguments are passed by are keywords under each convention, so `call(name, args, kwargs)`
    does not filter them out (`C12.call_keywords_pass`) -/
theorem keyword_names_are_keywords :
    convRows.all (fun r => r.params.all fun p =>
      p.hidden || p.star || isKeyword (keywordName r.conv p.declAlias p.name)) = true := by
  decide +kernel

/-- converting an already converted name again changes nothing, for every name the library promises
    (function names and keyword names, under the convention of their context) -/
theorem registered_names_converted :
    convRows.all (fun r =>
      (match convertFunctionName r.regName r.conv with
       | .ok n => r.regAs.isSome || n == r.regName
       | .error _ => false) &&
      r.params.all fun p =>
        p.declAlias.isSome || r.conv.isNone ||
          convertParameterName (keywordName r.conv p.declAlias p.name) r.conv == keywordName r.conv p.declAlias p.name) = true := by
  decide +kernel

/-- the table has contexts of all three kinds, and the conventions really differ on it -/
theorem conv_rows_kinds :
    convRows.length > 600 ∧
    convRows.any (fun r => r.conv == some .camel && r.params.any fun p => p.seenAlias != some p.name && p.declAlias.isNone) = true ∧
    convRows.any (fun r => r.conv == some .python && r.params.any fun p =>
      p.seenAlias == some p.name && toCamel p.name != p.name) = true ∧
    convRows.any (fun r => r.conv == some .python && r.params.any fun p =>
      p.seenAlias != some p.name && p.seenAlias.isSome && p.declAlias.isNone) = true ∧
    convRows.any (fun r => r.conv == none && r.params.any fun p => p.seenAlias.isNone) = true ∧
    convRows.any (fun r => r.conv == none && r.params.any fun p => p.seenAlias.isSome) = true ∧
    convRows.any (fun r => r.regAs.isSome) = true ∧
    convRows.any (fun r => r.declName.isNone && r.regAs.isNone && r.conv == some .camel && toCamel r.pyName != r.pyName) = true ∧
    convRows.any (fun r => r.declName.isNone && r.regAs.isNone && r.conv == some .python && toCamel r.regName != r.regName) = true := by
  decide +kernel

end Yaql.Props.C12Gen
