import Yaql.Model.SeqRun
/-!
C13, persistent updates: `insert`, `insertMany`, `delete`, `deleteAll`, `set`, `replace`, `replaceMany`, `remove`, `add`,
`mergeWith`, `+` ... return a new collection and leave their operand as it was.  In the model every `runOp` is a function of
its operand, so the law holds by construction; these theorems state what a program that OBSERVES the operand after the
update must return (`Obs` / `runObserve` of Model/SeqRun.lean) - the correspondence check generates such programs over the
results of all other operators and over unconverted input and compares the real results with them.
-/
namespace Yaql.Props.C13Persist
open Yaql Yaql.Value Yaql.Seq

/-- the let-shapes: the operand is bound to a variable and read again after the update -/
def Obs.isLet : Obs → Bool
  | .letPair _ | .letTwice _ _ | .letChain _ _ => true
  | _ => false

theorem letPair_parts (opts : Opts) (u : Op) (o : Obj) (r : List Obj ⊕ Obj)
    (h : runObs opts (.letPair u) o = .ok r) :
    ∃ a, runOp opts u o = .ok a ∧ r = .inl [a, o] := by
  simp only [runObs, bind, Except.bind, pure, Except.pure] at h
  split at h
  · simp at h
  · cases hu : runOp opts u o with
    | error e => simp [hu] at h
    | ok a => simp [hu] at h; exact ⟨a, rfl, h.symm⟩

theorem letTwice_parts (opts : Opts) (u1 u2 : Op) (o : Obj) (r : List Obj ⊕ Obj)
    (h : runObs opts (.letTwice u1 u2) o = .ok r) :
    ∃ a b, runOp opts u1 o = .ok a ∧ runOp opts u2 o = .ok b ∧ r = .inl [a, b, o] := by
  simp only [runObs, bind, Except.bind, pure, Except.pure] at h
  split at h
  · simp at h
  · cases h1 : runOp opts u1 o with
    | error e => simp [h1] at h
    | ok a =>
      cases h2 : runOp opts u2 o with
      | error e => simp [h1, h2] at h
      | ok b => simp [h1, h2] at h; exact ⟨a, b, rfl, rfl, h.symm⟩

theorem letChain_parts (opts : Opts) (u1 u2 : Op) (o : Obj) (r : List Obj ⊕ Obj)
    (h : runObs opts (.letChain u1 u2) o = .ok r) :
    ∃ y b, runOp opts u1 o = .ok y ∧ runOp opts u2 y = .ok b ∧ r = .inl [b, y, o] := by
  simp only [runObs, bind, Except.bind, pure, Except.pure] at h
  split at h
  · simp at h
  · cases h1 : runOp opts u1 o with
    | error e => simp [h1] at h
    | ok y =>
      simp only [h1] at h
      split at h
      · simp at h
      · cases h2 : runOp opts u2 y with
        | error e => simp [h2] at h
        | ok b => simp [h2] at h; exact ⟨y, b, rfl, h2, h.symm⟩

/-- PERSISTENCE, on the run-time objects: whatever the update (and whatever a second update or observer), the last part of
    the observing program is the operand itself -/
theorem operand_unchanged (opts : Opts) (obs : Obs) (o : Obj) (parts : List Obj) (hl : Obs.isLet obs = true)
    (h : runObs opts obs o = .ok (.inl parts)) : parts.getLast? = some o := by
  cases obs with
  | letPair u => obtain ⟨a, _, hr⟩ := letPair_parts opts u o _ h; simp at hr; simp [hr]
  | letTwice u1 u2 => obtain ⟨a, b, _, _, hr⟩ := letTwice_parts opts u1 u2 o _ h; simp at hr; simp [hr]
  | letChain u1 u2 => obtain ⟨a, b, _, _, hr⟩ := letChain_parts opts u1 u2 o _ h; simp at hr; simp [hr]
  | selPair u => simp [Obs.isLet] at hl
  | memPair u => simp [Obs.isLet] at hl

/-- the two updates of `[$x.u1(..), $x.u2(..), $x]` do not see each other: exchanging them exchanges the parts -/
theorem letTwice_order_irrelevant (opts : Opts) (u1 u2 : Op) (o : Obj) (a b : Obj)
    (h : runObs opts (.letTwice u1 u2) o = .ok (.inl [a, b, o])) :
    runObs opts (.letTwice u2 u1) o = .ok (.inl [b, a, o]) := by
  obtain ⟨a', b', h1, h2, hr⟩ := letTwice_parts opts u1 u2 o _ h
  simp at hr
  obtain ⟨rfl, rfl⟩ := hr
  simp only [runObs, bind, Except.bind, pure, Except.pure] at h ⊢
  split at h
  · simp at h
  · rename_i hre
    simp [hre, h1, h2]


theorem finaliseParts_last (opts : Opts) (init : List Obj) (o : Obj) (v : Value)
    (h : finaliseParts opts (init ++ [o]) = .ok v) :
    ∃ vs w, (v = list vs ∨ v = tuple vs) ∧ vs.getLast? = some w ∧ finalise opts o = .ok w := by
  simp only [finaliseParts, bind, Except.bind, pure, Except.pure] at h
  split at h
  · simp at h
  · have hm := List.mapM_append (m := Except Err) (f := finalise opts) (l₁ := init) (l₂ := [o])
    cases hr : List.mapM (finalise opts) (init ++ [o]) with
    | error e => simp [hr] at h
    | ok r =>
      simp only [hr] at h
      rw [hr] at hm
      cases h1 : List.mapM (finalise opts) init with
      | error e => simp [h1, bind, Except.bind] at hm
      | ok r1 =>
        cases h2 : finalise opts o with
        | error e => simp [h1, h2, bind, Except.bind, List.mapM_cons] at hm
        | ok w =>
          simp [h1, h2, bind, Except.bind, List.mapM_cons, List.mapM_nil, pure, Except.pure] at hm
          refine ⟨r, w, ?_, ?_, rfl⟩
          · by_cases ht : (opts.convertOutput && opts.tuplesToLists) = true
            · left; simp only [ht] at h; simp at h; exact h.symm
            · right; simp only [ht] at h; simp at h; exact h.symm
          · simp [hm]

/-- PERSISTENCE, on programs: the last component of what an observing program `let(x => P) -> [$x.u(..), ..., $x]` returns
    is exactly what the pipeline `P` alone returns - under every option record, for every update, every pipeline, every
    document -/
theorem observed_operand_is_pipeline_result (opts : Opts) (binder : Option Op) (ops : List Op) (obs : Obs) (data : Value)
    (v : Value) (hl : Obs.isLet obs = true) (h : runObserve opts binder ops obs data = .ok v) :
    ∃ vs w, (v = list vs ∨ v = tuple vs) ∧ vs.getLast? = some w ∧ runPipeLet opts binder ops data = .ok w := by
  simp only [runObserve, bind, Except.bind] at h
  cases hs : runStages opts binder ops data with
  | error e => simp [hs] at h
  | ok o =>
    simp only [hs] at h
    cases ho : runObs opts obs o with
    | error e => simp [ho] at h
    | ok r =>
      simp only [ho] at h
      have hrun : runPipeLet opts binder ops data = finalise opts o := by
        simp [runPipeLet, hs, bind, Except.bind]
      rw [hrun]
      cases obs with
      | letPair u =>
        obtain ⟨a, _, hr⟩ := letPair_parts opts u o _ ho
        subst hr
        exact finaliseParts_last opts [a] o v h
      | letTwice u1 u2 =>
        obtain ⟨a, b, _, _, hr⟩ := letTwice_parts opts u1 u2 o _ ho
        subst hr
        exact finaliseParts_last opts [a, b] o v h
      | letChain u1 u2 =>
        obtain ⟨a, b, _, _, hr⟩ := letChain_parts opts u1 u2 o _ ho
        subst hr
        exact finaliseParts_last opts [b, a] o v h
      | selPair u => simp [Obs.isLet] at hl
      | memPair u => simp [Obs.isLet] at hl


/-- ... and its first component is what the update returns without an observer: the value of `let(x => P) -> [$x.u(..), $x]`
    starts with the value of `P.u(..)` -/
theorem observed_update_is_unobserved_update (opts : Opts) (binder : Option Op) (ops : List Op) (u : Op) (data : Value)
    (v : Value) (hu : ∀ root o, runOpR opts root u o = runOp opts u o) (hf : u.functionStyleSet = false)
    (h : runObserve opts binder ops (.letPair u) data = .ok v) :
    ∃ w rest, (v = list (w :: rest) ∨ v = tuple (w :: rest)) ∧ runPipeLet opts binder (ops ++ [u]) data = .ok w := by
  simp only [runObserve, bind, Except.bind] at h
  cases hs : runStages opts binder ops data with
  | error e => simp [hs] at h
  | ok o =>
    simp only [hs] at h
    cases ho : runObs opts (.letPair u) o with
    | error e => simp [ho] at h
    | ok r =>
      simp only [ho] at h
      obtain ⟨a, ha, hr⟩ := letPair_parts opts u o _ ho
      subst hr
      have hany : (opts.noSets && ops.any Op.functionStyleSet) = false := by
        cases hc : (opts.noSets && ops.any Op.functionStyleSet) with
        | false => rfl
        | true =>
          simp only [runStages, hc, bind, Except.bind] at hs
          cases hroot : rootObj opts binder data <;> simp [hroot] at hs
      have hany2 : (opts.noSets && (ops ++ [u]).any Op.functionStyleSet) = false := by
        rw [List.any_append]
        simp only [List.any_cons, List.any_nil, hf, Bool.or_false]
        exact hany
      have hrun : runPipeLet opts binder (ops ++ [u]) data = finalise opts a := by
        simp only [runPipeLet, runStages, bind, Except.bind, hany, hany2] at hs ⊢
        cases hroot : rootObj opts binder data with
        | error e => simp [hroot] at hs
        | ok root =>
          simp only [hroot] at hs ⊢
          rw [List.foldlM_append]
          simp at hs
          simp [hs, bind, Except.bind, hu, ha, pure, Except.pure]
      rw [hrun]
      simp only [finaliseParts, bind, Except.bind, pure, Except.pure, List.mapM_cons, List.mapM_nil] at h
      split at h
      · simp at h
      · cases h1 : finalise opts a with
        | error e => simp [h1] at h
        | ok w =>
          cases h2 : finalise opts o with
          | error e => simp [h1, h2] at h
          | ok w2 =>
            simp only [h1, h2] at h
            refine ⟨w, [w2], ?_, rfl⟩
            by_cases ht : (opts.convertOutput && opts.tuplesToLists) = true
            · left; simp [ht] at h; exact h.symm
            · right; simp [ht] at h; exact h.symm

/-- rows `[f-part, x]` made element by element: the second members are the elements, in order; a failing application ends
    the result where it happens, after the rows before it -/
theorem mapM_rows (f : Value → R Value) (hf : ∀ x v, f x = .ok v → ∃ a, v = tuple [a, x]) (xs : VL) (e : Option Err) :
    (LSeq.mapM f xs e).items.length ≤ xs.length ∧
      ∀ i, i < (LSeq.mapM f xs e).items.length → ∃ a, (LSeq.mapM f xs e).items[i]? = some (tuple [a, xs[i]!]) := by
  induction xs with
  | nil => cases e <;> simp [LSeq.mapM]
  | cons x xs ih =>
    obtain ⟨hlen, hrow⟩ := ih
    cases hx : f x with
    | error er => simp [LSeq.mapM, hx]
    | ok v =>
      obtain ⟨a, rfl⟩ := hf x v hx
      refine ⟨by simp [LSeq.mapM, hx]; omega, ?_⟩
      intro i hi
      cases i with
      | zero => exact ⟨a, by simp [LSeq.mapM, hx]⟩
      | succ j =>
        simp only [LSeq.mapM, hx, List.length_cons, Nat.add_lt_add_iff_right] at hi
        obtain ⟨b, hb⟩ := hrow j hi
        exact ⟨b, by simpa [LSeq.mapM, hx] using hb⟩

/-- `P.select([$.u(..), $])`: the lambda argument is used twice; the second members of the rows are the elements of `P` -/
theorem selPair_rows (opts : Opts) (u : Op) (o : Obj) (s : LSeq) (r : LSeq) (hs : o.it opts = .ok s)
    (h : runObs opts (.selPair u) o = .ok (.inr (.lazy r))) :
    r.items.length ≤ s.items.length ∧ ∀ i, i < r.items.length → ∃ a, r.items[i]? = some (tuple [a, s.items[i]!]) := by
  simp only [runObs, hs, bind, Except.bind, pure, Except.pure] at h
  injection h with h
  injection h with h
  injection h with h
  subst h
  apply mapM_rows
  intro x v hv
  cases ha : updElem opts u x with
  | error er => simp [ha] at hv
  | ok a => simp [ha] at hv; exact ⟨a, hv.symm⟩


/-! ### the laws at work (evaluated on the model) -/

/-- `let(x => [1, 2, 3].insert(1, 9)) -> [$x.insert(0, 0), $x]`: the operand is itself the (mutable) result of `insert` -/
example : runObserve {} none [.insert 1 (int 9)] (.letPair (.insert 0 (int 0))) (list [int 1, int 2, int 3])
    = .ok (list [list [int 0, int 1, int 9, int 2, int 3], list [int 1, int 9, int 2, int 3]]) := by rfl
/-- `[$.insert(0, 0), $]` on the host's own list (`yaql.convertInputData` off) -/
example : runObserve { convertInput := false } none [] (.letPair (.insert 0 (int 0))) (list [int 1, int 2])
    = .ok (list [list [int 0, int 1, int 2], list [int 1, int 2]]) := by rfl
/-- `[a, b].enumerate().select([$.insert(2, z), $])`: the pairs made by `enumerate` are mutable lists -/
example : runObserve {} none [.enumerate none] (.selPair (.insert 2 (str ['z']))) (list [str ['a'], str ['b']])
    = .ok (list [list [list [int 0, str ['a'], str ['z']], list [int 0, str ['a']]],
                 list [list [int 1, str ['b'], str ['z']], list [int 1, str ['b']]]]) := by rfl
/-- `let(d => [1, 2].toDict($, $ * 2)) -> [$d.delete(2), $d.len(), $d]` -/
example : runObserve {} none [.toDict .arg (some (.mul .arg 2))] (.letTwice (.delete [int 2]) .len) (list [int 1, int 2])
    = .ok (list [dict [(int 1, int 2)], int 2, dict [(int 1, int 2), (int 2, int 4)]]) := by rfl
/-- `let(x => P) -> let(y => $x.insert(0, 7)) -> [$y.insert(0, 8), $y, $x]`: the update applied to its own result -/
example : runObserve {} none [] (.letChain (.insert 0 (int 7)) (.insert 0 (int 8))) (list [int 1])
    = .ok (list [list [int 8, int 7, int 1], list [int 7, int 1], list [int 1]]) := by rfl
/-- a one-shot iterator bound to a variable cannot be read twice: not followed -/
example : runObserve {} none [] (.letPair (.insert 0 (int 0))) (iter [int 1]) = .error .outOfDomain := by rfl
/-- instances of the hypotheses of `observed_update_is_unobserved_update` for the updating functions -/
example (opts : Opts) (p : Int) (v : Value) : ∀ root o, runOpR opts root (.insert p v) o = runOp opts (.insert p v) o := by
  intro _ _; rfl
example (p : Int) (v : Value) : (Op.insert p v).functionStyleSet = false := rfl
example (opts : Opts) (ks : VL) : ∀ root o, runOpR opts root (.deleteAll ks) o = runOp opts (.deleteAll ks) o := by
  intro _ _; rfl

end Yaql.Props.C13Persist
