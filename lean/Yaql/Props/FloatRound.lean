import Yaql.Model.FloatRound
import Mathlib.Tactic.Ring
import Mathlib.Tactic.Linarith
import Mathlib.Tactic.FieldSimp
import Mathlib.Algebra.Order.Field.Basic
import Mathlib.Algebra.Order.Field.Rat
import Mathlib.Algebra.Order.AbsoluteValue.Basic
/-!
Characteristic properties of `Yaql.FloatRound.roundRat num den` - the correctly rounded conversion of the exact
rational `num / den` to an IEEE-754 binary64 value - **for all inputs**.  A finite double `w` denotes
`valQ z = z / 2^1074` where `decode w = .fin z`.

* `roundRat_total` - a result (`ok` or `overflow`) for every `den > 0`; `roundRat _ 0 = zeroDen`.  Termination: the
  definition is a closed arithmetic expression (`/`, `%`, `log2`, shifts), no recursion.
* `roundRat_exact` (+ `_int`, `roundRat_exact_value`, `roundRat_of_rep`, `roundRat_int_small`) - a rational that is the
  value of a finite double (other than the bit pattern `-0.0`) is returned unchanged, bit for bit.
* `roundRat_nearest` - the value of the result is at least as near to `num / den` as the value of any finite double;
  `sval_nearest` (on scaled integers, also against every 53-bit number with an unbounded exponent).
* `roundRat_tie_even` - if another binary64 number is equally near, the lowest bit of the result is 0.
* `roundRat_overflow_iff`(`_rat`) - overflow exactly when `|num / den| ≥ 2^1024 - 2^970`.
* `roundRat_mono`(`_rat`) - monotone in the rational, in the order of doubles (overflow = the infinities).
* `roundRat_neg` - `round (-q)` is the mirror image (sign bit flipped) for `q ≠ 0`.
* `roundRat_congr`(`_rat`), `roundRat_scale` - the result depends on the rational only.
* `decode_encodeScaled`, `encodeScaled_decode`, `decode_rep` - bit patterns of finite doubles and their exact values
  (`M * 2^s`, `M < 2^53`, `s ≤ 2045`, scaled by `2^1074`) are in bijection apart from the two zeros.
* at the end: 195 kernel-evaluated test cases against CPython (examples only).
-/
namespace Yaql.Props.FloatRound
open Yaql.FloatRound

/-- `|x - y|` on naturals -/
def adiff (x y : Nat) : Nat := (x - y) + (y - x)

/-! ## `rneDiv`: nearest integer to `a / b`, ties to even -/

theorem rneDiv_cases (a b : Nat) :
    (rneDiv a b = a / b ∧ 2 * (a % b) ≤ b ∧ (2 * (a % b) = b → (a / b) % 2 = 0)) ∨
    (rneDiv a b = a / b + 1 ∧ b ≤ 2 * (a % b) ∧ (2 * (a % b) = b → (a / b + 1) % 2 = 0)) := by
  unfold rneDiv
  simp only
  split
  · left; omega
  · split
    · right; omega
    · split
      · left; omega
      · right; omega

theorem below (a b j t : Nat) (h : j + t = a / b) : a = j * b + t * b + a % b := by
  have h1 := Nat.div_add_mod a b
  rw [← h, Nat.mul_add, Nat.mul_comm b j, Nat.mul_comm b t] at h1
  omega

theorem above (a b j t : Nat) (h : a / b + 1 + t = j) : j * b + a % b = a + b + t * b := by
  have h1 := Nat.div_add_mod a b
  rw [← h, Nat.add_mul, Nat.add_mul, Nat.one_mul, Nat.mul_comm (a / b) b]
  omega

/-- the result of `rneDiv` is a nearest multiple -/
theorem rneDiv_nearest (a b : Nat) (hb : 0 < b) (j : Nat) :
    adiff a (rneDiv a b * b) ≤ adiff a (j * b) := by
  have hr := Nat.mod_lt a hb
  have hq := below a b (a / b) 0 rfl
  have hq1 := above a b (a / b + 1) 0 rfl
  unfold adiff
  rcases Nat.lt_or_ge (a / b) j with hj | hj
  · obtain ⟨t, ht⟩ := Nat.le.dest hj
    have h2 := above a b j t (by omega)
    rcases rneDiv_cases a b with ⟨e, h, _⟩ | ⟨e, h, _⟩ <;> rw [e] <;> omega
  · obtain ⟨t, ht⟩ := Nat.le.dest hj
    have h2 := below a b j t ht
    rcases rneDiv_cases a b with ⟨e, h, _⟩ | ⟨e, h, _⟩ <;> rw [e] <;> omega

/-- it is within half a step -/
theorem rneDiv_half (a b : Nat) (hb : 0 < b) : 2 * adiff a (rneDiv a b * b) ≤ b := by
  have hr := Nat.mod_lt a hb
  have hq := below a b (a / b) 0 rfl
  have hq1 := above a b (a / b + 1) 0 rfl
  unfold adiff
  rcases rneDiv_cases a b with ⟨e, h, _⟩ | ⟨e, h, _⟩ <;> rw [e] <;> omega

/-- a tie goes to the even multiple -/
theorem rneDiv_tie (a b : Nat) (hb : 0 < b) (j : Nat) (hj : j ≠ rneDiv a b)
    (h : adiff a (rneDiv a b * b) = adiff a (j * b)) : rneDiv a b % 2 = 0 := by
  have hr := Nat.mod_lt a hb
  have hq := below a b (a / b) 0 rfl
  have hq1 := above a b (a / b + 1) 0 rfl
  unfold adiff at h
  rcases Nat.lt_or_ge (a / b) j with hj' | hj'
  · obtain ⟨t, ht⟩ := Nat.le.dest hj'
    have h2 := above a b j t (by omega)
    have h3 : t = 0 ∨ b ≤ t * b := by
      rcases Nat.eq_zero_or_pos t with h0 | h0
      · exact Or.inl h0
      · exact Or.inr (Nat.le_mul_of_pos_left b h0)
    rcases rneDiv_cases a b with ⟨e, h4, h5⟩ | ⟨e, h4, h5⟩ <;> rw [e] at h hj ⊢ <;> omega
  · obtain ⟨t, ht⟩ := Nat.le.dest hj'
    have h2 := below a b j t ht
    have h3 : t = 0 ∨ b ≤ t * b := by
      rcases Nat.eq_zero_or_pos t with h0 | h0
      · exact Or.inl h0
      · exact Or.inr (Nat.le_mul_of_pos_left b h0)
    rcases rneDiv_cases a b with ⟨e, h4, h5⟩ | ⟨e, h4, h5⟩ <;> rw [e] at h hj ⊢ <;> omega

theorem rneDiv_le (a b : Nat) : rneDiv a b ≤ a / b + 1 := by
  rcases rneDiv_cases a b with ⟨e, _⟩ | ⟨e, _⟩ <;> omega

theorem le_rneDiv (a b : Nat) : a / b ≤ rneDiv a b := by
  rcases rneDiv_cases a b with ⟨e, _⟩ | ⟨e, _⟩ <;> omega

/-- `rneDiv` depends on the rational only -/
theorem rneDiv_scale (a b c : Nat) (hc : 0 < c) : rneDiv (a * c) (b * c) = rneDiv a b := by
  unfold rneDiv
  simp only [Nat.mul_div_mul_right a b hc, Nat.mul_mod_mul_right]
  have e1 : (2 * (a % b * c) < b * c) = (2 * (a % b) < b) := by
    rw [← Nat.mul_assoc]; exact propext (Nat.mul_lt_mul_right hc)
  have e2 : (b * c < 2 * (a % b * c)) = (b < 2 * (a % b)) := by
    rw [← Nat.mul_assoc]; exact propext (Nat.mul_lt_mul_right hc)
  simp only [e1, e2]

theorem rneDiv_congr (a b a' b' : Nat) (hb : 0 < b) (hb' : 0 < b') (h : a * b' = a' * b) :
    rneDiv a b = rneDiv a' b' := by
  rw [← rneDiv_scale a b b' hb', ← rneDiv_scale a' b' b hb, h, Nat.mul_comm b b']

/-! ## `quantum`: the spacing of doubles around `a / d` -/

theorem quantum_upper (a d : Nat) (hd : 0 < d) : a < d * 2 ^ (53 + quantum a d) := by
  unfold quantum
  have h1 : a / d < 2 ^ ((a / d).log2 + 1) := Nat.lt_log2_self
  have h2 : 2 ^ ((a / d).log2 + 1) ≤ 2 ^ (53 + ((a / d).log2 - 52)) :=
    Nat.pow_le_pow_right (by decide) (by omega)
  have h3 : a / d < 2 ^ (53 + ((a / d).log2 - 52)) := Nat.lt_of_lt_of_le h1 h2
  rw [Nat.mul_comm]
  exact (Nat.div_lt_iff_lt_mul hd).mp h3

theorem quantum_lower (a d : Nat) (hs : 0 < quantum a d) : d * 2 ^ (52 + quantum a d) ≤ a := by
  unfold quantum at hs ⊢
  have h0 : a / d ≠ 0 := by
    intro h; rw [h] at hs; simp [Nat.log2_zero] at hs
  have h1 : 2 ^ (a / d).log2 ≤ a / d := Nat.log2_self_le h0
  have e : 52 + ((a / d).log2 - 52) = (a / d).log2 := by omega
  rw [e]
  have hd : 0 < d := by
    rcases Nat.eq_zero_or_pos d with h | h
    · rw [h, Nat.div_zero] at h0; exact absurd rfl h0
    · exact h
  rw [Nat.mul_comm]
  exact (Nat.le_div_iff_mul_le hd).mp h1

/-- the spacing is determined by the two bounds -/
theorem quantum_unique (a d s : Nat) (hd : 0 < d) (hu : a < d * 2 ^ (53 + s))
    (hl : 0 < s → d * 2 ^ (52 + s) ≤ a) : quantum a d = s := by
  have hu' : a / d < 2 ^ (53 + s) := by
    rw [Nat.div_lt_iff_lt_mul hd, Nat.mul_comm]; exact hu
  unfold quantum
  rcases Nat.eq_zero_or_pos s with h0 | h0
  · subst h0
    rcases Nat.eq_zero_or_pos (a / d) with hz | hz
    · rw [hz]; simp [Nat.log2_zero]
    · have : (a / d).log2 < 53 + 0 := (Nat.log2_lt (by omega)).mpr hu'
      omega
  · have hl' : 2 ^ (52 + s) ≤ a / d := by
      rw [Nat.le_div_iff_mul_le hd, Nat.mul_comm]; exact hl h0
    have hne : a / d ≠ 0 := by
      have : 0 < 2 ^ (52 + s) := Nat.two_pow_pos _
      omega
    have h1 : (a / d).log2 < 53 + s := (Nat.log2_lt hne).mpr hu'
    have h2 : 52 + s ≤ (a / d).log2 := (Nat.le_log2 hne).mpr hl'
    omega

theorem quantum_congr (a d a' d' : Nat) (hd : 0 < d) (hd' : 0 < d') (h : a * d' = a' * d) :
    quantum a d = quantum a' d' := by
  unfold quantum
  have : a / d = a' / d' := by
    rw [← Nat.mul_div_mul_right a d hd', ← Nat.mul_div_mul_right a' d' hd, h, Nat.mul_comm d d']
  rw [this]

/-! ## `roundMag`: nearest double magnitude with an unbounded exponent -/

/-- magnitudes (scaled by `2^1074`) of binary64 numbers with an unbounded exponent: 53 significant bits,
    spacing at least 1 (the subnormal spacing) -/
def RepU (z : Nat) : Prop := ∃ M s, M < 2 ^ 53 ∧ z = M * 2 ^ s

/-- magnitudes (scaled by `2^1074`) of the finite binary64 numbers -/
def Rep (z : Nat) : Prop := ∃ M s, M < 2 ^ 53 ∧ s ≤ 2045 ∧ z = M * 2 ^ s

theorem Rep.repU {z : Nat} (h : Rep z) : RepU z := by
  obtain ⟨M, s, h1, _, h3⟩ := h; exact ⟨M, s, h1, h3⟩

theorem roundMag_eq (n d : Nat) : roundMag n d =
    rneDiv (scale * n) (d * 2 ^ quantum (scale * n) d) * 2 ^ quantum (scale * n) d := rfl

theorem step_pos (d s : Nat) (hd : 0 < d) : 0 < d * 2 ^ s := Nat.mul_pos hd (Nat.two_pow_pos s)

/-- the significand `k` of the result: at most `2^53`, at least `2^52` above the first binade -/
theorem signif_le (a d : Nat) (hd : 0 < d) : rneDiv a (d * 2 ^ quantum a d) ≤ 2 ^ 53 := by
  have hu := quantum_upper a d hd
  have hb := step_pos d (quantum a d) hd
  have : a / (d * 2 ^ quantum a d) < 2 ^ 53 := by
    rw [Nat.div_lt_iff_lt_mul hb]
    calc a < d * 2 ^ (53 + quantum a d) := hu
      _ = 2 ^ 53 * (d * 2 ^ quantum a d) := by rw [Nat.pow_add]; ring
  have := rneDiv_le a (d * 2 ^ quantum a d)
  omega

theorem le_signif (a d : Nat) (hs : 0 < quantum a d) : 2 ^ 52 ≤ rneDiv a (d * 2 ^ quantum a d) := by
  have hl := quantum_lower a d hs
  have hd : 0 < d := by
    rcases Nat.eq_zero_or_pos d with h | h
    · subst h; simp [quantum, Nat.log2_zero] at hs
    · exact h
  have hb := step_pos d (quantum a d) hd
  have : 2 ^ 52 ≤ a / (d * 2 ^ quantum a d) := by
    rw [Nat.le_div_iff_mul_le hb]
    calc 2 ^ 52 * (d * 2 ^ quantum a d) = d * 2 ^ (52 + quantum a d) := by rw [Nat.pow_add]; ring
      _ ≤ a := hl
  have := le_rneDiv a (d * 2 ^ quantum a d)
  omega

theorem roundMag_repU (n d : Nat) (hd : 0 < d) : RepU (roundMag n d) := by
  rw [roundMag_eq]
  have h := signif_le (scale * n) d hd
  rcases Nat.lt_or_ge (rneDiv (scale * n) (d * 2 ^ quantum (scale * n) d)) (2 ^ 53) with h1 | h1
  · exact ⟨_, _, h1, rfl⟩
  · have e : rneDiv (scale * n) (d * 2 ^ quantum (scale * n) d) = 2 ^ 53 := Nat.le_antisymm h h1
    refine ⟨2 ^ 52, quantum (scale * n) d + 1, by decide, ?_⟩
    rw [e, Nat.pow_succ]; ring

/-- **nearest**: no binary64 magnitude (even with an unbounded exponent) is nearer to `n / d` than the result.
    Distances are multiplied by `d * 2^1074`. -/
theorem roundMag_nearest (n d : Nat) (hd : 0 < d) (z : Nat) (hz : RepU z) :
    adiff (scale * n) (roundMag n d * d) ≤ adiff (scale * n) (z * d) := by
  obtain ⟨M, s', hM, rfl⟩ := hz
  rw [roundMag_eq]
  generalize scale * n = a
  have hb := step_pos d (quantum a d) hd
  have e1 : rneDiv a (d * 2 ^ quantum a d) * 2 ^ quantum a d * d =
      rneDiv a (d * 2 ^ quantum a d) * (d * 2 ^ quantum a d) := by ring
  rw [e1]
  rcases Nat.lt_or_ge s' (quantum a d) with hs | hs
  · -- a double below the binade of `a / d`: farther than the lower end of the binade
    have hs0 : 0 < quantum a d := by omega
    have hl := quantum_lower a d hs0
    have h1 := rneDiv_nearest a _ hb (2 ^ 52)
    have h2 : M * 2 ^ s' * d < 2 ^ 52 * (d * 2 ^ quantum a d) := by
      have : M * 2 ^ s' < 2 ^ 52 * 2 ^ quantum a d := by
        calc M * 2 ^ s' < 2 ^ 53 * 2 ^ s' := Nat.mul_lt_mul_of_pos_right hM (Nat.two_pow_pos _)
          _ = 2 ^ 52 * 2 ^ (s' + 1) := by rw [Nat.pow_succ]; ring
          _ ≤ 2 ^ 52 * 2 ^ quantum a d :=
              Nat.mul_le_mul_left _ (Nat.pow_le_pow_right (by decide) hs)
      calc M * 2 ^ s' * d < 2 ^ 52 * 2 ^ quantum a d * d := Nat.mul_lt_mul_of_pos_right this hd
        _ = 2 ^ 52 * (d * 2 ^ quantum a d) := by ring
    have h3 : 2 ^ 52 * (d * 2 ^ quantum a d) ≤ a := by
      calc 2 ^ 52 * (d * 2 ^ quantum a d) = d * 2 ^ (52 + quantum a d) := by rw [Nat.pow_add]; ring
        _ ≤ a := hl
    unfold adiff at h1 ⊢
    omega
  · -- a double on the grid of the binade
    obtain ⟨t, ht⟩ := Nat.le.dest hs
    have e2 : M * 2 ^ s' * d = (M * 2 ^ t) * (d * 2 ^ quantum a d) := by
      rw [← ht, Nat.pow_add]; ring
    rw [e2]
    exact rneDiv_nearest a _ hb _

/-- the tie rule: if another binary64 magnitude is equally near, the result's significand (in units of the
    spacing `2^quantum` of its binade) is even -/
theorem roundMag_tie (n d : Nat) (hd : 0 < d) (z : Nat) (hz : RepU z) (hne : z ≠ roundMag n d)
    (h : adiff (scale * n) (roundMag n d * d) = adiff (scale * n) (z * d)) :
    rneDiv (scale * n) (d * 2 ^ quantum (scale * n) d) % 2 = 0 := by
  obtain ⟨M, s', hM, rfl⟩ := hz
  rw [roundMag_eq] at h hne
  revert h hne
  generalize scale * n = a
  intro hne h
  have hb := step_pos d (quantum a d) hd
  have e1 : rneDiv a (d * 2 ^ quantum a d) * 2 ^ quantum a d * d =
      rneDiv a (d * 2 ^ quantum a d) * (d * 2 ^ quantum a d) := by ring
  rw [e1] at h
  rcases Nat.lt_or_ge s' (quantum a d) with hs | hs
  · exfalso
    have hs0 : 0 < quantum a d := by omega
    have hl := quantum_lower a d hs0
    have h1 := rneDiv_nearest a _ hb (2 ^ 52)
    have h2 : M * 2 ^ s' * d < 2 ^ 52 * (d * 2 ^ quantum a d) := by
      have : M * 2 ^ s' < 2 ^ 52 * 2 ^ quantum a d := by
        calc M * 2 ^ s' < 2 ^ 53 * 2 ^ s' := Nat.mul_lt_mul_of_pos_right hM (Nat.two_pow_pos _)
          _ = 2 ^ 52 * 2 ^ (s' + 1) := by rw [Nat.pow_succ]; ring
          _ ≤ 2 ^ 52 * 2 ^ quantum a d :=
              Nat.mul_le_mul_left _ (Nat.pow_le_pow_right (by decide) hs)
      calc M * 2 ^ s' * d < 2 ^ 52 * 2 ^ quantum a d * d := Nat.mul_lt_mul_of_pos_right this hd
        _ = 2 ^ 52 * (d * 2 ^ quantum a d) := by ring
    have h3 : 2 ^ 52 * (d * 2 ^ quantum a d) ≤ a := by
      calc 2 ^ 52 * (d * 2 ^ quantum a d) = d * 2 ^ (52 + quantum a d) := by rw [Nat.pow_add]; ring
        _ ≤ a := hl
    unfold adiff at h1 h
    omega
  · obtain ⟨t, ht⟩ := Nat.le.dest hs
    have e2 : M * 2 ^ s' * d = (M * 2 ^ t) * (d * 2 ^ quantum a d) := by
      rw [← ht, Nat.pow_add]; ring
    rw [e2] at h
    refine rneDiv_tie a _ hb (M * 2 ^ t) ?_ h
    intro hk
    apply hne
    rw [← hk, ← ht, Nat.pow_add]; ring

/-- the result depends on the rational only -/
theorem roundMag_congr (n d n' d' : Nat) (hd : 0 < d) (hd' : 0 < d') (h : n * d' = n' * d) :
    roundMag n d = roundMag n' d' := by
  rw [roundMag_eq, roundMag_eq]
  generalize scale = S
  have h' : S * n * d' = S * n' * d := by rw [Nat.mul_assoc, h, Nat.mul_assoc]
  have hq := quantum_congr (S * n) d (S * n') d' hd hd' h'
  rw [hq]
  have hr : rneDiv (S * n) (d * 2 ^ quantum (S * n') d') = rneDiv (S * n') (d' * 2 ^ quantum (S * n') d') := by
    apply rneDiv_congr _ _ _ _ (step_pos d _ hd) (step_pos d' _ hd')
    calc S * n * (d' * 2 ^ quantum (S * n') d') = S * n * d' * 2 ^ quantum (S * n') d' := by ring
      _ = S * n' * d * 2 ^ quantum (S * n') d' := by rw [h']
      _ = S * n' * (d * 2 ^ quantum (S * n') d') := by ring
  rw [hr]

/-- **exact**: a rational that is a binary64 magnitude is returned unchanged -/
theorem roundMag_exact (n d : Nat) (hd : 0 < d) (z : Nat) (hz : RepU z) (h : scale * n = z * d) :
    roundMag n d = z := by
  have h1 := roundMag_nearest n d hd z hz
  rw [h] at h1
  unfold adiff at h1
  have h2 : roundMag n d * d = z * d := by omega
  exact Nat.eq_of_mul_eq_mul_right hd h2

/-! ## bit patterns: `decode` and `encodeScaled` are inverse on the finite doubles -/

/-- the three fields of a finite double -/
theorem decode_fields (w : UInt64) (sgn e m : Nat) (h : w.toNat = sgn * 2 ^ 63 + e * 2 ^ 52 + m)
    (hs : sgn < 2) (he : e < 2047) (hm : m < 2 ^ 52) :
    decode w = .fin (if sgn = 1 then -((if e = 0 then m else (2 ^ 52 + m) * 2 ^ (e - 1) : Nat) : Int)
      else ((if e = 0 then m else (2 ^ 52 + m) * 2 ^ (e - 1) : Nat) : Int)) := by
  have h1 : w.toNat / 2 ^ 63 % 2 = sgn := by omega
  have h2 : w.toNat / 2 ^ 52 % 2048 = e := by omega
  have h3 : w.toNat % 2 ^ 52 = m := by omega
  unfold decode
  simp only [h1, h2, h3]
  have h4 : (e == 2047) = false := by simp; omega
  rw [h4]
  simp only [Bool.false_eq_true, if_false, beq_iff_eq]

theorem toNat_fields (w : UInt64) : ∃ sgn e m, w.toNat = sgn * 2 ^ 63 + e * 2 ^ 52 + m ∧ sgn < 2 ∧ e < 2048 ∧
    m < 2 ^ 52 ∧ sgn = w.toNat / 2 ^ 63 % 2 ∧ e = w.toNat / 2 ^ 52 % 2048 ∧ m = w.toNat % 2 ^ 52 := by
  have := UInt64.toNat_lt w
  refine ⟨w.toNat / 2 ^ 63 % 2, w.toNat / 2 ^ 52 % 2048, w.toNat % 2 ^ 52, ?_, ?_, ?_, ?_, rfl, rfl, rfl⟩ <;> omega

/-- the magnitude of a finite double is `M * 2^s`, `M < 2^53`, `s ≤ 2045` -/
theorem decode_rep (w : UInt64) (z : Int) (h : decode w = .fin z) : Rep z.natAbs := by
  obtain ⟨sgn, e, m, hw, hs, he, hm, _, he', hm'⟩ := toNat_fields w
  rcases Nat.lt_or_ge e 2047 with he2 | he2
  · rw [decode_fields w sgn e m hw hs he2 hm] at h
    injection h with h
    have hz : z.natAbs = (if e = 0 then m else (2 ^ 52 + m) * 2 ^ (e - 1)) := by
      rw [← h]; split <;> simp only [Int.natAbs_neg, Int.natAbs_natCast]
    rw [hz]
    split
    · exact ⟨m, 0, by omega, by omega, by simp⟩
    · exact ⟨2 ^ 52 + m, e - 1, by omega, by omega, rfl⟩
  · exfalso
    have e47 : e = 2047 := by omega
    unfold decode at h
    simp only [← he', ← hm', e47] at h
    split at h
    · split at h
      · split at h <;> cases h
      · cases h
    · rename_i hc; exact hc rfl

/-- the bit pattern `encodeScaled` builds, as a number -/
def encodeNat (neg : Bool) (r : Nat) : Nat :=
  (if neg then 2 ^ 63 else 0) +
    (if r < 2 ^ 52 then r else (r.log2 + 1 - 53 + 1) * 2 ^ 52 + (r / 2 ^ (r.log2 + 1 - 53) - 2 ^ 52))

theorem encodeScaled_eq (neg : Bool) (r : Nat) : encodeScaled neg r = UInt64.ofNat (encodeNat neg r) := by
  unfold encodeScaled encodeNat
  simp only
  split <;> simp [Nat.add_assoc]

/-- normal form of a representable magnitude `≥ 2^52`: significand in `[2^52, 2^53)`, exponent `log2 - 52` -/
theorem rep_normal (r : Nat) (hr : Rep r) (h52 : 2 ^ 52 ≤ r) :
    ∃ m, 2 ^ 52 ≤ m ∧ m < 2 ^ 53 ∧ r = m * 2 ^ (r.log2 - 52) ∧ r.log2 - 52 ≤ 2045 ∧ 52 ≤ r.log2 := by
  obtain ⟨M, s, hM, hs, hr'⟩ := hr
  have hr0 : r ≠ 0 := by
    have : 0 < 2 ^ 52 := Nat.two_pow_pos _
    omega
  have hL1 : 2 ^ r.log2 ≤ r := Nat.log2_self_le hr0
  have hL2 : r < 2 ^ (r.log2 + 1) := Nat.lt_log2_self
  have hL52 : 52 ≤ r.log2 := (Nat.le_log2 hr0).mpr h52
  -- `r < 2^(53+s)`, so `log2 r ≤ 52 + s`
  have h1 : r < 2 ^ (53 + s) := by
    rw [hr', Nat.pow_add]
    exact Nat.mul_lt_mul_of_pos_right hM (Nat.two_pow_pos _)
  have h2 : r.log2 < 53 + s := (Nat.log2_lt hr0).mpr h1
  obtain ⟨sh, hsh⟩ : ∃ sh, sh = r.log2 - 52 := ⟨_, rfl⟩
  rw [← hsh]
  obtain ⟨t, ht⟩ := Nat.le.dest (show sh ≤ s by omega)
  have e : r = M * 2 ^ t * 2 ^ sh := by
    rw [hr', ← ht, Nat.pow_add]; ring
  refine ⟨M * 2 ^ t, ?_, ?_, e, by omega, hL52⟩
  · -- `2^52 * 2^sh ≤ r = (M * 2^t) * 2^sh`
    have h3 : 2 ^ 52 * 2 ^ sh ≤ M * 2 ^ t * 2 ^ sh := by
      rw [← e, ← Nat.pow_add]
      have : 52 + sh = r.log2 := by omega
      rw [this]; exact hL1
    exact Nat.le_of_mul_le_mul_right h3 (Nat.two_pow_pos _)
  · have h3 : M * 2 ^ t * 2 ^ sh < 2 ^ 53 * 2 ^ sh := by
      rw [← e, ← Nat.pow_add]
      have : 53 + sh = r.log2 + 1 := by omega
      rw [this]; exact hL2
    exact Nat.lt_of_mul_lt_mul_right h3

/-- what `encodeNat` is on a normal magnitude -/
theorem encodeNat_normal (neg : Bool) (r : Nat) (hr : Rep r) (h52 : 2 ^ 52 ≤ r) :
    ∃ m, 2 ^ 52 ≤ m ∧ m < 2 ^ 53 ∧ r = m * 2 ^ (r.log2 - 52) ∧ r.log2 - 52 ≤ 2045 ∧
      encodeNat neg r = (if neg then 1 else 0) * 2 ^ 63 + (r.log2 - 52 + 1) * 2 ^ 52 + (m - 2 ^ 52) := by
  obtain ⟨m, h1, h2, h3, h4, h5⟩ := rep_normal r hr h52
  refine ⟨m, h1, h2, h3, h4, ?_⟩
  unfold encodeNat
  have e : r.log2 + 1 - 53 = r.log2 - 52 := by omega
  have hdiv : r / 2 ^ (r.log2 - 52) = m := by
    conv => lhs; lhs; rw [h3]
    exact Nat.mul_div_cancel _ (Nat.two_pow_pos _)
  have hn : ¬ r < 2 ^ 52 := by omega
  rw [e, hdiv, if_neg hn]
  cases neg <;> simp
  omega



theorem encodeNat_lt (neg : Bool) (r : Nat) (hr : Rep r) : encodeNat neg r < 2 ^ 64 := by
  rcases Nat.lt_or_ge r (2 ^ 52) with h | h
  · unfold encodeNat; rw [if_pos h]; split <;> omega
  · obtain ⟨m, h1, h2, _, h4, e⟩ := encodeNat_normal neg r hr h
    rw [e]; split <;> omega

/-- `decode (encodeScaled neg r)` is the magnitude `r` with the sign `neg`, for every finite magnitude -/
theorem decode_encodeScaled (neg : Bool) (r : Nat) (hr : Rep r) :
    decode (encodeScaled neg r) = .fin (if neg then -(r : Int) else (r : Int)) := by
  have hlt := encodeNat_lt neg r hr
  have hto : (encodeScaled neg r).toNat = encodeNat neg r := by
    rw [encodeScaled_eq]; exact UInt64.toNat_ofNat_of_lt' hlt
  rcases Nat.lt_or_ge r (2 ^ 52) with h | h
  · have hw : (encodeScaled neg r).toNat = (if neg then 1 else 0) * 2 ^ 63 + 0 * 2 ^ 52 + r := by
      rw [hto]; unfold encodeNat; rw [if_pos h]; cases neg <;> simp
    rw [decode_fields _ _ 0 r hw (by split <;> omega) (by omega) h]
    cases neg <;> simp
  · obtain ⟨m, h1, h2, h3, h4, e⟩ := encodeNat_normal neg r hr h
    have hw : (encodeScaled neg r).toNat =
        (if neg then 1 else 0) * 2 ^ 63 + (r.log2 - 52 + 1) * 2 ^ 52 + (m - 2 ^ 52) := by rw [hto, e]
    rw [decode_fields _ _ _ _ hw (by split <;> omega) (by omega) (by omega)]
    have hm : 2 ^ 52 + (m - 2 ^ 52) = m := by omega
    have hr' : (if r.log2 - 52 + 1 = 0 then m - 2 ^ 52 else (2 ^ 52 + (m - 2 ^ 52)) * 2 ^ (r.log2 - 52 + 1 - 1)) = r := by
      rw [if_neg (Nat.succ_ne_zero _), hm, Nat.add_sub_cancel, ← h3]
    rw [hr']
    cases neg <;> simp

/-- `encodeScaled` gives back the bit pattern of a finite double from its sign bit and magnitude -/
theorem encodeScaled_decode (w : UInt64) (z : Int) (h : decode w = .fin z) :
    encodeScaled (signBit w) z.natAbs = w := by
  obtain ⟨sgn, e, m, hw, hs, he, hm, hs', he', hm'⟩ := toNat_fields w
  have he2 : e < 2047 := by
    rcases Nat.lt_or_ge e 2047 with he2 | he2
    · exact he2
    · exfalso
      have e47 : e = 2047 := by omega
      unfold decode at h
      simp only [← he', ← hm', e47] at h
      split at h
      · split at h
        · split at h <;> cases h
        · cases h
      · rename_i hc; exact hc rfl
  rw [decode_fields w sgn e m hw hs he2 hm] at h
  injection h with h
  have hz : z.natAbs = (if e = 0 then m else (2 ^ 52 + m) * 2 ^ (e - 1)) := by
    rw [← h]; split <;> simp only [Int.natAbs_neg, Int.natAbs_natCast]
  have hsb : signBit w = decide (sgn = 1) := by
    unfold signBit; rw [← hs']
    rcases (show sgn = 0 ∨ sgn = 1 by omega) with h0 | h0 <;> subst h0 <;> rfl
  rw [encodeScaled_eq, hz, hsb]
  have key : encodeNat (decide (sgn = 1)) (if e = 0 then m else (2 ^ 52 + m) * 2 ^ (e - 1)) = w.toNat := by
    by_cases e0 : e = 0
    · rw [if_pos e0]
      unfold encodeNat
      rw [if_pos hm, hw, e0]
      rcases (show sgn = 0 ∨ sgn = 1 by omega) with h0 | h0 <;> subst h0 <;> simp
    · rw [if_neg e0]
      have hrep : Rep ((2 ^ 52 + m) * 2 ^ (e - 1)) := ⟨2 ^ 52 + m, e - 1, by omega, by omega, rfl⟩
      have h52 : 2 ^ 52 ≤ (2 ^ 52 + m) * 2 ^ (e - 1) :=
        Nat.le_trans (Nat.le_add_right _ m) (Nat.le_mul_of_pos_right _ (Nat.two_pow_pos _))
      have hne : (2 ^ 52 + m) * 2 ^ (e - 1) ≠ 0 := by
        have : 0 < 2 ^ 52 := Nat.two_pow_pos _
        omega
      have hlog : ((2 ^ 52 + m) * 2 ^ (e - 1)).log2 = 52 + (e - 1) := by
        rw [Nat.log2_eq_iff hne]
        constructor
        · rw [Nat.pow_add]; exact Nat.mul_le_mul_right _ (Nat.le_add_right _ m)
        · rw [show 52 + (e - 1) + 1 = 53 + (e - 1) by omega, Nat.pow_add]
          exact Nat.mul_lt_mul_of_pos_right (by omega) (Nat.two_pow_pos _)
      obtain ⟨m', h1, h2, h3, h4, ee⟩ := encodeNat_normal (decide (sgn = 1)) _ hrep h52
      rw [ee, hlog] at *
      have e1 : 52 + (e - 1) - 52 = e - 1 := by omega
      rw [e1] at h3 ee ⊢
      have hm2 : m' = 2 ^ 52 + m := (Nat.eq_of_mul_eq_mul_right (Nat.two_pow_pos _) h3).symm
      rw [hm2, hw]
      rcases (show sgn = 0 ∨ sgn = 1 by omega) with h0 | h0 <;> subst h0 <;> simp <;> omega
  rw [key]; exact UInt64.ofNat_toNat

/-! ## the finite range -/

theorem log2_lt_iff (z k : Nat) (hk : 0 < k) : z.log2 < k ↔ z < 2 ^ k := by
  rcases Nat.eq_zero_or_pos z with h | h
  · subst h; simp [Nat.log2_zero, hk]
  · exact Nat.log2_lt (by omega)

/-- a rounded magnitude below `2^1024` is a finite double -/
theorem roundMag_rep (n d : Nat) (hd : 0 < d) (h : (roundMag n d).log2 < 2098) : Rep (roundMag n d) := by
  rw [log2_lt_iff _ _ (by decide)] at h
  rw [roundMag_eq] at h ⊢
  obtain ⟨K, hK⟩ : ∃ K, K = 2098 := ⟨_, rfl⟩
  rw [← hK] at h
  revert h
  generalize scale * n = a
  intro h
  have hk := signif_le a d hd
  rcases Nat.lt_or_ge (rneDiv a (d * 2 ^ quantum a d)) (2 ^ 53) with h1 | h1
  · refine ⟨_, _, h1, ?_, rfl⟩
    apply Nat.le_of_not_gt
    intro hs
    have hk2 := le_signif a d (by omega)
    have h3 : 2 ^ 52 * 2 ^ quantum a d ≤ rneDiv a (d * 2 ^ quantum a d) * 2 ^ quantum a d :=
      Nat.mul_le_mul_right _ hk2
    rw [← Nat.pow_add] at h3
    have h4 : 52 + quantum a d < K := (Nat.pow_lt_pow_iff_right (by decide)).mp (Nat.lt_of_le_of_lt h3 h)
    omega
  · have e : rneDiv a (d * 2 ^ quantum a d) = 2 ^ 53 := Nat.le_antisymm hk h1
    rw [e, ← Nat.pow_add] at h
    have h2 : 53 + quantum a d < K := (Nat.pow_lt_pow_iff_right (by decide)).mp h
    refine ⟨2 ^ 52, quantum a d + 1, by decide, by omega, ?_⟩
    rw [e, Nat.pow_succ]; ring

/-! ## `roundRat` -/

/-- the signed, scaled, unbounded-exponent rounding of `num / den` -/
def sval (num : Int) (den : Nat) : Int :=
  if num < 0 then -(roundMag num.natAbs den : Int) else (roundMag num.natAbs den : Int)

theorem sval_natAbs (num : Int) (den : Nat) : (sval num den).natAbs = roundMag num.natAbs den := by
  unfold sval; split <;> simp

/-- **totality**: a result for every rational -/
theorem roundRat_total (num : Int) (den : Nat) (hd : 0 < den) : roundRat num den ≠ .zeroDen := by
  unfold roundRat finish
  rw [if_neg (by omega)]
  split <;> simp

theorem roundRat_zeroDen (num : Int) : roundRat num 0 = .zeroDen := by
  unfold roundRat; rw [if_pos rfl]

theorem roundRat_ok {num : Int} {den : Nat} {w : UInt64} (h : roundRat num den = .ok w) :
    0 < den ∧ (roundMag num.natAbs den).log2 < 2098 ∧ w = encodeScaled (decide (num < 0)) (roundMag num.natAbs den) := by
  unfold roundRat finish at h
  split at h
  · cases h
  · split at h
    · cases h
    · injection h with h
      exact ⟨by omega, by omega, h.symm⟩

theorem roundRat_overflow {num : Int} {den : Nat} {neg : Bool} (h : roundRat num den = .overflow neg) :
    0 < den ∧ 2098 ≤ (roundMag num.natAbs den).log2 ∧ neg = decide (num < 0) := by
  unfold roundRat finish at h
  split at h
  · cases h
  · split at h
    · injection h with h
      exact ⟨by omega, by assumption, h.symm⟩
    · cases h

/-- the value of a finite result is the signed rounding, and its magnitude is a finite double -/
theorem roundRat_decode {num : Int} {den : Nat} {w : UInt64} (h : roundRat num den = .ok w) :
    decode w = .fin (sval num den) := by
  obtain ⟨hd, hl, hw⟩ := roundRat_ok h
  rw [hw, decode_encodeScaled _ _ (roundMag_rep _ _ hd hl)]
  unfold sval
  by_cases hn : num < 0 <;> simp [hn]

/-- the value of any result in the extended order -/
theorem roundRat_ext (num : Int) (den : Nat) (hd : 0 < den) :
    (roundRat num den).ext =
      if (roundMag num.natAbs den).log2 < 2098 then .fin (sval num den)
      else if num < 0 then .ninf else .pinf := by
  cases hr : roundRat num den with
  | ok w =>
    obtain ⟨_, hl, _⟩ := roundRat_ok hr
    rw [if_pos hl]; exact roundRat_decode hr
  | overflow neg =>
    obtain ⟨_, hl, hn⟩ := roundRat_overflow hr
    rw [if_neg (by omega), hn]
    by_cases hn : num < 0 <;> simp [hn, Rounded.ext]
  | zeroDen => exact absurd hr (roundRat_total num den hd)

/-- `roundRat` depends on the rational only (in particular `roundRat (num * k) (den * k) = roundRat num den`) -/
theorem roundRat_congr (num num' : Int) (den den' : Nat) (hd : 0 < den) (hd' : 0 < den')
    (h : num * den' = num' * den) : roundRat num den = roundRat num' den' := by
  have hmag : roundMag num.natAbs den = roundMag num'.natAbs den' := by
    apply roundMag_congr _ _ _ _ hd hd'
    have := congrArg Int.natAbs h
    simpa [Int.natAbs_mul] using this
  have hsign : decide (num < 0) = decide (num' < 0) := by
    have h1 : (0 : Int) < den := by exact_mod_cast hd
    have h2 : (0 : Int) < den' := by exact_mod_cast hd'
    rw [decide_eq_decide]
    constructor
    · intro hn
      have : num * den' < 0 := Int.mul_neg_of_neg_of_pos hn h2
      rw [h] at this
      by_contra hc
      have : 0 ≤ num' * (den : Int) := Int.mul_nonneg (by omega) (by omega)
      omega
    · intro hn
      have : num' * den < 0 := Int.mul_neg_of_neg_of_pos hn h1
      rw [← h] at this
      by_contra hc
      have : 0 ≤ num * (den' : Int) := Int.mul_nonneg (by omega) (by omega)
      omega
  unfold roundRat
  rw [if_neg (by omega), if_neg (by omega), hmag, hsign]

theorem roundRat_scale (num : Int) (den k : Nat) (hd : 0 < den) (hk : 0 < k) :
    roundRat (num * k) (den * k) = roundRat num den := by
  apply roundRat_congr _ _ _ _ (Nat.mul_pos hd hk) hd
  push_cast; ring

/-! ## nearest, signed -/

theorem repU_zero : RepU 0 := ⟨0, 0, by decide, by simp⟩

/-- **nearest** on the signed scaled integers: no binary64 number `z / 2^1074` (any exponent) is nearer to
    `num / den` than the rounding; distances multiplied by `den * 2^1074` -/
theorem sval_nearest (num : Int) (den : Nat) (hd : 0 < den) (z : Int) (hz : RepU z.natAbs) :
    ((scale : Int) * num - sval num den * den).natAbs ≤ ((scale : Int) * num - z * den).natAbs := by
  have H1 := roundMag_nearest num.natAbs den hd z.natAbs hz
  have H0 := roundMag_nearest num.natAbs den hd 0 repU_zero
  unfold adiff at H1 H0
  rw [Nat.zero_mul] at H0
  have eA : (scale : Int) * num = if num < 0 then -((scale * num.natAbs : Nat) : Int) else ((scale * num.natAbs : Nat) : Int) := by
    split
    · have : (num.natAbs : Int) = -num := by omega
      rw [Nat.cast_mul, this]; ring
    · have : (num.natAbs : Int) = num := by omega
      rw [Nat.cast_mul, this]
  have eP : sval num den * den = if num < 0 then -((roundMag num.natAbs den * den : Nat) : Int)
      else ((roundMag num.natAbs den * den : Nat) : Int) := by
    unfold sval; split <;> push_cast <;> ring
  have eQ : z * den = if z < 0 then -((z.natAbs * den : Nat) : Int) else ((z.natAbs * den : Nat) : Int) := by
    split
    · have : (z.natAbs : Int) = -z := by omega
      rw [Nat.cast_mul, this]; ring
    · have : (z.natAbs : Int) = z := by omega
      rw [Nat.cast_mul, this]
  rw [eA, eP, eQ]
  generalize scale * num.natAbs = A at *
  generalize roundMag num.natAbs den * den = P at *
  generalize z.natAbs * den = Q at *
  split <;> split <;> omega

set_option exponentiation.threshold 1100 in
theorem scale_pos : 0 < scale := Nat.two_pow_pos 1074

theorem rep_log2 (r : Nat) (hr : Rep r) : r.log2 < 2098 := by
  obtain ⟨K, hK⟩ : ∃ K, K = 2098 := ⟨_, rfl⟩
  rw [← hK, log2_lt_iff _ _ (by omega)]
  obtain ⟨M, s, hM, hs, rfl⟩ := hr
  calc M * 2 ^ s < 2 ^ 53 * 2 ^ s := Nat.mul_lt_mul_of_pos_right hM (Nat.two_pow_pos _)
    _ = 2 ^ (53 + s) := by rw [Nat.pow_add]
    _ ≤ 2 ^ K := Nat.pow_le_pow_right (by decide) (by omega)

/-- the sign bit of a finite non-zero double is the sign of its value -/
theorem signBit_decode (w : UInt64) (z : Int) (h : decode w = .fin z) (hz : z ≠ 0) : signBit w = decide (z < 0) := by
  obtain ⟨sgn, e, m, hw, hs, he, hm, hs', he', hm'⟩ := toNat_fields w
  have he2 : e < 2047 := by
    rcases Nat.lt_or_ge e 2047 with he2 | he2
    · exact he2
    · exfalso
      have e47 : e = 2047 := by omega
      unfold decode at h
      simp only [← he', ← hm', e47] at h
      split at h
      · split at h
        · split at h <;> cases h
        · cases h
      · rename_i hc; exact hc rfl
  rw [decode_fields w sgn e m hw hs he2 hm] at h
  injection h with h
  generalize (if e = 0 then m else (2 ^ 52 + m) * 2 ^ (e - 1) : Nat) = mag at h
  unfold signBit; rw [← hs']
  rcases (show sgn = 0 ∨ sgn = 1 by omega) with h0 | h0 <;> subst h0 <;> simp at h ⊢ <;> omega

theorem negZero_eq : encodeScaled true 0 = 0x8000000000000000 := by decide

/-- **exact**: a rational that is a binary64 value (other than `-0.0`, which no rational denotes apart from `0 = +0.0`)
    is returned unchanged, bit for bit; `scale * num = z * den` says `num / den = z / 2^1074` -/
theorem roundRat_exact_int (num : Int) (den : Nat) (hd : 0 < den) (w : UInt64) (z : Int)
    (hw : decode w = .fin z) (hq : (scale : Int) * num = z * den) (hnz : w ≠ 0x8000000000000000) :
    roundRat num den = .ok w := by
  have hrep := decode_rep w z hw
  have hqn : scale * num.natAbs = z.natAbs * den := by
    have := congrArg Int.natAbs hq
    simpa [Int.natAbs_mul] using this
  have hmag : roundMag num.natAbs den = z.natAbs := roundMag_exact _ _ hd _ hrep.repU hqn
  have hS : (0 : Int) < scale := by exact_mod_cast scale_pos
  have hD : (0 : Int) < den := by exact_mod_cast hd
  have hsign : decide (num < 0) = signBit w := by
    by_cases hz : z = 0
    · subst hz
      have hn0 : num = 0 := by
        rw [Int.zero_mul] at hq
        rcases Int.mul_eq_zero.mp hq with h | h
        · omega
        · exact h
      subst hn0
      have := encodeScaled_decode w 0 hw
      cases hsb : signBit w
      · rfl
      · rw [hsb] at this
        exact absurd (this.symm.trans negZero_eq) hnz
    · rw [signBit_decode w z hw hz, decide_eq_decide]
      constructor
      · intro hn
        by_contra hc
        have h1 : (scale : Int) * num < 0 := Int.mul_neg_of_pos_of_neg hS hn
        have h2 : 0 ≤ z * (den : Int) := Int.mul_nonneg (by omega) (by omega)
        omega
      · intro hn
        by_contra hc
        have h1 : z * (den : Int) < 0 := Int.mul_neg_of_neg_of_pos hn hD
        have h2 : 0 ≤ (scale : Int) * num := Int.mul_nonneg (by omega) (by omega)
        omega
  unfold roundRat finish
  rw [if_neg (by omega), hmag, if_neg (by have := rep_log2 _ hrep; omega), hsign, encodeScaled_decode w z hw]

/-- the mirror image of a result -/
def negR : Rounded → Rounded
  | .ok w => .ok (negBits w)
  | .overflow b => .overflow (!b)
  | .zeroDen => .zeroDen

theorem encodeNat_false_lt (r : Nat) (hr : Rep r) : encodeNat false r < 2 ^ 63 := by
  rcases Nat.lt_or_ge r (2 ^ 52) with h | h
  · unfold encodeNat; rw [if_pos h]; simp; omega
  · obtain ⟨m, h1, h2, _, h4, e⟩ := encodeNat_normal false r hr h
    rw [e]; simp; omega

theorem encodeNat_true (r : Nat) : encodeNat true r = 2 ^ 63 + encodeNat false r := by
  unfold encodeNat; simp

theorem negBits_encode (b : Bool) (r : Nat) (hr : Rep r) : negBits (encodeScaled b r) = encodeScaled (!b) r := by
  have hlt := encodeNat_false_lt r hr
  rw [encodeScaled_eq, encodeScaled_eq]
  unfold negBits
  rw [UInt64.toNat_ofNat']
  cases b
  · rw [Bool.not_false, encodeNat_true]
    have e : (encodeNat false r % 2 ^ 64 + 2 ^ 63) % 2 ^ 64 = 2 ^ 63 + encodeNat false r := by omega
    rw [e]
  · rw [Bool.not_true, encodeNat_true]
    have e : ((2 ^ 63 + encodeNat false r) % 2 ^ 64 + 2 ^ 63) % 2 ^ 64 = encodeNat false r := by omega
    rw [e]

/-- **symmetry**: the rounding of `-q` is the mirror image of the rounding of `q` (sign bit flipped) -/
theorem roundRat_neg (num : Int) (den : Nat) (hn : num ≠ 0) : roundRat (-num) den = negR (roundRat num den) := by
  unfold roundRat finish
  by_cases hd : den = 0
  · rw [if_pos hd, if_pos hd]; rfl
  · rw [if_neg hd, if_neg hd, Int.natAbs_neg]
    have hs : decide (-num < 0) = !decide (num < 0) := by
      by_cases h : num < 0 <;> simp [h] <;> omega
    rw [hs]
    split
    · rfl
    · rename_i hl
      simp only [negR]
      rw [negBits_encode _ _ (roundMag_rep _ _ (by omega) (by omega))]

/-! ## monotonicity -/

theorem sval_repU (num : Int) (den : Nat) (hd : 0 < den) : RepU (sval num den).natAbs := by
  rw [sval_natAbs]; exact roundMag_repU _ _ hd

theorem sval_congr (num num' : Int) (den den' : Nat) (hd : 0 < den) (hd' : 0 < den')
    (h : num * den' = num' * den) : sval num den = sval num' den' := by
  have h1 := roundRat_congr num num' den den' hd hd' h
  have hmag : roundMag num.natAbs den = roundMag num'.natAbs den' := by
    apply roundMag_congr _ _ _ _ hd hd'
    have := congrArg Int.natAbs h
    simpa [Int.natAbs_mul] using this
  have h1 : (0 : Int) < den := by exact_mod_cast hd
  have h2 : (0 : Int) < den' := by exact_mod_cast hd'
  have hsign : num < 0 ↔ num' < 0 := by
    constructor
    · intro hn
      have : num * den' < 0 := Int.mul_neg_of_neg_of_pos hn h2
      rw [h] at this
      by_contra hc
      have : 0 ≤ num' * (den : Int) := Int.mul_nonneg (by omega) (by omega)
      omega
    · intro hn
      have : num' * den < 0 := Int.mul_neg_of_neg_of_pos hn h1
      rw [← h] at this
      by_contra hc
      have : 0 ≤ num * (den' : Int) := Int.mul_nonneg (by omega) (by omega)
      omega
  unfold sval
  rw [hmag]
  by_cases hn : num < 0
  · rw [if_pos hn, if_pos (hsign.mp hn)]
  · rw [if_neg hn, if_neg (fun h => hn (hsign.mpr h))]

/-- if the rounding of `q` lies above another double `z`, then `q` is at least the midpoint -/
theorem above_mid (num : Int) (den : Nat) (hd : 0 < den) (z : Int) (hz : RepU z.natAbs) (hlt : z < sval num den) :
    (sval num den + z) * den ≤ 2 * ((scale : Int) * num) := by
  have h := sval_nearest num den hd z hz
  have hD : (0 : Int) < den := by exact_mod_cast hd
  have h1 : z * den < sval num den * den := Int.mul_lt_mul_of_pos_right hlt hD
  rw [Int.add_mul]
  generalize (scale : Int) * num = u at *
  generalize sval num den * den = p1 at *
  generalize z * (den : Int) = p2 at *
  omega

theorem below_mid (num : Int) (den : Nat) (hd : 0 < den) (z : Int) (hz : RepU z.natAbs) (hlt : sval num den < z) :
    2 * ((scale : Int) * num) ≤ (sval num den + z) * den := by
  have h := sval_nearest num den hd z hz
  have hD : (0 : Int) < den := by exact_mod_cast hd
  have h1 : sval num den * den < z * den := Int.mul_lt_mul_of_pos_right hlt hD
  rw [Int.add_mul]
  generalize (scale : Int) * num = u at *
  generalize sval num den * den = p1 at *
  generalize z * (den : Int) = p2 at *
  omega

/-- the unbounded-exponent rounding is monotone in the rational -/
theorem sval_mono (n1 n2 : Int) (d1 d2 : Nat) (h1 : 0 < d1) (h2 : 0 < d2) (h : n1 * d2 ≤ n2 * d1) :
    sval n1 d1 ≤ sval n2 d2 := by
  by_contra hc
  have hlt : sval n2 d2 < sval n1 d1 := by omega
  have a1 := above_mid n1 d1 h1 (sval n2 d2) (sval_repU n2 d2 h2) hlt
  have a2 := below_mid n2 d2 h2 (sval n1 d1) (sval_repU n1 d1 h1) hlt
  have hD1 : (0 : Int) < d1 := by exact_mod_cast h1
  have hD2 : (0 : Int) < d2 := by exact_mod_cast h2
  have hS : (0 : Int) < scale := by exact_mod_cast scale_pos
  -- `2 S n2 d1 ≤ T d1 d2 ≤ 2 S n1 d2`
  have b1 : (sval n1 d1 + sval n2 d2) * d1 * d2 ≤ 2 * ((scale : Int) * n1) * d2 :=
    Int.mul_le_mul_of_nonneg_right a1 (by omega)
  have b2 : 2 * ((scale : Int) * n2) * d1 ≤ (sval n2 d2 + sval n1 d1) * d2 * d1 :=
    Int.mul_le_mul_of_nonneg_right a2 (by omega)
  have e1 : (sval n2 d2 + sval n1 d1) * d2 * d1 = (sval n1 d1 + sval n2 d2) * d1 * d2 := by ring
  have e2 : 2 * ((scale : Int) * n1) * d2 = (2 * scale) * (n1 * d2) := by ring
  have e3 : 2 * ((scale : Int) * n2) * d1 = (2 * scale) * (n2 * d1) := by ring
  rw [e1] at b2
  rw [e2] at b1
  rw [e3] at b2
  have b3 : (2 * (scale : Int)) * (n2 * d1) ≤ (2 * scale) * (n1 * d2) := Int.le_trans b2 b1
  have b4 : n2 * d1 ≤ n1 * d2 := Int.le_of_mul_le_mul_left b3 (by omega)
  have heq : n1 * d2 = n2 * d1 := by omega
  have := sval_congr n1 n2 d1 d2 h1 h2 heq
  omega

/-- **monotone**: `q1 ≤ q2` implies `round q1 ≤ round q2` in the order of doubles (overflow = the infinities) -/
theorem roundRat_mono (n1 n2 : Int) (d1 d2 : Nat) (h1 : 0 < d1) (h2 : 0 < d2) (h : n1 * d2 ≤ n2 * d1) :
    Ext.le (roundRat n1 d1).ext (roundRat n2 d2).ext = true := by
  have hm := sval_mono n1 n2 d1 d2 h1 h2 h
  rw [roundRat_ext n1 d1 h1, roundRat_ext n2 d2 h2]
  have hs1 := sval_natAbs n1 d1
  have hs2 := sval_natAbs n2 d2
  obtain ⟨K, hK⟩ : ∃ K, K = 2098 := ⟨_, rfl⟩
  rw [← hK]
  have l1 : (roundMag n1.natAbs d1).log2 < K ↔ (sval n1 d1).natAbs < 2 ^ K := by
    rw [hs1]; exact log2_lt_iff _ K (by omega)
  have l2 : (roundMag n2.natAbs d2).log2 < K ↔ (sval n2 d2).natAbs < 2 ^ K := by
    rw [hs2]; exact log2_lt_iff _ K (by omega)
  clear hs1 hs2
  have hv1 : (n1 < 0 ∧ sval n1 d1 ≤ 0) ∨ (¬ n1 < 0 ∧ 0 ≤ sval n1 d1) := by
    unfold sval; split <;> omega
  have hv2 : (n2 < 0 ∧ sval n2 d2 ≤ 0) ∨ (¬ n2 < 0 ∧ 0 ≤ sval n2 d2) := by
    unfold sval; split <;> omega
  generalize (roundMag n1.natAbs d1).log2 = L1 at *
  generalize (roundMag n2.natAbs d2).log2 = L2 at *
  generalize sval n1 d1 = v1 at *
  generalize sval n2 d2 = v2 at *
  have hB : 0 < 2 ^ K := Nat.two_pow_pos K
  generalize 2 ^ K = B at *
  by_cases c1 : L1 < K <;> by_cases c2 : L2 < K <;>
    by_cases s1 : n1 < 0 <;> by_cases s2 : n2 < 0 <;> simp [c1, c2, s1, s2, Ext.le] <;>
    (have l1' := l1.not; have l2' := l2.not; have l1m := l1.mp; have l2m := l2.mp; omega)

/-! ## the statements over ℚ -/

/-- the rational a finite double with scaled value `z` denotes -/
def valQ (z : Int) : ℚ := (z : ℚ) / (scale : ℚ)

theorem scaleQ_pos : (0 : ℚ) < (scale : ℚ) := by exact_mod_cast scale_pos

theorem diff_eq (num : Int) (den : Nat) (hd : 0 < den) (z : Int) :
    (num : ℚ) / den - valQ z = (((scale : Int) * num - z * den : Int) : ℚ) / ((den : ℚ) * scale) := by
  have h1 : (0 : ℚ) < den := by exact_mod_cast hd
  have h2 := scaleQ_pos
  unfold valQ
  push_cast
  field_simp

theorem absdiff_eq (num : Int) (den : Nat) (hd : 0 < den) (z : Int) :
    |(num : ℚ) / den - valQ z| = ((((scale : Int) * num - z * den).natAbs : ℕ) : ℚ) / ((den : ℚ) * scale) := by
  have h1 : (0 : ℚ) < den := by exact_mod_cast hd
  have h2 := scaleQ_pos
  rw [diff_eq num den hd z, abs_div, abs_of_pos (mul_pos h1 h2), Nat.cast_natAbs, Int.cast_abs]

/-- **nearest**: the value of the result is at least as near to `num / den` as the value of any finite double -/
theorem roundRat_nearest (num : Int) (den : Nat) (w : UInt64) (h : roundRat num den = .ok w) :
    ∃ z, decode w = .fin z ∧ ∀ w' z', decode w' = .fin z' →
      |(num : ℚ) / den - valQ z| ≤ |(num : ℚ) / den - valQ z'| := by
  obtain ⟨hd, _, _⟩ := roundRat_ok h
  refine ⟨sval num den, roundRat_decode h, ?_⟩
  intro w' z' hw'
  have hz' := (decode_rep w' z' hw').repU
  have hn := sval_nearest num den hd z' hz'
  rw [absdiff_eq num den hd, absdiff_eq num den hd]
  have h1 : (0 : ℚ) < den := by exact_mod_cast hd
  have h2 := scaleQ_pos
  apply div_le_div_of_nonneg_right _ (le_of_lt (mul_pos h1 h2))
  exact_mod_cast hn

/-- **exact**: if `num / den` is the value of the finite double `w` (not the bit pattern `-0.0`), the result is `w` -/
theorem roundRat_exact (num : Int) (den : Nat) (hd : 0 < den) (w : UInt64) (z : Int)
    (hw : decode w = .fin z) (hq : (num : ℚ) / den = valQ z) (hnz : w ≠ 0x8000000000000000) :
    roundRat num den = .ok w := by
  apply roundRat_exact_int num den hd w z hw _ hnz
  have h1 : (0 : ℚ) < den := by exact_mod_cast hd
  have h2 := scaleQ_pos
  have h0 := sub_eq_zero.mpr hq
  rw [diff_eq num den hd z, div_eq_zero_iff] at h0
  rcases h0 with h0 | h0
  · have : (scale : Int) * num - z * den = 0 := by exact_mod_cast h0
    omega
  · exact absurd h0 (ne_of_gt (mul_pos h1 h2))

/-- ... and decoding the result of a representable input gives the input back -/
theorem roundRat_exact_value (num : Int) (den : Nat) (w w' : UInt64) (z : Int)
    (hw : decode w = .fin z) (hq : (num : ℚ) / den = valQ z) (h : roundRat num den = .ok w') :
    decode w' = .fin z := by
  obtain ⟨z0, hz0, hn⟩ := roundRat_nearest num den w' h
  have h1 := hn w z hw
  rw [hq, sub_self, abs_zero] at h1
  have h2 : valQ z - valQ z0 = 0 := abs_eq_zero.mp (le_antisymm h1 (abs_nonneg _))
  have h3 : valQ z = valQ z0 := sub_eq_zero.mp h2
  unfold valQ at h3
  have h4 : (z : ℚ) = z0 := by
    have := scaleQ_pos
    field_simp at h3
    exact h3
  have h5 : z = z0 := by exact_mod_cast h4
  rw [h5]; exact hz0

/-- **monotone** over ℚ -/
theorem roundRat_mono_rat (n1 n2 : Int) (d1 d2 : Nat) (h1 : 0 < d1) (h2 : 0 < d2)
    (h : (n1 : ℚ) / d1 ≤ (n2 : ℚ) / d2) : Ext.le (roundRat n1 d1).ext (roundRat n2 d2).ext = true := by
  apply roundRat_mono n1 n2 d1 d2 h1 h2
  have hd1 : (0 : ℚ) < d1 := by exact_mod_cast h1
  have hd2 : (0 : ℚ) < d2 := by exact_mod_cast h2
  rw [div_le_div_iff₀ hd1 hd2] at h
  exact_mod_cast h

/-- equal rationals round alike -/
theorem roundRat_congr_rat (n1 n2 : Int) (d1 d2 : Nat) (h1 : 0 < d1) (h2 : 0 < d2)
    (h : (n1 : ℚ) / d1 = (n2 : ℚ) / d2) : roundRat n1 d1 = roundRat n2 d2 := by
  apply roundRat_congr n1 n2 d1 d2 h1 h2
  have hd1 : (d1 : ℚ) ≠ 0 := by exact_mod_cast (Nat.ne_of_gt h1)
  have hd2 : (d2 : ℚ) ≠ 0 := by exact_mod_cast (Nat.ne_of_gt h2)
  rw [div_eq_div_iff hd1 hd2] at h
  exact_mod_cast h

/-! ## the tie rule, on the bit pattern -/

/-- an even significand (in units of the binade's spacing) gives an even bit pattern -/
theorem encodeNat_even (neg : Bool) (k s : Nat) (hk : k ≤ 2 ^ 53) (hk2 : k % 2 = 0) (hr : Rep (k * 2 ^ s)) :
    encodeNat neg (k * 2 ^ s) % 2 = 0 := by
  have hZ2 : (k * 2 ^ s) % 2 = 0 := by
    rw [Nat.mul_mod, hk2]; simp
  rcases Nat.lt_or_ge (k * 2 ^ s) (2 ^ 52) with h | h
  · unfold encodeNat; rw [if_pos h]; cases neg <;> simp <;> omega
  · obtain ⟨m, h1, h2, h3, h4, e⟩ := encodeNat_normal neg _ hr h
    rw [e]
    have hm : m % 2 = 0 := by
      generalize (k * 2 ^ s).log2 - 52 = sh at h3
      rcases Nat.le_total sh s with hle | hle
      · obtain ⟨t, ht⟩ := Nat.le.dest hle
        have e1 : k * 2 ^ t * 2 ^ sh = m * 2 ^ sh := by
          rw [← h3, ← ht, Nat.pow_add]; ring
        have e2 : m = k * 2 ^ t := (Nat.eq_of_mul_eq_mul_right (Nat.two_pow_pos _) e1).symm
        rw [e2, Nat.mul_mod, hk2]; simp
      · obtain ⟨t, ht⟩ := Nat.le.dest hle
        have e1 : k * 2 ^ s = m * 2 ^ t * 2 ^ s := by
          rw [h3, ← ht, Nat.pow_add]; ring
        have e2 : k = m * 2 ^ t := Nat.eq_of_mul_eq_mul_right (Nat.two_pow_pos _) e1
        rcases Nat.eq_zero_or_pos t with h0 | h0
        · subst h0; simp at e2; omega
        · have h5 : 2 ^ 1 ≤ 2 ^ t := Nat.pow_le_pow_right (by decide) h0
          have h6 : m * 2 ^ 1 ≤ m * 2 ^ t := Nat.mul_le_mul_left _ h5
          omega
    cases neg <;> simp <;> omega

/-- **ties to even**: when a binary64 number other than the result is equally near to `num / den`, the lowest bit of
    the result is 0 (its significand is even) -/
theorem roundRat_tie_even (num : Int) (den : Nat) (w : UInt64) (h : roundRat num den = .ok w)
    (z : Int) (hz : RepU z.natAbs) (hne : z ≠ sval num den)
    (htie : ((scale : Int) * num - sval num den * den).natAbs = ((scale : Int) * num - z * den).natAbs) :
    w.toNat % 2 = 0 := by
  obtain ⟨hd, hl, hw⟩ := roundRat_ok h
  have hrep := roundMag_rep _ _ hd hl
  -- the tie on magnitudes
  have H0 := roundMag_nearest num.natAbs den hd 0 repU_zero
  unfold adiff at H0
  rw [Nat.zero_mul] at H0
  have hD : (0 : Int) < den := by exact_mod_cast hd
  have eA : (scale : Int) * num = if num < 0 then -((scale * num.natAbs : Nat) : Int) else ((scale * num.natAbs : Nat) : Int) := by
    split
    · have : (num.natAbs : Int) = -num := by omega
      rw [Nat.cast_mul, this]; ring
    · have : (num.natAbs : Int) = num := by omega
      rw [Nat.cast_mul, this]
  have eP : sval num den * den = if num < 0 then -((roundMag num.natAbs den * den : Nat) : Int)
      else ((roundMag num.natAbs den * den : Nat) : Int) := by
    unfold sval; split <;> push_cast <;> ring
  have eQ : z * den = if z < 0 then -((z.natAbs * den : Nat) : Int) else ((z.natAbs * den : Nat) : Int) := by
    split
    · have : (z.natAbs : Int) = -z := by omega
      rw [Nat.cast_mul, this]; ring
    · have : (z.natAbs : Int) = z := by omega
      rw [Nat.cast_mul, this]
  have hzpos : z ≠ 0 → 0 < z.natAbs * den := fun h0 => Nat.mul_pos (by omega) hd
  have hmag : z.natAbs ≠ roundMag num.natAbs den ∧
      adiff (scale * num.natAbs) (roundMag num.natAbs den * den) = adiff (scale * num.natAbs) (z.natAbs * den) := by
    have hne1 : z.natAbs = roundMag num.natAbs den → (num < 0 ↔ z < 0) → False := by
      intro e1 e2
      apply hne
      unfold sval
      by_cases hn : num < 0
      · rw [if_pos hn, ← e1]; have := e2.mp hn; omega
      · rw [if_neg hn, ← e1]; have : ¬ z < 0 := fun h => hn (e2.mpr h); omega
    have hne2 : z = 0 → roundMag num.natAbs den = 0 → False := by
      intro e1 e2
      apply hne
      unfold sval; rw [e1, e2]; split <;> rfl
    have hPQ : z.natAbs * den = roundMag num.natAbs den * den → z.natAbs = roundMag num.natAbs den :=
      Nat.eq_of_mul_eq_mul_right hd
    unfold adiff
    rw [eA, eP, eQ] at htie
    clear eA eP eQ
    generalize scale * num.natAbs = A at *
    generalize roundMag num.natAbs den * den = P at *
    generalize z.natAbs * den = Q at *
    by_cases hn : num < 0 <;> by_cases hzn : z < 0
    · rw [if_pos hn, if_pos hn, if_pos hzn] at htie
      refine ⟨fun e => hne1 e ⟨fun _ => hzn, fun _ => hn⟩, ?_⟩
      omega
    · rw [if_pos hn, if_pos hn, if_neg hzn] at htie
      by_cases hz0 : z = 0
      · refine ⟨fun e => hne2 hz0 (by omega), ?_⟩
        have hQ0 : ¬ 0 < Q := fun hq => by omega
        omega
      · have := hzpos hz0
        exfalso; omega
    · rw [if_neg hn, if_neg hn, if_pos hzn] at htie
      have := hzpos (by omega)
      exfalso; omega
    · rw [if_neg hn, if_neg hn, if_neg hzn] at htie
      refine ⟨fun e => hne1 e ⟨fun h => absurd h hn, fun h => absurd h hzn⟩, ?_⟩
      omega
  have hk := roundMag_tie num.natAbs den hd z.natAbs hz hmag.1 hmag.2
  rw [hw, encodeScaled_eq, UInt64.toNat_ofNat_of_lt' (encodeNat_lt _ _ hrep)]
  rw [roundMag_eq] at hrep ⊢
  exact encodeNat_even _ _ _ (signif_le _ _ hd) hk hrep

/-! ## overflow happens exactly from `2^1024 - 2^970` on -/

theorem pow2098 : (2 : Nat) ^ 2098 = 2 ^ 54 * 2 ^ 2044 := by
  rw [← Nat.pow_add]

set_option exponentiation.threshold 2200 in
theorem pow2045 : (2 : Nat) ^ 2045 = 2 * 2 ^ 2044 := by
  rw [show (2045 : Nat) = 2044 + 1 by rfl, Nat.pow_succ, Nat.mul_comm]

set_option exponentiation.threshold 2200 in
/-- overflow iff `|num / den| ≥ 2^1024 - 2^970` (the midpoint between the largest finite double and `2^1024`;
    the midpoint itself rounds to even, i.e. up); scaled by `2^1074`: `(2^54 - 1) * 2^2044` -/
theorem roundMag_overflow_iff (n d : Nat) (hd : 0 < d) :
    2098 ≤ (roundMag n d).log2 ↔ (2 ^ 54 - 1) * (2 ^ 2044 * d) ≤ scale * n := by
  have hlog : 2098 ≤ (roundMag n d).log2 ↔ 2 ^ 2098 ≤ roundMag n d := by
    have := log2_lt_iff (roundMag n d) 2098 (by decide)
    omega
  rw [hlog, pow2098]
  constructor
  · intro hZ
    have hmax : RepU ((2 ^ 53 - 1) * 2 ^ 2045) := ⟨2 ^ 53 - 1, 2045, by decide, rfl⟩
    have hn := roundMag_nearest n d hd _ hmax
    have h1 : 2 ^ 54 * (2 ^ 2044 * d) ≤ roundMag n d * d := by
      rw [← Nat.mul_assoc]; exact Nat.mul_le_mul_right d hZ
    have h2 : (2 ^ 53 - 1) * 2 ^ 2045 * d = (2 ^ 54 - 2) * (2 ^ 2044 * d) := by
      rw [pow2045]; generalize (2 : Nat) ^ 2044 = P; ring
    rw [h2] at hn
    unfold adiff at hn
    generalize scale * n = a at *
    generalize roundMag n d * d = X at *
    generalize 2 ^ 2044 * d = E at *
    omega
  · intro hT
    apply Nat.le_of_not_gt
    intro hlt
    rw [← pow2098] at hlt
    have hl : (roundMag n d).log2 < 2098 := (log2_lt_iff _ 2098 (by decide)).mpr hlt
    rw [roundMag_eq] at hlt
    revert hT hlt
    generalize scale * n = a
    intro hT hlt
    have hE : 0 < 2 ^ 2044 * d := Nat.mul_pos (Nat.pow_pos (n := 2044) (Nat.succ_pos 1)) hd
    -- the spacing is `2^2045`
    have hs1 : 2045 ≤ quantum a d := by
      unfold quantum
      have h1 : 2 ^ 2097 * d ≤ a := by
        have : (2 : Nat) ^ 2097 = 2 ^ 53 * 2 ^ 2044 := by rw [← Nat.pow_add]
        rw [this, Nat.mul_assoc]
        refine Nat.le_trans (Nat.mul_le_mul_right _ ?_) hT
        decide
      have h2 : 2 ^ 2097 ≤ a / d := (Nat.le_div_iff_mul_le hd).mpr h1
      have h3 : a / d ≠ 0 := by
        have : 0 < 2 ^ 2097 := Nat.two_pow_pos _
        omega
      have := (Nat.le_log2 h3).mpr h2
      omega
    have hk2 := le_signif a d (by omega)
    have hs2 : quantum a d = 2045 := by
      have h3 : 2 ^ 52 * 2 ^ quantum a d ≤ rneDiv a (d * 2 ^ quantum a d) * 2 ^ quantum a d :=
        Nat.mul_le_mul_right _ hk2
      rw [← Nat.pow_add] at h3
      have h4 : 52 + quantum a d < 2098 := (Nat.pow_lt_pow_iff_right (by decide)).mp (Nat.lt_of_le_of_lt h3 hlt)
      omega
    rw [hs2] at hlt
    have hk3 : rneDiv a (d * 2 ^ 2045) < 2 ^ 53 := by
      have : (2 : Nat) ^ 2098 = 2 ^ 53 * 2 ^ 2045 := by rw [← Nat.pow_add]
      rw [this] at hlt
      exact Nat.lt_of_mul_lt_mul_right hlt
    have hb : d * 2 ^ 2045 = 2 * (2 ^ 2044 * d) := by rw [pow2045]; ring
    rw [hb] at hk3
    have hbpos : 0 < 2 * (2 ^ 2044 * d) := by omega
    have hq : 2 ^ 53 - 1 ≤ a / (2 * (2 ^ 2044 * d)) := by
      rw [Nat.le_div_iff_mul_le hbpos]
      have : (2 ^ 53 - 1) * (2 * (2 ^ 2044 * d)) = (2 ^ 54 - 2) * (2 ^ 2044 * d) := by ring
      rw [this]
      refine Nat.le_trans (Nat.mul_le_mul_right _ ?_) hT
      decide
    have hkq := le_rneDiv a (2 * (2 ^ 2044 * d))
    have hdm := Nat.div_add_mod a (2 * (2 ^ 2044 * d))
    have hqe : a / (2 * (2 ^ 2044 * d)) = 2 ^ 53 - 1 := by omega
    rw [hqe] at hdm
    have hbq : 2 * (2 ^ 2044 * d) * (2 ^ 53 - 1) = (2 ^ 54 - 2) * (2 ^ 2044 * d) := by ring
    rw [hbq] at hdm
    rcases rneDiv_cases a (2 * (2 ^ 2044 * d)) with ⟨e, h5, h6⟩ | ⟨e, _, _⟩
    · rw [hqe] at h6
      generalize 2 ^ 2044 * d = E at *
      generalize a % (2 * E) = r at *
      have : 2 * r = 2 * E := by omega
      have := h6 this
      omega
    · omega

/-- **overflow** of `roundRat`: exactly from the midpoint `2^1024 - 2^970` on (scaled: `(2^54 - 1) * 2^2044`) -/
theorem roundRat_overflow_iff (num : Int) (den : Nat) (hd : 0 < den) :
    roundRat num den = .overflow (decide (num < 0)) ↔ (2 ^ 54 - 1) * (2 ^ 2044 * den) ≤ scale * num.natAbs := by
  rw [← roundMag_overflow_iff _ _ hd]
  unfold roundRat finish
  rw [if_neg (by omega)]
  constructor
  · intro h
    split at h
    · assumption
    · cases h
  · intro h
    rw [if_pos h]

theorem roundRat_overflow_sign {num : Int} {den : Nat} {neg : Bool} (h : roundRat num den = .overflow neg) :
    neg = decide (num < 0) := (roundRat_overflow h).2.2

/-- the same over ℚ -/
theorem roundRat_overflow_iff_rat (num : Int) (den : Nat) (hd : 0 < den) :
    roundRat num den = .overflow (decide (num < 0)) ↔ (2 ^ 1024 - 2 ^ 970 : ℚ) ≤ |(num : ℚ) / den| := by
  rw [roundRat_overflow_iff num den hd]
  have h1 : (0 : ℚ) < den := by exact_mod_cast hd
  have h2 := scaleQ_pos
  have hS : (scale : ℚ) = 2 ^ 1074 := by
    unfold scale; simp only [Nat.cast_pow, Nat.cast_ofNat]
  have e1 : (2 : ℚ) ^ 1024 * 2 ^ 1074 = 2 ^ 54 * 2 ^ 2044 := by rw [← pow_add, ← pow_add]
  have e2 : (2 : ℚ) ^ 970 * 2 ^ 1074 = 2 ^ 2044 := by rw [← pow_add]
  have habs : |(num : ℚ) / den| = ((num.natAbs : ℕ) : ℚ) / den := by
    rw [abs_div, abs_of_pos h1, Nat.cast_natAbs, Int.cast_abs]
  rw [habs, le_div_iff₀ h1]
  have hN : (2 ^ 54 - 1) * (2 ^ 2044 * den) ≤ scale * num.natAbs ↔
      2 ^ 54 * (2 ^ 2044 * den) ≤ scale * num.natAbs + 2 ^ 2044 * den := by
    generalize 2 ^ 2044 * den = E
    generalize scale * num.natAbs = a
    omega
  have hQ : 2 ^ 54 * (2 ^ 2044 * den) ≤ scale * num.natAbs + 2 ^ 2044 * den ↔
      (2 : ℚ) ^ 54 * ((2 : ℚ) ^ 2044 * den) ≤ (scale : ℚ) * (num.natAbs : ℚ) + (2 : ℚ) ^ 2044 * den := by
    rw [← Nat.cast_le (α := ℚ)]
    simp only [Nat.cast_mul, Nat.cast_pow, Nat.cast_add, Nat.cast_ofNat]
  rw [hN, hQ, hS]
  generalize (num.natAbs : ℚ) = N
  generalize (den : ℚ) = D at h1 ⊢
  generalize (2 : ℚ) ^ 1024 = A at e1 ⊢
  generalize (2 : ℚ) ^ 970 = B at e2 ⊢
  generalize (2 : ℚ) ^ 2044 = C at e1 e2 ⊢
  have hSp : (0 : ℚ) < 2 ^ 1074 := by rw [← hS]; exact h2
  generalize (2 : ℚ) ^ 1074 = S at e1 e2 hSp ⊢
  have key : (A - B) * D * S = 2 ^ 54 * (C * D) - C * D := by
    calc (A - B) * D * S = (A * S - B * S) * D := by ring
      _ = (2 ^ 54 * C - C) * D := by rw [e1, e2]
      _ = 2 ^ 54 * (C * D) - C * D := by ring
  constructor
  · intro h
    have h3 : (A - B) * D * S ≤ N * S := by rw [key]; linarith
    exact le_of_mul_le_mul_right h3 hSp
  · intro h
    have h3 : (A - B) * D * S ≤ N * S := mul_le_mul_of_nonneg_right h (le_of_lt hSp)
    rw [key] at h3; linarith

/-! ## consequences used by the models -/

/-- exactness, constructive form: a rational equal to the finite magnitude `z` (scaled) rounds to the double with
    that magnitude and the sign of the numerator -/
theorem roundRat_of_rep (num : Int) (den : Nat) (hd : 0 < den) (z : Nat) (hz : Rep z)
    (h : scale * num.natAbs = z * den) :
    roundRat num den = .ok (encodeScaled (decide (num < 0)) z) ∧
      decode (encodeScaled (decide (num < 0)) z) = .fin (if num < 0 then -(z : Int) else z) := by
  have hmag := roundMag_exact num.natAbs den hd z hz.repU h
  constructor
  · unfold roundRat finish
    rw [if_neg (by omega), hmag, if_neg (by have := rep_log2 _ hz; omega)]
  · rw [decode_encodeScaled _ _ hz]
    by_cases hn : num < 0 <;> simp [hn]

set_option exponentiation.threshold 2200 in
/-- integers up to `2^53` in magnitude are doubles: `float(n)` is exact there -/
theorem roundRat_int_small (n : Int) (h : n.natAbs ≤ 2 ^ 53) :
    ∃ w, roundRat n 1 = .ok w ∧ decode w = .fin (n * scale) := by
  have hz : Rep (n.natAbs * scale) := by
    rcases Nat.lt_or_ge n.natAbs (2 ^ 53) with h1 | h1
    · exact ⟨n.natAbs, 1074, h1, by decide, rfl⟩
    · have e : n.natAbs = 2 ^ 53 := Nat.le_antisymm h h1
      refine ⟨2 ^ 52, 1075, by decide, by decide, ?_⟩
      rw [e]; unfold scale
      rw [← Nat.pow_add, ← Nat.pow_add]
  obtain ⟨h1, h2⟩ := roundRat_of_rep n 1 (by decide) _ hz (by rw [Nat.mul_one, Nat.mul_comm])
  refine ⟨_, h1, ?_⟩
  rw [h2]
  by_cases hn : n < 0
  · rw [if_pos hn]; congr 1
    have : (n.natAbs : Int) = -n := by omega
    rw [Nat.cast_mul, this]; ring
  · rw [if_neg hn]; congr 1
    have : (n.natAbs : Int) = n := by omega
    rw [Nat.cast_mul, this]

/-- a finite result is never an infinity or a NaN, an overflow never a finite value: `Rounded.ext` of a result
    is `.fin` exactly for `.ok` -/
theorem roundRat_ok_fin {num : Int} {den : Nat} {w : UInt64} (h : roundRat num den = .ok w) :
    ∃ z, decode w = .fin z := ⟨_, roundRat_decode h⟩

/-! ## `floatOfInt` and `divBits` in terms of `roundRat` -/

theorem floatOfInt_eq (i : Int) :
    floatOfInt i = match roundRat i 1 with | .ok w => some w | _ => none := by
  unfold floatOfInt roundRat
  rw [if_neg Nat.one_ne_zero]
  generalize finish (decide (i < 0)) (roundMag i.natAbs 1) = r
  cases r <;> rfl

theorem floatOfInt_some {i : Int} {w : UInt64} : floatOfInt i = some w ↔ roundRat i 1 = .ok w := by
  rw [floatOfInt_eq]
  cases roundRat i 1 <;> simp

/-- `float(i)` is exact up to `2^53` -/
theorem floatOfInt_small (i : Int) (h : i.natAbs ≤ 2 ^ 53) :
    ∃ w, floatOfInt i = some w ∧ decode w = .fin (i * scale) := by
  obtain ⟨w, h1, h2⟩ := roundRat_int_small i h
  exact ⟨w, floatOfInt_some.mpr h1, h2⟩

/-- the value of `float(i)` in general: the signed rounding of `i / 1` -/
theorem floatOfInt_decode {i : Int} {w : UInt64} (h : floatOfInt i = some w) : decode w = .fin (sval i 1) :=
  roundRat_decode (floatOfInt_some.mp h)

theorem roundRat_zero (den : Nat) (hd : 0 < den) : roundRat 0 den = .ok 0 := by
  have h := roundRat_of_rep 0 den hd 0 ⟨0, 0, by decide, by decide, by simp⟩ (by simp)
  have e : encodeScaled (decide ((0 : Int) < 0)) 0 = 0 := by decide
  rw [e] at h; exact h.1

/-- one IEEE division by a positive finite double: the exact quotient of the two exact values, rounded once
    (overflow = the infinity) -/
theorem divBits_pos (f g : UInt64) (a b : Int) (hf : decode f = .fin a) (hg : decode g = .fin b) (hb : 0 < b) :
    decode (divBits f g) = (roundRat a b.toNat).ext := by
  have hbn : b.natAbs = b.toNat := by omega
  have hbpos : 0 < b.toNat := by omega
  have hsg : signBit g = false := by
    rw [signBit_decode g b hg (by omega)]; simp; omega
  unfold divBits
  simp only [hf, hg, hsg]
  rw [if_neg (by omega)]
  by_cases ha : a = 0
  · subst ha
    rw [if_pos rfl, roundRat_zero _ hbpos]
    cases signBit f <;> decide
  · rw [if_neg ha]
    have hsf : signBit f = decide (a < 0) := signBit_decode f a hf ha
    have hneg : (signBit f != false) = decide (a < 0) := by rw [hsf]; cases decide (a < 0) <;> rfl
    rw [hneg, hbn]
    have harg : (if decide (a < 0) = true then -(a.natAbs : Int) else (a.natAbs : Int)) = a := by
      by_cases h : a < 0
      · rw [decide_eq_true h, if_pos rfl]; omega
      · rw [decide_eq_false h]; simp only [Bool.false_eq_true, if_false]; omega
    rw [harg]
    cases hr : roundRat a b.toNat with
    | ok w => rfl
    | overflow neg =>
      have hs := roundRat_overflow_sign hr
      rw [hs]
      by_cases h : a < 0 <;> simp [h, Rounded.ext] <;> decide
    | zeroDen => exact absurd hr (roundRat_total _ _ hbpos)

/-- ... bit for bit when the quotient does not overflow and the dividend is not zero -/
theorem divBits_pos_bits (f g : UInt64) (a b : Int) (hf : decode f = .fin a) (hg : decode g = .fin b) (hb : 0 < b)
    (ha : a ≠ 0) (w : UInt64) (hr : roundRat a b.toNat = .ok w) : divBits f g = w := by
  have hbn : b.natAbs = b.toNat := by omega
  have hsg : signBit g = false := by
    rw [signBit_decode g b hg (by omega)]; simp; omega
  unfold divBits
  simp only [hf, hg, hsg]
  rw [if_neg (by omega), if_neg ha]
  have hsf : signBit f = decide (a < 0) := signBit_decode f a hf ha
  have hneg : (signBit f != false) = decide (a < 0) := by rw [hsf]; cases decide (a < 0) <;> rfl
  rw [hneg, hbn]
  have harg : (if decide (a < 0) = true then -(a.natAbs : Int) else (a.natAbs : Int)) = a := by
    by_cases h : a < 0
    · rw [decide_eq_true h, if_pos rfl]; omega
    · rw [decide_eq_false h]; simp only [Bool.false_eq_true, if_false]; omega
  rw [harg, hr]

/-! ## tests (examples only; nothing depends on them): 195 inputs against CPython's `int / int`
(boundary cases: powers of two +-1, halfway cases, subnormals, the overflow threshold, decimals, random big rationals),
generated once by a Python script and checked by kernel evaluation -/

def tests : List (Int × Nat × Rounded) := [
  (1, 1, .ok 0x3FF0000000000000),
  (-1, 1, .ok 0xBFF0000000000000),
  (1, 1, .ok 0x3FF0000000000000),
  (2, 1, .ok 0x4000000000000000),
  (-2, 1, .ok 0xC000000000000000),
  (1, 2, .ok 0x3FE0000000000000),
  (3, 1, .ok 0x4008000000000000),
  (-3, 1, .ok 0xC008000000000000),
  (1, 3, .ok 0x3FD5555555555555),
  (3, 1, .ok 0x4008000000000000),
  (-3, 1, .ok 0xC008000000000000),
  (1, 3, .ok 0x3FD5555555555555),
  (4, 1, .ok 0x4010000000000000),
  (-4, 1, .ok 0xC010000000000000),
  (1, 4, .ok 0x3FD0000000000000),
  (5, 1, .ok 0x4014000000000000),
  (-5, 1, .ok 0xC014000000000000),
  (1, 5, .ok 0x3FC999999999999A),
  (4503599627370495, 1, .ok 0x432FFFFFFFFFFFFE),
  (-4503599627370495, 1, .ok 0xC32FFFFFFFFFFFFE),
  (1, 4503599627370495, .ok 0x3CB0000000000001),
  (4503599627370496, 1, .ok 0x4330000000000000),
  (-4503599627370496, 1, .ok 0xC330000000000000),
  (1, 4503599627370496, .ok 0x3CB0000000000000),
  (4503599627370497, 1, .ok 0x4330000000000001),
  (-4503599627370497, 1, .ok 0xC330000000000001),
  (1, 4503599627370497, .ok 0x3CAFFFFFFFFFFFFE),
  (9007199254740991, 1, .ok 0x433FFFFFFFFFFFFF),
  (-9007199254740991, 1, .ok 0xC33FFFFFFFFFFFFF),
  (1, 9007199254740991, .ok 0x3CA0000000000001),
  (9007199254740992, 1, .ok 0x4340000000000000),
  (-9007199254740992, 1, .ok 0xC340000000000000),
  (1, 9007199254740992, .ok 0x3CA0000000000000),
  (9007199254740993, 1, .ok 0x4340000000000000),
  (-9007199254740993, 1, .ok 0xC340000000000000),
  (1, 9007199254740993, .ok 0x3C9FFFFFFFFFFFFF),
  (18014398509481983, 1, .ok 0x4350000000000000),
  (-18014398509481983, 1, .ok 0xC350000000000000),
  (1, 18014398509481983, .ok 0x3C90000000000000),
  (18014398509481984, 1, .ok 0x4350000000000000),
  (-18014398509481984, 1, .ok 0xC350000000000000),
  (1, 18014398509481984, .ok 0x3C90000000000000),
  (18014398509481985, 1, .ok 0x4350000000000000),
  (-18014398509481985, 1, .ok 0xC350000000000000),
  (1, 18014398509481985, .ok 0x3C90000000000000),
  (9223372036854775807, 1, .ok 0x43E0000000000000),
  (-9223372036854775807, 1, .ok 0xC3E0000000000000),
  (1, 9223372036854775807, .ok 0x3C00000000000000),
  (9223372036854775808, 1, .ok 0x43E0000000000000),
  (-9223372036854775808, 1, .ok 0xC3E0000000000000),
  (1, 9223372036854775808, .ok 0x3C00000000000000),
  (9223372036854775809, 1, .ok 0x43E0000000000000),
  (-9223372036854775809, 1, .ok 0xC3E0000000000000),
  (1, 9223372036854775809, .ok 0x3C00000000000000),
  (18446744073709551615, 1, .ok 0x43F0000000000000),
  (-18446744073709551615, 1, .ok 0xC3F0000000000000),
  (1, 18446744073709551615, .ok 0x3BF0000000000000),
  (18446744073709551616, 1, .ok 0x43F0000000000000),
  (-18446744073709551616, 1, .ok 0xC3F0000000000000),
  (1, 18446744073709551616, .ok 0x3BF0000000000000),
  (18446744073709551617, 1, .ok 0x43F0000000000000),
  (-18446744073709551617, 1, .ok 0xC3F0000000000000),
  (1, 18446744073709551617, .ok 0x3BF0000000000000),
  (1267650600228229401496703205375, 1, .ok 0x4630000000000000),
  (-1267650600228229401496703205375, 1, .ok 0xC630000000000000),
  (1, 1267650600228229401496703205375, .ok 0x39B0000000000000),
  (1267650600228229401496703205376, 1, .ok 0x4630000000000000),
  (-1267650600228229401496703205376, 1, .ok 0xC630000000000000),
  (1, 1267650600228229401496703205376, .ok 0x39B0000000000000),
  (1267650600228229401496703205377, 1, .ok 0x4630000000000000),
  (-1267650600228229401496703205377, 1, .ok 0xC630000000000000),
  (1, 1267650600228229401496703205377, .ok 0x39B0000000000000),
  (9979201547673599058281863565184192830337256302177287707512736212186059459344820328924789827463178505446712234220962476219862189941967968303695858991424157101600028364755428382587688607221814935913266783722719619966654052275604351944444276342240220787535604534378780208211792476151720049639423, 1, .ok 0x7C90000000000000),
  (-9979201547673599058281863565184192830337256302177287707512736212186059459344820328924789827463178505446712234220962476219862189941967968303695858991424157101600028364755428382587688607221814935913266783722719619966654052275604351944444276342240220787535604534378780208211792476151720049639423, 1, .ok 0xFC90000000000000),
  (1, 9979201547673599058281863565184192830337256302177287707512736212186059459344820328924789827463178505446712234220962476219862189941967968303695858991424157101600028364755428382587688607221814935913266783722719619966654052275604351944444276342240220787535604534378780208211792476151720049639423, .ok 0x0350000000000000),
  (9979201547673599058281863565184192830337256302177287707512736212186059459344820328924789827463178505446712234220962476219862189941967968303695858991424157101600028364755428382587688607221814935913266783722719619966654052275604351944444276342240220787535604534378780208211792476151720049639424, 1, .ok 0x7C90000000000000),
  (-9979201547673599058281863565184192830337256302177287707512736212186059459344820328924789827463178505446712234220962476219862189941967968303695858991424157101600028364755428382587688607221814935913266783722719619966654052275604351944444276342240220787535604534378780208211792476151720049639424, 1, .ok 0xFC90000000000000),
  (1, 9979201547673599058281863565184192830337256302177287707512736212186059459344820328924789827463178505446712234220962476219862189941967968303695858991424157101600028364755428382587688607221814935913266783722719619966654052275604351944444276342240220787535604534378780208211792476151720049639424, .ok 0x0350000000000000),
  (9979201547673599058281863565184192830337256302177287707512736212186059459344820328924789827463178505446712234220962476219862189941967968303695858991424157101600028364755428382587688607221814935913266783722719619966654052275604351944444276342240220787535604534378780208211792476151720049639425, 1, .ok 0x7C90000000000000),
  (-9979201547673599058281863565184192830337256302177287707512736212186059459344820328924789827463178505446712234220962476219862189941967968303695858991424157101600028364755428382587688607221814935913266783722719619966654052275604351944444276342240220787535604534378780208211792476151720049639425, 1, .ok 0xFC90000000000000),
  (1, 9979201547673599058281863565184192830337256302177287707512736212186059459344820328924789827463178505446712234220962476219862189941967968303695858991424157101600028364755428382587688607221814935913266783722719619966654052275604351944444276342240220787535604534378780208211792476151720049639425, .ok 0x0350000000000000),
  (19958403095347198116563727130368385660674512604354575415025472424372118918689640657849579654926357010893424468441924952439724379883935936607391717982848314203200056729510856765175377214443629871826533567445439239933308104551208703888888552684480441575071209068757560416423584952303440099278847, 1, .ok 0x7CA0000000000000),
  (-19958403095347198116563727130368385660674512604354575415025472424372118918689640657849579654926357010893424468441924952439724379883935936607391717982848314203200056729510856765175377214443629871826533567445439239933308104551208703888888552684480441575071209068757560416423584952303440099278847, 1, .ok 0xFCA0000000000000),
  (1, 19958403095347198116563727130368385660674512604354575415025472424372118918689640657849579654926357010893424468441924952439724379883935936607391717982848314203200056729510856765175377214443629871826533567445439239933308104551208703888888552684480441575071209068757560416423584952303440099278847, .ok 0x0340000000000000),
  (19958403095347198116563727130368385660674512604354575415025472424372118918689640657849579654926357010893424468441924952439724379883935936607391717982848314203200056729510856765175377214443629871826533567445439239933308104551208703888888552684480441575071209068757560416423584952303440099278848, 1, .ok 0x7CA0000000000000),
  (-19958403095347198116563727130368385660674512604354575415025472424372118918689640657849579654926357010893424468441924952439724379883935936607391717982848314203200056729510856765175377214443629871826533567445439239933308104551208703888888552684480441575071209068757560416423584952303440099278848, 1, .ok 0xFCA0000000000000),
  (1, 19958403095347198116563727130368385660674512604354575415025472424372118918689640657849579654926357010893424468441924952439724379883935936607391717982848314203200056729510856765175377214443629871826533567445439239933308104551208703888888552684480441575071209068757560416423584952303440099278848, .ok 0x0340000000000000),
  (19958403095347198116563727130368385660674512604354575415025472424372118918689640657849579654926357010893424468441924952439724379883935936607391717982848314203200056729510856765175377214443629871826533567445439239933308104551208703888888552684480441575071209068757560416423584952303440099278849, 1, .ok 0x7CA0000000000000),
  (-19958403095347198116563727130368385660674512604354575415025472424372118918689640657849579654926357010893424468441924952439724379883935936607391717982848314203200056729510856765175377214443629871826533567445439239933308104551208703888888552684480441575071209068757560416423584952303440099278849, 1, .ok 0xFCA0000000000000),
  (1, 19958403095347198116563727130368385660674512604354575415025472424372118918689640657849579654926357010893424468441924952439724379883935936607391717982848314203200056729510856765175377214443629871826533567445439239933308104551208703888888552684480441575071209068757560416423584952303440099278849, .ok 0x0340000000000000),
  (89884656743115795386465259539451236680898848947115328636715040578866337902750481566354238661203768010560056939935696678829394884407208311246423715319737062188883946712432742638151109800623047059726541476042502884419075341171231440736956555270413618581675255342293149119973622969239858152417678164812112068607, 1, .ok 0x7FE0000000000000),
  (-89884656743115795386465259539451236680898848947115328636715040578866337902750481566354238661203768010560056939935696678829394884407208311246423715319737062188883946712432742638151109800623047059726541476042502884419075341171231440736956555270413618581675255342293149119973622969239858152417678164812112068607, 1, .ok 0xFFE0000000000000),
  (1, 89884656743115795386465259539451236680898848947115328636715040578866337902750481566354238661203768010560056939935696678829394884407208311246423715319737062188883946712432742638151109800623047059726541476042502884419075341171231440736956555270413618581675255342293149119973622969239858152417678164812112068607, .ok 0x0008000000000000),
  (89884656743115795386465259539451236680898848947115328636715040578866337902750481566354238661203768010560056939935696678829394884407208311246423715319737062188883946712432742638151109800623047059726541476042502884419075341171231440736956555270413618581675255342293149119973622969239858152417678164812112068608, 1, .ok 0x7FE0000000000000),
  (-89884656743115795386465259539451236680898848947115328636715040578866337902750481566354238661203768010560056939935696678829394884407208311246423715319737062188883946712432742638151109800623047059726541476042502884419075341171231440736956555270413618581675255342293149119973622969239858152417678164812112068608, 1, .ok 0xFFE0000000000000),
  (1, 89884656743115795386465259539451236680898848947115328636715040578866337902750481566354238661203768010560056939935696678829394884407208311246423715319737062188883946712432742638151109800623047059726541476042502884419075341171231440736956555270413618581675255342293149119973622969239858152417678164812112068608, .ok 0x0008000000000000),
  (89884656743115795386465259539451236680898848947115328636715040578866337902750481566354238661203768010560056939935696678829394884407208311246423715319737062188883946712432742638151109800623047059726541476042502884419075341171231440736956555270413618581675255342293149119973622969239858152417678164812112068609, 1, .ok 0x7FE0000000000000),
  (-89884656743115795386465259539451236680898848947115328636715040578866337902750481566354238661203768010560056939935696678829394884407208311246423715319737062188883946712432742638151109800623047059726541476042502884419075341171231440736956555270413618581675255342293149119973622969239858152417678164812112068609, 1, .ok 0xFFE0000000000000),
  (1, 89884656743115795386465259539451236680898848947115328636715040578866337902750481566354238661203768010560056939935696678829394884407208311246423715319737062188883946712432742638151109800623047059726541476042502884419075341171231440736956555270413618581675255342293149119973622969239858152417678164812112068609, .ok 0x0008000000000000),
  (1, 22471164185778948846616314884862809170224712236778832159178760144716584475687620391588559665300942002640014234983924169707348721101802077811605928829934265547220986678108185659537777450155761764931635369010625721104768835292807860184239138817603404645418813835573287279993405742309964538104419541203028017152, .ok 0x0020000000000000),
  (3, 22471164185778948846616314884862809170224712236778832159178760144716584475687620391588559665300942002640014234983924169707348721101802077811605928829934265547220986678108185659537777450155761764931635369010625721104768835292807860184239138817603404645418813835573287279993405742309964538104419541203028017152, .ok 0x0038000000000000),
  (-1, 22471164185778948846616314884862809170224712236778832159178760144716584475687620391588559665300942002640014234983924169707348721101802077811605928829934265547220986678108185659537777450155761764931635369010625721104768835292807860184239138817603404645418813835573287279993405742309964538104419541203028017152, .ok 0x8020000000000000),
  (9007199254740993, 101201126653655309176247673359458653524778324882071059178450679013715169783997673445980191850718562247593538932158405955694904368692896738433506699970369254960758712138283180682233453871046608170619883839236372534281003741712346349309051677824579778170405028256179384776166707307615251266093163754323003131653853870546747392, .ok 0x0030000000000000),
  (4503599627370497, 202402253307310618352495346718917307049556649764142118356901358027430339567995346891960383701437124495187077864316811911389808737385793476867013399940738509921517424276566361364466907742093216341239767678472745068562007483424692698618103355649159556340810056512358769552333414615230502532186327508646006263307707741093494784, .ok 0x0010000000000001),
  (1, 44942328371557897693232629769725618340449424473557664318357520289433168951375240783177119330601884005280028469967848339414697442203604155623211857659868531094441973356216371319075554900311523529863270738021251442209537670585615720368478277635206809290837627671146574559986811484619929076208839082406056034304, .ok 0x0010000000000000),
  (3, 44942328371557897693232629769725618340449424473557664318357520289433168951375240783177119330601884005280028469967848339414697442203604155623211857659868531094441973356216371319075554900311523529863270738021251442209537670585615720368478277635206809290837627671146574559986811484619929076208839082406056034304, .ok 0x0028000000000000),
  (-1, 44942328371557897693232629769725618340449424473557664318357520289433168951375240783177119330601884005280028469967848339414697442203604155623211857659868531094441973356216371319075554900311523529863270738021251442209537670585615720368478277635206809290837627671146574559986811484619929076208839082406056034304, .ok 0x8010000000000000),
  (9007199254740993, 202402253307310618352495346718917307049556649764142118356901358027430339567995346891960383701437124495187077864316811911389808737385793476867013399940738509921517424276566361364466907742093216341239767678472745068562007483424692698618103355649159556340810056512358769552333414615230502532186327508646006263307707741093494784, .ok 0x0020000000000000),
  (4503599627370497, 404804506614621236704990693437834614099113299528284236713802716054860679135990693783920767402874248990374155728633623822779617474771586953734026799881477019843034848553132722728933815484186432682479535356945490137124014966849385397236206711298319112681620113024717539104666829230461005064372655017292012526615415482186989568, .ok 0x0008000000000000),
  (1, 89884656743115795386465259539451236680898848947115328636715040578866337902750481566354238661203768010560056939935696678829394884407208311246423715319737062188883946712432742638151109800623047059726541476042502884419075341171231440736956555270413618581675255342293149119973622969239858152417678164812112068608, .ok 0x0008000000000000),
  (3, 89884656743115795386465259539451236680898848947115328636715040578866337902750481566354238661203768010560056939935696678829394884407208311246423715319737062188883946712432742638151109800623047059726541476042502884419075341171231440736956555270413618581675255342293149119973622969239858152417678164812112068608, .ok 0x0018000000000000),
  (-1, 89884656743115795386465259539451236680898848947115328636715040578866337902750481566354238661203768010560056939935696678829394884407208311246423715319737062188883946712432742638151109800623047059726541476042502884419075341171231440736956555270413618581675255342293149119973622969239858152417678164812112068608, .ok 0x8008000000000000),
  (9007199254740993, 404804506614621236704990693437834614099113299528284236713802716054860679135990693783920767402874248990374155728633623822779617474771586953734026799881477019843034848553132722728933815484186432682479535356945490137124014966849385397236206711298319112681620113024717539104666829230461005064372655017292012526615415482186989568, .ok 0x0010000000000000),
  (4503599627370497, 809609013229242473409981386875669228198226599056568473427605432109721358271981387567841534805748497980748311457267247645559234949543173907468053599762954039686069697106265445457867630968372865364959070713890980274248029933698770794472413422596638225363240226049435078209333658460922010128745310034584025053230830964373979136, .ok 0x0004000000000000),
  (1, 179769313486231590772930519078902473361797697894230657273430081157732675805500963132708477322407536021120113879871393357658789768814416622492847430639474124377767893424865485276302219601246094119453082952085005768838150682342462881473913110540827237163350510684586298239947245938479716304835356329624224137216, .ok 0x0004000000000000),
  (3, 179769313486231590772930519078902473361797697894230657273430081157732675805500963132708477322407536021120113879871393357658789768814416622492847430639474124377767893424865485276302219601246094119453082952085005768838150682342462881473913110540827237163350510684586298239947245938479716304835356329624224137216, .ok 0x000C000000000000),
  (-1, 179769313486231590772930519078902473361797697894230657273430081157732675805500963132708477322407536021120113879871393357658789768814416622492847430639474124377767893424865485276302219601246094119453082952085005768838150682342462881473913110540827237163350510684586298239947245938479716304835356329624224137216, .ok 0x8004000000000000),
  (9007199254740993, 809609013229242473409981386875669228198226599056568473427605432109721358271981387567841534805748497980748311457267247645559234949543173907468053599762954039686069697106265445457867630968372865364959070713890980274248029933698770794472413422596638225363240226049435078209333658460922010128745310034584025053230830964373979136, .ok 0x0008000000000000),
  (4503599627370497, 1619218026458484946819962773751338456396453198113136946855210864219442716543962775135683069611496995961496622914534495291118469899086347814936107199525908079372139394212530890915735261936745730729918141427781960548496059867397541588944826845193276450726480452098870156418667316921844020257490620069168050106461661928747958272, .ok 0x0002000000000000),
  (1, 101201126653655309176247673359458653524778324882071059178450679013715169783997673445980191850718562247593538932158405955694904368692896738433506699970369254960758712138283180682233453871046608170619883839236372534281003741712346349309051677824579778170405028256179384776166707307615251266093163754323003131653853870546747392, .ok 0x0000000000000002),
  (3, 101201126653655309176247673359458653524778324882071059178450679013715169783997673445980191850718562247593538932158405955694904368692896738433506699970369254960758712138283180682233453871046608170619883839236372534281003741712346349309051677824579778170405028256179384776166707307615251266093163754323003131653853870546747392, .ok 0x0000000000000006),
  (-1, 101201126653655309176247673359458653524778324882071059178450679013715169783997673445980191850718562247593538932158405955694904368692896738433506699970369254960758712138283180682233453871046608170619883839236372534281003741712346349309051677824579778170405028256179384776166707307615251266093163754323003131653853870546747392, .ok 0x8000000000000002),
  (9007199254740993, 455769356286876421213391376429838886925099892492896311359073203585443629295319008244476198689326433780162368020962991167191110613607139517741900808291216386005762763108913764753265553690611976382226145357950239793122692242822302122332514317008108070827274337186476319071835298862424880252130670164301449339557783552772064084296510505746432, .ok 0x0000000000000004),
  (4503599627370497, 911538712573752842426782752859677773850199784985792622718146407170887258590638016488952397378652867560324736041925982334382221227214279035483801616582432772011525526217827529506531107381223952764452290715900479586245384485644604244665028634016216141654548674372952638143670597724849760504261340328602898679115567105544128168593021011492864, .ok 0x0000000000000001),
  (1, 202402253307310618352495346718917307049556649764142118356901358027430339567995346891960383701437124495187077864316811911389808737385793476867013399940738509921517424276566361364466907742093216341239767678472745068562007483424692698618103355649159556340810056512358769552333414615230502532186327508646006263307707741093494784, .ok 0x0000000000000001),
  (3, 202402253307310618352495346718917307049556649764142118356901358027430339567995346891960383701437124495187077864316811911389808737385793476867013399940738509921517424276566361364466907742093216341239767678472745068562007483424692698618103355649159556340810056512358769552333414615230502532186327508646006263307707741093494784, .ok 0x0000000000000003),
  (4503599627370497, 1823077425147505684853565505719355547700399569971585245436292814341774517181276032977904794757305735120649472083851964668764442454428558070967603233164865544023051052435655059013062214762447905528904581431800959172490768971289208489330057268032432283309097348745905276287341195449699521008522680657205797358231134211088256337186042022985728, .ok 0x0000000000000001),
  (-1, 404804506614621236704990693437834614099113299528284236713802716054860679135990693783920767402874248990374155728633623822779617474771586953734026799881477019843034848553132722728933815484186432682479535356945490137124014966849385397236206711298319112681620113024717539104666829230461005064372655017292012526615415482186989568, .ok 0x8000000000000000),
  (1, 809609013229242473409981386875669228198226599056568473427605432109721358271981387567841534805748497980748311457267247645559234949543173907468053599762954039686069697106265445457867630968372865364959070713890980274248029933698770794472413422596638225363240226049435078209333658460922010128745310034584025053230830964373979136, .ok 0x0000000000000000),
  (9007199254740993, 3646154850295011369707131011438711095400799139943170490872585628683549034362552065955809589514611470241298944167703929337528884908857116141935206466329731088046102104871310118026124429524895811057809162863601918344981537942578416978660114536064864566618194697491810552574682390899399042017045361314411594716462268422176512674372084045971456, .ok 0x0000000000000001),
  (3, 13582985290493858492773514283592667786034938469317445497485196697278130927542418487205392083207560592298578262953847383475038725543234929971155548342800628721885763499406390331782864144164680730766837160526223176512798435772129956553355286032203080380775759732320198985094884004069116123084147875437183658467465148948790552744165376, .ok 0x0000000000000000),
  (4503599627370497, 122344654985694138944064787438411453618271627486881598100390795141839395592183916643573727876315943584631689013747018093088918016710072301300667233780421251372128945942961244106219566394031908799224105624283655844176235556149667397178096264312600045689799683939749527743249605207031303996226091417139854474925092466337669086529356236818834094292992, .ok 0x0000000000000000),
  (-179769313486231580793728971405303415079934132710037826936173778980444968292764750946649017977587207096330286416692887910946555547851940402630657488671505820681908902000708383676273854845817711531764475730270069855571366959622842914819860834936475292719074168444365510704342711559699508093042880177904174497792, 1, .overflow true),
  (-10000000000000000000000000000000000000000000000000000000000000000000000000000000000000000000000000000000000000000000000000000000000000000000000000000000000000000000000000000000000000000000000000000000000000000000000000000000000000000000000000000000000000000000000000000000000000000000000000000000000000000000000000000000000000000000000000000000000000000000000000000000000000000000000000000000000000000, 3, .overflow true),
  (0, 7, .ok 0x0000000000000000),
  (539307940458694742381186914215910245239802398130113480808521336941334904878294252839947053932761621288990859250078663732839666643555821207891972466014517462045726706002125151028821564537453134595293427190810209566714100878868528744459582504809425878157222505333096532113028134679098524279128640533712523493376, 3, .overflow false),
  (-16311774369436801, 291996199527820493993034982764818644793166624463907835557068321145553610701355352736378419924311769585833107812710042067884077102168028031888170324462221708048127659159056956805303948303782641664, .ok 0x9AECF9BC76792A40),
  (2175086325099980358093018473484047587902496566941308499684395674311510072788973538080163750082681835539746626665690489856371215460154374357222099700505586799318722977061255325356787137444742075623220575871533318145, 2, .ok 0x6C29D80FACC137CE),
  (39197372752772192680230815730541079827262503300002967195513567363695924697726132360935847951203365939094948919561629593113863489791983866237143066616309601431269774432858638835910210358345728, 2, .ok 0x6771985305AD660A),
  (29715341694231609, 1449201571131471879260756959099495254112097748639913124496463219294319678358585159201072662468220966735923856011813316441511904497891120370903590752550155280761367805558784, .ok 0x1FD1985305AD660A),
  (-16749681688527955, 268435456, .ok 0xC18DC0DF9592A22A),
  (13591799464069077623251366408780025924177257026818467875863452970629833757777945558897761708519050119666564201823640525568523936082248620546067896842821804538412781509632248681259445397754467418331194327041, 2, .ok 0x6A75ACF015A37B35),
  (409315820245934532527902257856744024561507072188898451508358060657245043026447940847015049870699147560028908851185632873457916051456, 2, .ok 0x5B32740159653756),
  (31164592346319873, 14352197199191432920745655472856366028873725925649997933301022120946251073193018297698472096119772098682868915210323987720638157725762913823367347787967121393981570702985967540894299667027524403068928, .ok 0x1A02740159653756),
  (-13385798548658257, 256, .ok 0xC2C7C7280BC38C28),
  (70240583242943300377611687176164771684250642550464216571026417529800734372405334313036655190042364217972838411253359330352079848103685375875371286685339604117235153859948747991104990103967465579143751120928936410370879911914602688694528146294238221068106849843677579194667922079350785, 2, .ok 0x7ACE3B21474F7D5C),
  (153519998893853329629018288657657820378847600727222565399921489951353554079614028619943705842713523258465309221048482711839631623884323160498873157723462442912042659580357154894796279650758059809796183057600906723213439245097269807628251283062784, 2, .ok 0x72C67BD619BD686A),
  (37971653836173951, 39793902218243726053047405127712893904399233796828453605913662199057024201784429161734547118772150172749741004747599756274527516239946083899869770535548716958649697752167159175145109797357463078418468243729169462439839167301161982089908064547469962053053983590781832964145167980671238641848089478819873999416401803560909822492672, .ok 0x0000002CF7AC337B),
  (-11970329354233819, 121416805764108066932466369176469931665150427440758720078238275608681517825325531136, .ok 0xB2054379BE8073EE),
  (282313370027404550178743500763911010526615228053186058280356865600823551267005873326835304539691267424212730880627754274599742510232687803208757255918047540952865469999584504077006586291724432818580847715641199505123120647101119774949087985532929, 2, .ok 0x72D4AC4E46E6E677),
  (77608465876668003976012501020533694254566231224938946489928832500391266274694208283548168477510189911895654036904575725177574035939483310260901781590414778078918014327615365525965464202325962790062266408374257326142706891707746657140240916665250965492118910660051636630742110306304, 2, .ok 0x7A311A12EDD05A72),
  (28882459234016937, 5121035084451728082493326175273925988207174391538617467184325999434780598643941430928459930269353695290570171335756728662442599670363672381719057448190077475401081021066763180899644123580273170991845132392360910321938494492781922271613857824768, .ok 0x10C11A12EDD05A72),
  (-17893272187058573, 156764265941034957982331212844852467344711417043899710759469297619722251722129607859661177881884230709880082871203965476543290384119266386721367084105368877945996036265148061460008137163052639879920877568, .ok 0x991FC8EB0A4A1CC6),
  (19017437723921355632177104931939471112151986899403298639755188360127335660635067467061761701704683717204696603445801636136944518602987001540534121361090846775327169169806234061928220718817702842480004116041929759041895796517415944193, 2, .ok 0x70187FB343E18962),
  (15745420933504991405907763064702611128077661704168122370458223116284282919939502128947499021509189356285098199802531732453394193591002282406063440905684802553284041561404018830268187181099128003005798866205264188030179428973501593514618304657717315192479408268446996355774008612142186496, 2, .ok 0x7B4A78B3878B2678),
  (44706371177998029, 30260740758830960035030302796910295402301239759717463040984289334460714320509857749566156483751615212139490296555634688, .ok 0x2ACA78B3878B2678),
  (-15146762785178935, 3138550867693340381917894711603833208051177722232017256448, .ok 0xB75AE7F343A7629C),
  (979019472613699999173273708047293010535939106308190174312442911390514962405967202895826432769758362658792293279264934013499757569614076206052684741800586058384133661248989419016086087302419232083645193843143054685712754279460764416664625424168230655811023616815798469519749414913, 2, .ok 0x79CB9D4822F33FCD),
  (23606244334268313493793729567685010110257608586499158561485680414493576884933796343375106781788940871342516960679191633435076919436195978669262755956134300843245568, 2, .ok 0x61CA3C494612851E),
  (44307808802250417, 118842243771396506390315925504, .ok 0x3D5A3C494612851E),
  (-13711857443813385, 673297395398191808926846705008656469190443494761366254015779955592797715750026345230549316643531321757053820013590811867266487328023526894480360290643440748794268629904440908568532961009193307810725536222180016128, .ok 0x97185B6E4C131C04),
  (309479017863568785200551244899920836779850381936653808492785385166679888174558309476262158200259404103681, 2, .ok 0x559145A1F80A820D),
  (4916911819150185, 404804506614621236704990693437834614099113299528284236713802716054860679135990693783920767402874248990374155728633623822779617474771586953734026799881477019843034848553132722728933815484186432682479535356945490137124014966849385397236206711298319112681620113024717539104666829230461005064372655017292012526615415482186989568, .ok 0x0008BBF3DF2FA9B4),
  (7058218380527267, 404804506614621236704990693437834614099113299528284236713802716054860679135990693783920767402874248990374155728633623822779617474771586953734026799881477019843034848553132722728933815484186432682479535356945490137124014966849385397236206711298319112681620113024717539104666829230461005064372655017292012526615415482186989568, .ok 0x000C89B4C3A8C352),
  (633223643603645, 404804506614621236704990693437834614099113299528284236713802716054860679135990693783920767402874248990374155728633623822779617474771586953734026799881477019843034848553132722728933815484186432682479535356945490137124014966849385397236206711298319112681620113024717539104666829230461005064372655017292012526615415482186989568, .ok 0x00011FF4EF2B915E),
  (1329294735070389, 404804506614621236704990693437834614099113299528284236713802716054860679135990693783920767402874248990374155728633623822779617474771586953734026799881477019843034848553132722728933815484186432682479535356945490137124014966849385397236206711298319112681620113024717539104666829230461005064372655017292012526615415482186989568, .ok 0x00025C7E463E2A5A),
  (5936079504669471, 404804506614621236704990693437834614099113299528284236713802716054860679135990693783920767402874248990374155728633623822779617474771586953734026799881477019843034848553132722728933815484186432682479535356945490137124014966849385397236206711298319112681620113024717539104666829230461005064372655017292012526615415482186989568, .ok 0x000A8B6A9B1DFD90),
  (236295044641851, 404804506614621236704990693437834614099113299528284236713802716054860679135990693783920767402874248990374155728633623822779617474771586953734026799881477019843034848553132722728933815484186432682479535356945490137124014966849385397236206711298319112681620113024717539104666829230461005064372655017292012526615415482186989568, .ok 0x00006B745D195A1E),
  (808088992713793, 404804506614621236704990693437834614099113299528284236713802716054860679135990693783920767402874248990374155728633623822779617474771586953734026799881477019843034848553132722728933815484186432682479535356945490137124014966849385397236206711298319112681620113024717539104666829230461005064372655017292012526615415482186989568, .ok 0x00016F79F0ADC620),
  (3870708263863143, 404804506614621236704990693437834614099113299528284236713802716054860679135990693783920767402874248990374155728633623822779617474771586953734026799881477019843034848553132722728933815484186432682479535356945490137124014966849385397236206711298319112681620113024717539104666829230461005064372655017292012526615415482186989568, .ok 0x0006E031BF8C61B4),
  (6971754839196471, 404804506614621236704990693437834614099113299528284236713802716054860679135990693783920767402874248990374155728633623822779617474771586953734026799881477019843034848553132722728933815484186432682479535356945490137124014966849385397236206711298319112681620113024717539104666829230461005064372655017292012526615415482186989568, .ok 0x000C62631553619C),
  (6794907847563331, 404804506614621236704990693437834614099113299528284236713802716054860679135990693783920767402874248990374155728633623822779617474771586953734026799881477019843034848553132722728933815484186432682479535356945490137124014966849385397236206711298319112681620113024717539104666829230461005064372655017292012526615415482186989568, .ok 0x000C11F762448C22),
  (1, 10, .ok 0x3FB999999999999A),
  (15, 10, .ok 0x3FF8000000000000),
  (1, 1000000, .ok 0x3EB0C6F7A0B5ED8D),
  (14835360536046067085684833561387932186379416721588764506538, 17521215474218319179108382314153195724, .ok 0x4446F33847798025),
  (-13176340805709903905255337751814740413229410743909799457232318081389242480725106589405768863378489003804426426784898765693726255027529751138450239982242491651482007580646852150844052050950050802548287905095865103232963744430561437934034741, 15305553841713917927243493981055827423355431407542602985136681721823504025038653201969429718948224348493237656461932953439370796984229237295924719129478143074043015938362659587046262432205837441370410271925833432496454374206, .ok 0xC30877C597938252),
  (14255705922714494232426024103657616586002040878730018461811712348344948536959211414196407083248190253733404918873417393347672920704828581955195353851985838776937122235645141698280453016094096002110343317656722529735917932268884160078395799684635259971, 35994140948628095870511213452301066490476749932304890066839290661349684101131372112468319730951747777813558708851323074409574174240645103419623522352611295618548222897143088296842277349130438341132540489448846559310679850353097455852705527457401543050855153170853290192353271524203198455384850809467, .ok 0x35E285D4FF1721CD),
  (10820862131613032731882942779, 1686328619849798661706257344983581911695145794123164850480446988594286710872808675971928147109688627998666202562464779880020943535332208752574539240327918792779732073068323710029293554068172813842900738588455758579393810855694171345575182958022891259158018826025972187082352847128, .ok 0x0BC785CB917AE0E8),
  (-2303743498724289422371902747363341715557626, 25580522577486408908487029583033422602776400468293017285161908535579143611993440841366466005399095946937782187585751319558622459765069164134526964963710622617494815925335223769895078533049454517220818537725770468770852893121184993164977359996849290737787259157401287483954, .ok 0x90617A288EFACBB5),
  (1426571693221798007411407706778008979040188459709178508700340586457646994760841, 5288102642764595320792780596371201879136485960477136575541984395676601745279932057954307223114257746600434063081384161521116482622904912948911962748297903388039591940585990055280762568604163568980907995962747640245531377248714818615035187586057647046876288835262, .ok 0x19D2572AB5D420BD),
  (217248478269128691381687880336938269361017391467586693286172161399639394172489962870600414468886135544823509487338621257370726, 4435422878982935543871792754014437155867653363107567790924958080768823925249437931608242591860866872174968668531949786674926403517325550267207877565454828299563549871597121175491439715786161507888481624753685434180643370046847874602665278797204416309019063473466104512352844889635591853318926900733, .ok 0x1C283A88C77CFEB5),
  (109708502065, 35173946513267601482429509402500620607680317618556959266484586033889837696697347414731237561230100156823603270368125969525595913990616, .ok 0x26807EAC15B2A785),
  (-13474442035260552594309536249975069896188315162509946442881485613834647779433832552908304285627401323042400305197767005014574630286204400979512584374321893466051691972483520489245, 2275355450183829366236057337136503770392386283830525873050520575548415198894480695907840033013140871843667379868172260382720876772319339372809056657903603710913602149201860340012548525762586413960093102798506238, .ok 0xB93EBF9054D2E469),
  (-21998827711938412950470037032797800366200134902952600082268084279000220633899384344716352544533999721012511314374222597416692129148389731653828969837773968858199310476889091014110313822980707677695907407694040775207081, 1587746374914423830046597917809421293365054962246823856469139281582829882061120423066081056551447339280125872538894556296018815176017804955348265034305819971233078293494839044319738977639082870294255057595306183088858293417302367539975623049546522893148144565497, .ok 0xB6D3C66A2D92097B),
  (515468171434893995270550523208991123858697415969563000527826320803511913880644679117733300075071598621806305517313032956772857269615131788289700227253795789269647415, 1325365092564003792277339481773000445593793870544835274065257255739624061473134938013447796246248766030247649398650194997563387156103512939875670481863482381002959780732702885186798430329762983756340424824773346018106133239709529737699013342845819045100495014762727714658993904419442784707073770, .ok 0x251140F8374EA30F),
  (-29013349225545905921753283982809454509627781, 2202032887822190505273096268851492980078932657824618395723413793344122864068547609232383147911618375763212046004747602220779336850021574, .ok 0xACDB7BC97B72A1CC),
  (-279987408669979270251374806836477861834536524565816920737652908048472045736059541853595247792232291358112459876938842847553345523347914081753321913450163402765837128140999782422628442687704119299031219367961217153199950682137984892291033148024266418624191850354453101302163641094019084841256101457924280801, 11060254235601880498465113354788595306839089150919773844662284037235704545781402066537535271536069601441319473083186037507611223428051598067997951730606029946181743140334687689043073039904000672701841948427568227122247523810289895332198043371979825024916534395563184555172774598462153818331417072312358039598447578, .ok 0xBE5B2E76226B0EAA),
  (1354575030131259798370589814088904808916205930881794427923083377408958883908861585605929633018960234355612618938047327630526131978661215358700832180964008005707233953376862168968004614191386742408667499468745781701225983381562031596117, 16330870572346473339000973591133287063311625509704155779814698658396166565264354792655516283339788088581821827656642106519046610513490721275130860933037077180944303375328920398389741869405810825444848, .ok 0x472FF31320767654),
  (-139123317494516718263308044662866889981257045623589282630236783804675745471079705534477727570105562386313504976145288167650287754706633953290932332221058839701969537906518892174598254168429632718755669360310650707606016030829990001495569212788477935377503179852671098223627764995931677272264499626300630, 1018067087526868486694777627993489142700008558025471732429419579155174774927752895665540364323065401426448906, .ok 0xE83DF3B86BDF0177),
  (57801759151825648226681385308455844882895353711366217239197540701257778243802010335856679269124688355778992677982904688304003858180817234271639885301387912750168, 1151109597464167503812156, .ok 0x5C514577510EF5ED),
  (-100327756007402154237357599185837326014951506777312784793407651421601853214885713126071650908093171895458766849110268622700138418653528038213932, 20984280958317053648168126353285801806049047341176339045239770478532345132405331523808280899175509349414078659366991710950933388680754354055425365624120671673290501916891221849369947282015787605124034473753336051034025964023726771708958405537935372675474988967793367072492289477320869058279103509, .ok 0xA05006A71AF3F0A3),
  (30509297095078287037, 37101406857080908865413, .ok 0x3F4AF222B390772A),
  (-48815059336663046659125673693454113023404998156794825331304556002110225377627113063856318048149068545321934364102951034696684088014673508205308156622323951562113077119933657316323657862736245207372, 32247119966161319985429753354072782697621571646205559684221063768456324430664293799271595215844252499104474441092929386972689, .ok 0xCEEB6AA795F805C6),
  (-1397994598299605515362884716581804427592651411752236770196371, 28929795535388336339952236314792333837663863773867173714683315409353062144244025032227634570801814857263724140042163632158909559926028770342, .ok 0xAF76EB4F01739E70)]

example : tests.all (fun t => decide (roundRat t.1 t.2.1 = t.2.2)) = true := by decide +kernel

end Yaql.Props.FloatRound
