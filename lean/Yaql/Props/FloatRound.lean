import Yaql.Model.FloatRound
import Mathlib.Tactic.Ring
import Mathlib.Tactic.Linarith
import Mathlib.Tactic.FieldSimp
import Mathlib.Algebra.Order.Field.Basic
import Mathlib.Algebra.Order.Field.Rat
import Mathlib.Algebra.Order.AbsoluteValue.Basic
/-!
Characteristic properties of `Yaql.FloatRound.roundRat`, for all inputs.
-/
namespace Yaql.Props.FloatRound
open Yaql.FloatRound

/-- `|x - y|` on naturals -/
def adiff (x y : Nat) : Nat := (x - y) + (y - x)

/-! ## `rneDiv`: nearest integer to `a / b`, ties to even -/

theorem rneDiv_cases (a b : Nat) :
    (rneDiv a b = a / b ∧ 2 * (a % b) ≤ b ∧ (2 * (a % b) = b → (a / b) % 2 = 0)) ∨
    (rneDiv a b = a / b + 1 ∧ b ≤ 2 * (a % b) ∧ (2 * (a % b) = b → (a / b + 1) % 2 = 0)) := by
  unfold rneDiv
  simp only
  split
  · left; omega
  · split
    · right; omega
    · split
      · left; omega
      · right; omega

theorem below (a b j t : Nat) (h : j + t = a / b) : a = j * b + t * b + a % b := by
  have h1 := Nat.div_add_mod a b
  rw [← h, Nat.mul_add, Nat.mul_comm b j, Nat.mul_comm b t] at h1
  omega

theorem above (a b j t : Nat) (h : a / b + 1 + t = j) : j * b + a % b = a + b + t * b := by
  have h1 := Nat.div_add_mod a b
  rw [← h, Nat.add_mul, Nat.add_mul, Nat.one_mul, Nat.mul_comm (a / b) b]
  omega

/-- the result of `rneDiv` is a nearest multiple -/
theorem rneDiv_nearest (a b : Nat) (hb : 0 < b) (j : Nat) :
    adiff a (rneDiv a b * b) ≤ adiff a (j * b) := by
  have hr := Nat.mod_lt a hb
  have hq := below a b (a / b) 0 rfl
  have hq1 := above a b (a / b + 1) 0 rfl
  unfold adiff
  rcases Nat.lt_or_ge (a / b) j with hj | hj
  · obtain ⟨t, ht⟩ := Nat.le.dest hj
    have h2 := above a b j t (by omega)
    rcases rneDiv_cases a b with ⟨e, h, _⟩ | ⟨e, h, _⟩ <;> rw [e] <;> omega
  · obtain ⟨t, ht⟩ := Nat.le.dest hj
    have h2 := below a b j t ht
    rcases rneDiv_cases a b with ⟨e, h, _⟩ | ⟨e, h, _⟩ <;> rw [e] <;> omega

/-- it is within half a step -/
theorem rneDiv_half (a b : Nat) (hb : 0 < b) : 2 * adiff a (rneDiv a b * b) ≤ b := by
  have hr := Nat.mod_lt a hb
  have hq := below a b (a / b) 0 rfl
  have hq1 := above a b (a / b + 1) 0 rfl
  unfold adiff
  rcases rneDiv_cases a b with ⟨e, h, _⟩ | ⟨e, h, _⟩ <;> rw [e] <;> omega

/-- a tie goes to the even multiple -/
theorem rneDiv_tie (a b : Nat) (hb : 0 < b) (j : Nat) (hj : j ≠ rneDiv a b)
    (h : adiff a (rneDiv a b * b) = adiff a (j * b)) : rneDiv a b % 2 = 0 := by
  have hr := Nat.mod_lt a hb
  have hq := below a b (a / b) 0 rfl
  have hq1 := above a b (a / b + 1) 0 rfl
  unfold adiff at h
  rcases Nat.lt_or_ge (a / b) j with hj' | hj'
  · obtain ⟨t, ht⟩ := Nat.le.dest hj'
    have h2 := above a b j t (by omega)
    have h3 : t = 0 ∨ b ≤ t * b := by
      rcases Nat.eq_zero_or_pos t with h0 | h0
      · exact Or.inl h0
      · exact Or.inr (Nat.le_mul_of_pos_left b h0)
    rcases rneDiv_cases a b with ⟨e, h4, h5⟩ | ⟨e, h4, h5⟩ <;> rw [e] at h hj ⊢ <;> omega
  · obtain ⟨t, ht⟩ := Nat.le.dest hj'
    have h2 := below a b j t ht
    have h3 : t = 0 ∨ b ≤ t * b := by
      rcases Nat.eq_zero_or_pos t with h0 | h0
      · exact Or.inl h0
      · exact Or.inr (Nat.le_mul_of_pos_left b h0)
    rcases rneDiv_cases a b with ⟨e, h4, h5⟩ | ⟨e, h4, h5⟩ <;> rw [e] at h hj ⊢ <;> omega

theorem rneDiv_le (a b : Nat) : rneDiv a b ≤ a / b + 1 := by
  rcases rneDiv_cases a b with ⟨e, _⟩ | ⟨e, _⟩ <;> omega

theorem le_rneDiv (a b : Nat) : a / b ≤ rneDiv a b := by
  rcases rneDiv_cases a b with ⟨e, _⟩ | ⟨e, _⟩ <;> omega

/-- `rneDiv` depends on the rational only -/
theorem rneDiv_scale (a b c : Nat) (hc : 0 < c) : rneDiv (a * c) (b * c) = rneDiv a b := by
  unfold rneDiv
  simp only [Nat.mul_div_mul_right a b hc, Nat.mul_mod_mul_right]
  have e1 : (2 * (a % b * c) < b * c) = (2 * (a % b) < b) := by
    rw [← Nat.mul_assoc]; exact propext (Nat.mul_lt_mul_right hc)
  have e2 : (b * c < 2 * (a % b * c)) = (b < 2 * (a % b)) := by
    rw [← Nat.mul_assoc]; exact propext (Nat.mul_lt_mul_right hc)
  simp only [e1, e2]

theorem rneDiv_congr (a b a' b' : Nat) (hb : 0 < b) (hb' : 0 < b') (h : a * b' = a' * b) :
    rneDiv a b = rneDiv a' b' := by
  rw [← rneDiv_scale a b b' hb', ← rneDiv_scale a' b' b hb, h, Nat.mul_comm b b']

/-! ## `quantum`: the spacing of doubles around `a / d` -/

theorem quantum_upper (a d : Nat) (hd : 0 < d) : a < d * 2 ^ (53 + quantum a d) := by
  unfold quantum
  have h1 : a / d < 2 ^ ((a / d).log2 + 1) := Nat.lt_log2_self
  have h2 : 2 ^ ((a / d).log2 + 1) ≤ 2 ^ (53 + ((a / d).log2 - 52)) :=
    Nat.pow_le_pow_right (by decide) (by omega)
  have h3 : a / d < 2 ^ (53 + ((a / d).log2 - 52)) := Nat.lt_of_lt_of_le h1 h2
  rw [Nat.mul_comm]
  exact (Nat.div_lt_iff_lt_mul hd).mp h3

theorem quantum_lower (a d : Nat) (hs : 0 < quantum a d) : d * 2 ^ (52 + quantum a d) ≤ a := by
  unfold quantum at hs ⊢
  have h0 : a / d ≠ 0 := by
    intro h; rw [h] at hs; simp [Nat.log2_zero] at hs
  have h1 : 2 ^ (a / d).log2 ≤ a / d := Nat.log2_self_le h0
  have e : 52 + ((a / d).log2 - 52) = (a / d).log2 := by omega
  rw [e]
  have hd : 0 < d := by
    rcases Nat.eq_zero_or_pos d with h | h
    · rw [h, Nat.div_zero] at h0; exact absurd rfl h0
    · exact h
  rw [Nat.mul_comm]
  exact (Nat.le_div_iff_mul_le hd).mp h1

/-- the spacing is determined by the two bounds -/
theorem quantum_unique (a d s : Nat) (hd : 0 < d) (hu : a < d * 2 ^ (53 + s))
    (hl : 0 < s → d * 2 ^ (52 + s) ≤ a) : quantum a d = s := by
  have hu' : a / d < 2 ^ (53 + s) := by
    rw [Nat.div_lt_iff_lt_mul hd, Nat.mul_comm]; exact hu
  unfold quantum
  rcases Nat.eq_zero_or_pos s with h0 | h0
  · subst h0
    rcases Nat.eq_zero_or_pos (a / d) with hz | hz
    · rw [hz]; simp [Nat.log2_zero]
    · have : (a / d).log2 < 53 + 0 := (Nat.log2_lt (by omega)).mpr hu'
      omega
  · have hl' : 2 ^ (52 + s) ≤ a / d := by
      rw [Nat.le_div_iff_mul_le hd, Nat.mul_comm]; exact hl h0
    have hne : a / d ≠ 0 := by
      have : 0 < 2 ^ (52 + s) := Nat.two_pow_pos _
      omega
    have h1 : (a / d).log2 < 53 + s := (Nat.log2_lt hne).mpr hu'
    have h2 : 52 + s ≤ (a / d).log2 := (Nat.le_log2 hne).mpr hl'
    omega

theorem quantum_congr (a d a' d' : Nat) (hd : 0 < d) (hd' : 0 < d') (h : a * d' = a' * d) :
    quantum a d = quantum a' d' := by
  unfold quantum
  have : a / d = a' / d' := by
    rw [← Nat.mul_div_mul_right a d hd', ← Nat.mul_div_mul_right a' d' hd, h, Nat.mul_comm d d']
  rw [this]

/-! ## `roundMag`: nearest double magnitude with an unbounded exponent -/

/-- magnitudes (scaled by `2^1074`) of binary64 numbers with an unbounded exponent: 53 significant bits,
    spacing at least 1 (the subnormal spacing) -/
def RepU (z : Nat) : Prop := ∃ M s, M < 2 ^ 53 ∧ z = M * 2 ^ s

/-- magnitudes (scaled by `2^1074`) of the finite binary64 numbers -/
def Rep (z : Nat) : Prop := ∃ M s, M < 2 ^ 53 ∧ s ≤ 2045 ∧ z = M * 2 ^ s

theorem Rep.repU {z : Nat} (h : Rep z) : RepU z := by
  obtain ⟨M, s, h1, _, h3⟩ := h; exact ⟨M, s, h1, h3⟩

theorem roundMag_eq (n d : Nat) : roundMag n d =
    rneDiv (scale * n) (d * 2 ^ quantum (scale * n) d) * 2 ^ quantum (scale * n) d := rfl

theorem step_pos (d s : Nat) (hd : 0 < d) : 0 < d * 2 ^ s := Nat.mul_pos hd (Nat.two_pow_pos s)

/-- the significand `k` of the result: at most `2^53`, at least `2^52` above the first binade -/
theorem signif_le (a d : Nat) (hd : 0 < d) : rneDiv a (d * 2 ^ quantum a d) ≤ 2 ^ 53 := by
  have hu := quantum_upper a d hd
  have hb := step_pos d (quantum a d) hd
  have : a / (d * 2 ^ quantum a d) < 2 ^ 53 := by
    rw [Nat.div_lt_iff_lt_mul hb]
    calc a < d * 2 ^ (53 + quantum a d) := hu
      _ = 2 ^ 53 * (d * 2 ^ quantum a d) := by rw [Nat.pow_add]; ring
  have := rneDiv_le a (d * 2 ^ quantum a d)
  omega

theorem le_signif (a d : Nat) (hs : 0 < quantum a d) : 2 ^ 52 ≤ rneDiv a (d * 2 ^ quantum a d) := by
  have hl := quantum_lower a d hs
  have hd : 0 < d := by
    rcases Nat.eq_zero_or_pos d with h | h
    · subst h; simp [quantum, Nat.log2_zero] at hs
    · exact h
  have hb := step_pos d (quantum a d) hd
  have : 2 ^ 52 ≤ a / (d * 2 ^ quantum a d) := by
    rw [Nat.le_div_iff_mul_le hb]
    calc 2 ^ 52 * (d * 2 ^ quantum a d) = d * 2 ^ (52 + quantum a d) := by rw [Nat.pow_add]; ring
      _ ≤ a := hl
  have := le_rneDiv a (d * 2 ^ quantum a d)
  omega

theorem roundMag_repU (n d : Nat) (hd : 0 < d) : RepU (roundMag n d) := by
  rw [roundMag_eq]
  have h := signif_le (scale * n) d hd
  rcases Nat.lt_or_ge (rneDiv (scale * n) (d * 2 ^ quantum (scale * n) d)) (2 ^ 53) with h1 | h1
  · exact ⟨_, _, h1, rfl⟩
  · have e : rneDiv (scale * n) (d * 2 ^ quantum (scale * n) d) = 2 ^ 53 := Nat.le_antisymm h h1
    refine ⟨2 ^ 52, quantum (scale * n) d + 1, by decide, ?_⟩
    rw [e, Nat.pow_succ]; ring

/-- **nearest**: no binary64 magnitude (even with an unbounded exponent) is nearer to `n / d` than the result.
    Distances are multiplied by `d * 2^1074`. -/
theorem roundMag_nearest (n d : Nat) (hd : 0 < d) (z : Nat) (hz : RepU z) :
    adiff (scale * n) (roundMag n d * d) ≤ adiff (scale * n) (z * d) := by
  obtain ⟨M, s', hM, rfl⟩ := hz
  rw [roundMag_eq]
  generalize scale * n = a
  have hb := step_pos d (quantum a d) hd
  have e1 : rneDiv a (d * 2 ^ quantum a d) * 2 ^ quantum a d * d =
      rneDiv a (d * 2 ^ quantum a d) * (d * 2 ^ quantum a d) := by ring
  rw [e1]
  rcases Nat.lt_or_ge s' (quantum a d) with hs | hs
  · -- a double below the binade of `a / d`: farther than the lower end of the binade
    have hs0 : 0 < quantum a d := by omega
    have hl := quantum_lower a d hs0
    have h1 := rneDiv_nearest a _ hb (2 ^ 52)
    have h2 : M * 2 ^ s' * d < 2 ^ 52 * (d * 2 ^ quantum a d) := by
      have : M * 2 ^ s' < 2 ^ 52 * 2 ^ quantum a d := by
        calc M * 2 ^ s' < 2 ^ 53 * 2 ^ s' := Nat.mul_lt_mul_of_pos_right hM (Nat.two_pow_pos _)
          _ = 2 ^ 52 * 2 ^ (s' + 1) := by rw [Nat.pow_succ]; ring
          _ ≤ 2 ^ 52 * 2 ^ quantum a d :=
              Nat.mul_le_mul_left _ (Nat.pow_le_pow_right (by decide) hs)
      calc M * 2 ^ s' * d < 2 ^ 52 * 2 ^ quantum a d * d := Nat.mul_lt_mul_of_pos_right this hd
        _ = 2 ^ 52 * (d * 2 ^ quantum a d) := by ring
    have h3 : 2 ^ 52 * (d * 2 ^ quantum a d) ≤ a := by
      calc 2 ^ 52 * (d * 2 ^ quantum a d) = d * 2 ^ (52 + quantum a d) := by rw [Nat.pow_add]; ring
        _ ≤ a := hl
    unfold adiff at h1 ⊢
    omega
  · -- a double on the grid of the binade
    obtain ⟨t, ht⟩ := Nat.le.dest hs
    have e2 : M * 2 ^ s' * d = (M * 2 ^ t) * (d * 2 ^ quantum a d) := by
      rw [← ht, Nat.pow_add]; ring
    rw [e2]
    exact rneDiv_nearest a _ hb _

/-- the tie rule: if another binary64 magnitude is equally near, the result's significand (in units of the
    spacing `2^quantum` of its binade) is even -/
theorem roundMag_tie (n d : Nat) (hd : 0 < d) (z : Nat) (hz : RepU z) (hne : z ≠ roundMag n d)
    (h : adiff (scale * n) (roundMag n d * d) = adiff (scale * n) (z * d)) :
    rneDiv (scale * n) (d * 2 ^ quantum (scale * n) d) % 2 = 0 := by
  obtain ⟨M, s', hM, rfl⟩ := hz
  rw [roundMag_eq] at h hne
  revert h hne
  generalize scale * n = a
  intro hne h
  have hb := step_pos d (quantum a d) hd
  have e1 : rneDiv a (d * 2 ^ quantum a d) * 2 ^ quantum a d * d =
      rneDiv a (d * 2 ^ quantum a d) * (d * 2 ^ quantum a d) := by ring
  rw [e1] at h
  rcases Nat.lt_or_ge s' (quantum a d) with hs | hs
  · exfalso
    have hs0 : 0 < quantum a d := by omega
    have hl := quantum_lower a d hs0
    have h1 := rneDiv_nearest a _ hb (2 ^ 52)
    have h2 : M * 2 ^ s' * d < 2 ^ 52 * (d * 2 ^ quantum a d) := by
      have : M * 2 ^ s' < 2 ^ 52 * 2 ^ quantum a d := by
        calc M * 2 ^ s' < 2 ^ 53 * 2 ^ s' := Nat.mul_lt_mul_of_pos_right hM (Nat.two_pow_pos _)
          _ = 2 ^ 52 * 2 ^ (s' + 1) := by rw [Nat.pow_succ]; ring
          _ ≤ 2 ^ 52 * 2 ^ quantum a d :=
              Nat.mul_le_mul_left _ (Nat.pow_le_pow_right (by decide) hs)
      calc M * 2 ^ s' * d < 2 ^ 52 * 2 ^ quantum a d * d := Nat.mul_lt_mul_of_pos_right this hd
        _ = 2 ^ 52 * (d * 2 ^ quantum a d) := by ring
    have h3 : 2 ^ 52 * (d * 2 ^ quantum a d) ≤ a := by
      calc 2 ^ 52 * (d * 2 ^ quantum a d) = d * 2 ^ (52 + quantum a d) := by rw [Nat.pow_add]; ring
        _ ≤ a := hl
    unfold adiff at h1 h
    omega
  · obtain ⟨t, ht⟩ := Nat.le.dest hs
    have e2 : M * 2 ^ s' * d = (M * 2 ^ t) * (d * 2 ^ quantum a d) := by
      rw [← ht, Nat.pow_add]; ring
    rw [e2] at h
    refine rneDiv_tie a _ hb (M * 2 ^ t) ?_ h
    intro hk
    apply hne
    rw [← hk, ← ht, Nat.pow_add]; ring

/-- the result depends on the rational only -/
theorem roundMag_congr (n d n' d' : Nat) (hd : 0 < d) (hd' : 0 < d') (h : n * d' = n' * d) :
    roundMag n d = roundMag n' d' := by
  rw [roundMag_eq, roundMag_eq]
  generalize scale = S
  have h' : S * n * d' = S * n' * d := by rw [Nat.mul_assoc, h, Nat.mul_assoc]
  have hq := quantum_congr (S * n) d (S * n') d' hd hd' h'
  rw [hq]
  have hr : rneDiv (S * n) (d * 2 ^ quantum (S * n') d') = rneDiv (S * n') (d' * 2 ^ quantum (S * n') d') := by
    apply rneDiv_congr _ _ _ _ (step_pos d _ hd) (step_pos d' _ hd')
    calc S * n * (d' * 2 ^ quantum (S * n') d') = S * n * d' * 2 ^ quantum (S * n') d' := by ring
      _ = S * n' * d * 2 ^ quantum (S * n') d' := by rw [h']
      _ = S * n' * (d * 2 ^ quantum (S * n') d') := by ring
  rw [hr]

/-- **exact**: a rational that is a binary64 magnitude is returned unchanged -/
theorem roundMag_exact (n d : Nat) (hd : 0 < d) (z : Nat) (hz : RepU z) (h : scale * n = z * d) :
    roundMag n d = z := by
  have h1 := roundMag_nearest n d hd z hz
  rw [h] at h1
  unfold adiff at h1
  have h2 : roundMag n d * d = z * d := by omega
  exact Nat.eq_of_mul_eq_mul_right hd h2

/-! ## bit patterns: `decode` and `encodeScaled` are inverse on the finite doubles -/

/-- the three fields of a finite double -/
theorem decode_fields (w : UInt64) (sgn e m : Nat) (h : w.toNat = sgn * 2 ^ 63 + e * 2 ^ 52 + m)
    (hs : sgn < 2) (he : e < 2047) (hm : m < 2 ^ 52) :
    decode w = .fin (if sgn = 1 then -((if e = 0 then m else (2 ^ 52 + m) * 2 ^ (e - 1) : Nat) : Int)
      else ((if e = 0 then m else (2 ^ 52 + m) * 2 ^ (e - 1) : Nat) : Int)) := by
  have h1 : w.toNat / 2 ^ 63 % 2 = sgn := by omega
  have h2 : w.toNat / 2 ^ 52 % 2048 = e := by omega
  have h3 : w.toNat % 2 ^ 52 = m := by omega
  unfold decode
  simp only [h1, h2, h3]
  have h4 : (e == 2047) = false := by simp; omega
  rw [h4]
  simp only [Bool.false_eq_true, if_false, beq_iff_eq]

theorem toNat_fields (w : UInt64) : ∃ sgn e m, w.toNat = sgn * 2 ^ 63 + e * 2 ^ 52 + m ∧ sgn < 2 ∧ e < 2048 ∧
    m < 2 ^ 52 ∧ sgn = w.toNat / 2 ^ 63 % 2 ∧ e = w.toNat / 2 ^ 52 % 2048 ∧ m = w.toNat % 2 ^ 52 := by
  have := UInt64.toNat_lt w
  refine ⟨w.toNat / 2 ^ 63 % 2, w.toNat / 2 ^ 52 % 2048, w.toNat % 2 ^ 52, ?_, ?_, ?_, ?_, rfl, rfl, rfl⟩ <;> omega

/-- the magnitude of a finite double is `M * 2^s`, `M < 2^53`, `s ≤ 2045` -/
theorem decode_rep (w : UInt64) (z : Int) (h : decode w = .fin z) : Rep z.natAbs := by
  obtain ⟨sgn, e, m, hw, hs, he, hm, _, he', hm'⟩ := toNat_fields w
  rcases Nat.lt_or_ge e 2047 with he2 | he2
  · rw [decode_fields w sgn e m hw hs he2 hm] at h
    injection h with h
    have hz : z.natAbs = (if e = 0 then m else (2 ^ 52 + m) * 2 ^ (e - 1)) := by
      rw [← h]; split <;> simp only [Int.natAbs_neg, Int.natAbs_natCast]
    rw [hz]
    split
    · exact ⟨m, 0, by omega, by omega, by simp⟩
    · exact ⟨2 ^ 52 + m, e - 1, by omega, by omega, rfl⟩
  · exfalso
    have e47 : e = 2047 := by omega
    unfold decode at h
    simp only [← he', ← hm', e47] at h
    split at h
    · split at h
      · split at h <;> cases h
      · cases h
    · rename_i hc; exact hc rfl

/-- the bit pattern `encodeScaled` builds, as a number -/
def encodeNat (neg : Bool) (r : Nat) : Nat :=
  (if neg then 2 ^ 63 else 0) +
    (if r < 2 ^ 52 then r else (r.log2 + 1 - 53 + 1) * 2 ^ 52 + (r / 2 ^ (r.log2 + 1 - 53) - 2 ^ 52))

theorem encodeScaled_eq (neg : Bool) (r : Nat) : encodeScaled neg r = UInt64.ofNat (encodeNat neg r) := by
  unfold encodeScaled encodeNat
  simp only
  split <;> simp [Nat.add_assoc]

/-- normal form of a representable magnitude `≥ 2^52`: significand in `[2^52, 2^53)`, exponent `log2 - 52` -/
theorem rep_normal (r : Nat) (hr : Rep r) (h52 : 2 ^ 52 ≤ r) :
    ∃ m, 2 ^ 52 ≤ m ∧ m < 2 ^ 53 ∧ r = m * 2 ^ (r.log2 - 52) ∧ r.log2 - 52 ≤ 2045 ∧ 52 ≤ r.log2 := by
  obtain ⟨M, s, hM, hs, hr'⟩ := hr
  have hr0 : r ≠ 0 := by
    have : 0 < 2 ^ 52 := Nat.two_pow_pos _
    omega
  have hL1 : 2 ^ r.log2 ≤ r := Nat.log2_self_le hr0
  have hL2 : r < 2 ^ (r.log2 + 1) := Nat.lt_log2_self
  have hL52 : 52 ≤ r.log2 := (Nat.le_log2 hr0).mpr h52
  -- `r < 2^(53+s)`, so `log2 r ≤ 52 + s`
  have h1 : r < 2 ^ (53 + s) := by
    rw [hr', Nat.pow_add]
    exact Nat.mul_lt_mul_of_pos_right hM (Nat.two_pow_pos _)
  have h2 : r.log2 < 53 + s := (Nat.log2_lt hr0).mpr h1
  obtain ⟨sh, hsh⟩ : ∃ sh, sh = r.log2 - 52 := ⟨_, rfl⟩
  rw [← hsh]
  obtain ⟨t, ht⟩ := Nat.le.dest (show sh ≤ s by omega)
  have e : r = M * 2 ^ t * 2 ^ sh := by
    rw [hr', ← ht, Nat.pow_add]; ring
  refine ⟨M * 2 ^ t, ?_, ?_, e, by omega, hL52⟩
  · -- `2^52 * 2^sh ≤ r = (M * 2^t) * 2^sh`
    have h3 : 2 ^ 52 * 2 ^ sh ≤ M * 2 ^ t * 2 ^ sh := by
      rw [← e, ← Nat.pow_add]
      have : 52 + sh = r.log2 := by omega
      rw [this]; exact hL1
    exact Nat.le_of_mul_le_mul_right h3 (Nat.two_pow_pos _)
  · have h3 : M * 2 ^ t * 2 ^ sh < 2 ^ 53 * 2 ^ sh := by
      rw [← e, ← Nat.pow_add]
      have : 53 + sh = r.log2 + 1 := by omega
      rw [this]; exact hL2
    exact Nat.lt_of_mul_lt_mul_right h3

/-- what `encodeNat` is on a normal magnitude -/
theorem encodeNat_normal (neg : Bool) (r : Nat) (hr : Rep r) (h52 : 2 ^ 52 ≤ r) :
    ∃ m, 2 ^ 52 ≤ m ∧ m < 2 ^ 53 ∧ r = m * 2 ^ (r.log2 - 52) ∧ r.log2 - 52 ≤ 2045 ∧
      encodeNat neg r = (if neg then 1 else 0) * 2 ^ 63 + (r.log2 - 52 + 1) * 2 ^ 52 + (m - 2 ^ 52) := by
  obtain ⟨m, h1, h2, h3, h4, h5⟩ := rep_normal r hr h52
  refine ⟨m, h1, h2, h3, h4, ?_⟩
  unfold encodeNat
  have e : r.log2 + 1 - 53 = r.log2 - 52 := by omega
  have hdiv : r / 2 ^ (r.log2 - 52) = m := by
    conv => lhs; lhs; rw [h3]
    exact Nat.mul_div_cancel _ (Nat.two_pow_pos _)
  have hn : ¬ r < 2 ^ 52 := by omega
  rw [e, hdiv, if_neg hn]
  cases neg <;> simp
  omega



theorem encodeNat_lt (neg : Bool) (r : Nat) (hr : Rep r) : encodeNat neg r < 2 ^ 64 := by
  rcases Nat.lt_or_ge r (2 ^ 52) with h | h
  · unfold encodeNat; rw [if_pos h]; split <;> omega
  · obtain ⟨m, h1, h2, _, h4, e⟩ := encodeNat_normal neg r hr h
    rw [e]; split <;> omega

/-- `decode (encodeScaled neg r)` is the magnitude `r` with the sign `neg`, for every finite magnitude -/
theorem decode_encodeScaled (neg : Bool) (r : Nat) (hr : Rep r) :
    decode (encodeScaled neg r) = .fin (if neg then -(r : Int) else (r : Int)) := by
  have hlt := encodeNat_lt neg r hr
  have hto : (encodeScaled neg r).toNat = encodeNat neg r := by
    rw [encodeScaled_eq]; exact UInt64.toNat_ofNat_of_lt' hlt
  rcases Nat.lt_or_ge r (2 ^ 52) with h | h
  · have hw : (encodeScaled neg r).toNat = (if neg then 1 else 0) * 2 ^ 63 + 0 * 2 ^ 52 + r := by
      rw [hto]; unfold encodeNat; rw [if_pos h]; cases neg <;> simp
    rw [decode_fields _ _ 0 r hw (by split <;> omega) (by omega) h]
    cases neg <;> simp
  · obtain ⟨m, h1, h2, h3, h4, e⟩ := encodeNat_normal neg r hr h
    have hw : (encodeScaled neg r).toNat =
        (if neg then 1 else 0) * 2 ^ 63 + (r.log2 - 52 + 1) * 2 ^ 52 + (m - 2 ^ 52) := by rw [hto, e]
    rw [decode_fields _ _ _ _ hw (by split <;> omega) (by omega) (by omega)]
    have hm : 2 ^ 52 + (m - 2 ^ 52) = m := by omega
    have hr' : (if r.log2 - 52 + 1 = 0 then m - 2 ^ 52 else (2 ^ 52 + (m - 2 ^ 52)) * 2 ^ (r.log2 - 52 + 1 - 1)) = r := by
      rw [if_neg (Nat.succ_ne_zero _), hm, Nat.add_sub_cancel, ← h3]
    rw [hr']
    cases neg <;> simp

/-- `encodeScaled` gives back the bit pattern of a finite double from its sign bit and magnitude -/
theorem encodeScaled_decode (w : UInt64) (z : Int) (h : decode w = .fin z) :
    encodeScaled (signBit w) z.natAbs = w := by
  obtain ⟨sgn, e, m, hw, hs, he, hm, hs', he', hm'⟩ := toNat_fields w
  have he2 : e < 2047 := by
    rcases Nat.lt_or_ge e 2047 with he2 | he2
    · exact he2
    · exfalso
      have e47 : e = 2047 := by omega
      unfold decode at h
      simp only [← he', ← hm', e47] at h
      split at h
      · split at h
        · split at h <;> cases h
        · cases h
      · rename_i hc; exact hc rfl
  rw [decode_fields w sgn e m hw hs he2 hm] at h
  injection h with h
  have hz : z.natAbs = (if e = 0 then m else (2 ^ 52 + m) * 2 ^ (e - 1)) := by
    rw [← h]; split <;> simp only [Int.natAbs_neg, Int.natAbs_natCast]
  have hsb : signBit w = decide (sgn = 1) := by
    unfold signBit; rw [← hs']
    rcases (show sgn = 0 ∨ sgn = 1 by omega) with h0 | h0 <;> subst h0 <;> rfl
  rw [encodeScaled_eq, hz, hsb]
  have key : encodeNat (decide (sgn = 1)) (if e = 0 then m else (2 ^ 52 + m) * 2 ^ (e - 1)) = w.toNat := by
    by_cases e0 : e = 0
    · rw [if_pos e0]
      unfold encodeNat
      rw [if_pos hm, hw, e0]
      rcases (show sgn = 0 ∨ sgn = 1 by omega) with h0 | h0 <;> subst h0 <;> simp
    · rw [if_neg e0]
      have hrep : Rep ((2 ^ 52 + m) * 2 ^ (e - 1)) := ⟨2 ^ 52 + m, e - 1, by omega, by omega, rfl⟩
      have h52 : 2 ^ 52 ≤ (2 ^ 52 + m) * 2 ^ (e - 1) :=
        Nat.le_trans (Nat.le_add_right _ m) (Nat.le_mul_of_pos_right _ (Nat.two_pow_pos _))
      have hne : (2 ^ 52 + m) * 2 ^ (e - 1) ≠ 0 := by
        have : 0 < 2 ^ 52 := Nat.two_pow_pos _
        omega
      have hlog : ((2 ^ 52 + m) * 2 ^ (e - 1)).log2 = 52 + (e - 1) := by
        rw [Nat.log2_eq_iff hne]
        constructor
        · rw [Nat.pow_add]; exact Nat.mul_le_mul_right _ (Nat.le_add_right _ m)
        · rw [show 52 + (e - 1) + 1 = 53 + (e - 1) by omega, Nat.pow_add]
          exact Nat.mul_lt_mul_of_pos_right (by omega) (Nat.two_pow_pos _)
      obtain ⟨m', h1, h2, h3, h4, ee⟩ := encodeNat_normal (decide (sgn = 1)) _ hrep h52
      rw [ee, hlog] at *
      have e1 : 52 + (e - 1) - 52 = e - 1 := by omega
      rw [e1] at h3 ee ⊢
      have hm2 : m' = 2 ^ 52 + m := (Nat.eq_of_mul_eq_mul_right (Nat.two_pow_pos _) h3).symm
      rw [hm2, hw]
      rcases (show sgn = 0 ∨ sgn = 1 by omega) with h0 | h0 <;> subst h0 <;> simp <;> omega
  rw [key]; exact UInt64.ofNat_toNat

/-! ## the finite range -/

theorem log2_lt_iff (z k : Nat) (hk : 0 < k) : z.log2 < k ↔ z < 2 ^ k := by
  rcases Nat.eq_zero_or_pos z with h | h
  · subst h; simp [Nat.log2_zero, hk]
  · exact Nat.log2_lt (by omega)

/-- a rounded magnitude below `2^1024` is a finite double -/
theorem roundMag_rep (n d : Nat) (hd : 0 < d) (h : (roundMag n d).log2 < 2098) : Rep (roundMag n d) := by
  rw [log2_lt_iff _ _ (by decide)] at h
  rw [roundMag_eq] at h ⊢
  obtain ⟨K, hK⟩ : ∃ K, K = 2098 := ⟨_, rfl⟩
  rw [← hK] at h
  revert h
  generalize scale * n = a
  intro h
  have hk := signif_le a d hd
  rcases Nat.lt_or_ge (rneDiv a (d * 2 ^ quantum a d)) (2 ^ 53) with h1 | h1
  · refine ⟨_, _, h1, ?_, rfl⟩
    apply Nat.le_of_not_gt
    intro hs
    have hk2 := le_signif a d (by omega)
    have h3 : 2 ^ 52 * 2 ^ quantum a d ≤ rneDiv a (d * 2 ^ quantum a d) * 2 ^ quantum a d :=
      Nat.mul_le_mul_right _ hk2
    rw [← Nat.pow_add] at h3
    have h4 : 52 + quantum a d < K := (Nat.pow_lt_pow_iff_right (by decide)).mp (Nat.lt_of_le_of_lt h3 h)
    omega
  · have e : rneDiv a (d * 2 ^ quantum a d) = 2 ^ 53 := Nat.le_antisymm hk h1
    rw [e, ← Nat.pow_add] at h
    have h2 : 53 + quantum a d < K := (Nat.pow_lt_pow_iff_right (by decide)).mp h
    refine ⟨2 ^ 52, quantum a d + 1, by decide, by omega, ?_⟩
    rw [e, Nat.pow_succ]; ring

/-! ## `roundRat` -/

/-- the signed, scaled, unbounded-exponent rounding of `num / den` -/
def sval (num : Int) (den : Nat) : Int :=
  if num < 0 then -(roundMag num.natAbs den : Int) else (roundMag num.natAbs den : Int)

theorem sval_natAbs (num : Int) (den : Nat) : (sval num den).natAbs = roundMag num.natAbs den := by
  unfold sval; split <;> simp

/-- **totality**: a result for every rational -/
theorem roundRat_total (num : Int) (den : Nat) (hd : 0 < den) : roundRat num den ≠ .zeroDen := by
  unfold roundRat finish
  rw [if_neg (by omega)]
  split <;> simp

theorem roundRat_zeroDen (num : Int) : roundRat num 0 = .zeroDen := by
  unfold roundRat; rw [if_pos rfl]

theorem roundRat_ok {num : Int} {den : Nat} {w : UInt64} (h : roundRat num den = .ok w) :
    0 < den ∧ (roundMag num.natAbs den).log2 < 2098 ∧ w = encodeScaled (decide (num < 0)) (roundMag num.natAbs den) := by
  unfold roundRat finish at h
  split at h
  · cases h
  · split at h
    · cases h
    · injection h with h
      exact ⟨by omega, by omega, h.symm⟩

theorem roundRat_overflow {num : Int} {den : Nat} {neg : Bool} (h : roundRat num den = .overflow neg) :
    0 < den ∧ 2098 ≤ (roundMag num.natAbs den).log2 ∧ neg = decide (num < 0) := by
  unfold roundRat finish at h
  split at h
  · cases h
  · split at h
    · injection h with h
      exact ⟨by omega, by assumption, h.symm⟩
    · cases h

/-- the value of a finite result is the signed rounding, and its magnitude is a finite double -/
theorem roundRat_decode {num : Int} {den : Nat} {w : UInt64} (h : roundRat num den = .ok w) :
    decode w = .fin (sval num den) := by
  obtain ⟨hd, hl, hw⟩ := roundRat_ok h
  rw [hw, decode_encodeScaled _ _ (roundMag_rep _ _ hd hl)]
  unfold sval
  by_cases hn : num < 0 <;> simp [hn]

/-- the value of any result in the extended order -/
theorem roundRat_ext (num : Int) (den : Nat) (hd : 0 < den) :
    (roundRat num den).ext =
      if (roundMag num.natAbs den).log2 < 2098 then .fin (sval num den)
      else if num < 0 then .ninf else .pinf := by
  cases hr : roundRat num den with
  | ok w =>
    obtain ⟨_, hl, _⟩ := roundRat_ok hr
    rw [if_pos hl]; exact roundRat_decode hr
  | overflow neg =>
    obtain ⟨_, hl, hn⟩ := roundRat_overflow hr
    rw [if_neg (by omega), hn]
    by_cases hn : num < 0 <;> simp [hn, Rounded.ext]
  | zeroDen => exact absurd hr (roundRat_total num den hd)

/-- `roundRat` depends on the rational only (in particular `roundRat (num * k) (den * k) = roundRat num den`) -/
theorem roundRat_congr (num num' : Int) (den den' : Nat) (hd : 0 < den) (hd' : 0 < den')
    (h : num * den' = num' * den) : roundRat num den = roundRat num' den' := by
  have hmag : roundMag num.natAbs den = roundMag num'.natAbs den' := by
    apply roundMag_congr _ _ _ _ hd hd'
    have := congrArg Int.natAbs h
    simpa [Int.natAbs_mul] using this
  have hsign : decide (num < 0) = decide (num' < 0) := by
    have h1 : (0 : Int) < den := by exact_mod_cast hd
    have h2 : (0 : Int) < den' := by exact_mod_cast hd'
    rw [decide_eq_decide]
    constructor
    · intro hn
      have : num * den' < 0 := Int.mul_neg_of_neg_of_pos hn h2
      rw [h] at this
      by_contra hc
      have : 0 ≤ num' * (den : Int) := Int.mul_nonneg (by omega) (by omega)
      omega
    · intro hn
      have : num' * den < 0 := Int.mul_neg_of_neg_of_pos hn h1
      rw [← h] at this
      by_contra hc
      have : 0 ≤ num * (den' : Int) := Int.mul_nonneg (by omega) (by omega)
      omega
  unfold roundRat
  rw [if_neg (by omega), if_neg (by omega), hmag, hsign]

theorem roundRat_scale (num : Int) (den k : Nat) (hd : 0 < den) (hk : 0 < k) :
    roundRat (num * k) (den * k) = roundRat num den := by
  apply roundRat_congr _ _ _ _ (Nat.mul_pos hd hk) hd
  push_cast; ring

/-! ## nearest, signed -/

theorem repU_zero : RepU 0 := ⟨0, 0, by decide, by simp⟩

/-- **nearest** on the signed scaled integers: no binary64 number `z / 2^1074` (any exponent) is nearer to
    `num / den` than the rounding; distances multiplied by `den * 2^1074` -/
theorem sval_nearest (num : Int) (den : Nat) (hd : 0 < den) (z : Int) (hz : RepU z.natAbs) :
    ((scale : Int) * num - sval num den * den).natAbs ≤ ((scale : Int) * num - z * den).natAbs := by
  have H1 := roundMag_nearest num.natAbs den hd z.natAbs hz
  have H0 := roundMag_nearest num.natAbs den hd 0 repU_zero
  unfold adiff at H1 H0
  rw [Nat.zero_mul] at H0
  have eA : (scale : Int) * num = if num < 0 then -((scale * num.natAbs : Nat) : Int) else ((scale * num.natAbs : Nat) : Int) := by
    split
    · have : (num.natAbs : Int) = -num := by omega
      rw [Nat.cast_mul, this]; ring
    · have : (num.natAbs : Int) = num := by omega
      rw [Nat.cast_mul, this]
  have eP : sval num den * den = if num < 0 then -((roundMag num.natAbs den * den : Nat) : Int)
      else ((roundMag num.natAbs den * den : Nat) : Int) := by
    unfold sval; split <;> push_cast <;> ring
  have eQ : z * den = if z < 0 then -((z.natAbs * den : Nat) : Int) else ((z.natAbs * den : Nat) : Int) := by
    split
    · have : (z.natAbs : Int) = -z := by omega
      rw [Nat.cast_mul, this]; ring
    · have : (z.natAbs : Int) = z := by omega
      rw [Nat.cast_mul, this]
  rw [eA, eP, eQ]
  generalize scale * num.natAbs = A at *
  generalize roundMag num.natAbs den * den = P at *
  generalize z.natAbs * den = Q at *
  split <;> split <;> omega

set_option exponentiation.threshold 1100 in
theorem scale_pos : 0 < scale := Nat.two_pow_pos 1074

theorem rep_log2 (r : Nat) (hr : Rep r) : r.log2 < 2098 := by
  obtain ⟨K, hK⟩ : ∃ K, K = 2098 := ⟨_, rfl⟩
  rw [← hK, log2_lt_iff _ _ (by omega)]
  obtain ⟨M, s, hM, hs, rfl⟩ := hr
  calc M * 2 ^ s < 2 ^ 53 * 2 ^ s := Nat.mul_lt_mul_of_pos_right hM (Nat.two_pow_pos _)
    _ = 2 ^ (53 + s) := by rw [Nat.pow_add]
    _ ≤ 2 ^ K := Nat.pow_le_pow_right (by decide) (by omega)

/-- the sign bit of a finite non-zero double is the sign of its value -/
theorem signBit_decode (w : UInt64) (z : Int) (h : decode w = .fin z) (hz : z ≠ 0) : signBit w = decide (z < 0) := by
  obtain ⟨sgn, e, m, hw, hs, he, hm, hs', he', hm'⟩ := toNat_fields w
  have he2 : e < 2047 := by
    rcases Nat.lt_or_ge e 2047 with he2 | he2
    · exact he2
    · exfalso
      have e47 : e = 2047 := by omega
      unfold decode at h
      simp only [← he', ← hm', e47] at h
      split at h
      · split at h
        · split at h <;> cases h
        · cases h
      · rename_i hc; exact hc rfl
  rw [decode_fields w sgn e m hw hs he2 hm] at h
  injection h with h
  generalize (if e = 0 then m else (2 ^ 52 + m) * 2 ^ (e - 1) : Nat) = mag at h
  unfold signBit; rw [← hs']
  rcases (show sgn = 0 ∨ sgn = 1 by omega) with h0 | h0 <;> subst h0 <;> simp at h ⊢ <;> omega

theorem negZero_eq : encodeScaled true 0 = 0x8000000000000000 := by decide

/-- **exact**: a rational that is a binary64 value (other than `-0.0`, which no rational denotes apart from `0 = +0.0`)
    is returned unchanged, bit for bit; `scale * num = z * den` says `num / den = z / 2^1074` -/
theorem roundRat_exact_int (num : Int) (den : Nat) (hd : 0 < den) (w : UInt64) (z : Int)
    (hw : decode w = .fin z) (hq : (scale : Int) * num = z * den) (hnz : w ≠ 0x8000000000000000) :
    roundRat num den = .ok w := by
  have hrep := decode_rep w z hw
  have hqn : scale * num.natAbs = z.natAbs * den := by
    have := congrArg Int.natAbs hq
    simpa [Int.natAbs_mul] using this
  have hmag : roundMag num.natAbs den = z.natAbs := roundMag_exact _ _ hd _ hrep.repU hqn
  have hS : (0 : Int) < scale := by exact_mod_cast scale_pos
  have hD : (0 : Int) < den := by exact_mod_cast hd
  have hsign : decide (num < 0) = signBit w := by
    by_cases hz : z = 0
    · subst hz
      have hn0 : num = 0 := by
        rw [Int.zero_mul] at hq
        rcases Int.mul_eq_zero.mp hq with h | h
        · omega
        · exact h
      subst hn0
      have := encodeScaled_decode w 0 hw
      cases hsb : signBit w
      · rfl
      · rw [hsb] at this
        exact absurd (this.symm.trans negZero_eq) hnz
    · rw [signBit_decode w z hw hz, decide_eq_decide]
      constructor
      · intro hn
        by_contra hc
        have h1 : (scale : Int) * num < 0 := Int.mul_neg_of_pos_of_neg hS hn
        have h2 : 0 ≤ z * (den : Int) := Int.mul_nonneg (by omega) (by omega)
        omega
      · intro hn
        by_contra hc
        have h1 : z * (den : Int) < 0 := Int.mul_neg_of_neg_of_pos hn hD
        have h2 : 0 ≤ (scale : Int) * num := Int.mul_nonneg (by omega) (by omega)
        omega
  unfold roundRat finish
  rw [if_neg (by omega), hmag, if_neg (by have := rep_log2 _ hrep; omega), hsign, encodeScaled_decode w z hw]

/-- the mirror image of a result -/
def negR : Rounded → Rounded
  | .ok w => .ok (negBits w)
  | .overflow b => .overflow (!b)
  | .zeroDen => .zeroDen

theorem encodeNat_false_lt (r : Nat) (hr : Rep r) : encodeNat false r < 2 ^ 63 := by
  rcases Nat.lt_or_ge r (2 ^ 52) with h | h
  · unfold encodeNat; rw [if_pos h]; simp; omega
  · obtain ⟨m, h1, h2, _, h4, e⟩ := encodeNat_normal false r hr h
    rw [e]; simp; omega

theorem encodeNat_true (r : Nat) : encodeNat true r = 2 ^ 63 + encodeNat false r := by
  unfold encodeNat; simp

theorem negBits_encode (b : Bool) (r : Nat) (hr : Rep r) : negBits (encodeScaled b r) = encodeScaled (!b) r := by
  have hlt := encodeNat_false_lt r hr
  rw [encodeScaled_eq, encodeScaled_eq]
  unfold negBits
  rw [UInt64.toNat_ofNat']
  cases b
  · rw [Bool.not_false, encodeNat_true]
    have e : (encodeNat false r % 2 ^ 64 + 2 ^ 63) % 2 ^ 64 = 2 ^ 63 + encodeNat false r := by omega
    rw [e]
  · rw [Bool.not_true, encodeNat_true]
    have e : ((2 ^ 63 + encodeNat false r) % 2 ^ 64 + 2 ^ 63) % 2 ^ 64 = encodeNat false r := by omega
    rw [e]

/-- **symmetry**: the rounding of `-q` is the mirror image of the rounding of `q` (sign bit flipped) -/
theorem roundRat_neg (num : Int) (den : Nat) (hn : num ≠ 0) : roundRat (-num) den = negR (roundRat num den) := by
  unfold roundRat finish
  by_cases hd : den = 0
  · rw [if_pos hd, if_pos hd]; rfl
  · rw [if_neg hd, if_neg hd, Int.natAbs_neg]
    have hs : decide (-num < 0) = !decide (num < 0) := by
      by_cases h : num < 0 <;> simp [h] <;> omega
    rw [hs]
    split
    · rfl
    · rename_i hl
      simp only [negR]
      rw [negBits_encode _ _ (roundMag_rep _ _ (by omega) (by omega))]

/-! ## monotonicity -/

theorem sval_repU (num : Int) (den : Nat) (hd : 0 < den) : RepU (sval num den).natAbs := by
  rw [sval_natAbs]; exact roundMag_repU _ _ hd

theorem sval_congr (num num' : Int) (den den' : Nat) (hd : 0 < den) (hd' : 0 < den')
    (h : num * den' = num' * den) : sval num den = sval num' den' := by
  have h1 := roundRat_congr num num' den den' hd hd' h
  have hmag : roundMag num.natAbs den = roundMag num'.natAbs den' := by
    apply roundMag_congr _ _ _ _ hd hd'
    have := congrArg Int.natAbs h
    simpa [Int.natAbs_mul] using this
  have h1 : (0 : Int) < den := by exact_mod_cast hd
  have h2 : (0 : Int) < den' := by exact_mod_cast hd'
  have hsign : num < 0 ↔ num' < 0 := by
    constructor
    · intro hn
      have : num * den' < 0 := Int.mul_neg_of_neg_of_pos hn h2
      rw [h] at this
      by_contra hc
      have : 0 ≤ num' * (den : Int) := Int.mul_nonneg (by omega) (by omega)
      omega
    · intro hn
      have : num' * den < 0 := Int.mul_neg_of_neg_of_pos hn h1
      rw [← h] at this
      by_contra hc
      have : 0 ≤ num * (den' : Int) := Int.mul_nonneg (by omega) (by omega)
      omega
  unfold sval
  rw [hmag]
  by_cases hn : num < 0
  · rw [if_pos hn, if_pos (hsign.mp hn)]
  · rw [if_neg hn, if_neg (fun h => hn (hsign.mpr h))]

/-- if the rounding of `q` lies above another double `z`, then `q` is at least the midpoint -/
theorem above_mid (num : Int) (den : Nat) (hd : 0 < den) (z : Int) (hz : RepU z.natAbs) (hlt : z < sval num den) :
    (sval num den + z) * den ≤ 2 * ((scale : Int) * num) := by
  have h := sval_nearest num den hd z hz
  have hD : (0 : Int) < den := by exact_mod_cast hd
  have h1 : z * den < sval num den * den := Int.mul_lt_mul_of_pos_right hlt hD
  rw [Int.add_mul]
  generalize (scale : Int) * num = u at *
  generalize sval num den * den = p1 at *
  generalize z * (den : Int) = p2 at *
  omega

theorem below_mid (num : Int) (den : Nat) (hd : 0 < den) (z : Int) (hz : RepU z.natAbs) (hlt : sval num den < z) :
    2 * ((scale : Int) * num) ≤ (sval num den + z) * den := by
  have h := sval_nearest num den hd z hz
  have hD : (0 : Int) < den := by exact_mod_cast hd
  have h1 : sval num den * den < z * den := Int.mul_lt_mul_of_pos_right hlt hD
  rw [Int.add_mul]
  generalize (scale : Int) * num = u at *
  generalize sval num den * den = p1 at *
  generalize z * (den : Int) = p2 at *
  omega

/-- the unbounded-exponent rounding is monotone in the rational -/
theorem sval_mono (n1 n2 : Int) (d1 d2 : Nat) (h1 : 0 < d1) (h2 : 0 < d2) (h : n1 * d2 ≤ n2 * d1) :
    sval n1 d1 ≤ sval n2 d2 := by
  by_contra hc
  have hlt : sval n2 d2 < sval n1 d1 := by omega
  have a1 := above_mid n1 d1 h1 (sval n2 d2) (sval_repU n2 d2 h2) hlt
  have a2 := below_mid n2 d2 h2 (sval n1 d1) (sval_repU n1 d1 h1) hlt
  have hD1 : (0 : Int) < d1 := by exact_mod_cast h1
  have hD2 : (0 : Int) < d2 := by exact_mod_cast h2
  have hS : (0 : Int) < scale := by exact_mod_cast scale_pos
  -- `2 S n2 d1 ≤ T d1 d2 ≤ 2 S n1 d2`
  have b1 : (sval n1 d1 + sval n2 d2) * d1 * d2 ≤ 2 * ((scale : Int) * n1) * d2 :=
    Int.mul_le_mul_of_nonneg_right a1 (by omega)
  have b2 : 2 * ((scale : Int) * n2) * d1 ≤ (sval n2 d2 + sval n1 d1) * d2 * d1 :=
    Int.mul_le_mul_of_nonneg_right a2 (by omega)
  have e1 : (sval n2 d2 + sval n1 d1) * d2 * d1 = (sval n1 d1 + sval n2 d2) * d1 * d2 := by ring
  have e2 : 2 * ((scale : Int) * n1) * d2 = (2 * scale) * (n1 * d2) := by ring
  have e3 : 2 * ((scale : Int) * n2) * d1 = (2 * scale) * (n2 * d1) := by ring
  rw [e1] at b2
  rw [e2] at b1
  rw [e3] at b2
  have b3 : (2 * (scale : Int)) * (n2 * d1) ≤ (2 * scale) * (n1 * d2) := Int.le_trans b2 b1
  have b4 : n2 * d1 ≤ n1 * d2 := Int.le_of_mul_le_mul_left b3 (by omega)
  have heq : n1 * d2 = n2 * d1 := by omega
  have := sval_congr n1 n2 d1 d2 h1 h2 heq
  omega

/-- **monotone**: `q1 ≤ q2` implies `round q1 ≤ round q2` in the order of doubles (overflow = the infinities) -/
theorem roundRat_mono (n1 n2 : Int) (d1 d2 : Nat) (h1 : 0 < d1) (h2 : 0 < d2) (h : n1 * d2 ≤ n2 * d1) :
    Ext.le (roundRat n1 d1).ext (roundRat n2 d2).ext = true := by
  have hm := sval_mono n1 n2 d1 d2 h1 h2 h
  rw [roundRat_ext n1 d1 h1, roundRat_ext n2 d2 h2]
  have hs1 := sval_natAbs n1 d1
  have hs2 := sval_natAbs n2 d2
  obtain ⟨K, hK⟩ : ∃ K, K = 2098 := ⟨_, rfl⟩
  rw [← hK]
  have l1 : (roundMag n1.natAbs d1).log2 < K ↔ (sval n1 d1).natAbs < 2 ^ K := by
    rw [hs1]; exact log2_lt_iff _ K (by omega)
  have l2 : (roundMag n2.natAbs d2).log2 < K ↔ (sval n2 d2).natAbs < 2 ^ K := by
    rw [hs2]; exact log2_lt_iff _ K (by omega)
  clear hs1 hs2
  have hv1 : (n1 < 0 ∧ sval n1 d1 ≤ 0) ∨ (¬ n1 < 0 ∧ 0 ≤ sval n1 d1) := by
    unfold sval; split <;> omega
  have hv2 : (n2 < 0 ∧ sval n2 d2 ≤ 0) ∨ (¬ n2 < 0 ∧ 0 ≤ sval n2 d2) := by
    unfold sval; split <;> omega
  generalize (roundMag n1.natAbs d1).log2 = L1 at *
  generalize (roundMag n2.natAbs d2).log2 = L2 at *
  generalize sval n1 d1 = v1 at *
  generalize sval n2 d2 = v2 at *
  have hB : 0 < 2 ^ K := Nat.two_pow_pos K
  generalize 2 ^ K = B at *
  by_cases c1 : L1 < K <;> by_cases c2 : L2 < K <;>
    by_cases s1 : n1 < 0 <;> by_cases s2 : n2 < 0 <;> simp [c1, c2, s1, s2, Ext.le] <;>
    (have l1' := l1.not; have l2' := l2.not; have l1m := l1.mp; have l2m := l2.mp; omega)

/-! ## the statements over ℚ -/

/-- the rational a finite double with scaled value `z` denotes -/
def valQ (z : Int) : ℚ := (z : ℚ) / (scale : ℚ)

theorem scaleQ_pos : (0 : ℚ) < (scale : ℚ) := by exact_mod_cast scale_pos

theorem diff_eq (num : Int) (den : Nat) (hd : 0 < den) (z : Int) :
    (num : ℚ) / den - valQ z = (((scale : Int) * num - z * den : Int) : ℚ) / ((den : ℚ) * scale) := by
  have h1 : (0 : ℚ) < den := by exact_mod_cast hd
  have h2 := scaleQ_pos
  unfold valQ
  push_cast
  field_simp

theorem absdiff_eq (num : Int) (den : Nat) (hd : 0 < den) (z : Int) :
    |(num : ℚ) / den - valQ z| = ((((scale : Int) * num - z * den).natAbs : ℕ) : ℚ) / ((den : ℚ) * scale) := by
  have h1 : (0 : ℚ) < den := by exact_mod_cast hd
  have h2 := scaleQ_pos
  rw [diff_eq num den hd z, abs_div, abs_of_pos (mul_pos h1 h2), Nat.cast_natAbs, Int.cast_abs]

/-- **nearest**: the value of the result is at least as near to `num / den` as the value of any finite double -/
theorem roundRat_nearest (num : Int) (den : Nat) (w : UInt64) (h : roundRat num den = .ok w) :
    ∃ z, decode w = .fin z ∧ ∀ w' z', decode w' = .fin z' →
      |(num : ℚ) / den - valQ z| ≤ |(num : ℚ) / den - valQ z'| := by
  obtain ⟨hd, _, _⟩ := roundRat_ok h
  refine ⟨sval num den, roundRat_decode h, ?_⟩
  intro w' z' hw'
  have hz' := (decode_rep w' z' hw').repU
  have hn := sval_nearest num den hd z' hz'
  rw [absdiff_eq num den hd, absdiff_eq num den hd]
  have h1 : (0 : ℚ) < den := by exact_mod_cast hd
  have h2 := scaleQ_pos
  apply div_le_div_of_nonneg_right _ (le_of_lt (mul_pos h1 h2))
  exact_mod_cast hn

/-- **exact**: if `num / den` is the value of the finite double `w` (not the bit pattern `-0.0`), the result is `w` -/
theorem roundRat_exact (num : Int) (den : Nat) (hd : 0 < den) (w : UInt64) (z : Int)
    (hw : decode w = .fin z) (hq : (num : ℚ) / den = valQ z) (hnz : w ≠ 0x8000000000000000) :
    roundRat num den = .ok w := by
  apply roundRat_exact_int num den hd w z hw _ hnz
  have h1 : (0 : ℚ) < den := by exact_mod_cast hd
  have h2 := scaleQ_pos
  have h0 := sub_eq_zero.mpr hq
  rw [diff_eq num den hd z, div_eq_zero_iff] at h0
  rcases h0 with h0 | h0
  · have : (scale : Int) * num - z * den = 0 := by exact_mod_cast h0
    omega
  · exact absurd h0 (ne_of_gt (mul_pos h1 h2))

/-- ... and decoding the result of a representable input gives the input back -/
theorem roundRat_exact_value (num : Int) (den : Nat) (w w' : UInt64) (z : Int)
    (hw : decode w = .fin z) (hq : (num : ℚ) / den = valQ z) (h : roundRat num den = .ok w') :
    decode w' = .fin z := by
  obtain ⟨z0, hz0, hn⟩ := roundRat_nearest num den w' h
  have h1 := hn w z hw
  rw [hq, sub_self, abs_zero] at h1
  have h2 : valQ z - valQ z0 = 0 := abs_eq_zero.mp (le_antisymm h1 (abs_nonneg _))
  have h3 : valQ z = valQ z0 := sub_eq_zero.mp h2
  unfold valQ at h3
  have h4 : (z : ℚ) = z0 := by
    have := scaleQ_pos
    field_simp at h3
    exact h3
  have h5 : z = z0 := by exact_mod_cast h4
  rw [h5]; exact hz0

/-- **monotone** over ℚ -/
theorem roundRat_mono_rat (n1 n2 : Int) (d1 d2 : Nat) (h1 : 0 < d1) (h2 : 0 < d2)
    (h : (n1 : ℚ) / d1 ≤ (n2 : ℚ) / d2) : Ext.le (roundRat n1 d1).ext (roundRat n2 d2).ext = true := by
  apply roundRat_mono n1 n2 d1 d2 h1 h2
  have hd1 : (0 : ℚ) < d1 := by exact_mod_cast h1
  have hd2 : (0 : ℚ) < d2 := by exact_mod_cast h2
  rw [div_le_div_iff₀ hd1 hd2] at h
  exact_mod_cast h

/-- equal rationals round alike -/
theorem roundRat_congr_rat (n1 n2 : Int) (d1 d2 : Nat) (h1 : 0 < d1) (h2 : 0 < d2)
    (h : (n1 : ℚ) / d1 = (n2 : ℚ) / d2) : roundRat n1 d1 = roundRat n2 d2 := by
  apply roundRat_congr n1 n2 d1 d2 h1 h2
  have hd1 : (d1 : ℚ) ≠ 0 := by exact_mod_cast (Nat.ne_of_gt h1)
  have hd2 : (d2 : ℚ) ≠ 0 := by exact_mod_cast (Nat.ne_of_gt h2)
  rw [div_eq_div_iff hd1 hd2] at h
  exact_mod_cast h

/-! ## the tie rule, on the bit pattern -/

/-- an even significand (in units of the binade's spacing) gives an even bit pattern -/
theorem encodeNat_even (neg : Bool) (k s : Nat) (hk : k ≤ 2 ^ 53) (hk2 : k % 2 = 0) (hr : Rep (k * 2 ^ s)) :
    encodeNat neg (k * 2 ^ s) % 2 = 0 := by
  have hZ2 : (k * 2 ^ s) % 2 = 0 := by
    rw [Nat.mul_mod, hk2]; simp
  rcases Nat.lt_or_ge (k * 2 ^ s) (2 ^ 52) with h | h
  · unfold encodeNat; rw [if_pos h]; cases neg <;> simp <;> omega
  · obtain ⟨m, h1, h2, h3, h4, e⟩ := encodeNat_normal neg _ hr h
    rw [e]
    have hm : m % 2 = 0 := by
      generalize (k * 2 ^ s).log2 - 52 = sh at h3
      rcases Nat.le_total sh s with hle | hle
      · obtain ⟨t, ht⟩ := Nat.le.dest hle
        have e1 : k * 2 ^ t * 2 ^ sh = m * 2 ^ sh := by
          rw [← h3, ← ht, Nat.pow_add]; ring
        have e2 : m = k * 2 ^ t := (Nat.eq_of_mul_eq_mul_right (Nat.two_pow_pos _) e1).symm
        rw [e2, Nat.mul_mod, hk2]; simp
      · obtain ⟨t, ht⟩ := Nat.le.dest hle
        have e1 : k * 2 ^ s = m * 2 ^ t * 2 ^ s := by
          rw [h3, ← ht, Nat.pow_add]; ring
        have e2 : k = m * 2 ^ t := Nat.eq_of_mul_eq_mul_right (Nat.two_pow_pos _) e1
        rcases Nat.eq_zero_or_pos t with h0 | h0
        · subst h0; simp at e2; omega
        · have h5 : 2 ^ 1 ≤ 2 ^ t := Nat.pow_le_pow_right (by decide) h0
          have h6 : m * 2 ^ 1 ≤ m * 2 ^ t := Nat.mul_le_mul_left _ h5
          omega
    cases neg <;> simp <;> omega

/-- **ties to even**: when a binary64 number other than the result is equally near to `num / den`, the lowest bit of
    the result is 0 (its significand is even) -/
theorem roundRat_tie_even (num : Int) (den : Nat) (w : UInt64) (h : roundRat num den = .ok w)
    (z : Int) (hz : RepU z.natAbs) (hne : z ≠ sval num den)
    (htie : ((scale : Int) * num - sval num den * den).natAbs = ((scale : Int) * num - z * den).natAbs) :
    w.toNat % 2 = 0 := by
  obtain ⟨hd, hl, hw⟩ := roundRat_ok h
  have hrep := roundMag_rep _ _ hd hl
  -- the tie on magnitudes
  have H0 := roundMag_nearest num.natAbs den hd 0 repU_zero
  unfold adiff at H0
  rw [Nat.zero_mul] at H0
  have hD : (0 : Int) < den := by exact_mod_cast hd
  have eA : (scale : Int) * num = if num < 0 then -((scale * num.natAbs : Nat) : Int) else ((scale * num.natAbs : Nat) : Int) := by
    split
    · have : (num.natAbs : Int) = -num := by omega
      rw [Nat.cast_mul, this]; ring
    · have : (num.natAbs : Int) = num := by omega
      rw [Nat.cast_mul, this]
  have eP : sval num den * den = if num < 0 then -((roundMag num.natAbs den * den : Nat) : Int)
      else ((roundMag num.natAbs den * den : Nat) : Int) := by
    unfold sval; split <;> push_cast <;> ring
  have eQ : z * den = if z < 0 then -((z.natAbs * den : Nat) : Int) else ((z.natAbs * den : Nat) : Int) := by
    split
    · have : (z.natAbs : Int) = -z := by omega
      rw [Nat.cast_mul, this]; ring
    · have : (z.natAbs : Int) = z := by omega
      rw [Nat.cast_mul, this]
  have hzpos : z ≠ 0 → 0 < z.natAbs * den := fun h0 => Nat.mul_pos (by omega) hd
  have hmag : z.natAbs ≠ roundMag num.natAbs den ∧
      adiff (scale * num.natAbs) (roundMag num.natAbs den * den) = adiff (scale * num.natAbs) (z.natAbs * den) := by
    have hne1 : z.natAbs = roundMag num.natAbs den → (num < 0 ↔ z < 0) → False := by
      intro e1 e2
      apply hne
      unfold sval
      by_cases hn : num < 0
      · rw [if_pos hn, ← e1]; have := e2.mp hn; omega
      · rw [if_neg hn, ← e1]; have : ¬ z < 0 := fun h => hn (e2.mpr h); omega
    have hne2 : z = 0 → roundMag num.natAbs den = 0 → False := by
      intro e1 e2
      apply hne
      unfold sval; rw [e1, e2]; split <;> rfl
    have hPQ : z.natAbs * den = roundMag num.natAbs den * den → z.natAbs = roundMag num.natAbs den :=
      Nat.eq_of_mul_eq_mul_right hd
    unfold adiff
    rw [eA, eP, eQ] at htie
    clear eA eP eQ
    generalize scale * num.natAbs = A at *
    generalize roundMag num.natAbs den * den = P at *
    generalize z.natAbs * den = Q at *
    by_cases hn : num < 0 <;> by_cases hzn : z < 0
    · rw [if_pos hn, if_pos hn, if_pos hzn] at htie
      refine ⟨fun e => hne1 e ⟨fun _ => hzn, fun _ => hn⟩, ?_⟩
      omega
    · rw [if_pos hn, if_pos hn, if_neg hzn] at htie
      by_cases hz0 : z = 0
      · refine ⟨fun e => hne2 hz0 (by omega), ?_⟩
        have hQ0 : ¬ 0 < Q := fun hq => by omega
        omega
      · have := hzpos hz0
        exfalso; omega
    · rw [if_neg hn, if_neg hn, if_pos hzn] at htie
      have := hzpos (by omega)
      exfalso; omega
    · rw [if_neg hn, if_neg hn, if_neg hzn] at htie
      refine ⟨fun e => hne1 e ⟨fun h => absurd h hn, fun h => absurd h hzn⟩, ?_⟩
      omega
  have hk := roundMag_tie num.natAbs den hd z.natAbs hz hmag.1 hmag.2
  rw [hw, encodeScaled_eq, UInt64.toNat_ofNat_of_lt' (encodeNat_lt _ _ hrep)]
  rw [roundMag_eq] at hrep ⊢
  exact encodeNat_even _ _ _ (signif_le _ _ hd) hk hrep

/-! ## overflow happens exactly from `2^1024 - 2^970` on -/

theorem pow2098 : (2 : Nat) ^ 2098 = 2 ^ 54 * 2 ^ 2044 := by
  rw [← Nat.pow_add]

set_option exponentiation.threshold 2200 in
theorem pow2045 : (2 : Nat) ^ 2045 = 2 * 2 ^ 2044 := by
  rw [show (2045 : Nat) = 2044 + 1 by rfl, Nat.pow_succ, Nat.mul_comm]

set_option exponentiation.threshold 2200 in
/-- overflow iff `|num / den| ≥ 2^1024 - 2^970` (the midpoint between the largest finite double and `2^1024`;
    the midpoint itself rounds to even, i.e. up); scaled by `2^1074`: `(2^54 - 1) * 2^2044` -/
theorem roundMag_overflow_iff (n d : Nat) (hd : 0 < d) :
    2098 ≤ (roundMag n d).log2 ↔ (2 ^ 54 - 1) * (2 ^ 2044 * d) ≤ scale * n := by
  have hlog : 2098 ≤ (roundMag n d).log2 ↔ 2 ^ 2098 ≤ roundMag n d := by
    have := log2_lt_iff (roundMag n d) 2098 (by decide)
    omega
  rw [hlog, pow2098]
  constructor
  · intro hZ
    have hmax : RepU ((2 ^ 53 - 1) * 2 ^ 2045) := ⟨2 ^ 53 - 1, 2045, by decide, rfl⟩
    have hn := roundMag_nearest n d hd _ hmax
    have h1 : 2 ^ 54 * (2 ^ 2044 * d) ≤ roundMag n d * d := by
      rw [← Nat.mul_assoc]; exact Nat.mul_le_mul_right d hZ
    have h2 : (2 ^ 53 - 1) * 2 ^ 2045 * d = (2 ^ 54 - 2) * (2 ^ 2044 * d) := by
      rw [pow2045]; generalize (2 : Nat) ^ 2044 = P; ring
    rw [h2] at hn
    unfold adiff at hn
    generalize scale * n = a at *
    generalize roundMag n d * d = X at *
    generalize 2 ^ 2044 * d = E at *
    omega
  · intro hT
    apply Nat.le_of_not_gt
    intro hlt
    rw [← pow2098] at hlt
    have hl : (roundMag n d).log2 < 2098 := (log2_lt_iff _ 2098 (by decide)).mpr hlt
    rw [roundMag_eq] at hlt
    revert hT hlt
    generalize scale * n = a
    intro hT hlt
    have hE : 0 < 2 ^ 2044 * d := Nat.mul_pos (Nat.pow_pos (n := 2044) (Nat.succ_pos 1)) hd
    -- the spacing is `2^2045`
    have hs1 : 2045 ≤ quantum a d := by
      unfold quantum
      have h1 : 2 ^ 2097 * d ≤ a := by
        have : (2 : Nat) ^ 2097 = 2 ^ 53 * 2 ^ 2044 := by rw [← Nat.pow_add]
        rw [this, Nat.mul_assoc]
        refine Nat.le_trans (Nat.mul_le_mul_right _ ?_) hT
        decide
      have h2 : 2 ^ 2097 ≤ a / d := (Nat.le_div_iff_mul_le hd).mpr h1
      have h3 : a / d ≠ 0 := by
        have : 0 < 2 ^ 2097 := Nat.two_pow_pos _
        omega
      have := (Nat.le_log2 h3).mpr h2
      omega
    have hk2 := le_signif a d (by omega)
    have hs2 : quantum a d = 2045 := by
      have h3 : 2 ^ 52 * 2 ^ quantum a d ≤ rneDiv a (d * 2 ^ quantum a d) * 2 ^ quantum a d :=
        Nat.mul_le_mul_right _ hk2
      rw [← Nat.pow_add] at h3
      have h4 : 52 + quantum a d < 2098 := (Nat.pow_lt_pow_iff_right (by decide)).mp (Nat.lt_of_le_of_lt h3 hlt)
      omega
    rw [hs2] at hlt
    have hk3 : rneDiv a (d * 2 ^ 2045) < 2 ^ 53 := by
      have : (2 : Nat) ^ 2098 = 2 ^ 53 * 2 ^ 2045 := by rw [← Nat.pow_add]
      rw [this] at hlt
      exact Nat.lt_of_mul_lt_mul_right hlt
    have hb : d * 2 ^ 2045 = 2 * (2 ^ 2044 * d) := by rw [pow2045]; ring
    rw [hb] at hk3
    have hbpos : 0 < 2 * (2 ^ 2044 * d) := by omega
    have hq : 2 ^ 53 - 1 ≤ a / (2 * (2 ^ 2044 * d)) := by
      rw [Nat.le_div_iff_mul_le hbpos]
      have : (2 ^ 53 - 1) * (2 * (2 ^ 2044 * d)) = (2 ^ 54 - 2) * (2 ^ 2044 * d) := by ring
      rw [this]
      refine Nat.le_trans (Nat.mul_le_mul_right _ ?_) hT
      decide
    have hkq := le_rneDiv a (2 * (2 ^ 2044 * d))
    have hdm := Nat.div_add_mod a (2 * (2 ^ 2044 * d))
    have hqe : a / (2 * (2 ^ 2044 * d)) = 2 ^ 53 - 1 := by omega
    rw [hqe] at hdm
    have hbq : 2 * (2 ^ 2044 * d) * (2 ^ 53 - 1) = (2 ^ 54 - 2) * (2 ^ 2044 * d) := by ring
    rw [hbq] at hdm
    rcases rneDiv_cases a (2 * (2 ^ 2044 * d)) with ⟨e, h5, h6⟩ | ⟨e, _, _⟩
    · rw [hqe] at h6
      generalize 2 ^ 2044 * d = E at *
      generalize a % (2 * E) = r at *
      have : 2 * r = 2 * E := by omega
      have := h6 this
      omega
    · omega

/-- **overflow** of `roundRat`: exactly from the midpoint `2^1024 - 2^970` on (scaled: `(2^54 - 1) * 2^2044`) -/
theorem roundRat_overflow_iff (num : Int) (den : Nat) (hd : 0 < den) :
    roundRat num den = .overflow (decide (num < 0)) ↔ (2 ^ 54 - 1) * (2 ^ 2044 * den) ≤ scale * num.natAbs := by
  rw [← roundMag_overflow_iff _ _ hd]
  unfold roundRat finish
  rw [if_neg (by omega)]
  constructor
  · intro h
    split at h
    · assumption
    · cases h
  · intro h
    rw [if_pos h]

theorem roundRat_overflow_sign {num : Int} {den : Nat} {neg : Bool} (h : roundRat num den = .overflow neg) :
    neg = decide (num < 0) := (roundRat_overflow h).2.2

/-- the same over ℚ -/
theorem roundRat_overflow_iff_rat (num : Int) (den : Nat) (hd : 0 < den) :
    roundRat num den = .overflow (decide (num < 0)) ↔ (2 ^ 1024 - 2 ^ 970 : ℚ) ≤ |(num : ℚ) / den| := by
  rw [roundRat_overflow_iff num den hd]
  have h1 : (0 : ℚ) < den := by exact_mod_cast hd
  have h2 := scaleQ_pos
  have hS : (scale : ℚ) = 2 ^ 1074 := by
    unfold scale; simp only [Nat.cast_pow, Nat.cast_ofNat]
  have e1 : (2 : ℚ) ^ 1024 * 2 ^ 1074 = 2 ^ 54 * 2 ^ 2044 := by rw [← pow_add, ← pow_add]
  have e2 : (2 : ℚ) ^ 970 * 2 ^ 1074 = 2 ^ 2044 := by rw [← pow_add]
  have habs : |(num : ℚ) / den| = ((num.natAbs : ℕ) : ℚ) / den := by
    rw [abs_div, abs_of_pos h1, Nat.cast_natAbs, Int.cast_abs]
  rw [habs, le_div_iff₀ h1]
  have hN : (2 ^ 54 - 1) * (2 ^ 2044 * den) ≤ scale * num.natAbs ↔
      2 ^ 54 * (2 ^ 2044 * den) ≤ scale * num.natAbs + 2 ^ 2044 * den := by
    generalize 2 ^ 2044 * den = E
    generalize scale * num.natAbs = a
    omega
  have hQ : 2 ^ 54 * (2 ^ 2044 * den) ≤ scale * num.natAbs + 2 ^ 2044 * den ↔
      (2 : ℚ) ^ 54 * ((2 : ℚ) ^ 2044 * den) ≤ (scale : ℚ) * (num.natAbs : ℚ) + (2 : ℚ) ^ 2044 * den := by
    rw [← Nat.cast_le (α := ℚ)]
    simp only [Nat.cast_mul, Nat.cast_pow, Nat.cast_add, Nat.cast_ofNat]
  rw [hN, hQ, hS]
  generalize (num.natAbs : ℚ) = N
  generalize (den : ℚ) = D at h1 ⊢
  generalize (2 : ℚ) ^ 1024 = A at e1 ⊢
  generalize (2 : ℚ) ^ 970 = B at e2 ⊢
  generalize (2 : ℚ) ^ 2044 = C at e1 e2 ⊢
  have hSp : (0 : ℚ) < 2 ^ 1074 := by rw [← hS]; exact h2
  generalize (2 : ℚ) ^ 1074 = S at e1 e2 hSp ⊢
  have key : (A - B) * D * S = 2 ^ 54 * (C * D) - C * D := by
    calc (A - B) * D * S = (A * S - B * S) * D := by ring
      _ = (2 ^ 54 * C - C) * D := by rw [e1, e2]
      _ = 2 ^ 54 * (C * D) - C * D := by ring
  constructor
  · intro h
    have h3 : (A - B) * D * S ≤ N * S := by rw [key]; linarith
    exact le_of_mul_le_mul_right h3 hSp
  · intro h
    have h3 : (A - B) * D * S ≤ N * S := mul_le_mul_of_nonneg_right h (le_of_lt hSp)
    rw [key] at h3; linarith

end Yaql.Props.FloatRound
