import Yaql.Props.C16
import Yaql.Props.FloatRound
/-!
C16, the value clause of float literals: the double a literal `ddd.ddd` denotes is the decimal rational it spells,
correctly rounded - a statement about the MODEL (`Lexer.literalFloat` = `FloatRound.roundRat digits (10^k)`), which the
harness compares bit for bit with the `Constant.value` of the real lexer/parser.  Until this file existed the rounding
was delegated to the platform (`float()` trusted); now only the correspondence model <-> CPython `float(str)` is tested.
-/
namespace Yaql.Props.C16
open Yaql.Lexer Yaql.Syntax

/-- the decimal rational a literal `a.b` spells: `digits(a b) / 10^|b|` -/
def literalQ (cc : CharCfg) (a b : List Char) : ℚ := (digitsVal cc (a ++ b) : ℚ) / (10 ^ b.length : ℕ)

open Yaql.FloatRound Yaql.Props.FloatRound in
/-- **the value of a float literal is the correctly rounded decimal rational** (inside the model, proved for all digit
strings): `literalFloat` is `roundRat digits (10^k)` with overflow mapped to `+inf`; so
(1) it is never the "not a rational" stop; (2) it is `+inf` exactly when the decimal is `≥ 2^1024 - 2^970`;
(3) otherwise it is a finite double whose value is at least as near to the decimal as that of any finite double
(a tie goes to the even significand: `FloatRound.roundRat_tie_even`); (4) a decimal that is the value of a finite
double is that double, bit for bit; (5) a longer spelling of the same rational (`1.50` / `1.5`) is the same double;
(6) it is monotone in the decimal. -/
theorem literalFloat_spec (cc : CharCfg) (a b : List Char) :
    roundRat (digitsVal cc (a ++ b) : Nat) (10 ^ b.length) ≠ .zeroDen ∧
    (literalFloat cc a b = pinfBits ↔ (2 ^ 1024 - 2 ^ 970 : ℚ) ≤ literalQ cc a b) ∧
    (literalQ cc a b < (2 ^ 1024 - 2 ^ 970 : ℚ) →
      ∃ z, decode (literalFloat cc a b) = .fin z ∧ ∀ w' z', decode w' = .fin z' →
        |literalQ cc a b - valQ z| ≤ |literalQ cc a b - valQ z'|) ∧
    (∀ w z, decode w = .fin z → literalQ cc a b = valQ z → w ≠ 0x8000000000000000 → literalFloat cc a b = w) ∧
    (∀ a' b', literalQ cc a b = literalQ cc a' b' → literalFloat cc a b = literalFloat cc a' b') ∧
    (∀ a' b', literalQ cc a b ≤ literalQ cc a' b' →
      Ext.le (decode (literalFloat cc a b)) (decode (literalFloat cc a' b')) = true) := by
  have hpos : ∀ k : Nat, 0 < 10 ^ k := fun k => Nat.pow_pos (by decide)
  have hd := hpos b.length
  have hq : ∀ a b : List Char, literalQ cc a b = ((digitsVal cc (a ++ b) : Nat) : Int) / ((10 ^ b.length : ℕ) : ℚ) := by
    intro a b; unfold literalQ; push_cast; rfl
  have hnn : ¬ ((digitsVal cc (a ++ b) : Nat) : Int) < 0 := by omega
  have hov := roundRat_overflow_iff_rat (digitsVal cc (a ++ b) : Nat) (10 ^ b.length) hd
  rw [decide_eq_false hnn, abs_of_nonneg (by positivity), ← hq] at hov
  -- the value of `literalFloat` in the extended order is that of the rounding
  have hext : ∀ a b : List Char, decode (literalFloat cc a b) =
      (roundRat (digitsVal cc (a ++ b) : Nat) (10 ^ b.length)).ext := by
    intro a b
    unfold literalFloat
    cases hr : roundRat (digitsVal cc (a ++ b) : Nat) (10 ^ b.length) with
    | ok w => rfl
    | overflow neg =>
      have hs := roundRat_overflow_sign hr
      have : ¬ ((digitsVal cc (a ++ b) : Nat) : Int) < 0 := by omega
      rw [decide_eq_false this] at hs
      subst hs; decide
    | zeroDen => exact absurd hr (roundRat_total _ _ (hpos _))
  refine ⟨roundRat_total _ _ hd, ?_, ?_, ?_, ?_, ?_⟩
  · rw [← hov]
    unfold literalFloat
    cases hr : roundRat (digitsVal cc (a ++ b) : Nat) (10 ^ b.length) with
    | ok w =>
      constructor
      · intro hw
        obtain ⟨z, hz⟩ := roundRat_ok_fin hr
        rw [show w = pinfBits from hw, show decode pinfBits = .pinf by decide] at hz
        cases hz
      · intro h; cases h
    | overflow neg =>
      have hs := roundRat_overflow_sign hr
      rw [decide_eq_false hnn] at hs
      subst hs; simp
    | zeroDen => exact absurd hr (roundRat_total _ _ hd)
  · intro hlt
    unfold literalFloat
    cases hr : roundRat (digitsVal cc (a ++ b) : Nat) (10 ^ b.length) with
    | ok w =>
      obtain ⟨z, hz, hn⟩ := roundRat_nearest _ _ w hr
      refine ⟨z, hz, ?_⟩
      intro w' z' hw'
      rw [hq]; exact hn w' z' hw'
    | overflow neg =>
      have hs := roundRat_overflow_sign hr
      rw [decide_eq_false hnn] at hs
      subst hs
      exact absurd (hov.mp hr) (not_le.mpr hlt)
    | zeroDen => exact absurd hr (roundRat_total _ _ hd)
  · intro w z hw hqz hnz
    have := roundRat_exact (digitsVal cc (a ++ b) : Nat) (10 ^ b.length) hd w z hw (by rw [← hq]; exact hqz) hnz
    unfold literalFloat; rw [this]
  · intro a' b' he
    have := roundRat_congr_rat (digitsVal cc (a ++ b) : Nat) (digitsVal cc (a' ++ b') : Nat) _ _ hd (hpos b'.length)
      (by rw [← hq, ← hq]; exact he)
    unfold literalFloat; rw [this]
  · intro a' b' hle
    rw [hext, hext]
    exact roundRat_mono_rat _ _ _ _ hd (hpos b'.length) (by rw [← hq, ← hq]; exact hle)

-- `1.50` and `1.5` are the double 1.5; `0.1` is 0x3FB999999999999A; 400 digits before the dot are `inf`
example : literalFloat asciiCfg.chars ['1'] ['5', '0'] = 0x3FF8000000000000 ∧
    literalFloat asciiCfg.chars ['1'] ['5'] = 0x3FF8000000000000 ∧
    literalFloat asciiCfg.chars ['0'] ['1'] = 0x3FB999999999999A ∧
    literalFloat asciiCfg.chars (List.replicate 400 '1') ['5'] = Yaql.FloatRound.pinfBits := by decide +kernel
-- the hypotheses of `literalFloat_spec` (4) are satisfiable: 2.5 is a double
example : Yaql.FloatRound.decode 0x4004000000000000 = .fin (5 * 2 ^ 1073) := by decide +kernel

end Yaql.Props.C16
