import Yaql.Props.C04DispatchSite
/-!
C04 / C05 over the generated registry, part D: the methods of the fragment, second half.
Per call site `c` three kernel evaluations against `Gen/RegistryTypes.lean` (regenerated from the live
`yaql.create_context()` on every run):
* `obs_c`   the representatives the translator proposes (`repsOfCallee c`) look the same as the argument shapes they
            stand for to EVERY parameter type registered under the name, before and after evaluation;
* `inv_c`   `EvalDispatch.dispatchOf` answers every call shape of the fragment like its representative;
* `reps_c`  on the representatives, `dispatchOf` = `Resolve.resolve` on the generated overload family (live parameter
            types, class lattice, layers): same definition (python payload) or same error class, same arguments evaluated.
`Props/C04DispatchGen.lean` turns the three into the statement for every shape of the fragment (`Props/C04Dispatch.lean`:
`resolve_congr`).
-/
namespace Yaql.Props.C04DispatchGen
open Yaql Yaql.Eval Yaql.EvalDispatch Yaql.Gen.RegistryTypes

set_option maxRecDepth 1000000

theorem obs_fn_aggregate : siteObs (.fn .aggregate) = true := by decide +kernel
theorem inv_fn_aggregate : siteInv (.fn .aggregate) = true := by decide +kernel
theorem reps_fn_aggregate : siteReps (.fn .aggregate) = true := by decide +kernel

theorem obs_fn_sum : siteObs (.fn .sum) = true := by decide +kernel
theorem inv_fn_sum : siteInv (.fn .sum) = true := by decide +kernel
theorem reps_fn_sum : siteReps (.fn .sum) = true := by decide +kernel

theorem obs_fn_first : siteObs (.fn .first) = true := by decide +kernel
theorem inv_fn_first : siteInv (.fn .first) = true := by decide +kernel
theorem reps_fn_first : siteReps (.fn .first) = true := by decide +kernel

theorem obs_fn_toList : siteObs (.fn .toList) = true := by decide +kernel
theorem inv_fn_toList : siteInv (.fn .toList) = true := by decide +kernel
theorem reps_fn_toList : siteReps (.fn .toList) = true := by decide +kernel

theorem obs_fn_take : siteObs (.fn .take) = true := by decide +kernel
theorem inv_fn_take : siteInv (.fn .take) = true := by decide +kernel
theorem reps_fn_take : siteReps (.fn .take) = true := by decide +kernel

theorem obs_fn_skip : siteObs (.fn .skip) = true := by decide +kernel
theorem inv_fn_skip : siteInv (.fn .skip) = true := by decide +kernel
theorem reps_fn_skip : siteReps (.fn .skip) = true := by decide +kernel

theorem obs_fn_get : siteObs (.fn .get) = true := by decide +kernel
theorem inv_fn_get : siteInv (.fn .get) = true := by decide +kernel
theorem reps_fn_get : siteReps (.fn .get) = true := by decide +kernel

theorem obs_fn_len : siteObs (.fn .len) = true := by decide +kernel
theorem inv_fn_len : siteInv (.fn .len) = true := by decide +kernel
theorem reps_fn_len : siteReps (.fn .len) = true := by decide +kernel

theorem obs_fn_any : siteObs (.fn .any) = true := by decide +kernel
theorem inv_fn_any : siteInv (.fn .any) = true := by decide +kernel
theorem reps_fn_any : siteReps (.fn .any) = true := by decide +kernel

theorem obs_fn_all : siteObs (.fn .all) = true := by decide +kernel
theorem inv_fn_all : siteInv (.fn .all) = true := by decide +kernel
theorem reps_fn_all : siteReps (.fn .all) = true := by decide +kernel

end Yaql.Props.C04DispatchGen
