import Yaql.Model.EngineOptions
/-!
# C10 - an engine finalises under the option combination it was created with

For every history of a host that creates engines from one option dictionary and keeps changing that dictionary:
what engine `i` returns for a value is `convOut` under the options the dictionary held WHEN ENGINE `i` WAS
CREATED - of nothing the host did to the dictionary afterwards (`engine_options_fixed`).  With a view instead
of a snapshot the four engines of the property's quantifier all finalise with the last combination
(`view_follows_the_host`).
-/
namespace Yaql.Props.C10
open Yaql Yaql.Convert Yaql.EngineOptions

theorem stateAfter_engines : ∀ (ops : List Op) (st : St),
    (stateAfter st ops).engines = st.engines ++ createdWith st.hostOpts ops ∧
    (stateAfter st ops).hostOpts = optsAfter st.hostOpts ops
  | [], st => by simp [stateAfter, createdWith, optsAfter]
  | .setOptions o :: r, st => by
    have ih := stateAfter_engines r (step st (.setOptions o)).1
    simpa [stateAfter, createdWith, optsAfter, step] using ih
  | .create :: r, st => by
    have ih := stateAfter_engines r (step st .create).1
    simpa [stateAfter, createdWith, optsAfter, step] using ih
  | .finalize i v :: r, st => by
    have ih := stateAfter_engines r (step st (.finalize i v)).1
    simpa [stateAfter, createdWith, optsAfter, step] using ih

theorem run_append : ∀ (pre post : List Op) (st : St),
    run st (pre ++ post) = run st pre ++ run (stateAfter st pre) post
  | [], post, st => rfl
  | op :: pre, post, st => by
    simp only [List.cons_append, run, stateAfter]
    rw [run_append pre post]

theorem run_length : ∀ (ops : List Op) (st : St), (run st ops).length = ops.length
  | [], _ => rfl
  | op :: r, st => by simp [run, run_length r]

/-- **the combination an engine finalises with is the one it was created with**: after ANY history `pre` (engines
    created, the host's dictionary rewritten any number of times before and after), `finalize i v` returns the
    finalisation of `v` under the options the dictionary held at the creation of engine `i` -/
theorem engine_options_fixed (o0 : Opts) (pre : List Op) (i : Nat) (v : Py) (post : List Op) :
    (run { hostOpts := o0 } (pre ++ .finalize i v :: post))[pre.length]? =
      some (((createdWith o0 pre)[i]?).map fun o => convOut o none v) := by
  rw [run_append]
  rw [List.getElem?_append_right (by rw [run_length]; exact Nat.le_refl _)]
  simp only [run_length, Nat.sub_self, run, List.getElem?_cons_zero]
  have h := (stateAfter_engines pre { hostOpts := o0 }).1
  simp only [List.nil_append] at h
  show some ((step (stateAfter { hostOpts := o0 } pre) (.finalize i v)).2) = _
  simp only [step, h]

/-- in particular what the host writes into its dictionary AFTER the creation changes nothing -/
theorem later_updates_invisible (o0 o1 o2 : Opts) (v : Py) :
    run { hostOpts := o0 } [.setOptions o1, .create, .setOptions o2, .finalize 0 v] =
      [none, none, none, some (convOut o1 none v)] := rfl

/-- the contrasting design follows the host: an engine created for (tuples -> lists, sets kept) hands out tuples and
    lists-for-sets once the host has flipped its dictionary for the next engine -/
theorem view_follows_the_host :
    let v : Py := .seq .tuple [.seq .fset [.sc (.int 1)]]
    run {} [.setOptions { t2l := true, s2l := false }, .create, .setOptions { t2l := false, s2l := true }, .create,
            .finalize 0 v, .finalize 1 v] =
      [none, none, none, none, some (.ok (.seq .list [.seq .set [.sc (.int 1)]])), some (.ok (.seq .tuple [.seq .list [.sc (.int 1)]]))] ∧
    runView {} [.setOptions { t2l := true, s2l := false }, .create, .setOptions { t2l := false, s2l := true }, .create,
                .finalize 0 v, .finalize 1 v] =
      [none, none, none, none, some (.ok (.seq .tuple [.seq .list [.sc (.int 1)]])), some (.ok (.seq .tuple [.seq .list [.sc (.int 1)]]))] := by
  refine ⟨rfl, rfl⟩

end Yaql.Props.C10
