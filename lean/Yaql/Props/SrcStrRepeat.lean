import Yaql.Gen.SrcStrRepeat
import Yaql.Lemmas.PyPrelude
import Yaql.Lemmas.PyLoops
import Yaql.Props.SrcLimits
/-!
Equivalence of the definitions translated from the CURRENT yaql source (`Yaql.Gen.SrcStrRepeat`, regenerated on
every run by harness/py2lean.py) with the hand-written model - for all inputs.  String repetition with its memory
estimate (strings.py; shared by C19 and C08).
-/
namespace Yaql.Props.SrcStrRepeat
open Yaql Yaql.Gen Yaql.Lemmas.PyLoops

theorem string_by_int_src_eq (sizes : Limits.SizeCfg) (kind : Limits.SeqK) (left : List Char) (right engine : Int) :
    SrcStrRepeat.string_by_int sizes kind left right engine
      = if Limits.stringByIntCheck sizes engine (Limits.strClassOf (Py.maxCp left)) left.length right
        then .ok (Strings.repeatStr left right) else .error (.other 1) := by
  unfold SrcStrRepeat.string_by_int Limits.stringByIntCheck
  rw [SrcLimits.limit_memory_usage_src_eq]
  have h0 : Limits.SizeCfg.strSize sizes (Limits.strClassOf (Py.maxCp ([] : List Char))) ([] : List Char).length
      = sizes.strAscii := by simp [Limits.SizeCfg.strSize]
  simp only [h0]
  cases Limits.limitMemory engine [(-right + 1, sizes.strAscii),
      (right, sizes.strSize (Limits.strClassOf (Py.maxCp left)) left.length)] <;>
    simp [Py.repeat_, Strings.repeatStr]

theorem int_by_string_src_eq (sizes : Limits.SizeCfg) (kind : Limits.SeqK) (left : Int) (right : List Char) (engine : Int) :
    SrcStrRepeat.int_by_string sizes kind left right engine
      = if Limits.stringByIntCheck sizes engine (Limits.strClassOf (Py.maxCp right)) right.length left
        then .ok (Strings.repeatStr right left) else .error (.other 1) := by
  unfold SrcStrRepeat.int_by_string
  exact string_by_int_src_eq ..

end Yaql.Props.SrcStrRepeat
