import Yaql.Props.C04
import Yaql.Props.C18
/-!
C18 instantiated with the reference evaluator of C04 (`Model/Eval.lean`).

`Yaql.Eval.eval` is purely functional: a context is an immutable chain of frames (`Ctx = List Frame`,
head = the context itself) and an evaluation returns a value, not a store.  So the abstract,
store-based `C18.eval_writes_private` (whose `Frame` hypothesis speaks about a mutable cell store, the
shape of the real `contexts.py`) has no cell store to be instantiated with here; instead the evaluator
itself is turned into a `Sched` machine:

* shared component = the prepared context chain (the statements are part of each thread's program,
  they are immutable values as well);
* private state of a thread = its program: a list of statements, each with the child frame the host
  made for it (holding the thread's `$`) and its fuel; plus the results so far;
* one step = one statement evaluated in `child :: shared` (the statement-level granularity; the
  dispatch-level interleaving is what the harness explores on the real code).

`ReadOnly` then holds by construction, and `C04.frame` adds what a thread can get back: a context
it is handed consists of new frames on a suffix of `child :: shared` - the shared frames occur in it
unmodified (`frame_root`: the root of the prepared chain stays at the bottom).
-/
namespace Yaql.Props.C18
open Yaql.Sched Yaql.Eval

/-- one statement of a thread: fuel, the child frame the host created for it, the parsed statement -/
structure Job where
  fuel  : Nat
  child : Yaql.Eval.Frame
  expr  : Expr

structure EvalState where
  jobs : List Job
  outs : List (R Obj) := []

/-- the `Sched` machine of the reference evaluator over a shared prepared context chain -/
def refMachine : Machine Ctx EvalState (List (R Obj)) where
  step := fun shared p =>
    match p.jobs with
    | [] => .inr p.outs
    | j :: rest => .inl (shared, { jobs := rest, outs := p.outs ++ [eval j.fuel (j.child :: shared) j.expr] })

/-- every step of the reference evaluator's machine leaves the shared chain as it is -/
theorem refMachine_readOnly : ReadOnly refMachine (fun _ => True) := by
  intro s p s' p' _ h
  simp only [refMachine] at h
  cases hj : p.jobs with
  | nil => simp [hj] at h
  | cons j rest =>
      simp only [hj, Sum.inl.injEq, Prod.mk.injEq] at h
      exact ⟨h.1.symm, trivial⟩

/-- what a thread computes alone: every statement evaluated in its own child of the shared chain -/
def refDen (shared : Ctx) (p : EvalState) : List (R Obj) :=
  p.outs ++ p.jobs.map fun j => eval j.fuel (j.child :: shared) j.expr

theorem refMachine_solo (shared : Ctx) : ∀ (jobs : List Job) (outs : List (R Obj)),
    SoloResult refMachine shared (.running { jobs := jobs, outs := outs }) (refDen shared { jobs := jobs, outs := outs })
  | [], outs => ⟨1, by simp [soloIter, stepThread, refMachine, refDen]⟩
  | j :: rest, outs => by
      obtain ⟨n, hn⟩ := refMachine_solo shared rest (outs ++ [eval j.fuel (j.child :: shared) j.expr])
      refine ⟨n + 1, ?_⟩
      rw [soloIter_succ]
      have : stepThread refMachine shared (.running { jobs := j :: rest, outs := outs }) =
          (shared, .running { jobs := rest, outs := outs ++ [eval j.fuel (j.child :: shared) j.expr] }) := by
        simp [stepThread, refMachine]
      simp only [this]
      rw [hn]
      simp [refDen]

/-- **C18 for the reference evaluator.**  Any number of threads, each evaluating any list of statements
    in children of ONE shared prepared chain, under EVERY schedule: the shared chain is unchanged and every
    finished thread returned, statement by statement, exactly `eval fuel (child :: shared) expr`. -/
theorem eval_model_isolated (shared : Ctx) (progs : List EvalState) (sched : List Nat) :
    (run refMachine ⟨shared, progs.map .running⟩ sched).shared = shared ∧
    ∀ (i : Nat) (r : List (R Obj)),
      (run refMachine ⟨shared, progs.map .running⟩ sched).threads[i]? = some (Thread.done r) →
      ∃ p, progs[i]? = some p ∧ r = refDen shared p := by
  have hinv : ∀ t ∈ progs.map (Thread.running (R := List (R Obj))), TInv (fun _ : EvalState => True) t := by
    intro t _
    cases t <;> trivial
  obtain ⟨h1, h2⟩ := isolation refMachine (fun _ => True) refMachine_readOnly ⟨shared, progs.map .running⟩ hinv sched
  refine ⟨h1, fun i r hi => ?_⟩
  obtain ⟨t, ht, _, huniq⟩ := h2 i r hi
  simp only [List.getElem?_map] at ht
  cases hp : progs[i]? with
  | none => simp [hp] at ht
  | some p =>
      simp only [hp, Option.map_some, Option.some.injEq] at ht
      subst ht
      exact ⟨p, rfl, (huniq _ (refMachine_solo shared p.jobs p.outs)).symm⟩

/-- ... and a context a statement hands back to its thread (`let`, `with`, `def`, `unpack`) is made of new
    frames on a suffix of `child :: shared`; the root of the prepared chain stays at its bottom (`C04.frame`,
    `C04.frame_root`): nothing of the shared chain is replaced or rewritten, it can only be referred to. -/
theorem eval_model_returns_framed (shared : Ctx) (j : Job) (C' : Ctx)
    (h : eval j.fuel (j.child :: shared) j.expr = .ok (.ctx C')) :
    Yaql.Props.C04.Extends (j.child :: shared) C' ∧
    ∀ root, (j.child :: shared).getLast? = some root → C'.getLast? = some root :=
  ⟨Yaql.Props.C04.frame j.fuel _ j.expr C' h,
   fun root hroot => Yaql.Props.C04.frame_root j.fuel _ j.expr C' root h hroot⟩

/-- non-vacuity: two threads over a shared chain holding `$x = 7`, one of them gets a context back -/
example :
    let shared : Ctx := [{ vars := [(['$', 'x'], .int 7)] }]
    let p0 : EvalState := { jobs := [⟨5, { vars := [(['$', '1'], .int 1)] }, .var ['x']⟩] }
    let p1 : EvalState := { jobs := [⟨5, { vars := [(['$', '1'], .int 2)] },
        .call .let_ [] [(.kw ['a'], .lit (.int 1))]⟩] }
    (results (run refMachine ⟨shared, [.running p0, .running p1]⟩ [1, 0, 0, 1])).map (Option.map List.length) =
      [some 1, some 1] := by
  decide

end Yaql.Props.C18
