import Yaql.Props.C04
import Yaql.Props.C09Ctx
/-!
C09 x C04: the evaluator model `Model/Eval.lean` (builder C04) as a statement of `Model/Effects.lean`.

C04's contexts are **immutable frame chains** (`Eval.Ctx = List Frame`): creating a child and writing into
it is `frame :: C`, `eval` returns a value and no store, and `C04.frame` shows that a context an
evaluation hands back consists of new frames on top of (a non-empty suffix of) the context it started in.
In the vocabulary of this property that is an evaluator whose context-API trace **writes to no
pre-existing cell at all**: embedded as a `Stmt`, its write trace on the host's store is empty, and what
it computes is a function of the frame chain read off the host's cells (`readCtx`).  Both hypotheses of
`reeval_pool` / `context_clause_partial` then hold for *every expression of the C04 fragment and every
fuel* (`eval_C09_full`), so the pool theorem and `only_dollar` apply to it without further assumptions.

What this does **not** prove: that the *Python* evaluator's trace is the empty / fresh-only one - that is
C04's representation argument (a Python context object is written only by the call that created it),
tied to the code by C04's differential runs and, here, by the trace oracle of harness/props/c09.py
(`ctx` cases: every context-API call of the real evaluator is checked against `NoHostWrite`).
Domain of the embedding: chains of plain contexts whose values are ints / None (the C17 value domain);
multi / linked host contexts read as the empty chain.
-/
namespace Yaql.Props.C09
open Yaql.Context Yaql.Effects

def valOf : Val → Yaql.Value
  | none => .null
  | some i => .int i

mutual
/-- the host's chain as C04 sees it: one frame per plain context, innermost first -/
def readCtx (cs : Cells) : Shape → Yaql.Eval.Ctx
  | .plain c p => { vars := (cs.get c).data.map fun nv => (nv.1, valOf nv.2) } :: readCtxO cs p
  | .multi _ _ => []
  | .linked _ _ => []
def readCtxO (cs : Cells) : Option Shape → Yaql.Eval.Ctx
  | none => []
  | some s => readCtx cs s
end

mutual
theorem readCtx_congr (cs cs' : Cells) : ∀ (s : Shape), (∀ c ∈ cellsOf s, cs.get c = cs'.get c) →
    readCtx cs s = readCtx cs' s
  | .plain c p, h => by
      simp only [readCtx]
      rw [h c (by simp [cellsOf]), readCtxO_congr cs cs' p (fun c hc => h c (by simp [cellsOf, hc]))]
  | .multi _ _, _ => rfl
  | .linked _ _, _ => rfl
theorem readCtxO_congr (cs cs' : Cells) : ∀ (p : Option Shape), (∀ c ∈ cellsOfO p, cs.get c = cs'.get c) →
    readCtxO cs p = readCtxO cs' p
  | none, _ => rfl
  | some s, h => by
      simp only [readCtxO]
      exact readCtx_congr cs cs' s (fun c hc => h c (by simpa [cellsOfO] using hc))
end

/-- `engine(text)` for an expression of the C04 fragment, evaluated with `fuel`: no write to the host's
    store, result = C04's `eval` on the chain read off the store, finalised -/
def stmtOfEval (fuel : Nat) (e : Yaql.Eval.Expr) : Stmt (Yaql.Eval.R Yaql.Eval.Final) where
  prog cs s := ([], (Yaql.Eval.eval fuel (readCtx cs s) e).bind Yaql.Eval.finalise)

theorem stmtOfEval_local (fuel : Nat) (e : Yaql.Eval.Expr) : (stmtOfEval fuel e).Local := by
  intro cs cs' s h
  simp only [stmtOfEval]
  rw [readCtx_congr cs cs' s h]

theorem stmtOfEval_disciplined (fuel : Nat) (e : Yaql.Eval.Expr) : (stmtOfEval fuel e).Disciplined := by
  intro cs s x hx
  simp [stmtOfEval] at hx

/-- **C09.eval_C09_full**: the full context clause holds for C04's evaluator, every expression, every fuel -/
theorem eval_C09_full (fuel : Nat) : C09_full (stmtOfEval fuel) :=
  fun e => ⟨stmtOfEval_local fuel e, stmtOfEval_disciplined fuel e⟩

/-- **C09.eval_reeval_pool**: for the C04 evaluator, unconditionally - expressions of the core fragment
    evaluated in any order, any number of times, with any data against one shared chain of plain host
    contexts: every existing cell ends up as `context['$'] = v` alone leaves it, and every evaluation returns
    what it returns alone on the initial store. -/
theorem eval_reeval_pool (fuel : Nat) (cs : Cells) (s : Shape) (hs : ∀ c ∈ cellsOf s, c < cs.length) :
    (∀ (e : Yaql.Eval.Expr) (v : Val) (c : Nat), c < cs.length →
        (evalStmt cs s (stmtOfEval fuel e) v).1.get c = (setData cs s dollar v).get c) ∧
    (∀ pool : List (Yaql.Eval.Expr × Val),
        (runPool s cs (pool.map fun p => (stmtOfEval fuel p.1, p.2))).2
          = pool.map fun p => (evalStmt cs s (stmtOfEval fuel p.1) p.2).2) :=
  context_clause_partial (stmtOfEval fuel) (eval_C09_full fuel) cs s hs

/-- `C04.frame` in this vocabulary: a context object an expression hands back (`let`, `with`, `def`, ..)
    is made of new frames on top of the host's chain (or of an ancestor of it); the host's frames occur in
    it as they were read -/
theorem eval_extends_host (fuel : Nat) (cs : Cells) (s : Shape) (e : Yaql.Eval.Expr) (C' : Yaql.Eval.Ctx)
    (h : Yaql.Eval.eval fuel (readCtx cs s) e = .ok (.ctx C')) : Yaql.Props.C04.Extends (readCtx cs s) C' :=
  Yaql.Props.C04.frame fuel (readCtx cs s) e C' h

/-- non-vacuity: `$` on a two-layer host chain, data 5 then 7 then 5 - results 5, 7, 5; `let(a => 1)` hands
    back a context whose tail is the host's chain -/
example :
    let cs : Cells := [{ data := [(['$', 'y'], some 1)] }, {}]
    let s : Shape := .plain 0 (some (.plain 1 none))
    ((runPool s cs [(stmtOfEval 3 (.var ['$']), some 5), (stmtOfEval 3 (.var ['$']), some 7),
                    (stmtOfEval 3 (.var ['$']), some 5)]).2.map fun r =>
        match r with | .ok (.data (.int i)) => some i | _ => none) = [some 5, some 7, some 5] := by
  decide

end Yaql.Props.C09
