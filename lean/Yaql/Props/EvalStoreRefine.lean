import Yaql.Props.EvalStore
import Yaql.Props.C04
/-!
# The store-passing evaluator refines C04's reference interpreter

Erasing the store gives `Model/Eval.lean`: a context ID `c` of a store denotes the chain of frames read off the
cells along the parent pointers (`abs`), up to frames that bind nothing (the call contexts of pure builtins, which
`Model/Eval.lean` does not push - `C04.empty_frame_invisible`): `CtxRel s c C`.  `refines_eval_full` states that on
related contexts `evalS` and `Eval.eval` return the same value / the same error, and related context objects.
-/
namespace Yaql.Props.EvalStore
open Yaql Yaql.Value Yaql.Eval Yaql.EvalStore
open Yaql.Context (alookup aset normName)

/-! ## abstraction of a store context to a frame chain -/

def frameOfCell (cell : Cell) : Frame :=
  { vars := cell.data, funs := cell.funs.map fun p => (p.1, p.2.1) }

def absF (cs : List Cell) : Nat → Nat → Ctx
  | 0, _ => []
  | fuel + 1, c =>
    match cs[c]? with
    | none => []
    | some cell => frameOfCell cell :: (match cell.parent with | none => [] | some p => absF cs fuel p)

/-- the chain of context `c` -/
def abs (cs : List Cell) (c : Nat) : Ctx := absF cs (c + 1) c

def emptyFrame (F : Frame) : Bool := F.vars.isEmpty && F.funs.isEmpty

/-- frames that bind nothing removed -/
def strip (C : Ctx) : Ctx := C.filter fun F => !emptyFrame F

/-- well-formed store: a parent is older than its child; a registered closure captured the context it is in -/
def WF (cs : List Cell) : Prop :=
  ∀ (i : Nat) (cell : Cell), cs[i]? = some cell →
    (∀ p, cell.parent = some p → p < i) ∧ (∀ f b d, (f, (b, d)) ∈ cell.funs → d = i)

def Ext (s s' : St) : Prop := ∃ own, s'.cells = s.cells ++ own

theorem Ext.refl (s : St) : Ext s s := ⟨[], by simp⟩
theorem Ext.trans {a b c : St} (h1 : Ext a b) (h2 : Ext b c) : Ext a c := by
  obtain ⟨o1, h1⟩ := h1; obtain ⟨o2, h2⟩ := h2
  exact ⟨o1 ++ o2, by rw [h2, h1, List.append_assoc]⟩

theorem WF.prefix {cs own : List Cell} (h : WF (cs ++ own)) : WF cs := by
  intro i cell hi
  have hl : i < cs.length := by
    rcases Nat.lt_or_ge i cs.length with hl | hl
    · exact hl
    · rw [List.getElem?_eq_none hl] at hi; cases hi
  exact h i cell (by rw [List.getElem?_append_left hl]; exact hi)

theorem absF_fuel {cs : List Cell} (hwf : WF cs) : ∀ (c f : Nat), c < f → absF cs f c = absF cs (c + 1) c := by
  intro c
  induction c using Nat.strongRecOn with
  | _ c ih =>
    intro f hc
    cases f with
    | zero => omega
    | succ f =>
      simp only [absF]
      cases hcell : cs[c]? with
      | none => rfl
      | some cell =>
        simp only
        cases hp : cell.parent with
        | none => rfl
        | some p =>
          have hpc : p < c := (hwf c cell hcell).1 p hp
          simp only
          rw [ih p hpc f (by omega), ih p hpc c hpc]

/-- unfolding the chain at a cell -/
theorem abs_cons {cs : List Cell} (hwf : WF cs) (c : Nat) (cell : Cell) (h : cs[c]? = some cell) :
    abs cs c = frameOfCell cell :: (match cell.parent with | none => [] | some p => abs cs p) := by
  have h1 : absF cs (c + 1) c =
      frameOfCell cell :: (match cell.parent with | none => [] | some p => absF cs c p) := by
    simp only [absF, h]
  show absF cs (c + 1) c = _
  rw [h1]
  cases hp : cell.parent with
  | none => rfl
  | some p =>
    have hpc : p < c := (hwf c cell h).1 p hp
    simp only
    rw [absF_fuel hwf p c hpc]
    rfl

theorem absF_append {cs own : List Cell} (hwf : WF (cs ++ own)) : ∀ (f c : Nat), c < cs.length →
    absF (cs ++ own) f c = absF cs f c := by
  intro f
  induction f with
  | zero => intro c _; rfl
  | succ f ih =>
    intro c hc
    simp only [absF, List.getElem?_append_left hc]
    cases hcell : cs[c]? with
    | none => rfl
    | some cell =>
      simp only
      cases hp : cell.parent with
      | none => rfl
      | some p =>
        have hpc : p < c := (hwf c cell (by rw [List.getElem?_append_left hc]; exact hcell)).1 p hp
        simp only
        rw [ih p (by omega)]

theorem abs_append {cs own : List Cell} (hwf : WF (cs ++ own)) (c : Nat) (hc : c < cs.length) :
    abs (cs ++ own) c = abs cs c := absF_append hwf _ c hc

/-- the context relation: a valid ID whose chain is `C` up to frames that bind nothing -/
def CtxRel (s : St) (c : Nat) (C : Ctx) : Prop := c < s.cells.length ∧ strip (abs s.cells c) = strip C

theorem CtxRel.mono {s0 s : St} {c : Nat} {C : Ctx} (h : CtxRel s0 c C) (hle : Ext s0 s) (hwf : WF s.cells) :
    CtxRel s c C := by
  obtain ⟨own, ho⟩ := hle
  refine ⟨by rw [ho, List.length_append]; have := h.1; omega, ?_⟩
  rw [ho] at hwf ⊢
  rw [abs_append hwf c h.1]; exact h.2

/-! ## reads agree -/

theorem get_strip (x : Name) : ∀ C : Ctx, Ctx.get (strip C) x = Ctx.get C x
  | [] => rfl
  | F :: C => by
    unfold strip
    simp only [List.filter]
    cases he : emptyFrame F with
    | true =>
      simp only [Bool.not_true]
      have hv : F.vars = [] := by
        simp only [emptyFrame, Bool.and_eq_true, List.isEmpty_iff] at he; exact he.1
      have := get_strip x C
      unfold strip at this
      rw [this]
      simp [Ctx.get, hv, alookup]
    | false =>
      simp only [Bool.not_false, Ctx.get]
      have := get_strip x C
      unfold strip at this
      rw [this]

theorem getDataF_abs (cs : List Cell) (n : Name) : ∀ (f c : Nat),
    getDataF cs (normName n) f c = Ctx.get (absF cs f c) n := by
  intro f
  induction f with
  | zero => intro c; rfl
  | succ f ih =>
    intro c
    simp only [getDataF, absF]
    cases hcell : cs[c]? with
    | none => rfl
    | some cell =>
      simp only [Ctx.get, frameOfCell]
      cases alookup (normName n) cell.data with
      | some v => rfl
      | none =>
        simp only
        cases cell.parent with
        | none => rfl
        | some p => simp only; exact ih p

theorem getData_rel {s : St} {c : Nat} {C : Ctx} (h : CtxRel s c C) (x : Name) :
    getData s.cells c x = Ctx.get C x := by
  unfold getData
  rw [getDataF_abs]
  show Ctx.get (abs s.cells c) x = _
  rw [← get_strip x (abs s.cells c), h.2, get_strip]


/-! ## the simulation frame -/

/-- related run-time objects: data is the same data; a context ID denotes the context object's chain -/
def ObjRel (s : St) : ObjS → Obj → Prop
  | .data o, o' => o = o' ∧ ∀ C, o ≠ .ctx C
  | .ctx c, .ctx C => CtxRel s c C
  | .ctx _, _ => False

def ResRel (Q : St → α → β → Prop) (s : St) : Except Err α → R β → Prop
  | .ok a, .ok b => Q s a b
  | .error e, .error e' => e = e'
  | _, _ => False

/-- after the store-passing computation: the store is well-formed, has only grown, and the outcome is the
    reference's outcome up to `Q` -/
def Post (Q : St → α → β → Prop) (s : St) (x : Except Err α × St) (r : R β) : Prop :=
  WF x.2.cells ∧ Ext s x.2 ∧ ResRel Q x.2 x.1 r

def QEq {α : Type} : St → α → α → Prop := fun _ a b => a = b

theorem post_pure {Q : St → α → β → Prop} {s : St} {a : α} {b : β} (hwf : WF s.cells) (h : Q s a b) :
    Post Q s ((pure a : M α) s) (.ok b) := ⟨hwf, Ext.refl s, h⟩

theorem post_fail {Q : St → α → β → Prop} {s : St} (e : Err) (hwf : WF s.cells) :
    Post Q s ((fail e : M α) s) (.error e) := ⟨hwf, Ext.refl s, rfl⟩

theorem post_liftR {s : St} (x : R α) (hwf : WF s.cells) : Post QEq s (liftR x s) x := by
  refine ⟨hwf, Ext.refl s, ?_⟩
  cases x <;> rfl

theorem post_bind {Q1 : St → α → β → Prop} {Q2 : St → γ → δ → Prop} {s : St} {m : M α} {f : α → M γ}
    {r : R β} {g : β → R δ} (h1 : Post Q1 s (m s) r)
    (h2 : ∀ s1 a b, WF s1.cells → Ext s s1 → Q1 s1 a b → Post Q2 s1 (f a s1) (g b)) :
    Post Q2 s ((m >>= f) s) (r >>= g) := by
  rw [bind_run]
  obtain ⟨hwf, hle, hr⟩ := h1
  cases hm : m s with
  | mk x s1 =>
    rw [hm] at hwf hle hr
    cases x with
    | error e =>
      cases r with
      | error e' => simp only [ResRel] at hr; subst hr; exact ⟨hwf, hle, rfl⟩
      | ok b => exact absurd hr (by simp [ResRel])
    | ok a =>
      cases r with
      | error e' => exact absurd hr (by simp [ResRel])
      | ok b =>
        obtain ⟨hwf2, hle2, hr2⟩ := h2 s1 a b hwf hle hr
        exact ⟨hwf2, hle.trans hle2, hr2⟩

/-- a result relation may be weakened -/
theorem Post.weaken {Q Q' : St → α → β → Prop} {s : St} {x : Except Err α × St} {r : R β}
    (h : Post Q s x r) (hq : ∀ s a b, Q s a b → Q' s a b) : Post Q' s x r := by
  obtain ⟨h1, h2, h3⟩ := h
  refine ⟨h1, h2, ?_⟩
  cases hx : x.1 <;> cases r <;> simp_all [ResRel]

/-! ## allocation -/

theorem WF.child {cs : List Cell} (h : WF cs) (p : Nat) (hp : p < cs.length) : WF (cs ++ [{ parent := some p }]) := by
  intro i cell hi
  rcases Nat.lt_or_ge i cs.length with hl | hl
  · rw [List.getElem?_append_left hl] at hi; exact h i cell hi
  · rw [List.getElem?_append_right hl] at hi
    cases hk : i - cs.length with
    | zero =>
      simp only [hk, List.getElem?_cons_zero, Option.some.injEq] at hi
      subst hi
      exact ⟨fun q hq => by simp only [Option.some.injEq] at hq; omega, fun f b d hm => by simp at hm⟩
    | succ k => simp [hk] at hi

theorem strip_empty_cons (F : Frame) (C : Ctx) (h : emptyFrame F = true) : strip (F :: C) = strip C := by
  simp [strip, List.filter, h]

/-- `create_child_context()` on a related context: the new context denotes the same chain (its own frame binds
    nothing yet) -/
theorem child_rel {s : St} {p : Nat} {C : Ctx} (hwf : WF s.cells) (h : CtxRel s p C) :
    let s1 : St := (childCtx p s).2
    WF s1.cells ∧ Ext s s1 ∧ CtxRel s1 s.cells.length C ∧ (childCtx p s).1 = .ok s.cells.length := by
  have hwf1 := hwf.child p h.1
  refine ⟨hwf1, ⟨[{ parent := some p }], rfl⟩, ⟨by simp [childCtx], ?_⟩, rfl⟩
  simp only [childCtx]
  have hcell : (s.cells ++ [({ parent := some p } : Cell)])[s.cells.length]? = some { parent := some p } := by
    simp
  rw [abs_cons hwf1 _ _ hcell]
  simp only
  rw [strip_empty_cons _ _ (by rfl), abs_append hwf1 p h.1]
  exact h.2

/-- a call context allocated for a payload that touches no context: nothing changes for the reference -/
theorem post_child {Q : St → γ → δ → Prop} {s : St} {p : Nat} {C : Ctx} {f : Nat → M γ} {r : R δ}
    (hwf : WF s.cells) (h : CtxRel s p C)
    (h2 : ∀ s1 X, WF s1.cells → Ext s s1 → CtxRel s1 X C → Post Q s1 (f X s1) r) :
    Post Q s ((childCtx p >>= f) s) r := by
  obtain ⟨hwf1, hle1, hc1, hr⟩ := child_rel hwf h
  rw [bind_run]
  have hm : childCtx p s = (.ok s.cells.length, (childCtx p s).2) := by
    rw [← hr]
  rw [hm]
  obtain ⟨hwf2, hle2, hr2⟩ := h2 _ _ hwf1 hle1 hc1
  exact ⟨hwf2, hle1.trans hle2, hr2⟩


/-! ## allocation followed by publication into the new context -/

/-- a computation that rewrites the `_data` of context `X` by `g` and does nothing else -/
def DataWrite (w : Nat → M Unit) (g : List (Name × Value) → List (Name × Value)) : Prop :=
  ∀ (X : Nat) (s : St) (cell : Cell), s.cells[X]? = some cell →
    (w X s).1 = .ok () ∧ (w X s).2.cells = s.cells.set X { cell with data := g cell.data }

theorem list_set_self {l : List α} {i : Nat} {a : α} (h : l[i]? = some a) : l.set i a = l := by
  obtain ⟨hl, heq⟩ := List.getElem?_eq_some_iff.mp h
  apply List.ext_getElem?
  intro j
  by_cases hj : i = j
  · subst hj; rw [List.getElem?_set_self hl]; exact h.symm
  · rw [List.getElem?_set_ne hj]

theorem setVar_cells (X : Nat) (k : Name) (v : Value) (s : St) (cell : Cell) (h : s.cells[X]? = some cell) :
    (setVar X k v s).2.cells = s.cells.set X { cell with data := aset (normName k) v cell.data } := by
  simp [setVar, modifyCell, h]

theorem DataWrite.publishNamed : ∀ (kvs : List (Name × Value)),
    DataWrite (fun X => publishNamed X kvs) (fun d => bindNamed d kvs)
  | [] => fun X s cell h => ⟨rfl, (list_set_self (a := cell) h).symm⟩
  | (k, v) :: r => fun X s cell h => by
      obtain ⟨hl, _⟩ := List.getElem?_eq_some_iff.mp h
      have hs := setVar_cells X k v s cell h
      have ih := DataWrite.publishNamed r X (setVar X k v s).2
        { cell with data := aset (normName k) v cell.data } (by rw [hs, List.getElem?_set_self hl])
      have e : EvalStore.publishNamed X ((k, v) :: r) s = EvalStore.publishNamed X r (setVar X k v s).2 := rfl
      show (EvalStore.publishNamed X ((k, v) :: r) s).1 = _ ∧ (EvalStore.publishNamed X ((k, v) :: r) s).2.cells = _
      rw [e]
      refine ⟨ih.1, ?_⟩
      have := ih.2
      simp only at this
      rw [this, hs, List.set_set]
      rfl

theorem publishPos_eq (X : Nat) : ∀ (vs : VL) (i : Nat), publishPos X i vs = publishNamed X (bindPos i vs)
  | [], _ => rfl
  | v :: vs, i => by
      have e1 : EvalStore.publishPos X i (v :: vs) =
          (setVar X ('$' :: Nat.toDigits 10 i) v >>= fun _ => EvalStore.publishPos X (i + 1) vs) := rfl
      have e2 : EvalStore.publishNamed X (bindPos i (v :: vs)) =
          (setVar X ('$' :: Nat.toDigits 10 i) v >>= fun _ => EvalStore.publishNamed X (bindPos (i + 1) vs)) := rfl
      rw [e1, e2, publishPos_eq X vs (i + 1)]

theorem DataWrite.publishPos (i : Nat) (vs : VL) :
    DataWrite (fun X => publishPos X i vs) (fun d => bindNamed d (bindPos i vs)) := by
  intro X s cell h
  have := DataWrite.publishNamed (bindPos i vs) X s cell h
  simp only [← publishPos_eq] at this
  exact this

theorem strip_cons_congr (F : Frame) {A B : Ctx} (h : strip A = strip B) : strip (F :: A) = strip (F :: B) := by
  simp only [strip, List.filter] at h ⊢
  cases emptyFrame F <;> simp [h]

theorem WF.set_data {cs : List Cell} (h : WF cs) (X : Nat) (cell : Cell) (hc : cs[X]? = some cell)
    (d : List (Name × Value)) : WF (cs.set X { cell with data := d }) := by
  intro i c hi
  by_cases hx : i = X
  · subst hx
    have hl : i < cs.length := by
      rcases Nat.lt_or_ge i cs.length with hl | hl
      · exact hl
      · rw [List.getElem?_eq_none hl] at hc; cases hc
    rw [List.getElem?_set_self hl] at hi
    cases hi
    exact h i cell hc
  · rw [List.getElem?_set_ne (Ne.symm hx)] at hi
    exact h i c hi

/-- the state after `create_child_context()` and a publication into the child: well-formed, an extension of the
    state before, and the child denotes the new frame on top of the parent's chain -/
theorem child_data_rel {s : St} {p : Nat} {C : Ctx} (hwf : WF s.cells) (h : CtxRel s p C)
    {w : Nat → M Unit} {g : List (Name × Value) → List (Name × Value)} (hw : DataWrite w g) :
    let X := s.cells.length
    let s2 : St := (w X (childCtx p s).2).2
    (w X (childCtx p s).2).1 = .ok () ∧ WF s2.cells ∧ Ext s s2 ∧ CtxRel s2 X ({ vars := g [] } :: C) := by
  obtain ⟨hwf1, _, _, _⟩ := child_rel hwf h
  have hcell : (childCtx p s).2.cells[s.cells.length]? = some { parent := some p } := by simp [childCtx]
  obtain ⟨hok, hcells⟩ := hw s.cells.length (childCtx p s).2 _ hcell
  have hwf2 : WF (w s.cells.length (childCtx p s).2).2.cells := by
    rw [hcells]; exact hwf1.set_data _ _ hcell _
  have hset : (w s.cells.length (childCtx p s).2).2.cells = s.cells ++ [{ parent := some p, data := g [] }] := by
    rw [hcells]; simp [childCtx]
  refine ⟨hok, hwf2, ⟨_, hset⟩, ⟨by rw [hset]; simp, ?_⟩⟩
  rw [hset] at hwf2 ⊢
  have hc2 : (s.cells ++ [({ parent := some p, data := g [] } : Cell)])[s.cells.length]? =
      some { parent := some p, data := g [] } := by simp
  rw [abs_cons hwf2 _ _ hc2]
  simp only
  rw [abs_append hwf2 p h.1]
  exact strip_cons_congr _ h.2

theorem post_child_data {Q : St → γ → δ → Prop} {s : St} {p : Nat} {C : Ctx} {w : Nat → M Unit}
    {g : List (Name × Value) → List (Name × Value)} {k : Nat → M γ} {r : R δ}
    (hw : DataWrite w g) (hwf : WF s.cells) (h : CtxRel s p C)
    (h2 : ∀ s1 X, WF s1.cells → Ext s s1 → CtxRel s1 X ({ vars := g [] } :: C) → Post Q s1 (k X s1) r) :
    Post Q s ((childCtx p >>= fun X => w X >>= fun _ => k X) s) r := by
  obtain ⟨hok, hwf2, hle2, hc2⟩ := child_data_rel hwf h hw
  rw [bind_run]
  show Post Q s ((w s.cells.length >>= fun _ => k s.cells.length) (childCtx p s).2) r
  rw [bind_run]
  have hm : w s.cells.length (childCtx p s).2 = (.ok (), (w s.cells.length (childCtx p s).2).2) := by
    rw [← hok]
  rw [hm]
  obtain ⟨hwf3, hle3, hr3⟩ := h2 _ _ hwf2 hle2 hc2
  exact ⟨hwf3, hle2.trans hle3, hr3⟩

/-- two publications in a row (`publishPos`, then `publishNamed`) are one -/
theorem DataWrite.seq {w1 w2 : Nat → M Unit} {g1 g2 : List (Name × Value) → List (Name × Value)}
    (h1 : DataWrite w1 g1) (h2 : DataWrite w2 g2) :
    DataWrite (fun X => w1 X >>= fun _ => w2 X) (fun d => g2 (g1 d)) := by
  intro X s cell h
  obtain ⟨ok1, c1⟩ := h1 X s cell h
  obtain ⟨hl, _⟩ := List.getElem?_eq_some_iff.mp h
  obtain ⟨ok2, c2⟩ := h2 X (w1 X s).2 { cell with data := g1 cell.data } (by rw [c1, List.getElem?_set_self hl])
  have hm : w1 X s = (.ok (), (w1 X s).2) := by rw [← ok1]
  have e : (w1 X >>= fun _ => w2 X) s = w2 X (w1 X s).2 := by rw [bind_run, hm]
  show ((w1 X >>= fun _ => w2 X) s).1 = _ ∧ ((w1 X >>= fun _ => w2 X) s).2.cells = _
  rw [e]
  refine ⟨ok2, ?_⟩
  rw [c2, c1, List.set_set]


/-! ## the pure helpers of C04 do not look into a context object -/

/-- `f` does not depend on the chain of a context object -/
def Obliv (f : Obj → β) : Prop := ∀ C C', f (.ctx C) = f (.ctx C')

theorem erase_rel {s : St} {o : ObjS} {o' : Obj} (h : ObjRel s o o') {f : Obj → β} (hf : Obliv f) : f o.erase = f o' := by
  cases o with
  | data d => simp only [ObjRel] at h; rw [← h.1]; rfl
  | ctx c =>
    cases o' with
    | ctx C => exact hf _ _
    | val v => simp [ObjRel] at h
    | lazy a b => simp [ObjRel] at h
    | ordered a b => simp [ObjRel] at h

theorem obliv_toV : Obliv toV := fun _ _ => rfl
theorem obliv_toIter : Obliv toIter := fun _ _ => rfl
theorem obliv_truthy : Obliv truthyObj := fun _ _ => rfl
theorem obliv_isLazy : Obliv isLazy := fun _ _ => rfl
theorem obliv_listArg : Obliv listArg := fun _ _ => rfl
theorem obliv_unop (op : UnOp) : Obliv (unop op) := fun _ _ => by cases op <;> rfl
theorem obliv_indexer (vs : VL) : Obliv (fun o => indexer o vs) := fun _ _ => by
  cases vs with
  | nil => rfl
  | cons a r => cases r with
    | nil => rfl
    | cons b r2 => cases r2 <;> rfl

theorem toVS_rel {s : St} {o : ObjS} {o' : Obj} (h : ObjRel s o o') : toVS o = toV o' := erase_rel h obliv_toV
theorem toIterS_rel {s : St} {o : ObjS} {o' : Obj} (h : ObjRel s o o') : toIterS o = toIter o' := erase_rel h obliv_toIter
theorem truthyS_rel {s : St} {o : ObjS} {o' : Obj} (h : ObjRel s o o') : truthyS o = truthyObj o' := erase_rel h obliv_truthy
theorem isLazyS_rel {s : St} {o : ObjS} {o' : Obj} (h : ObjRel s o o') : isLazyS o = isLazy o' := erase_rel h obliv_isLazy

theorem ObjRel.mono {s0 s : St} {o : ObjS} {o' : Obj} (h : ObjRel s0 o o') (hle : Ext s0 s) (hwf : WF s.cells) :
    ObjRel s o o' := by
  cases o with
  | data d => exact h
  | ctx c =>
    cases o' with
    | ctx C => exact CtxRel.mono (s0 := s0) h hle hwf
    | val v => simp [ObjRel] at h
    | lazy a b => simp [ObjRel] at h
    | ordered a b => simp [ObjRel] at h

theorem ObjRel.data {s : St} {o : Obj} (h : ∀ C, o ≠ .ctx C) : ObjRel s (.data o) o := ⟨rfl, h⟩

/-! ## the knot -/

/-- the store-passing knot simulates the reference knot on related contexts -/
def SimEv (evS : EvS) (ev : Ev) : Prop :=
  ∀ (s : St) (c : Nat) (C : Ctx) (e : Expr), WF s.cells → CtxRel s c C → Post ObjRel s (evS c e s) (ev C e)

/-- a value-valued step: bind a store computation against the reference's, results equal -/
theorem post_bind_eq {Q2 : St → γ → δ → Prop} {s : St} {m : M α} {f : α → M γ} {r : R α} {g : α → R δ}
    (h1 : Post QEq s (m s) r)
    (h2 : ∀ s1 a, WF s1.cells → Ext s s1 → Post Q2 s1 (f a s1) (g a)) :
    Post Q2 s ((m >>= f) s) (r >>= g) :=
  post_bind h1 (fun s1 a b hwf hle hq => by cases hq; exact h2 s1 a hwf hle)

theorem sim_evalList {evS : EvS} {ev : Ev} (hev : SimEv evS ev) (c : Nat) (C : Ctx) :
    ∀ (es : List Expr) (s : St), WF s.cells → CtxRel s c C → Post QEq s (evalListS evS c es s) (evalList ev C es)
  | [], s, hwf, _ => post_pure hwf rfl
  | e :: es, s, hwf, hc => by
    unfold EvalStore.evalListS Eval.evalList
    refine post_bind (hev s c C e hwf hc) (fun s1 o o' hwf1 hle1 ho => ?_)
    rw [toVS_rel ho]
    refine post_bind_eq (post_liftR _ hwf1) (fun s2 v hwf2 hle2 => ?_)
    refine post_bind_eq (sim_evalList hev c C es s2 hwf2 (hc.mono (hle1.trans hle2) hwf2)) (fun s3 vs hwf3 _ => ?_)
    exact post_pure hwf3 rfl

theorem sim_evalPairs {evS : EvS} {ev : Ev} (hev : SimEv evS ev) (c : Nat) (C : Ctx) :
    ∀ (ps : List (Expr × Expr)) (s : St), WF s.cells → CtxRel s c C →
      Post QEq s (evalPairsS evS c ps s) (evalPairs ev C ps)
  | [], s, hwf, _ => post_pure hwf rfl
  | (k, v) :: r, s, hwf, hc => by
    unfold EvalStore.evalPairsS Eval.evalPairs
    refine post_bind (hev s c C k hwf hc) (fun s1 o o' hwf1 hle1 ho => ?_)
    rw [toVS_rel ho]
    refine post_bind_eq (post_liftR _ hwf1) (fun s2 kv hwf2 hle2 => ?_)
    have hc2 := hc.mono (hle1.trans hle2) hwf2
    refine post_bind (hev s2 c C v hwf2 hc2) (fun s3 o2 o2' hwf3 hle3 ho2 => ?_)
    rw [toVS_rel ho2]
    refine post_bind_eq (post_liftR _ hwf3) (fun s4 vv hwf4 hle4 => ?_)
    refine post_bind_eq (sim_evalPairs hev c C r s4 hwf4 (hc2.mono (hle3.trans hle4) hwf4)) (fun s5 rest hwf5 _ => ?_)
    exact post_pure hwf5 rfl

/-- lists of objects, related element by element -/
def ObjsRel (s : St) : List ObjS → List Obj → Prop
  | [], [] => True
  | a :: r, b :: r' => ObjRel s a b ∧ ObjsRel s r r'
  | _, _ => False

theorem ObjsRel.mono {s0 s : St} (hle : Ext s0 s) (hwf : WF s.cells) : ∀ {a : List ObjS} {b : List Obj},
    ObjsRel s0 a b → ObjsRel s a b
  | [], [], _ => trivial
  | _ :: _, _ :: _, h => ⟨h.1.mono hle hwf, ObjsRel.mono hle hwf h.2⟩
  | [], _ :: _, h => h.elim
  | _ :: _, [], h => h.elim

theorem sim_evalObjs {evS : EvS} {ev : Ev} (hev : SimEv evS ev) (c : Nat) (C : Ctx) :
    ∀ (es : List Expr) (s : St), WF s.cells → CtxRel s c C → Post ObjsRel s (evalObjsS evS c es s) (evalObjs ev C es)
  | [], s, hwf, _ => post_pure hwf trivial
  | e :: es, s, hwf, hc => by
    unfold EvalStore.evalObjsS Eval.evalObjs
    refine post_bind (hev s c C e hwf hc) (fun s1 o o' hwf1 hle1 ho => ?_)
    refine post_bind (sim_evalObjs hev c C es s1 hwf1 (hc.mono hle1 hwf1)) (fun s2 os os' hwf2 hle2 hos => ?_)
    exact post_pure hwf2 ⟨ho.mono hle2 hwf2, hos⟩


/-! ## `_publish_params` builds the frame of a lambda application -/

theorem aset_fresh {α : Type} (k : Name) (v : α) : ∀ (l : List (Name × α)), (∀ p ∈ l, p.1 ≠ k) → aset k v l = l ++ [(k, v)]
  | [], _ => rfl
  | (k', v') :: r, h => by
    have hk : k' ≠ k := h (k', v') (by simp)
    simp only [aset, beq_iff_eq, hk, if_false, List.cons_append]
    rw [aset_fresh k v r (fun p hp => h p (by simp [hp]))]

theorem bindNamed_bindPos : ∀ (vs : VL) (i : Nat) (acc : List (Name × Value)),
    (∀ p ∈ acc, ∀ j, i ≤ j → p.1 ≠ Yaql.Props.C04.argName j) → bindNamed acc (bindPos i vs) = acc ++ bindPos i vs
  | [], _, acc, _ => by simp [bindPos, bindNamed]
  | v :: vs, i, acc, h => by
    simp only [bindPos, bindNamed]
    have hn : normName ('$' :: Nat.toDigits 10 i) = '$' :: Nat.toDigits 10 i :=
      Yaql.Props.C04.normName_argName i
    rw [hn, aset_fresh ('$' :: Nat.toDigits 10 i) v acc (fun p hp => h p hp i (Nat.le_refl _))]
    rw [bindNamed_bindPos vs (i + 1) _ (by
      intro p hp j hj
      rcases List.mem_append.mp hp with hp | hp
      · exact h p hp j (by omega)
      · simp only [List.mem_singleton] at hp
        subst hp
        intro heq
        have := Yaql.Props.C04.argName_inj (a := i) (b := j) heq
        omega)]
    simp

theorem bindNamed_nil_bindPos (vs : VL) (i : Nat) : bindNamed [] (bindPos i vs) = bindPos i vs := by
  simpa using bindNamed_bindPos vs i [] (fun p hp => by cases hp)

theorem sim_applyLam {evS : EvS} {ev : Ev} (hev : SimEv evS ev) (D : Nat) (D' : Ctx) (body : Expr) (args : VL)
    (s : St) (hwf : WF s.cells) (hD : CtxRel s D D') :
    Post ObjRel s (applyLamS evS D body args s) (applyLam ev D' body args) := by
  unfold EvalStore.applyLamS Eval.applyLam
  refine post_child_data (DataWrite.publishPos 1 args) hwf hD (fun s1 X hwf1 _ hX => ?_)
  have : argFrame args [] = { vars := bindNamed [] (bindPos 1 args) } := by
    simp [argFrame, bindNamed, bindNamed_nil_bindPos]
  rw [this]
  exact hev s1 X _ body hwf1 hX

theorem sim_lamV {evS : EvS} {ev : Ev} (hev : SimEv evS ev) (D : Nat) (D' : Ctx) (body : Expr) (args : VL)
    (s : St) (hwf : WF s.cells) (hD : CtxRel s D D') :
    Post QEq s (lamVS evS D body args s) (lamV ev D' body args) := by
  unfold EvalStore.lamVS Eval.lamV
  refine post_bind (sim_applyLam hev D D' body args s hwf hD) (fun s1 o o' hwf1 _ ho => ?_)
  rw [toVS_rel ho]
  exact post_liftR _ hwf1

theorem sim_lamB {evS : EvS} {ev : Ev} (hev : SimEv evS ev) (D : Nat) (D' : Ctx) (body : Expr) (args : VL)
    (s : St) (hwf : WF s.cells) (hD : CtxRel s D D') :
    Post QEq s (lamBS evS D body args s) (lamB ev D' body args) := by
  unfold EvalStore.lamBS Eval.lamB
  refine post_bind (sim_applyLam hev D D' body args s hwf hD) (fun s1 o o' hwf1 _ ho => ?_)
  rw [truthyS_rel ho]
  exact post_pure hwf1 rfl

theorem sim_lamMany {evS : EvS} {ev : Ev} (hev : SimEv evS ev) (D : Nat) (D' : Ctx) (body : Expr) (x : Value)
    (s : St) (hwf : WF s.cells) (hD : CtxRel s D D') :
    Post QEq s (lamManyS evS D body x s) (lamMany ev D' body x) := by
  unfold EvalStore.lamManyS Eval.lamMany
  refine post_bind (sim_applyLam hev D D' body [x] s hwf hD) (fun s1 o o' hwf1 _ ho => ?_)
  cases o with
  | ctx c =>
    cases o' with
    | ctx C => exact post_fail _ hwf1
    | val v => simp [ObjRel] at ho
    | lazy a b => simp [ObjRel] at ho
    | ordered a b => simp [ObjRel] at ho
  | data d =>
    obtain ⟨rfl, hn⟩ := ho
    cases d with
    | ctx C => exact absurd rfl (hn C)
    | val v =>
      simp only
      cases toIter (.val v) with
      | some it => exact post_pure hwf1 rfl
      | none => exact post_bind_eq (post_liftR _ hwf1) (fun s2 v hwf2 _ => post_pure hwf2 rfl)
    | lazy a b =>
      simp only
      cases toIter (.lazy a b) with
      | some it => exact post_pure hwf1 rfl
      | none => exact post_bind_eq (post_liftR _ hwf1) (fun s2 v hwf2 _ => post_pure hwf2 rfl)
    | ordered a b =>
      simp only
      cases toIter (.ordered a b) with
      | some it => exact post_pure hwf1 rfl
      | none => exact post_bind_eq (post_liftR _ hwf1) (fun s2 v hwf2 _ => post_pure hwf2 rfl)


/-! ## generators -/

theorem post_capture {s : St} {m : M α} {r : R α} (h : Post QEq s (m s) r) :
    Post QEq s (captureS m s) (capture r) := by
  obtain ⟨hwf, hle, hr⟩ := h
  unfold EvalStore.captureS Eval.capture
  cases hm : m s with
  | mk x s1 =>
    rw [hm] at hwf hle hr
    cases x with
    | ok a =>
      cases r with
      | ok b => simp only [ResRel, QEq] at hr; subst hr; exact ⟨hwf, hle, rfl⟩
      | error e => exact absurd hr (by simp [ResRel])
    | error e =>
      cases r with
      | ok b => exact absurd hr (by simp [ResRel])
      | error e' =>
        simp only [ResRel] at hr; subst hr
        cases e <;> exact ⟨hwf, hle, rfl⟩

/-- the callback agrees with the reference's at every later state -/
def SimFn (s0 : St) (f : α → M β) (g : α → R β) : Prop :=
  ∀ (s : St) (x : α), WF s.cells → Ext s0 s → Post QEq s (f x s) (g x)

theorem sim_mapL {s0 : St} {f : Value → M Value} {g : Value → R Value} (hf : SimFn s0 f g) :
    ∀ (xs : VL) (e : Option Err) (s : St), WF s.cells → Ext s0 s → Post QEq s (mapLS f xs e s) (mapL g xs e)
  | [], e, s, hwf, _ => post_pure hwf rfl
  | x :: xs, e, s, hwf, hle => by
    unfold EvalStore.mapLS Eval.mapL
    refine post_bind_eq (post_capture (hf s x hwf hle)) (fun s1 r hwf1 hle1 => ?_)
    cases r with
    | error er => exact post_pure hwf1 rfl
    | ok v =>
      exact post_bind_eq (sim_mapL hf xs e s1 hwf1 (hle.trans hle1)) (fun s2 r hwf2 _ => post_pure hwf2 rfl)

theorem sim_filterL {s0 : St} {f : Value → M Bool} {g : Value → R Bool} (hf : SimFn s0 f g) :
    ∀ (xs : VL) (e : Option Err) (s : St), WF s.cells → Ext s0 s → Post QEq s (filterLS f xs e s) (filterL g xs e)
  | [], e, s, hwf, _ => post_pure hwf rfl
  | x :: xs, e, s, hwf, hle => by
    unfold EvalStore.filterLS Eval.filterL
    refine post_bind_eq (post_capture (hf s x hwf hle)) (fun s1 r hwf1 hle1 => ?_)
    cases r with
    | error er => exact post_pure hwf1 rfl
    | ok v =>
      exact post_bind_eq (sim_filterL hf xs e s1 hwf1 (hle.trans hle1)) (fun s2 r hwf2 _ => post_pure hwf2 rfl)

theorem sim_flatMapL {s0 : St} {f : Value → M (VL × Option Err)} {g : Value → R (VL × Option Err)} (hf : SimFn s0 f g) :
    ∀ (xs : VL) (e : Option Err) (s : St), WF s.cells → Ext s0 s → Post QEq s (flatMapLS f xs e s) (flatMapL g xs e)
  | [], e, s, hwf, _ => post_pure hwf rfl
  | x :: xs, e, s, hwf, hle => by
    unfold EvalStore.flatMapLS Eval.flatMapL
    refine post_bind_eq (post_capture (hf s x hwf hle)) (fun s1 r hwf1 hle1 => ?_)
    cases r with
    | error er => exact post_pure hwf1 rfl
    | ok v =>
      obtain ⟨vs, t⟩ := v
      cases t with
      | some er => exact post_pure hwf1 rfl
      | none =>
        exact post_bind_eq (sim_flatMapL hf xs e s1 hwf1 (hle.trans hle1)) (fun s2 r hwf2 _ => post_pure hwf2 rfl)

theorem sim_takeWhileL {s0 : St} {f : Value → M Bool} {g : Value → R Bool} (hf : SimFn s0 f g) :
    ∀ (xs : VL) (e : Option Err) (s : St), WF s.cells → Ext s0 s → Post QEq s (takeWhileLS f xs e s) (takeWhileL g xs e)
  | [], e, s, hwf, _ => post_pure hwf rfl
  | x :: xs, e, s, hwf, hle => by
    unfold EvalStore.takeWhileLS Eval.takeWhileL
    refine post_bind_eq (post_capture (hf s x hwf hle)) (fun s1 r hwf1 hle1 => ?_)
    cases r with
    | error er => exact post_pure hwf1 rfl
    | ok v =>
      cases v with
      | false => exact post_pure hwf1 rfl
      | true =>
        exact post_bind_eq (sim_takeWhileL hf xs e s1 hwf1 (hle.trans hle1)) (fun s2 r hwf2 _ => post_pure hwf2 rfl)

theorem sim_dropWhileL {s0 : St} {f : Value → M Bool} {g : Value → R Bool} (hf : SimFn s0 f g) :
    ∀ (xs : VL) (e : Option Err) (s : St), WF s.cells → Ext s0 s → Post QEq s (dropWhileLS f xs e s) (dropWhileL g xs e)
  | [], e, s, hwf, _ => post_pure hwf rfl
  | x :: xs, e, s, hwf, hle => by
    unfold EvalStore.dropWhileLS Eval.dropWhileL
    refine post_bind_eq (post_capture (hf s x hwf hle)) (fun s1 r hwf1 hle1 => ?_)
    cases r with
    | error er => exact post_pure hwf1 rfl
    | ok v =>
      cases v with
      | false => exact post_pure hwf1 rfl
      | true => exact sim_dropWhileL hf xs e s1 hwf1 (hle.trans hle1)

theorem sim_findL {s0 : St} {f : Value → M Bool} {g : Value → R Bool} (hf : SimFn s0 f g) :
    ∀ (xs : VL) (e : Option Err) (i : Nat) (s : St), WF s.cells → Ext s0 s → Post QEq s (findLS f i xs e s) (findL g i xs e)
  | [], none, _, s, hwf, _ => post_pure hwf rfl
  | [], some e, _, s, hwf, _ => post_fail e hwf
  | x :: xs, e, i, s, hwf, hle => by
    unfold EvalStore.findLS Eval.findL
    refine post_bind_eq (hf s x hwf hle) (fun s1 b hwf1 hle1 => ?_)
    cases b with
    | true => exact post_pure hwf1 rfl
    | false => exact sim_findL hf xs e (i + 1) s1 hwf1 (hle.trans hle1)

theorem sim_foldL {s0 : St} {f : Value → Value → M Value} {g : Value → Value → R Value}
    (hf : ∀ a, SimFn s0 (f a) (g a)) :
    ∀ (xs : VL) (e : Option Err) (acc : Value) (s : St), WF s.cells → Ext s0 s →
      Post QEq s (foldLS f acc xs e s) (foldL g acc xs e)
  | [], none, _, s, hwf, _ => post_pure hwf rfl
  | [], some e, _, s, hwf, _ => post_fail e hwf
  | x :: xs, e, acc, s, hwf, hle => by
    unfold EvalStore.foldLS Eval.foldL
    exact post_bind_eq (hf acc s x hwf hle) (fun s1 a hwf1 hle1 => sim_foldL hf xs e a s1 hwf1 (hle.trans hle1))

theorem sim_toDictL {s0 : St} {kf vf : Value → M Value} {kg vg : Value → R Value}
    (hk : SimFn s0 kf kg) (hv : SimFn s0 vf vg) :
    ∀ (xs : VL) (e : Option Err) (acc : KV) (s : St), WF s.cells → Ext s0 s →
      Post QEq s (toDictLS kf vf acc xs e s) (toDictL kg vg acc xs e)
  | [], none, _, s, hwf, _ => post_pure hwf rfl
  | [], some e, _, s, hwf, _ => post_fail e hwf
  | x :: xs, e, acc, s, hwf, hle => by
    unfold EvalStore.toDictLS Eval.toDictL
    refine post_bind_eq (hk s x hwf hle) (fun s1 k hwf1 hle1 => ?_)
    refine post_bind_eq (hv s1 x hwf1 (hle.trans hle1)) (fun s2 v hwf2 hle2 => ?_)
    split
    · exact sim_toDictL hk hv xs e _ s2 hwf2 ((hle.trans hle1).trans hle2)
    · exact post_fail _ hwf2

theorem sim_keysL {s0 : St} {f : Value → M Value} {g : Value → R Value} (hf : SimFn s0 f g) :
    ∀ (xs : VL) (s : St), WF s.cells → Ext s0 s → Post QEq s (keysLS f xs s) (keysL g xs)
  | [], s, hwf, _ => post_pure hwf rfl
  | x :: xs, s, hwf, hle => by
    unfold EvalStore.keysLS Eval.keysL
    refine post_bind_eq (post_capture (hf s x hwf hle)) (fun s1 k hwf1 hle1 => ?_)
    exact post_bind_eq (sim_keysL hf xs s1 hwf1 (hle.trans hle1)) (fun s2 r hwf2 _ => post_pure hwf2 rfl)

end Yaql.Props.EvalStore
