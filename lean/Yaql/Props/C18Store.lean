import Yaql.Props.EvalStore
import Yaql.Props.C18
/-!
C18 x the store-passing evaluator (`Model/EvalStore.lean`): an `AbsEval` over a store of mutable context cells
that satisfies the `Frame` hypothesis of `Props/C18.lean` - so `eval_writes_private` / `eval_isolated` hold for
it with **no hypothesis left**.

`Props/C18Eval.lean` turned C04's evaluator into a `Sched` machine whose shared component is an immutable frame
chain (`ReadOnly` by construction).  Here the store is the list of mutable cells of `contexts.py`, any thread's
step *could* rewrite any of them (`setVar c ..` takes an arbitrary ID), and that it does not is the theorem
`EvalStore.store_extends` / `hostEval_extends`.

Granularity: one step of a thread is one call -
* `host`: what a worker does per statement: `shared.create_child_context()`, then
  `statement.evaluate(data, context=child)` (`$` written into that child, `#finalize(expression)`);
* `call`: one `Function.__call__` - an expression evaluated in a context the thread refers to (a statement run
  argument by argument, the application of something an earlier step handed back, ...), in ANY context ID, the
  shared ones included.
Between two steps of one thread any other thread may run (the schedule is arbitrary); interleavings *inside* a
call are what the harness explores on the real code.
-/
namespace Yaql.Props.C18
open Yaql Yaql.Eval Yaql.EvalStore Yaql.Sched

/-- one call of a thread's program -/
inductive OpS where
  | host (fuel : Nat) (shared : Nat) (doc : Value) (e : Expr)   -- own child of `shared`, `evaluate` there
  | call (fuel : Nat) (ctx : Nat) (e : Expr)                    -- `e` evaluated in context `ctx`

/-- what a call returned -/
inductive OutS where
  | final (r : R Final)
  | obj (r : Except Err ObjS)

/-- control state of a thread: the calls still to make, the results so far -/
abbrev CtlS := List OpS × List OutS

/-- the store-passing evaluator as an abstract evaluator over the cell store -/
def storeEval : AbsEval Cell CtlS (List OutS) where
  step := fun σ ctl =>
    match ctl.1 with
    | [] => .inr ctl.2
    | .host fuel shared doc e :: rest =>
      let r := hostEvalS fuel shared doc e { cells := σ, log := [] }
      .inl (r.2.cells, (rest, ctl.2 ++ [.final r.1]))
    | .call fuel ctx e :: rest =>
      let r := evalS fuel ctx e { cells := σ, log := [] }
      .inl (r.2.cells, (rest, ctl.2 ++ [.obj r.1]))

/-- **C18.storeEval_frame**: the frame hypothesis, proved: whatever part of the store is regarded as shared, a step
    leaves it as it is and only appends cells behind (`EvalStore.hostEval_extends`, `EvalStore.store_extends`) -/
theorem storeEval_frame : Frame storeEval := by
  intro shared own ctl σ' ctl' h
  simp only [storeEval] at h
  split at h
  · cases h
  · rename_i fuel sh doc e rest _
    simp only [Sum.inl.injEq, Prod.mk.injEq] at h
    obtain ⟨ext, hext⟩ := Yaql.Props.EvalStore.hostEval_extends fuel sh doc e { cells := shared ++ own, log := [] }
    exact ⟨own ++ ext, by rw [← h.1, hext, List.append_assoc]⟩
  · rename_i fuel ctx e rest _
    simp only [Sum.inl.injEq, Prod.mk.injEq] at h
    obtain ⟨ext, hext⟩ := Yaql.Props.EvalStore.store_extends fuel ctx e { cells := shared ++ own, log := [] }
    exact ⟨own ++ ext, by rw [← h.1, hext, List.append_assoc]⟩

/-- **C18.evalS_writes_private** (`eval_writes_private` without hypotheses): every step of the store-passing
    evaluator's machine leaves the shared cells unchanged, and the store it produced is exactly the shared cells
    followed by the thread's private ones -/
theorem evalS_writes_private :
    ReadOnly (evalMachine storeEval) (fun _ => True) ∧
    ∀ shared own e σ' e', storeEval.step (shared ++ own) e = .inl (σ', e') →
      (evalMachine storeEval).step shared (own, e) = .inl (shared, (σ'.drop shared.length, e')) ∧
      σ' = shared ++ σ'.drop shared.length :=
  eval_writes_private storeEval storeEval_frame

/-- **C18.evalS_isolated** (`eval_isolated` without hypotheses): any number of threads, each making any sequence of
    calls of the store-passing evaluator over ONE prepared store of context cells, under EVERY schedule: the shared
    cells are unchanged afterwards and every finished thread returned exactly what it returns when run alone. -/
theorem evalS_isolated (shared : List Cell) (threads : List (Thread (List Cell × CtlS) (List OutS))) (sched : List Nat) :
    (run (evalMachine storeEval) ⟨shared, threads⟩ sched).shared = shared ∧
    ∀ (i : Nat) (r : List OutS), (run (evalMachine storeEval) ⟨shared, threads⟩ sched).threads[i]? = some (Thread.done r) →
      ∃ t, threads[i]? = some t ∧ SoloResult (evalMachine storeEval) shared t r ∧
        ∀ r', SoloResult (evalMachine storeEval) shared t r' → r' = r :=
  eval_isolated storeEval storeEval_frame shared threads sched

/-! ### non-vacuity -/

/-- the value a call returned, if it is an integer -/
def outInt : OutS → Option Int
  | .final (.ok (.data (.int i))) => some i
  | .obj (.ok (.data (.val (.int i)))) => some i
  | _ => none

-- a prepared store of two cells (root with `$k = 5`, the shared context below it); thread 0 evaluates
-- `let(x => $) -> $x + $k` with data 1 in its own child, thread 1 evaluates `$k` with data 2 and then makes one more
-- call in the shared context itself; interleaved [1, 0, 1, 0, 1]: results 6, and 5, 5; the shared cells are unchanged
example :
    let shared : List Cell := [{ data := [(['$', 'k'], .int 5)] }, { parent := some 0 }]
    let p0 : CtlS := ([.host 10 1 (.int 1) (.arrow (.call .let_ [] [(.kw ['x'], .var ['$'])])
                        (.bin .add (.var ['$', 'x']) (.var ['$', 'k'])))], [])
    let p1 : CtlS := ([.host 10 1 (.int 2) (.var ['$', 'k']), .call 10 1 (.var ['$', 'k'])], [])
    let sys := run (evalMachine storeEval) ⟨shared, [.running ([], p0), .running ([], p1)]⟩ [1, 0, 1, 0, 1]
    (results sys).map (Option.map (List.map outInt)) = [some [some 6], some [some 5, some 5]] ∧
    sys.shared.map (·.data) = shared.map (·.data) := by
  exact ⟨rfl, rfl⟩

end Yaql.Props.C18
