import Yaql.Model.Signature
import Yaql.Props.C05
/-!
C05, "arity, keyword names and defaults": the parameter table that the resolution rules work on is the
one the Python signature of the payload prescribes.

`Yaql.Signature.define` models `specs.get_function_definition` (the decorators' `set_parameter` calls
followed by the automatic declarations).

* `define_sound` - every entry of the table sits under the key / at the position `place` gives its
  argument and carries exactly the default the payload declares for it (`declaredDefault`).
* `define_complete` - every positional and keyword-only argument, `*args` and `**kwargs` has an entry.
* `defaults_complete` - hence every argument with a Python default gets that default, positional
  (aligned to the right end of `spec.args`) or keyword-only (by name), whatever else the payload declares;
  arguments without a Python default stay mandatory (`mandatory_stay_mandatory`).
* `define_perm` - the table does not depend on the order of the decorators (the tables are permutations
  of each other: same entry under every key).
* `kwonly_elif_drops_default` - the contrast: looking at the keyword-only defaults only when the payload has
  no positional defaults makes `def f(a, b=10, *, flag=False)` lose the default of `flag`, and `f(1)` is no
  longer callable (`mapArgs`).
-/
namespace Yaql.Props.C05Sig
open Yaql.Types Yaql.Resolve Yaql.Signature

variable (k : Consts) (sig : PySig)

/-- what `define_sound` says of one entry -/
def Good (p : Param) : Prop :=
  place sig p.name = some (p.key, p.position) ∧ p.default = declaredDefault sig p.name

theorem good_mkParam (d : Decl) (key : Key) (pos : Option Nat) (h : place sig d.name = some (key, pos)) :
    Good sig (mkParam k sig d key pos) := ⟨h, rfl⟩

theorem setParameter_ok {ps ps' : List Param} {d : Decl} (h : setParameter k sig ps d = .ok ps') :
    ∃ key pos, place sig d.name = some (key, pos) ∧ hasKey ps key = false ∧
      ps' = ps ++ [mkParam k sig d key pos] := by
  unfold setParameter at h
  cases hp : place sig d.name with
  | none => simp [hp] at h
  | some kp =>
      obtain ⟨key, pos⟩ := kp
      simp only [hp] at h
      cases hk : hasKey ps key with
      | true => simp [hk] at h
      | false =>
          simp only [hk] at h
          refine ⟨key, pos, rfl, hk, ?_⟩
          injection h with h
          exact h.symm

theorem setParameter_eq_ok {ps : List Param} {d : Decl} {key : Key} {pos : Option Nat}
    (hp : place sig d.name = some (key, pos)) (hk : hasKey ps key = false) :
    setParameter k sig ps d = .ok (ps ++ [mkParam k sig d key pos]) := by
  unfold setParameter
  rw [hp]
  simp only [hk, Bool.false_eq_true, if_false]

theorem setParameter_good {ps ps' : List Param} {d : Decl} (h : setParameter k sig ps d = .ok ps')
    (hg : ∀ p ∈ ps, Good sig p) : ∀ p ∈ ps', Good sig p := by
  obtain ⟨key, pos, hp, _, rfl⟩ := setParameter_ok k sig h
  intro p hm
  rcases List.mem_append.mp hm with hm | hm
  · exact hg p hm
  · rw [List.mem_singleton.mp hm]; exact good_mkParam k sig d key pos hp

theorem setAll_good : ∀ (ds : List Decl) {ps ps' : List Param}, setAll k sig ps ds = .ok ps' →
    (∀ p ∈ ps, Good sig p) → ∀ p ∈ ps', Good sig p
  | [], ps, ps', h, hg => by
      simp only [setAll] at h; injection h with h; subst h; exact hg
  | d :: ds, ps, ps', h, hg => by
      simp only [setAll] at h
      cases hs : setParameter k sig ps d with
      | error e => simp [hs] at h
      | ok ps1 =>
          simp only [hs] at h
          exact setAll_good ds h (setParameter_good k sig hs hg)

theorem fillNames_good (infer : Name → Option PTy) : ∀ (ns : List Name) {ps ps' : List Param},
    fillNames k sig infer ps ns = .ok ps' → (∀ p ∈ ps, Good sig p) → ∀ p ∈ ps', Good sig p
  | [], ps, ps', h, hg => by
      simp only [fillNames] at h; injection h with h; subst h; exact hg
  | n :: ns, ps, ps', h, hg => by
      simp only [fillNames] at h
      cases hk : hasKey ps (.name n) with
      | true => simp only [hk, if_true] at h; exact fillNames_good infer ns h hg
      | false =>
          simp only [hk] at h
          cases hs : setParameter k sig ps (autoDecl infer n) with
          | error e => simp [hs] at h
          | ok ps1 =>
              simp only [hs] at h
              exact fillNames_good infer ns h (setParameter_good k sig hs hg)

theorem fillSpecial_good (infer : Name → Option PTy) (key : Key) (o : Option Name) {ps ps' : List Param}
    (h : fillSpecial k sig infer key o ps = .ok ps') (hg : ∀ p ∈ ps, Good sig p) : ∀ p ∈ ps', Good sig p := by
  unfold fillSpecial at h
  cases o with
  | none => injection h with h; subst h; exact hg
  | some n =>
      simp only at h
      cases hk : hasKey ps key with
      | true => simp only [hk, if_true] at h; injection h with h; subst h; exact hg
      | false => simp only [hk] at h; exact setParameter_good k sig h hg

theorem applyConvention_good (conv : Option (Name → Name)) {ps : List Param} (hg : ∀ p ∈ ps, Good sig p) :
    ∀ p ∈ applyConvention conv ps, Good sig p := by
  cases conv with
  | none => exact hg
  | some f =>
      intro p hm
      simp only [applyConvention, List.mem_map] at hm
      obtain ⟨q, hq, rfl⟩ := hm
      have := hg q hq
      split
      · exact this
      · exact this

/-- the stages of `define` -/
theorem define_ok {infer : Name → Option PTy} {conv : Option (Name → Name)} {decls : List Decl}
    {ps : List Param} (h : define k infer conv sig decls = .ok ps) :
    ∃ ps0 ps1 ps2 ps3, setAll k sig [] decls = .ok ps0 ∧
      fillNames k sig infer ps0 (sig.args ++ sig.kwonly) = .ok ps1 ∧
      fillSpecial k sig infer .star sig.varargs ps1 = .ok ps2 ∧
      fillSpecial k sig infer .starstar sig.varkw ps2 = .ok ps3 ∧ ps = applyConvention conv ps3 := by
  unfold define at h
  cases h0 : setAll k sig [] decls with
  | error e => simp [h0] at h
  | ok ps0 =>
    simp only [h0] at h
    cases h1 : fillNames k sig infer ps0 (sig.args ++ sig.kwonly) with
    | error e => simp [h1] at h
    | ok ps1 =>
      simp only [h1] at h
      cases h2 : fillSpecial k sig infer .star sig.varargs ps1 with
      | error e => simp [h2] at h
      | ok ps2 =>
        simp only [h2] at h
        cases h3 : fillSpecial k sig infer .starstar sig.varkw ps2 with
        | error e => simp [h3] at h
        | ok ps3 =>
          simp only [h3] at h
          injection h with h
          exact ⟨ps0, ps1, ps2, ps3, rfl, h1, h2, h3, h.symm⟩

/-- EVERY ENTRY IS THE ONE THE SIGNATURE PRESCRIBES: its key and position are those of its argument, its
    default is the default the payload declares for that argument - for every signature, every set of
    decorators, every `parameter_type_func` and convention -/
theorem define_sound {infer : Name → Option PTy} {conv : Option (Name → Name)} {decls : List Decl}
    {ps : List Param} (h : define k infer conv sig decls = .ok ps) :
    ∀ p ∈ ps, place sig p.name = some (p.key, p.position) ∧ p.default = declaredDefault sig p.name := by
  obtain ⟨ps0, ps1, ps2, ps3, h0, h1, h2, h3, rfl⟩ := define_ok k sig h
  have g0 := setAll_good k sig decls h0 (by simp)
  have g1 := fillNames_good k sig infer _ h1 g0
  have g2 := fillSpecial_good k sig infer _ _ h2 g1
  have g3 := fillSpecial_good k sig infer _ _ h3 g2
  exact applyConvention_good sig conv g3

/-! ## completeness: every argument has an entry -/

theorem hasKey_append_left {ps : List Param} (qs : List Param) {key : Key} (h : hasKey ps key = true) :
    hasKey (ps ++ qs) key = true := by
  simp only [hasKey] at h ⊢
  simp [List.any_append, h]

theorem setParameter_mono {ps ps' : List Param} {d : Decl} (h : setParameter k sig ps d = .ok ps') {key : Key}
    (hk : hasKey ps key = true) : hasKey ps' key = true := by
  obtain ⟨_, _, _, _, rfl⟩ := setParameter_ok k sig h
  exact hasKey_append_left _ hk

theorem setParameter_has {ps ps' : List Param} {d : Decl} (h : setParameter k sig ps d = .ok ps') :
    ∃ key pos, place sig d.name = some (key, pos) ∧ hasKey ps' key = true := by
  obtain ⟨key, pos, hp, _, rfl⟩ := setParameter_ok k sig h
  refine ⟨key, pos, hp, ?_⟩
  simp [hasKey, mkParam]

theorem fillNames_mono (infer : Name → Option PTy) : ∀ (ns : List Name) {ps ps' : List Param},
    fillNames k sig infer ps ns = .ok ps' → ∀ {key : Key}, hasKey ps key = true → hasKey ps' key = true
  | [], ps, ps', h, key, hk => by
      simp only [fillNames] at h; injection h with h; subst h; exact hk
  | n :: ns, ps, ps', h, key, hk => by
      simp only [fillNames] at h
      cases hn : hasKey ps (.name n) with
      | true => simp only [hn, if_true] at h; exact fillNames_mono infer ns h hk
      | false =>
          simp only [hn] at h
          cases hs : setParameter k sig ps (autoDecl infer n) with
          | error e => simp [hs] at h
          | ok ps1 =>
              simp only [hs] at h
              exact fillNames_mono infer ns h (setParameter_mono k sig hs hk)

theorem fillSpecial_mono (infer : Name → Option PTy) (key' : Key) (o : Option Name) {ps ps' : List Param}
    (h : fillSpecial k sig infer key' o ps = .ok ps') {key : Key} (hk : hasKey ps key = true) :
    hasKey ps' key = true := by
  unfold fillSpecial at h
  cases o with
  | none => injection h with h; subst h; exact hk
  | some n =>
      simp only at h
      cases hn : hasKey ps key' with
      | true => simp only [hn, if_true] at h; injection h with h; subst h; exact hk
      | false => simp only [hn] at h; exact setParameter_mono k sig h hk

theorem hasKey_applyConvention (conv : Option (Name → Name)) (ps : List Param) (key : Key) :
    hasKey (applyConvention conv ps) key = hasKey ps key := by
  cases conv with
  | none => rfl
  | some f =>
      simp only [applyConvention, hasKey, List.any_map]
      congr 1
      funext p
      simp only [Function.comp]
      split <;> rfl

/-- a named argument's key is its name unless it is the `*` / `**` argument -/
theorem place_name_key {n : Name} {key : Key} {pos : Option Nat} (h : place sig n = some (key, pos))
    (h1 : sig.varkw ≠ some n) (h2 : sig.varargs ≠ some n) : key = .name n := by
  unfold place at h
  have e1 : (sig.varkw == some n) = false := by simpa using h1
  have e2 : (sig.varargs == some n) = false := by simpa using h2
  simp only [e1, e2, Bool.false_eq_true, if_false] at h
  split at h
  · injection h with h; injection h with h _; exact h.symm
  · split at h
    · injection h with h; injection h with h _; exact h.symm
    · cases h

theorem fillNames_complete (infer : Name → Option PTy)
    (hv1 : ∀ n ∈ sig.args ++ sig.kwonly, sig.varkw ≠ some n)
    (hv2 : ∀ n ∈ sig.args ++ sig.kwonly, sig.varargs ≠ some n) :
    ∀ (ns : List Name), (∀ n ∈ ns, n ∈ sig.args ++ sig.kwonly) → ∀ {ps ps' : List Param},
    fillNames k sig infer ps ns = .ok ps' → ∀ n ∈ ns, hasKey ps' (.name n) = true
  | [], _, ps, ps', _, n, hn => by cases hn
  | m :: ns, hsub, ps, ps', h, n, hn => by
      simp only [fillNames] at h
      have hsub' : ∀ n ∈ ns, n ∈ sig.args ++ sig.kwonly := fun n hn => hsub n (List.mem_cons_of_mem _ hn)
      cases hm : hasKey ps (.name m) with
      | true =>
          simp only [hm, if_true] at h
          rcases List.mem_cons.mp hn with rfl | hn
          · exact fillNames_mono k sig infer ns h hm
          · exact fillNames_complete infer hv1 hv2 ns hsub' h n hn
      | false =>
          simp only [hm] at h
          cases hs : setParameter k sig ps (autoDecl infer m) with
          | error e => simp [hs] at h
          | ok ps1 =>
              simp only [hs] at h
              rcases List.mem_cons.mp hn with rfl | hn
              · obtain ⟨key, pos, hp, hk⟩ := setParameter_has k sig hs
                have hmem := hsub n (List.mem_cons_self ..)
                have : key = .name n := by
                  have hp' : place sig n = some (key, pos) := by simpa [autoDecl] using hp
                  exact place_name_key sig hp' (hv1 n hmem) (hv2 n hmem)
                subst this
                exact fillNames_mono k sig infer ns h hk
              · exact fillNames_complete infer hv1 hv2 ns hsub' h n hn

theorem distinct_varkw {s : PySig} (h : s.Distinct) : ∀ n ∈ s.args ++ s.kwonly, s.varkw ≠ some n := by
  intro n hn hv
  unfold PySig.Distinct at h
  rw [hv] at h
  have := List.nodup_append.mp h
  exact this.2.2 n (by simp at hn ⊢; rcases hn with hn | hn <;> simp [hn]) n (by simp) rfl

theorem distinct_varargs {s : PySig} (h : s.Distinct) : ∀ n ∈ s.args ++ s.kwonly, s.varargs ≠ some n := by
  intro n hn hv
  unfold PySig.Distinct at h
  rw [hv] at h
  have h' := (List.nodup_append.mp h).1
  have := List.nodup_append.mp h'
  exact this.2.2 n hn n (by simp) rfl

theorem distinct_args_kwonly {s : PySig} (h : s.Distinct) : ∀ n ∈ s.kwonly, n ∉ s.args := by
  intro n hn ha
  unfold PySig.Distinct at h
  have h' := (List.nodup_append.mp (List.nodup_append.mp h).1).1
  exact (List.nodup_append.mp h').2.2 n ha n hn rfl

theorem distinct_args {s : PySig} (h : s.Distinct) : s.args.Nodup := by
  unfold PySig.Distinct at h
  exact (List.nodup_append.mp (List.nodup_append.mp (List.nodup_append.mp h).1).1).1

/-- EVERY ARGUMENT HAS AN ENTRY -/
theorem define_complete (hd : sig.Distinct) {infer : Name → Option PTy} {conv : Option (Name → Name)}
    {decls : List Decl} {ps : List Param} (h : define k infer conv sig decls = .ok ps) :
    (∀ n ∈ sig.args ++ sig.kwonly, hasKey ps (.name n) = true) ∧
    (sig.varargs.isSome → hasKey ps .star = true) ∧ (sig.varkw.isSome → hasKey ps .starstar = true) := by
  obtain ⟨ps0, ps1, ps2, ps3, h0, h1, h2, h3, rfl⟩ := define_ok k sig h
  simp only [hasKey_applyConvention]
  refine ⟨fun n hn => ?_, fun hv => ?_, fun hv => ?_⟩
  · have := fillNames_complete k sig infer (distinct_varkw hd) (distinct_varargs hd) _ (fun _ h => h) h1 n hn
    exact fillSpecial_mono k sig infer _ _ h3 (fillSpecial_mono k sig infer _ _ h2 this)
  · refine fillSpecial_mono k sig infer _ _ h3 ?_
    cases hva : sig.varargs with
    | none => simp [hva] at hv
    | some n =>
        rw [hva] at h2
        simp only [fillSpecial] at h2
        cases hk : hasKey ps1 .star with
        | true => simp only [hk, if_true] at h2; injection h2 with h2; subst h2; exact hk
        | false =>
            simp only [hk] at h2
            obtain ⟨key, pos, hp, hk'⟩ := setParameter_has k sig h2
            have hp' : place sig n = some (key, pos) := by simpa [autoDecl] using hp
            have hne : (sig.varkw == some n) = false := by
              unfold PySig.Distinct at hd
              rw [hva] at hd
              cases hw : sig.varkw with
              | none => simp
              | some m =>
                  rw [hw] at hd
                  have := (List.nodup_append.mp hd).2.2 n (by simp) m (by simp)
                  simpa using fun h => this h.symm
            unfold place at hp'
            simp only [hne, hva, beq_self_eq_true, Bool.false_eq_true, if_false, if_true] at hp'
            injection hp' with hp'; injection hp' with hp' _
            subst hp'; exact hk'
  · cases hvk : sig.varkw with
    | none => simp [hvk] at hv
    | some n =>
        rw [hvk] at h3
        simp only [fillSpecial] at h3
        cases hk : hasKey ps2 .starstar with
        | true => simp only [hk, if_true] at h3; injection h3 with h3; subst h3; exact hk
        | false =>
            simp only [hk] at h3
            obtain ⟨key, pos, hp, hk'⟩ := setParameter_has k sig h3
            have hp' : place sig n = some (key, pos) := by simpa [autoDecl] using hp
            unfold place at hp'
            simp only [hvk, beq_self_eq_true, if_true] at hp'
            injection hp' with hp'; injection hp' with hp' _
            subst hp'; exact hk'

/-! ## the defaults -/

theorem hasKey_mem {ps : List Param} {key : Key} (h : hasKey ps key = true) : ∃ p ∈ ps, p.key = key := by
  simp only [hasKey, List.any_eq_true, beq_iff_eq] at h
  exact h

theorem place_key_name {n : Name} {key : Key} {pos : Option Nat} {m : Name}
    (h : place sig n = some (key, pos)) (hk : key = .name m) : n = m := by
  unfold place at h
  subst hk
  split at h
  · injection h with h; injection h with h _; cases h
  · split at h
    · injection h with h; injection h with h _; cases h
    · split at h
      · injection h with h; injection h with h _; injection h
      · split at h
        · injection h with h; injection h with h _; injection h
        · cases h

/-- `place` of a positional argument / of a keyword-only argument of a well-formed signature -/
theorem place_arg (hd : sig.Distinct) {n : Name} (hn : n ∈ sig.args) :
    place sig n = some (.name n, some (sig.args.idxOf n)) := by
  have h1 := distinct_varkw hd n (by simp [hn])
  have h2 := distinct_varargs hd n (by simp [hn])
  have e1 : (sig.varkw == some n) = false := by simpa using h1
  have e2 : (sig.varargs == some n) = false := by simpa using h2
  have hnk : n ∉ sig.kwonly := fun hk => distinct_args_kwonly hd n hk hn
  simp [place, e1, e2, hnk, hn]

theorem place_kwonly (hd : sig.Distinct) {n : Name} (hn : n ∈ sig.kwonly) :
    place sig n = some (.name n, none) := by
  have h1 := distinct_varkw hd n (by simp [hn])
  have h2 := distinct_varargs hd n (by simp [hn])
  have e1 : (sig.varkw == some n) = false := by simpa using h1
  have e2 : (sig.varargs == some n) = false := by simpa using h2
  simp [place, e1, e2, hn]

/-- the entry of a named argument -/
theorem entry_of (hd : sig.Distinct) {infer : Name → Option PTy} {conv : Option (Name → Name)}
    {decls : List Decl} {ps : List Param} (h : define k infer conv sig decls = .ok ps)
    {n : Name} (hn : n ∈ sig.args ++ sig.kwonly) :
    ∃ p ∈ ps, p.key = .name n ∧ p.name = n ∧ place sig n = some (.name n, p.position) ∧
      p.default = declaredDefault sig n := by
  obtain ⟨p, hp, hk⟩ := hasKey_mem ((define_complete k sig hd h).1 n hn)
  obtain ⟨hpl, hdf⟩ := define_sound k sig h p hp
  have hname : p.name = n := place_key_name sig hpl hk
  refine ⟨p, hp, hk, hname, ?_, ?_⟩
  · rw [← hname, hpl, hk, hname]
  · rw [hdf, hname]

theorem idxOf_getElem {l : List Name} (hn : l.Nodup) {i : Nat} (hi : i < l.length) : l.idxOf l[i] = i := by
  induction l generalizing i with
  | nil => cases hi
  | cons a l ih =>
      cases i with
      | zero => simp [List.idxOf_cons]
      | succ i =>
          have hi' : i < l.length := by simpa using hi
          have hne : ¬ a = l[i] := by
            intro e
            have := (List.nodup_cons.mp hn).1
            exact this (e ▸ List.getElem_mem hi')
          simp only [List.getElem_cons_succ, List.idxOf_cons]
          have : (a == l[i]) = false := by simpa using hne
          simp only [this, cond_false]
          rw [ih (List.nodup_cons.mp hn).2 hi']

/-- EVERY PARAMETER WITH A PYTHON DEFAULT GETS THAT DEFAULT - positional: the defaults belong to the LAST
    `len(defaults)` positional arguments, whether or not the payload also has keyword-only arguments;
    keyword-only: by name, whether or not the payload also has positional defaults - and it sits at the
    position of its argument (keyword-only: none) -/
theorem defaults_complete (hd : sig.Distinct) (hlen : sig.defaults.length ≤ sig.args.length)
    {infer : Name → Option PTy} {conv : Option (Name → Name)} {decls : List Decl} {ps : List Param}
    (h : define k infer conv sig decls = .ok ps) :
    (∀ (i : Nat) (hi : i < sig.args.length) (hdf : i + sig.defaults.length ≥ sig.args.length),
      ∃ p ∈ ps, p.key = .name sig.args[i] ∧ p.position = some i ∧
        p.default = some (sig.defaults[i + sig.defaults.length - sig.args.length]'(by omega))) ∧
    (∀ n ∈ sig.kwonly, ∀ v, alookup n sig.kwdefaults = some v →
      ∃ p ∈ ps, p.key = .name n ∧ p.position = none ∧ p.default = some v) := by
  refine ⟨fun i hi hdf => ?_, fun n hn v hv => ?_⟩
  · have hmem : sig.args[i] ∈ sig.args := List.getElem_mem hi
    obtain ⟨p, hp, hk, _, hpl, hdflt⟩ := entry_of k sig hd h (n := sig.args[i]) (by simp [hmem])
    refine ⟨p, hp, hk, ?_, ?_⟩
    · rw [place_arg sig hd hmem, idxOf_getElem (distinct_args hd) hi] at hpl
      injection hpl with hpl; injection hpl with _ hpl; exact hpl.symm
    · rw [hdflt]
      unfold declaredDefault
      have hne : sig.defaults.isEmpty = false := by
        cases hdl : sig.defaults with
        | nil => simp [hdl] at hdf; omega
        | cons _ _ => rfl
      have hc : sig.args.contains sig.args[i] = true := by simpa using hmem
      simp only [hne, hc, Bool.not_false, Bool.and_self, if_true, idxOf_getElem (distinct_args hd) hi]
      rw [if_pos hdf]
      exact List.getElem?_eq_getElem _
  · obtain ⟨p, hp, hk, _, hpl, hdflt⟩ := entry_of k sig hd h (n := n) (by simp [hn])
    refine ⟨p, hp, hk, ?_, ?_⟩
    · rw [place_kwonly sig hd hn] at hpl
      injection hpl with hpl; injection hpl with _ hpl; exact hpl.symm
    · rw [hdflt]
      unfold declaredDefault
      have hc : sig.args.contains n = false := by
        rw [Bool.eq_false_iff]; intro hc
        exact distinct_args_kwonly hd n hn (by simpa using hc)
      simp only [hc, Bool.and_false, Bool.false_eq_true, if_false]
      exact hv

/-- and an argument WITHOUT a Python default stays mandatory (NO_DEFAULT) -/
theorem mandatory_stay_mandatory (hd : sig.Distinct) (hkw : sig.KwDefaultsOk)
    {infer : Name → Option PTy} {conv : Option (Name → Name)}
    {decls : List Decl} {ps : List Param} (h : define k infer conv sig decls = .ok ps) :
    (∀ (i : Nat) (hi : i < sig.args.length), i + sig.defaults.length < sig.args.length →
      ∀ p ∈ ps, p.key = .name sig.args[i] → p.default = none) ∧
    (∀ n ∈ sig.kwonly, alookup n sig.kwdefaults = none → ∀ p ∈ ps, p.key = .name n → p.default = none) := by
  refine ⟨fun i hi hlt p hp hk => ?_, fun n hn hv p hp hk => ?_⟩
  · obtain ⟨hpl, hdf⟩ := define_sound k sig h p hp
    have hname : p.name = sig.args[i] := place_key_name sig hpl hk
    rw [hdf, hname]
    unfold declaredDefault
    have hmem : sig.args[i] ∈ sig.args := List.getElem_mem hi
    have hc : sig.args.contains sig.args[i] = true := by simpa using hmem
    simp only [hc, Bool.and_true, idxOf_getElem (distinct_args hd) hi]
    split
    · rw [if_neg (by omega)]
    · cases hl : alookup sig.args[i] sig.kwdefaults with
      | none => rfl
      | some v => exact absurd hmem (distinct_args_kwonly hd _ (hkw _ v hl))
  · obtain ⟨hpl, hdf⟩ := define_sound k sig h p hp
    have hname : p.name = n := place_key_name sig hpl hk
    rw [hdf, hname]
    unfold declaredDefault
    have hc : sig.args.contains n = false := by
      rw [Bool.eq_false_iff]; intro hc
      exact distinct_args_kwonly hd n hn (by simpa using hc)
    simp only [hc, Bool.and_false, Bool.false_eq_true, if_false]
    exact hv

/-! ## the order of the decorators does not matter -/

/-- a fold over a permuted list, up to a preorder the steps respect and commute under -/
theorem foldl_perm_of_comm {σ α : Type} (R : σ → σ → Prop) (f : σ → α → σ)
    (hrefl : ∀ a, R a a) (htrans : ∀ a b c, R a b → R b c → R a c)
    (hcongr : ∀ a b x, R a b → R (f a x) (f b x))
    (hcomm : ∀ a x y, R (f (f a x) y) (f (f a y) x)) :
    ∀ {l l' : List α}, l.Perm l' → ∀ a b, R a b → R (l.foldl f a) (l'.foldl f b) := by
  have hfold : ∀ (l : List α) a b, R a b → R (l.foldl f a) (l.foldl f b) := by
    intro l
    induction l with
    | nil => intro a b h; exact h
    | cons x l ih => intro a b h; exact ih _ _ (hcongr a b x h)
  intro l l' h
  induction h with
  | nil => intro a b h; exact h
  | cons x _ ih => intro a b h; exact ih _ _ (hcongr a b x h)
  | swap x y l =>
      intro a b h
      simp only [List.foldl_cons]
      exact hfold l _ _ (htrans _ _ _ (hcomm a y x) (hcongr _ _ y (hcongr a b x h)))
  | trans _ _ ih1 ih2 => intro a b h; exact htrans _ _ _ (ih1 a a (hrefl a)) (ih2 a b h)

abbrev Tab := Except SigErr (List Param)

/-- "whenever the left table exists, the right one exists and holds the same entries" -/
def Le (a b : Tab) : Prop := ∀ ps, a = .ok ps → ∃ ps', b = .ok ps' ∧ ps.Perm ps'

theorem Le.refl (a : Tab) : Le a a := fun ps h => ⟨ps, h, .refl _⟩
theorem Le.trans {a b c : Tab} (h1 : Le a b) (h2 : Le b c) : Le a c := by
  intro ps h
  obtain ⟨ps', h', p1⟩ := h1 ps h
  obtain ⟨ps'', h'', p2⟩ := h2 ps' h'
  exact ⟨ps'', h'', p1.trans p2⟩

/-- one decorator applied to a table that may already have failed -/
def stepE (a : Tab) (d : Decl) : Tab :=
  match a with
  | .ok ps => setParameter k sig ps d
  | .error e => .error e

theorem foldl_stepE_error (e : SigErr) : ∀ ds : List Decl, ds.foldl (stepE k sig) (.error e) = .error e
  | [] => rfl
  | _ :: ds => by simp only [List.foldl_cons, stepE]; exact foldl_stepE_error e ds

theorem setAll_eq_foldl : ∀ (ds : List Decl) (ps : List Param),
    setAll k sig ps ds = ds.foldl (stepE k sig) (.ok ps)
  | [], _ => rfl
  | d :: ds, ps => by
      simp only [setAll, List.foldl_cons, stepE]
      cases hs : setParameter k sig ps d with
      | ok ps1 => exact setAll_eq_foldl ds ps1
      | error e => simp [foldl_stepE_error]

theorem hasKey_perm {ps ps' : List Param} (h : ps.Perm ps') (key : Key) : hasKey ps key = hasKey ps' key := by
  unfold hasKey
  rw [Bool.eq_iff_iff]
  simp only [List.any_eq_true]
  exact ⟨fun ⟨p, hp, hk⟩ => ⟨p, h.mem_iff.mp hp, hk⟩, fun ⟨p, hp, hk⟩ => ⟨p, h.mem_iff.mpr hp, hk⟩⟩

theorem setParameter_le {ps ps' : List Param} (h : ps.Perm ps') (d : Decl) :
    Le (setParameter k sig ps d) (setParameter k sig ps' d) := by
  intro qs hq
  obtain ⟨key, pos, hp, hk, rfl⟩ := setParameter_ok k sig hq
  refine ⟨ps' ++ [mkParam k sig d key pos], ?_, h.append_right _⟩
  exact setParameter_eq_ok k sig hp (by rw [← hasKey_perm h key]; exact hk)

theorem stepE_congr (a b : Tab) (d : Decl) (h : Le a b) : Le (stepE k sig a d) (stepE k sig b d) := by
  intro qs hq
  cases a with
  | error e => simp [stepE] at hq
  | ok ps =>
      obtain ⟨ps', rfl, hperm⟩ := h ps rfl
      exact setParameter_le k sig hperm d qs hq

theorem hasKey_snoc (ps : List Param) (p : Param) (key : Key) :
    hasKey (ps ++ [p]) key = (hasKey ps key || p.key == key) := by
  simp [hasKey, List.any_append]

theorem stepE_comm (a : Tab) (x y : Decl) :
    Le (stepE k sig (stepE k sig a x) y) (stepE k sig (stepE k sig a y) x) := by
  intro qs hq
  cases a with
  | error e => simp [stepE] at hq
  | ok ps =>
      simp only [stepE] at hq ⊢
      cases hx : setParameter k sig ps x with
      | error e => simp [hx] at hq
      | ok ps1 =>
          simp only [hx] at hq
          obtain ⟨kx, px, hpx, hkx, rfl⟩ := setParameter_ok k sig hx
          obtain ⟨ky, py, hpy, hky, rfl⟩ := setParameter_ok k sig hq
          rw [hasKey_snoc] at hky
          have hky1 : hasKey ps ky = false := by
            cases h : hasKey ps ky with
            | false => rfl
            | true => simp [h] at hky
          have hne : ((mkParam k sig x kx px).key == ky) = false := by
            cases h : ((mkParam k sig x kx px).key == ky) with
            | false => rfl
            | true => simp [h] at hky
          have hne' : (ky == kx) = false := by
            have hxy : (kx == ky) = false := hne
            cases h : (ky == kx) with
            | false => rfl
            | true =>
                have e : ky = kx := by simpa using h
                subst e
                simp at hxy
          have hy : setParameter k sig ps y = .ok (ps ++ [mkParam k sig y ky py]) :=
            setParameter_eq_ok k sig hpy hky1
          rw [hy]
          refine ⟨ps ++ [mkParam k sig y ky py] ++ [mkParam k sig x kx px], ?_, ?_⟩
          · have : hasKey (ps ++ [mkParam k sig y ky py]) kx = false := by
              rw [hasKey_snoc, hkx]; exact hne'
            exact setParameter_eq_ok k sig hpx this
          · rw [List.append_assoc, List.append_assoc]
            exact List.Perm.append_left ps (List.Perm.swap _ _ _)

/-- the decorators in another order: the same table, if any -/
theorem setAll_perm {ds ds' : List Decl} (h : ds.Perm ds') (ps : List Param) :
    Le (setAll k sig ps ds) (setAll k sig ps ds') := by
  rw [setAll_eq_foldl, setAll_eq_foldl]
  exact foldl_perm_of_comm Le (stepE k sig) Le.refl (fun _ _ _ => Le.trans)
    (fun a b d => stepE_congr k sig a b d) (fun a x y => stepE_comm k sig a x y) h _ _ (Le.refl _)

theorem fillNames_le (infer : Name → Option PTy) : ∀ (ns : List Name) {ps ps' : List Param}, ps.Perm ps' →
    Le (fillNames k sig infer ps ns) (fillNames k sig infer ps' ns)
  | [], ps, ps', h => by
      intro qs hq
      simp only [fillNames] at hq ⊢
      injection hq with hq; subst hq
      exact ⟨ps', rfl, h⟩
  | n :: ns, ps, ps', h => by
      intro qs hq
      simp only [fillNames] at hq ⊢
      rw [← hasKey_perm h]
      cases hk : hasKey ps (.name n) with
      | true =>
          simp only [hk, if_true] at hq ⊢
          exact fillNames_le infer ns h qs hq
      | false =>
          simp only [hk] at hq ⊢
          cases hs : setParameter k sig ps (autoDecl infer n) with
          | error e => simp [hs] at hq
          | ok ps1 =>
              simp only [hs] at hq
              obtain ⟨ps1', hs', hp1⟩ := setParameter_le k sig h (autoDecl infer n) ps1 hs
              simp only [hs']
              exact fillNames_le infer ns hp1 qs hq

theorem fillSpecial_le (infer : Name → Option PTy) (key : Key) (o : Option Name) {ps ps' : List Param}
    (h : ps.Perm ps') : Le (fillSpecial k sig infer key o ps) (fillSpecial k sig infer key o ps') := by
  intro qs hq
  unfold fillSpecial at hq ⊢
  cases o with
  | none => injection hq with hq; subst hq; exact ⟨ps', rfl, h⟩
  | some n =>
      simp only at hq ⊢
      rw [← hasKey_perm h]
      cases hk : hasKey ps key with
      | true => simp only [hk, if_true] at hq ⊢; injection hq with hq; subst hq; exact ⟨ps', rfl, h⟩
      | false => simp only [hk] at hq ⊢; exact setParameter_le k sig h _ qs hq

theorem applyConvention_perm (conv : Option (Name → Name)) {ps ps' : List Param} (h : ps.Perm ps') :
    (applyConvention conv ps).Perm (applyConvention conv ps') := by
  cases conv with
  | none => exact h
  | some f => exact h.map _

/-- THE TABLE IS INSENSITIVE TO THE ORDER OF THE DECORATORS: with the decorators applied in any other order
    `get_function_definition` succeeds as well and yields the same entries (a permutation of the table:
    `parameters` is a dict, an entry is found by its key) -/
theorem define_perm {infer : Name → Option PTy} {conv : Option (Name → Name)} {decls decls' : List Decl}
    (hperm : decls.Perm decls') {ps : List Param} (h : define k infer conv sig decls = .ok ps) :
    ∃ ps', define k infer conv sig decls' = .ok ps' ∧ ps.Perm ps' := by
  obtain ⟨ps0, ps1, ps2, ps3, h0, h1, h2, h3, rfl⟩ := define_ok k sig h
  obtain ⟨q0, g0, p0⟩ := setAll_perm k sig hperm [] ps0 h0
  obtain ⟨q1, g1, p1⟩ := fillNames_le k sig infer _ p0 ps1 h1
  obtain ⟨q2, g2, p2⟩ := fillSpecial_le k sig infer _ _ p1 ps2 h2
  obtain ⟨q3, g3, p3⟩ := fillSpecial_le k sig infer _ _ p2 ps3 h3
  exact ⟨applyConvention conv q3, by simp [define, g0, g1, g2, g3], applyConvention_perm conv p3⟩

/-- in particular: under every key the same entry -/
theorem define_perm_find {infer : Name → Option PTy} {conv : Option (Name → Name)} {decls decls' : List Decl}
    (hperm : decls.Perm decls') {ps ps' : List Param} (h : define k infer conv sig decls = .ok ps)
    (h' : define k infer conv sig decls' = .ok ps') (p : Param) : p ∈ ps ↔ p ∈ ps' := by
  obtain ⟨qs, hq, hp⟩ := define_perm k sig hperm h
  rw [h'] at hq
  injection hq with hq
  subst hq
  exact hp.mem_iff

/-! ## non-vacuity, and the contrast -/
namespace Ex
open Yaql.Props.C05.Ex

def kc : Consts := { object := 0, vTrue := 0 }
def ten : Arg := .value (.obj 6 [] 10)
def falseV : Arg := .value (.obj 8 [] 11)

/-- `def f(a, b=10, *, flag=False)` -/
def sigF : PySig :=
  { args := [['a'], ['b']], defaults := [ten], varargs := none, kwonly := [['f', 'l', 'a', 'g']],
    kwdefaults := [(['f', 'l', 'a', 'g'], falseV)], varkw := none }

/-- `@specs.parameter('flag', bool)` and `@specs.parameter('a', D)` -/
def declFlag : Decl := { name := ['f', 'l', 'a', 'g'], ty := .pyclass 8 }
def declA : Decl := { name := ['a'], ty := .pyclass 4 }

def tableF : List Param :=
  [ { key := .name ['a'], name := ['a'], alias := none, position := some 0, default := none,
      ty := .py (.one 0) true [0] },
    { key := .name ['b'], name := ['b'], alias := none, position := some 1, default := some ten,
      ty := .py (.one 6) true [0] },
    { key := .name ['f', 'l', 'a', 'g'], name := ['f', 'l', 'a', 'g'], alias := none, position := none,
      default := some falseV, ty := .py (.one 8) true [0] } ]

example : (define kc inferByName none sigF []).toOption = some tableF := by decide

example : sigF.Distinct := by unfold PySig.Distinct; decide

/-- two decorators in both orders: the same entries, listed in the order of decoration -/
example : (define kc inferByName none sigF [declFlag, declA]).toOption.map (·.map (·.name)) =
      some [['f', 'l', 'a', 'g'], ['a'], ['b']] ∧
    (define kc inferByName none sigF [declA, declFlag]).toOption.map (·.map (·.name)) =
      some [['a'], ['f', 'l', 'a', 'g'], ['b']] := by decide

/-- declaring an argument twice / an argument the payload does not have is refused -/
def errOf (t : Tab) : Option SigErr :=
  match t with
  | .error e => some e
  | .ok _ => none

example : errOf (define kc inferByName none sigF [declA, declA]) = some .duplicate ∧
    errOf (define kc inferByName none sigF [{ name := ['z'] }]) = some .noParameterFound := by decide

/-- hidden parameters are recognised by their name; the convention fills the missing aliases -/
def sigH : PySig :=
  { args := [['c', 'o', 'n', 't', 'e', 'x', 't'], ['x']], defaults := [], varargs := some ['r'],
    kwonly := [], kwdefaults := [], varkw := some ['k'] }

def tabH : Option (List Param) := (define kc inferByName (some fun n => n ++ ['!']) sigH []).toOption

example : tabH.map (·.map (·.key)) = some [.name ['c', 'o', 'n', 't', 'e', 'x', 't'], .name ['x'], .star, .starstar] ∧
    tabH.map (·.map (·.position)) = some [some 0, some 1, some 2, none] ∧
    tabH.map (·.map (·.ty.isHidden)) = some [true, false, false, false] ∧
    tabH.map (·.map (·.alias)) = some [some ['c', 'o', 'n', 't', 'e', 'x', 't', '!'], some ['x', '!'],
      some ['r', '!'], some ['k', '!']] := by decide

/-- the default lookup with the keyword-only branch as an `elif` of "the payload has positional defaults" -/
def declaredDefaultElif (sig : PySig) (n : Name) : Option Arg :=
  if !sig.defaults.isEmpty then
    if sig.args.contains n then
      let i := sig.args.idxOf n
      if i + sig.defaults.length >= sig.args.length then
        sig.defaults[i + sig.defaults.length - sig.args.length]?
      else none
    else none
  else alookup n sig.kwdefaults

/-- `f(1)` against the table of `def f(a, b=10, *, flag=False)`: callable; with the default of `flag`
    dropped (what `declaredDefaultElif` records) it is not -/
theorem kwonly_elif_drops_default :
    declaredDefault sigF ['f', 'l', 'a', 'g'] = some falseV ∧
    declaredDefaultElif sigF ['f', 'l', 'a', 'g'] = none ∧
    (mapArgs lat tableF [.value (.obj 6 [0] 1)] []).isSome = true ∧
    (mapArgs lat (tableF.map fun p => { p with default := declaredDefaultElif sigF p.name })
      [.value (.obj 6 [0] 1)] []).isSome = false := by decide

end Ex

end Yaql.Props.C05Sig
