import Yaql.Gen.SharedWrites
/-!
C18 over the table of write sites regenerated from the live repo on every run
(`harness/gens/sharedwrites.py`: AST walk over `yaql/__init__.py`, `yaql/language/*.py`,
`yaql/standard_library/*.py`; every assignment to an attribute / item of an object the function
did not create itself, every mutating container call on such an object, every `global` write).

The classification column is computed by the generator's rules; a write no rule explains is
`unknown`.  The theorem says there is none - except the sites listed here with their justification.
A new write site therefore breaks this file, and the check then aims its schedule search at it.
-/
namespace Yaql.Props.C18Gen
open Yaql.Gen.SharedWrites

/-- unexplained by the rules, justified by hand (key = file, function, target; no line numbers) -/
def allowed : List (String × String × String) := [
  -- `FunctionDefinition.set_parameter` fills `self.parameters` of the definition it is called on.  Evaluation
  -- reaches it only through `get_function_definition` (from `Context.register_function(callable)`, i.e. `def`
  -- and the `#finalize` fallback of `Statement.__call__`), which calls it on the `.clone()` it has just made;
  -- the decorators of `specs` call it at import time.  Dynamic side: the deep snapshot of every shared
  -- FunctionDefinition (name, flags, parameters) is compared before/after every schedule.
  ("language/specs.py", "FunctionDefinition.set_parameter", "self.parameters[name.name]"),
  ("language/specs.py", "FunctionDefinition.set_parameter", "self.parameters[arg_name]"),
  -- the decorator `specs.name(..)`: writes the definition attached to the python function being decorated;
  -- evaluation reaches it only from `def_`, which applies it to the `wrapper` it has just defined
  ("language/specs.py", "name.wrapper", "fd.name")
]

def rowOk (r : Row) : Bool :=
  r.cls != .unknown || allowed.contains (r.file, r.func, r.target)

/-- **C18Gen.no_shared_writes**: every write site of the live yaql sources is in an allowed class -
    constructor-time, ply callback on the per-parse token / production, code evaluation cannot reach,
    the context API (called by evaluation on contexts it created), an evaluation-private lazy object,
    a closure cell of the creating call, part of a fresh object, or an idempotent cache. -/
theorem no_shared_writes : ∀ r ∈ rows, rowOk r = true := by
  decide +kernel

/-- the sites evaluation can reach and that write something older than the call are exactly of the
    kinds the model covers: context API / items (`Model/Context`, C09/C17), the lazy objects and the
    closure cell of `memorize` (`SharedObjs.Obj`), the idempotent caches (`SharedObjs.Cache`) -/
theorem reachable_sites_modelled :
    ∀ r ∈ rows, r.reach = true →
      r.cls = .ctor ∨ r.cls = .plyCallback ∨ r.cls = .contextApi ∨ r.cls = .contextItem ∨
      r.cls = .evalPrivateObject ∨ r.cls = .closureCell ∨ r.cls = .freshDerived ∨
      r.cls = .idempotentCache ∨ allowed.contains (r.file, r.func, r.target) = true := by
  decide +kernel

def has (file func target : String) (cls : WClass) : Bool :=
  rows.any fun r => r.file == file && r.func == func && r.target == target && r.cls == cls

/-- non-vacuity: the table is the real code - it contains the sites the property names, in the class
    the model gives them: `FrozenDict._hash` published once (F11, /repo ff43db8; before it the two rows
    `self._hash = 0` / `self._hash ^= ..` were `unknown`), the three `yaql.eval` caches, the stateful lazy
    objects (`OrderingIterable.sorted/order`, `then_by`'s `collection.context`,
    `GroupAggregator._failure_info/allow_fallback`, `RememberingIterator.index`, `yielded`),
    `Statement.evaluate` writing `$` into the context it was given - and the lazy classes have no
    instance reachable from a prepared context, a parsed statement or an engine. -/
theorem table_nonvacuous :
    has "language/utils.py" "FrozenDict.__hash__" "self._hash" .idempotentCache = true ∧
    has "__init__.py" "eval" "_cached_engine" .idempotentCache = true ∧
    has "__init__.py" "eval" "_cached_expressions[expression]" .idempotentCache = true ∧
    has "__init__.py" "eval" "_default_context" .idempotentCache = true ∧
    has "standard_library/queries.py" "OrderingIterable.do_sort" "outer_self.sorted" .evalPrivateObject = true ∧
    has "standard_library/queries.py" "OrderingIterable.append_field" "self.order" .evalPrivateObject = true ∧
    has "standard_library/queries.py" "then_by" "collection.context" .evalPrivateObject = true ∧
    has "standard_library/queries.py" "GroupAggregator.__call__" "self._failure_info" .evalPrivateObject = true ∧
    has "standard_library/queries.py" "GroupAggregator.__call__" "self.allow_fallback" .evalPrivateObject = true ∧
    has "language/utils.py" "memorize.RememberingIterator.__next__" "self.index" .evalPrivateObject = true ∧
    has "language/utils.py" "memorize.RememberingIterator.__next__" "yielded" .closureCell = true ∧
    has "language/expressions.py" "Statement.evaluate" "context['$']" .contextItem = true ∧
    has "language/contexts.py" "Context.__setitem__" "self._data[self._normalize_name(name)]" .contextApi = true ∧
    privateKinds.contains "OrderingIterable" = true ∧ privateKinds.contains "GroupAggregator" = true ∧
    sharedKinds.contains "FrozenDict" = true ∧ sharedKinds.contains "FunctionDefinition" = true ∧
    sharedKinds.contains "Statement" = true ∧ sharedKinds.contains "Context" = true ∧
    sharedKinds.contains "OrderingIterable" = false ∧ sharedKinds.contains "RememberingIterator" = false ∧
    100 ≤ rows.length := by
  decide +kernel

end Yaql.Props.C18Gen
