import Yaql.Model.Effects
import Yaql.Props.C17
/-!
C09, part 2 - contexts.  `Statement.evaluate` changes the context supplied by the host by the `$`
binding only (`only_dollar`), whatever the evaluator does as long as it keeps its discipline: it writes
only to contexts created after the evaluation started (`FreshOnly`, the abstract predicate; `frame` is
proved from it by induction over step sequences, `discipline_fresh` derives it from the syntactic form
of the discipline "never write through the context you were handed").  Consequently statements and
contexts can be reused (`reeval`, `reeval_pool`).
-/
namespace Yaql.Props.C09
open Yaql.Context Yaql.Effects Yaql.Props.C17

/-! ## cell-level facts about the write operations -/

theorem get_append_empty (cs : Cells) (c : Nat) : (cs ++ [({} : Cell)]).get c = cs.get c := by
  unfold Cells.get
  simp only [List.getD_eq_getElem?_getD]
  by_cases h : c < cs.length
  · simp [List.getElem?_append_left h]
  · have h' : cs.length ≤ c := Nat.le_of_not_lt h
    rw [List.getElem?_append_right h']
    have : cs[c]? = none := List.getElem?_eq_none h'
    rw [this]
    by_cases h2 : c - cs.length = 0
    · simp [h2]
    · have : ([({} : Cell)])[c - cs.length]? = none := by
        apply List.getElem?_eq_none; simp; omega
      simp [this]

theorem modifyCell_length (cs : Cells) (c : Nat) (f : Cell → Cell) :
    (modifyCell cs c f).length = cs.length := by
  unfold modifyCell; split <;> simp

theorem foldl_modify_length (g : Nat → Cell → Cell) : ∀ (l : List Nat) (cs : Cells),
    (l.foldl (fun cs c => modifyCell cs c (g c)) cs).length = cs.length
  | [], cs => rfl
  | c :: l, cs => by simp [List.foldl, foldl_modify_length g l, modifyCell_length]

theorem foldl_modify_get_ne (g : Nat → Cell → Cell) (c' : Nat) : ∀ (l : List Nat) (cs : Cells),
    c' ∉ l → (l.foldl (fun cs c => modifyCell cs c (g c)) cs).get c' = cs.get c'
  | [], cs, _ => rfl
  | c :: l, cs, h => by
      simp only [List.mem_cons, not_or] at h
      simp only [List.foldl]
      rw [foldl_modify_get_ne g c' l _ h.2, get_modify_ne _ _ _ _ h.1]

theorem setData_length (cs : Cells) (s : Shape) (n : Name) (v : Val) :
    (setData cs s n v).length = cs.length := by
  unfold setData; split <;> simp [modifyCell_length]

theorem register_length (cs : Cells) (s : Shape) (fn : Name) (fid : Fid) (x : Bool) :
    (register cs s fn fid x).length = cs.length := by
  unfold register; split <;> simp [modifyCell_length]

theorem register_local (cs : Cells) (s : Shape) (fn : Name) (fid : Fid) (x : Bool) (c' : Nat)
    (h : writeCell s ≠ some c') : (register cs s fn fid x).get c' = cs.get c' := by
  unfold register
  cases hw : writeCell s with
  | none => rfl
  | some c =>
      have : c' ≠ c := by intro e; subst e; exact h hw
      simp [get_modify_ne _ _ _ _ this]

theorem delData_length (cs cs' : Cells) (s : Shape) (n : Name) (h : delData cs s n = some cs') :
    cs'.length = cs.length := by
  simp only [delData] at h
  split at h
  · simp only [Option.some.injEq] at h
    subst h
    exact foldl_modify_length (fun _ cell => { cell with data := aerase (normName n) cell.data }) _ _
  · cases h

theorem delData_local (cs cs' : Cells) (s : Shape) (n : Name) (c' : Nat) (h : delData cs s n = some cs')
    (hc : c' ∉ delCells s) : cs'.get c' = cs.get c' := by
  simp only [delData] at h
  split at h
  · simp only [Option.some.injEq] at h
    subst h
    exact foldl_modify_get_ne (fun _ cell => { cell with data := aerase (normName n) cell.data }) c' _ _ hc
  · cases h

theorem deleteFunction_length (cs : Cells) (s : Shape) (fn : Name) (fid : Fid) :
    (deleteFunction cs s fn fid).length = cs.length :=
  foldl_modify_length (fun _ cell => { cell with funcs := cell.funcs.filter (· != (fn, fid)),
                                                  excl := cell.excl.filter (· != fn) }) _ _

theorem deleteFunction_local (cs : Cells) (s : Shape) (fn : Name) (fid : Fid) (c' : Nat)
    (hc : c' ∉ delCells s) : (deleteFunction cs s fn fid).get c' = cs.get c' :=
  foldl_modify_get_ne (fun _ cell => { cell with funcs := cell.funcs.filter (· != (fn, fid)),
                                                  excl := cell.excl.filter (· != fn) }) c' _ _ hc

/-! ## frame: a run that writes only to fresh cells leaves every older cell as it was -/

theorem run1_length (st : St) (s : Step) : st.cells.length ≤ (run1 st s).cells.length := by
  cases s with
  | child p =>
      simp only [run1]
      split
      · exact Nat.le_refl _
      · split <;> simp
  | set f n v =>
      simp only [run1]
      split <;> simp [setData_length]
  | del f n =>
      simp only [run1]
      split
      · exact Nat.le_refl _
      · split
        · rename_i cs h; simp [delData_length _ _ _ _ h]
        · exact Nat.le_refl _
  | reg f fn fid x =>
      simp only [run1]
      split <;> simp [register_length]
  | delf f fn fid =>
      simp only [run1]
      split <;> simp [deleteFunction_length]

/-- one step: a cell the step does not write to is unchanged -/
theorem run1_frame (st : St) (s : Step) (c : Nat) (h : c ∉ s.writes st) :
    (run1 st s).cells.get c = st.cells.get c := by
  cases s with
  | child p =>
      simp only [run1]
      split
      · rfl
      · split <;> simp [get_append_empty]
  | set f n v =>
      simp only [run1, Step.writes] at h ⊢
      split
      · rfl
      · rename_i sh hf
        simp only [hf] at h
        exact write_local _ _ _ _ _ (fun e => h (by simp [e]))
  | del f n =>
      simp only [run1, Step.writes] at h ⊢
      split
      · rfl
      · rename_i sh hf
        simp only [hf] at h
        split
        · rename_i cs hd; exact delData_local _ _ _ _ _ hd h
        · rfl
  | reg f fn fid x =>
      simp only [run1, Step.writes] at h ⊢
      split
      · rfl
      · rename_i sh hf
        simp only [hf] at h
        exact register_local _ _ _ _ _ _ (fun e => h (by simp [e]))
  | delf f fn fid =>
      simp only [run1, Step.writes] at h ⊢
      split
      · rfl
      · rename_i sh hf
        simp only [hf] at h
        exact deleteFunction_local _ _ _ _ _ h

theorem run_length : ∀ (steps : List Step) (st : St), st.cells.length ≤ (run st steps).cells.length
  | [], _ => Nat.le_refl _
  | s :: r, st => Nat.le_trans (run1_length st s) (run_length r (run1 st s))

/-- **C09.frame** (induction over step sequences): if every write of a run goes to a cell allocated at or
    after `start` - the evaluator writes only to contexts created after the evaluation started -, then
    every cell below `start` (all the state of every context that existed before) is unchanged, for
    every step sequence of every length. -/
theorem frame (start : Nat) : ∀ (steps : List Step) (st : St), FreshOnly start st steps →
    ∀ c < start, (run st steps).cells.get c = st.cells.get c
  | [], _, _, _, _ => rfl
  | s :: r, st, h, c, hc => by
      obtain ⟨h1, h2⟩ := h
      simp only [run]
      rw [frame start r (run1 st s) h2 c hc]
      exact run1_frame st s c (fun hm => by have := h1 c hm; omega)

/-! ## the syntactic discipline implies the abstract predicate -/

/-- frames other than frame 0 are plain contexts owning a cell allocated at or after `start` -/
def FramesFresh (start : Nat) (st : St) : Prop :=
  start ≤ st.cells.length ∧
  ∀ (i : Nat) (s : Shape), 1 ≤ i → st.frames[i]? = some s → ∃ c p, s = .plain c p ∧ start ≤ c

theorem createChild_plain (fresh : Nat) (s c : Shape) (b : Bool) (h : createChild fresh s = .ok c b) :
    ∃ p, c = .plain fresh p := by
  cases s with
  | plain c' p => simp only [createChild, ChildResult.ok.injEq] at h; exact ⟨_, h.1.symm⟩
  | multi ms p => simp only [createChild, ChildResult.ok.injEq] at h; exact ⟨_, h.1.symm⟩
  | linked t p =>
      cases t with
      | plain c' p' => simp only [createChild, ChildResult.ok.injEq] at h; exact ⟨_, h.1.symm⟩
      | multi ms p' => simp [createChild] at h
      | linked t' p' => simp [createChild] at h

theorem framesFresh_run1 (start : Nat) (st : St) (s : Step) (hne : st.frames ≠ [])
    (h : FramesFresh start st) : FramesFresh start (run1 st s) ∧ (run1 st s).frames ≠ [] := by
  obtain ⟨hl, hf⟩ := h
  cases s with
  | child p =>
      cases hp : st.frames[p]? with
      | none =>
          have e : run1 st (.child p) = st := by simp [run1, hp]
          rw [e]; exact ⟨⟨hl, hf⟩, hne⟩
      | some sh =>
          cases hc : createChild st.cells.length sh with
          | typeError =>
              have e : run1 st (.child p) = st := by simp [run1, hp, hc]
              rw [e]; exact ⟨⟨hl, hf⟩, hne⟩
          | ok c b =>
              have e : run1 st (.child p) = { cells := st.cells ++ [{}], frames := st.frames ++ [c] } := by
                simp [run1, hp, hc]
              rw [e]
              obtain ⟨pp, rfl⟩ := createChild_plain _ _ _ _ hc
              refine ⟨⟨by simp; omega, ?_⟩, by simp⟩
              intro i s hi hs
              simp only at hs
              by_cases hlt : i < st.frames.length
              · rw [List.getElem?_append_left hlt] at hs
                exact hf i s hi hs
              · have hge : st.frames.length ≤ i := Nat.le_of_not_lt hlt
                rw [List.getElem?_append_right hge] at hs
                by_cases h0 : i - st.frames.length = 0
                · simp only [h0, List.getElem?_cons_zero, Option.some.injEq] at hs
                  exact ⟨_, _, hs.symm, hl⟩
                · have : ([Shape.plain st.cells.length pp])[i - st.frames.length]? = none := by
                    apply List.getElem?_eq_none; simp; omega
                  rw [this] at hs; cases hs
  | set f n v =>
      have e : (run1 st (.set f n v)).frames = st.frames := by
        simp only [run1]; split <;> rfl
      have l : (run1 st (.set f n v)).cells.length = st.cells.length := by
        simp only [run1]; split <;> simp [setData_length]
      exact ⟨⟨by omega, by rw [e]; exact hf⟩, by rw [e]; exact hne⟩
  | del f n =>
      have e : (run1 st (.del f n)).frames = st.frames := by
        simp only [run1]; split
        · rfl
        · split <;> rfl
      have l : (run1 st (.del f n)).cells.length = st.cells.length := by
        simp only [run1]; split
        · rfl
        · split
          · rename_i cs hd; simp [delData_length _ _ _ _ hd]
          · rfl
      exact ⟨⟨by omega, by rw [e]; exact hf⟩, by rw [e]; exact hne⟩
  | reg f fn fid x =>
      have e : (run1 st (.reg f fn fid x)).frames = st.frames := by
        simp only [run1]; split <;> rfl
      have l : (run1 st (.reg f fn fid x)).cells.length = st.cells.length := by
        simp only [run1]; split <;> simp [register_length]
      exact ⟨⟨by omega, by rw [e]; exact hf⟩, by rw [e]; exact hne⟩
  | delf f fn fid =>
      have e : (run1 st (.delf f fn fid)).frames = st.frames := by
        simp only [run1]; split <;> rfl
      have l : (run1 st (.delf f fn fid)).cells.length = st.cells.length := by
        simp only [run1]; split <;> simp [deleteFunction_length]
      exact ⟨⟨by omega, by rw [e]; exact hf⟩, by rw [e]; exact hne⟩

theorem writes_fresh (start : Nat) (st : St) (s : Step) (h : FramesFresh start st)
    (ht : s.target ≠ some 0) : ∀ c ∈ s.writes st, start ≤ c := by
  obtain ⟨_, hf⟩ := h
  have key : ∀ f : Nat, f ≠ 0 → ∀ sh, st.frames[f]? = some sh →
      (∀ c ∈ (writeCell sh).toList, start ≤ c) ∧ (∀ c ∈ delCells sh, start ≤ c) := by
    intro f hf0 sh hsh
    obtain ⟨c, p, rfl, hc⟩ := hf f sh (by omega) hsh
    simp [writeCell, delCells, hc]
  intro c hc
  cases s with
  | child p => simp [Step.writes] at hc
  | set f n v =>
      simp only [Step.target, ne_eq, Option.some.injEq] at ht
      simp only [Step.writes] at hc
      cases hsh : st.frames[f]? with
      | none => simp [hsh] at hc
      | some sh => simp only [hsh] at hc; exact (key f ht sh hsh).1 c hc
  | reg f fn fid x =>
      simp only [Step.target, ne_eq, Option.some.injEq] at ht
      simp only [Step.writes] at hc
      cases hsh : st.frames[f]? with
      | none => simp [hsh] at hc
      | some sh => simp only [hsh] at hc; exact (key f ht sh hsh).1 c hc
  | del f n =>
      simp only [Step.target, ne_eq, Option.some.injEq] at ht
      simp only [Step.writes] at hc
      cases hsh : st.frames[f]? with
      | none => simp [hsh] at hc
      | some sh => simp only [hsh] at hc; exact (key f ht sh hsh).2 c hc
  | delf f fn fid =>
      simp only [Step.target, ne_eq, Option.some.injEq] at ht
      simp only [Step.writes] at hc
      cases hsh : st.frames[f]? with
      | none => simp [hsh] at hc
      | some sh => simp only [hsh] at hc; exact (key f ht sh hsh).2 c hc

/-- **C09.discipline_fresh**: an evaluator that never writes through the context it was handed (frame 0)
    - it writes through children it created, children of those, ... - writes to fresh cells only:
    `create_child_context` always yields a plain `Context` owning a newly allocated cell, and writes
    through a plain context go to its own cell. -/
theorem discipline_fresh (start : Nat) : ∀ (steps : List Step) (st : St), st.frames ≠ [] →
    FramesFresh start st → NoHostWrite steps → FreshOnly start st steps
  | [], _, _, _, _ => trivial
  | s :: r, st, hne, h, hd => by
      have ht : s.target ≠ some 0 := hd s (by simp)
      obtain ⟨h', hne'⟩ := framesFresh_run1 start st s hne h
      exact ⟨writes_fresh start st s h ht,
        discipline_fresh start r (run1 st s) hne' h' (fun s' hs' => hd s' (by simp [hs']))⟩

theorem framesFresh_init (cs : Cells) (s : Shape) : FramesFresh cs.length ⟨cs, [s]⟩ := by
  refine ⟨Nat.le_refl _, ?_⟩
  intro i sh hi hs
  have : ([s])[i]? = none := by apply List.getElem?_eq_none; simp; omega
  simp only [this] at hs; cases hs

/-- **C09.context_frame**: the evaluator, started with the host's context as frame 0 and keeping its
    discipline, leaves every cell of the store as it found it (only appends new ones) -/
theorem context_frame (cs : Cells) (s : Shape) (steps : List Step) (hd : NoHostWrite steps) :
    cs.length ≤ (run ⟨cs, [s]⟩ steps).cells.length ∧
    ∀ c < cs.length, (run ⟨cs, [s]⟩ steps).cells.get c = cs.get c :=
  ⟨run_length steps ⟨cs, [s]⟩,
   frame cs.length steps ⟨cs, [s]⟩ (discipline_fresh _ steps _ (by simp) (framesFresh_init cs s) hd)⟩

/-! ## reads depend only on the cells reachable from the context -/

mutual
theorem getLocal_congr (cs cs' : Cells) (n : Name) : ∀ (t : Shape),
    (∀ c ∈ cellsOf t, alookup n (cs.get c).data = alookup n (cs'.get c).data) →
    getLocal cs n t = getLocal cs' n t
  | .plain c p, h => by simpa [getLocal] using h c (by simp [cellsOf])
  | .multi ms p, h => by
      simp only [getLocal]
      exact getLocalL_congr cs cs' n ms (fun c hc => h c (by simp [cellsOf, hc]))
  | .linked t p, h => by
      simp only [getLocal]
      exact getLocal_congr cs cs' n t (fun c hc => h c (by simp [cellsOf, hc]))
theorem getLocalL_congr (cs cs' : Cells) (n : Name) : ∀ (ms : List Shape),
    (∀ c ∈ cellsOfL ms, alookup n (cs.get c).data = alookup n (cs'.get c).data) →
    getLocalL cs n ms = getLocalL cs' n ms
  | [], _ => rfl
  | m :: ms, h => by
      simp only [getLocalL]
      rw [getLocal_congr cs cs' n m (fun c hc => h c (by simp [cellsOfL, hc])),
        getLocalL_congr cs cs' n ms (fun c hc => h c (by simp [cellsOfL, hc]))]
end

mutual
theorem walk_congr (cs cs' : Cells) (n : Name) : ∀ (t : Shape),
    (∀ c ∈ cellsOf t, alookup n (cs.get c).data = alookup n (cs'.get c).data) →
    walk cs n t = walk cs' n t
  | .plain c p, h => by
      simp only [walk]
      rw [h c (by simp [cellsOf]), walkParents_congr cs cs' n p (fun c hc => h c (by simp [cellsOf, hc]))]
  | .multi ms p, h => by
      simp only [walk]
      rw [getLocalL_congr cs cs' n ms (fun c hc => h c (by simp [cellsOf, hc])),
        walkParents_congr cs cs' n p (fun c hc => h c (by simp [cellsOf, hc]))]
  | .linked t p, h => by
      simp only [walk]
      rw [getLocal_congr cs cs' n t (fun c hc => h c (by simp [cellsOf, hc])),
        walkParents_congr cs cs' n p (fun c hc => h c (by simp [cellsOf, hc]))]
theorem walkParents_congr (cs cs' : Cells) (n : Name) : ∀ (p : Option Shape),
    (∀ c ∈ cellsOfO p, alookup n (cs.get c).data = alookup n (cs'.get c).data) →
    walkParents cs n p = walkParents cs' n p
  | none, _ => rfl
  | some t, h => by
      simp only [walkParents]
      exact walk_congr cs cs' n t (fun c hc => h c (by simpa [cellsOfO] using hc))
end

mutual
theorem contains_congr (cs cs' : Cells) (n : Name) : ∀ (t : Shape),
    (∀ c ∈ cellsOf t, alookup n (cs.get c).data = alookup n (cs'.get c).data) →
    contains cs n t = contains cs' n t
  | .plain c p, h => by simp [contains, h c (by simp [cellsOf])]
  | .multi ms p, h => by
      simp only [contains]
      exact containsL_congr cs cs' n ms (fun c hc => h c (by simp [cellsOf, hc]))
  | .linked t p, h => by
      simp only [contains]
      exact contains_congr cs cs' n t (fun c hc => h c (by simp [cellsOf, hc]))
theorem containsL_congr (cs cs' : Cells) (n : Name) : ∀ (ms : List Shape),
    (∀ c ∈ cellsOfL ms, alookup n (cs.get c).data = alookup n (cs'.get c).data) →
    containsL cs n ms = containsL cs' n ms
  | [], _ => rfl
  | m :: ms, h => by
      simp only [containsL]
      rw [contains_congr cs cs' n m (fun c hc => h c (by simp [cellsOfL, hc])),
        containsL_congr cs cs' n ms (fun c hc => h c (by simp [cellsOfL, hc]))]
end

/-- same functions and exclusivity flags in a cell -/
def SameFuncs (a b : Cell) : Prop := a.funcs = b.funcs ∧ a.excl = b.excl

mutual
theorem getFunctions_congr (cs cs' : Cells) (n : Name) : ∀ (t : Shape),
    (∀ c ∈ cellsOf t, SameFuncs (cs.get c) (cs'.get c)) →
    getFunctions cs n t = getFunctions cs' n t
  | .plain c p, h => by
      obtain ⟨h1, h2⟩ := h c (by simp [cellsOf])
      simp [getFunctions, cellFuncs, h1, h2]
  | .multi ms p, h => by
      simp only [getFunctions]
      exact getFunctionsL_congr cs cs' n ms (fun c hc => h c (by simp [cellsOf, hc]))
  | .linked t p, h => by
      simp only [getFunctions]
      exact getFunctions_congr cs cs' n t (fun c hc => h c (by simp [cellsOf, hc]))
theorem getFunctionsL_congr (cs cs' : Cells) (n : Name) : ∀ (ms : List Shape),
    (∀ c ∈ cellsOfL ms, SameFuncs (cs.get c) (cs'.get c)) →
    getFunctionsL cs n ms = getFunctionsL cs' n ms
  | [], _ => rfl
  | m :: ms, h => by
      simp only [getFunctionsL]
      rw [getFunctions_congr cs cs' n m (fun c hc => h c (by simp [cellsOfL, hc])),
        getFunctionsL_congr cs cs' n ms (fun c hc => h c (by simp [cellsOfL, hc]))]
end

mutual
theorem collectAt_congr (cs cs' : Cells) (n : Name) : ∀ (t : Shape),
    (∀ c ∈ cellsOf t, SameFuncs (cs.get c) (cs'.get c)) →
    collectAt cs n t = collectAt cs' n t
  | .plain c p, h => by
      obtain ⟨h1, h2⟩ := h c (by simp [cellsOf])
      simp only [collectAt, cellFuncs, h1, h2]
      rw [collectFrom_congr cs cs' n p (fun c hc => h c (by simp [cellsOf, hc]))]
      rfl
  | .multi ms p, h => by
      simp only [collectAt]
      rw [getFunctionsL_congr cs cs' n ms (fun c hc => h c (by simp [cellsOf, hc])),
        collectFrom_congr cs cs' n p (fun c hc => h c (by simp [cellsOf, hc]))]
  | .linked t p, h => by
      simp only [collectAt]
      rw [getFunctions_congr cs cs' n t (fun c hc => h c (by simp [cellsOf, hc])),
        collectFrom_congr cs cs' n p (fun c hc => h c (by simp [cellsOf, hc]))]
theorem collectFrom_congr (cs cs' : Cells) (n : Name) : ∀ (p : Option Shape),
    (∀ c ∈ cellsOfO p, SameFuncs (cs.get c) (cs'.get c)) →
    collectFrom cs n p = collectFrom cs' n p
  | none, _ => rfl
  | some t, h => by
      simp only [collectFrom]
      exact collectAt_congr cs cs' n t (fun c hc => h c (by simpa [cellsOfO] using hc))
end

mutual
theorem writeCell_mem : ∀ (t : Shape) (w : Nat), writeCell t = some w → w ∈ cellsOf t
  | .plain c p, w, h => by simp only [writeCell, Option.some.injEq] at h; simp [cellsOf, h]
  | .multi [] p, w, h => by simp [writeCell] at h
  | .multi (m :: ms) p, w, h => by
      simp only [writeCell] at h
      simp [cellsOf, cellsOfL, writeCell_mem m w h]
  | .linked t p, w, h => by
      simp only [writeCell] at h
      simp [cellsOf, writeCell_mem t w h]
end

/-! ## `Statement.evaluate` -/

theorem setData_get_eq (cs : Cells) (s : Shape) (n : Name) (v : Val) (w : Nat)
    (hw : writeCell s = some w) (hl : w < cs.length) :
    (setData cs s n v).get w = { cs.get w with data := aset (normName n) v (cs.get w).data } := by
  simp [setData, hw, get_modify_eq _ _ _ hl]

theorem alookup_aset_ne {α} (k m : Name) (v : α) (h : m ≠ k) : ∀ (l : List (Name × α)),
    alookup m (aset k v l) = alookup m l
  | [] => by
      have : (k == m) = false := by simpa using (Ne.symm h)
      simp [aset, alookup, this]
  | (k', v') :: r => by
      by_cases hk : (k' == k) = true
      · have e : k' = k := by simpa using hk
        have : (k' == m) = false := by subst e; simpa using (Ne.symm h)
        simp [aset, alookup, hk, this]
      · have hk' : (k' == k) = false := by simpa using hk
        simp [aset, hk', alookup, alookup_aset_ne k m v h r]

theorem aset_aset {α} (k : Name) (v v' : α) : ∀ (l : List (Name × α)),
    aset k v' (aset k v l) = aset k v' l
  | [] => by simp [aset]
  | (k', x) :: r => by
      by_cases hk : (k' == k) = true
      · simp [aset, hk]
      · simp [aset, hk, aset_aset k v v' r]

/-- `Statement.__call__` (with or without the `#finalize` wrapper) leaves every existing cell as it was -/
theorem statementCall_frame (cs : Cells) (s : Shape) (fin : Fid) (body : List Step)
    (hd : NoHostWrite body) :
    cs.length ≤ (statementCall cs s fin body).length ∧
    ∀ c < cs.length, (statementCall cs s fin body).get c = cs.get c := by
  unfold statementCall
  split
  · split
    · rename_i c b hc
      obtain ⟨pp, rfl⟩ := createChild_plain _ _ _ _ hc
      have hlen : (register (cs ++ [({} : Cell)]) (.plain cs.length pp) finalizeName fin false).length = cs.length + 1 := by
        simp [register_length]
      have hfresh : FramesFresh cs.length
          ⟨register (cs ++ [({} : Cell)]) (.plain cs.length pp) finalizeName fin false, [.plain cs.length pp]⟩ := by
        refine ⟨by simp only [hlen]; omega, ?_⟩
        intro i sh hi hs
        have : ([Shape.plain cs.length pp])[i]? = none := by apply List.getElem?_eq_none; simp; omega
        simp only [this] at hs; cases hs
      have hfr := frame cs.length body _ (discipline_fresh _ body _ (by simp) hfresh hd)
      have hl := run_length body
        ⟨register (cs ++ [({} : Cell)]) (.plain cs.length pp) finalizeName fin false, [.plain cs.length pp]⟩
      refine ⟨by simp only [hlen] at hl; omega, ?_⟩
      intro c hc'
      rw [hfr c hc', register_local _ _ _ _ _ _ (by simp [writeCell]; omega), get_append_empty]
    · exact ⟨Nat.le_refl _, fun _ _ => rfl⟩
  · exact context_frame cs s body hd

/-- **C09.only_dollar** (all stores, all context shapes - plain, multi, linked, any parent chain -, all
    disciplined evaluator runs of any length, with or without data, with or without the `#finalize`
    wrapper).  After `statement.evaluate(data, context)` the store differs from the one before in the
    `$` binding only: every cell other than the one `context['$'] = ..` writes to (the context's own,
    the first member's for a multi-context, the target's for a linked one) is unchanged; in that cell
    the functions and the exclusivity flags are unchanged and the data is the old data with `$`
    (stored as `$1`) set to the bound value - every other name keeps its value and its position;
    without data nothing at all changes.  Shapes (parent / member / link pointers) are immutable values
    of the model: the chain itself cannot change. -/
theorem only_dollar (cs : Cells) (s : Shape) (bound : Option Val) (fin : Fid) (body : List Step)
    (hd : NoHostWrite body) :
    cs.length ≤ (evaluate cs s bound fin body).length ∧
    (∀ c < cs.length, writeCell s ≠ some c → (evaluate cs s bound fin body).get c = cs.get c) ∧
    (bound = none → ∀ c < cs.length, (evaluate cs s bound fin body).get c = cs.get c) ∧
    (∀ v w, bound = some v → writeCell s = some w → w < cs.length →
      (evaluate cs s bound fin body).get w =
        { cs.get w with data := aset (normName dollar) v (cs.get w).data }) := by
  cases bound with
  | none =>
      obtain ⟨h1, h2⟩ := statementCall_frame cs s fin body hd
      exact ⟨h1, fun c hc _ => h2 c hc, fun _ c hc => h2 c hc, fun _ _ h => (by cases h)⟩
  | some v =>
      obtain ⟨h1, h2⟩ := statementCall_frame (setData cs s dollar v) s fin body hd
      simp only [setData_length] at h1 h2
      refine ⟨h1, ?_, (fun h => by cases h), ?_⟩
      · intro c hc hw
        simp only [evaluate]
        rw [h2 c hc, write_local _ _ _ _ _ hw]
      · intro v' w hv hw hl
        simp only [Option.some.injEq] at hv; subst hv
        simp only [evaluate]
        rw [h2 w hl, setData_get_eq _ _ _ _ _ hw hl]

/-- what `only_dollar` means for the cells of the host's contexts: same functions and flags everywhere,
    same value for every name other than `$` -/
theorem only_dollar_cells (cs : Cells) (s : Shape) (bound : Option Val) (fin : Fid) (body : List Step)
    (hd : NoHostWrite body) (c : Nat) (hc : c < cs.length) :
    SameFuncs (cs.get c) ((evaluate cs s bound fin body).get c) ∧
    ∀ m, m ≠ normName dollar →
      alookup m (cs.get c).data = alookup m ((evaluate cs s bound fin body).get c).data := by
  obtain ⟨_, h2, h3, h4⟩ := only_dollar cs s bound fin body hd
  cases bound with
  | none => rw [h3 rfl c hc]; exact ⟨⟨rfl, rfl⟩, fun _ _ => rfl⟩
  | some v =>
      by_cases hw : writeCell s = some c
      · rw [h4 v c rfl hw hc]
        exact ⟨⟨rfl, rfl⟩, fun m hm => (alookup_aset_ne _ m v hm _).symm⟩
      · rw [h2 c hc hw]; exact ⟨⟨rfl, rfl⟩, fun _ _ => rfl⟩

/-- **C09.only_dollar_reads**: seen through the context API, from **any** context `t` of the host's
    forest (the supplied one, its parents, siblings sharing parents, multi / linked contexts over
    them): every variable other than `$` reads as before, is (not) contained as before, and every
    function name collects the same overload layers and has the same local functions / exclusivity. -/
theorem only_dollar_reads (cs : Cells) (s : Shape) (bound : Option Val) (fin : Fid) (body : List Step)
    (hd : NoHostWrite body) (t : Shape) (ht : ∀ c ∈ cellsOf t, c < cs.length) :
    (∀ name, normName name ≠ normName dollar →
      getData (evaluate cs s bound fin body) t name = getData cs t name ∧
      containsName (evaluate cs s bound fin body) t name = containsName cs t name) ∧
    (∀ f, collectFunctions (evaluate cs s bound fin body) t f = collectFunctions cs t f) ∧
    (∀ f, getFunctions (evaluate cs s bound fin body) f t = getFunctions cs f t) := by
  have hc := fun c (hm : c ∈ cellsOf t) => only_dollar_cells cs s bound fin body hd c (ht c hm)
  refine ⟨fun name hn => ⟨?_, ?_⟩, fun f => ?_, fun f => ?_⟩
  · unfold getData
    rw [walkParents_congr cs _ (normName name) (some t) (fun c hm => (hc c hm).2 _ hn)]
  · unfold containsName
    rw [contains_congr cs _ (normName name) t (fun c hm => (hc c hm).2 _ hn)]
  · unfold collectFunctions
    rw [collectFrom_congr cs _ _ (some t) (fun c hm => (hc c hm).1)]
  · rw [getFunctions_congr cs _ f t (fun c hm => (hc c hm).1)]

/-- ... and `$` itself reads as the bound value through the supplied context -/
theorem dollar_bound (cs : Cells) (s : Shape) (v : Val) (fin : Fid) (body : List Step)
    (hd : NoHostWrite body) (w : Nat) (hw : writeCell s = some w) (hs : ∀ c ∈ cellsOf s, c < cs.length) :
    getData (evaluate cs s (some v) fin body) s dollar = v := by
  have hl : w < cs.length := hs w (writeCell_mem s w hw)
  have hwr := write_then_read cs s dollar v w hw hl
  obtain ⟨h1, h2⟩ := statementCall_frame (setData cs s dollar v) s fin body hd
  simp only [setData_length] at h2
  refine Eq.trans ?_ hwr
  unfold getData
  simp only [evaluate]
  rw [walkParents_congr _ (setData cs s dollar v) (normName dollar) (some s)
    (fun c hm => by rw [h2 c (hs c (by simpa [cellsOfO] using hm))])]

/-! ## reuse of statements and contexts -/

/-- `cs` is `cs0` plus garbage, up to the current `$` binding: once `$` is bound again, the cells of
    `cs0` are the same in both -/
def HostEq (cs0 : Cells) (s : Shape) (cs : Cells) : Prop :=
  cs0.length ≤ cs.length ∧
  ∀ (v : Val) (c : Nat), c < cs0.length → (setData cs s dollar v).get c = (setData cs0 s dollar v).get c

theorem hostEq_refl (cs0 : Cells) (s : Shape) : HostEq cs0 s cs0 := ⟨Nat.le_refl _, fun _ _ _ => rfl⟩

theorem evalStmt_hostEq {Res : Type} (cs0 cs : Cells) (s : Shape) (st : Stmt Res) (v : Val)
    (hs : ∀ c ∈ cellsOf s, c < cs0.length) (h : HostEq cs0 s cs) (hd : st.Disciplined) :
    HostEq cs0 s (evalStmt cs s st v).1 := by
  obtain ⟨hlen, heq⟩ := h
  obtain ⟨f1, f2⟩ := context_frame (setData cs s dollar v) s (st.prog (setData cs s dollar v) s).1 (hd _ _)
  simp only [setData_length] at f1 f2
  refine ⟨by simp only [evalStmt]; omega, ?_⟩
  intro v' c hc
  simp only [evalStmt]
  cases hw : writeCell s with
  | none =>
      have e : ∀ (Y : Cells) (x : Val), setData Y s dollar x = Y := fun Y x => by simp [setData, hw]
      rw [e, f2 c (by omega)]
      have := heq v c hc
      rw [e, e] at this
      rw [e, e, this]
  | some w =>
      have hwl : w < cs0.length := hs w (writeCell_mem s w hw)
      by_cases hcw : c = w
      · subst hcw
        have hl1 : c < (run ⟨setData cs s dollar v, [s]⟩ (st.prog (setData cs s dollar v) s).1).cells.length := by
          omega
        rw [setData_get_eq _ _ _ _ _ hw hl1, f2 c (by omega), setData_get_eq _ _ _ _ _ hw (by omega)]
        simp only [aset_aset]
        have := heq v' c hc
        rw [setData_get_eq _ _ _ _ _ hw (by omega)] at this
        exact this
      · have hne : writeCell s ≠ some c := by rw [hw]; intro e; exact hcw (Option.some.inj e).symm
        rw [write_local _ _ _ _ _ hne, f2 c (by omega), write_local _ _ _ _ _ hne]
        have := heq v' c hc
        rw [write_local _ _ _ _ _ hne] at this
        exact this

theorem evalStmt_result {Res : Type} (cs0 cs : Cells) (s : Shape) (st : Stmt Res) (v : Val)
    (hs : ∀ c ∈ cellsOf s, c < cs0.length) (h : HostEq cs0 s cs) (hl : st.Local) :
    (evalStmt cs s st v).2 = (evalStmt cs0 s st v).2 := by
  simp only [evalStmt]
  rw [hl (setData cs s dollar v) (setData cs0 s dollar v) s (fun c hc => h.2 v c (hs c hc))]

theorem runPool_results {Res : Type} (cs0 : Cells) (s : Shape) (hs : ∀ c ∈ cellsOf s, c < cs0.length) :
    ∀ (pool : List (Stmt Res × Val)) (cs : Cells), HostEq cs0 s cs →
    (∀ p ∈ pool, p.1.Local ∧ p.1.Disciplined) →
    (runPool s cs pool).2 = pool.map fun p => (evalStmt cs0 s p.1 p.2).2
  | [], _, _, _ => rfl
  | (st, v) :: r, cs, h, hp => by
      obtain ⟨hl, hd⟩ := hp (st, v) (by simp)
      simp only [runPool, List.map_cons]
      rw [evalStmt_result cs0 cs s st v hs h hl,
        runPool_results cs0 s hs r _ (evalStmt_hostEq cs0 cs s st v hs h hd) (fun p hm => hp p (by simp [hm]))]

/-- **C09.reeval_pool** (all pools, all orders, all lengths, all data).  Statements evaluated one after
    another against one shared context `s` (all of whose cells exist in the initial store `cs`), each with
    its own data: every evaluation returns what the same statement with the same data returns when
    evaluated **alone on the initial store** - whatever was evaluated before it, however often, in
    whatever order.  Hypotheses on the evaluator, per statement: it is a function of the cells reachable
    from its context (`Local`: parsed statements hold no state of their own) and keeps the write
    discipline (`Disciplined`). -/
theorem reeval_pool {Res : Type} (cs : Cells) (s : Shape) (hs : ∀ c ∈ cellsOf s, c < cs.length)
    (pool : List (Stmt Res × Val)) (hp : ∀ p ∈ pool, p.1.Local ∧ p.1.Disciplined) :
    (runPool s cs pool).2 = pool.map fun p => (evalStmt cs s p.1 p.2).2 :=
  runPool_results cs s hs pool cs (hostEq_refl cs s) hp

/-- **C09.reeval**: evaluating the same statement twice with equal data gives equal results -/
theorem reeval {Res : Type} (cs : Cells) (s : Shape) (hs : ∀ c ∈ cellsOf s, c < cs.length)
    (st : Stmt Res) (v : Val) (hl : st.Local) (hd : st.Disciplined) :
    (evalStmt (evalStmt cs s st v).1 s st v).2 = (evalStmt cs s st v).2 := by
  have := reeval_pool cs s hs [(st, v), (st, v)] (by simp [hl, hd])
  simp only [runPool, List.map_cons, List.map_nil, List.cons.injEq, and_true] at this
  exact this.2

/-! ### non-vacuity: a statement that reads through its context, creates a child and writes there -/

/-- `let(x => $) -> $x`-like: read `$`, make a child context, bind `x` there; result = the value read -/
def exStmt : Stmt Val where
  prog cs s := ([.child 0, .set 1 ['x'] (getData cs s dollar)], getData cs s dollar)

theorem exStmt_local : exStmt.Local := by
  intro cs cs' s h
  simp only [exStmt, getData]
  rw [walkParents_congr cs cs' (normName dollar) (some s)
    (fun c hc => by rw [h c (by simpa [cellsOfO] using hc)])]

theorem exStmt_disciplined : exStmt.Disciplined := by
  intro cs s x hx
  simp only [exStmt, List.mem_cons, List.not_mem_nil, or_false] at hx
  rcases hx with rfl | rfl <;> simp [Step.target]

/-- a host chain of two plain contexts with a variable, evaluated three times with data 5, 7, 5: the
    results are 5, 7, 5; the host cells keep `y` and only `$1` differs; garbage cells pile up behind -/
example :
    let cs : Cells := [{ data := [(['$', 'y'], some 1)] }, { funcs := [(['f'], 0)] }]
    let s : Shape := .plain 0 (some (.plain 1 none))
    (runPool s cs [(exStmt, some 5), (exStmt, some 7), (exStmt, some 5)]).2 = [some 5, some 7, some 5] ∧
    ((runPool s cs [(exStmt, some 5), (exStmt, some 7)]).1.get 0).data
      = [(['$', 'y'], some 1), (['$', '1'], some 7)] ∧
    (runPool s cs [(exStmt, some 5), (exStmt, some 7)]).1.length = 4 := by
  decide

/-- the discipline is what the frame rests on: a run that writes through frame 0 changes the host's cell -/
example : ((run ⟨[{}], [.plain 0 none]⟩ [.set 0 ['x'] (some 1)]).cells.get 0).data = [(['$', 'x'], some 1)] ∧
    ¬ NoHostWrite [.set 0 ['x'] (some 1)] := by
  refine ⟨by decide, fun h => h (.set 0 ['x'] (some 1)) (by simp) rfl⟩

/-! ### the full statement and the part proved here -/

/-- **The context clause at full strength**, for an evaluator given as `stmtOf : Expr → Stmt Res` (the
    `Model/Eval.lean` evaluator after merge): *every* expression's evaluation is a function of the cells
    reachable from its context and never writes through the context it was handed.  It is a statement about
    the evaluator; what is proved in this file is everything that follows from it (`context_clause_partial`)
    and, unconditionally, the part of `Statement.evaluate` that is not the evaluator (`only_dollar` with its
    hypothesis on the step sequence, `frame`, `discipline_fresh`). -/
def C09_full {Expr Res : Type} (stmtOf : Expr → Stmt Res) : Prop :=
  ∀ e : Expr, (stmtOf e).Local ∧ (stmtOf e).Disciplined

/-- **C09.context_clause_partial**: given the full clause for the evaluator, for every expression, store,
    context (all of whose cells exist) and data: (1) one evaluation leaves every existing cell as
    `context['$'] = v` alone leaves it, and (2) any pool of expressions evaluated in any order against the
    shared context returns, evaluation by evaluation, what each returns alone on the initial store. -/
theorem context_clause_partial {Expr Res : Type} (stmtOf : Expr → Stmt Res) (h : C09_full stmtOf)
    (cs : Cells) (s : Shape) (hs : ∀ c ∈ cellsOf s, c < cs.length) :
    (∀ (e : Expr) (v : Val) (c : Nat), c < cs.length →
        (evalStmt cs s (stmtOf e) v).1.get c = (setData cs s dollar v).get c) ∧
    (∀ pool : List (Expr × Val),
        (runPool s cs (pool.map fun p => (stmtOf p.1, p.2))).2
          = pool.map fun p => (evalStmt cs s (stmtOf p.1) p.2).2) := by
  refine ⟨?_, ?_⟩
  · intro e v c hc
    obtain ⟨_, f2⟩ := context_frame (setData cs s dollar v) s ((stmtOf e).prog (setData cs s dollar v) s).1
      ((h e).2 _ _)
    simp only [setData_length] at f2
    exact f2 c hc
  · intro pool
    have := reeval_pool cs s hs (pool.map fun p => (stmtOf p.1, p.2)) (by
      intro p hp
      simp only [List.mem_map] at hp
      obtain ⟨q, _, rfl⟩ := hp
      exact h q.1)
    rw [this, List.map_map]
    rfl

/-- non-vacuity of `C09_full`: the one-expression evaluator `exStmt` satisfies it -/
example : C09_full (fun (_ : Unit) => exStmt) := fun _ => ⟨exStmt_local, exStmt_disciplined⟩

/-! ## the `YaqlInterface` call as a host step

`yi = YaqlInterface(host_context, engine)` built by the host; `yi(expression, *args, **kwargs)` =
`Effects.interfaceCall`: private child, parameters published there, evaluation without data on the child, child
dropped.  The wrapped chain is left exactly as it was - not even `$` moves (the `$` exemption of `only_dollar`
is not needed: the first positional parameter lands in the child's `$1`). -/

theorem publish_length (ch : Shape) : ∀ (ps : List (Name × Val)) (cs : Cells),
    (publish cs ch ps).length = cs.length
  | [], _ => rfl
  | (n, v) :: r, cs => by simp only [publish]; rw [publish_length ch r, setData_length]

theorem publish_local (ch : Shape) (c' : Nat) (h : writeCell ch ≠ some c') :
    ∀ (ps : List (Name × Val)) (cs : Cells), (publish cs ch ps).get c' = cs.get c'
  | [], _ => rfl
  | (n, v) :: r, cs => by simp only [publish]; rw [publish_local ch c' h r, write_local _ _ _ _ _ h]

/-- the private frame of a call: a plain child owning the next free cell; every older cell as before -/
theorem interfaceFrame_spec (cs : Cells) (s : Shape) (ps : List (Name × Val)) (cs1 : Cells) (ch : Shape)
    (h : interfaceFrame cs s ps = some (cs1, ch)) :
    (∃ pp, ch = .plain cs.length pp) ∧ cs1.length = cs.length + 1 ∧ ∀ c < cs.length, cs1.get c = cs.get c := by
  unfold interfaceFrame at h
  split at h
  · cases h
  · rename_i c b hc
    simp only [Option.some.injEq, Prod.mk.injEq] at h
    obtain ⟨h1, h2⟩ := h
    subst h2
    obtain ⟨pp, rfl⟩ := createChild_plain _ _ _ _ hc
    subst h1
    refine ⟨⟨pp, rfl⟩, by rw [publish_length]; simp, ?_⟩
    intro k hk
    rw [publish_local _ k (by simp only [writeCell, ne_eq, Option.some.injEq]; omega), get_append_empty]

/-- one interface call (disciplined evaluator): the store only grows, every cell that existed is unchanged -/
theorem interface_call_frame1 (cs : Cells) (s : Shape) (c : ICall) (hd : NoHostWrite c.body) :
    cs.length ≤ (interfaceCall cs s c).length ∧
    ∀ k < cs.length, (interfaceCall cs s c).get k = cs.get k := by
  unfold interfaceCall
  cases h : interfaceFrame cs s c.params with
  | none => exact ⟨Nat.le_refl _, fun _ _ => rfl⟩
  | some p =>
      obtain ⟨cs1, ch⟩ := p
      obtain ⟨_, hl, hk⟩ := interfaceFrame_spec cs s c.params cs1 ch h
      obtain ⟨g1, _, g3, _⟩ := only_dollar cs1 ch none c.fin c.body hd
      refine ⟨by simp only; omega, ?_⟩
      intro k hlt
      simp only
      rw [g3 rfl k (by omega), hk k hlt]

/-- **C09.interface_call_frame** (all stores, all wrapped contexts - plain, multi, linked, any chain -, any
    number of calls, any parameters, all disciplined evaluator runs): after any sequence of
    `yi(expression, *args, **kwargs)` calls through an interface the host built around its context, every
    cell that existed before - the wrapped context's, its parents', members', link targets', and everybody
    else's - is exactly what it was: no parameter of any call was left behind, nothing was registered,
    `$` of the wrapped context did not move either. -/
theorem interface_call_frame (s : Shape) : ∀ (calls : List ICall) (cs : Cells),
    (∀ c ∈ calls, NoHostWrite c.body) →
    cs.length ≤ (interfaceCalls cs s calls).length ∧
    ∀ k < cs.length, (interfaceCalls cs s calls).get k = cs.get k
  | [], _, _ => ⟨Nat.le_refl _, fun _ _ => rfl⟩
  | c :: r, cs, hd => by
      obtain ⟨a1, a2⟩ := interface_call_frame1 cs s c (hd c (by simp))
      obtain ⟨b1, b2⟩ := interface_call_frame s r (interfaceCall cs s c) (fun c' hm => hd c' (by simp [hm]))
      refine ⟨by simp only [interfaceCalls]; omega, ?_⟩
      intro k hk
      simp only [interfaceCalls]
      rw [b2 k (by omega), a2 k hk]

/-- ... seen through the context API from any context `t` of the host's forest: EVERY variable (also `$`)
    reads as before, every function name resolves as before -/
theorem interface_call_reads (cs : Cells) (s : Shape) (calls : List ICall)
    (hd : ∀ c ∈ calls, NoHostWrite c.body) (t : Shape) (ht : ∀ c ∈ cellsOf t, c < cs.length) :
    (∀ name, getData (interfaceCalls cs s calls) t name = getData cs t name ∧
      containsName (interfaceCalls cs s calls) t name = containsName cs t name) ∧
    (∀ f, collectFunctions (interfaceCalls cs s calls) t f = collectFunctions cs t f) ∧
    (∀ f, getFunctions (interfaceCalls cs s calls) f t = getFunctions cs f t) := by
  obtain ⟨_, hk⟩ := interface_call_frame s calls cs hd
  have hc : ∀ c ∈ cellsOf t, (interfaceCalls cs s calls).get c = cs.get c := fun c hm => hk c (ht c hm)
  refine ⟨fun name => ⟨?_, ?_⟩, fun f => ?_, fun f => ?_⟩
  · unfold getData
    rw [walkParents_congr _ cs (normName name) (some t) (fun c hm => by
      rw [hc c (by simpa [cellsOfO] using hm)])]
  · unfold containsName
    rw [contains_congr _ cs (normName name) t (fun c hm => by rw [hc c hm])]
  · unfold collectFunctions
    rw [collectFrom_congr _ cs _ (some t) (fun c hm => by
      rw [hc c (by simpa [cellsOfO] using hm)]; exact ⟨rfl, rfl⟩)]
  · rw [getFunctions_congr _ cs f t (fun c hm => by rw [hc c hm]; exact ⟨rfl, rfl⟩)]

theorem interfaceCalls_hostEq (cs : Cells) (s : Shape) (calls : List ICall)
    (hd : ∀ c ∈ calls, NoHostWrite c.body) : HostEq cs s (interfaceCalls cs s calls) := by
  obtain ⟨hl, hk⟩ := interface_call_frame s calls cs hd
  refine ⟨hl, ?_⟩
  intro v c hc
  cases hw : writeCell s with
  | none =>
      have e : ∀ (Y : Cells), setData Y s dollar v = Y := fun Y => by simp [setData, hw]
      rw [e, e, hk c hc]
  | some w =>
      by_cases hcw : c = w
      · subst hcw
        rw [setData_get_eq _ _ _ _ _ hw (by omega), setData_get_eq _ _ _ _ _ hw hc, hk c hc]
      · have hne : writeCell s ≠ some c := by rw [hw]; intro e; exact hcw (Option.some.inj e).symm
        rw [write_local _ _ _ _ _ hne, write_local _ _ _ _ _ hne, hk c hc]

/-- **C09.interface_history_independent**: whatever was evaluated through the interface before (any calls, any
    parameters), a pool of statements evaluated afterwards against the wrapped context - `engine(text).evaluate(
    data, context=host_context)` - returns what it returns on the store the host prepared: the parameters of
    earlier interface calls are not visible to it (a name reads as null unless the host bound it). -/
theorem interface_history_independent {Res : Type} (cs : Cells) (s : Shape)
    (hs : ∀ c ∈ cellsOf s, c < cs.length) (calls : List ICall) (hd : ∀ c ∈ calls, NoHostWrite c.body)
    (pool : List (Stmt Res × Val)) (hp : ∀ p ∈ pool, p.1.Local ∧ p.1.Disciplined) :
    (runPool s (interfaceCalls cs s calls) pool).2 = pool.map fun p => (evalStmt cs s p.1 p.2).2 :=
  runPool_results cs s hs pool _ (interfaceCalls_hostEq cs s calls hd) hp

/-- a later call through the interface reads, in its own fresh frame, exactly the names IT published, and every
    other name as the wrapped context had it before all calls -/
theorem interface_probe_reads (cs : Cells) (s : Shape) (calls : List ICall)
    (hd : ∀ c ∈ calls, NoHostWrite c.body) (hs : ∀ c ∈ cellsOf s, c < cs.length)
    (cs1 : Cells) (ch : Shape) (h : interfaceFrame (interfaceCalls cs s calls) s [] = some (cs1, ch))
    (name : Name) : getData cs1 ch name = getData cs s name := by
  obtain ⟨hl, hk⟩ := interface_call_frame s calls cs hd
  unfold interfaceFrame at h
  split at h
  · cases h
  · rename_i c b hc
    simp only [publish, Option.some.injEq, Prod.mk.injEq] at h
    obtain ⟨h1, h2⟩ := h
    subst h2; subst h1
    have hpl := createChild_plain _ _ _ _ hc
    obtain ⟨pp, hpp⟩ := hpl
    have hpar : pp = some s := by
      cases s with
      | plain c' p => simp only [createChild, ChildResult.ok.injEq] at hc; rw [← hc.1] at hpp; cases hpp; rfl
      | multi ms p => simp only [createChild, ChildResult.ok.injEq] at hc; rw [← hc.1] at hpp; cases hpp; rfl
      | linked t p =>
          cases t with
          | plain c' p' => simp only [createChild, ChildResult.ok.injEq] at hc; rw [← hc.1] at hpp; cases hpp; rfl
          | multi ms p' => simp [createChild] at hc
          | linked t' p' => simp [createChild] at hc
    subst hpp; subst hpar
    unfold getData
    simp only [walkParents, walk]
    have hempty : ((interfaceCalls cs s calls ++ [({} : Cell)]).get (interfaceCalls cs s calls).length).data = [] := by
      unfold Cells.get
      simp [List.getD_eq_getElem?_getD]
    rw [hempty]
    simp only [alookup]
    have := walkParents_congr (interfaceCalls cs s calls ++ [({} : Cell)]) cs (normName name) (some s)
      (fun c hm => by rw [get_append_empty, hk c (hs c (by simpa [cellsOfO] using hm))])
    simpa [walkParents] using congrArg (fun o => Option.getD o none) this

/-! non-vacuity: a call with two parameters and a `let`-like body on a two-context chain leaves both host cells
    as they were and two garbage cells behind; publishing into the wrapped context instead changes the host's cell -/
example :
    let cs : Cells := [{ data := [(['$', 'y'], some 1)] }, { funcs := [(finalizeName, 0)] }]
    let s : Shape := .plain 0 (some (.plain 1 none))
    let call : ICall := ⟨[(['$', '1'], some 4), (['$', '2'], some 5), (['$', 'k'], some 6)], 9,
                         [.child 0, .set 1 ['x'] (some 3)]⟩
    ((interfaceCalls cs s [call, call]).take 2 = cs) ∧ (interfaceCalls cs s [call, call]).length = 6 ∧
    ((interfaceCall cs s call).get 2).data = [(['$', '1'], some 4), (['$', '2'], some 5), (['$', 'k'], some 6)] ∧
    ((interfaceCallLeaky cs s call).get 0).data =
      [(['$', 'y'], some 1), (['$', '1'], some 4), (['$', '2'], some 5), (['$', 'k'], some 6)] ∧
    getData (interfaceCallLeaky cs s call) s ['k'] = some 6 ∧ getData (interfaceCall cs s call) s ['k'] = none := by
  decide

/-! ### instantiation with the evaluator model (`Model/Eval.lean`, builder C04)

CONNECTED in `Props/C09Eval.lean` (after the merge of C04's branch): C04's evaluator works on immutable frame
chains, so embedded as a `Stmt` its write trace on the host's store is empty and its result is a function of
the chain read off the host's cells; `eval_C09_full` proves `C09_full` for it (every expression, every fuel) and
`eval_reeval_pool` is `context_clause_partial` without hypotheses.  What remains an assumption there is C04's
representation argument (a Python context is written only by the call that created it); the harness checks it
on traces of the real evaluator (`NoHostWrite` on every trace, props/c09.py `ctx` cases).  An evaluator model
with an explicit store would instead discharge `Disciplined` through `discipline_fresh` from the shape of its
trace (every `Function.__call__` allocates a child via `createChild`; `let / with / unpack / def` write through
that child only) and `Local` through `walkParents_congr` / `collectFrom_congr`. -/

end Yaql.Props.C09
