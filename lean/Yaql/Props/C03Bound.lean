import Yaql.Props.C03
/-!
C03, boundary-size tokens in every syntactic position.

A grammar error is raised as `YaqlGrammarException(expr, value, position)`, whose constructor FORMATS the
value of the offending token into the message.  So "parsing is total" also needs: whatever token the lexer
hands to the parser - wherever in the text it stands, whether the grammar expects a value there or not -
carries a value that can be turned into text.  The one conversion the interpreter refuses is `str()` of an
integer with more than `sys.get_int_max_str_digits()` digits.  `tokens_printable`: every integer a token
carries is below `10 ^ maxDigits` (numerals beyond the limit never become tokens: they stop the lexer with
`YaqlLexicalException` at their first character, `over_limit_numeral_stops`).
-/
namespace Yaql.Props.C03Bound
open Yaql.Lexer Yaql.Syntax Yaql.Parse Yaql.Props.C03Lex Yaql.Props.C03

/-- the value can be formatted into an error message under the interpreter's digit limit (`0` = no limit) -/
def Printable (limit : Nat) : TokVal → Prop
  | .int n => limit = 0 ∨ n < 10 ^ limit
  | _ => True

theorem mem_takeWhile_true (p : Char → Bool) : ∀ (l : List Char) (d : Char), d ∈ l.takeWhile p → p d = true
  | [], _, h => by simp at h
  | c :: r, d, h => by
      simp only [List.takeWhile_cons] at h
      split at h
      · rename_i hc
        simp only [List.mem_cons] at h
        rcases h with h | h
        · subst h; exact hc
        · exact mem_takeWhile_true p r d h
      · simp at h

theorem foldl_digits_lt (cc : CharCfg) : ∀ (ds : List Char) (a : Nat), (∀ d ∈ ds, cc.isDigit d = true) →
    ds.foldl (fun a d => 10 * a + cc.digitVal d) a + 1 ≤ (a + 1) * 10 ^ ds.length
  | [], a, _ => by simp
  | d :: r, a, h => by
      have hd : cc.digitVal d < 10 := cc.digit_lt d (h d (by simp))
      have ih := foldl_digits_lt cc r (10 * a + cc.digitVal d) (fun x hx => h x (by simp [hx]))
      simp only [List.foldl_cons, List.length_cons]
      have h1 : (10 * a + cc.digitVal d + 1) * 10 ^ r.length ≤ (10 * (a + 1)) * 10 ^ r.length :=
        Nat.mul_le_mul_right _ (by omega)
      have h2 : (10 * (a + 1)) * 10 ^ r.length = (a + 1) * 10 ^ (r.length + 1) := by
        rw [Nat.pow_succ, Nat.mul_comm 10 (a + 1), Nat.mul_assoc, Nat.mul_comm 10 (10 ^ r.length)]
      omega

/-- a string of `n` digits denotes a number below `10 ^ n` -/
theorem digitsVal_lt (cc : CharCfg) (ds : List Char) (h : ∀ d ∈ ds, cc.isDigit d = true) :
    digitsVal cc ds < 10 ^ ds.length := by
  have := foldl_digits_lt cc ds 0 h
  simp only [digitsVal]
  omega

theorem convNumber_printable (cfg : LexCfg) (m : NumMatch) (pos : Nat) (t : Token) (len : Nat)
    (hd : ∀ d ∈ m.int, cfg.chars.isDigit d = true) (h : convNumber cfg m pos = .tok t len) :
    Printable cfg.maxDigits t.val := by
  rcases (conversions_total cfg).1 m pos with ⟨_, hlim, hc⟩ | ⟨d2, _, hc⟩ | ⟨_, _, _, hc⟩
  · rw [hc] at h
    injection h with h1 _
    subst h1
    simp only [Printable]
    by_cases h0 : cfg.maxDigits = 0
    · exact Or.inl h0
    · refine Or.inr ?_
      have hle : m.int.length ≤ cfg.maxDigits := by
        cases Nat.lt_or_ge cfg.maxDigits m.int.length with
        | inl hlt => exact absurd ⟨h0, hlt⟩ hlim
        | inr hge => exact hge
      exact Nat.lt_of_lt_of_le (digitsVal_lt cfg.chars m.int hd) (Nat.pow_le_pow_right (by omega) hle)
  · rw [hc] at h
    injection h with h1 _
    subst h1
    simp [Printable]
  · rw [hc] at h; cases h

/-- **a numeral beyond the digit limit never becomes a token** - wherever it stands -/
theorem over_limit_numeral_stops (cfg : LexCfg) (m : NumMatch) (pos : Nat)
    (hf : m.frac = none) (h0 : cfg.maxDigits ≠ 0) (hl : cfg.maxDigits < m.int.length) :
    convNumber cfg m pos = .err (.lexical m.int pos) := by
  simp [convNumber, hf, h0, hl]

theorem classifyKeyword_printable (cfg : LexCfg) (w : List Char) (pos limit : Nat) :
    Printable limit (classifyKeyword cfg w pos).val := by
  unfold classifyKeyword
  split
  · simp [Printable]
  · split
    · simp [Printable]
    · split
      · simp [Printable]
      · split <;> simp [Printable]

theorem ruleAt_printable (cfg : LexCfg) (pw : Bool) (rest : List Char) (pos : Nat) (t : Token) (len : Nat)
    (h : ruleAt cfg pw rest pos = .tok t len) : Printable cfg.maxDigits t.val := by
  unfold ruleAt at h
  split at h
  · cases h
  · rename_i c r
    split at h
    · injection h with h1 _; subst h1; simp [Printable]
    · split at h
      · rename_i m hm
        obtain ⟨h1, _, _, _⟩ := matchNumber_spec cfg.chars hm
        refine convNumber_printable cfg m pos t len ?_ h
        intro d hd
        rw [h1] at hd
        exact mem_takeWhile_true _ _ d hd
      · split at h
        · injection h with h1 _; subst h1; simp [Printable]
        · split at h
          · injection h with h1 _; subst h1; exact classifyKeyword_printable cfg _ pos _
          · split at h
            · rename_i content _
              unfold quotedTok at h
              split at h
              · injection h with h1 _; subst h1; simp [Printable]
              · cases h
            · split at h
              · injection h with h1 _; subst h1; simp [Printable]
              · unfold symbolAt at h
                split at h
                · injection h with h1 _; subst h1; simp [Printable]
                · split at h
                  · injection h with h1 _; subst h1; simp [Printable]
                  · cases h

theorem lexPrefixGo_printable (cfg : LexCfg) : ∀ (l : List Char) (k : Nat) (pw : Bool) (pos : Nat) (t : Token),
    t ∈ (lexPrefixGo cfg k pw l pos).1 → Printable cfg.maxDigits t.val
  | [], _, _, _, t, h => by simp [lexPrefixGo] at h
  | c :: r, k + 1, pw, pos, t, h => by
      simp only [lexPrefixGo] at h
      exact lexPrefixGo_printable cfg r k _ _ t h
  | c :: r, 0, pw, pos, t, h => by
      simp only [lexPrefixGo] at h
      split at h
      · exact lexPrefixGo_printable cfg r 0 _ _ t h
      · cases hr : ruleAt cfg pw (c :: r) pos with
        | err e => rw [hr] at h; simp at h
        | tok t' len =>
            rw [hr] at h
            simp only [consP, List.mem_cons] at h
            rcases h with h | h
            · subst h; exact ruleAt_printable cfg pw (c :: r) pos t len hr
            · exact lexPrefixGo_printable cfg r (len - 1) _ _ t h

/-- **every token the parser is ever given can be printed** - for every text, every operator table and
    every position of the token in the text: the integer it carries (if any) has at most `maxDigits` digits -/
theorem tokens_printable (lc : LexCfg) (text : List Char) (t : Token)
    (h : t ∈ (lexPrefix lc text).1) : Printable lc.maxDigits t.val :=
  lexPrefixGo_printable lc text 0 false 0 t h

/-- **the offending token of a grammar error can be formatted into the message**: when `engine(text)`
    ends in a grammar error at position `p`, the token standing at `p` is one the lexer produced from this
    text and its value is printable - so building `YaqlGrammarException(text, value, p)` cannot fail on it -/
theorem grammar_error_value_printable (lc : LexCfg) (pc : Cfg) (text : List Char) (p : Nat)
    (hnl : (lexPrefix lc text).2 = none)
    (h : parseText lc pc text = .grammar (some p)) :
    ∃ t ∈ (lexPrefix lc text).1, t.pos = p ∧ Printable lc.maxDigits t.val := by
  have hall : lexAll lc text = .ok (lexPrefix lc text).1 := by
    apply (lexPrefix_ok lc text _).mpr
    cases hp : lexPrefix lc text with
    | mk a b => rw [hp] at hnl; simp only at hnl; subst hnl; rfl
  have hp := parseText_eq_parse lc pc text _ hall
  rw [h] at hp
  cases hq : parse pc (lexPrefix lc text).1 with
  | ok tr => rw [hq] at hp; cases hp
  | error e =>
      cases e with
      | grammar q =>
          rw [hq] at hp
          simp only [Outcome.grammar.injEq] at hp
          subst hp
          obtain ⟨pre, t, post, _, h1, h2, _, _, _⟩ :=
            Yaql.Props.C03Parse.error_at_first_rejected_token pc _ p hq
          have hmem : t ∈ (lexPrefix lc text).1 := by rw [h1]; simp
          exact ⟨t, hmem, h2, tokens_printable lc text t hmem⟩

/-- non-vacuity: with a limit of 3 digits, `1 999` is a grammar error AT the numeral, whose value prints;
    `1 9999` stops the lexer at the numeral instead (never a token) -/
example : (lexPrefix { asciiCfg with maxDigits := 3 } ['1', ' ', '9', '9', '9']).1.map (·.val) =
    [.int 1, .int 999] := by decide
example : lexPrefix { asciiCfg with maxDigits := 3 } ['1', ' ', '9', '9', '9', '9'] =
    ([⟨.number, .int 1, 0⟩], some (.lexical ['9', '9', '9', '9'] 2)) := by decide

end Yaql.Props.C03Bound
