import Yaql.Model.ParseSched
/-!
C01 - a shared engine parses every text as if it were alone.

All theorems are generic in the tokeniser `nextTok` and the automaton `feed`
(`Machine`), i.e. they hold for the real lexer and LR automaton as well as for
their models, as long as a token fetch reads nothing but the lexer's text and
cursor - which is the shape of `ply.lex.Lexer.token`.
-/
namespace Yaql.Props.C01
open Yaql.ParseSched

variable {Tok PS Out : Type}

theorem step_mode (m : Machine Tok PS Out) (s : Sys PS Out) (i : Nat) :
    (step m s i).mode = s.mode := by
  unfold step
  cases h : s.threads[i]? with
  | none => rfl
  | some t => cases hm : s.mode <;> simp [hm]

/-- a step of thread `j` leaves every other thread's record untouched -/
theorem step_other (m : Machine Tok PS Out) (s : Sys PS Out) (i j : Nat) (h : i ≠ j) :
    (step m s j).threads[i]? = s.threads[i]? := by
  unfold step
  cases hj : s.threads[j]? with
  | none => rfl
  | some t =>
      cases hm : s.mode <;> simp [List.getElem?_set_ne (Ne.symm h)]

theorem run_other (m : Machine Tok PS Out) (i : Nat) :
    ∀ (sched : List Nat) (s : Sys PS Out), i ∉ sched →
      (run m s sched).threads[i]? = s.threads[i]?
  | [], s, _ => rfl
  | j :: rest, s, h => by
      have hij : i ≠ j := fun e => h (by simp [e])
      have hrest : i ∉ rest := fun e => h (by simp [e])
      simp only [run, List.foldl_cons]
      have := run_other m i rest (step m s j) hrest
      simp only [run] at this
      rw [this, step_other m s i j hij]

theorem run_mode (m : Machine Tok PS Out) :
    ∀ (sched : List Nat) (s : Sys PS Out), (run m s sched).mode = s.mode
  | [], s => rfl
  | j :: rest, s => by
      simp only [run, List.foldl_cons]
      have := run_mode m rest (step m s j)
      simp only [run] at this
      rw [this, step_mode]

theorem run_append (m : Machine Tok PS Out) (s : Sys PS Out) (a b : List Nat) :
    run m s (a ++ b) = run m (run m s a) b := by
  simp [run, List.foldl_append]

theorem soloIter_succ (m : Machine Tok PS Out) (n : Nat) (t : Thread PS Out) :
    soloIter m (n + 1) t = soloIter m n (soloStep m t) := rfl

/-- **per-call lexers isolate.**  When every parse gets its own lexer, then for
    every number of threads, every assignment of texts and EVERY schedule, each
    thread is exactly where it would be after the same number of its own steps
    run alone. -/
theorem perCall_isolated (m : Machine Tok PS Out) (i : Nat) :
    ∀ (sched : List Nat) (s : Sys PS Out), s.mode = .perCall →
      (run m s sched).threads[i]? = (s.threads[i]?).map (soloIter m (sched.count i))
  | [], s, _ => by simp [run, soloIter]
  | j :: rest, s, hm => by
      simp only [run, List.foldl_cons]
      have ih := perCall_isolated m i rest (step m s j) (by rw [step_mode, hm])
      simp only [run] at ih
      rw [ih]
      by_cases hij : j = i
      · subst hij
        simp only [List.count_cons_self]
        unfold step
        cases ht : s.threads[j]? with
        | none => simp [ht]
        | some t =>
            have hlt : j < s.threads.length := by
              have := List.getElem?_eq_some_iff.mp ht
              exact this.1
            simp [hm, hlt, soloIter_succ]
      · have hne : i ≠ j := fun e => hij e.symm
        rw [step_other m s i j hne]
        simp [List.count_cons, hij]

/-- once a parse has finished, further steps change nothing -/
theorem done_absorbing (m : Machine Tok PS Out) (t : Thread PS Out) (o : Out)
    (h : t.phase = .done o) : ∀ n, (soloIter m n t).core = t.core
  | 0 => rfl
  | n + 1 => by
      have hs : soloStep m t = t := by
        unfold soloStep stepOn
        cases t with
        | mk text own phase =>
            simp only at h
            subst h
            rfl
      rw [soloIter_succ, hs]
      exact done_absorbing m t o h n

/-- in shared mode, thread `i` mirrors a solo thread `u` as long as nobody else steps:
    same text and phase, and - once started - the engine-wide lexer is where `u`'s own one is -/
def Mirrors (s : Sys PS Out) (i : Nat) (u : Thread PS Out) : Prop :=
  ∃ t, s.threads[i]? = some t ∧ t.core = u.core ∧ (t.phase ≠ .notStarted → s.shared = u.own)

theorem mirrors_step (m : Machine Tok PS Out) (s : Sys PS Out) (i : Nat) (u : Thread PS Out)
    (hm : s.mode = .shared) (h : Mirrors s i u) : Mirrors (step m s i) i (soloStep m u) := by
  obtain ⟨t, ht, hcore, hlex⟩ := h
  have hlt : i < s.threads.length := (List.getElem?_eq_some_iff.mp ht).1
  simp only [Thread.core, Prod.mk.injEq] at hcore
  obtain ⟨htext, hphase⟩ := hcore
  unfold Mirrors step soloStep stepOn
  simp only [ht, hm]
  cases hp : t.phase with
  | notStarted =>
      rw [hp] at hphase
      simp [hlt, ← hphase, htext, Thread.core]
  | running ps =>
      rw [hp] at hphase
      have hl : s.shared = u.own := hlex (by rw [hp]; simp)
      simp only [← hphase, hl]
      cases hf : m.feed ps (m.nextTok u.own.data u.own.pos).1 <;>
        simp [hlt, hf, htext, Thread.core]
  | done o =>
      rw [hp] at hphase
      have hl : s.shared = u.own := hlex (by rw [hp]; simp)
      simp [hlt, ← hphase, htext, Thread.core, hl, hp]

theorem mirrors_block (m : Machine Tok PS Out) (i : Nat) :
    ∀ (n : Nat) (s : Sys PS Out) (u : Thread PS Out), s.mode = .shared → Mirrors s i u →
      Mirrors (run m s (List.replicate n i)) i (soloIter m n u)
  | 0, s, u, _, h => by simpa [run, soloIter] using h
  | n + 1, s, u, hm, h => by
      simp only [List.replicate_succ, run, List.foldl_cons, soloIter_succ]
      have := mirrors_block m i n (step m s i) (soloStep m u) (by rw [step_mode, hm])
        (mirrors_step m s i u hm h)
      simpa [run] using this

/-- **sequential reuse is safe, whatever was parsed before.**  On an engine whose
    parses share one lexer, if the steps of parse `i` are contiguous in the
    schedule (nothing else runs between its `input` and its end - in particular
    when texts are parsed one after another), parse `i` behaves exactly as alone:
    it does not matter what the engine parsed before (`pre`, including parses
    abandoned by an error in mid-text) or parses afterwards (`post`). -/
theorem sequential_reuse (m : Machine Tok PS Out) (s : Sys PS Out) (i n : Nat)
    (t : Thread PS Out) (pre post : List Nat) (hm : s.mode = .shared)
    (ht : s.threads[i]? = some t) (hstart : t.phase = .notStarted)
    (hpre : i ∉ pre) (hpost : i ∉ post) :
    ((run m s (pre ++ List.replicate n i ++ post)).threads[i]?).map Thread.core =
      some (soloIter m n t).core := by
  rw [run_append, run_append, run_other m i post _ hpost]
  have h0 : Mirrors (run m s pre) i t :=
    ⟨t, by rw [run_other m i pre s hpre, ht], rfl, fun h => absurd hstart h⟩
  obtain ⟨t', ht', hcore, _⟩ :=
    mirrors_block m i n (run m s pre) t (by rw [run_mode, hm]) h0
  simp [ht', hcore]

/-! ### a shared lexer does not isolate: concrete witness -/

/-- toy machine: a token is the next character (`none` at the end); the automaton collects
    the characters it is given and finishes with them at the end marker -/
def toy : Machine (Option Char) (List Char) (List Char) where
  nextTok := fun data pos => (data[pos]?, pos + 1)
  init := []
  feed := fun ps tok => match tok with
    | some c => .inl (ps ++ [c])
    | none => .inr ps

def toySys (mode : Mode) : Sys (List Char) (List Char) :=
  { mode := mode, threads := [{ text := ['a', 'b'] }, { text := ['c', 'd'] }] }

/-- thread 0 starts and reads one token, thread 1 starts (rewinding the shared lexer onto its
    own text), then both run to the end -/
def badSchedule : List Nat := [0, 0, 1, 0, 0, 0, 1, 1, 1]

/-- with one shared lexer the first parse returns characters of the OTHER text -/
theorem shared_not_isolated :
    ((run toy (toySys .shared) badSchedule).threads.map (·.phase)) =
      [.done ['a', 'c', 'd'], .done []] ∧
    ((toySys .shared).threads.map fun t => (soloIter toy 4 t).phase) =
      [.done ['a', 'b'], .done ['c', 'd']] := by decide

/-- the same schedule with per-call lexers gives both parses their own result -/
example : ((run toy (toySys .perCall) badSchedule).threads.map (·.phase)) =
    [.done ['a', 'b'], .done ['c', 'd']] := by decide

/-- hypotheses of `sequential_reuse` are satisfiable: parse 1 strictly after parse 0 was
    abandoned in mid-text -/
example : ((run toy (toySys .shared) ([0, 0] ++ List.replicate 4 1 ++ [])).threads[1]?).map
    Thread.core = some (['c', 'd'], .done ['c', 'd']) := by decide

end Yaql.Props.C01
