import Yaql.Model.Convert
/-!
C16, the literal as the RESULT a host gets back.

The value of a literal reaches the host through the standard finaliser, i.e. through
`convert_output_data` (`Model/Convert.convOut`).  For the property "the literal denotes exactly the value it
spells" to hold for what evaluation RETURNS, output conversion must be the identity on every value a
literal can denote, also when the literal sits inside the lists and dictionaries the language builds
(as element, as value and as KEY).  `literal_result_fixed` is that statement for the model, for every
option set and without an iterator limit.  (Strings are sequences of scalar code points here; strings with
surrogate code points are outside `Char` and are compared on the real code only, see `notes/C16.md`.)
-/
namespace Yaql.Props.C16Result
open Yaql.Convert

mutual
/-- results made of literal values: scalars, host lists of them, dictionaries with scalar keys -/
def plainLit : Py → Bool
  | .sc _ => true
  | .seq k l => decide (k = .list) && plainLitL l
  | .map k kvs => decide (k = .dict) && plainLitP kvs
def plainLitL : List Py → Bool
  | [] => true
  | x :: xs => plainLit x && plainLitL xs
def plainLitP : List (Py × Py) → Bool
  | [] => true
  | (k, v) :: r => (match k with | .sc _ => true | _ => false) && plainLit v && plainLitP r
end

mutual
theorem fixed (o : Opts) : ∀ v, plainLit v = true → convOut o none v = .ok v
  | .sc s, _ => by simp [convOut]
  | .seq k l, h => by
      simp only [plainLit, Bool.and_eq_true, decide_eq_true_eq] at h
      obtain ⟨hk, hl⟩ := h
      subst hk
      have := fixedL o l hl
      simp [convOut, SeqKind.isView, SeqKind.isSetLike, SeqKind.isSeq, Limit.admits, this]
  | .map k kvs, h => by
      simp only [plainLit, Bool.and_eq_true, decide_eq_true_eq] at h
      obtain ⟨hk, hl⟩ := h
      subst hk
      have := fixedP o kvs hl
      simp [convOut, Limit.admits, this]
theorem fixedL (o : Opts) : ∀ l, plainLitL l = true → convElems o none false none l = .ok l
  | [], _ => by simp [convElems]
  | x :: xs, h => by
      simp only [plainLitL, Bool.and_eq_true] at h
      have h1 := fixed o x h.1
      have h2 := fixedL o xs h.2
      simp [convElems, h1, h2]
theorem fixedP (o : Opts) : ∀ l, plainLitP l = true → convPairs o none l = .ok l
  | [], _ => by simp [convPairs]
  | (k, v) :: r, h => by
      simp only [plainLitP, Bool.and_eq_true] at h
      obtain ⟨⟨hk, hv⟩, hr⟩ := h
      have h1 := fixed o v hv
      have h2 := fixedP o r hr
      cases k with
      | sc s => simp [convPairs, h1, h2, convOut, hashable]
      | seq _ _ => simp at hk
      | map _ _ => simp at hk
end

/-- **output conversion returns literal values as they are**, at every depth, for every option set:
    what the host receives for `lit`, `[lit]`, `{lit => [lit]}` ... is built from exactly the values the
    literals denote -/
theorem literal_result_fixed (o : Opts) (v : Py) (h : plainLit v = true) : convOut o none v = .ok v :=
  fixed o v h

/-- non-vacuity: `{'a' => ['a', 1]}` -/
example : plainLit (.map .dict [(.sc (.str ['a']), .seq .list [.sc (.str ['a']), .sc (.int 1)])]) = true := by
  decide

/-- a converter that rewrites strings (say, joins two adjacent characters into one) is not this function:
    the model returns the two-character string unchanged -/
example (o : Opts) : convOut o none (.sc (.str ['x', 'y'])) = .ok (.sc (.str ['x', 'y'])) :=
  literal_result_fixed o _ rfl

end Yaql.Props.C16Result
