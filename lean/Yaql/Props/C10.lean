import Yaql.Model.Convert
/-!
C10 - data round-trips and every result is finalised into plain data.

`rename` is the pure "container kinds renamed per the options" function, `clean` says that no
set element / dict key (at any depth) converts to an unhashable container, `bounded` that no
collection exceeds the `#iter` limit.  `convOut_spec` is the exact characterisation of the
finaliser: it succeeds iff `clean` and `bounded`, and then returns `rename`.  Round-trip,
plainness, the success characterisation and the C08 bound on results follow from it.
-/
namespace Yaql.Props.C10
open Yaql.Convert

/-! ## specification vocabulary -/

/-- the kind an element container is finalised into -/
def outKind (o : Opts) (k : SeqKind) : SeqKind :=
  if k.isView then .list            -- keys() / items() of a dictionary: always a list
  else if k.isSetLike then (if o.s2l then .list else .set)
  else if k.isSeq then (if o.t2l then .list else k)
  else .list

mutual
/-- the result of finalisation when it succeeds: same content, container kinds renamed -/
def rename (o : Opts) : Py → Py
  | .sc s => .sc s
  | .seq k l => .seq (outKind o k) (renameL o l)
  | .map _ kvs => .map .dict (renameP o kvs)
def renameL (o : Opts) : List Py → List Py
  | [] => []
  | x :: xs => rename o x :: renameL o xs
def renameP (o : Opts) : List (Py × Py) → List (Py × Py)
  | [] => []
  | (k, v) :: r => (rename o k, rename o v) :: renameP o r
end

/-- the kinds that are finalised by building a `set` (when sets stay sets): `set` and `frozenset`; the
    set-like dict views are finalised into lists -/
def buildsSet (k : SeqKind) : Bool := k.isSetLike && !k.isView

/-- "x converts to a hashable value" -/
def outHashable (o : Opts) (x : Py) : Bool := hashable (rename o x)

mutual
/-- no set element (when sets stay sets) and no dict key, at any depth, converts to an
    unhashable container -/
def clean (o : Opts) : Py → Bool
  | .sc _ => true
  | .seq k l => cleanL o (buildsSet k && !o.s2l) l
  | .map _ kvs => cleanP o kvs
def cleanL (o : Opts) (nh : Bool) : List Py → Bool
  | [] => true
  | x :: xs => clean o x && (!nh || outHashable o x) && cleanL o nh xs
def cleanP (o : Opts) : List (Py × Py) → Bool
  | [] => true
  | (k, v) :: r => clean o v && clean o k && outHashable o k && cleanP o r
end

mutual
/-- no collection at any depth has more elements than the limit -/
def bounded (lim : Limit) : Py → Bool
  | .sc _ => true
  | .seq _ l => lim.admits l.length && boundedL lim l
  | .map _ kvs => lim.admits kvs.length && boundedP lim kvs
def boundedL (lim : Limit) : List Py → Bool
  | [] => true
  | x :: xs => bounded lim x && boundedL lim xs
def boundedP (lim : Limit) : List (Py × Py) → Bool
  | [] => true
  | (k, v) :: r => bounded lim k && bounded lim v && boundedP lim r
end

mutual
/-- plain data: dicts, lists, tuples only if tuple conversion is off, sets only if set
    conversion is off, scalar leaves - never an iterator, view, frozen dict/set or ordering object -/
def isPlain (o : Opts) : Py → Bool
  | .sc _ => true
  | .seq k l =>
      (match k with
       | .list => true
       | .tuple => !o.t2l
       | .set => !o.s2l
       | _ => false) && isPlainL o l
  | .map k kvs => (match k with | .dict => true | .fdict => false) && isPlainP o kvs
def isPlainL (o : Opts) : List Py → Bool
  | [] => true
  | x :: xs => isPlain o x && isPlainL o xs
def isPlainP (o : Opts) : List (Py × Py) → Bool
  | [] => true
  | (k, v) :: r => isPlain o k && isPlain o v && isPlainP o r
end

/-! ## the exact characterisation of `convert_output_data` -/

theorem budgetOk_succ (b : Option Nat) (n : Nat) (h : (b == some 0) = false) :
    Limit.admits b (n + 1) = Limit.admits (b.map (· - 1)) n := by
  cases b with
  | none => rfl
  | some m =>
      cases m with
      | zero => simp at h
      | succ m => simp [Limit.admits]

theorem budgetOk_zero (n : Nat) : Limit.admits (some 0) (n + 1) = false := by
  simp [Limit.admits]

mutual
theorem convOut_spec (o : Opts) (lim : Limit) : ∀ (v r : Py),
    convOut o lim v = .ok r ↔ (clean o v = true ∧ bounded lim v = true ∧ r = rename o v)
  | .sc s, r => by
      simp only [convOut, clean, bounded, rename]
      constructor
      · intro h; cases h; simp
      · rintro ⟨_, _, rfl⟩; rfl
  | .map mk kvs, r => by
      have ih := convPairs_spec o lim kvs
      simp only [convOut, clean, bounded, rename]
      cases hadm : lim.admits kvs.length
      · simp
      · cases hc : convPairs o lim kvs with
        | error e =>
            have := ih
            simp only [hc] at this
            simp only [if_true, Bool.true_and]
            constructor
            · intro h; cases h
            · rintro ⟨h1, h2, _⟩
              exact absurd ((this (renameP o kvs)).mpr ⟨h1, h2, rfl⟩) (by simp)
        | ok r' =>
            have := (ih r').mp hc
            obtain ⟨h1, h2, rfl⟩ := this
            simp only [if_true, Bool.true_and, h1, h2, true_and]
            constructor
            · intro h; cases h; rfl
            · rintro rfl; rfl
  | .seq k l, r => by
      simp only [convOut, clean, bounded, rename, outKind, buildsSet]
      cases hv : k.isView
      · simp only [Bool.false_eq_true, if_false, Bool.not_false, Bool.and_true]
        cases hs : k.isSetLike
        · cases hq : k.isSeq
          · -- lazy kinds: counted
            have ih := convElems_spec o lim false l lim
            simp only [Bool.false_eq_true, if_false, Bool.false_and]
            cases hc : convElems o lim false lim l with
            | error e =>
                simp only [hc] at ih
                constructor
                · intro h; cases h
                · rintro ⟨h1, h2, _⟩
                  simp only [Bool.and_eq_true] at h2
                  exact absurd ((ih (renameL o l)).mpr ⟨h1, h2.2, h2.1, rfl⟩) (by simp)
            | ok r' =>
                obtain ⟨h1, h2, h3, rfl⟩ := (ih r').mp hc
                simp only [h1, h2, h3, Bool.and_self, true_and]
                constructor
                · intro h; cases h; rfl
                · rintro rfl; rfl
          · have ih := convElems_spec o lim false l none
            simp only [Bool.false_eq_true, if_false, if_true, Bool.false_and]
            cases hadm : lim.admits l.length
            · simp
            · simp only [if_true, Bool.true_and]
              cases hc : convElems o lim false none l with
              | error e =>
                  simp only [hc] at ih
                  constructor
                  · intro h; cases h
                  · rintro ⟨h1, h2, _⟩
                    exact absurd ((ih (renameL o l)).mpr ⟨h1, h2, rfl, rfl⟩) (by simp)
              | ok r' =>
                  obtain ⟨h1, h2, _, rfl⟩ := (ih r').mp hc
                  simp only [h1, h2, true_and]
                  constructor
                  · intro h; cases h; rfl
                  · rintro rfl; rfl
        · have ih := convElems_spec o lim (!o.s2l) l none
          simp only [if_true, Bool.true_and]
          cases hadm : lim.admits l.length
          · simp
          · simp only [if_true, Bool.true_and]
            cases hc : convElems o lim (!o.s2l) none l with
            | error e =>
                simp only [hc] at ih
                constructor
                · intro h; cases h
                · rintro ⟨h1, h2, _⟩
                  exact absurd ((ih (renameL o l)).mpr ⟨h1, h2, rfl, rfl⟩) (by simp)
            | ok r' =>
                obtain ⟨h1, h2, _, rfl⟩ := (ih r').mp hc
                simp only [h1, h2, true_and]
                constructor
                · intro h; cases h; rfl
                · rintro rfl; rfl
      · -- keys() / items() views: a list, no hashing, checked by len
        have ih := convElems_spec o lim false l none
        simp only [if_true, Bool.not_true, Bool.and_false, Bool.false_and]
        cases hadm : lim.admits l.length
        · simp
        · simp only [if_true, Bool.true_and]
          cases hc : convElems o lim false none l with
          | error e =>
              simp only [hc] at ih
              constructor
              · intro h; cases h
              · rintro ⟨h1, h2, _⟩
                exact absurd ((ih (renameL o l)).mpr ⟨h1, h2, rfl, rfl⟩) (by simp)
          | ok r' =>
              obtain ⟨h1, h2, _, rfl⟩ := (ih r').mp hc
              simp only [h1, h2, true_and]
              constructor
              · intro h; cases h; rfl
              · rintro rfl; rfl
theorem convElems_spec (o : Opts) (lim : Limit) (nh : Bool) : ∀ (l : List Py) (b : Option Nat) (r : List Py),
    convElems o lim nh b l = .ok r ↔
      (cleanL o nh l = true ∧ boundedL lim l = true ∧ Limit.admits b l.length = true ∧ r = renameL o l)
  | [], b, r => by
      simp only [convElems, cleanL, boundedL, renameL, List.length_nil]
      constructor
      · intro h; cases h; cases b <;> simp [Limit.admits]
      · rintro ⟨_, _, _, rfl⟩; rfl
  | x :: xs, b, r => by
      have ihx := convOut_spec o lim x
      simp only [convElems, cleanL, boundedL, renameL, List.length_cons]
      cases hb : (b == some 0)
      · have ihxs := convElems_spec o lim nh xs (b.map (· - 1))
        rw [budgetOk_succ b _ hb]
        simp only [Bool.false_eq_true, if_false]
        cases hx : convOut o lim x with
        | error e =>
            simp only [hx] at ihx
            constructor
            · intro h; cases h
            · rintro ⟨h1, h2, _⟩
              simp only [Bool.and_eq_true] at h1 h2
              exact absurd ((ihx (rename o x)).mpr ⟨h1.1.1, h2.1, rfl⟩) (by simp)
        | ok x' =>
            obtain ⟨c1, c2, rfl⟩ := (ihx x').mp hx
            simp only [c1, c2, Bool.true_and, outHashable]
            cases hh : hashable (rename o x)
            · cases nh
              · simp only [Bool.false_and, Bool.false_eq_true, if_false, Bool.not_false, Bool.true_or, Bool.true_and]
                cases hxs : convElems o lim false (b.map (· - 1)) xs with
                | error e =>
                    simp only [hxs] at ihxs
                    constructor
                    · intro h; cases h
                    · rintro ⟨h1, h2, h3, _⟩
                      exact absurd ((ihxs (renameL o xs)).mpr ⟨h1, h2, h3, rfl⟩) (by simp)
                | ok r' =>
                    obtain ⟨d1, d2, d3, rfl⟩ := (ihxs r').mp hxs
                    simp only [d1, d2, d3, true_and]
                    constructor
                    · intro h; cases h; rfl
                    · rintro rfl; rfl
              · simp
            · simp only [Bool.not_true, Bool.and_false, Bool.false_eq_true, if_false, Bool.or_true, Bool.true_and]
              cases hxs : convElems o lim nh (b.map (· - 1)) xs with
              | error e =>
                  simp only [hxs] at ihxs
                  constructor
                  · intro h; cases h
                  · rintro ⟨h1, h2, h3, _⟩
                    exact absurd ((ihxs (renameL o xs)).mpr ⟨h1, h2, h3, rfl⟩) (by simp)
              | ok r' =>
                  obtain ⟨d1, d2, d3, rfl⟩ := (ihxs r').mp hxs
                  simp only [d1, d2, d3, true_and]
                  constructor
                  · intro h; cases h; rfl
                  · rintro rfl; rfl
      · have : b = some 0 := by simpa using hb
        subst this
        simp [budgetOk_zero]
theorem convPairs_spec (o : Opts) (lim : Limit) : ∀ (kvs : List (Py × Py)) (r : List (Py × Py)),
    convPairs o lim kvs = .ok r ↔ (cleanP o kvs = true ∧ boundedP lim kvs = true ∧ r = renameP o kvs)
  | [], r => by
      simp only [convPairs, cleanP, boundedP, renameP]
      constructor
      · intro h; cases h; simp
      · rintro ⟨_, _, rfl⟩; rfl
  | (k, v) :: rest, r => by
      have ihv := convOut_spec o lim v
      have ihk := convOut_spec o lim k
      have ihr := convPairs_spec o lim rest
      simp only [convPairs, cleanP, boundedP, renameP]
      cases hv : convOut o lim v with
      | error e =>
          simp only [hv] at ihv
          constructor
          · intro h; cases h
          · rintro ⟨h1, h2, _⟩
            simp only [Bool.and_eq_true] at h1 h2
            exact absurd ((ihv (rename o v)).mpr ⟨h1.1.1.1, h2.1.2, rfl⟩) (by simp)
      | ok v' =>
          obtain ⟨c1, c2, rfl⟩ := (ihv v').mp hv
          cases hk : convOut o lim k with
          | error e =>
              simp only [hk] at ihk
              constructor
              · intro h; cases h
              · rintro ⟨h1, h2, _⟩
                simp only [Bool.and_eq_true] at h1 h2
                exact absurd ((ihk (rename o k)).mpr ⟨h1.1.1.2, h2.1.1, rfl⟩) (by simp)
          | ok k' =>
              obtain ⟨e1, e2, rfl⟩ := (ihk k').mp hk
              simp only [c1, c2, e1, e2, Bool.true_and, outHashable]
              cases hh : hashable (rename o k)
              · simp
              · simp only [Bool.not_true, Bool.false_eq_true, if_false, Bool.true_and]
                cases hr : convPairs o lim rest with
                | error e =>
                    simp only [hr] at ihr
                    constructor
                    · intro h; cases h
                    · rintro ⟨h1, h2, _⟩
                      exact absurd ((ihr (renameP o rest)).mpr ⟨h1, h2, rfl⟩) (by simp)
                | ok r' =>
                    obtain ⟨d1, d2, rfl⟩ := (ihr r').mp hr
                    simp only [d1, d2, true_and]
                    constructor
                    · intro h; cases h; rfl
                    · rintro rfl; rfl
end

/-! ## consequences -/

theorem bounded_none : ∀ v, bounded none v = true := by
  intro v
  exact (Py.rec (motive_1 := fun v => bounded none v = true)
    (motive_2 := fun l => boundedL none l = true)
    (motive_3 := fun l => boundedP none l = true)
    (motive_4 := fun p => bounded none p.1 = true ∧ bounded none p.2 = true)
    (fun _ => rfl)
    (fun _ l ih => by simp [bounded, Limit.admits, ih])
    (fun _ l ih => by simp [bounded, Limit.admits, ih])
    rfl
    (fun x xs ih1 ih2 => by simp [boundedL, ih1, ih2])
    rfl
    (fun p r ih1 ih2 => by obtain ⟨k, v⟩ := p; simp [boundedP, ih1.1, ih1.2, ih2])
    (fun k v ih1 ih2 => ⟨ih1, ih2⟩) v)

mutual
theorem isPlain_rename (o : Opts) : ∀ v, isPlain o (rename o v) = true
  | .sc _ => rfl
  | .seq k l => by
      have ih := isPlainL_rename o l
      obtain ⟨t, s⟩ := o
      cases k <;> cases t <;> cases s <;> simp_all [rename, isPlain, outKind, SeqKind.isSetLike, SeqKind.isSeq, SeqKind.isView]
  | .map _ kvs => by simp [rename, isPlain, isPlainP_rename o kvs]
theorem isPlainL_rename (o : Opts) : ∀ l, isPlainL o (renameL o l) = true
  | [] => rfl
  | x :: xs => by simp [renameL, isPlainL, isPlain_rename o x, isPlainL_rename o xs]
theorem isPlainP_rename (o : Opts) : ∀ l, isPlainP o (renameP o l) = true
  | [] => rfl
  | (k, v) :: r => by simp [renameP, isPlainP, isPlain_rename o k, isPlain_rename o v, isPlainP_rename o r]
end

/-- **C10.plain**: whenever finalisation succeeds - for every value, every option combination and
    every iterator limit - the result is plain data. -/
theorem plain (o : Opts) (lim : Limit) (v r : Py) (h : convOut o lim v = .ok r) : isPlain o r = true := by
  obtain ⟨_, _, rfl⟩ := (convOut_spec o lim v r).mp h
  exact isPlain_rename o v

/-- plain data contains no lazy / frozen / view / ordering container at its root, spelled out -/
theorem plain_root (o : Opts) (lim : Limit) (v : Py) (k : SeqKind) (l : List Py)
    (h : convOut o lim v = .ok (.seq k l)) :
    k = .list ∨ (k = .tuple ∧ o.t2l = false) ∨ (k = .set ∧ o.s2l = false) := by
  have := plain o lim v _ h
  cases k <;> simp_all [isPlain]

theorem plain_no_frozen_dict (o : Opts) (lim : Limit) (v : Py) (kvs : List (Py × Py)) :
    convOut o lim v ≠ .ok (.map .fdict kvs) := by
  intro h
  have := plain o lim v _ h
  simp [isPlain] at this

example : convOut {} none (.seq .ordering [.map .fdict [(.sc (.int 1), .seq .vview [.sc .null])]])
    = .ok (.seq .list [.map .dict [(.sc (.int 1), .seq .list [.sc .null])]]) := by rfl

/-- **C10.succeeds_iff** (with the iterator limit): finalisation succeeds exactly when no set
    element / dict key converts to an unhashable container and no collection exceeds the limit;
    the result is then `rename`. -/
theorem succeeds_iff_lim (o : Opts) (lim : Limit) (v : Py) :
    (∃ r, convOut o lim v = .ok r) ↔ (clean o v = true ∧ bounded lim v = true) := by
  constructor
  · rintro ⟨r, h⟩
    obtain ⟨h1, h2, _⟩ := (convOut_spec o lim v r).mp h
    exact ⟨h1, h2⟩
  · rintro ⟨h1, h2⟩
    exact ⟨rename o v, (convOut_spec o lim v _).mpr ⟨h1, h2, rfl⟩⟩

/-- **C10.succeeds_iff**: without an iterator limit, finalisation fails iff some set element or dict
    key converts to an unhashable container. -/
theorem succeeds_iff (o : Opts) (v : Py) : (∃ r, convOut o none v = .ok r) ↔ clean o v = true := by
  rw [succeeds_iff_lim]; simp [bounded_none]

/-- "converts to a hashable value", spelled out on the source value: a scalar, or - only when tuples
    are kept - a tuple of such.  Every other container (list, dict, frozen dict, set, frozenset,
    iterator, view, ordering object) converts to a list / dict / set, which cannot be hashed. -/
def hashShape (o : Opts) : Py → Bool
  | .sc _ => true
  | .seq .tuple l => !o.t2l && hashShapeL o l
  | _ => false
where hashShapeL (o : Opts) : List Py → Bool
  | [] => true
  | x :: xs => hashShape o x && hashShapeL o xs

mutual
theorem outHashable_eq (o : Opts) : ∀ x, outHashable o x = hashShape o x
  | .sc _ => rfl
  | .seq k l => by
      have ih := outHashableL_eq o l
      obtain ⟨t, s⟩ := o
      cases k <;> cases t <;> cases s <;>
        simp_all [outHashable, rename, hashable, hashShape, outKind, SeqKind.isSetLike, SeqKind.isSeq, SeqKind.isView]
  | .map _ _ => by simp [outHashable, rename, hashable, hashShape]
theorem outHashableL_eq (o : Opts) : ∀ l, hashableL (renameL o l) = hashShape.hashShapeL o l
  | [] => rfl
  | x :: xs => by
      have := outHashable_eq o x
      simp only [outHashable] at this
      simp [renameL, hashableL, hashShape.hashShapeL, this, outHashableL_eq o xs]
end

/-- error class: without an iterator limit the only way finalisation fails is `TypeError: unhashable` -/
theorem fails_only_unhashable (o : Opts) : ∀ (v : Py) (e : Err), convOut o none v = .error e → e = .unhashable := by
  intro v
  exact (Py.rec (motive_1 := fun v => ∀ e, convOut o none v = .error e → e = .unhashable)
    (motive_2 := fun l => ∀ nh e, convElems o none nh none l = .error e → e = .unhashable)
    (motive_3 := fun l => ∀ e, convPairs o none l = .error e → e = .unhashable)
    (motive_4 := fun p => (∀ e, convOut o none p.1 = .error e → e = .unhashable) ∧
                          (∀ e, convOut o none p.2 = .error e → e = .unhashable))
    (fun _ e h => by simp [convOut] at h)
    (fun k l ih e h => by
      simp only [convOut, Limit.admits, if_true] at h
      cases hv : k.isView <;> cases hs : k.isSetLike <;> cases hq : k.isSeq <;>
        simp only [hv, hs, hq, Bool.false_eq_true, if_false, if_true] at h
      all_goals
        split at h
        · cases h
        · rename_i e' he; cases h; exact ih _ _ he)
    (fun _ l ih e h => by
      simp only [convOut, Limit.admits, if_true] at h
      split at h
      · cases h
      · rename_i e' he; cases h; exact ih _ he)
    (fun nh e h => by simp [convElems] at h)
    (fun x xs ih1 ih2 nh e h => by
      simp only [convElems, Option.map_none] at h
      simp only [show ((none : Option Nat) == some 0) = false from rfl, Bool.false_eq_true, if_false] at h
      split at h
      · rename_i e' he; cases h; exact ih1 _ he
      · split at h
        · cases h; rfl
        · split at h
          · rename_i e' he; cases h; exact ih2 _ _ he
          · cases h)
    (fun e h => by simp [convPairs] at h)
    (fun p r ih1 ih2 e h => by
      obtain ⟨k, v⟩ := p
      simp only [convPairs] at h
      split at h
      · rename_i e' he; cases h; exact ih1.2 _ he
      · split at h
        · rename_i e' he; cases h; exact ih1.1 _ he
        · split at h
          · cases h; rfl
          · split at h
            · rename_i e' he; cases h; exact ih2 _ he
            · cases h)
    (fun k v ih1 ih2 => ⟨ih1, ih2⟩) v)

mutual
/-- no container at all in a hash position (every set element and dict key, at any depth, is a scalar) -/
def scalarHashPos : Py → Bool
  | .sc _ => true
  | .seq k l => scalarHashPosL (buildsSet k) l
  | .map _ kvs => scalarHashPosP kvs
def scalarHashPosL (nh : Bool) : List Py → Bool
  | [] => true
  | x :: xs => scalarHashPos x && (!nh || (match x with | .sc _ => true | _ => false)) && scalarHashPosL nh xs
def scalarHashPosP : List (Py × Py) → Bool
  | [] => true
  | (k, v) :: r => scalarHashPos v && (match k with | .sc _ => true | _ => false) && scalarHashPosP r
end

mutual
theorem clean_of_scalarHashPos (o : Opts) : ∀ v, scalarHashPos v = true → clean o v = true
  | .sc _, _ => rfl
  | .seq k l, h => by
      simp only [scalarHashPos] at h
      simp only [clean]
      exact cleanL_of_scalarHashPos o _ _ l (by intro hn; simp_all) h
  | .map _ kvs, h => by
      simp only [scalarHashPos] at h
      simp only [clean]
      exact cleanP_of_scalarHashPos o kvs h
theorem cleanL_of_scalarHashPos (o : Opts) (nh nh' : Bool) : ∀ l, (nh' = true → nh = true) →
    scalarHashPosL nh l = true → cleanL o nh' l = true
  | [], _, _ => rfl
  | x :: xs, hn, h => by
      simp only [scalarHashPosL, Bool.and_eq_true] at h
      obtain ⟨⟨h1, h2⟩, h3⟩ := h
      simp only [cleanL, Bool.and_eq_true]
      refine ⟨⟨clean_of_scalarHashPos o x h1, ?_⟩, cleanL_of_scalarHashPos o nh nh' xs hn h3⟩
      cases nh'
      · rfl
      · have := hn rfl
        subst this
        cases x <;> simp_all [outHashable, rename, hashable]
theorem cleanP_of_scalarHashPos (o : Opts) : ∀ l, scalarHashPosP l = true → cleanP o l = true
  | [], _ => rfl
  | (k, v) :: r, h => by
      simp only [scalarHashPosP, Bool.and_eq_true] at h
      obtain ⟨⟨h1, h2⟩, h3⟩ := h
      simp only [cleanP, Bool.and_eq_true]
      cases k with
      | sc s => exact ⟨⟨⟨clean_of_scalarHashPos o v h1, rfl⟩, rfl⟩, cleanP_of_scalarHashPos o r h3⟩
      | seq _ _ => simp at h2
      | map _ _ => simp at h2
end

/-- the full claim of the property text: finalisation succeeds under every option combination for
    every (Python-constructible) value.  FALSE of the code and unsatisfiable: see `current_fails`. -/
def total_full (wf : Py → Bool) : Prop := ∀ (o : Opts) (v : Py), wf v = true → ∃ r, convOut o none v = .ok r

/-- **C10.total_partial**: finalisation succeeds under every option combination for every value that
    has no container in a hash position. -/
theorem total_partial (o : Opts) (v : Py) (h : scalarHashPos v = true) : ∃ r, convOut o none v = .ok r :=
  (succeeds_iff o v).mpr (clean_of_scalarHashPos o v h)

example : scalarHashPos (.seq .iter [.seq .fset [.sc (.int 1)], .map .fdict [(.sc (.str ['a']), .seq .kview [.sc .null])]]) = true := by rfl
-- a keys / items view may hold containers: it is finalised into a list
example : scalarHashPos (.seq .iview [.seq .tuple [.sc (.str ['a']), .seq .list [.sc (.int 1)]]]) = true ∧
    scalarHashPos (.seq .fset [.seq .tuple [.sc (.int 1)]]) = false := by exact ⟨rfl, rfl⟩

/-! ## Python-constructible values and `convert_input_data` -/

/-- an element of `dict.items()`: a 2-tuple whose first component is a (hashable) key -/
def itemShape : Py → Bool
  | .seq .tuple [k, _] => hashable k
  | _ => false

def itemShapeL : List Py → Bool
  | [] => true
  | x :: xs => itemShape x && itemShapeL xs

mutual
/-- constructible in Python: set elements and dict keys are hashable -/
def wf : Py → Bool
  | .sc _ => true
  | .seq k l =>
      wfL l && (match k with
                | .set | .fset | .kview => hashableL l
                | .iview => itemShapeL l
                | _ => true)
  | .map _ kvs => wfP kvs
def wfL : List Py → Bool
  | [] => true
  | x :: xs => wf x && wfL xs
def wfP : List (Py × Py) → Bool
  | [] => true
  | (k, v) :: r => hashable k && wf k && wf v && wfP r
end

mutual
theorem convIn_hashable : ∀ v, hashable v = true → hashable (convIn v) = true
  | .sc _, _ => rfl
  | .seq k l, h => by
      cases k <;> simp_all [convIn, inKind, hashable]
      exact convInL_hashable l h
  | .map k kvs, h => by
      cases k <;> simp_all [convIn, hashable]
      exact convInP_hashable kvs h
theorem convInL_hashable : ∀ l, hashableL l = true → hashableL (convInL l) = true
  | [], _ => rfl
  | x :: xs, h => by
      simp only [hashableL, Bool.and_eq_true] at h
      simp [convInL, hashableL, convIn_hashable x h.1, convInL_hashable xs h.2]
theorem convInP_hashable : ∀ l, hashableP l = true → hashableP (convInP l) = true
  | [], _ => rfl
  | (k, v) :: r, h => by
      simp only [hashableP, Bool.and_eq_true] at h
      simp [convInP, hashableP, convIn_hashable k h.1.1, convIn_hashable v h.1.2, convInP_hashable r h.2]
end

mutual
/-- `convert_input_data` never raises on Python-constructible data: every `frozenset` element and
    `FrozenDict` key it builds is hashable -/
theorem convIn_wf : ∀ v, wf v = true → wf (convIn v) = true
  | .sc _, _ => rfl
  | .seq k l, h => by
      simp only [wf, Bool.and_eq_true] at h
      have ih := convInL_wf l h.1
      cases k <;> simp_all [convIn, inKind, wf]
      exact convInL_hashable l h.2
  | .map _ kvs, h => by
      simp only [wf] at h
      simp [convIn, wf, convInP_wf kvs h]
theorem convInL_wf : ∀ l, wfL l = true → wfL (convInL l) = true
  | [], _ => rfl
  | x :: xs, h => by
      simp only [wfL, Bool.and_eq_true] at h
      simp [convInL, wfL, convIn_wf x h.1, convInL_wf xs h.2]
theorem convInP_wf : ∀ l, wfP l = true → wfP (convInP l) = true
  | [], _ => rfl
  | (k, v) :: r, h => by
      simp only [wfP, Bool.and_eq_true] at h
      simp [convInP, wfP, convIn_hashable k h.1.1.1, convIn_wf k h.1.1.2, convIn_wf v h.1.2, convInP_wf r h.2]
end

/-! ## round trip -/

/-- what `$` returns for host data of this kind -/
def canonKind (o : Opts) : SeqKind → SeqKind
  | .tuple | .list => if o.t2l then .list else .tuple
  | .set => if o.s2l then .list else .set
  | _ => .list     -- generators; doc-silent: frozenset and dict views are generic iterables for the input converter

mutual
/-- the document in canonical container types: same content, container kinds renamed per the options -/
def canon (o : Opts) : Py → Py
  | .sc s => .sc s
  | .seq k l => .seq (canonKind o k) (canonL o l)
  | .map _ kvs => .map .dict (canonP o kvs)
def canonL (o : Opts) : List Py → List Py
  | [] => []
  | x :: xs => canon o x :: canonL o xs
def canonP (o : Opts) : List (Py × Py) → List (Py × Py)
  | [] => []
  | (k, v) :: r => (canon o k, canon o v) :: canonP o r
end

mutual
theorem rename_convIn (o : Opts) : ∀ d, rename o (convIn d) = canon o d
  | .sc _ => rfl
  | .seq k l => by
      simp only [convIn, rename, canon, rename_convInL o l]
      obtain ⟨t, s⟩ := o
      cases k <;> cases t <;> cases s <;> rfl
  | .map _ kvs => by simp only [convIn, rename, canon, rename_convInP o kvs]
theorem rename_convInL (o : Opts) : ∀ l, renameL o (convInL l) = canonL o l
  | [] => rfl
  | x :: xs => by simp only [convInL, renameL, canonL, rename_convIn o x, rename_convInL o xs]
theorem rename_convInP (o : Opts) : ∀ l, renameP o (convInP l) = canonP o l
  | [] => rfl
  | (k, v) :: r => by simp only [convInP, renameP, canonP, rename_convIn o k, rename_convIn o v, rename_convInP o r]
end

mutual
/-- host data that round-trips under options `o`: every element of a `set` (when sets stay sets) and
    every dict key has a hashable canonical form -/
def docX (o : Opts) : Py → Bool
  | .sc _ => true
  | .seq k l => docXL o ((match k with | .set => true | _ => false) && !o.s2l) l
  | .map _ kvs => docXP o kvs
def docXL (o : Opts) (nh : Bool) : List Py → Bool
  | [] => true
  | x :: xs => docX o x && (!nh || hashable (canon o x)) && docXL o nh xs
def docXP (o : Opts) : List (Py × Py) → Bool
  | [] => true
  | (k, v) :: r => docX o v && docX o k && hashable (canon o k) && docXP o r
end

mutual
theorem clean_convIn (o : Opts) : ∀ d, clean o (convIn d) = docX o d
  | .sc _ => rfl
  | .seq k l => by
      simp only [convIn, clean, docX]
      have : buildsSet (inKind k) = (match k with | .set => true | _ => false) := by cases k <;> rfl
      rw [this]
      exact cleanL_convIn o _ l
  | .map _ kvs => by simp only [convIn, clean, docX, cleanP_convIn o kvs]
theorem cleanL_convIn (o : Opts) (nh : Bool) : ∀ l, cleanL o nh (convInL l) = docXL o nh l
  | [] => rfl
  | x :: xs => by
      simp only [convInL, cleanL, docXL, clean_convIn o x, cleanL_convIn o nh xs, outHashable, rename_convIn]
theorem cleanP_convIn (o : Opts) : ∀ l, cleanP o (convInP l) = docXP o l
  | [] => rfl
  | (k, v) :: r => by
      simp only [convInP, cleanP, docXP, clean_convIn o k, clean_convIn o v, cleanP_convIn o r, outHashable, rename_convIn]
end

/-- **C10.roundtrip** (general form): host data whose set elements / dict keys stay hashable comes back
    from `$` as the same document in canonical container types. -/
theorem roundtrip_ext (o : Opts) (d : Py) (h : docX o d = true) : convOut o none (convIn d) = .ok (canon o d) := by
  rw [convOut_spec]
  exact ⟨by rw [clean_convIn]; exact h, bounded_none _, (rename_convIn o d).symm⟩

/-- and conversely: data outside `docX` does not come back at all (known finding K1) -/
theorem roundtrip_only (o : Opts) (d r : Py) (h : convOut o none (convIn d) = .ok r) : docX o d = true := by
  have := (convOut_spec o none _ r).mp h
  rw [clean_convIn] at this
  exact this.1

mutual
/-- JSON-like document: scalars, lists, dicts with scalar keys -/
def isDoc : Py → Bool
  | .sc _ => true
  | .seq k l => (match k with | .list => true | _ => false) && isDocL l
  | .map k kvs => (match k with | .dict => true | _ => false) && isDocP kvs
def isDocL : List Py → Bool
  | [] => true
  | x :: xs => isDoc x && isDocL xs
def isDocP : List (Py × Py) → Bool
  | [] => true
  | (k, v) :: r => (match k with | .sc _ => true | _ => false) && isDoc v && isDocP r
end

mutual
/-- tuples, sets and generators of JSON-like documents (set elements are necessarily scalars or
    tuples; sets of tuples are covered by `roundtrip_ext` when tuples are kept) -/
def isDocExt : Py → Bool
  | .sc _ => true
  | .seq k l =>
      (match k with
       | .list | .tuple | .iter => isDocExtL l
       | .set => scalarsL l
       | _ => false)
  | .map _ kvs => isDocExtP kvs
def isDocExtL : List Py → Bool
  | [] => true
  | x :: xs => isDocExt x && isDocExtL xs
def scalarsL : List Py → Bool
  | [] => true
  | x :: xs => (match x with | .sc _ => true | _ => false) && scalarsL xs
def isDocExtP : List (Py × Py) → Bool
  | [] => true
  | (k, v) :: r => (match k with | .sc _ => true | _ => false) && isDocExt v && isDocExtP r
end

theorem docXL_scalars (o : Opts) (nh : Bool) : ∀ l, scalarsL l = true → docXL o nh l = true
  | [], _ => rfl
  | x :: xs, h => by
      simp only [scalarsL, Bool.and_eq_true] at h
      cases x with
      | sc s => simp [docXL, docX, canon, hashable, docXL_scalars o nh xs h.2]
      | seq _ _ => simp at h
      | map _ _ => simp at h

mutual
theorem docX_of_ext (o : Opts) : ∀ d, isDocExt d = true → docX o d = true
  | .sc _, _ => rfl
  | .seq k l, h => by
      simp only [docX]
      cases k <;> simp only [isDocExt] at h <;> try (simp at h; done)
      · exact docXL_of_ext o l h
      · exact docXL_of_ext o l h
      · exact docXL_scalars o _ l h
      · exact docXL_of_ext o l h
  | .map _ kvs, h => by
      simp only [isDocExt] at h
      simp only [docX]
      exact docXP_of_ext o kvs h
theorem docXL_of_ext (o : Opts) : ∀ l, isDocExtL l = true → docXL o (false && !o.s2l) l = true
  | [], _ => rfl
  | x :: xs, h => by
      simp only [isDocExtL, Bool.and_eq_true] at h
      have := docXL_of_ext o xs h.2
      simp only [Bool.false_and] at this
      simp [docXL, docX_of_ext o x h.1, this]
theorem docXP_of_ext (o : Opts) : ∀ l, isDocExtP l = true → docXP o l = true
  | [], _ => rfl
  | (k, v) :: r, h => by
      simp only [isDocExtP, Bool.and_eq_true] at h
      cases k with
      | sc s => simp [docXP, docX, canon, hashable, docX_of_ext o v h.1.2, docXP_of_ext o r h.2]
      | seq _ _ => simp at h
      | map _ _ => simp at h
end

mutual
theorem ext_of_doc : ∀ d, isDoc d = true → isDocExt d = true
  | .sc _, _ => rfl
  | .seq k l, h => by
      cases k <;> simp only [isDoc, Bool.false_and, Bool.true_and] at h <;> try (simp at h; done)
      simp only [isDocExt]
      exact extL_of_doc l h
  | .map k kvs, h => by
      cases k <;> simp only [isDoc, Bool.false_and, Bool.true_and] at h <;> try (simp at h; done)
      simp only [isDocExt]
      exact extP_of_doc kvs h
theorem extL_of_doc : ∀ l, isDocL l = true → isDocExtL l = true
  | [], _ => rfl
  | x :: xs, h => by
      simp only [isDocL, Bool.and_eq_true] at h
      simp [isDocExtL, ext_of_doc x h.1, extL_of_doc xs h.2]
theorem extP_of_doc : ∀ l, isDocP l = true → isDocExtP l = true
  | [], _ => rfl
  | (k, v) :: r, h => by
      simp only [isDocP, Bool.and_eq_true] at h
      simp [isDocExtP, h.1.1, ext_of_doc v h.1.2, extP_of_doc r h.2]
end

/-- **C10.roundtrip**: for every JSON-like document `d`, and tuples, sets and generators of such,
    under every option combination, `$` returns `d` in canonical container types. -/
theorem roundtrip (o : Opts) (d : Py) (h : isDocExt d = true) : convOut o none (convIn d) = .ok (canon o d) :=
  roundtrip_ext o d (docX_of_ext o d h)

theorem roundtrip_json (o : Opts) (d : Py) (h : isDoc d = true) : convOut o none (convIn d) = .ok (canon o d) :=
  roundtrip o d (ext_of_doc d h)

mutual
theorem canon_default_doc : ∀ d, isDoc d = true → canon {} d = d
  | .sc _, _ => rfl
  | .seq k l, h => by
      cases k <;> simp only [isDoc, Bool.false_and, Bool.true_and] at h <;> try (simp at h; done)
      simp only [canon, canonL_default_doc l h]
      rfl
  | .map k kvs, h => by
      cases k <;> simp only [isDoc, Bool.false_and, Bool.true_and] at h <;> try (simp at h; done)
      simp only [canon, canonP_default_doc kvs h]
theorem canonL_default_doc : ∀ l, isDocL l = true → canonL {} l = l
  | [], _ => rfl
  | x :: xs, h => by
      simp only [isDocL, Bool.and_eq_true] at h
      simp only [canonL, canon_default_doc x h.1, canonL_default_doc xs h.2]
theorem canonP_default_doc : ∀ l, isDocP l = true → canonP {} l = l
  | [], _ => rfl
  | (k, v) :: r, h => by
      simp only [isDocP, Bool.and_eq_true] at h
      cases k with
      | sc s => simp only [canonP, canon, canon_default_doc v h.1.2, canonP_default_doc r h.2]
      | seq _ _ => simp at h
      | map _ _ => simp at h
end

/-- **C10.roundtrip**, default options: `$` returns the JSON-like document itself -/
theorem roundtrip_default (d : Py) (h : isDoc d = true) : convOut {} none (convIn d) = .ok d := by
  rw [roundtrip_json {} d h, canon_default_doc d h]

example : isDoc (.map .dict [(.sc (.str ['a']), .seq .list [.sc (.int 1), .map .dict [], .sc .null])]) = true := by rfl
example : isDocExt (.seq .iter [.seq .tuple [.sc (.int 1)], .seq .set [.sc (.int 1), .sc (.str ['x'])]]) = true := by rfl

/-! ## dict views: `keys()` / `items()` are finalised into lists -/

/-- the elements of `d.keys()` -/
def keysOf : List (Py × Py) → List Py
  | [] => []
  | (k, _) :: r => k :: keysOf r

/-- the elements of `d.items()`: the 2-tuples `(key, value)` -/
def itemsOf : List (Py × Py) → List Py
  | [] => []
  | (k, v) :: r => .seq .tuple [k, v] :: itemsOf r

/-- the finalised pairs: `[key, value]` (a tuple only if tuple conversion is off) -/
def pairsOf (o : Opts) : List (Py × Py) → List Py
  | [] => []
  | (k, v) :: r => .seq (if o.t2l then .list else .tuple) [k, v] :: pairsOf o r

theorem keysOf_length : ∀ kvs, (keysOf kvs).length = kvs.length
  | [] => rfl
  | (_, _) :: r => by simp [keysOf, keysOf_length r]
theorem itemsOf_length : ∀ kvs, (itemsOf kvs).length = kvs.length
  | [] => rfl
  | (_, _) :: r => by simp [itemsOf, itemsOf_length r]

theorem renameL_keysOf (o : Opts) : ∀ kvs, renameL o (keysOf kvs) = keysOf (renameP o kvs)
  | [] => rfl
  | (k, v) :: r => by simp [keysOf, renameL, renameP, renameL_keysOf o r]
theorem renameL_itemsOf (o : Opts) : ∀ kvs, renameL o (itemsOf kvs) = pairsOf o (renameP o kvs)
  | [] => rfl
  | (k, v) :: r => by
      simp only [itemsOf, renameL, renameP, pairsOf, rename, renameL_itemsOf o r]
      obtain ⟨t, s⟩ := o
      cases t <;> rfl

/-- every key and every value of the dictionary is finalised on its own -/
def partsFinalise (o : Opts) (lim : Limit) (kvs : List (Py × Py)) : Prop :=
  ∀ p ∈ kvs, (∃ r, convOut o lim p.1 = .ok r) ∧ (∃ r, convOut o lim p.2 = .ok r)

theorem partsFinalise_clean (o : Opts) (lim : Limit) : ∀ kvs, partsFinalise o lim kvs →
    cleanL o false (keysOf kvs) = true ∧ boundedL lim (keysOf kvs) = true ∧
    cleanL o false (itemsOf kvs) = true ∧ (lim.admits 2 = true → boundedL lim (itemsOf kvs) = true)
  | [], _ => ⟨rfl, rfl, rfl, fun _ => rfl⟩
  | (k, v) :: r, h => by
      have hr := partsFinalise_clean o lim r (fun p hp => h p (List.mem_cons_of_mem _ hp))
      obtain ⟨⟨rk, hk⟩, ⟨rv, hv⟩⟩ := h (k, v) (List.mem_cons_self ..)
      obtain ⟨ck, bk, _⟩ := (convOut_spec o lim k rk).mp hk
      obtain ⟨cv, bv, _⟩ := (convOut_spec o lim v rv).mp hv
      obtain ⟨r1, r2, r3, r4⟩ := hr
      refine ⟨?_, ?_, ?_, ?_⟩
      · simp [keysOf, cleanL, ck, r1]
      · simp [keysOf, boundedL, bk, r2]
      · simp [itemsOf, cleanL, clean, buildsSet, SeqKind.isSetLike, ck, cv, r3]
      · intro h2
        have h2' : lim.admits (0 + 1 + 1) = true := h2
        simp [itemsOf, boundedL, bounded, bk, bv, r4 h2, h2']

/-- **C10.views_finalise**: for every dictionary (builtin or frozen, of any size) whose keys and values are
    finalised, under every option combination and every iterator limit that admits its size,
    `keys()` is finalised successfully into the LIST of the finalised keys and - the limit admitting a
    pair - `items()` into the LIST of the finalised `[key, value]` pairs, both in iteration order.
    (The dictionary itself need not be finalisable: `{[1,2] => 3}.keys()` gives `[[1, 2]]`.) -/
theorem views_finalise (o : Opts) (lim : Limit) (kvs : List (Py × Py))
    (hlen : lim.admits kvs.length = true) (h : partsFinalise o lim kvs) :
    convOut o lim (.seq .kview (keysOf kvs)) = .ok (.seq .list (keysOf (renameP o kvs))) ∧
    (lim.admits 2 = true →
      convOut o lim (.seq .iview (itemsOf kvs)) = .ok (.seq .list (pairsOf o (renameP o kvs)))) := by
  obtain ⟨c1, b1, c2, b2⟩ := partsFinalise_clean o lim kvs h
  constructor
  · rw [convOut_spec]
    refine ⟨?_, ?_, ?_⟩
    · simpa [clean, buildsSet, SeqKind.isSetLike, SeqKind.isView] using c1
    · simp [bounded, keysOf_length, hlen, b1]
    · simp [rename, outKind, SeqKind.isView, renameL_keysOf]
  · intro h2
    rw [convOut_spec]
    refine ⟨?_, ?_, ?_⟩
    · simpa [clean, buildsSet, SeqKind.isSetLike, SeqKind.isView] using c2
    · simp [bounded, itemsOf_length, hlen, b2 h2]
    · simp [rename, outKind, SeqKind.isView, renameL_itemsOf]

/-- ... in particular whenever the dictionary itself is finalised into `{k' : v', ...}`: its `keys()` is
    finalised into `[k', ...]` and its `items()` into `[[k', v'], ...]` -/
theorem views_finalise_of_dict (o : Opts) (mk : MapKind) (kvs r : List (Py × Py))
    (h : convOut o none (.map mk kvs) = .ok (.map .dict r)) :
    convOut o none (.seq .kview (keysOf kvs)) = .ok (.seq .list (keysOf r)) ∧
    convOut o none (.seq .iview (itemsOf kvs)) = .ok (.seq .list (pairsOf o r)) := by
  obtain ⟨hc, _, hr⟩ := (convOut_spec o none _ _).mp h
  simp only [rename, Py.map.injEq, true_and] at hr
  subst hr
  have parts : ∀ l, cleanP o l = true → partsFinalise o none l := by
    intro l
    induction l with
    | nil => intro _ p hp; cases hp
    | cons x xs ih =>
        obtain ⟨k, v⟩ := x
        intro hcl p hp
        simp only [cleanP, Bool.and_eq_true] at hcl
        rcases List.mem_cons.mp hp with rfl | hp
        · exact ⟨(succeeds_iff o k).mpr hcl.1.1.2, (succeeds_iff o v).mpr hcl.1.1.1⟩
        · exact ih hcl.2 p hp
  have := views_finalise o none kvs rfl (parts kvs (by simpa [clean] using hc))
  exact ⟨this.1, this.2 rfl⟩

/-- the documented examples (`dict_items` / `dict_keys` in yaql/standard_library/collections.py):
    `{"a" => 1, "b" => 2}.items()` -> `[["a", 1], ["b", 2]]`, `.keys()` -> `["a", "b"]`, under the defaults -/
def docDict : List (Py × Py) := [(.sc (.str ['a']), .sc (.int 1)), (.sc (.str ['b']), .sc (.int 2))]

theorem views_documented :
    convOut {} none (.seq .iview (itemsOf docDict))
      = .ok (.seq .list [.seq .list [.sc (.str ['a']), .sc (.int 1)], .seq .list [.sc (.str ['b']), .sc (.int 2)]]) ∧
    convOut {} none (.seq .kview (keysOf docDict)) = .ok (.seq .list [.sc (.str ['a']), .sc (.str ['b'])]) := by
  exact ⟨rfl, rfl⟩

example : partsFinalise {} none docDict := by
  intro p hp
  simp only [docDict, List.mem_cons, List.not_mem_nil, or_false] at hp
  rcases hp with rfl | rfl <;> exact ⟨⟨_, rfl⟩, ⟨_, rfl⟩⟩
-- the views of a dictionary that is not itself finalisable (K1) are: `{[1,2] => 3}.keys()` -> `[[1, 2]]`
example : convOut {} none (.seq .kview (keysOf [(.seq .tuple [.sc (.int 1), .sc (.int 2)], .sc (.int 3))]))
    = .ok (.seq .list [.seq .list [.sc (.int 1), .sc (.int 2)]]) := by rfl
-- the values view is as before: a generic iterable, a list
example : convOut {} none (.seq .vview [.sc (.int 1), .sc (.int 2)]) = .ok (.seq .list [.sc (.int 1), .sc (.int 2)]) := by rfl
-- the size of the view is checked by `len`, and a pair is a collection of two
example : convOut {} (some 1) (.seq .kview (keysOf docDict)) = .error .tooLarge := by rfl
example : convOut {} (some 1) (.seq .iview (itemsOf [(.sc (.str ['a']), .sc (.int 1))])) = .error .tooLarge := by rfl

/-! ## the full claim is false (known finding K1) -/

/-- `set([1,2])` / a host `{(1, 2)}`: a frozenset holding a tuple -/
def k1_set : Py := .seq .fset [.seq .tuple [.sc (.int 1), .sc (.int 2)]]
/-- `{[1,2] => 3}`: a frozen dict keyed by a tuple -/
def k1_key : Py := .map .fdict [(.seq .tuple [.sc (.int 1), .sc (.int 2)], .sc (.int 3))]

/-- **C10.current_fails**: under the default options two Python-constructible results of ordinary
    expressions are not finalised: `TypeError: unhashable type: 'list'`.  (The third former witness,
    `{a => 1}.items()`, was a repairable defect and is repaired: `views_finalise`.) -/
theorem current_fails :
    wf k1_set = true ∧ convOut {} none k1_set = .error .unhashable ∧
    wf k1_key = true ∧ convOut {} none k1_key = .error .unhashable := by
  refine ⟨rfl, rfl, rfl, rfl⟩

theorem current_fails_full : ¬ total_full wf := by
  intro h
  obtain ⟨r, hr⟩ := h {} k1_set rfl
  have : convOut {} none k1_set = .error .unhashable := rfl
  rw [this] at hr
  cases hr

/-- and it is unsatisfiable as stated: the only candidate results - the same content with the kinds the
    options prescribe, a `set` holding a `list` / a `dict` keyed by a `list` - are not Python values. -/
theorem current_fails_unsatisfiable :
    wf (rename {} k1_set) = false ∧ isPlain {} (rename {} k1_set) = true ∧
    wf (rename {} k1_key) = false ∧ isPlain {} (rename {} k1_key) = true := by
  exact ⟨rfl, rfl, rfl, rfl⟩

/-- the same data is finalised when tuples are kept or sets become lists -/
theorem k1_other_options :
    convOut { t2l := false } none k1_set = .ok (.seq .set [.seq .tuple [.sc (.int 1), .sc (.int 2)]]) ∧
    convOut { s2l := true } none k1_set = .ok (.seq .list [.seq .list [.sc (.int 1), .sc (.int 2)]]) ∧
    convOut { t2l := false } none k1_key = .ok (.map .dict [(.seq .tuple [.sc (.int 1), .sc (.int 2)], .sc (.int 3))]) := by
  exact ⟨rfl, rfl, rfl⟩

/-- a host set holding a tuple does not round-trip under the defaults -/
theorem k1_roundtrip :
    convOut {} none (convIn (.seq .set [.seq .tuple [.sc (.int 1), .sc (.int 2)]])) = .error .unhashable := by rfl

end Yaql.Props.C10
