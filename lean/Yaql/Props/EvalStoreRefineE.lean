import Yaql.Props.EvalStoreRefineM
/-! Refinement, part 3: functions, member access, one layer of the evaluator, the evaluator, `Statement.evaluate`. -/
namespace Yaql.Props.EvalStore
open Yaql Yaql.Value Yaql.Eval Yaql.EvalStore
open Yaql.Context (alookup aset normName)

theorem bind_assoc_M {α β γ : Type} (m : M α) (f : α → M β) (g : β → M γ) :
    (m >>= f >>= g) = (m >>= fun a => f a >>= g) := by
  funext s
  rw [bind_run, bind_run, bind_run]
  cases hm : m s with
  | mk r s1 =>
    cases r with
    | ok a => simp only [bind_run]
    | error e => rfl

/-- `create_child_context()`, two publications, then the rest (`let`, a user function's application) -/
theorem post_child_data2 {Q : St → γ → δ → Prop} {s : St} {p : Nat} {C : Ctx} {w1 w2 : Nat → M Unit}
    {g1 g2 : List (Name × Value) → List (Name × Value)} {k : Nat → M γ} {r : R δ}
    (h1 : DataWrite w1 g1) (h2' : DataWrite w2 g2) (hwf : WF s.cells) (h : CtxRel s p C)
    (h2 : ∀ s1 X, WF s1.cells → Ext s s1 → CtxRel s1 X ({ vars := g2 (g1 []) } :: C) → Post Q s1 (k X s1) r) :
    Post Q s ((childCtx p >>= fun X => w1 X >>= fun _ => w2 X >>= fun _ => k X) s) r := by
  have e : (fun X => w1 X >>= fun _ => w2 X >>= fun _ => k X) =
      (fun X => (w1 X >>= fun _ => w2 X) >>= fun _ => k X) := by
    funext X; rw [bind_assoc_M]
  rw [e]
  exact post_child_data (w := fun X => w1 X >>= fun _ => w2 X) (DataWrite.seq h1 h2') hwf h h2

/-! ### `def`: allocation followed by the registration of the closure -/

theorem regFun_cells (X : Nat) (f : Name) (b : Expr) (d : Nat) (s : St) (cell : Cell) (h : s.cells[X]? = some cell) :
    (regFun X f b d s).2.cells = s.cells.set X { cell with funs := aset f (b, d) cell.funs } := by
  simp [regFun, modifyCell, h]

theorem post_child_reg {Q : St → γ → δ → Prop} {s : St} {p : Nat} {C : Ctx} {fname : Name} {body : Expr}
    {k : Nat → M γ} {r : R δ} (hwf : WF s.cells) (h : CtxRel s p C)
    (h2 : ∀ s1 X, WF s1.cells → Ext s s1 → CtxRel s1 X ({ funs := [(fname, body)] } :: C) → Post Q s1 (k X s1) r) :
    Post Q s ((childCtx p >>= fun X => regFun X fname body X >>= fun _ => k X) s) r := by
  obtain ⟨hwf1, _, _, _⟩ := child_rel hwf h
  have hcell : (childCtx p s).2.cells[s.cells.length]? = some { parent := some p } := by simp [childCtx]
  have hcells := regFun_cells s.cells.length fname body s.cells.length (childCtx p s).2 _ hcell
  have hset : (regFun s.cells.length fname body s.cells.length (childCtx p s).2).2.cells =
      s.cells ++ [{ parent := some p, funs := [(fname, (body, s.cells.length))] }] := by
    rw [hcells]; simp [childCtx, aset]
  have hwf2 : WF (s.cells ++ [({ parent := some p, funs := [(fname, (body, s.cells.length))] } : Cell)]) := by
    intro i cell hi
    rcases Nat.lt_or_ge i s.cells.length with hl | hl
    · rw [List.getElem?_append_left hl] at hi; exact hwf i cell hi
    · rw [List.getElem?_append_right hl] at hi
      cases hk : i - s.cells.length with
      | zero =>
        simp only [hk, List.getElem?_cons_zero, Option.some.injEq] at hi
        subst hi
        refine ⟨fun q hq => by simp only [Option.some.injEq] at hq; have := h.1; omega, fun f b d hm => ?_⟩
        simp only [List.mem_singleton, Prod.mk.injEq] at hm
        omega
      | succ k => simp [hk] at hi
  have hX : CtxRel (regFun s.cells.length fname body s.cells.length (childCtx p s).2).2 s.cells.length
      ({ funs := [(fname, body)] } :: C) := by
    refine ⟨by rw [hset]; simp, ?_⟩
    rw [hset]
    have hc2 : (s.cells ++ [({ parent := some p, funs := [(fname, (body, s.cells.length))] } : Cell)])[s.cells.length]? =
        some { parent := some p, funs := [(fname, (body, s.cells.length))] } := by simp
    rw [abs_cons hwf2 _ _ hc2]
    simp only
    rw [abs_append hwf2 p h.1]
    exact strip_cons_congr _ h.2
  rw [bind_run]
  show Post Q s ((regFun s.cells.length fname body s.cells.length >>= fun _ => k s.cells.length) (childCtx p s).2) r
  rw [bind_run]
  show Post Q s (k s.cells.length (regFun s.cells.length fname body s.cells.length (childCtx p s).2).2) r
  obtain ⟨hwf3, hle3, hr3⟩ := h2 _ _ (by rw [hset]; exact hwf2) ⟨_, hset⟩ hX
  exact ⟨hwf3, Ext.trans ⟨_, hset⟩ hle3, hr3⟩

/-! ### function lookup agrees -/

theorem alookup_map_fst {α β : Type} (g : α → β) (f : Name) : ∀ (l : List (Name × α)),
    alookup f (l.map fun p => (p.1, g p.2)) = (alookup f l).map g
  | [] => rfl
  | (k, v) :: r => by
    simp only [List.map, alookup]
    split
    · rfl
    · exact alookup_map_fst g f r

theorem alookup_mem {α : Type} (f : Name) : ∀ (l : List (Name × α)) (v : α), alookup f l = some v → (f, v) ∈ l
  | [], _, h => by cases h
  | (k, v') :: r, v, h => by
    simp only [alookup] at h
    split at h
    · rename_i hk
      simp only [Option.some.injEq] at h
      simp only [beq_iff_eq] at hk
      subst h; subst hk; simp
    · exact List.mem_cons_of_mem _ (alookup_mem f r v h)

/-- the store's lookup against the chain's: same body, and the captured ID denotes the suffix the chain returns -/
theorem getFunF_abs {cs : List Cell} (hwf : WF cs) (f : Name) : ∀ (fuel c : Nat), c < fuel →
    match getFunF cs f fuel c, Ctx.getFun (abs cs c) f with
    | none, none => True
    | some (b, d), some (b', D) => b = b' ∧ D = abs cs d ∧ d ≤ c ∧ d < cs.length
    | _, _ => False := by
  intro fuel
  induction fuel with
  | zero => intro c h; omega
  | succ fuel ih =>
    intro c hc
    simp only [getFunF]
    cases hcell : cs[c]? with
    | none =>
      have : abs cs c = [] := by simp [abs, absF, hcell]
      simp [this, Ctx.getFun]
    | some cell =>
      have hlen : c < cs.length := (List.getElem?_eq_some_iff.mp hcell).1
      rw [abs_cons hwf c cell hcell]
      simp only [Ctx.getFun, frameOfCell, alookup_map_fst]
      cases hl : alookup f cell.funs with
      | some bd =>
        obtain ⟨b, d⟩ := bd
        have hd : d = c := (hwf c cell hcell).2 f b d (alookup_mem f _ _ hl)
        subst hd
        simp only [Option.map_some]
        refine ⟨?_, ?_, Nat.le_refl _, hlen⟩
        · trivial
        · rw [abs_cons hwf d cell hcell]; rfl
      | none =>
        simp only [Option.map_none]
        cases hp : cell.parent with
        | none => simp [Ctx.getFun]
        | some p =>
          have hpc : p < c := (hwf c cell hcell).1 p hp
          have := ih p (by omega)
          simp only
          revert this
          cases getFunF cs f fuel p <;> cases Ctx.getFun (abs cs p) f <;> simp
          rename_i a b
          intro h1 h2 h3 h4
          exact ⟨h1, h2, by omega, h4⟩

theorem getFun_strip (f : Name) : ∀ (A : Ctx),
    Ctx.getFun (strip A) f = (Ctx.getFun A f).map fun p => (p.1, strip p.2)
  | [] => rfl
  | F :: A => by
    cases he : emptyFrame F with
    | true =>
      have hf : F.funs = [] := by
        simp only [emptyFrame, Bool.and_eq_true, List.isEmpty_iff] at he; exact he.2
      rw [strip_empty_cons F A he, getFun_strip f A]
      simp [Ctx.getFun, hf, alookup]
    | false =>
      have hs : strip (F :: A) = F :: strip A := by simp [strip, List.filter, he]
      rw [hs]
      simp only [Ctx.getFun]
      cases alookup f F.funs with
      | some b => simp [hs]
      | none => exact getFun_strip f A

theorem getFun_rel {s : St} {c : Nat} {C : Ctx} (hwf : WF s.cells) (h : CtxRel s c C) (f : Name) :
    match getFun s.cells c f, Ctx.getFun C f with
    | none, none => True
    | some (b, d), some (b', D) => b = b' ∧ CtxRel s d D
    | _, _ => False := by
  have h1 := getFunF_abs hwf f (c + 1) c (Nat.lt_succ_self c)
  have h2 : (Ctx.getFun (abs s.cells c) f).map (fun p => (p.1, strip p.2)) =
      (Ctx.getFun C f).map (fun p => (p.1, strip p.2)) := by
    rw [← getFun_strip, ← getFun_strip, h.2]
  unfold getFun
  revert h1 h2
  cases getFunF s.cells f (c + 1) c <;> cases Ctx.getFun (abs s.cells c) f <;> cases Ctx.getFun C f <;> simp
  rename_i a b c'
  intro hb hD _ hlen hb' hs
  exact ⟨by rw [hb, hb'], hlen, by rw [← hD]; exact hs⟩


/-! ### functions -/

theorem post_lazy_or {s : St} {o : ObjS} {o' : Obj} (ho : ObjRel s o o') (b : Err) (hwf : WF s.cells) :
    Post ObjRel s ((if isLazyS o then (fail .outOfDomain : M ObjS) else fail b) s)
      (if isLazy o' then .error .outOfDomain else .error b) := by
  rw [isLazyS_rel ho]
  by_cases hb : isLazy o' = true
  · rw [if_pos hb, if_pos hb]; exact post_fail _ hwf
  · rw [if_neg hb, if_neg hb]; exact post_fail _ hwf

theorem post_dataR {s : St} (x : R Obj) (hx : ∀ o, x = .ok o → ∀ C, o ≠ .ctx C) (hwf : WF s.cells) :
    Post ObjRel s (liftR (dataR x) s) x := by
  refine ⟨hwf, Ext.refl s, ?_⟩
  cases x with
  | ok o => exact ObjRel.data (s := s) (hx o rfl)
  | error e => rfl

theorem mkDict_notCtx (ps : KV) : ∀ o, mkDict ps = .ok o → ∀ C, o ≠ .ctx C := by
  intro o h C hc
  unfold mkDict at h
  split at h
  · cases h; cases hc
  · cases h

theorem mapM_listArg_rel {s : St} : ∀ {os : List ObjS} {os' : List Obj}, ObjsRel s os os' →
    (os.mapM fun o => listArg o.erase) = os'.mapM listArg
  | [], [], _ => rfl
  | a :: r, b :: r', h => by
    simp only [List.mapM_cons]
    rw [erase_rel h.1 obliv_listArg, mapM_listArg_rel h.2]
  | [], _ :: _, h => h.elim
  | _ :: _, [], h => h.elim

section
variable {evS : EvS} {ev : Ev} (hev : SimEv evS ev) (c : Nat) (C : Ctx) (s : St) (hwf : WF s.cells) (hC : CtxRel s c C)
include hev hwf hC

theorem sim_let (args : List Expr) (kw : List (Expr × Expr)) :
    Post ObjRel s (callFnS evS c .let_ args kw s) (callFn ev C .let_ args kw) := by
  unfold EvalStore.callFnS Eval.callFn
  simp only
  refine post_bind_eq (post_liftR _ hwf) (fun s1 names hwf1 hle1 => ?_)
  have hC1 := hC.mono hle1 hwf1
  refine post_bind_eq (sim_evalList hev c C args s1 hwf1 hC1) (fun s2 vs hwf2 hle2 => ?_)
  have hC2 := hC1.mono hle2 hwf2
  refine post_bind_eq (sim_evalList hev c C _ s2 hwf2 hC2) (fun s3 kvs hwf3 hle3 => ?_)
  have hC3 := hC2.mono hle3 hwf3
  refine post_child_data2 (DataWrite.publishPos 1 vs) (DataWrite.publishNamed (names.zip kvs)) hwf3 hC3
    (fun s4 X hwf4 _ hX => ?_)
  refine post_pure hwf4 ?_
  have e : argFrame vs (names.zip kvs) = { vars := bindNamed (bindNamed [] (bindPos 1 vs)) (names.zip kvs) } := by
    simp [argFrame, bindNamed_nil_bindPos]
  show CtxRel s4 X (argFrame vs (names.zip kvs) :: C)
  rw [e]; exact hX

theorem sim_with (args : List Expr) (kw : List (Expr × Expr)) :
    Post ObjRel s (callFnS evS c .with_ args kw s) (callFn ev C .with_ args kw) := by
  unfold EvalStore.callFnS Eval.callFn
  simp only
  refine post_ite (fun _ => ?_) (fun _ => ?_)
  · exact post_bind_eq (post_liftR _ hwf) (fun s1 _ hwf1 _ => post_fail _ hwf1)
  · refine post_bind_eq (sim_evalList hev c C args s hwf hC) (fun s1 vs hwf1 hle1 => ?_)
    refine post_child_data (DataWrite.publishPos 1 vs) hwf1 (hC.mono hle1 hwf1) (fun s2 X hwf2 _ hX => ?_)
    refine post_pure hwf2 ?_
    have e : argFrame vs [] = { vars := bindNamed [] (bindPos 1 vs) } := by
      simp [argFrame, bindNamed, bindNamed_nil_bindPos]
    show CtxRel s2 X (argFrame vs [] :: C)
    rw [e]; exact hX

theorem sim_def (args : List Expr) (kw : List (Expr × Expr)) :
    Post ObjRel s (callFnS evS c .def_ args kw s) (callFn ev C .def_ args kw) := by
  unfold EvalStore.callFnS Eval.callFn
  simp only
  refine post_ite (fun _ => post_fail _ hwf) (fun _ => ?_)
  rcases args with _ | ⟨nameE, _ | ⟨body, _ | ⟨x, rest⟩⟩⟩
  · exact post_fail _ hwf
  · exact post_fail _ hwf
  · refine post_bind (hev s c C nameE hwf hC) (fun s1 no no' hwf1 hle1 hno => ?_)
    have hC1 := hC.mono hle1 hwf1
    cases no with
    | ctx c1 =>
      cases no' with
      | ctx C1 => exact post_lazy_or hno _ hwf1
      | val v => simp [ObjRel] at hno
      | lazy a b => simp [ObjRel] at hno
      | ordered a b => simp [ObjRel] at hno
    | data d =>
      have hno' := hno
      obtain ⟨rfl, hn⟩ := hno
      cases d with
      | ctx C' => exact absurd rfl (hn C')
      | lazy a b => exact post_lazy_or hno' _ hwf1
      | ordered a b => exact post_lazy_or hno' _ hwf1
      | val v =>
        cases v with
        | str name =>
          refine post_child_reg hwf1 hC1 (fun s2 X hwf2 _ hX => ?_)
          exact post_pure hwf2 hX
        | _ => exact post_lazy_or hno' _ hwf1
  · exact post_fail _ hwf

theorem sim_listFn (args : List Expr) (kw : List (Expr × Expr)) :
    Post ObjRel s (callFnS evS c .list args kw s) (callFn ev C .list args kw) := by
  unfold EvalStore.callFnS Eval.callFn
  simp only
  refine post_ite (fun _ => post_fail _ hwf) (fun _ => ?_)
  refine post_bind (sim_evalObjs hev c C args s hwf hC) (fun s1 os os' hwf1 hle1 hos => ?_)
  refine post_child hwf1 (hC.mono hle1 hwf1) (fun s2 L hwf2 hle2 hL => ?_)
  refine post_child hwf2 hL (fun s3 Dl hwf3 hle3 hDl => ?_)
  refine post_child hwf3 hDl (fun s4 T hwf4 _ _ => ?_)
  rw [mapM_listArg_rel hos]
  exact post_bind_eq (post_liftR _ hwf4) (fun s5 parts hwf5 _ => post_pure hwf5 (ObjRel.val _))

theorem sim_dictFn (args : List Expr) (kw : List (Expr × Expr)) :
    Post ObjRel s (callFnS evS c .dict args kw s) (callFn ev C .dict args kw) := by
  unfold EvalStore.callFnS Eval.callFn
  simp only
  rcases args with _ | ⟨e, _ | ⟨x, rest⟩⟩
  · refine post_bind_eq (sim_evalPairs hev c C kw s hwf hC) (fun s1 ps hwf1 hle1 => ?_)
    refine post_child hwf1 (hC.mono hle1 hwf1) (fun s2 _ hwf2 _ _ => ?_)
    exact post_dataR _ (mkDict_notCtx ps) hwf2
  · cases kw with
    | cons p r => exact post_fail _ hwf
    | nil =>
      refine post_bind (hev s c C e hwf hC) (fun s1 o o' hwf1 hle1 ho => ?_)
      rw [toIterS_rel ho]
      cases toIter o' with
      | none => exact post_fail _ hwf1
      | some it =>
        refine post_child hwf1 (hC.mono hle1 hwf1) (fun s2 _ hwf2 _ _ => ?_)
        refine post_bind_eq (post_liftR _ hwf2) (fun s3 items hwf3 _ => ?_)
        refine post_bind_eq (post_liftR _ hwf3) (fun s4 ps hwf4 _ => ?_)
        exact post_dataR _ (mkDict_notCtx ps) hwf4
  · exact post_fail _ hwf


theorem sim_lenFn (args : List Expr) (kw : List (Expr × Expr)) :
    Post ObjRel s (callFnS evS c .len args kw s) (callFn ev C .len args kw) := by
  unfold EvalStore.callFnS Eval.callFn
  simp only
  refine post_ite (fun _ => post_fail _ hwf) (fun _ => ?_)
  rcases args with _ | ⟨recv, rest⟩
  · exact post_fail _ hwf
  · refine post_ite (fun _ => post_fail _ hwf) (fun _ => ?_)
    refine post_bind (hev s c C recv hwf hC) (fun s1 r r' hwf1 hle1 hr => ?_)
    exact sim_callMethod hev c C _ r r' s1 hwf1 (hC.mono hle1 hwf1) hr _ _

theorem sim_anyFn (args : List Expr) (kw : List (Expr × Expr)) :
    Post ObjRel s (callFnS evS c .any args kw s) (callFn ev C .any args kw) := by
  unfold EvalStore.callFnS Eval.callFn
  simp only
  refine post_ite (fun _ => post_fail _ hwf) (fun _ => ?_)
  rcases args with _ | ⟨recv, rest⟩
  · exact post_fail _ hwf
  · refine post_ite (fun _ => post_fail _ hwf) (fun _ => ?_)
    refine post_bind (hev s c C recv hwf hC) (fun s1 r r' hwf1 hle1 hr => ?_)
    exact sim_callMethod hev c C _ r r' s1 hwf1 (hC.mono hle1 hwf1) hr _ _

theorem sim_allFn (args : List Expr) (kw : List (Expr × Expr)) :
    Post ObjRel s (callFnS evS c .all args kw s) (callFn ev C .all args kw) := by
  unfold EvalStore.callFnS Eval.callFn
  simp only
  refine post_ite (fun _ => post_fail _ hwf) (fun _ => ?_)
  rcases args with _ | ⟨recv, rest⟩
  · exact post_fail _ hwf
  · refine post_ite (fun _ => post_fail _ hwf) (fun _ => ?_)
    refine post_bind (hev s c C recv hwf hC) (fun s1 r r' hwf1 hle1 hr => ?_)
    exact sim_callMethod hev c C _ r r' s1 hwf1 (hC.mono hle1 hwf1) hr _ _

/-- **functions**: every builtin, every argument list -/
theorem sim_callFn (f : Fn) (args : List Expr) (kw : List (Expr × Expr)) :
    Post ObjRel s (callFnS evS c f args kw s) (callFn ev C f args kw) := by
  cases f with
  | let_ => exact sim_let hev c C s hwf hC args kw
  | with_ => exact sim_with hev c C s hwf hC args kw
  | def_ => exact sim_def hev c C s hwf hC args kw
  | list => exact sim_listFn hev c C s hwf hC args kw
  | dict => exact sim_dictFn hev c C s hwf hC args kw
  | len => exact sim_lenFn hev c C s hwf hC args kw
  | any => exact sim_anyFn hev c C s hwf hC args kw
  | all => exact sim_allFn hev c C s hwf hC args kw
  | _ => unfold EvalStore.callFnS Eval.callFn; exact post_fail _ hwf

end

/-! ### member access -/

theorem memberNone_post (K : Nat) (C : Ctx) (s : St) (hwf : WF s.cells) (hK : CtxRel s K C) :
    Post QEq s (memberNoneS K s) (.error .unknownFunction : R Value) := by
  unfold EvalStore.memberNoneS
  refine post_child hwf hK (fun s3 Dt hwf3 _ hDt => ?_)
  refine post_child hwf3 hDt (fun s4 G hwf4 _ hG => ?_)
  exact post_child hwf4 hG (fun s5 _ hwf5 _ _ => post_fail _ hwf5)

mutual
/-- the projection of one element - of ANY kind, nested collections included: the store-passing run allocates
    the delegate child and the operator's call context per element (for a nested collection: the call context
    of the inner `collection_attribution`, under which the inner elements get theirs) and returns what `Eval`
    returns -/
theorem memberV_post (C : Ctx) (name : Name) : ∀ (x : Value) (K : Nat) (s : St), WF s.cells → CtxRel s K C →
    Post QEq s (memberVS K name x s) (memberV name x)
  | .dict d, K, s, hwf, hK => by
    rw [EvalStore.memberVS, Eval.memberV]
    refine post_child hwf hK (fun s3 Dt hwf3 _ hDt => ?_)
    refine post_child hwf3 hDt (fun s4 _ hwf4 _ _ => ?_)
    cases Seq.dGet d (.str name) with
    | some v => exact post_pure hwf4 rfl
    | none => exact post_fail _ hwf4
  | .tuple l, K, s, hwf, hK => by
    rw [EvalStore.memberVS, Eval.memberV]
    refine post_child hwf hK (fun s3 Dt hwf3 _ hDt => ?_)
    refine post_child hwf3 hDt (fun s4 K2 hwf4 _ hK2 => ?_)
    exact post_bind_eq (memberVL_post C name l K2 s4 hwf4 hK2) (fun s5 r hwf5 _ => post_liftR _ hwf5)
  | .list l, K, s, hwf, hK => by
    rw [EvalStore.memberVS, Eval.memberV]
    refine post_child hwf hK (fun s3 Dt hwf3 _ hDt => ?_)
    refine post_child hwf3 hDt (fun s4 K2 hwf4 _ hK2 => ?_)
    exact post_bind_eq (memberVL_post C name l K2 s4 hwf4 hK2) (fun s5 r hwf5 _ => post_liftR _ hwf5)
  | .iter l, K, s, hwf, hK => by
    rw [EvalStore.memberVS, Eval.memberV]
    refine post_child hwf hK (fun s3 Dt hwf3 _ hDt => ?_)
    refine post_child hwf3 hDt (fun s4 K2 hwf4 _ hK2 => ?_)
    exact post_bind_eq (memberVL_post C name l K2 s4 hwf4 hK2) (fun s5 r hwf5 _ => post_liftR _ hwf5)
  | .set _, K, s, hwf, hK => by rw [EvalStore.memberVS, Eval.memberV]; exact post_fail _ hwf
  | .null, K, s, hwf, hK => by rw [EvalStore.memberVS, Eval.memberV]; exact memberNone_post K C s hwf hK
  | .bool _, K, s, hwf, hK => by rw [EvalStore.memberVS, Eval.memberV]; exact memberNone_post K C s hwf hK
  | .int _, K, s, hwf, hK => by rw [EvalStore.memberVS, Eval.memberV]; exact memberNone_post K C s hwf hK
  | .flt _, K, s, hwf, hK => by rw [EvalStore.memberVS, Eval.memberV]; exact memberNone_post K C s hwf hK
  | .str _, K, s, hwf, hK => by rw [EvalStore.memberVS, Eval.memberV]; exact memberNone_post K C s hwf hK
  | .host _, K, s, hwf, hK => by rw [EvalStore.memberVS, Eval.memberV]; exact memberNone_post K C s hwf hK
theorem memberVL_post (C : Ctx) (name : Name) : ∀ (l : VL) (K : Nat) (s : St), WF s.cells → CtxRel s K C →
    Post QEq s (memberVSL K name l s) (Eval.memberVL name l)
  | [], K, s, hwf, hK => by rw [EvalStore.memberVSL, Eval.memberVL]; exact post_pure hwf rfl
  | x :: xs, K, s, hwf, hK => by
    rw [EvalStore.memberVSL, Eval.memberVL]
    refine post_bind_eq (post_capture (memberV_post C name x K s hwf hK)) (fun s1 r hwf1 hle1 => ?_)
    cases r with
    | error er => exact post_pure hwf1 rfl
    | ok v =>
      exact post_bind_eq (memberVL_post C name xs K s1 hwf1 (hK.mono hle1 hwf1)) (fun s2 r hwf2 _ => post_pure hwf2 rfl)
end

theorem memberV_fn (K : Nat) (C : Ctx) (name : Name) (s1 : St) (hK : CtxRel s1 K C) :
    SimFn s1 (memberVS K name) (memberV name) :=
  fun s2 x hwf2 hle2 => memberV_post C name x K s2 hwf2 (hK.mono hle2 hwf2)

theorem sim_memberOf (c : Nat) (C : Ctx) (s : St) (hwf : WF s.cells) (hC : CtxRel s c C) (r : ObjS) (r' : Obj)
    (hr : ObjRel s r r') (name : Name) :
    Post ObjRel s (memberOfS c r name s) (memberOf r' name) := by
  have other : ∀ (r : ObjS) (r' : Obj), ObjRel s r r' →
      Post ObjRel s
        ((match toIterS r with
          | some (items, err) => do
            let K ← childCtx c
            let s ← mapLS (memberVS K name) items err; pure (ObjS.data (.lazy s.1 s.2))
          | none => do
            let G ← childCtx c
            let _ ← childCtx G
            fail .unknownFunction : M ObjS) s)
        (match toIter r' with
          | some (items, err) => do let s ← mapL (memberV name) items err; pure (.lazy s.1 s.2)
          | none => .error .unknownFunction) := by
    intro r r' hr
    rw [toIterS_rel hr]
    cases toIter r' with
    | none =>
      refine post_child hwf hC (fun s1 G hwf1 _ hG => ?_)
      exact post_child hwf1 hG (fun s2 _ hwf2 _ _ => post_fail _ hwf2)
    | some it =>
      obtain ⟨items, err⟩ := it
      refine post_child hwf hC (fun s1 K hwf1 _ hK => ?_)
      exact post_bind_eq (sim_mapL (memberV_fn K C name s1 hK) items err s1 hwf1 (Ext.refl _))
        (fun s2 r hwf2 _ => post_pure hwf2 (ObjRel.lazy _ _))
  unfold EvalStore.memberOfS Eval.memberOf
  cases r with
  | ctx c1 =>
    cases r' with
    | ctx C1 => exact other _ _ hr
    | val v => simp [ObjRel] at hr
    | lazy a b => simp [ObjRel] at hr
    | ordered a b => simp [ObjRel] at hr
  | data d =>
    have hr' := hr
    obtain ⟨rfl, hn⟩ := hr
    cases d with
    | ctx C' => exact absurd rfl (hn C')
    | lazy a b => exact other _ _ hr'
    | ordered a b => exact other _ _ hr'
    | val v =>
      cases v with
      | dict d =>
        refine post_child hwf hC (fun s1 _ hwf1 _ _ => ?_)
        simp only
        cases Seq.dGet d (.str name) with
        | some v => exact post_pure hwf1 (ObjRel.val _)
        | none => exact post_fail _ hwf1
      | set l => exact post_fail _ hwf
      | _ => exact other _ _ hr'


/-! ### pure calls -/

/-- the result is never a context object -/
def NoCtx (r : R Obj) : Prop := ∀ o, r = .ok o → ∀ C, o ≠ .ctx C

theorem NoCtx.error (e : Err) : NoCtx (.error e) := fun _ h => by cases h
theorem NoCtx.val (v : Value) : NoCtx (.ok (.val v)) := fun _ h _ hc => by cases h; cases hc
theorem NoCtx.bind {x : R α} {f : α → R Obj} (h : ∀ a, NoCtx (f a)) : NoCtx (x >>= f) := by
  cases x with
  | error e => exact NoCtx.error e
  | ok a => exact h a

theorem indexer_noCtx (r : Obj) (vs : VL) : NoCtx (indexer r vs) := by
  unfold indexer
  repeat (first | exact NoCtx.error _ | exact NoCtx.val _ | (apply NoCtx.bind; intro _) | split)

theorem unop_noCtx (op : UnOp) (r : Obj) : NoCtx (unop op r) := by
  unfold unop
  repeat (first | exact NoCtx.error _ | exact NoCtx.val _ | split)

theorem binop_noCtx (op : BinOp) (x y : Obj) : NoCtx (binop op x y) := by
  unfold binop
  repeat (first | exact NoCtx.error _ | exact NoCtx.val _ | (apply NoCtx.bind; intro _) | split)

theorem sim_callPure_data {s : St} {c : Nat} {C : Ctx} (x : R Obj) (hx : NoCtx x) (hwf : WF s.cells) (hC : CtxRel s c C) :
    Post ObjRel s (callPure c (dataR x) s) x := by
  unfold EvalStore.callPure
  cases x with
  | ok o => exact post_child hwf hC (fun s1 _ hwf1 _ _ => post_pure hwf1 (ObjRel.data (hx o rfl)))
  | error e =>
    simp only [dataR]
    split
    · exact post_fail _ hwf
    · exact post_child hwf hC (fun s1 _ hwf1 _ _ => post_fail _ hwf1)

theorem binop_rel {s : St} {x y : ObjS} {x' y' : Obj} (hx : ObjRel s x x') (hy : ObjRel s y y') (op : BinOp) :
    binop op x.erase y.erase = binop op x' y' := by
  have h1 : binop op x.erase y.erase = binop op x' y.erase :=
    erase_rel hx (f := fun o => binop op o y.erase) (fun _ _ => by cases op <;> rfl)
  have h2 : binop op x' y.erase = binop op x' y' :=
    erase_rel hy (f := fun o => binop op x' o) (fun _ _ => by cases x' <;> cases op <;> rfl)
  rw [h1, h2]

theorem sim_readVar {s : St} {G : Nat} {C : Ctx} (x : Name) (hwf : WF s.cells) (hG : CtxRel s G C) :
    Post ObjRel s (readVarS G x s) (readVar C x) := by
  unfold EvalStore.readVarS Eval.readVar
  rw [getData_rel hG]
  cases Ctx.get C x with
  | none => exact ⟨hwf, Ext.refl s, ObjRel.val (s := s) _⟩
  | some v =>
    simp only
    split
    · exact ⟨hwf, Ext.refl s, rfl⟩
    · exact ⟨hwf, Ext.refl s, ObjRel.val (s := s) _⟩

/-! ### one layer of the evaluator -/

section
variable {evS : EvS} {ev : Ev} (hev : SimEv evS ev) (s : St) (c : Nat) (C : Ctx) (hwf : WF s.cells) (hC : CtxRel s c C)
include hev hwf hC

theorem sim_binStrict (op : BinOp) (a b : Expr) :
    Post ObjRel s
      ((if litOk op a && litOk op b then do
          let x ← evS c a; let y ← evS c b; callPure c (dataR (binop op x.erase y.erase))
        else (fail .noFunction : M ObjS)) s)
      (if litOk op a && litOk op b then do let x ← ev C a; let y ← ev C b; binop op x y
        else .error .noFunction) := by
  refine post_ite (fun _ => ?_) (fun _ => post_fail _ hwf)
  refine post_bind (hev s c C a hwf hC) (fun s1 x x' hwf1 hle1 hx => ?_)
  have hC1 := hC.mono hle1 hwf1
  refine post_bind (hev s1 c C b hwf1 hC1) (fun s2 y y' hwf2 hle2 hy => ?_)
  rw [binop_rel (hx.mono hle2 hwf2) hy]
  exact sim_callPure_data _ (binop_noCtx _ _ _) hwf2 (hC1.mono hle2 hwf2)

theorem sim_step_expr (e : Expr) : Post ObjRel s (stepS evS c e s) (step ev C e) := by
  cases e with
  | lit v => exact post_pure hwf (ObjRel.val _)
  | kw k => exact post_pure hwf (ObjRel.val _)
  | var x =>
    simp only [stepS, step]
    exact post_child hwf hC (fun s1 G hwf1 _ hG => sim_readVar x hwf1 hG)
  | list es =>
    simp only [stepS, step]
    refine post_bind_eq (sim_evalList hev c C es s hwf hC) (fun s1 vs hwf1 hle1 => ?_)
    exact post_child hwf1 (hC.mono hle1 hwf1) (fun s2 _ hwf2 _ _ => post_pure hwf2 (ObjRel.val _))
  | map kvs =>
    simp only [stepS, step]
    refine post_bind_eq (sim_evalPairs hev c C kvs s hwf hC) (fun s1 ps hwf1 hle1 => ?_)
    exact post_child hwf1 (hC.mono hle1 hwf1) (fun s2 _ hwf2 _ _ => post_dataR _ (mkDict_notCtx ps) hwf2)
  | index e args =>
    simp only [stepS, step]
    refine post_ite (fun _ => ?_) (fun _ => post_fail _ hwf)
    refine post_bind (hev s c C e hwf hC) (fun s1 r r' hwf1 hle1 hr => ?_)
    have hC1 := hC.mono hle1 hwf1
    refine post_bind_eq (sim_evalList hev c C args s1 hwf1 hC1) (fun s2 vs hwf2 hle2 => ?_)
    rw [erase_rel hr (obliv_indexer vs)]
    exact sim_callPure_data _ (indexer_noCtx _ _) hwf2 (hC1.mono hle2 hwf2)
  | un op e =>
    simp only [stepS, step]
    refine post_bind (hev s c C e hwf hC) (fun s1 r r' hwf1 hle1 hr => ?_)
    rw [erase_rel hr (obliv_unop op)]
    exact sim_callPure_data _ (unop_noCtx _ _) hwf1 (hC.mono hle1 hwf1)
  | bin op a b =>
    cases op with
    | and =>
      simp only [stepS, step]
      refine post_child hwf hC (fun s1 A hwf1 _ hA => ?_)
      refine post_child hwf1 hA (fun s2 A1 hwf2 hle2 hA1 => ?_)
      refine post_bind (hev s2 A1 C a hwf2 hA1) (fun s3 x x' hwf3 hle3 hx => ?_)
      rw [truthyS_rel hx]
      refine post_ite (fun _ => ?_) (fun _ => post_pure hwf3 hx)
      exact post_child hwf3 (hA.mono (hle2.trans hle3) hwf3) (fun s4 A2 hwf4 _ hA2 => hev s4 A2 C b hwf4 hA2)
    | or =>
      simp only [stepS, step]
      refine post_child hwf hC (fun s1 A hwf1 _ hA => ?_)
      refine post_child hwf1 hA (fun s2 A1 hwf2 hle2 hA1 => ?_)
      refine post_bind (hev s2 A1 C a hwf2 hA1) (fun s3 x x' hwf3 hle3 hx => ?_)
      rw [truthyS_rel hx]
      refine post_ite (fun _ => post_pure hwf3 hx) (fun _ => ?_)
      exact post_child hwf3 (hA.mono (hle2.trans hle3) hwf3) (fun s4 A2 hwf4 _ hA2 => hev s4 A2 C b hwf4 hA2)
    | _ => simp only [stepS, step]; exact sim_binStrict hev s c C hwf hC _ a b
  | arrow l r =>
    simp only [stepS, step]
    refine post_bind (hev s c C l hwf hC) (fun s1 c1 c1' hwf1 hle1 hc1 => ?_)
    cases c1 with
    | ctx X =>
      cases c1' with
      | ctx C' =>
        exact post_child hwf1 (hC.mono hle1 hwf1) (fun s2 _ hwf2 hle2 _ => hev s2 X C' r hwf2 (CtxRel.mono hc1 hle2 hwf2))
      | val v => simp [ObjRel] at hc1
      | lazy a b => simp [ObjRel] at hc1
      | ordered a b => simp [ObjRel] at hc1
    | data d =>
      obtain ⟨rfl, hn⟩ := hc1
      cases d with
      | ctx C' => exact absurd rfl (hn C')
      | _ => exact post_fail _ hwf1
  | member e name =>
    simp only [stepS, step]
    refine post_bind (hev s c C e hwf hC) (fun s1 r r' hwf1 hle1 hr => ?_)
    exact sim_memberOf c C s1 hwf1 (hC.mono hle1 hwf1) r r' hr name
  | call f args kw =>
    simp only [stepS, step]
    exact sim_callFn hev c C s hwf hC f args kw
  | ucall f args kw =>
    simp only [stepS, step]
    rw [bind_run]
    show Post ObjRel s ((match getFun s.cells c (fnKey f) with
      | none => fail .unknownFunction
      | some (body, D) => do
        let names ← liftR (kwNames kw)
        let vs ← evalListS evS c args
        let kvs ← evalListS evS c (kw.map (·.2))
        let _ ← childCtx c
        let V ← childCtx D
        publishPos V 1 vs
        publishNamed V (names.zip kvs)
        evS V body : M ObjS) s) _
    have hg := getFun_rel hwf hC (fnKey f)
    revert hg
    cases getFun s.cells c (fnKey f) <;> cases Ctx.getFun C (fnKey f) <;> simp only [] <;> intro hg
    · exact post_fail _ hwf
    · exact hg.elim
    · exact hg.elim
    · rename_i bd bD
      obtain ⟨body, D⟩ := bd
      obtain ⟨body', D'⟩ := bD
      obtain ⟨rfl, hD⟩ := hg
      refine post_bind_eq (post_liftR _ hwf) (fun s1 names hwf1 hle1 => ?_)
      have hC1 := hC.mono hle1 hwf1
      refine post_bind_eq (sim_evalList hev c C args s1 hwf1 hC1) (fun s2 vs hwf2 hle2 => ?_)
      have hC2 := hC1.mono hle2 hwf2
      refine post_bind_eq (sim_evalList hev c C _ s2 hwf2 hC2) (fun s3 kvs hwf3 hle3 => ?_)
      refine post_child hwf3 (hC2.mono hle3 hwf3) (fun s4 _ hwf4 hle4 _ => ?_)
      have hD4 : CtxRel s4 D D' := hD.mono (((hle1.trans hle2).trans hle3).trans hle4) hwf4
      refine post_child_data2 (DataWrite.publishPos 1 vs) (DataWrite.publishNamed (names.zip kvs)) hwf4 hD4
        (fun s5 V hwf5 _ hV => ?_)
      have e : argFrame vs (names.zip kvs) = { vars := bindNamed (bindNamed [] (bindPos 1 vs)) (names.zip kvs) } := by
        simp [argFrame, bindNamed_nil_bindPos]
      rw [e]
      exact hev s5 V _ body hwf5 hV
  | method e f args kw =>
    simp only [stepS, step]
    refine post_bind (hev s c C e hwf hC) (fun s1 r r' hwf1 hle1 hr => ?_)
    refine post_ite (fun _ => post_fail _ hwf1) (fun _ => ?_)
    refine post_child hwf1 (hC.mono hle1 hwf1) (fun s2 A hwf2 hle2 hA => ?_)
    refine post_child hwf2 hA (fun s3 A1 hwf3 hle3 hA1 => ?_)
    exact sim_callMethod hev A1 C _ r r' s3 hwf3 hA1 (hr.mono (hle2.trans hle3) hwf3) f args
  | umethod e f =>
    simp only [stepS, step]
    refine post_bind (hev s c C e hwf hC) (fun s1 r r' hwf1 hle1 hr => ?_)
    refine post_child hwf1 (hC.mono hle1 hwf1) (fun s2 A hwf2 _ hA => ?_)
    exact post_child hwf2 hA (fun s3 _ hwf3 _ _ => post_fail _ hwf3)

end

theorem sim_step {evS : EvS} {ev : Ev} (hev : SimEv evS ev) : SimEv (stepS evS) (step ev) :=
  fun s c C e hwf hC => sim_step_expr hev s c C hwf hC e

/-- the evaluators, every fuel -/
theorem sim_eval : ∀ n, SimEv (evalS n) (eval n)
  | 0 => fun s _ _ _ hwf _ => post_fail _ hwf
  | n + 1 => sim_step (sim_eval n)


/-! ### `#finalize`, `Statement.__call__`, `Statement.evaluate` -/

/-- the `#iter` delegate calls of the finaliser touch nothing the reference sees -/
theorem post_iterCalls {Q : St → γ → δ → Prop} {F : Nat} {C : Ctx} {k : M γ} {r : R δ} :
    ∀ (n : Nat) (s : St), WF s.cells → CtxRel s F C →
      (∀ s1, WF s1.cells → Ext s s1 → Post Q s1 (k s1) r) → Post Q s ((iterCalls F n >>= fun _ => k) s) r
  | 0, s, hwf, _, hk => by
    have : (iterCalls F 0 >>= fun _ => k) s = k s := rfl
    rw [this]; exact hk s hwf (Ext.refl s)
  | n + 1, s, hwf, hF, hk => by
    have e1 : iterCalls F (n + 1) = (childCtx F >>= fun D => childCtx D >>= fun _ => iterCalls F n) := rfl
    have e : (iterCalls F (n + 1) >>= fun _ => k) =
        (childCtx F >>= fun D => childCtx D >>= fun _ => (iterCalls F n >>= fun _ => k)) := by
      rw [e1, bind_assoc_M]
      all_goals (congr 1)
      all_goals (funext D; rw [bind_assoc_M])
    rw [e]
    refine post_child hwf hF (fun s1 D hwf1 hle1 hD => ?_)
    refine post_child hwf1 hD (fun s2 _ hwf2 hle2 _ => ?_)
    exact post_iterCalls n s2 hwf2 (hF.mono (hle1.trans hle2) hwf2)
      (fun s3 hwf3 hle3 => by
        obtain ⟨h1, h2, h3⟩ := hk s3 hwf3 ((hle1.trans hle2).trans hle3)
        exact ⟨h1, h2, h3⟩)

theorem post_rhs_eq {Q : St → α → β → Prop} {s : St} {x : Except Err α × St} {r r' : R β} (h : r = r')
    (hp : Post Q s x r') : Post Q s x r := h ▸ hp

theorem finalise_drain (o : Obj) (it : VL × Option Err) (h : toIter o = some it) (hn : ∀ C, o ≠ .ctx C) :
    (drain it >>= fun _ => finalise o) = finalise o := by
  have hf : finalise o = (do let xs ← drain it; if Seq.finOkL xs then pure (.data (.list xs)) else .error .type) := by
    cases o with
    | ctx C => exact absurd rfl (hn C)
    | val v => simp only [finalise, h]
    | lazy a b => simp only [finalise, h]
    | ordered a b => simp only [finalise, h]
  rw [hf]
  cases drain it <;> rfl

theorem sim_finalise {s : St} {F : Nat} {C : Ctx} (o : ObjS) (o' : Obj) (ho : ObjRel s o o') (hwf : WF s.cells)
    (hF : CtxRel s F C) : Post QEq s (finaliseS F o s) (finalise o') := by
  unfold EvalStore.finaliseS
  cases o with
  | ctx c =>
    cases o' with
    | ctx C' => exact post_pure hwf rfl
    | val v => simp [ObjRel] at ho
    | lazy a b => simp [ObjRel] at ho
    | ordered a b => simp [ObjRel] at ho
  | data d =>
    obtain ⟨rfl, hn⟩ := ho
    simp only
    cases hit : toIter d with
    | some it =>
      simp only
      refine post_iterCalls 1 s hwf hF (fun s1 hwf1 hle1 => ?_)
      refine post_iterCalls _ s1 hwf1 (hF.mono hle1 hwf1) (fun s2 hwf2 _ => ?_)
      refine post_rhs_eq (finalise_drain d it hit hn).symm ?_
      exact post_bind_eq (post_liftR _ hwf2) (fun s3 _ hwf3 _ => post_liftR _ hwf3)
    | none =>
      cases d with
      | ctx C' => exact absurd rfl (hn C')
      | val v =>
        simp only
        exact post_iterCalls _ s hwf hF (fun s1 hwf1 _ => post_liftR _ hwf1)
      | lazy a b => simp [toIter] at hit
      | ordered a b => simp [toIter] at hit

/-- `Statement.__call__`: the store-passing `#finalize(expression)` against the reference's `eval` + `finalise` -/
theorem sim_callS (fuel : Nat) (e : Expr) (s : St) (c : Nat) (C : Ctx) (hwf : WF s.cells) (hC : CtxRel s c C) :
    Post QEq s (callS fuel c e s) (eval fuel C e >>= finalise) := by
  unfold EvalStore.callS
  refine post_bind (sim_eval fuel s c C e hwf hC) (fun s1 o o' hwf1 hle1 ho => ?_)
  refine post_child hwf1 (hC.mono hle1 hwf1) (fun s2 F hwf2 hle2 hF => ?_)
  exact sim_finalise o o' (ho.mono hle2 hwf2) hwf2 hF

/-! ## the refinement theorems -/

/-- **The refinement at full strength**: for every fuel, expression, well-formed store and context ID whose chain is
    `C` up to frames that bind nothing, `evalS` and `Eval.eval` return the same value / the same error (a context
    object: an ID whose chain is the reference's, again up to such frames), and the store stays well-formed and
    only grows. -/
def refines_eval_full : Prop :=
  ∀ (n : Nat) (s : St) (c : Nat) (C : Ctx) (e : Expr), WF s.cells → CtxRel s c C →
    Post ObjRel s (evalS n c e s) (eval n C e)

/-- **refines_eval**: the full statement, proved (every construct of the fragment) -/
theorem refines_eval : refines_eval_full := fun n s c C e hwf hC => sim_eval n s c C e hwf hC

/-- ... spelled out for results that are data: same value, same error -/
theorem refines_eval_value (n : Nat) (s : St) (c : Nat) (C : Ctx) (e : Expr) (hwf : WF s.cells) (hC : CtxRel s c C) :
    (∀ o, eval n C e = .ok o → (∀ C', o ≠ .ctx C') → (evalS n c e s).1 = .ok (.data o)) ∧
    (∀ er, eval n C e = .error er → (evalS n c e s).1 = .error er) ∧
    (∀ er, (evalS n c e s).1 = .error er → eval n C e = .error er) := by
  obtain ⟨_, _, hr⟩ := sim_eval n s c C e hwf hC
  cases hS : (evalS n c e s).1 with
  | error er =>
    cases hE : eval n C e with
    | error er' =>
      rw [hS, hE] at hr
      simp only [ResRel] at hr
      subst hr
      exact ⟨fun o h => (by cases h), fun er h => (by cases h; rfl), fun er h => (by cases h; rfl)⟩
    | ok o => rw [hS, hE] at hr; exact hr.elim
  | ok a =>
    cases hE : eval n C e with
    | error er' => rw [hS, hE] at hr; exact hr.elim
    | ok b =>
      rw [hS, hE] at hr
      simp only [ResRel] at hr
      refine ⟨fun o h hn => ?_, fun er h => (by cases h), fun er h => (by cases h)⟩
      cases h
      cases a with
      | data d => rw [hr.1]
      | ctx X =>
        cases b with
        | ctx C' => exact absurd rfl (hn C')
        | val v => exact hr.elim
        | lazy x y => exact hr.elim
        | ordered x y => exact hr.elim

/-- the store a host hands to `evaluate`: context `c` is an empty child context under a chain that binds nothing
    (the builtins live outside the model) -/
def FreshCtx (s : St) (c : Nat) : Prop :=
  WF s.cells ∧ CtxRel s c [] ∧ ∃ cell, s.cells[c]? = some cell ∧ cell.data = [] ∧ cell.funs = []

/-- **refines_run**: `statement.evaluate(data=doc, context=c)` of the store-passing evaluator returns exactly what
    C04's `Eval.run` returns - every fuel, document, expression, every such store. -/
theorem refines_run (fuel : Nat) (doc : Value) (e : Expr) (s : St) (c : Nat) (h : FreshCtx s c) :
    (evaluateS fuel c doc e s).1 = Eval.run fuel doc e := by
  obtain ⟨hwf, hC, cell, hcell, hd, hf⟩ := h
  obtain ⟨cd, cf, cp⟩ := cell
  simp only at hd hf
  subst hd; subst hf
  have hs := setVar_cells c ['$'] doc s _ hcell
  have hwf1 : WF (setVar c ['$'] doc s).2.cells := by rw [hs]; exact hwf.set_data c _ hcell _
  obtain ⟨hlen, _⟩ := List.getElem?_eq_some_iff.mp hcell
  -- the chain of an older context does not see cell `c`
  have key : ∀ (newc : Cell) (f q : Nat), q < c → absF (s.cells.set c newc) f q = absF s.cells f q := by
    intro newc f
    induction f with
    | zero => intro q _; rfl
    | succ f ih =>
      intro q hq
      simp only [absF, List.getElem?_set_ne (Nat.ne_of_gt hq)]
      cases hq' : s.cells[q]? with
      | none => rfl
      | some cq =>
        simp only
        cases hpq : cq.parent with
        | none => rfl
        | some pq =>
          have : pq < q := (hwf q cq hq').1 pq hpq
          simp only
          rw [ih pq (by omega)]
  have hC1 : CtxRel (setVar c ['$'] doc s).2 c [{ vars := [(['$', '1'], doc)] }] := by
    refine ⟨by rw [hs]; simpa using hlen, ?_⟩
    rw [hs]
    rw [hs] at hwf1
    rw [abs_cons hwf1 c _ (List.getElem?_set_self hlen)]
    have h0 := hC.2
    rw [abs_cons hwf c _ hcell] at h0
    cases cp with
    | none => simp [strip, List.filter, emptyFrame, frameOfCell, aset, normName]
    | some p =>
      have hpc : p < c := (hwf c _ hcell).1 p rfl
      simp only at h0 ⊢
      have hp : abs (s.cells.set c { data := aset (normName ['$']) doc [], funs := [], parent := some p }) p =
          abs s.cells p := key _ _ p hpc
      rw [hp]
      have h1 : strip (abs s.cells p) = [] := by
        rw [strip_empty_cons _ _ (by rfl)] at h0; exact h0
      have hs1 : ∀ (F : Frame) (A : Ctx), emptyFrame F = false → strip (F :: A) = F :: strip A := by
        intro F A h; simp [strip, List.filter, h]
      rw [hs1 _ _ (by rfl), h1]
      rfl
  rw [show (evaluateS fuel c doc e s).1 = (callS fuel c e (setVar c ['$'] doc s).2).1 from by
    unfold EvalStore.evaluateS; rw [bind_run]; rfl]
  obtain ⟨_, _, hr⟩ := sim_callS fuel e _ c _ hwf1 hC1
  unfold Eval.run
  cases hS : (callS fuel c e (setVar c ['$'] doc s).2).1 with
  | error er =>
    cases hE : (eval fuel [{ vars := [(['$', '1'], doc)] }] e >>= finalise) with
    | error er' => rw [hS, hE] at hr; simp only [ResRel] at hr; rw [hr]
    | ok b => rw [hS, hE] at hr; exact hr.elim
  | ok a =>
    cases hE : (eval fuel [{ vars := [(['$', '1'], doc)] }] e >>= finalise) with
    | error er' => rw [hS, hE] at hr; exact hr.elim
    | ok b => rw [hS, hE] at hr; simp only [ResRel, QEq] at hr; rw [hr]

/-- non-vacuity: the driver's start store (root, child handed to `evaluate`) is such a store -/
example : FreshCtx { cells := [{}, { parent := some 0 }], log := [] } 1 := by
  refine ⟨?_, ⟨by decide, rfl⟩, { parent := some 0 }, rfl, rfl, rfl⟩
  intro i cell hi
  match i, hi with
  | 0, hi =>
    cases hi
    exact ⟨fun _ h => (by cases h), fun _ _ _ h => (by cases h)⟩
  | 1, hi =>
    cases hi
    exact ⟨fun p h => (by cases h; decide), fun _ _ _ h => (by cases h)⟩
  | n + 2, hi => cases hi

end Yaql.Props.EvalStore
