import Yaql.Gen.SrcYaqlized
import Yaql.Lemmas.PyPrelude
/-!
Equivalence of the definitions translated from the CURRENT source of `yaql/standard_library/yaqlized.py`
(`Yaql.Gen.SrcYaqlized`, regenerated on every run by harness/py2lean.py) with the hand-written model
`Yaql.Yaqlized` of C07 - for all inputs.
-/
namespace Yaql.Props.SrcYaqlized
open Yaql Yaql.Yaqlized Yaql.Gen

theorem match_name_to_entry_src_eq (name : List Char) (entry : Entry) :
    SrcYaqlized.match_name_to_entry name entry = Entry.matchesName entry name := by
  cases entry with
  | str s =>
    by_cases h : name = s <;>
      simp [SrcYaqlized.match_name_to_entry, Entry.matchesName, PyYq.eqName, PyYq.isRegex, PyYq.search,
        PyYq.isCallable, PyYq.call, h]
  | regex r =>
    simp [SrcYaqlized.match_name_to_entry, Entry.matchesName, PyYq.eqName, PyYq.isRegex, PyYq.search,
      PyYq.isCallable, PyYq.call]
  | table t =>
    simp [SrcYaqlized.match_name_to_entry, Entry.matchesName, PyYq.eqName, PyYq.isRegex, PyYq.search,
      PyYq.isCallable, PyYq.call]

/-- the translated matcher is the matcher of the `EntryLike Entry` instance -/
theorem match_fun_eq (name : List Char) :
    (fun e => SrcYaqlized.match_name_to_entry name e) = fun e => EntryLike.matchesName e name := by
  funext e
  exact match_name_to_entry_src_eq name e

theorem startsUnderscore_eq (name : List Char) :
    List.isPrefixOf ['_'] name = startsUnderscore name := by
  cases name with
  | nil => rfl
  | cons c r =>
    by_cases h : c = '_'
    · subst h
      simp [startsUnderscore, List.isPrefixOf]
    · have h' : ¬ '_' = c := fun e => h e.symm
      simp [startsUnderscore, List.isPrefixOf, h, h']

/-- `_validate_name` with the exception class of the model inside the translator's error enum -/
theorem validate_name_lift (name : List Char) (settings : Settings Entry) (exc : Yaqlized.Err) :
    SrcYaqlized.validate_name name settings (PyYq.liftErrClass exc)
      = PyYq.liftErr (validateName exc settings name) := by
  unfold SrcYaqlized.validate_name validateName
  simp only [startsUnderscore_eq, match_name_to_entry_src_eq, Lemmas.PyPrelude.forLoop_ret_if, anyMatch]
  by_cases hu : startsUnderscore name = true
  · simp [hu, PyYq.liftErr]
  · by_cases hw : settings.whitelist = []
    · by_cases hb : settings.blacklist = []
      · simp [hu, hw, hb, PyYq.liftErr, EntryLike.matchesName]
      · by_cases hany : (settings.blacklist.any fun e => Entry.matchesName e name) = true <;>
          simp [hu, hw, hb, hany, PyYq.liftErr, EntryLike.matchesName]
    · by_cases hany : (settings.whitelist.any fun e => Entry.matchesName e name) = true <;>
        simp [hu, hw, hany, PyYq.liftErr, EntryLike.matchesName]

/-- for any exception class: the outcome of the model, with that class in place of the model's -/
theorem validate_name_any (name : List Char) (settings : Settings Entry) (e : Py.Err) :
    SrcYaqlized.validate_name name settings e
      = (match validateName .keyError settings name with | .ok u => .ok u | .error _ => .error e) := by
  unfold SrcYaqlized.validate_name validateName
  simp only [startsUnderscore_eq, match_name_to_entry_src_eq, Lemmas.PyPrelude.forLoop_ret_if, anyMatch]
  by_cases hu : startsUnderscore name = true
  · simp [hu]
  · by_cases hw : settings.whitelist = []
    · by_cases hb : settings.blacklist = []
      · simp [hu, hw, hb, EntryLike.matchesName]
      · by_cases hany : (settings.blacklist.any fun e => Entry.matchesName e name) = true <;>
          simp [hu, hw, hb, hany, EntryLike.matchesName]
    · by_cases hany : (settings.whitelist.any fun e => Entry.matchesName e name) = true <;>
        simp [hu, hw, hany, EntryLike.matchesName]

theorem validate_name_src_eq (name : List Char) (settings : Settings Entry) (exception_cls : Py.Err) :
    SrcYaqlized.validate_name name settings exception_cls
      = match exception_cls with
        | .keyError => PyYq.liftErr (validateName .keyError settings name)
        | .attributeError => PyYq.liftErr (validateName .attributeError settings name)
        | e => (match validateName .keyError settings name with | .ok u => .ok u | .error _ => .error e) := by
  cases exception_cls
  case keyError => exact validate_name_lift name settings .keyError
  case attributeError => exact validate_name_lift name settings .attributeError
  all_goals exact validate_name_any name settings _

theorem lookup_eq_dictGet (n : Name) (d : List (Name × RemapTarget)) :
    Py.dictGet? d n = lookup n d := by
  induction d with
  | nil => rfl
  | cons p rest ih =>
    obtain ⟨k, v⟩ := p
    rw [Lemmas.PyPrelude.dictGet?_cons]
    simp [lookup, ih]

theorem remap_name_src_eq (name : List Char) (settings : Settings Entry) :
    SrcYaqlized.remap_name name settings = remapName settings name := by
  simp [SrcYaqlized.remap_name, remapName, Py.dictGetD, lookup_eq_dictGet]

end Yaql.Props.SrcYaqlized
