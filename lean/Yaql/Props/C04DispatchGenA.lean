import Yaql.Props.C04DispatchSite
/-!
C04 / C05 over the generated registry, part A: the operators.
Per call site `c` three kernel evaluations against `Gen/RegistryTypes.lean` (regenerated from the live
`yaql.create_context()` on every run):
* `obs_c`   the representatives the translator proposes (`repsOfCallee c`) look the same as the argument shapes they
            stand for to EVERY parameter type registered under the name, before and after evaluation;
* `inv_c`   `EvalDispatch.dispatchOf` answers every call shape of the fragment like its representative;
* `reps_c`  on the representatives, `dispatchOf` = `Resolve.resolve` on the generated overload family (live parameter
            types, class lattice, layers): same definition (python payload) or same error class, same arguments evaluated.
`Props/C04DispatchGen.lean` turns the three into the statement for every shape of the fragment (`Props/C04Dispatch.lean`:
`resolve_congr`).
-/
namespace Yaql.Props.C04DispatchGen
open Yaql Yaql.Eval Yaql.EvalDispatch Yaql.Gen.RegistryTypes

set_option maxRecDepth 1000000

theorem obs_bin_add : siteObs (.bin .add) = true := by decide +kernel
theorem inv_bin_add : siteInv (.bin .add) = true := by decide +kernel
theorem reps_bin_add : siteReps (.bin .add) = true := by decide +kernel

theorem obs_bin_sub : siteObs (.bin .sub) = true := by decide +kernel
theorem inv_bin_sub : siteInv (.bin .sub) = true := by decide +kernel
theorem reps_bin_sub : siteReps (.bin .sub) = true := by decide +kernel

theorem obs_bin_mul : siteObs (.bin .mul) = true := by decide +kernel
theorem inv_bin_mul : siteInv (.bin .mul) = true := by decide +kernel
theorem reps_bin_mul : siteReps (.bin .mul) = true := by decide +kernel

theorem obs_bin_eq : siteObs (.bin .eq) = true := by decide +kernel
theorem inv_bin_eq : siteInv (.bin .eq) = true := by decide +kernel
theorem reps_bin_eq : siteReps (.bin .eq) = true := by decide +kernel

theorem obs_bin_ne : siteObs (.bin .ne) = true := by decide +kernel
theorem inv_bin_ne : siteInv (.bin .ne) = true := by decide +kernel
theorem reps_bin_ne : siteReps (.bin .ne) = true := by decide +kernel

theorem obs_bin_lt : siteObs (.bin .lt) = true := by decide +kernel
theorem inv_bin_lt : siteInv (.bin .lt) = true := by decide +kernel
theorem reps_bin_lt : siteReps (.bin .lt) = true := by decide +kernel

theorem obs_bin_le : siteObs (.bin .le) = true := by decide +kernel
theorem inv_bin_le : siteInv (.bin .le) = true := by decide +kernel
theorem reps_bin_le : siteReps (.bin .le) = true := by decide +kernel

theorem obs_bin_gt : siteObs (.bin .gt) = true := by decide +kernel
theorem inv_bin_gt : siteInv (.bin .gt) = true := by decide +kernel
theorem reps_bin_gt : siteReps (.bin .gt) = true := by decide +kernel

theorem obs_bin_ge : siteObs (.bin .ge) = true := by decide +kernel
theorem inv_bin_ge : siteInv (.bin .ge) = true := by decide +kernel
theorem reps_bin_ge : siteReps (.bin .ge) = true := by decide +kernel

theorem obs_bin_and : siteObs (.bin .and) = true := by decide +kernel
theorem inv_bin_and : siteInv (.bin .and) = true := by decide +kernel
theorem reps_bin_and : siteReps (.bin .and) = true := by decide +kernel

theorem obs_bin_or : siteObs (.bin .or) = true := by decide +kernel
theorem inv_bin_or : siteInv (.bin .or) = true := by decide +kernel
theorem reps_bin_or : siteReps (.bin .or) = true := by decide +kernel

end Yaql.Props.C04DispatchGen
