import Yaql.Model.Eval
import Yaql.Gen.KwParams
/-!
# C04 - the keyword names in the reference interpreter are the ones of the live library

`Yaql.Gen.KwParams.rows` is regenerated on every run from `yaql.create_context()`: per builtin method of the
fragment the keyword each parameter after the receiver is passed by under the default convention
(`p.alias or p.name`: `keySelector`, `valueSelector`, `selector`, `predicate`, `seed` ..) and whether it is
evaluated lazily.  The hand-written `Yaql.Eval.kwParams` (what `Expr.positional` translates keyword
arguments with) is that table - a parameter renamed, re-ordered or made eager / lazy in the library breaks
this theorem.
-/
namespace Yaql.Props.C04Gen
open Yaql Yaql.Eval

theorem kwParams_live :
    Yaql.Gen.KwParams.rows = kwMethods.map (fun p => (p.1, kwParams p.2)) := by decide +kernel

/-- every row is a real translation table (no method of the list fell out because of a second overload) -/
theorem kwParams_total : ∀ p ∈ kwMethods, (kwParams p.2).isSome = true := by decide +kernel

/-- the multi-word parameters are spelled the way the convention spells them, not the way Python does -/
theorem kwParams_camel : kwParams .toDict = some [(['k', 'e', 'y', 'S', 'e', 'l', 'e', 'c', 't', 'o', 'r'], true),
    (['v', 'a', 'l', 'u', 'e', 'S', 'e', 'l', 'e', 'c', 't', 'o', 'r'], true)] := rfl

end Yaql.Props.C04Gen
