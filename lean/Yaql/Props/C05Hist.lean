import Yaql.Model.ResolveCtx
import Yaql.Props.C17
import Yaql.Props.C06
/-!
C05 on live contexts: resolution follows the family AS IT IS AT THE MOMENT OF THE CALL.

`Yaql.ResolveCtx.resolveAt` is the code-shaped call on a live context: the walk of
`collect_functions(name, predicate)` over the current cells, then `choose_overload`.

* `collectAtP_refines` - that walk returns, for every shape (plain, multi, linked) and every cell
  table, the kind-filtered overloads of each C17 layer from the nearest outward, empty layers
  dropped, stopping after a layer that is exclusive for the name (C17's `collect_refines` with the
  predicate of `runner.call`).
* `resolveAt_eq_layers` / `resolveIn_eq` - a call on a live context is `Resolve.resolve` (hence, by
  `C05.resolve_eq_spec`, the written rules) applied to the family that the context's layer list
  denotes at that moment.
* `resolve_history_independent` - any two histories (register / delete / create-child sequences, from any
  two starting states, seen from any two contexts) that end in the same visible family - layer by
  layer the same SET of overloads and the same exclusive flag - give the same outcome for every call:
  nothing but the current family matters.
* `register_elsewhere_invisible` / `delete_elsewhere_invisible` - a registration or deletion in a context
  whose cells are not on the chain of `s` (a descendant, a sibling) does not change any call from `s`.
* `family_plain` - seen from a plain context the family is its own cell's overloads and flag, followed by
  the family seen from its parent (so a registration in an ancestor IS seen, see the examples).
-/
namespace Yaql.Props.C05Hist
open Yaql.Context Yaql.ResolveCtx
open Yaql.Props.C17 (layers layersO ownLayer ownLayerL cellLayer)

abbrev RLayer := Yaql.Resolve.Layer

/-- the family of the name `n` that a C17 layer list denotes -/
def famOf (defs : Defs) (n : CName) (ls : List C17.Layer) : List RLayer :=
  ls.map fun l => { fns := (l.funcs n).map defs, exclusive := l.excl n }

/-- rule-shaped reference of the predicate walk -/
def collectSpecP (pred : Fid → Bool) (n : CName) : List C17.Layer → List (List Fid)
  | [] => []
  | l :: ls =>
      let rest := if l.excl n then [] else collectSpecP pred n ls
      let f := (l.funcs n).filter pred
      if f.isEmpty then rest else f :: rest

mutual
theorem collectAtP_refines (pred : Fid → Bool) (cs : Cells) (n : CName) :
    ∀ s, collectAtP pred cs n s = collectSpecP pred n (layers cs s)
  | .plain c p => by
      simp [collectAtP, layers, collectSpecP, cellLayer, collectFromP_refines pred cs n p]
  | .multi ms p => by
      simp [collectAtP, layers, collectSpecP, C17.getFunctionsL_own, collectFromP_refines pred cs n p]
  | .linked t p => by
      simp [collectAtP, layers, collectSpecP, C17.getFunctions_own, collectFromP_refines pred cs n p]
theorem collectFromP_refines (pred : Fid → Bool) (cs : Cells) (n : CName) :
    ∀ o, collectFromP pred cs n o = collectSpecP pred n (layersO cs o)
  | none => by simp [collectFromP, layersO, collectSpecP]
  | some s => by simp [collectFromP, layersO, collectAtP_refines pred cs n s]
end

/-- with the trivial predicate the walk is C17's `collectAt` -/
theorem collectSpecP_true (n : CName) : ∀ ls, collectSpecP (fun _ => true) n ls = C17.collectSpec n ls
  | [] => rfl
  | l :: ls => by
      have hf : (l.funcs n).filter (fun _ => true) = l.funcs n := List.filter_eq_self.mpr (by simp)
      simp only [collectSpecP, C17.collectSpec, collectSpecP_true n ls, hf]

theorem collectAtP_true (cs : Cells) (n : CName) (s : Shape) :
    collectAtP (fun _ => true) cs n s = collectAt cs n s := by
  rw [collectAtP_refines, C17.collectAt_refines, collectSpecP_true]

/-- the kind-filtered walk over identities, mapped to definitions, is `Resolve.collect` of the family -/
theorem collectSpecP_map (defs : Defs) (method : Bool) (n : CName) :
    ∀ ls, (collectSpecP (fun i => Yaql.Resolve.kindOk method (defs i)) n ls).map (·.map defs) =
      Yaql.Resolve.collect method (famOf defs n ls)
  | [] => rfl
  | l :: ls => by
      have ih := collectSpecP_map defs method n ls
      have hf : ((l.funcs n).map defs).filter (Yaql.Resolve.kindOk method) =
          ((l.funcs n).filter fun i => Yaql.Resolve.kindOk method (defs i)).map defs := by
        rw [List.filter_map]; rfl
      simp only [collectSpecP, famOf, List.map_cons, Yaql.Resolve.collect] at ih ⊢
      rw [hf]
      cases hx : l.excl n <;>
        cases he : ((l.funcs n).filter fun i => Yaql.Resolve.kindOk method (defs i)) <;>
        simp [ih]

/-- a call on a live context resolves as the model of C05 does on the family the context's
    layers denote at that moment -/
theorem resolveAt_eq_layers (L : Yaql.Types.Lattice) (defs : Defs) (cs : Cells) (s : Shape) (name : CName)
    (c : Yaql.Resolve.Call) :
    resolveAt L defs cs s name c =
      Yaql.Resolve.resolve L (famOf defs (rstripUnderscore name) (layers cs s)) c := by
  simp only [resolveAt, Yaql.Resolve.resolve, collectAtP_refines, collectSpecP_map]

/-- the family visible from context `i` of a state -/
def familyIn (defs : Defs) (st : St) (i : Nat) (name : CName) : List RLayer :=
  match st.ctx i with
  | some s => famOf defs (rstripUnderscore name) (layers st.cells s)
  | none => []

theorem resolveIn_eq (L : Yaql.Types.Lattice) (defs : Defs) (st : St) (i : Nat) (name : CName)
    (c : Yaql.Resolve.Call) :
    resolveIn L defs st i name c = Yaql.Resolve.resolve L (familyIn defs st i name) c := by
  unfold resolveIn familyIn
  cases st.ctx i with
  | none => simp [Yaql.Resolve.resolve, Yaql.Resolve.collect]
  | some s => exact resolveAt_eq_layers L defs st.cells s name c

/-- and therefore as the written rules prescribe for that family (C05.resolve_eq_spec) -/
theorem resolveIn_eq_spec (L : Yaql.Types.Lattice) (defs : Defs) (st : St) (i : Nat) (name : CName)
    (c : Yaql.Resolve.Call) :
    resolveIn L defs st i name c = C05.resolveSpec L (familyIn defs st i name) c := by
  rw [resolveIn_eq, C05.resolve_eq_spec]

/-- RESOLUTION IS A FUNCTION OF THE CURRENT FAMILY ONLY: two histories, from any two starting states and
    seen from any two contexts, that end in the same visible family (per layer the same set of overloads,
    in any enumeration order, and the same exclusive flag) give the same outcome for every call -/
theorem resolve_history_independent (L : Yaql.Types.Lattice) (defs : Defs) (st st' : St) (ops ops' : List Op)
    (i i' : Nat) (name : CName) (c : Yaql.Resolve.Call)
    (h : C06.LayersPerm (familyIn defs (run st' ops') i' name) (familyIn defs (run st ops) i name)) :
    resolveIn L defs (run st ops) i name c = resolveIn L defs (run st' ops') i' name c := by
  rw [resolveIn_eq, resolveIn_eq]
  exact C06.perm_invariant L c _ _ h

/-! ## what a later registration can and cannot change -/

mutual
/-- the cells a context reads when its functions are collected -/
def cellsOf : Shape → List Nat
  | .plain c p => c :: cellsOfO p
  | .multi ms p => cellsOfL ms ++ cellsOfO p
  | .linked t p => ownCells t ++ cellsOfO p
def cellsOfO : Option Shape → List Nat
  | none => []
  | some s => cellsOf s
def cellsOfL : List Shape → List Nat
  | [] => []
  | m :: ms => ownCells m ++ cellsOfL ms
/-- the cells behind the own (first) layer -/
def ownCells : Shape → List Nat
  | .plain c _ => [c]
  | .multi ms _ => cellsOfL ms
  | .linked t _ => ownCells t
end

mutual
theorem ownLayer_congr (cs cs' : Cells) :
    ∀ s, (∀ c ∈ ownCells s, cs.get c = cs'.get c) → ownLayer cs s = ownLayer cs' s
  | .plain c p => by intro h; simp [ownLayer, h c (by simp [ownCells])]
  | .multi ms p => by intro h; simp only [ownLayer]; exact ownLayerL_congr cs cs' ms (by simpa [ownCells] using h)
  | .linked t p => by intro h; simp only [ownLayer]; exact ownLayer_congr cs cs' t (by simpa [ownCells] using h)
theorem ownLayerL_congr (cs cs' : Cells) :
    ∀ ms, (∀ c ∈ cellsOfL ms, cs.get c = cs'.get c) → ownLayerL cs ms = ownLayerL cs' ms
  | [] => by intro _; rfl
  | m :: ms => by
      intro h
      simp only [ownLayerL]
      rw [ownLayer_congr cs cs' m (fun c hc => h c (by simp [cellsOfL, hc])),
        ownLayerL_congr cs cs' ms (fun c hc => h c (by simp [cellsOfL, hc]))]
end

mutual
theorem layers_congr (cs cs' : Cells) :
    ∀ s, (∀ c ∈ cellsOf s, cs.get c = cs'.get c) → layers cs s = layers cs' s
  | .plain c p => by
      intro h
      simp only [layers]
      rw [h c (by simp [cellsOf]), layersO_congr cs cs' p (fun c hc => h c (by simp [cellsOf, hc]))]
  | .multi ms p => by
      intro h
      simp only [layers]
      rw [ownLayerL_congr cs cs' ms (fun c hc => h c (by simp [cellsOf, hc])),
        layersO_congr cs cs' p (fun c hc => h c (by simp [cellsOf, hc]))]
  | .linked t p => by
      intro h
      simp only [layers]
      rw [ownLayer_congr cs cs' t (fun c hc => h c (by simp [cellsOf, hc])),
        layersO_congr cs cs' p (fun c hc => h c (by simp [cellsOf, hc]))]
theorem layersO_congr (cs cs' : Cells) :
    ∀ o, (∀ c ∈ cellsOfO o, cs.get c = cs'.get c) → layersO cs o = layersO cs' o
  | none => by intro _; rfl
  | some s => by intro h; simp only [layersO]; exact layers_congr cs cs' s (by simpa [cellsOfO] using h)
end

theorem get_register_ne (cs : Cells) (a : Shape) (fname : CName) (fid : Fid) (x : Bool) (c : Nat)
    (h : writeCell a ≠ some c) : (register cs a fname fid x).get c = cs.get c := by
  unfold register
  cases hw : writeCell a with
  | none => rfl
  | some w => exact C17.get_modify_ne cs w c _ (by rintro rfl; exact h hw)

/-- registering into a context whose written cell is not on the chain of `s` (a descendant of `s`, a
    sibling branch) changes no call made from `s` -/
theorem register_elsewhere_invisible (L : Yaql.Types.Lattice) (defs : Defs) (cs : Cells) (s a : Shape)
    (fname : CName) (fid : Fid) (x : Bool) (name : CName) (c : Yaql.Resolve.Call)
    (h : ∀ w, writeCell a = some w → w ∉ cellsOf s) :
    resolveAt L defs (register cs a fname fid x) s name c = resolveAt L defs cs s name c := by
  rw [resolveAt_eq_layers, resolveAt_eq_layers, layers_congr (register cs a fname fid x) cs s]
  intro k hk
  exact get_register_ne cs a fname fid x k (fun hw => h k hw hk)

theorem get_foldl_modify_notin (f : Cell → Cell) (k : Nat) : ∀ (l : List Nat) (cs : Cells), k ∉ l →
    (l.foldl (fun cs c => modifyCell cs c f) cs).get k = cs.get k
  | [], _, _ => rfl
  | c :: l, cs, h => by
      simp only [List.foldl_cons]
      rw [get_foldl_modify_notin f k l _ (fun hk => h (by simp [hk]))]
      exact C17.get_modify_ne cs c k f (by rintro rfl; exact h (by simp))

/-- the same for `delete_function` -/
theorem delete_elsewhere_invisible (L : Yaql.Types.Lattice) (defs : Defs) (cs : Cells) (s a : Shape)
    (fname : CName) (fid : Fid) (name : CName) (c : Yaql.Resolve.Call)
    (h : ∀ w ∈ delCells a, w ∉ cellsOf s) :
    resolveAt L defs (deleteFunction cs a fname fid) s name c = resolveAt L defs cs s name c := by
  rw [resolveAt_eq_layers, resolveAt_eq_layers, layers_congr (deleteFunction cs a fname fid) cs s]
  intro k hk
  exact get_foldl_modify_notin _ k _ cs (fun hm => h k hm hk)

/-- seen from a plain context the family is its own overloads and flag followed by the family seen from
    its parent: what is registered in an ancestor, whenever it was registered, is part of it -/
theorem family_plain (defs : Defs) (cs : Cells) (c : Nat) (p : Option Shape) (n : CName) :
    famOf defs n (layers cs (.plain c p)) =
      { fns := (cellFuncs (cs.get c) n).map defs, exclusive := (cs.get c).excl.contains n } ::
        famOf defs n (layersO cs p) := by
  simp [famOf, layers, cellLayer]

/-! ## non-vacuity: the three-step histories that a remembered lookup gets wrong -/
namespace Ex
open Yaql.Types Yaql.Resolve Yaql.Props.C05.Ex

/-- `f(x: Base)` is overload 0, `f(x: D)` overload 1, `f(x: str)` overload 2 -/
def defs : Defs := fun i =>
  match i with
  | 0 => fn 0 [pos 'x' 0 (cls 1)]
  | 1 => fn 1 [pos 'x' 0 (cls 4)]
  | _ => fn 2 [pos 'x' 0 (cls 5)]

def callD : Call := { receiver := none, args := [tick 1], kwargs := [] }
def f : CName := ['f']

/-- root <- mid <- leaf -/
def st0 : St := run {} [.root, .child 0, .child 1]

inductive Out where
  | ok (id : Nat)
  | error (e : Err)
deriving DecidableEq

def outcome (st : St) (i : Nat) : Out :=
  match (resolveIn lat defs st i f callD).res with
  | .ok (id, _) => .ok id
  | .error e => .error e

/-- unknown, then registered in the root afterwards: the leaf sees it -/
example : outcome st0 2 = .error .unknown ∧
    outcome (run st0 [.register 0 f 0 false]) 2 = .ok 0 := by decide

/-- a nearer layer registered after the first call wins; a more specific overload added to an ancestor's
    layer wins inside it; deleting it gives the layer back to the other overload -/
example : outcome (run st0 [.register 0 f 0 false]) 2 = .ok 0 ∧
    outcome (run st0 [.register 0 f 0 false, .register 1 f 1 false]) 2 = .ok 1 ∧
    outcome (run st0 [.register 0 f 0 false, .register 0 f 1 false]) 2 = .ok 1 ∧
    outcome (run st0 [.register 0 f 0 false, .register 0 f 1 false, .delete 0 f 1]) 2 = .ok 0 := by decide

/-- an exclusive layer registered later hides the outer layers; a registration in a descendant does not
    reach the ancestor -/
example : outcome (run st0 [.register 0 f 0 false, .register 1 f 2 true]) 2 = .error .noMatching ∧
    outcome (run st0 [.register 2 f 0 false]) 1 = .error .unknown := by decide

/-- two different histories, one visible family, one outcome (`resolve_history_independent`) -/
example : C06.LayersPerm
    (familyIn defs (run st0 [.register 0 f 1 false, .register 0 f 0 false]) 2 f)
    (familyIn defs (run st0 [.register 0 f 0 false, .register 1 f 2 false, .register 0 f 1 false,
      .delete 1 f 2]) 2 f) := by
  refine .cons (.refl _) rfl (.cons (.refl _) rfl (.cons ?_ rfl .nil))
  exact List.Perm.swap _ _ _

end Ex

end Yaql.Props.C05Hist
