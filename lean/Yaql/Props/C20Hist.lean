import Yaql.Model.DateTimeHist
import Yaql.Props.C20
/-!
C20 under statement reuse: the C20 operators are functions of their operands only, whatever the same
expression node was evaluated with before.

* `history_independent`, `history_getElem` - with the code's node (no per-node state) the k-th result of any
  history of evaluations of one node is `evalOp` of the k-th operand pair alone; `history_compare_instants`:
  hence, at every position of every history where both operands are datetimes, `= != < <= > >=` are the
  comparisons of the instants (zone or not) - `C20.compare_instants` carried over histories;
  `history_add_sub`: the same for `d + t` / `t + d` / `d - t` / `d2 - d1`;
* `lastWinner_breaks_equality`, `lastWinner_breaks_rows` - a node that remembers its last overload and reuses it
  whenever it still accepts the arguments is NOT history independent for `=` / `!=`: after two timespans (or a
  null row) a zoneless datetime and an aware one for the same instant compare unequal;
* `lastWinner_exact` - the exact condition under which such a memo is harmless: every overload that accepts the
  operands is the one resolution would choose (`Exact`); it holds for the orderings, `+` and `-`
  (`exact_of_not_equality`), and fails for `=` / `!=` (`not_exact_eq`) because the untyped overload accepts
  everything.
-/
namespace Yaql.Props.C20
open Yaql.DateTime Yaql.DateTimeHist

/-! ## history independence of the code's node -/

theorem evalSite_off (cfg : Cfg) (site : Site) (op : Op2) (a b : Operand) :
    evalSite cfg .off site op a b = (site, evalOp cfg op a b) := rfl

/-- **C20 under reuse.**  The results of a node over ANY history of operand pairs, from ANY node state, are the
    results of the pairs evaluated alone. -/
theorem history_independent (cfg : Cfg) (op : Op2) (site : Site) (h : List (Operand × Operand)) :
    runHistory cfg .off op site h = h.map fun ab => evalOp cfg op ab.1 ab.2 := by
  induction h generalizing site with
  | nil => rfl
  | cons ab rest ih =>
      obtain ⟨a, b⟩ := ab
      simp only [runHistory, evalSite_off, List.map_cons, ih]

theorem history_getElem (cfg : Cfg) (op : Op2) (site : Site) (h : List (Operand × Operand)) (k : Nat) :
    (runHistory cfg .off op site h)[k]? = (h[k]?).map fun ab => evalOp cfg op ab.1 ab.2 := by
  rw [history_independent, List.getElem?_map]

/-- what came before and what comes after does not matter -/
theorem history_context_free (cfg : Cfg) (op : Op2) (site site' : Site) (pre pre' post post' : List (Operand × Operand))
    (a b : Operand) :
    (runHistory cfg .off op site (pre ++ (a, b) :: post))[pre.length]? =
      (runHistory cfg .off op site' (pre' ++ (a, b) :: post'))[pre'.length]? := by
  simp [history_getElem]

theorem history1_independent (cfg : Cfg) (host : Int) (op : Op1) (h : List Operand) (k : Nat) :
    (runHistory1 cfg host op h)[k]? = (h[k]?).map (evalOp1 cfg host op) := by
  simp [runHistory1]

/-! ## what one evaluation is, for two datetimes -/

theorem select_dtdt_cmp (op : CmpOp) (x y : DT) : select declared (.cmp op) (.dt x) (.dt y) = some .dtdt := by
  cases op <;> rfl

theorem evalOp_dtdt_cmp (op : CmpOp) (x y : DT) :
    evalOp declared (.cmp op) (.dt x) (.dt y) = lift .bool (dtCmp op .conv .conv x y) := by
  simp only [evalOp, select_dtdt_cmp]
  cases op <;> rfl

/-- **C20.compare_instants over histories.**  At every position of every history of one `=`, `!=`, `<`, `<=`,
    `>`, `>=` node where both operands are datetimes with legal offsets, the result is the comparison of the
    instants (a value without zone = the same wall clock at UTC) - whatever kinds of operands the node saw
    before. -/
theorem history_compare_instants (op : CmpOp) (site : Site) (h : List (Operand × Operand)) (k : Nat) (x y : DT)
    (hk : h[k]? = some (.dt x, .dt y)) (hx : offOk x) (hy : offOk y) :
    (runHistory declared .off (.cmp op) site h)[k]? = some (.ok (.bool (cmpInt op (instant x) (instant y)))) := by
  rw [history_getElem, hk]
  simp only [Option.map_some, evalOp_dtdt_cmp, (compare_instants op x y).1 hx hy, lift]

/-- `+` and `-` over histories: the typed overloads, with the conversion of a zoneless value -/
theorem history_add_sub (site : Site) (h : List (Operand × Operand)) (k : Nat) (d e : DT) (t : Int) :
    (h[k]? = some (.dt d, .ts t) →
      (runHistory declared .off .plus site h)[k]? = some (lift .dt (dtPlusTs .conv d t)) ∧
      (runHistory declared .off .minus site h)[k]? = some (lift .dt (dtMinusTs .conv d t))) ∧
    (h[k]? = some (.ts t, .dt d) →
      (runHistory declared .off .plus site h)[k]? = some (lift .dt (tsPlusDt .conv t d))) ∧
    (h[k]? = some (.dt d, .dt e) →
      (runHistory declared .off .minus site h)[k]? = some (lift .ts (dtMinusDt .conv .conv d e))) := by
  refine ⟨fun hk => ⟨?_, ?_⟩, fun hk => ?_, fun hk => ?_⟩ <;> rw [history_getElem, hk] <;> rfl

/-! ## a node that remembers its last overload -/

/-- 2021-03-04 12:30:15.000250 without zone -/
def exNaive : DT := ⟨63750457815000250, none⟩
/-- the same instant at +04:45 -/
def exAware : DT := ⟨63750457815000250 + 17100000000, some 17100000000⟩

example : instant exNaive = instant exAware := by decide
example : offOk exNaive ∧ offOk exAware := by simp [offOk_iff, exNaive, exAware]; decide

/-- alone: equal (the property) -/
example : evalOp declared (.cmp .eq) (.dt exNaive) (.dt exAware) = .ok (.bool true) := by decide

/-- **the call-site memo breaks `=`.**  The same node first compares two timespans (the untyped overload wins),
    then the zoneless datetime with the aware one for the same instant: the remembered untyped overload still
    "accepts" them, python `==` on the raw values says unequal.  Without the memo the history gives `true`. -/
theorem lastWinner_breaks_equality :
    runHistory declared .lastWinner (.cmp .eq) {} [(.ts 5, .ts 5), (.dt exNaive, .dt exAware)] =
      [.ok (.bool true), .ok (.bool false)] ∧
    runHistory declared .off (.cmp .eq) {} [(.ts 5, .ts 5), (.dt exNaive, .dt exAware)] =
      [.ok (.bool true), .ok (.bool true)] ∧
    runHistory declared .lastWinner (.cmp .ne) {} [(.int 1, .int 1), (.dt exAware, .dt exNaive)] =
      [.ok (.bool false), .ok (.bool true)] := by decide

/-- inside ONE evaluation: `$rows.select($ = $ref)` over a column with a missing value -/
theorem lastWinner_breaks_rows :
    runHistory declared .lastWinner (.cmp .eq) {}
        [(.dt exNaive, .dt exAware), (.null, .dt exAware), (.dt exNaive, .dt exAware)] =
      [.ok (.bool true), .ok (.bool false), .ok (.bool false)] ∧
    runHistory declared .off (.cmp .eq) {}
        [(.dt exNaive, .dt exAware), (.null, .dt exAware), (.dt exNaive, .dt exAware)] =
      [.ok (.bool true), .ok (.bool false), .ok (.bool true)] := by decide

/-- every overload that accepts the operands is the one full resolution chooses -/
def Exact (cfg : Cfg) (op : Op2) : Prop :=
  ∀ ov a b, accepts cfg ov op a b = true → select cfg op a b = some ov

theorem select_accepts (cfg : Cfg) (op : Op2) (a b : Operand) (ov : Ov) (h : select cfg op a b = some ov) :
    accepts cfg ov op a b = true := by
  simp only [select] at h
  cases hf : typedOvs.find? (fun ov => accepts cfg ov op a b) with
  | some ov' =>
      simp only [hf, Option.some.injEq] at h
      subst h
      simpa using List.find?_some hf
  | none =>
      simp only [hf] at h
      split at h
      · simp only [Option.some.injEq] at h
        subst h
        assumption
      · cases h

theorem evalSite_lastWinner_exact (cfg : Cfg) (op : Op2) (hex : Exact cfg op) (site : Site) (a b : Operand) :
    (evalSite cfg .lastWinner site op a b).2 = evalOp cfg op a b := by
  simp only [evalSite, evalOp]
  cases hl : site.last with
  | none => cases select cfg op a b <;> rfl
  | some ov =>
      by_cases hacc : accepts cfg ov op a b = true
      · simp only [hacc, if_true, hex ov a b hacc]
      · simp only [hacc]
        cases select cfg op a b <;> rfl

/-- **when the memo is harmless.**  If every accepting overload is the resolved one, the remembering node is
    history independent too. -/
theorem lastWinner_exact (cfg : Cfg) (op : Op2) (hex : Exact cfg op) (site : Site) (h : List (Operand × Operand)) :
    runHistory cfg .lastWinner op site h = h.map fun ab => evalOp cfg op ab.1 ab.2 := by
  induction h generalizing site with
  | nil => rfl
  | cons ab rest ih =>
      obtain ⟨a, b⟩ := ab
      simp only [runHistory, List.map_cons, ih, evalSite_lastWinner_exact cfg op hex]

/-- the orderings, `+` and `-` are exact: their overloads have disjoint parameter types (at most one accepts) -/
theorem exact_of_not_equality (cfg : Cfg) (op : Op2) (h : ∀ c, op = .cmp c → CmpOp.isEquality c = false) :
    Exact cfg op := by
  intro ov a b hacc
  cases op with
  | cmp c =>
      have hc := h c rfl
      cases ov <;> cases a <;> cases b <;>
        simp_all [accepts, select, typedOvs, Operand.isNull, List.find?]
  | plus =>
      cases ov <;> cases a <;> cases b <;>
        simp_all [accepts, select, typedOvs, Operand.isNull, List.find?]
  | minus =>
      cases ov <;> cases a <;> cases b <;>
        simp_all [accepts, select, typedOvs, Operand.isNull, List.find?]

/-- so a remembering node is harmless for `<`, `<=`, `>`, `>=`, `+`, `-` ... -/
theorem lastWinner_orderings (cfg : Cfg) (c : CmpOp) (hc : CmpOp.isEquality c = false) (site : Site)
    (h : List (Operand × Operand)) :
    runHistory cfg .lastWinner (.cmp c) site h = h.map fun ab => evalOp cfg (.cmp c) ab.1 ab.2 :=
  lastWinner_exact cfg _ (exact_of_not_equality cfg _ (by intro c' e; cases e; exact hc)) site h

/-- `=` is not exact: the untyped overload accepts two datetimes, resolution chooses the typed one -/
theorem not_exact_eq : ¬ Exact declared (.cmp .eq) ∧ ¬ Exact declared (.cmp .ne) := by
  constructor <;> intro h
  · have := h .generic (.dt exNaive) (.dt exAware) rfl
    exact absurd this (by decide)
  · have := h .generic (.dt exNaive) (.dt exAware) rfl
    exact absurd this (by decide)

end Yaql.Props.C20
