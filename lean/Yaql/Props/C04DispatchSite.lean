import Yaql.Gen.RegistryTypes
/-! the three per-site checks of `Props/C04DispatchGen*.lean` -/
namespace Yaql.Props.C04DispatchGen
open Yaql Yaql.Eval Yaql.EvalDispatch Yaql.Gen.RegistryTypes

def siteObs (c : Callee) : Bool := (repsOfCallee c).obsOk univ (groupOfCallee c)
def siteInv (c : Callee) : Bool := (patterns c).all fun p => p.invOk c (repsOfCallee c)
def siteReps (c : Callee) : Bool := (patterns c).all fun p => p.repsOk univ (groupOfCallee c) c (repsOfCallee c)

end Yaql.Props.C04DispatchGen
