import Yaql.Model.HostHistory
import Yaql.Props.C10
/-!
C10 under host reuse: the round trip holds for the document AS IT IS NOW.

`Props/C10.lean: roundtrip` is about values (`convOut o none (convIn d) = ok (canon o d)`).  Here the host keeps one
document object over a history of operations (`Model/HostHistory.lean`): it changes the document in place, replaces
it, evaluates `$` with engines of any options (same statement object or another - no difference: nothing an evaluation
could write to), binds contexts with `create_context(data=doc)` and evaluates through them.  `history_spec`: for every
history, every `evaluate` returns the finalised conversion of the document at THAT time, every evaluation through a
bound context the finalised conversion of the document at BIND time, under the options of the evaluating engine;
`roundtrip_history` adds C10's round trip: these are `canon o (document at that time)`.  `memo_breaks_roundtrip`: the
design in which a statement remembers its last input does not satisfy this (a three-step history).
-/
namespace Yaql.Props.C10
open Yaql.Convert Yaql.HostHistory

theorem run_getElem : ∀ (ops : List Op) (st : St) (t : Nat),
    (run st ops)[t]? = (ops[t]?).map fun op => (step (stateAfter st (ops.take t)) op).2
  | [], _, _ => by simp [run]
  | op :: r, st, 0 => by simp [run, stateAfter]
  | op :: r, st, t + 1 => by
      simp only [run, List.getElem?_cons_succ, List.take_succ_cons, stateAfter]
      exact run_getElem r (step st op).1 t

theorem stateAfter_doc : ∀ (pre : List Op) (st : St), (stateAfter st pre).doc = docAfter st.doc pre
  | [], _ => rfl
  | op :: r, st => by
      simp only [stateAfter]
      rw [stateAfter_doc r]
      cases op <;> rfl

theorem stateAfter_bound : ∀ (pre : List Op) (st : St),
    (stateAfter st pre).bound = st.bound ++ (bindDocs st.doc pre).map convIn
  | [], st => by simp [stateAfter, bindDocs]
  | op :: r, st => by
      simp only [stateAfter]
      rw [stateAfter_bound r]
      cases op <;> simp [step, bindDocs]

theorem bindDocs_times : ∀ (pre : List Op) (d : Py),
    bindDocs d pre = (bindTimes pre).map fun tb => docAfter d (pre.take tb)
  | [], _ => rfl
  | op :: r, d => by
      cases op <;>
        simp [bindDocs, bindTimes, bindDocs_times r, List.map_map, Function.comp_def, docAfter]

theorem bindTimes_lt : ∀ (pre : List Op), ∀ tb ∈ bindTimes pre, tb < pre.length
  | [], _, h => by simp [bindTimes] at h
  | op :: r, tb, h => by
      have ih := bindTimes_lt r
      cases op <;> simp only [bindTimes, List.mem_cons, List.mem_map] at h
      case bind =>
        rcases h with rfl | ⟨a, ha, rfl⟩
        · simp
        · have := ih a ha; simp; omega
      all_goals
        obtain ⟨a, ha, rfl⟩ := h
        have := ih a ha; simp; omega

/-- **C10.history_spec** (all initial documents, all histories of any length, all option sets): what each
    operation of the history hands back is a function of the document as it is at that time (for `evaluate`), resp.
    of the document as it was when the context was bound (for `evalBound`), and of the options of the engine that
    evaluates - nothing else: not of earlier evaluations, not of the identity of the document object, not of earlier
    contents. -/
theorem history_spec (d0 : Py) (id nx : Nat) (ops : List Op) (t : Nat) :
    (∀ ci o, ops[t]? = some (.evaluate ci o) →
      (run ⟨d0, id, nx, []⟩ ops)[t]? = some (some (finalize o (bindValue ci (docAt d0 ops t))))) ∧
    (∀ i o tb, ops[t]? = some (.evalBound i o) → (bindTimes (ops.take t))[i]? = some tb →
      tb < t ∧ (run ⟨d0, id, nx, []⟩ ops)[t]? = some (some (finalize o (convIn (docAt d0 ops tb))))) ∧
    (∀ i o, ops[t]? = some (.evalBound i o) → (bindTimes (ops.take t))[i]? = none →
      (run ⟨d0, id, nx, []⟩ ops)[t]? = some none) := by
  refine ⟨?_, ?_, ?_⟩
  · intro ci o h
    rw [run_getElem, h]
    simp only [Option.map_some, step, stateAfter_doc, docAt]
  · intro i o tb h hb
    have hlt : tb < (ops.take t).length := bindTimes_lt _ tb (List.mem_of_getElem? hb)
    have hlt' : tb < t := by simp at hlt; omega
    refine ⟨hlt', ?_⟩
    rw [run_getElem, h]
    simp only [Option.map_some, step, stateAfter_bound, List.nil_append, bindDocs_times, List.map_map,
      List.getElem?_map, hb, Function.comp_def, docAt, List.take_take]
    rw [Nat.min_eq_left (Nat.le_of_lt hlt')]
  · intro i o h hb
    rw [run_getElem, h]
    simp only [Option.map_some, step, stateAfter_bound, List.nil_append, bindDocs_times, List.map_map,
      List.getElem?_map, hb, Option.map_none]

/-- **C10.roundtrip_history**: the round trip along any host history.  Every `evaluate` (input conversion on) of a
    document that is, at that time, a round-trippable document (`docX`: JSON-like documents and tuples / sets /
    generators of such, see `roundtrip` / `docX_of_ext`) returns `canon o (the document at that time)`; every
    evaluation through a context bound at time `tb` returns `canon o (the document at time tb)` - the OLD content when
    the host changed the document afterwards: binding converts at bind time - under the options `o` of the engine
    that evaluates, each time. -/
theorem roundtrip_history (d0 : Py) (id nx : Nat) (ops : List Op) (t : Nat) :
    (∀ o, ops[t]? = some (.evaluate true o) → docX o (docAt d0 ops t) = true →
      (run ⟨d0, id, nx, []⟩ ops)[t]? = some (some (.ok (canon o (docAt d0 ops t))))) ∧
    (∀ i o tb, ops[t]? = some (.evalBound i o) → (bindTimes (ops.take t))[i]? = some tb →
      docX o (docAt d0 ops tb) = true →
      (run ⟨d0, id, nx, []⟩ ops)[t]? = some (some (.ok (canon o (docAt d0 ops tb))))) := by
  obtain ⟨h1, h2, _⟩ := history_spec d0 id nx ops t
  refine ⟨?_, ?_⟩
  · intro o h hx
    rw [h1 true o h]
    simp only [finalize, bindValue, if_true, roundtrip_ext o _ hx]
  · intro i o tb h hb hx
    rw [(h2 i o tb h hb).2]
    simp only [finalize, roundtrip_ext o _ hx]

/-- ... and with JSON-like documents throughout under the default options the host gets back its document itself -/
theorem roundtrip_history_default (d0 : Py) (id nx : Nat) (ops : List Op) (t : Nat)
    (h : ops[t]? = some (.evaluate true {})) (hd : isDoc (docAt d0 ops t) = true) :
    (run ⟨d0, id, nx, []⟩ ops)[t]? = some (some (.ok (docAt d0 ops t))) := by
  obtain ⟨h1, _, _⟩ := history_spec d0 id nx ops t
  rw [h1 true {} h]
  simp only [finalize, bindValue, if_true, roundtrip_default _ hd]

/-! ### non-vacuity and the contrast -/

def exD1 : Py := .map .dict [(.sc (.str ['a']), .seq .list [.sc (.int 1)])]
def exD2 : Py := .map .dict [(.sc (.str ['a']), .seq .list [.sc (.int 1), .sc (.int 2)])]
def exOps : List Op :=
  [.evaluate true {}, .bind, .mutate exD2, .evaluate true {}, .evalBound 0 {}, .evalBound 0 { t2l := false }]

/-- evaluate / bind / mutate in place / evaluate again / evaluate through the context bound before, twice with
    different options: new content, old content, old content with tuples kept -/
example : run ⟨exD1, 0, 1, []⟩ exOps =
    [some (.ok exD1), none, none, some (.ok exD2), some (.ok exD1),
     some (.ok (.map .dict [(.sc (.str ['a']), .seq .tuple [.sc (.int 1)])]))] := by rfl
example : docAt exD1 exOps 3 = exD2 ∧ bindTimes (exOps.take 4) = [1] ∧ docAt exD1 exOps 1 = exD1 ∧
    isDoc exD2 = true := ⟨rfl, rfl, rfl, rfl⟩

/-- **C10.memo_breaks_roundtrip**: a statement that keeps `(document object, converted document)` of its last
    evaluation returns the OLD content for a document changed in place - it does not satisfy `roundtrip_history`
    (while agreeing with the real design as long as the host never mutates in place). -/
theorem memo_breaks_roundtrip :
    runMemo ⟨⟨exD1, 0, 1, []⟩, none⟩ [.evaluate true {}, .mutate exD2, .evaluate true {}]
      = [some (.ok exD1), none, some (.ok exD1)] ∧
    run ⟨exD1, 0, 1, []⟩ [.evaluate true {}, .mutate exD2, .evaluate true {}]
      = [some (.ok exD1), none, some (.ok exD2)] ∧
    runMemo ⟨⟨exD1, 0, 1, []⟩, none⟩ [.evaluate true {}, .replace exD2, .evaluate true {}]
      = [some (.ok exD1), none, some (.ok exD2)] ∧
    exD1 ≠ exD2 := by
  refine ⟨rfl, rfl, rfl, ?_⟩
  intro h
  simp [exD1, exD2] at h

end Yaql.Props.C10
