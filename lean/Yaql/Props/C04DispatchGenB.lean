import Yaql.Props.C04DispatchSite
/-!
C04 / C05 over the generated registry, part B: the syntax forms (`$x`, `[..]`, `{..}`, `e[..]`, `e.x`, `->`, unary operators) and the functions of the fragment.
Per call site `c` three kernel evaluations against `Gen/RegistryTypes.lean` (regenerated from the live
`yaql.create_context()` on every run):
* `obs_c`   the representatives the translator proposes (`repsOfCallee c`) look the same as the argument shapes they
            stand for to EVERY parameter type registered under the name, before and after evaluation;
* `inv_c`   `EvalDispatch.dispatchOf` answers every call shape of the fragment like its representative;
* `reps_c`  on the representatives, `dispatchOf` = `Resolve.resolve` on the generated overload family (live parameter
            types, class lattice, layers): same definition (python payload) or same error class, same arguments evaluated.
`Props/C04DispatchGen.lean` turns the three into the statement for every shape of the fragment (`Props/C04Dispatch.lean`:
`resolve_congr`).
-/
namespace Yaql.Props.C04DispatchGen
open Yaql Yaql.Eval Yaql.EvalDispatch Yaql.Gen.RegistryTypes

set_option maxRecDepth 1000000

theorem obs_getContextData : siteObs (.getContextData) = true := by decide +kernel
theorem inv_getContextData : siteInv (.getContextData) = true := by decide +kernel
theorem reps_getContextData : siteReps (.getContextData) = true := by decide +kernel

theorem obs_list : siteObs (.list) = true := by decide +kernel
theorem inv_list : siteInv (.list) = true := by decide +kernel
theorem reps_list : siteReps (.list) = true := by decide +kernel

theorem obs_map : siteObs (.map) = true := by decide +kernel
theorem inv_map : siteInv (.map) = true := by decide +kernel
theorem reps_map : siteReps (.map) = true := by decide +kernel

theorem obs_indexer : siteObs (.indexer) = true := by decide +kernel
theorem inv_indexer : siteInv (.indexer) = true := by decide +kernel
theorem reps_indexer : siteReps (.indexer) = true := by decide +kernel

theorem obs_dot : siteObs (.dot) = true := by decide +kernel
theorem inv_dot : siteInv (.dot) = true := by decide +kernel
theorem reps_dot : siteReps (.dot) = true := by decide +kernel

theorem obs_arrow : siteObs (.arrow) = true := by decide +kernel
theorem inv_arrow : siteInv (.arrow) = true := by decide +kernel
theorem reps_arrow : siteReps (.arrow) = true := by decide +kernel

theorem obs_un_not : siteObs (.un .not) = true := by decide +kernel
theorem inv_un_not : siteInv (.un .not) = true := by decide +kernel
theorem reps_un_not : siteReps (.un .not) = true := by decide +kernel

theorem obs_un_neg : siteObs (.un .neg) = true := by decide +kernel
theorem inv_un_neg : siteInv (.un .neg) = true := by decide +kernel
theorem reps_un_neg : siteReps (.un .neg) = true := by decide +kernel

theorem obs_fn_let : siteObs (.fn .let_) = true := by decide +kernel
theorem inv_fn_let : siteInv (.fn .let_) = true := by decide +kernel
theorem reps_fn_let : siteReps (.fn .let_) = true := by decide +kernel

theorem obs_fn_with : siteObs (.fn .with_) = true := by decide +kernel
theorem inv_fn_with : siteInv (.fn .with_) = true := by decide +kernel
theorem reps_fn_with : siteReps (.fn .with_) = true := by decide +kernel

theorem obs_fn_def : siteObs (.fn .def_) = true := by decide +kernel
theorem inv_fn_def : siteInv (.fn .def_) = true := by decide +kernel
theorem reps_fn_def : siteReps (.fn .def_) = true := by decide +kernel

theorem obs_fn_list : siteObs (.fn .list) = true := by decide +kernel
theorem inv_fn_list : siteInv (.fn .list) = true := by decide +kernel
theorem reps_fn_list : siteReps (.fn .list) = true := by decide +kernel

theorem obs_fn_dict : siteObs (.fn .dict) = true := by decide +kernel
theorem inv_fn_dict : siteInv (.fn .dict) = true := by decide +kernel
theorem reps_fn_dict : siteReps (.fn .dict) = true := by decide +kernel

end Yaql.Props.C04DispatchGen
