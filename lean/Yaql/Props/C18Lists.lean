import Yaql.Model.SharedList
import Yaql.Props.C18
/-!
C18 for raw mutable host values shared through the prepared context (`Model/SharedList.lean`):
`orderBy` over a Python list the host stored in the shared context.

* the code (`sorted(collection, ..)`: a private copy) only READS the shared list, so the generic
  isolation theorem applies: every schedule, any number of threads, any programs - the shared values
  are unchanged and every finished thread returned `den`, an explicit function of the initial shared
  values and its own program (`lists_isolated`, `lists_results`);
* sorting the shared object where it is (`list.sort`) interferes: a concurrent reader sees the list
  CPython emptied for the duration of the sort, and the shared context stays sorted
  (`inplace_sort_interferes`, `inplace_sort_changes_shared_alone`); restoring the original order at the
  end repairs only the second half (`inplace_restore_unchanged_alone`, `inplace_restore_interferes`).
-/
namespace Yaql.Props.C18
open Yaql.Sched Yaql.SharedList

/-! ## the copying sort is read-only -/

theorem copy_step_shared (s s' : Shared) (p p' : PState)
    (h : (machine .copy).step s p = .inl (s', p')) : s' = s := by
  simp only [machine, SharedList.step] at h
  cases hp : p.pend with
  | some st =>
      simp only [hp] at h
      by_cases hl : st.left = 0
      · simp only [hl, if_true, finish, Sum.inl.injEq, Prod.mk.injEq] at h
        exact h.1.symm
      · simp only [hl, if_false, Sum.inl.injEq, Prod.mk.injEq] at h
        exact h.1.symm
  | none =>
      simp only [hp] at h
      cases hprog : p.prog with
      | nil => simp [hprog] at h
      | cons op rest =>
          cases op with
          | read v =>
              simp only [hprog, Sum.inl.injEq, Prod.mk.injEq] at h
              exact h.1.symm
          | sortBy v sel asc =>
              simp only [hprog, start, Sum.inl.injEq] at h
              cases hv : s[v]? with
              | none =>
                  simp only [hv, Prod.mk.injEq] at h
                  exact h.1.symm
              | some items =>
                  simp only [hv] at h
                  by_cases hlen : items.length ≤ 1
                  · simp only [hlen, if_true, Prod.mk.injEq] at h
                    exact h.1.symm
                  · simp only [hlen, if_false, Prod.mk.injEq] at h
                    exact h.1.symm

theorem copy_readOnly : ReadOnly (machine .copy) (fun _ => True) :=
  fun s p s' p' _ h => ⟨copy_step_shared s s' p p' h, trivial⟩

/-- **C18 for shared host lists (isolation).**  With the copying sort: any number of threads, any
    programs of sorts and reads over the shared lists, EVERY schedule - the shared lists are what they
    were, and every finished thread returned its (unique) solo result. -/
theorem lists_isolated (s0 : Shared) (ps : List PState) (sched : List Nat) :
    (run (machine .copy) ⟨s0, ps.map .running⟩ sched).shared = s0 ∧
    ∀ (i : Nat) (r : List Out),
      (run (machine .copy) ⟨s0, ps.map .running⟩ sched).threads[i]? = some (Thread.done r) →
      ∃ t, (ps.map (Thread.running (R := List Out)))[i]? = some t ∧
        SoloResult (machine .copy) s0 t r ∧ ∀ r', SoloResult (machine .copy) s0 t r' → r' = r :=
  isolation (machine .copy) (fun _ => True) copy_readOnly ⟨s0, ps.map .running⟩
    (by intro t ht; obtain ⟨p, _, rfl⟩ := List.mem_map.mp ht; trivial) sched

/-! ## the solo result is `den` -/

theorem copy_step_den (s : Shared) (p p' : PState) (s' : Shared)
    (h : (machine .copy).step s p = .inl (s', p')) :
    den s p' = den s p ∧ stepsLeft s p' < stepsLeft s p := by
  simp only [machine, SharedList.step] at h
  cases hp : p.pend with
  | some st =>
      simp only [hp] at h
      by_cases hl : st.left = 0
      · simp only [hl, if_true, finish, Sum.inl.injEq, Prod.mk.injEq] at h
        obtain ⟨_, rfl⟩ := h
        simp [den, stepsLeft, emit, hp, List.append_assoc]
      · simp only [hl, if_false, Sum.inl.injEq, Prod.mk.injEq] at h
        obtain ⟨_, rfl⟩ := h
        simp only [den, stepsLeft, hp]
        refine ⟨trivial, ?_⟩
        omega
  | none =>
      simp only [hp] at h
      cases hprog : p.prog with
      | nil => simp [hprog] at h
      | cons op rest =>
          cases op with
          | read v =>
              simp only [hprog, Sum.inl.injEq, Prod.mk.injEq] at h
              obtain ⟨_, rfl⟩ := h
              simp [den, stepsLeft, emit, hp, hprog, evalOp, progCost, opCost, List.append_assoc]
          | sortBy v sel asc =>
              simp only [hprog, start, Sum.inl.injEq] at h
              cases hv : s[v]? with
              | none =>
                  simp only [hv, Prod.mk.injEq] at h
                  obtain ⟨_, rfl⟩ := h
                  simp [den, stepsLeft, emit, hp, hprog, evalOp, hv, progCost, opCost, List.append_assoc]
              | some items =>
                  simp only [hv] at h
                  by_cases hlen : items.length ≤ 1
                  · simp only [hlen, if_true, Prod.mk.injEq] at h
                    obtain ⟨_, rfl⟩ := h
                    simp [den, stepsLeft, emit, hp, hprog, evalOp, hv, hlen, progCost, opCost, List.append_assoc]
                  · simp only [hlen, if_false, Prod.mk.injEq] at h
                    obtain ⟨_, rfl⟩ := h
                    simp only [den, stepsLeft, hp, hprog, evalOp, hv, hlen, if_false, List.map_cons, progCost, opCost,
                      Option.getD_some]
                    refine ⟨trivial, ?_⟩
                    omega

theorem copy_done_den (s : Shared) (p : PState) (r : List Out)
    (h : (machine .copy).step s p = .inr r) : r = den s p := by
  simp only [machine, SharedList.step] at h
  cases hp : p.pend with
  | some st =>
      simp only [hp] at h
      by_cases hl : st.left = 0 <;> simp [hl] at h
  | none =>
      simp only [hp] at h
      cases hprog : p.prog with
      | nil =>
          simp only [hprog, Sum.inr.injEq] at h
          simp [den, hp, hprog, h]
      | cons op rest => cases op <;> simp [hprog] at h

theorem lists_solo_is_den (s : Shared) :
    ∀ (k : Nat) (p : PState), stepsLeft s p < k → SoloResult (machine .copy) s (.running p) (den s p) := by
  intro k
  induction k with
  | zero => intro p h; omega
  | succ k ih =>
      intro p hk
      cases hst : (machine .copy).step s p with
      | inl sp =>
          obtain ⟨s', p'⟩ := sp
          have hs : s' = s := copy_step_shared s s' p p' hst
          subst hs
          obtain ⟨hd, hm⟩ := copy_step_den s' p p' s' hst
          obtain ⟨n, hn⟩ := ih p' (by omega)
          refine ⟨n + 1, ?_⟩
          rw [soloIter_succ]
          simp only [stepThread, hst]
          rw [hn, hd]
      | inr q =>
          refine ⟨1, ?_⟩
          rw [soloIter_succ]
          simp only [stepThread, hst, soloIter]
          rw [copy_done_den s p q hst]

/-- **the results are schedule-independent and explicit**: every finished thread returned `den` of the
    INITIAL shared values and its own program - per operation the rows of the variable, sorted for a
    `sortBy` (`SharedList.evalOp`) -/
theorem lists_results (s0 : Shared) (ps : List PState) (sched : List Nat) (i : Nat) (r : List Out)
    (h : (run (machine .copy) ⟨s0, ps.map .running⟩ sched).threads[i]? = some (Thread.done r)) :
    ∃ p, ps[i]? = some p ∧ r = den s0 p := by
  obtain ⟨_, h3⟩ := lists_isolated s0 ps sched
  obtain ⟨t, ht, _, huniq⟩ := h3 i r h
  simp only [List.getElem?_map] at ht
  cases hp : ps[i]? with
  | none => simp [hp] at ht
  | some p =>
      simp only [hp, Option.map_some, Option.some.injEq] at ht
      subst ht
      exact ⟨p, rfl, (huniq _ (lists_solo_is_den s0 (stepsLeft s0 p + 1) p (by omega))).symm⟩

/-- a program that has not started returns, per operation, `evalOp` of the initial shared values -/
theorem lists_results_fresh (s0 : Shared) (progs : List (List Op)) (sched : List Nat) (i : Nat) (r : List Out)
    (h : (run (machine .copy) ⟨s0, (progs.map fun pr => ({ prog := pr } : PState)).map .running⟩ sched).threads[i]?
      = some (Thread.done r)) :
    ∃ pr, progs[i]? = some pr ∧ r = pr.map (evalOp s0) := by
  obtain ⟨p, hp, hr⟩ := lists_results s0 _ sched i r h
  simp only [List.getElem?_map] at hp
  cases hpr : progs[i]? with
  | none => simp [hpr] at hp
  | some pr =>
      simp only [hpr, Option.map_some, Option.some.injEq] at hp
      subst hp
      exact ⟨pr, rfl, by simpa [den] using hr⟩

/-! ## non-vacuity and the negative witnesses -/

/-- `$hosts = [(4,0), (1,0), (3,0), (2,0)]`; thread 0 sorts it, thread 1 reads it -/
def exShared : Shared := [[(4, 0), (1, 0), (3, 0), (2, 0)]]
def exSorter : PState := { prog := [.sortBy 0 .fst true] }
def exReader : PState := { prog := [.read 0] }
def exSys : Sys Shared PState (List Out) := ⟨exShared, [.running exSorter, .running exReader]⟩

/-- the reader runs while the sorter is between two key-selector calls -/
def exSched : List Nat := [0, 0, 1, 1, 0, 0, 0, 0]

/-- the code: both threads finish with their solo results, the shared list is untouched -/
example : (run (machine .copy) exSys exSched).shared = exShared ∧
    results (run (machine .copy) exSys exSched) =
      [some [.rows [(1, 0), (2, 0), (3, 0), (4, 0)]], some [.rows [(4, 0), (1, 0), (3, 0), (2, 0)]]] := by decide

example : den exShared exSorter = [.rows [(1, 0), (2, 0), (3, 0), (4, 0)]] ∧
    den exShared exReader = [.rows [(4, 0), (1, 0), (3, 0), (2, 0)]] := by decide

/-- **in-place sort of a shared list interferes**: under `exSched` the reader returns the EMPTY list
    (alone: the four rows), and the shared context holds the sorted list afterwards -/
theorem inplace_sort_interferes :
    results (run (machine .inPlace) exSys exSched) =
      [some [.rows [(1, 0), (2, 0), (3, 0), (4, 0)]], some [.rows []]] ∧
    soloResult? (machine .inPlace) 8 exShared (.running exReader) = some [.rows [(4, 0), (1, 0), (3, 0), (2, 0)]] ∧
    (run (machine .inPlace) exSys exSched).shared = [[(1, 0), (2, 0), (3, 0), (4, 0)]] ∧
    (run (machine .inPlace) exSys exSched).shared ≠ exShared := by decide

/-- no second thread is needed for the second clause of the property: ONE evaluation leaves the
    shared context changed -/
theorem inplace_sort_changes_shared_alone :
    (soloIter (machine .inPlace) 6 (exShared, .running exSorter)).2 = .done [.rows [(1, 0), (2, 0), (3, 0), (4, 0)]] ∧
    (soloIter (machine .inPlace) 6 (exShared, .running exSorter)).1 ≠ exShared := by decide

/-- restoring the original order at the end repairs the context after a lone evaluation ... -/
theorem inplace_restore_unchanged_alone :
    (soloIter (machine .inPlaceRestore) 6 (exShared, .running exSorter)) =
      (exShared, .done [.rows [(1, 0), (2, 0), (3, 0), (4, 0)]]) := by decide

/-- ... but not what a concurrent reader sees while the sort is running -/
theorem inplace_restore_interferes :
    results (run (machine .inPlaceRestore) exSys exSched) =
      [some [.rows [(1, 0), (2, 0), (3, 0), (4, 0)]], some [.rows []]] ∧
    (run (machine .inPlaceRestore) exSys exSched).shared = exShared := by decide

/-- two concurrent in-place sorts of the same list: the second one finds the emptied list and returns
    no rows at all -/
theorem inplace_two_sorters_interfere :
    results (run (machine .inPlace) ⟨exShared, [.running exSorter, .running exSorter]⟩ [0, 0, 1, 1, 0, 0, 0, 0]) =
      [some [.rows [(1, 0), (2, 0), (3, 0), (4, 0)]], some [.rows []]] := by decide

end Yaql.Props.C18
