import Yaql.Gen.SrcRepeat
import Yaql.Lemmas.PyPrelude
import Yaql.Lemmas.PyLoops
import Yaql.Props.SrcLimits
/-!
Equivalence of the definitions translated from the CURRENT yaql source (`Yaql.Gen.SrcRepeat`, regenerated on every
run by harness/py2lean.py) with the hand-written model - for all inputs.  Sequence repetition with its memory estimate (collections.py; shared by C13 and C08).
-/
namespace Yaql.Props.SrcRepeat
open Yaql Yaql.Gen Yaql.Lemmas.PyLoops

theorem list_by_int_src_eq (sizes : Limits.SizeCfg) (kind : Limits.SeqK) (left : List Value) (right engine : Int) :
    SrcRepeat.list_by_int sizes kind left right engine
      = if Limits.listByIntCheck sizes engine kind left.length right then .ok (Seq.listByInt left right)
        else .error (.other 1) := by
  unfold SrcRepeat.list_by_int Limits.listByIntCheck
  rw [SrcLimits.limit_memory_usage_src_eq]
  first
    | (cases Limits.limitMemory engine [(-right + 1, sizes.tupleHdr), (right, sizes.seqSize kind left.length)] <;>
        simp [Py.repeat_, Seq.listByInt]; done)
    | grind [Py.repeat_, Seq.listByInt]

theorem int_by_list_src_eq (sizes : Limits.SizeCfg) (kind : Limits.SeqK) (left : Int) (right : List Value) (engine : Int) :
    SrcRepeat.int_by_list sizes kind left right engine
      = if Limits.listByIntCheck sizes engine kind right.length left then .ok (Seq.listByInt right left)
        else .error (.other 1) := by
  unfold SrcRepeat.int_by_list
  exact list_by_int_src_eq ..

end Yaql.Props.SrcRepeat
