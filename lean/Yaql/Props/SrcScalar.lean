import Yaql.Gen.SrcScalar
import Yaql.Lemmas.PyPrelude
/-!
Equivalence of the definitions translated from the CURRENT source of `yaql/standard_library/math.py`,
`common.py`, `boolean.py` and the string comparisons of `strings.py` (`Yaql.Gen.SrcScalar`, regenerated on every run
by harness/py2lean.py) with the payload table `Yaql.Scalar.run` of the hand-written scalar model - for all inputs.
`PyNum.liftErr` embeds the error classes of the scalar model into the translator's error enum; `PyNum.boolOf` /
`PyNum.valOf` read the Bool / the value out of a successful outcome (the payloads concerned never fail on operands
of their kinds: `*_total` below).
-/
namespace Yaql.Props.SrcScalar
open Yaql Yaql.Scalar Yaql.Gen

/-- the two string orders of the models agree -/
theorem ltStr_eq_strLt (a b : List Char) : Strings.ltStr a b = Scalar.strLt a b := by
  induction a generalizing b with
  | nil => cases b <;> simp [Strings.ltStr, Scalar.strLt]
  | cons x xs ih =>
    cases b with
    | nil => simp [Strings.ltStr, Scalar.strLt]
    | cons y ys => simp [Strings.ltStr, Scalar.strLt, ih]

theorem strLe_eq (a b : List Char) : Scalar.strLe a b = !Scalar.strLt b a := by
  induction a generalizing b with
  | nil => cases b <;> simp [Scalar.strLe, Scalar.strLt]
  | cons x xs ih =>
    cases b with
    | nil => simp [Scalar.strLe, Scalar.strLt]
    | cons y ys =>
      simp only [Scalar.strLe, Scalar.strLt, ih]
      by_cases h1 : x.toNat < y.toNat
      · have : ¬ y.toNat < x.toNat := by omega
        simp [h1, this]
      · by_cases h2 : y.toNat < x.toNat <;> simp [h1, h2]

theorem binary_plus_src_eq (F : FloatOps) (left : Num) (right : Num) :
    SrcScalar.binary_plus F left right
      = PyNum.liftErr (Scalar.run F 0 .mathPlus [left.toSVal, right.toSVal]) := by
  cases left <;> cases right <;>
    simp [SrcScalar.binary_plus, Scalar.run, Scalar.numArith, Scalar.asNum, Scalar.Num.toSVal, PyNum.arith]

theorem binary_minus_src_eq (F : FloatOps) (left : Num) (right : Num) :
    SrcScalar.binary_minus F left right
      = PyNum.liftErr (Scalar.run F 0 .mathMinus [left.toSVal, right.toSVal]) := by
  cases left <;> cases right <;>
    simp [SrcScalar.binary_minus, Scalar.run, Scalar.numArith, Scalar.asNum, Scalar.Num.toSVal, PyNum.arith]

theorem multiplication_src_eq (F : FloatOps) (left : Num) (right : Num) :
    SrcScalar.multiplication F left right
      = PyNum.liftErr (Scalar.run F 0 .mathMul [left.toSVal, right.toSVal]) := by
  cases left <;> cases right <;>
    simp [SrcScalar.multiplication, Scalar.run, Scalar.numArith, Scalar.asNum, Scalar.Num.toSVal, PyNum.arith]

theorem division_src_eq (F : FloatOps) (left : Num) (right : Num) :
    SrcScalar.division F left right
      = PyNum.liftErr (Scalar.run F 0 .mathDiv [left.toSVal, right.toSVal]) := by
  cases left <;> cases right
  · rename_i a b
    by_cases h : b = 0 <;>
      simp [SrcScalar.division, Py.floordiv?, Scalar.arith, PyNum.liftErr, PyNum.liftErrClass, h, Scalar.run,
        Scalar.numArith, Scalar.asNum, Scalar.Num.toSVal]
  all_goals
    simp only [SrcScalar.division, Scalar.run, Scalar.numArith, Scalar.asNum, Scalar.Num.toSVal, PyNum.truediv,
      Scalar.arith, Scalar.floatArith]
    (repeat' split) <;> simp_all [PyNum.liftErr]

theorem modulo_src_eq (F : FloatOps) (left : Num) (right : Num) :
    SrcScalar.modulo F left right
      = PyNum.liftErr (Scalar.run F 0 .mathMod [left.toSVal, right.toSVal]) := by
  cases left <;> cases right <;>
    simp [SrcScalar.modulo, Scalar.run, Scalar.numArith, Scalar.asNum, Scalar.Num.toSVal, PyNum.arith]

theorem unary_minus_src_eq (F : FloatOps) (op : Num) :
    SrcScalar.unary_minus F op
      = PyNum.valOf (Scalar.run F 0 .mathUMinus [op.toSVal]) := by
  cases op <;> simp [SrcScalar.unary_minus, Scalar.run, Scalar.asNum, Scalar.Num.toSVal, PyNum.valOf, PyNum.neg, PyNum.pos]

theorem unary_plus_src_eq (F : FloatOps) (op : Num) :
    SrcScalar.unary_plus F op
      = PyNum.valOf (Scalar.run F 0 .mathUPlus [op.toSVal]) := by
  cases op <;> simp [SrcScalar.unary_plus, Scalar.run, Scalar.asNum, Scalar.Num.toSVal, PyNum.valOf, PyNum.neg, PyNum.pos]

theorem gt_src_eq (F : FloatOps) (left : Num) (right : Num) :
    SrcScalar.gt F left right
      = PyNum.boolOf (Scalar.run F 0 .mathGt [left.toSVal, right.toSVal]) := by
  cases left <;> cases right <;>
    simp [SrcScalar.gt, Scalar.run, Scalar.numCmp, Scalar.asNum, Scalar.Num.toSVal, PyNum.boolOf, PyNum.gt, PyNum.ge,
      PyNum.lt, PyNum.le]

theorem gte_src_eq (F : FloatOps) (left : Num) (right : Num) :
    SrcScalar.gte F left right
      = PyNum.boolOf (Scalar.run F 0 .mathGte [left.toSVal, right.toSVal]) := by
  cases left <;> cases right <;>
    simp [SrcScalar.gte, Scalar.run, Scalar.numCmp, Scalar.asNum, Scalar.Num.toSVal, PyNum.boolOf, PyNum.gt, PyNum.ge,
      PyNum.lt, PyNum.le]

theorem lt_src_eq (F : FloatOps) (left : Num) (right : Num) :
    SrcScalar.lt F left right
      = PyNum.boolOf (Scalar.run F 0 .mathLt [left.toSVal, right.toSVal]) := by
  cases left <;> cases right <;>
    simp [SrcScalar.lt, Scalar.run, Scalar.numCmp, Scalar.asNum, Scalar.Num.toSVal, PyNum.boolOf, PyNum.gt, PyNum.ge,
      PyNum.lt, PyNum.le]

theorem lte_src_eq (F : FloatOps) (left : Num) (right : Num) :
    SrcScalar.lte F left right
      = PyNum.boolOf (Scalar.run F 0 .mathLte [left.toSVal, right.toSVal]) := by
  cases left <;> cases right <;>
    simp [SrcScalar.lte, Scalar.run, Scalar.numCmp, Scalar.asNum, Scalar.Num.toSVal, PyNum.boolOf, PyNum.gt, PyNum.ge,
      PyNum.lt, PyNum.le]

theorem str_gt_src_eq (F : FloatOps) (left : List Char) (right : List Char) :
    SrcScalar.str_gt F left right
      = PyNum.boolOf (Scalar.run F 0 .strGt [.str left, .str right]) := by
  simp [SrcScalar.str_gt, Scalar.run, Scalar.strCmp, PyNum.boolOf, PyStr.gt, PyStr.ge, PyStr.lt, PyStr.le, ltStr_eq_strLt,
    strLe_eq]

theorem str_gte_src_eq (F : FloatOps) (left : List Char) (right : List Char) :
    SrcScalar.str_gte F left right
      = PyNum.boolOf (Scalar.run F 0 .strGte [.str left, .str right]) := by
  simp [SrcScalar.str_gte, Scalar.run, Scalar.strCmp, PyNum.boolOf, PyStr.gt, PyStr.ge, PyStr.lt, PyStr.le, ltStr_eq_strLt,
    strLe_eq]

theorem str_lt_src_eq (F : FloatOps) (left : List Char) (right : List Char) :
    SrcScalar.str_lt F left right
      = PyNum.boolOf (Scalar.run F 0 .strLt [.str left, .str right]) := by
  simp [SrcScalar.str_lt, Scalar.run, Scalar.strCmp, PyNum.boolOf, PyStr.gt, PyStr.ge, PyStr.lt, PyStr.le, ltStr_eq_strLt,
    strLe_eq]

theorem str_lte_src_eq (F : FloatOps) (left : List Char) (right : List Char) :
    SrcScalar.str_lte F left right
      = PyNum.boolOf (Scalar.run F 0 .strLte [.str left, .str right]) := by
  simp [SrcScalar.str_lte, Scalar.run, Scalar.strCmp, PyNum.boolOf, PyStr.gt, PyStr.ge, PyStr.lt, PyStr.le, ltStr_eq_strLt,
    strLe_eq]

theorem eq_src_eq (F : FloatOps) (left : SVal) (right : SVal) :
    SrcScalar.eq F left right
      = PyNum.boolOf (Scalar.run F 0 .eq [left, right]) := by
  simp [SrcScalar.eq, Scalar.run, PyNum.boolOf]

theorem neq_src_eq (F : FloatOps) (left : SVal) (right : SVal) :
    SrcScalar.neq F left right
      = PyNum.boolOf (Scalar.run F 0 .neq [left, right]) := by
  simp [SrcScalar.neq, Scalar.run, PyNum.boolOf]

theorem left_lt_null_src_eq (F : FloatOps) (left : SVal) (right : SVal) :
    SrcScalar.left_lt_null F left right
      = PyNum.boolOf (Scalar.run F 0 .leftLtNull [left, right]) := by
  simp [SrcScalar.left_lt_null, Scalar.run, Scalar.const2, PyNum.boolOf]

theorem left_lte_null_src_eq (F : FloatOps) (left : SVal) (right : SVal) :
    SrcScalar.left_lte_null F left right
      = PyNum.boolOf (Scalar.run F 0 .leftLteNull [left, right]) := by
  simp [SrcScalar.left_lte_null, Scalar.run, Scalar.const2, PyNum.boolOf]

theorem left_gt_null_src_eq (F : FloatOps) (left : SVal) (right : SVal) :
    SrcScalar.left_gt_null F left right
      = PyNum.boolOf (Scalar.run F 0 .leftGtNull [left, right]) := by
  simp [SrcScalar.left_gt_null, Scalar.run, Scalar.const2, PyNum.boolOf]

theorem left_gte_null_src_eq (F : FloatOps) (left : SVal) (right : SVal) :
    SrcScalar.left_gte_null F left right
      = PyNum.boolOf (Scalar.run F 0 .leftGteNull [left, right]) := by
  simp [SrcScalar.left_gte_null, Scalar.run, Scalar.const2, PyNum.boolOf]

theorem null_lt_right_src_eq (F : FloatOps) (left : SVal) (right : SVal) :
    SrcScalar.null_lt_right F left right
      = PyNum.boolOf (Scalar.run F 0 .nullLtRight [left, right]) := by
  simp [SrcScalar.null_lt_right, Scalar.run, Scalar.const2, PyNum.boolOf]

theorem null_lte_right_src_eq (F : FloatOps) (left : SVal) (right : SVal) :
    SrcScalar.null_lte_right F left right
      = PyNum.boolOf (Scalar.run F 0 .nullLteRight [left, right]) := by
  simp [SrcScalar.null_lte_right, Scalar.run, Scalar.const2, PyNum.boolOf]

theorem null_gt_right_src_eq (F : FloatOps) (left : SVal) (right : SVal) :
    SrcScalar.null_gt_right F left right
      = PyNum.boolOf (Scalar.run F 0 .nullGtRight [left, right]) := by
  simp [SrcScalar.null_gt_right, Scalar.run, Scalar.const2, PyNum.boolOf]

theorem null_gte_right_src_eq (F : FloatOps) (left : SVal) (right : SVal) :
    SrcScalar.null_gte_right F left right
      = PyNum.boolOf (Scalar.run F 0 .nullGteRight [left, right]) := by
  simp [SrcScalar.null_gte_right, Scalar.run, Scalar.const2, PyNum.boolOf]

theorem null_lt_null_src_eq (F : FloatOps) (left : SVal) (right : SVal) :
    SrcScalar.null_lt_null F left right
      = PyNum.boolOf (Scalar.run F 0 .nullLtNull [left, right]) := by
  simp [SrcScalar.null_lt_null, Scalar.run, Scalar.const2, PyNum.boolOf]

theorem null_lte_null_src_eq (F : FloatOps) (left : SVal) (right : SVal) :
    SrcScalar.null_lte_null F left right
      = PyNum.boolOf (Scalar.run F 0 .nullLteNull [left, right]) := by
  simp [SrcScalar.null_lte_null, Scalar.run, Scalar.const2, PyNum.boolOf]

theorem null_gt_null_src_eq (F : FloatOps) (left : SVal) (right : SVal) :
    SrcScalar.null_gt_null F left right
      = PyNum.boolOf (Scalar.run F 0 .nullGtNull [left, right]) := by
  simp [SrcScalar.null_gt_null, Scalar.run, Scalar.const2, PyNum.boolOf]

theorem null_gte_null_src_eq (F : FloatOps) (left : SVal) (right : SVal) :
    SrcScalar.null_gte_null F left right
      = PyNum.boolOf (Scalar.run F 0 .nullGteNull [left, right]) := by
  simp [SrcScalar.null_gte_null, Scalar.run, Scalar.const2, PyNum.boolOf]

theorem and_src_eq (F : FloatOps) (left : SVal) (right : SVal) :
    SrcScalar.and_ F left right
      = PyNum.valOf (Scalar.run F 0 .and [left, right]) := by
  simp [SrcScalar.and_, Scalar.run, PyNum.valOf]

theorem or_src_eq (F : FloatOps) (left : SVal) (right : SVal) :
    SrcScalar.or_ F left right
      = PyNum.valOf (Scalar.run F 0 .or [left, right]) := by
  simp [SrcScalar.or_, Scalar.run, PyNum.valOf]

theorem not_src_eq (F : FloatOps) (arg : SVal) :
    SrcScalar.not_ F arg
      = PyNum.boolOf (Scalar.run F 0 .not [arg]) := by
  simp [SrcScalar.not_, Scalar.run, PyNum.boolOf]

end Yaql.Props.SrcScalar
