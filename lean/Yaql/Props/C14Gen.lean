import Yaql.Gen.StreamFacts
/-! C14, the part re-decided on every run against the live source text of the payloads. -/
namespace Yaql.Props.C14Gen
open Yaql.StreamUse Yaql.Gen.StreamFacts

/-- no payload of a streaming operator iterates its source eagerly: every use of the source
    parameter is a lazy wrapper that is returned, a loop inside a generator body, a short-circuit
    search loop, a single `next`, or an eager consumer of an `islice`-bounded part -/
theorem streaming_ops_lazy : facts.all (fun f => f.uses.all Use.isLazy) = true := by decide

/-- all 27 operators of the statement (+ the `limit_iterable` wrapper every Iterable argument
    goes through) were found and classified -/
theorem streaming_ops_all_found : facts.length = 28 ∧ facts.all (fun f => !f.uses.isEmpty) = true := by decide

/-- the source is used for iteration in every payload: it is wrapped, looped over, pulled or
    delegated - never ignored -/
theorem streaming_ops_use_source : facts.all (fun f => !f.uses.contains .unused) = true := by decide

end Yaql.Props.C14Gen
